package main

// Harness of the "ps" engine (properties C08, C09 and the PS part of C10): drives the real
// github.com/IBM/TSS/mpc/ps package of /repo (pinned mathlib v0.0.2), one JSON line per case.

import (
	"bufio"
	"encoding/json"
	"flag"
	"fmt"
	"os"
)

var out *bufio.Writer

func emit(v interface{}) {
	b, err := json.Marshal(v)
	if err != nil {
		panic(err)
	}
	out.Write(b)
	out.WriteByte('\n')
}

func main() {
	if len(os.Args) < 2 {
		fmt.Fprintln(os.Stderr, "usage: ps <complete|perturb|reuse|malformed> [flags]")
		os.Exit(2)
	}
	cmd := os.Args[1]
	fs := flag.NewFlagSet(cmd, flag.ExitOnError)
	seed := fs.Uint64("seed", 1, "PRNG seed")
	tier := fs.String("tier", "quick", "quick|thorough")
	outPath := fs.String("out", "", "output file (JSON lines); default stdout")
	fs.Parse(os.Args[2:])
	f := os.Stdout
	if *outPath != "" {
		var err error
		f, err = os.Create(*outPath)
		if err != nil {
			panic(err)
		}
		defer f.Close()
	}
	out = bufio.NewWriterSize(f, 1<<20)
	defer out.Flush()
	thorough := *tier == "thorough"
	switch cmd {
	case "complete":
		runComplete(*seed, thorough)
	case "perturb":
		runPerturb(*seed, thorough)
	case "reuse":
		runReuse(*seed, thorough)
	case "malformed":
		runMalformed(*seed, thorough)
	default:
		fmt.Fprintln(os.Stderr, "unknown command", cmd)
		os.Exit(2)
	}
}
