package main

import (
	"bytes"
	"context"
	"encoding/asn1"
	"fmt"
	"math/big"

	"github.com/IBM/TSS/mpc/ps"
	math "github.com/IBM/mathlib"
)

// C08: real DKG, blind / sign / unblind / prove / verify for every signer subset.

type jDKG struct {
	Kind      string `json:"kind"` // "dkg"
	N         int    `json:"N"`
	T         int    `json:"t"`
	L         int    `json:"L"`
	Order     []int  `json:"order"`
	IDs       []int  `json:"ids"` // party identifiers in rank order
	OK        bool   `json:"ok"`
	Err       string `json:"err"`
	TPKEqual  bool   `json:"tpk_equal"`  // every party reports the same public material (bytes)
	SkClosed  bool   `json:"sk_closed"`  // sk_i = sum_j p_j(i) for x and every y
	PkClosed  bool   `json:"pk_closed"`  // published pk_i = g2^(sum_j p_j(i))
	TPKClosed bool   `json:"tpk_closed"` // threshold key = g2^(sum_j p_j(0))
	Scalars   int    `json:"scalars"`    // number of scalar comparisons made
	SecretX   string `json:"secret_x"`   // sum_j p_j(0) for x (hex), for the record
}

type jStep struct {
	Kind      string `json:"kind"` // "request" | "sign" | "unblind" | "pok"
	N         int    `json:"N"`
	T         int    `json:"t"`
	L         int    `json:"L"`
	Pattern   []int  `json:"pattern"`
	Signer    int    `json:"signer,omitempty"`
	Signers   []int  `json:"signers,omitempty"`    // RANKS (positions in the party list), what the model is fed
	IDs       []int  `json:"ids"`                  // party identifiers in rank order (what the API is given)
	SignerIDs []int  `json:"signer_ids,omitempty"` // the identifiers handed to ProveKnowledgeOfSignature
	Reload    bool   `json:"reload,omitempty"`     // signer re-created from its stored share data
	Accept    bool   `json:"accept"`
	Panic     bool   `json:"panic"`
	Err       string `json:"err"`
}

func errStr(err error) string {
	if err == nil {
		return ""
	}
	return err.Error()
}

func checkDKG(d *dkg, order []int) jDKG {
	j := jDKG{Kind: "dkg", N: d.N, T: d.T, L: d.L, Order: order, IDs: u16s(d.ids), OK: d.ok()}
	if !j.OK {
		for i := 0; i < d.N; i++ {
			if d.errs[i] != nil {
				j.Err += fmt.Sprintf("party %d: %v; ", i+1, d.errs[i])
			}
			if d.panics[i] != "" {
				j.Err += fmt.Sprintf("party %d: PANIC %s; ", i+1, d.panics[i])
			}
		}
		return j
	}
	j.TPKEqual = true
	for i := 1; i < d.N; i++ {
		if !bytes.Equal(d.tpkRaw[0], d.tpkRaw[i]) {
			j.TPKEqual = false
		}
	}
	g2 := ps.VerifPSParamsOf(func() *ps.PP { pp, _ := ps.VerifPSSignerState(d.parties[0]); return pp }()).G2
	j.SkClosed, j.PkClosed, j.TPKClosed = true, true, true
	var tpk thresholdPK
	if _, err := asn1.Unmarshal(d.tpkRaw[0], &tpk); err != nil {
		j.Err = err.Error()
		return j
	}
	for i := 0; i < d.N; i++ {
		_, sk, err := unmarshalStored(d.shares[i])
		if err != nil || len(sk.Ys) != d.L+1 {
			j.SkClosed = false
			continue
		}
		pk, err := ps.VerifPSParsePK(curve, tpk.PublicKeys[i])
		if err != nil || len(pk.Y) != d.L+1 {
			j.PkClosed = false
			continue
		}
		for c := 0; c < d.L+2; c++ {
			want := d.closedForm(c, int64(i+1))
			var got []byte
			var gotPt *math.G2
			if c == 0 {
				got, gotPt = sk.X, pk.X
			} else {
				got, gotPt = sk.Ys[c-1], pk.Y[c-1]
			}
			j.Scalars++
			if new(big.Int).Mod(zrBig(curve.NewZrFromBytes(got)), groupOrder).Cmp(want) != 0 {
				j.SkClosed = false
			}
			if !gotPt.Equals(g2.Mul(bigZr(want))) {
				j.PkClosed = false
			}
		}
	}
	tk, err := ps.VerifPSParsePK(curve, tpk.TPK)
	if err != nil || len(tk.Y) != d.L+1 {
		j.TPKClosed = false
	} else {
		for c := 0; c < d.L+2; c++ {
			want := d.closedForm(c, 0)
			pt := tk.X
			if c > 0 {
				pt = tk.Y[c-1]
			}
			j.Scalars++
			if !pt.Equals(g2.Mul(bigZr(want))) {
				j.TPKClosed = false
			}
		}
	}
	j.SecretX = d.closedForm(0, 0).Text(16)
	return j
}

// session is one blinded request with the signatures and witnesses of all parties.
type session struct {
	pattern   []int
	prover    *ps.Prover
	req       ps.BlindSignature
	reqRaw    []byte
	secret    *ps.UnblindingSecret
	sigs      [][]byte
	witnesses []ps.SignatureWitness
	okAll     bool
	d         *dkg
}

func newProver(d *dkg) (*ps.Prover, error) {
	p := &ps.Prover{Logger: nolog{}}
	err := p.Init(curve, d.L, d.tpkRaw[0], append([]uint16{}, d.ids...))
	return p, err
}

// signerFor returns the TPS that signs for party i (0-based): the instance that ran KeyGen, or a fresh one
// loaded from the stored share data as the repository's test does.
func signerFor(d *dkg, i int, reload bool) (*ps.TPS, error) {
	if !reload {
		return d.parties[i], nil
	}
	t := &ps.TPS{Curve: curve, Party: d.ids[i], Logger: nolog{}, MessageLength: d.L}
	t.Init(append([]uint16{}, d.ids...), d.T, func([]byte, bool, uint16) {})
	if err := t.SetShareData(d.shares[i]); err != nil {
		return nil, err
	}
	return t, nil
}

func runSession(d *dkg, pattern []int, seed uint64, record bool, reload bool) *session {
	s := &session{pattern: pattern, okAll: true, d: d}
	base := jStep{N: d.N, T: d.T, L: d.L, Pattern: pattern, IDs: u16s(d.ids)}
	prover, err := newProver(d)
	if err != nil {
		s.okAll = false
		if record {
			st := base
			st.Kind, st.Err = "request", "prover init: "+err.Error()
			emit(st)
		}
		return s
	}
	s.prover = prover
	setRand(seed)
	var secret ps.UnblindingSecret
	_, pan, what := guard(func() error { s.req, secret = prover.Blind(msgOf(pattern)); return nil })
	if pan {
		s.okAll = false
		if record {
			st := base
			st.Kind, st.Panic, st.Err = "request", true, what
			emit(st)
		}
		return s
	}
	s.secret = &secret
	s.reqRaw = s.req.Bytes()
	s.sigs = make([][]byte, d.N)
	s.witnesses = make([]ps.SignatureWitness, d.N)
	for i := 0; i < d.N; i++ {
		st := base
		st.Kind, st.Signer, st.Reload = "sign", i+1, reload
		signer, err := signerFor(d, i, reload)
		if err == nil {
			err, st.Panic, st.Err = guard(func() error {
				var e error
				s.sigs[i], e = signer.Sign(context.Background(), s.reqRaw)
				return e
			})
		}
		st.Accept = err == nil && !st.Panic
		if err != nil {
			st.Err = err.Error()
		}
		if record {
			emit(st)
		}
		if !st.Accept {
			s.okAll = false
			continue
		}
		ub := base
		ub.Kind, ub.Signer = "unblind", i+1
		err, ub.Panic, ub.Err = guard(func() error {
			var e error
			s.witnesses[i], e = prover.UnBlind(d.ids[i], s.sigs[i], s.secret)
			return e
		})
		ub.Accept = err == nil && !ub.Panic
		if err != nil {
			ub.Err = err.Error()
		}
		if record {
			emit(ub)
		}
		if !ub.Accept {
			s.okAll = false
		}
	}
	return s
}

func newVerifier(d *dkg) (*ps.Verifier, error) {
	v := &ps.Verifier{}
	return v, v.Init(curve, d.L, d.tpkRaw[0])
}

// provePoK: signers are RANKS; the prover is given the corresponding party identifiers.
func provePoK(s *session, signers []uint16) (raw []byte, pok ps.SigPoK, err error, pan bool, what string) {
	ws := make([]ps.SignatureWitness, len(signers))
	for k, id := range signers {
		ws[k] = s.witnesses[int(id)-1]
	}
	err, pan, what = guard(func() error {
		pok = s.prover.ProveKnowledgeOfSignature(s.secret, s.d.idsOf(signers), ws)
		raw = pok.Bytes()
		return nil
	})
	return
}

var idSets = [][]uint16{{1, 2, 4}, {2, 3, 5}, {1, 3, 4, 6}, {3, 7}, {0, 1, 2}, {255, 256, 300}, {65533, 65534, 65535}, {4, 2, 1}}

var patterns = map[int][][]int{
	1: {{1}, {0}},
	2: {{1, 2}, {3, 3}, {0, 1}},
	3: {{1, 2, 3}, {2, 2, 2}, {0, 0, 5}},
	4: {{1, 2, 3, 4}, {1, 0, 1, 0}},
}

func runComplete(seed uint64, thorough bool) {
	r := newPRNG(seed)
	configs := [][2]int{{2, 2}, {3, 2}, {3, 3}, {4, 2}, {4, 3}, {4, 4}}
	rounds := 1
	if thorough {
		rounds = 5
	}
	for round := 0; round < rounds; round++ {
		for _, cfg := range configs {
			N, T := cfg[0], cfg[1]
			for L := 1; L <= 4; L++ {
				completeRun(r, ids(N), T, L, false)
			}
		}
		// larger party counts (the sums of shares grow with n): one message vector, a few subsets each
		large := [][2]int{{6, 2}, {8, 3}, {12, 2}, {12, 7}}
		if thorough {
			large = append(large, [2]int{16, 2}, [2]int{10, 10})
		}
		for _, cfg := range large {
			completeRun(r, ids(cfg[0]), cfg[1], 1, true)
		}
		// party identifier sets other than 1..n (the rank of a party is its position in the list)
		for si, idl := range idSets {
			T := 2 + (si+round)%(len(idl)-1)
			L := 1 + (si+round)%3
			completeRun(r, idl, T, L, false)
			if thorough && T != 2 {
				completeRun(r, idl, 2, L, false)
			}
		}
	}
}

// completeRun: one key generation among the parties idl (identifiers in rank order) and everything after it.
// few: one message vector and a handful of signer subsets (larger party counts).
func completeRun(r *prng, idl []uint16, T, L int, few bool) {
	N := len(idl)
	order := identityOrder(N)
	if r.chance(1, 2) { // another start (= delivery) order of the DKG
		for i := N - 1; i > 0; i-- {
			j := r.intn(i + 1)
			order[i], order[j] = order[j], order[i]
		}
	}
	d := runDKGIDs(idl, T, L, r.next(), order)
	emit(checkDKG(d, order))
	if !d.ok() {
		return
	}
	verifier, verr := newVerifier(d)
	pats := patterns[L]
	if few {
		pats = pats[:1]
	}
	for pi, pattern := range pats {
		s := runSession(d, pattern, r.next(), true, pi%2 == 1)
		req := jStep{Kind: "request", N: N, T: T, L: L, Pattern: pattern, IDs: u16s(idl), Accept: s.okAll}
		emit(req)
		if !s.okAll {
			continue
		}
		var subs [][]uint16
		if few {
			subs = fewSubsets(r, N, T)
		} else {
			subs = subsets(N, T, N)
		}
		// one subset also in reversed order (the prover takes any order of signers)
		if len(subs) > 0 {
			last := subs[len(subs)-1]
			rev := make([]uint16, len(last))
			for i := range last {
				rev[i] = last[len(last)-1-i]
			}
			if len(rev) > 1 {
				subs = append(subs, rev)
			}
		}
		for _, signers := range subs {
			st := jStep{Kind: "pok", N: N, T: T, L: L, Pattern: pattern, IDs: u16s(idl), Signers: u16s(signers), SignerIDs: u16s(d.idsOf(signers))}
			raw, _, err, pan, what := provePoK(s, signers)
			if pan || err != nil {
				st.Panic, st.Err = pan, what+errStr(err)
				emit(st)
				continue
			}
			if verr != nil {
				st.Err = "verifier init: " + verr.Error()
				emit(st)
				continue
			}
			err, st.Panic, st.Err = guard(func() error { return verifier.Verify(raw) })
			st.Accept = err == nil && !st.Panic
			if err != nil {
				st.Err = err.Error()
			}
			emit(st)
		}
	}
}

// fewSubsets: the first t ranks, the last t ranks, a random t-subset, a random (t+1)-subset and everybody.
func fewSubsets(r *prng, N, T int) [][]uint16 {
	pick := func(k int) []uint16 {
		perm := identityOrder(N)
		for i := N - 1; i > 0; i-- {
			j := r.intn(i + 1)
			perm[i], perm[j] = perm[j], perm[i]
		}
		in := make([]bool, N)
		for _, x := range perm[:k] {
			in[x] = true
		}
		var res []uint16
		for i := 0; i < N; i++ {
			if in[i] {
				res = append(res, uint16(i+1))
			}
		}
		return res
	}
	first, last := make([]uint16, T), make([]uint16, T)
	for i := 0; i < T; i++ {
		first[i], last[i] = uint16(i+1), uint16(N-T+i+1)
	}
	res := [][]uint16{first, last, pick(T)}
	if T+1 <= N {
		res = append(res, pick(T+1))
	}
	return append(res, ids(N))
}
