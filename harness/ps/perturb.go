package main

import (
	"bytes"
	"context"
	"math/big"

	"github.com/IBM/TSS/mpc/ps"
	math "github.com/IBM/mathlib"
)

// C09 (PS half): perturbation catalogue on real objects.  Every case is verified twice.

type jCase struct {
	Kind    string `json:"kind"` // "case"
	Cls     string `json:"cls"`  // req | reqforge | pok | pokforge | pokthr | oracle
	N       int    `json:"N"`
	T       int    `json:"t"`
	L       int    `json:"L"`
	Pat     []int  `json:"pat"`
	Pat2    []int  `json:"pat2"`
	Signers []int  `json:"signers"`
	Comp    string `json:"comp"`
	Idx     int    `json:"idx"`
	Pert    string `json:"pert"` // none | plusgen | swap | zero   (req, pok);  lie / variant name otherwise
	Path    string `json:"path"` // bytes | object
	V1      bool   `json:"v1"`   // first verdict: accepted
	V2      bool   `json:"v2"`   // second verdict on the same object / bytes
	Panic   bool   `json:"panic"`
	Err     string `json:"err"`
	Changed bool   `json:"changed"`       // oracle cases: digest differs from the unperturbed one
	IDs     []int  `json:"ids,omitempty"` // party identifiers in rank order when they are not 1..N (signers are ranks)
}

func g1Zero() *math.G1           { z := curve.GenG1.Copy(); z.Sub(curve.GenG1); return z }
func g2Zero() *math.G2           { z := curve.GenG2.Copy(); z.Sub(curve.GenG2); return z }
func g1Plus(p *math.G1) *math.G1 { q := p.Copy(); q.Add(curve.GenG1); return q }
func g2Plus(p *math.G2) *math.G2 { q := p.Copy(); q.Add(curve.GenG2); return q }
func zrPlus(z *math.Zr) *math.Zr { return bigZr(zrBig(z.Plus(curve.NewZrFromInt(1)))) }

func pertG1(p, other *math.G1, kind string) *math.G1 {
	switch kind {
	case "plusgen":
		return g1Plus(p)
	case "swap":
		return other.Copy()
	case "zero":
		return g1Zero()
	}
	return p
}

func pertG2(p, other *math.G2, kind string) *math.G2 {
	switch kind {
	case "plusgen":
		return g2Plus(p)
	case "swap":
		return other.Copy()
	case "zero":
		return g2Zero()
	}
	return p
}

func pertZr(z, other *math.Zr, kind string) *math.Zr {
	switch kind {
	case "plusgen":
		return zrPlus(z)
	case "swap":
		return other.Copy()
	case "zero":
		return curve.NewZrFromInt(0)
	}
	return z
}

var reqComps = []string{"cm", "u", "mprime", "a", "b", "x", "y", "s", "z", "d", "f"}
var pokComps = []string{"x", "y", "Gamma", "Phi", "he", "hpe", "nu", "kappa"}
var pertKinds = []string{"plusgen", "swap", "zero"}

func isVec(comp string) bool {
	switch comp {
	case "a", "b", "x", "y", "d", "f":
		return true
	}
	return false
}

// perturbRequest returns a fresh request object (parsed from raw) with one component replaced.
func perturbRequest(raw, raw2 []byte, comp string, idx int, kind string) (ps.BlindSignature, error) {
	bs, err := ps.VerifPSParseRequest(curve, raw)
	if err != nil {
		return bs, err
	}
	o, err := ps.VerifPSParseRequest(curve, raw2)
	if err != nil {
		return bs, err
	}
	v, w := ps.VerifPSRequestOf(bs), ps.VerifPSRequestOf(o)
	switch comp {
	case "cm":
		v.CM = pertG1(v.CM, w.CM, kind)
	case "u":
		v.U = pertG1(v.U, w.U, kind)
	case "mprime":
		v.MPrime = pertZr(v.MPrime, w.MPrime, kind)
	case "a":
		v.A[idx] = pertG1(v.A[idx], w.A[idx], kind)
	case "b":
		v.B[idx] = pertG1(v.B[idx], w.B[idx], kind)
	case "x":
		v.X[idx] = pertZr(v.X[idx], w.X[idx], kind)
	case "y":
		v.Y[idx] = pertZr(v.Y[idx], w.Y[idx], kind)
	case "s":
		v.S = pertG1(v.S, w.S, kind)
	case "z":
		v.Z = pertZr(v.Z, w.Z, kind)
	case "d":
		v.D[idx] = pertG1(v.D[idx], w.D[idx], kind)
	case "f":
		v.F[idx] = pertG1(v.F[idx], w.F[idx], kind)
	}
	return v.BlindSignature(), nil
}

func perturbPoK(raw, raw2 []byte, comp string, idx int, kind string) (ps.SigPoK, error) {
	p, err := ps.VerifPSParsePoK(curve, raw)
	if err != nil {
		return p, err
	}
	o, err := ps.VerifPSParsePoK(curve, raw2)
	if err != nil {
		return p, err
	}
	v, w := ps.VerifPSPoKOf(p), ps.VerifPSPoKOf(o)
	switch comp {
	case "x":
		v.X[idx] = pertZr(v.X[idx], w.X[idx], kind)
	case "y":
		v.Y = pertZr(v.Y, w.Y, kind)
	case "Gamma":
		v.Gamma = pertG2(v.Gamma, w.Gamma, kind)
	case "Phi":
		v.Phi = pertG1(v.Phi, w.Phi, kind)
	case "he":
		v.HE = pertG1(v.HE, w.HE, kind)
	case "hpe":
		v.HPE = pertG1(v.HPE, w.HPE, kind)
	case "nu":
		v.Nu = pertG1(v.Nu, w.Nu, kind)
	case "kappa":
		v.Kappa = pertG2(v.Kappa, w.Kappa, kind)
	}
	return v.SigPoK(), nil
}

// twice runs a verdict function two times on the same argument.
func twice(c *jCase, f func() error) {
	err, pan, what := guard(f)
	c.V1 = err == nil && !pan
	c.Panic = pan
	if err != nil {
		c.Err = err.Error()
	}
	if pan {
		c.Err = "PANIC " + what
	}
	err2, pan2, what2 := guard(f)
	c.V2 = err2 == nil && !pan2
	if pan2 {
		c.Panic = true
		c.Err += " / second: PANIC " + what2
	} else if err2 != nil && c.V1 {
		c.Err = "second: " + err2.Error()
	}
}

func requestCases(d *dkg, s1, s2 *session, signerIdx int) {
	signer := d.parties[signerIdx]
	pp, sk := ps.VerifPSSignerState(signer)
	base := jCase{Kind: "case", Cls: "req", N: d.N, T: d.T, L: d.L, Pat: s1.pattern, Pat2: s2.pattern}
	run := func(comp string, idx int, kind string) {
		for _, path := range []string{"bytes", "object"} {
			c := base
			c.Comp, c.Idx, c.Pert, c.Path = comp, idx, kind, path
			bs, err := perturbRequest(s1.reqRaw, s2.reqRaw, comp, idx, kind)
			if err != nil {
				c.Err = "harness: " + err.Error()
				emit(c)
				continue
			}
			if path == "bytes" {
				var raw []byte
				_, pan, what := guard(func() error { raw = bs.Bytes(); return nil })
				if pan {
					c.Err = "harness: marshal panic " + what
					emit(c)
					continue
				}
				twice(&c, func() error { _, e := signer.Sign(context.Background(), raw); return e })
			} else {
				twice(&c, func() error { _, e := ps.SignBlindSignature(pp, bs, sk); return e })
			}
			emit(c)
		}
	}
	run("none", 0, "none")
	for _, comp := range reqComps {
		n := 1
		if isVec(comp) {
			n = d.L + 1
		}
		for idx := 0; idx < n; idx++ {
			for _, kind := range pertKinds {
				run(comp, idx, kind)
			}
		}
	}
}

func pokCases(d *dkg, s1, s2 *session, signers []uint16) {
	verifier, err := newVerifier(d)
	if err != nil {
		return
	}
	vpp, vtpk := ps.VerifPSVerifierState(verifier)
	raw1, _, e1, p1, _ := provePoK(s1, signers)
	raw2, _, e2, p2, _ := provePoK(s2, signers)
	if e1 != nil || e2 != nil || p1 || p2 {
		return
	}
	base := jCase{Kind: "case", Cls: "pok", N: d.N, T: d.T, L: d.L, Pat: s1.pattern, Pat2: s2.pattern, Signers: u16s(signers)}
	run := func(comp string, idx int, kind string) {
		for _, path := range []string{"bytes", "object"} {
			c := base
			c.Comp, c.Idx, c.Pert, c.Path = comp, idx, kind, path
			pok, err := perturbPoK(raw1, raw2, comp, idx, kind)
			if err != nil {
				c.Err = "harness: " + err.Error()
				emit(c)
				continue
			}
			if path == "bytes" {
				var raw []byte
				_, pan, what := guard(func() error { raw = pok.Bytes(); return nil })
				if pan {
					c.Err = "harness: marshal panic " + what
					emit(c)
					continue
				}
				twice(&c, func() error { return verifier.Verify(raw) })
			} else {
				twice(&c, func() error { return ps.VerifPSVerifyPoK(vpp, vtpk, &pok) })
			}
			emit(c)
		}
	}
	run("none", 0, "none")
	for _, comp := range pokComps {
		n := 1
		if comp == "x" {
			n = d.L + 1
		}
		for idx := 0; idx < n; idx++ {
			for _, kind := range pertKinds {
				run(comp, idx, kind)
			}
		}
	}
}

// thresholdCases: wrong assignment, foreign witness, key of another DKG, fewer than t witnesses.
func thresholdCases(d, dOther *dkg, s1, s2 *session) {
	verifier, err := newVerifier(d)
	if err != nil {
		return
	}
	other, err := newVerifier(dOther)
	if err != nil {
		return
	}
	base := jCase{Kind: "case", Cls: "pokthr", N: d.N, T: d.T, L: d.L, Pat: s1.pattern, Pat2: s2.pattern, Path: "bytes"}
	for i, id := range d.ids {
		if int(id) != i+1 {
			base.IDs = u16s(d.ids)
		}
	}
	prove := func(signers []uint16, ws []ps.SignatureWitness) (raw []byte, pan bool, what string) {
		_, pan, what = guard(func() error {
			pok := s1.prover.ProveKnowledgeOfSignature(s1.secret, d.idsOf(signers), ws)
			raw = pok.Bytes()
			return nil
		})
		return
	}
	wsOf := func(s *session, signers []uint16) []ps.SignatureWitness {
		ws := make([]ps.SignatureWitness, len(signers))
		for k, id := range signers {
			ws[k] = s.witnesses[int(id)-1]
		}
		return ws
	}
	for _, signers := range subsets(d.N, d.T, d.N) {
		// honest, verified under the right key and under the key of another DKG
		raw, pan, what := prove(signers, wsOf(s1, signers))
		for _, variant := range []string{"honest", "otherkey"} {
			c := base
			c.Signers, c.Pert = u16s(signers), variant
			if pan {
				c.Panic, c.Err = true, "prover: "+what
				emit(c)
				continue
			}
			v := verifier
			if variant == "otherkey" {
				v = other
			}
			twice(&c, func() error { return v.Verify(raw) })
			emit(c)
		}
		// witnesses rotated by one against the signer list
		if len(signers) >= 2 {
			ws := wsOf(s1, signers)
			rot := append(append([]ps.SignatureWitness{}, ws[1:]...), ws[0])
			c := base
			c.Signers, c.Pert = u16s(signers), "rotated"
			raw, pan, what := prove(signers, rot)
			if pan {
				c.Panic, c.Err = true, "prover: "+what
			} else {
				twice(&c, func() error { return verifier.Verify(raw) })
			}
			emit(c)
		}
		// one witness taken from another session (another message vector)
		for k := range signers {
			ws := wsOf(s1, signers)
			ws[k] = s2.witnesses[int(signers[k])-1]
			c := base
			c.Signers, c.Pert, c.Idx = u16s(signers), "foreign", k
			raw, pan, what := prove(signers, ws)
			if pan {
				c.Panic, c.Err = true, "prover: "+what
			} else {
				twice(&c, func() error { return verifier.Verify(raw) })
			}
			emit(c)
		}
	}
	// fewer than t witnesses (size t-1 >= 2: the prover's Lagrange routine needs two points)
	if d.T >= 3 {
		for _, signers := range subsets(d.N, d.T-1, d.T-1) {
			c := base
			c.Signers, c.Pert = u16s(signers), "below_t"
			raw, pan, what := prove(signers, wsOf(s1, signers))
			if pan {
				c.Panic, c.Err = true, "prover: "+what
			} else {
				twice(&c, func() error { return verifier.Verify(raw) })
			}
			emit(c)
		}
	}
}

// forgedRequests: a prover that lies about exactly one witness and computes the Fiat-Shamir proof honestly
// otherwise, so that exactly one verification equation is violated (lie "none" is the control).
func forgedRequests(L int, pattern []int, seed uint64) {
	pp := ps.Setup(curve, L)
	P := ps.VerifPSParamsOf(&pp)
	sk, _ := ps.LocalKeyGen(pp)
	msgs := msgOf(pattern)
	lies := []struct {
		name string
		idx  int
	}{{"none", 0}, {"rcm", 0}, {"sim", 0}}
	for i := 0; i <= L; i++ {
		lies = append(lies, struct {
			name string
			idx  int
		}{"a", i}, struct {
			name string
			idx  int
		}{"b", i})
		// compensating alterations of two components (i and its cyclic successor): the product / sum over the vector is
		// preserved.  a2, b2: altered before the proof is produced over the altered vectors; f2, d2, x2, y2: altered in the
		// finished proof.  The proof binds every component separately, so all of them must be refused.
		for _, nm := range []string{"a2", "b2", "f2", "d2", "x2", "y2"} {
			lies = append(lies, struct {
				name string
				idx  int
			}{nm, i})
		}
	}
	g1Minus := func(p *math.G1) *math.G1 { q := p.Copy(); q.Sub(curve.GenG1); return q }
	zrMinus := func(z *math.Zr) *math.Zr { return bigZr(new(big.Int).Sub(zrBig(z), big.NewInt(1))) }
	for _, lie := range lies {
		c := jCase{Kind: "case", Cls: "reqforge", L: L, Pat: pattern, Pert: lie.name, Idx: lie.idx, Path: "object"}
		setRand(seed)
		var bs ps.BlindSignature
		_, pan, what := guard(func() error {
			m := make([]*math.Zr, L)
			for i := range m {
				m[i] = curve.HashToZr(msgs[i])
			}
			rcm := curve.NewRandomZr(nil)
			z := curve.NewRandomZr(nil)
			u := P.G.Mul(z)
			cm := ps.VerifPSCommit(&pp, rcm, m)
			oldCM := cm.Copy()
			mPrime := curve.HashToZr(ps.VerifPSHash(cm.Bytes()))
			cm.Add(P.Gs[len(P.Gs)-1].Mul(mPrime))
			h := curve.HashToG1(cm.Bytes())
			msg := append(append([]*math.Zr{}, m...), mPrime)
			a, b, r := ps.VerifPSEncrypt(&pp, curve, msg, h, u)
			rcmProof := rcm
			switch lie.name {
			case "a":
				a[lie.idx] = g1Plus(a[lie.idx])
			case "b":
				b[lie.idx] = g1Plus(b[lie.idx])
			case "rcm":
				rcmProof = zrPlus(rcm)
			case "a2":
				a[lie.idx], a[(lie.idx+1)%len(a)] = g1Plus(a[lie.idx]), g1Minus(a[(lie.idx+1)%len(a)])
			case "b2":
				b[lie.idx], b[(lie.idx+1)%len(b)] = g1Plus(b[lie.idx]), g1Minus(b[(lie.idx+1)%len(b)])
			}
			v := ps.VerifPSProveBlinding(curve, msg, r, a, b, rcmProof, P.G, P.G0, h, u, cm, P.Gs)
			if lie.name == "sim" {
				// a simulated proof (no witness used): responses first, commitments solved for the guessed challenge 1;
				// it verifies only if the verifier's challenge is 1
				n := len(msg)
				v.X, v.Y, v.D, v.F = make([]*math.Zr, n), make([]*math.Zr, n), make([]*math.G1, n), make([]*math.G1, n)
				v.Z = curve.NewRandomZr(nil)
				v.S = P.G0.Mul(v.Z)
				for i := 0; i < n; i++ {
					v.X[i], v.Y[i] = curve.NewRandomZr(nil), curve.NewRandomZr(nil)
					v.D[i] = u.Mul(v.X[i])
					v.D[i].Add(h.Mul(v.Y[i]))
					v.D[i].Sub(b[i])
					v.F[i] = P.G.Mul(v.X[i])
					v.F[i].Sub(a[i])
					v.S.Add(P.Gs[i].Mul(v.Y[i]))
				}
				v.S.Sub(cm)
			}
			j := (lie.idx + 1) % len(msg)
			switch lie.name {
			case "f2":
				v.F[lie.idx], v.F[j] = g1Plus(v.F[lie.idx]), g1Minus(v.F[j])
			case "d2":
				v.D[lie.idx], v.D[j] = g1Plus(v.D[lie.idx]), g1Minus(v.D[j])
			case "x2":
				v.X[lie.idx], v.X[j] = zrPlus(v.X[lie.idx]), zrMinus(v.X[j])
			case "y2":
				v.Y[lie.idx], v.Y[j] = zrPlus(v.Y[lie.idx]), zrMinus(v.Y[j])
			}
			v.CM, v.MPrime, v.U, v.A, v.B = oldCM, mPrime, u, a, b
			bs = v.BlindSignature()
			return nil
		})
		if pan {
			c.Err = "harness: " + what
			emit(c)
			continue
		}
		twice(&c, func() error { _, e := ps.SignBlindSignature(&pp, bs, sk); return e })
		emit(c)
	}
}

// forgedPoK: under a locally generated key, proofs in which exactly one check is violated.
func forgedPoK(L int, pattern []int, seed uint64) {
	pp := ps.Setup(curve, L)
	P := ps.VerifPSParamsOf(&pp)
	setRand(seed)
	sk, pk := ps.LocalKeyGen(pp)
	m := make([]*math.Zr, L)
	for i, b := range msgOf(pattern) {
		m[i] = curve.HashToZr(b)
	}
	σ, secret := ps.Blind(&pp, curve, m)
	sig, err := ps.SignBlindSignature(&pp, σ, sk)
	if err != nil {
		emit(jCase{Kind: "case", Cls: "pokforge", L: L, Pat: pattern, Pert: "setup", Err: err.Error()})
		return
	}
	h, msg, z := ps.VerifPSSecretOf(&secret)
	hPrime, err := ps.UnBlind(&pp, pk, sig, h, msg, z)
	if err != nil {
		emit(jCase{Kind: "case", Cls: "pokforge", L: L, Pat: pattern, Pert: "setup", Err: err.Error()})
		return
	}
	for _, lie := range []string{"none", "delta", "eps0"} {
		c := jCase{Kind: "case", Cls: "pokforge", L: L, Pat: pattern, Pert: lie, Path: "object"}
		var pok ps.SigPoK
		_, pan, what := guard(func() error {
			ε, δ := curve.NewRandomZr(nil), curve.NewRandomZr(nil)
			δν := δ
			if lie == "delta" {
				δν = curve.NewRandomZr(nil)
			}
			if lie == "eps0" {
				ε = curve.NewZrFromInt(0)
			}
			κ := pk.X.Copy()
			for i := 0; i < len(pk.Y); i++ {
				κ.Add(pk.Y[i].Mul(msg[i]))
			}
			κ.Add(P.G2.Mul(δ))
			hε := h.Mul(ε)
			ν := hε.Mul(δν)
			// h'^ε adjusted so that the pairing equation still holds: ε h' + (δ - δν) h^ε
			hPε := hPrime.Mul(ε)
			diff := bigZr(new(big.Int).Sub(zrBig(δ), zrBig(δν)))
			hPε.Add(hε.Mul(diff))
			v := ps.VerifPSProvePoK(curve, msg, δ, ν, hε, κ, P.G2, pk.X, pk.Y)
			v.HE, v.HPE, v.Nu, v.Kappa = hε, hPε, ν, κ
			pok = v.SigPoK()
			return nil
		})
		if pan {
			c.Err = "harness: " + what
			emit(c)
			continue
		}
		twice(&c, func() error { return pok.Verify(&pp, pk) })
		emit(c)
	}
}

// oracleCases: which arguments the two random-oracle functions actually hash.
func oracleCases(L int, pattern []int, seed uint64) {
	pp := ps.Setup(curve, L)
	P := ps.VerifPSParamsOf(&pp)
	setRand(seed)
	sk, pk := ps.LocalKeyGen(pp)
	m := make([]*math.Zr, L)
	for i, b := range msgOf(pattern) {
		m[i] = curve.HashToZr(b)
	}
	σ, secret := ps.Blind(&pp, curve, m)
	R := ps.VerifPSRequestOf(σ)
	h, msg, z := ps.VerifPSSecretOf(&secret)
	n := L + 1
	cm := R.CM.Copy()
	cm.Add(P.Gs[len(P.Gs)-1].Mul(R.MPrime))
	cp := func(xs []*math.G1) []*math.G1 { return append([]*math.G1{}, xs...) }
	digest := func(d, f []*math.G1, s *math.G1, a, b []*math.G1, cm, g, g0, h, u *math.G1, gs []*math.G1) []byte {
		return ps.VerifPSOracleBlinding(n, d, f, s, a, b, cm, g, g0, h, u, gs)
	}
	base := digest(R.D, R.F, R.S, R.A, R.B, cm, P.G, P.G0, h, R.U, P.Gs)
	emitO := func(comp string, idx int, dg []byte) {
		emit(jCase{Kind: "case", Cls: "oracle", L: L, Pat: pattern, Comp: comp, Idx: idx, Pert: "blinding", Changed: !bytes.Equal(base, dg)})
	}
	for i := 0; i < n; i++ {
		x := cp(R.D)
		x[i] = g1Plus(x[i])
		emitO("d", i, digest(x, R.F, R.S, R.A, R.B, cm, P.G, P.G0, h, R.U, P.Gs))
		x = cp(R.F)
		x[i] = g1Plus(x[i])
		emitO("f", i, digest(R.D, x, R.S, R.A, R.B, cm, P.G, P.G0, h, R.U, P.Gs))
		x = cp(R.A)
		x[i] = g1Plus(x[i])
		emitO("a", i, digest(R.D, R.F, R.S, x, R.B, cm, P.G, P.G0, h, R.U, P.Gs))
		x = cp(R.B)
		x[i] = g1Plus(x[i])
		emitO("b", i, digest(R.D, R.F, R.S, R.A, x, cm, P.G, P.G0, h, R.U, P.Gs))
		x = cp(P.Gs)
		x[i] = g1Plus(x[i])
		emitO("gs", i, digest(R.D, R.F, R.S, R.A, R.B, cm, P.G, P.G0, h, R.U, x))
	}
	emitO("s", 0, digest(R.D, R.F, g1Plus(R.S), R.A, R.B, cm, P.G, P.G0, h, R.U, P.Gs))
	emitO("cm", 0, digest(R.D, R.F, R.S, R.A, R.B, g1Plus(cm), P.G, P.G0, h, R.U, P.Gs))
	emitO("g", 0, digest(R.D, R.F, R.S, R.A, R.B, cm, g1Plus(P.G), P.G0, h, R.U, P.Gs))
	emitO("g0", 0, digest(R.D, R.F, R.S, R.A, R.B, cm, P.G, g1Plus(P.G0), h, R.U, P.Gs))
	emitO("h", 0, digest(R.D, R.F, R.S, R.A, R.B, cm, P.G, P.G0, g1Plus(h), R.U, P.Gs))
	emitO("u", 0, digest(R.D, R.F, R.S, R.A, R.B, cm, P.G, P.G0, h, g1Plus(R.U), P.Gs))

	// the oracle of the proof of knowledge
	sig, err := ps.SignBlindSignature(&pp, σ, sk)
	if err != nil {
		return
	}
	hPrime, err := ps.UnBlind(&pp, pk, sig, h, msg, z)
	if err != nil {
		return
	}
	Q := ps.VerifPSPoKOf(ps.PoKofSig(&pp, pk, h, hPrime, msg))
	dg2 := func(Γ *math.G2, Φ, ν, hε *math.G1, g2, X, κ *math.G2, Y []*math.G2) []byte {
		return ps.VerifPSOraclePoK(Γ, Φ, ν, hε, g2, X, κ, Y)
	}
	base2 := dg2(Q.Gamma, Q.Phi, Q.Nu, Q.HE, P.G2, pk.X, Q.Kappa, pk.Y)
	emitP := func(comp string, idx int, dg []byte) {
		emit(jCase{Kind: "case", Cls: "oracle", L: L, Pat: pattern, Comp: comp, Idx: idx, Pert: "pok", Changed: !bytes.Equal(base2, dg)})
	}
	emitP("Gamma", 0, dg2(g2Plus(Q.Gamma), Q.Phi, Q.Nu, Q.HE, P.G2, pk.X, Q.Kappa, pk.Y))
	emitP("Phi", 0, dg2(Q.Gamma, g1Plus(Q.Phi), Q.Nu, Q.HE, P.G2, pk.X, Q.Kappa, pk.Y))
	emitP("nu", 0, dg2(Q.Gamma, Q.Phi, g1Plus(Q.Nu), Q.HE, P.G2, pk.X, Q.Kappa, pk.Y))
	emitP("he", 0, dg2(Q.Gamma, Q.Phi, Q.Nu, g1Plus(Q.HE), P.G2, pk.X, Q.Kappa, pk.Y))
	emitP("g2", 0, dg2(Q.Gamma, Q.Phi, Q.Nu, Q.HE, g2Plus(P.G2), pk.X, Q.Kappa, pk.Y))
	emitP("X", 0, dg2(Q.Gamma, Q.Phi, Q.Nu, Q.HE, P.G2, g2Plus(pk.X), Q.Kappa, pk.Y))
	emitP("kappa", 0, dg2(Q.Gamma, Q.Phi, Q.Nu, Q.HE, P.G2, pk.X, g2Plus(Q.Kappa), pk.Y))
	for i := range pk.Y {
		y := append([]*math.G2{}, pk.Y...)
		y[i] = g2Plus(y[i])
		emitP("Y", i, dg2(Q.Gamma, Q.Phi, Q.Nu, Q.HE, P.G2, pk.X, Q.Kappa, y))
	}
}

func runPerturb(seed uint64, thorough bool) {
	r := newPRNG(seed)
	type cfg struct{ N, T, L int }
	cfgs := []cfg{{3, 2, 2}, {4, 3, 1}}
	if thorough {
		cfgs = append(cfgs, cfg{2, 2, 3}, cfg{4, 2, 4}, cfg{3, 3, 1})
	}
	for ci, c := range cfgs {
		d := runDKG(c.N, c.T, c.L, r.next(), identityOrder(c.N))
		dOther := runDKG(c.N, c.T, c.L, r.next(), identityOrder(c.N))
		if !d.ok() || !dOther.ok() {
			emit(jCase{Kind: "case", Cls: "setup", N: c.N, T: c.T, L: c.L, Err: "DKG failed"})
			continue
		}
		pats := patterns[c.L]
		s1 := runSession(d, pats[0], r.next(), false, false)
		s2 := runSession(d, pats[len(pats)-1], r.next(), false, false)
		if !s1.okAll || !s2.okAll {
			emit(jCase{Kind: "case", Cls: "setup", N: c.N, T: c.T, L: c.L, Err: "session failed"})
			continue
		}
		requestCases(d, s1, s2, ci%c.N)
		subs := subsets(c.N, c.T, c.T)
		pokCases(d, s1, s2, subs[r.intn(len(subs))])
		thresholdCases(d, dOther, s1, s2)
	}
	// the threshold cases once more with party identifiers that are not 1..n (the prover must map them to ranks)
	for _, idl := range [][]uint16{{2, 3, 5}, {300, 7, 65535, 0}} {
		T, L := len(idl)-1, 1
		d := runDKGIDs(idl, T, L, r.next(), identityOrder(len(idl)))
		dOther := runDKGIDs(idl, T, L, r.next(), identityOrder(len(idl)))
		if !d.ok() || !dOther.ok() {
			emit(jCase{Kind: "case", Cls: "setup", N: len(idl), T: T, L: L, Err: "DKG failed"})
			continue
		}
		s1 := runSession(d, patterns[L][0], r.next(), false, false)
		s2 := runSession(d, patterns[L][1], r.next(), false, false)
		if !s1.okAll || !s2.okAll {
			emit(jCase{Kind: "case", Cls: "setup", N: len(idl), T: T, L: L, Err: "session failed"})
			continue
		}
		thresholdCases(d, dOther, s1, s2)
	}
	for L := 1; L <= 3; L++ {
		forgedRequests(L, patterns[L][0], r.next())
		forgedPoK(L, patterns[L][0], r.next())
	}
	oracleCases(2, patterns[2][0], r.next())
}
