package main

func runMalformed(seed uint64, thorough bool) {}
