package main

import (
	"context"
	"encoding/asn1"
	"fmt"
	"time"

	"github.com/IBM/TSS/mpc/ps"
)

// C10 part of the engine: malformed input at every PS parser / verification entry point, under recover.

type jMal struct {
	Kind  string `json:"kind"` // "malformed"
	Entry string `json:"entry"`
	Class string `json:"class"` // raw | structured
	Input string `json:"input"`
	Panic bool   `json:"panic"`
	Err   bool   `json:"err"`
	What  string `json:"what"`
}

// ASN.1 mirrors
type rawBlindSignature struct {
	CorrectFormProof []byte
	CM               []byte
	MPrime           []byte
	U                []byte
	A, B             [][]byte
}
type rawBlindCorrectProof struct {
	X, Y [][]byte
	S    []byte
	Z    []byte
	D, F [][]byte
}
type rawSigPok struct{ Data [][]byte }
type rawPoKForm struct {
	X     [][]byte
	Y     []byte
	Gamma []byte
	Phi   []byte
}
type rawSignature struct{ A, B []byte }

func mutations(r *prng, valid []byte, n int) [][]byte {
	res := [][]byte{{}, {0}, {0x30}, {0x30, 0x00}, {0x30, 0x80}, {0x30, 0x84, 0xff, 0xff, 0xff, 0xff}}
	for i := 0; i < len(valid) && i < 12; i++ {
		res = append(res, append([]byte{}, valid[:i]...))
	}
	for i := 0; i < n && len(valid) > 0; i++ {
		m := append([]byte{}, valid...)
		switch r.intn(4) {
		case 0:
			m = m[:r.intn(len(m))]
		case 1:
			m[r.intn(len(m))] ^= byte(1 << uint(r.intn(8)))
		case 2: // a length / tag byte near the front (ASN.1 headers)
			k := len(m)
			if k > 16 {
				k = 16
			}
			m[r.intn(k)] = byte(r.intn(256))
		case 3:
			m = append(m, r.bytes(1+r.intn(4))...)
		}
		res = append(res, m)
	}
	return res
}

func short(b []byte) string {
	if len(b) > 40 {
		return fmt.Sprintf("%x...(%d bytes)", b[:40], len(b))
	}
	return fmt.Sprintf("%x", b)
}

func mustMarshal(v interface{}) []byte {
	b, err := asn1.Marshal(v)
	if err != nil {
		panic(err)
	}
	return b
}

// vector surgery: drop the last element, drop all, duplicate the last, replace one by garbage / by nothing
func vecVariants(v [][]byte) map[string][][]byte {
	res := map[string][][]byte{}
	if len(v) > 0 {
		res["short"] = v[:len(v)-1]
		res["long"] = append(append([][]byte{}, v...), v[len(v)-1])
		g := append([][]byte{}, v...)
		g[0] = []byte{1, 2, 3}
		res["garbage0"] = g
		e := append([][]byte{}, v...)
		e[len(e)-1] = []byte{}
		res["emptylast"] = e
	}
	res["none"] = nil
	return res
}

func runMalformed(seed uint64, thorough bool) {
	r := newPRNG(seed)
	n := 50
	if thorough {
		n = 500
	}
	d := runDKG(3, 2, 2, r.next(), identityOrder(3))
	if !d.ok() {
		emit(jMal{Kind: "malformed", Entry: "setup", What: "DKG failed"})
		return
	}
	s := runSession(d, patterns[2][0], r.next(), false, false)
	if !s.okAll {
		emit(jMal{Kind: "malformed", Entry: "setup", What: "session failed"})
		return
	}
	pokRaw, _, _, _, _ := provePoK(s, []uint16{1, 2})
	verifier, _ := newVerifier(d)
	signer := d.parties[0]
	try := func(entry, class string, in []byte, f func() error) {
		err, pan, what := guard(f)
		emit(jMal{Kind: "malformed", Entry: entry, Class: class, Input: short(in), Panic: pan, Err: err != nil, What: what})
	}
	sign := func(class string, raw []byte) {
		try("ps.TPS.Sign", class, raw, func() error { _, e := signer.Sign(context.Background(), raw); return e })
	}
	verify := func(class string, raw []byte) {
		try("ps.Verifier.Verify", class, raw, func() error { return verifier.Verify(raw) })
	}

	// ---- raw byte mutations ----
	for _, m := range mutations(r, s.reqRaw, n) {
		sign("raw", m)
	}
	for _, m := range mutations(r, pokRaw, n) {
		verify("raw", m)
	}
	for _, m := range mutations(r, d.tpkRaw[0], n) {
		m := m
		try("ps.Verifier.Init", "raw", m, func() error { return (&ps.Verifier{}).Init(curve, d.L, m) })
		try("ps.Prover.Init", "raw", m, func() error { return (&ps.Prover{Logger: nolog{}}).Init(curve, d.L, m, ids(d.N)) })
	}
	for _, m := range mutations(r, s.sigs[0], n) {
		m := m
		try("ps.Prover.UnBlind", "raw", m, func() error { _, e := s.prover.UnBlind(1, m, s.secret); return e })
	}
	for _, m := range mutations(r, d.shares[0], n) {
		m := m
		try("ps.TPS.SetShareData", "raw", m, func() error {
			t := &ps.TPS{Curve: curve, Party: 1, Logger: nolog{}, MessageLength: d.L}
			t.Init(ids(d.N), d.T, func([]byte, bool, uint16) {})
			return t.SetShareData(m)
		})
	}

	// ---- structured: blind signature requests with wrong vector lengths / unparsable components ----
	var rbs rawBlindSignature
	var rproof rawBlindCorrectProof
	asn1.Unmarshal(s.reqRaw, &rbs)
	asn1.Unmarshal(rbs.CorrectFormProof, &rproof)
	for name, v := range vecVariants(rbs.A) {
		x := rbs
		x.A = v
		sign("structured A:"+name, mustMarshal(x))
	}
	for name, v := range vecVariants(rbs.B) {
		x := rbs
		x.B = v
		sign("structured B:"+name, mustMarshal(x))
	}
	for fi, field := range []string{"X", "Y", "D", "F"} {
		src := [][][]byte{rproof.X, rproof.Y, rproof.D, rproof.F}[fi]
		for name, v := range vecVariants(src) {
			p := rproof
			switch field {
			case "X":
				p.X = v
			case "Y":
				p.Y = v
			case "D":
				p.D = v
			case "F":
				p.F = v
			}
			x := rbs
			x.CorrectFormProof = mustMarshal(p)
			sign("structured proof."+field+":"+name, mustMarshal(x))
		}
	}
	{
		x := rbs
		x.A, x.B = nil, nil
		p := rawBlindCorrectProof{S: rproof.S, Z: rproof.Z}
		x.CorrectFormProof = mustMarshal(p)
		sign("structured all vectors empty", mustMarshal(x))
		x = rbs
		x.CM = []byte{}
		sign("structured CM empty", mustMarshal(x))
		x = rbs
		x.U = []byte{7}
		sign("structured U garbage", mustMarshal(x))
		x = rbs
		x.CorrectFormProof = []byte{}
		sign("structured proof empty", mustMarshal(x))
	}

	// ---- structured: proofs of knowledge ----
	var rp rawSigPok
	var rform rawPoKForm
	asn1.Unmarshal(pokRaw, &rp)
	asn1.Unmarshal(rp.Data[0], &rform)
	for k := 0; k <= 7; k++ {
		x := rawSigPok{}
		for i := 0; i < k; i++ {
			x.Data = append(x.Data, rp.Data[i%len(rp.Data)])
		}
		verify(fmt.Sprintf("structured Data:%d elements", k), mustMarshal(x))
	}
	for name, v := range vecVariants(rform.X) {
		f := rform
		f.X = v
		x := rawSigPok{Data: append([][]byte{mustMarshal(f)}, rp.Data[1:]...)}
		verify("structured psi.X:"+name, mustMarshal(x))
	}
	{
		f := rform
		f.X = append(append([][]byte{}, rform.X...), rform.X...)
		x := rawSigPok{Data: append([][]byte{mustMarshal(f)}, rp.Data[1:]...)}
		verify("structured psi.X:doubled", mustMarshal(x))
		for i := 1; i < 5; i++ {
			x := rawSigPok{Data: append([][]byte{}, rp.Data...)}
			x.Data[i] = []byte{9, 9}
			verify(fmt.Sprintf("structured Data[%d] garbage", i), mustMarshal(x))
		}
	}

	// ---- structured: public material handed to the prover / verifier ----
	var tpk thresholdPK
	asn1.Unmarshal(d.tpkRaw[0], &tpk)
	var key xys
	asn1.Unmarshal(tpk.TPK, &key)
	shortKey := mustMarshal(xys{X: key.X, Ys: key.Ys[:1]})
	noYKey := mustMarshal(xys{X: key.X})
	longKey := mustMarshal(xys{X: key.X, Ys: append(append([][]byte{}, key.Ys...), key.Ys[0])})
	tpkVariants := map[string]thresholdPK{
		"fewer public keys than parties": {TPK: tpk.TPK, PublicKeys: tpk.PublicKeys[:1]},
		"no public keys":                 {TPK: tpk.TPK},
		"tpk with one Y":                 {TPK: shortKey, PublicKeys: tpk.PublicKeys},
		"tpk without Y":                  {TPK: noYKey, PublicKeys: tpk.PublicKeys},
		"tpk with an extra Y":            {TPK: longKey, PublicKeys: tpk.PublicKeys},
		"party keys with one Y":          {TPK: tpk.TPK, PublicKeys: [][]byte{shortKey, shortKey, shortKey}},
		"party keys without Y":           {TPK: tpk.TPK, PublicKeys: [][]byte{noYKey, noYKey, noYKey}},
		"party keys with an extra Y":     {TPK: tpk.TPK, PublicKeys: [][]byte{longKey, longKey, longKey}},
		"all keys short":                 {TPK: shortKey, PublicKeys: [][]byte{shortKey, shortKey, shortKey}},
	}
	for name, tv := range tpkVariants {
		raw := mustMarshal(tv)
		// the whole client flow with this material: Init, Blind, UnBlind of an honest signature, prove, verify
		try("ps.Prover flow", "structured "+name, raw, func() error {
			p := &ps.Prover{Logger: nolog{}}
			if err := p.Init(curve, d.L, raw, ids(d.N)); err != nil {
				return err
			}
			req, secret := p.Blind(msgOf(patterns[2][0]))
			sg, err := signer.Sign(context.Background(), req.Bytes())
			if err != nil {
				return err
			}
			w, err := p.UnBlind(1, sg, &secret)
			if err != nil {
				return err
			}
			pok := p.ProveKnowledgeOfSignature(&secret, []uint16{1, 2}, []ps.SignatureWitness{w, w})
			return verifier.Verify(pok.Bytes())
		})
		try("ps.Verifier flow", "structured "+name, raw, func() error {
			v := &ps.Verifier{}
			if err := v.Init(curve, d.L, raw); err != nil {
				return err
			}
			return v.Verify(pokRaw)
		})
	}
	try("ps.Prover.UnBlind", "structured unknown party", nil, func() error { _, e := s.prover.UnBlind(9, s.sigs[0], s.secret); return e })
	try("ps.Prover.UnBlind", "structured signature of garbage points", nil, func() error {
		_, e := s.prover.UnBlind(1, mustMarshal(rawSignature{A: []byte{1}, B: []byte{2}}), s.secret)
		return e
	})

	// ---- DKG messages at a node: every tag, raw and structured payloads, idle and finished instances ----
	share := mustMarshal(xys{X: key.X[:32], Ys: [][]byte{key.X[:32], key.X[:32], key.X[:32]}})
	payloads := map[string][]byte{
		"empty":                 {},
		"share ok":              share,
		"share with one y":      mustMarshal(xys{X: key.X[:32], Ys: [][]byte{key.X[:32]}}),
		"share without y":       mustMarshal(xys{X: key.X[:32]}),
		"share with an extra y": mustMarshal(xys{X: key.X[:32], Ys: [][]byte{key.X[:32], key.X[:32], key.X[:32], key.X[:32]}}),
		"share with empty x":    mustMarshal(xys{Ys: [][]byte{{}, {}, {}}}),
		"public key ok":         tpk.PublicKeys[1],
		"public key with one Y": shortKey,
		"public key without Y":  noYKey,
		"public key extra Y":    longKey,
		"public key garbage X":  mustMarshal(xys{X: []byte{1, 2, 3}, Ys: key.Ys}),
		"public key garbage Y":  mustMarshal(xys{X: key.X, Ys: [][]byte{{1}, {2}, {3}}}),
		"commitment 32 bytes":   r.bytes(32),
		"commitment 1 byte":     {7},
	}
	var msgs []struct {
		name string
		m    []byte
	}
	for tag := 0; tag <= 4; tag++ {
		for name, p := range payloads {
			msgs = append(msgs, struct {
				name string
				m    []byte
			}{fmt.Sprintf("tag %d %s", tag, name), append([]byte{byte(tag)}, p...)})
		}
		for _, m := range mutations(r, tpk.PublicKeys[1], n/5) {
			msgs = append(msgs, struct {
				name string
				m    []byte
			}{fmt.Sprintf("tag %d raw", tag), append([]byte{byte(tag)}, m...)})
		}
	}
	msgs = append(msgs, struct {
		name string
		m    []byte
	}{"no bytes at all", []byte{}}, struct {
		name string
		m    []byte
	}{"nil", nil})
	for _, state := range []string{"idle", "finished"} {
		for _, mm := range msgs {
			mm := mm
			var t *ps.TPS
			if state == "idle" {
				t = &ps.TPS{Curve: curve, Party: 1, Logger: nolog{}, MessageLength: d.L}
				t.Init(ids(d.N), d.T, func([]byte, bool, uint16) {})
			} else {
				t = d.parties[0]
			}
			try("ps.TPS.ClassifyMsg/"+state, mm.name, mm.m, func() error { _, _, e := t.ClassifyMsg(mm.m); return e })
			try("ps.TPS.OnMsg/"+state, mm.name, mm.m, func() error { t.OnMsg(mm.m, 2, false); t.OnMsg(mm.m, 3, true); return nil })
		}
	}
	// a DKG in which one party sends a share / a public key with too few components: the others must not crash
	for _, what := range []string{"short share", "short public key"} {
		what := what
		try("ps.TPS.KeyGen with a misbehaving peer", what, nil, func() error { return dkgWithBadPeer(what, r.next()) })
	}
}

// dkgWithBadPeer: three parties, party 3's outgoing share (or revealed key) is replaced by one with fewer components.
// The honest parties must end with an error or keep waiting until the context expires - not panic.
func dkgWithBadPeer(what string, seed uint64) error {
	N, T, L := 3, 2, 2
	parties := make([]*ps.TPS, N)
	for i := range parties {
		parties[i] = &ps.TPS{Curve: curve, Party: uint16(i + 1), Logger: nolog{}, MessageLength: L}
	}
	for i := 0; i < N; i++ {
		i := i
		parties[i].Init(ids(N), T, func(msg []byte, isBroadcast bool, to uint16) {
			cp := append([]byte{}, msg...)
			if i == 2 && len(cp) > 1 {
				var v xys
				if _, err := asn1.Unmarshal(cp[1:], &v); err == nil && len(v.Ys) > 1 {
					if (what == "short share" && cp[0] == 1) || (what == "short public key" && cp[0] == 3) {
						v.Ys = v.Ys[:1]
						cp = append([]byte{cp[0]}, mustMarshal(v)...)
					}
				}
			}
			if isBroadcast {
				for j := 0; j < N; j++ {
					if j != i {
						parties[j].OnMsg(cp, uint16(i+1), true)
					}
				}
			} else {
				parties[int(to)-1].OnMsg(cp, uint16(i+1), false)
			}
		})
	}
	setRand(seed)
	ctx, cancel := context.WithTimeout(context.Background(), timeoutBadPeer)
	defer cancel()
	errs := make(chan error, N)
	pans := make(chan string, N)
	for i := 0; i < N; i++ {
		i := i
		go func() {
			defer func() {
				if r := recover(); r != nil {
					pans <- fmt.Sprintf("party %d: %v", i+1, r)
				}
			}()
			_, err := parties[i].KeyGen(ctx)
			errs <- err
		}()
	}
	var firstErr error
	for k := 0; k < N; k++ {
		select {
		case p := <-pans:
			panic(p)
		case e := <-errs:
			if e != nil && firstErr == nil {
				firstErr = e
			}
		}
	}
	return firstErr
}

const timeoutBadPeer = 400 * time.Millisecond
