module verif/harness/ps

go 1.20

require (
	github.com/IBM/TSS/mpc/ps v0.0.0
	github.com/IBM/mathlib v0.0.2
)

require (
	github.com/consensys/bavard v0.1.13 // indirect
	github.com/consensys/gnark-crypto v0.9.1 // indirect
	github.com/hyperledger/fabric-amcl v0.0.0-20210603140002-2670f91851c8 // indirect
	github.com/mmcloughlin/addchain v0.4.0 // indirect
	github.com/pkg/errors v0.8.1 // indirect
	golang.org/x/sys v0.2.0 // indirect
	rsc.io/tmplfunc v0.0.3 // indirect
)

replace github.com/IBM/TSS/mpc/ps => /repo/mpc/ps
