package main

import (
	"context"

	"github.com/IBM/TSS/mpc/ps"
)

// Long-lived objects (C08, and the "same verdict again" clause of C09): ONE Prover, ONE Verifier and one TPS signer object
// per rank are taken through several key epochs - Init / SetShareData are called again on the same objects - and every
// verdict is compared with the verdict of freshly constructed objects on the same inputs.  The Coq model has no object
// state (keys are arguments), so "a re-initialised object behaves like a new one" is exactly what ties it to the code here.

type jReuse struct {
	Kind    string `json:"kind"`  // "reuse"
	Epoch   int    `json:"epoch"` // position in the sequence of initialisations
	Key     string `json:"key"`   // which key generation the objects were (re-)initialised with
	Step    string `json:"step"`  // prover_init | verifier_init | signer_reload | sign | unblind | pok | pok_by_fresh_prover | stale_pok
	N       int    `json:"N"`
	T       int    `json:"t"`
	L       int    `json:"L"`
	IDs     []int  `json:"ids"`
	Signer  int    `json:"signer,omitempty"`
	Signers []int  `json:"signers,omitempty"`
	Reused  bool   `json:"reused"` // verdict of the long-lived object (accepted / no error)
	Fresh   bool   `json:"fresh"`  // verdict of a newly constructed object on the same input
	Expect  bool   `json:"expect"` // what an honest run must give
	Panic   bool   `json:"panic"`
	ErrR    string `json:"err_reused"`
	ErrF    string `json:"err_fresh"`
}

func verdictOf(f func() error) (bool, bool, string) {
	err, pan, what := guard(f)
	if pan {
		return false, true, "PANIC " + what
	}
	if err != nil {
		return false, false, err.Error()
	}
	return true, false, ""
}

func runReuse(seed uint64, thorough bool) {
	r := newPRNG(seed)
	type keyset struct {
		name string
		d    *dkg
	}
	mk := func(name string, idl []uint16, T, L int) keyset {
		return keyset{name, runDKGIDs(idl, T, L, r.next(), identityOrder(len(idl)))}
	}
	A := mk("A (1,2,3) t=2 L=2", ids(3), 2, 2)
	B := mk("B (1,2,3) t=2 L=2, another key", ids(3), 2, 2)
	C := mk("C (2,3,5,7) t=3 L=1", []uint16{2, 3, 5, 7}, 3, 1)
	D := mk("D (1,2) t=2 L=3", ids(2), 2, 3)
	for _, k := range []keyset{A, B, C, D} {
		if !k.d.ok() {
			emit(jReuse{Kind: "reuse", Step: "setup", Key: k.name, ErrR: "DKG failed"})
			return
		}
	}
	// the same key twice in a row, another key of the same shape, another shape (more parties, shorter messages), a smaller
	// shape with longer messages, and back to the first key
	seq := []keyset{A, A, B, C, A, D, C, B}
	if !thorough {
		seq = seq[:6]
	}
	prover := &ps.Prover{Logger: nolog{}}
	verifier := &ps.Verifier{}
	signers := map[int]*ps.TPS{}
	var stale []byte // a proof made in the previous epoch
	var staleKey string
	for epoch, k := range seq {
		d := k.d
		base := jReuse{Kind: "reuse", Epoch: epoch, Key: k.name, N: d.N, T: d.T, L: d.L, IDs: u16s(d.ids)}
		put := func(step string, expect bool, reused, fresh func() error, fill func(*jReuse)) (bool, bool) {
			c := base
			c.Step, c.Expect = step, expect
			if fill != nil {
				fill(&c)
			}
			var p1, p2 bool
			c.Reused, p1, c.ErrR = verdictOf(reused)
			c.Fresh, p2, c.ErrF = verdictOf(fresh)
			c.Panic = p1 || p2
			emit(c)
			return c.Reused, c.Fresh
		}
		// (re-)initialise the long-lived objects, and build fresh ones
		freshProver := &ps.Prover{Logger: nolog{}}
		freshVerifier := &ps.Verifier{}
		okP, _ := put("prover_init", true,
			func() error { return prover.Init(curve, d.L, d.tpkRaw[0], append([]uint16{}, d.ids...)) },
			func() error { return freshProver.Init(curve, d.L, d.tpkRaw[0], append([]uint16{}, d.ids...)) }, nil)
		okV, _ := put("verifier_init", true,
			func() error { return verifier.Init(curve, d.L, d.tpkRaw[0]) },
			func() error { return freshVerifier.Init(curve, d.L, d.tpkRaw[0]) }, nil)
		// a proof of the previous epoch under the new key: same verdict as a fresh verifier (accepted only if the key is the same)
		if stale != nil && okV {
			put("stale_pok", staleKey == k.name,
				func() error { return verifier.Verify(stale) },
				func() error { return freshVerifier.Verify(stale) }, nil)
		}
		freshSigners := make([]*ps.TPS, d.N)
		reloadOK := true
		for i := 0; i < d.N; i++ {
			i := i
			if signers[i] == nil {
				signers[i] = &ps.TPS{Curve: curve, Logger: nolog{}}
			}
			freshSigners[i] = &ps.TPS{Curve: curve, Party: d.ids[i], Logger: nolog{}, MessageLength: d.L}
			a, b := put("signer_reload", true,
				func() error {
					t := signers[i]
					t.Party, t.MessageLength = d.ids[i], d.L
					t.Init(append([]uint16{}, d.ids...), d.T, func([]byte, bool, uint16) {})
					return t.SetShareData(d.shares[i])
				},
				func() error {
					freshSigners[i].Init(append([]uint16{}, d.ids...), d.T, func([]byte, bool, uint16) {})
					return freshSigners[i].SetShareData(d.shares[i])
				}, func(c *jReuse) { c.Signer = i + 1 })
			reloadOK = reloadOK && a && b
		}
		if !reloadOK {
			continue
		}
		// when the long-lived prover refused its key the flow goes on with the fresh one, so that the long-lived verifier and
		// signers are still exercised in this epoch
		prover := prover
		if !okP {
			prover = freshProver
		}
		// the flow with the long-lived prover; every product is also checked by / against the fresh objects
		pattern := patterns[d.L][epoch%len(patterns[d.L])]
		setRand(r.next())
		var req ps.BlindSignature
		var secret ps.UnblindingSecret
		if _, pan, _ := guard(func() error { req, secret = prover.Blind(msgOf(pattern)); return nil }); pan {
			emit(jReuse{Kind: "reuse", Epoch: epoch, Key: k.name, Step: "blind", Panic: true})
			continue
		}
		reqRaw := req.Bytes()
		sigs := make([][]byte, d.N)
		ws := make([]ps.SignatureWitness, d.N)
		all := true
		for i := 0; i < d.N; i++ {
			i := i
			a, _ := put("sign", true,
				func() error { var e error; sigs[i], e = signers[i].Sign(context.Background(), reqRaw); return e },
				func() error { _, e := freshSigners[i].Sign(context.Background(), reqRaw); return e },
				func(c *jReuse) { c.Signer = i + 1 })
			if !a {
				all = false
				continue
			}
			a, _ = put("unblind", true,
				func() error { var e error; ws[i], e = prover.UnBlind(d.ids[i], sigs[i], &secret); return e },
				func() error { _, e := freshProver.UnBlind(d.ids[i], sigs[i], &secret); return e },
				func(c *jReuse) { c.Signer = i + 1 })
			all = all && a
		}
		if !all || !okV {
			continue
		}
		for _, ranks := range fewSubsets(r, d.N, d.T) {
			ranks := ranks
			sel := make([]ps.SignatureWitness, len(ranks))
			for k2, rk := range ranks {
				sel[k2] = ws[int(rk)-1]
			}
			var raw []byte
			if _, pan, _ := guard(func() error {
				pok := prover.ProveKnowledgeOfSignature(&secret, d.idsOf(ranks), sel)
				raw = pok.Bytes()
				return nil
			}); pan {
				emit(jReuse{Kind: "reuse", Epoch: epoch, Key: k.name, Step: "prove", Panic: true, Signers: u16s(ranks)})
				continue
			}
			put("pok", true,
				func() error { return verifier.Verify(raw) },
				func() error { return freshVerifier.Verify(raw) },
				func(c *jReuse) { c.Signers = u16s(ranks) })
			stale, staleKey = raw, k.name
		}
		// a whole flow of the FRESH prover, checked by the long-lived verifier
		if _, pan, _ := guard(func() error {
			setRand(r.next())
			req2, secret2 := freshProver.Blind(msgOf(pattern))
			raw2 := req2.Bytes()
			ranks := fewSubsets(r, d.N, d.T)[0]
			sel := make([]ps.SignatureWitness, len(ranks))
			for k2, rk := range ranks {
				sg, err := signers[int(rk)-1].Sign(context.Background(), raw2)
				if err != nil {
					return err
				}
				sel[k2], err = freshProver.UnBlind(d.ids[int(rk)-1], sg, &secret2)
				if err != nil {
					return err
				}
			}
			pok := freshProver.ProveKnowledgeOfSignature(&secret2, d.idsOf(ranks), sel)
			raw := pok.Bytes()
			put("pok_by_fresh_prover", true,
				func() error { return verifier.Verify(raw) },
				func() error { return freshVerifier.Verify(raw) },
				func(c *jReuse) { c.Signers = u16s(ranks) })
			return nil
		}); pan {
			emit(jReuse{Kind: "reuse", Epoch: epoch, Key: k.name, Step: "fresh_prover_flow", Panic: true})
		}
	}
}
