package main

import (
	"context"
	crand "crypto/rand"
	"encoding/asn1"
	"fmt"
	"math/big"
	"sync"
	"time"

	"github.com/IBM/TSS/mpc/ps"
	math "github.com/IBM/mathlib"
)

var curve = math.Curves[1]

// stream is the seeded replacement of crypto/rand.Reader: every nonce and every dealt coefficient is reproducible.
type stream struct {
	mu sync.Mutex
	p  *prng
}

func newStream(seed uint64) *stream { return &stream{p: newPRNG(seed)} }

func (s *stream) Read(b []byte) (int, error) {
	s.mu.Lock()
	defer s.mu.Unlock()
	for i := range b {
		b[i] = byte(s.p.next())
	}
	return len(b), nil
}

func setRand(seed uint64) { crand.Reader = newStream(seed) }

type nolog struct{}

func (nolog) Debugf(string, ...interface{}) {}
func (nolog) Infof(string, ...interface{})  {}
func (nolog) Warnf(string, ...interface{})  {}
func (nolog) Errorf(string, ...interface{}) {}

// guard runs f and reports a panic as a value.
func guard(f func() error) (err error, panicked bool, what string) {
	defer func() {
		if r := recover(); r != nil {
			panicked = true
			what = fmt.Sprint(r)
		}
	}()
	return f(), false, ""
}

func zrBig(z *math.Zr) *big.Int { return new(big.Int).SetBytes(z.Bytes()) }

var groupOrder = zrBig(curve.GroupOrder)

func bigZr(b *big.Int) *math.Zr {
	return curve.NewZrFromBytes(new(big.Int).Mod(b, groupOrder).Bytes())
}

// mirrors of the ASN.1 structures of the package
type storedData struct {
	Sk          []byte
	PublicKeys  [][]byte
	ThresholdPK []byte
}
type xys struct {
	X  []byte
	Ys [][]byte
}
type thresholdPK struct {
	TPK        []byte
	PublicKeys [][]byte
}

// dkg is one in-process run of the real TPS key generation.
type dkg struct {
	N, T, L  int
	parties  []*ps.TPS
	shares   [][]byte
	errs     []error
	panics   []string
	tpkRaw   [][]byte       // ThresholdPK() as reported by each party
	polys    [][][]*big.Int // polys[k][j] = coefficients dealt by party k+1 for x (j=0) and y_{j-1}
	timedOut bool
	ids      []uint16 // party identifiers in rank order (rank i+1 <-> ids[i]); 1..N unless stated otherwise
}

// idsOf maps ranks (1-based positions in the party list) to party identifiers.
func (d *dkg) idsOf(ranks []uint16) []uint16 {
	res := make([]uint16, len(ranks))
	for k, r := range ranks {
		res[k] = d.ids[int(r)-1]
	}
	return res
}

func ids(n int) []uint16 {
	res := make([]uint16, n)
	for i := range res {
		res[i] = uint16(i + 1)
	}
	return res
}

// runDKG wires N real TPS instances in-process (as tps_test.go does) and runs KeyGen.  The parties draw their
// polynomials one after the other from per-party seeded streams (a party's draws all happen before its first
// message), after that they run concurrently.  order permutes the start order of the parties.
func runDKG(N, T, L int, seed uint64, order []int) *dkg {
	return runDKGIDs(ids(N), T, L, seed, order)
}

// runDKGIDs: the same with an arbitrary list of distinct party identifiers (the rank of a party is its position).
func runDKGIDs(idl []uint16, T, L int, seed uint64, order []int) *dkg {
	N := len(idl)
	index := map[uint16]int{}
	for i, id := range idl {
		index[id] = i
	}
	d := &dkg{ids: idl, N: N, T: T, L: L, parties: make([]*ps.TPS, N), shares: make([][]byte, N), errs: make([]error, N),
		panics: make([]string, N), tpkRaw: make([][]byte, N), polys: make([][][]*big.Int, N)}
	sent := make([]chan struct{}, N)
	for i := 0; i < N; i++ {
		d.parties[i] = &ps.TPS{Curve: curve, Party: idl[i], Logger: nolog{}, MessageLength: L}
		sent[i] = make(chan struct{}, 4*N)
	}
	for i := 0; i < N; i++ {
		i := i
		d.parties[i].Init(append([]uint16{}, idl...), T, func(msg []byte, isBroadcast bool, to uint16) {
			cp := append([]byte{}, msg...)
			if isBroadcast {
				for j := 0; j < N; j++ {
					if j != i {
						d.parties[j].OnMsg(cp, idl[i], true)
					}
				}
			} else {
				d.parties[index[to]].OnMsg(cp, idl[i], false)
				sent[i] <- struct{}{}
			}
		})
	}
	ctx, cancel := context.WithTimeout(context.Background(), 20*time.Second)
	defer cancel()
	var wg sync.WaitGroup
	for _, k := range order {
		k := k
		pseed := seed*1000003 + uint64(k) + 17
		// what the party is going to draw: (L+2) polynomials of T coefficients, x first
		setRand(pseed)
		d.polys[k] = make([][]*big.Int, L+2)
		for j := 0; j < L+2; j++ {
			d.polys[k][j] = make([]*big.Int, T)
			for c := 0; c < T; c++ {
				d.polys[k][j][c] = zrBig(curve.NewRandomZr(nil))
			}
		}
		setRand(pseed)
		wg.Add(1)
		go func() {
			defer wg.Done()
			defer func() {
				if r := recover(); r != nil {
					d.panics[k] = fmt.Sprint(r)
					for j := 0; j < N; j++ {
						sent[k] <- struct{}{}
					}
				}
			}()
			d.shares[k], d.errs[k] = d.parties[k].KeyGen(ctx)
		}()
		for j := 0; j < N-1; j++ {
			select {
			case <-sent[k]:
			case <-ctx.Done():
				d.timedOut = true
			}
		}
	}
	wg.Wait()
	for i := 0; i < N; i++ {
		if d.errs[i] == nil && d.panics[i] == "" {
			raw, err := d.parties[i].ThresholdPK()
			if err == nil {
				d.tpkRaw[i] = raw
			}
		}
	}
	return d
}

func identityOrder(n int) []int {
	res := make([]int, n)
	for i := range res {
		res[i] = i
	}
	return res
}

func (d *dkg) ok() bool {
	for i := 0; i < d.N; i++ {
		if d.errs[i] != nil || d.panics[i] != "" || d.tpkRaw[i] == nil {
			return false
		}
	}
	return true
}

// evalPoly: sum_c coeff[c] * x^c mod r
func evalPoly(coeffs []*big.Int, x int64) *big.Int {
	res := new(big.Int)
	xp := big.NewInt(1)
	bx := big.NewInt(x)
	for _, c := range coeffs {
		res.Add(res, new(big.Int).Mul(c, xp))
		xp = new(big.Int).Mul(xp, bx)
	}
	return res.Mod(res, groupOrder)
}

// closedForm: sum over dealers of polynomial j at point x (x = 0 gives the secret)
func (d *dkg) closedForm(j int, x int64) *big.Int {
	res := new(big.Int)
	for k := 0; k < d.N; k++ {
		res.Add(res, evalPoly(d.polys[k][j], x))
	}
	return res.Mod(res, groupOrder)
}

func unmarshalStored(raw []byte) (*storedData, *xys, error) {
	sd := &storedData{}
	if _, err := asn1.Unmarshal(raw, sd); err != nil {
		return nil, nil, err
	}
	sk := &xys{}
	if _, err := asn1.Unmarshal(sd.Sk, sk); err != nil {
		return nil, nil, err
	}
	return sd, sk, nil
}

// subsets of {1..n} of size >= lo and <= hi, as sorted identifier lists
func subsets(n, lo, hi int) [][]uint16 {
	var res [][]uint16
	for mask := 1; mask < 1<<uint(n); mask++ {
		var s []uint16
		for i := 0; i < n; i++ {
			if mask&(1<<uint(i)) != 0 {
				s = append(s, uint16(i+1))
			}
		}
		if len(s) >= lo && len(s) <= hi {
			res = append(res, s)
		}
	}
	return res
}

func u16s(xs []uint16) []int {
	res := make([]int, len(xs))
	for i, x := range xs {
		res[i] = int(x)
	}
	return res
}

// message vectors by pattern: equal numbers = equal byte strings, 0 = the empty string
func msgOf(pattern []int) [][]byte {
	res := make([][]byte, len(pattern))
	for i, p := range pattern {
		if p == 0 {
			res[i] = []byte{}
		} else {
			res[i] = []byte(fmt.Sprintf("message entry number %d of the verification harness", p))
		}
	}
	return res
}
