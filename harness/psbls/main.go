package main

// BLS half of the "ps" engine (property C09, and the bls entry points of C10): drives the real
// github.com/IBM/TSS/mpc/bls package of /repo with its own pinned mathlib version (a separate module from
// harness/ps because mpc/ps and mpc/bls pin different mathlib versions).

import (
	"bufio"
	"context"
	crand "crypto/rand"
	"crypto/sha256"
	"encoding/asn1"
	"encoding/json"
	"flag"
	"fmt"
	"os"
	"sync"
	"time"

	"github.com/IBM/TSS/mpc/bls"
	math "github.com/IBM/mathlib"
)

var out *bufio.Writer
var curve = math.Curves[1]

func emit(v interface{}) {
	b, err := json.Marshal(v)
	if err != nil {
		panic(err)
	}
	out.Write(b)
	out.WriteByte('\n')
}

type stream struct {
	mu sync.Mutex
	p  *prng
}

func (s *stream) Read(b []byte) (int, error) {
	s.mu.Lock()
	defer s.mu.Unlock()
	for i := range b {
		b[i] = byte(s.p.next())
	}
	return len(b), nil
}

type nolog struct{}

func (nolog) Debugf(string, ...interface{}) {}
func (nolog) Infof(string, ...interface{})  {}
func (nolog) Warnf(string, ...interface{})  {}
func (nolog) Errorf(string, ...interface{}) {}

func guard(f func() error) (err error, panicked bool, what string) {
	defer func() {
		if r := recover(); r != nil {
			panicked = true
			what = fmt.Sprint(r)
		}
	}()
	return f(), false, ""
}

func ids(n int) []uint16 {
	res := make([]uint16, n)
	for i := range res {
		res[i] = uint16(i + 1)
	}
	return res
}

type dkg struct {
	N, T    int
	parties []*bls.TBLS
	shares  [][]byte
	errs    []error
	panics  []string
	pp      []byte // ThresholdPK() of party 1
	same    bool
}

func runDKG(N, T int, seed uint64) *dkg {
	crand.Reader = &stream{p: newPRNG(seed)}
	d := &dkg{N: N, T: T, parties: make([]*bls.TBLS, N), shares: make([][]byte, N), errs: make([]error, N), panics: make([]string, N)}
	for i := 0; i < N; i++ {
		d.parties[i] = &bls.TBLS{Party: uint16(i + 1), Logger: nolog{}}
	}
	for i := 0; i < N; i++ {
		i := i
		d.parties[i].Init(ids(N), T, func(msg []byte, isBroadcast bool, to uint16) {
			cp := append([]byte{}, msg...)
			if isBroadcast {
				for j := 0; j < N; j++ {
					if j != i {
						d.parties[j].OnMsg(cp, uint16(i+1), true)
					}
				}
			} else {
				d.parties[int(to)-1].OnMsg(cp, uint16(i+1), false)
			}
		})
	}
	ctx, cancel := context.WithTimeout(context.Background(), 20*time.Second)
	defer cancel()
	var wg sync.WaitGroup
	for k := 0; k < N; k++ {
		k := k
		wg.Add(1)
		go func() {
			defer wg.Done()
			defer func() {
				if r := recover(); r != nil {
					d.panics[k] = fmt.Sprint(r)
				}
			}()
			d.shares[k], d.errs[k] = d.parties[k].KeyGen(ctx)
		}()
	}
	wg.Wait()
	d.same = true
	for i := 0; i < N; i++ {
		if d.errs[i] != nil || d.panics[i] != "" {
			d.same = false
			continue
		}
		raw, err := d.parties[i].ThresholdPK()
		if err != nil {
			d.same = false
			continue
		}
		if d.pp == nil {
			d.pp = raw
		} else if string(raw) != string(d.pp) {
			d.same = false
		}
	}
	return d
}

func subsets(n, lo, hi int) [][]uint16 {
	var res [][]uint16
	for mask := 1; mask < 1<<uint(n); mask++ {
		var s []uint16
		for i := 0; i < n; i++ {
			if mask&(1<<uint(i)) != 0 {
				s = append(s, uint16(i+1))
			}
		}
		if len(s) >= lo && len(s) <= hi {
			res = append(res, s)
		}
	}
	return res
}

func u16s(xs []uint16) []int {
	res := make([]int, len(xs))
	for i, x := range xs {
		res[i] = int(x)
	}
	return res
}

type jCase struct {
	Kind    string `json:"kind"` // "case"
	Cls     string `json:"cls"`  // "bls"
	N       int    `json:"N"`
	T       int    `json:"t"`
	Signers []int  `json:"signers"`
	Pert    string `json:"pert"`
	Idx     int    `json:"idx"`
	V1      bool   `json:"v1"`
	V2      bool   `json:"v2"`
	Panic   bool   `json:"panic"`
	Err     string `json:"err"`
	Makers  []int  `json:"makers,omitempty"` // blspairs: the party that really made the k-th share
	Side    string `json:"side,omitempty"`   // blspairs: observed side effect / non-determinism of the two identical calls
}

func twice(c *jCase, f func() error) {
	err, pan, what := guard(f)
	c.V1 = err == nil && !pan
	if err != nil {
		c.Err = err.Error()
	}
	if pan {
		c.Panic, c.Err = true, "PANIC "+what
	}
	err2, pan2, what2 := guard(f)
	c.V2 = err2 == nil && !pan2
	if pan2 {
		c.Panic = true
		c.Err += " / second: PANIC " + what2
	}
}

// aggregate calls Verifier.AggregateSignatures; a panic (the routine panics on a single signer:
// "empty lagrange coefficient vector") is reported as an error of the aggregation step.
func aggregate(v *bls.Verifier, sigs [][]byte, signers []uint16) (res []byte, err error) {
	defer func() {
		if r := recover(); r != nil {
			err = fmt.Errorf("PANIC %v", r)
		}
	}()
	return v.AggregateSignatures(sigs, signers)
}

func g1Plus(raw []byte) ([]byte, error) {
	p, err := curve.NewG1FromBytes(raw)
	if err != nil {
		return nil, err
	}
	p.Add(curve.GenG1)
	return p.Bytes(), nil
}

func g1ZeroBytes() []byte {
	z := curve.GenG1.Copy()
	z.Sub(curve.GenG1)
	return z.Bytes()
}

func runPerturb(seed uint64, thorough bool) {
	r := newPRNG(seed)
	cfgs := [][2]int{{3, 2}, {4, 3}, {2, 2}}
	if thorough {
		cfgs = append(cfgs, [2]int{4, 2}, [2]int{4, 4}, [2]int{3, 3}, [2]int{5, 3})
	}
	for _, cfg := range cfgs {
		N, T := cfg[0], cfg[1]
		d := runDKG(N, T, r.next())
		dOther := runDKG(N, T, r.next())
		if !d.same || !dOther.same {
			emit(jCase{Kind: "case", Cls: "setup", N: N, T: T, Err: "DKG failed"})
			continue
		}
		v, vOther := &bls.Verifier{}, &bls.Verifier{}
		if err := v.Init(d.pp); err != nil {
			emit(jCase{Kind: "case", Cls: "setup", N: N, T: T, Err: err.Error()})
			continue
		}
		if err := vOther.Init(dOther.pp); err != nil {
			emit(jCase{Kind: "case", Cls: "setup", N: N, T: T, Err: err.Error()})
			continue
		}
		msg := sha256.Sum256([]byte(fmt.Sprintf("message %d of the harness", r.intn(1000))))
		msg2 := sha256.Sum256([]byte("another message"))
		digest, digest2 := msg[:], msg2[:]
		// every party signs from its stored share (a fresh instance loaded from the share data, as the tests do)
		sigs, sigs2 := make([][]byte, N), make([][]byte, N)
		for i := 0; i < N; i++ {
			p := &bls.TBLS{Party: uint16(i + 1), Logger: nolog{}}
			p.Init(ids(N), T, func([]byte, bool, uint16) {})
			if err := p.SetShareData(d.shares[i]); err != nil {
				emit(jCase{Kind: "case", Cls: "setup", N: N, T: T, Err: err.Error()})
				continue
			}
			sigs[i], _ = p.Sign(context.Background(), digest)
			sigs2[i], _ = p.Sign(context.Background(), digest2)
		}
		pick := func(all [][]byte, signers []uint16) [][]byte {
			res := make([][]byte, len(signers))
			for k, id := range signers {
				res[k] = all[int(id)-1]
			}
			return res
		}
		base := jCase{Kind: "case", Cls: "bls", N: N, T: T}
		verdict := func(c jCase, ver *bls.Verifier, dg []byte, agg []byte, aerr error) {
			if aerr != nil {
				c.Err = "aggregate: " + aerr.Error()
				emit(c)
				return
			}
			twice(&c, func() error { return ver.Verify(dg, agg) })
			emit(c)
		}
		lo := T - 1
		if lo < 1 {
			lo = 1
		}
		for _, signers := range subsets(N, lo, N) {
			c := base
			c.Signers = u16s(signers)
			below := len(signers) < T
			agg, aerr := aggregate(v, pick(sigs, signers), signers)
			if below {
				c.Pert = "below_t"
				verdict(c, v, digest, agg, aerr)
				continue
			}
			c.Pert = "honest"
			verdict(c, v, digest, agg, aerr)
			// message changed (one byte flipped)
			flipped := append([]byte{}, digest...)
			flipped[r.intn(len(flipped))] ^= 1 << uint(r.intn(8))
			c.Pert = "msgflip"
			verdict(c, v, flipped, agg, aerr)
			// every share + generator
			for k := range signers {
				ss := pick(sigs, signers)
				var err error
				ss[k], err = g1Plus(ss[k])
				c.Pert, c.Idx = "share_plusgen", k
				a2, aerr2 := aggregate(v, ss, signers)
				if err != nil {
					aerr2 = err
				}
				verdict(c, v, digest, a2, aerr2)
			}
			c.Idx = 0
			// aggregate altered
			if aerr == nil {
				a2, err := g1Plus(agg)
				c.Pert = "agg_plusgen"
				verdict(c, v, digest, a2, err)
				c.Pert = "agg_zero"
				verdict(c, v, digest, g1ZeroBytes(), nil)
				a3, aerr3 := aggregate(v, pick(sigs2, signers), signers)
				c.Pert = "agg_swap"
				verdict(c, v, digest, a3, aerr3)
			}
			// key of another DKG
			c.Pert = "otherkey"
			verdict(c, vOther, digest, agg, aerr)
			// shares rotated against the signer list
			if len(signers) >= 2 {
				ss := pick(sigs, signers)
				rot := append(append([][]byte{}, ss[1:]...), ss[0])
				a4, aerr4 := aggregate(v, rot, signers)
				c.Pert = "rotated"
				verdict(c, v, digest, a4, aerr4)
			}
		}
		pairsCases(r, N, T, v, digest, sigs, thorough)
	}
}

// permutations of xs: all of them when there are at most limit, otherwise limit random ones (the identity first)
func permutations(r *prng, xs []uint16, limit int) [][]uint16 {
	var res [][]uint16
	n := len(xs)
	total := 1
	for i := 2; i <= n; i++ {
		total *= i
	}
	if total <= limit {
		var rec func(k int, cur []uint16, used []bool)
		rec = func(k int, cur []uint16, used []bool) {
			if k == n {
				res = append(res, append([]uint16{}, cur...))
				return
			}
			for i := 0; i < n; i++ {
				if !used[i] {
					used[i] = true
					rec(k+1, append(cur, xs[i]), used)
					used[i] = false
				}
			}
		}
		rec(0, nil, make([]bool, n))
		return res
	}
	res = append(res, append([]uint16{}, xs...))
	for len(res) < limit {
		p := append([]uint16{}, xs...)
		for i := n - 1; i > 0; i-- {
			j := r.intn(i + 1)
			p[i], p[j] = p[j], p[i]
		}
		res = append(res, p)
	}
	return res
}

// pairsCases: (signer, share) pairs handed to the PUBLIC Verifier.AggregateSignatures in every order, and re-paired.
// makers[k] is the party whose share stands at position k, signers[k] the signer it is declared to come from.
// Both calls (aggregate, verify) are made twice on the same inputs; the inputs are compared with copies afterwards.
func pairsCases(r *prng, N, T int, v *bls.Verifier, digest []byte, sigs [][]byte, thorough bool) {
	run := func(variant string, signers, makers []uint16) {
		c := jCase{Kind: "case", Cls: "blspairs", N: N, T: T, Signers: u16s(signers), Makers: u16s(makers), Pert: variant}
		ss := make([][]byte, len(makers))
		for k, m := range makers {
			ss[k] = append([]byte{}, sigs[int(m)-1]...)
		}
		signersIn := append([]uint16{}, signers...)
		ssIn := make([][]byte, len(ss))
		for k := range ss {
			ssIn[k] = append([]byte{}, ss[k]...)
		}
		agg1, err1 := aggregate(v, ss, signers)
		agg2, err2 := aggregate(v, ss, signers)
		for k := range signers {
			if signers[k] != signersIn[k] {
				c.Side = "the caller's signer slice was modified by AggregateSignatures"
			}
		}
		for k := range ss {
			if string(ss[k]) != string(ssIn[k]) {
				c.Side = "the caller's signature bytes were modified by AggregateSignatures"
			}
		}
		if (err1 == nil) != (err2 == nil) || string(agg1) != string(agg2) {
			c.Side = "two identical AggregateSignatures calls returned different results"
		}
		verdictOf := func(agg []byte, aerr error) (bool, string) {
			if aerr != nil {
				return false, "aggregate: " + aerr.Error()
			}
			a := append([]byte{}, agg...)
			e1 := v.Verify(digest, a)
			e2 := v.Verify(digest, a)
			if (e1 == nil) != (e2 == nil) || string(a) != string(agg) {
				c.Side = "two identical Verify calls disagree or the signature bytes were modified"
			}
			if e1 != nil {
				return false, e1.Error()
			}
			return true, ""
		}
		_, pan, what := guard(func() error {
			var e string
			c.V1, e = verdictOf(agg1, err1)
			c.V2, _ = verdictOf(agg2, err2)
			c.Err = e
			return nil
		})
		if pan || (err1 != nil && len(err1.Error()) > 5 && err1.Error()[:5] == "PANIC") {
			c.Panic = true
			c.Err += " PANIC " + what
		}
		emit(c)
	}
	limit := 24
	lo := T - 1
	if lo < 2 {
		lo = 2
	}
	for _, S := range subsets(N, lo, N) {
		k := len(S)
		perms := permutations(r, S, limit)
		for pi, p := range perms {
			if k < T {
				run("below_t", p, p)
				continue
			}
			// each share under its own signer, pairs in this order
			run("pairs_permuted", p, p)
			// the same shares, in this order, declared under the ascending signer list
			run("resorted", S, p)
			if !thorough && pi%3 != 0 && k > 2 {
				continue // quick tier: the re-pairings below for every third order only
			}
			// two shares swapped between their signers
			i := r.intn(k)
			j := (i + 1 + r.intn(k-1)) % k
			m := append([]uint16{}, p...)
			m[i], m[j] = m[j], m[i]
			run("swap2", p, m)
			// a share under a signer that did not make it (the maker is not in the list at all)
			if N > k {
				in := map[uint16]bool{}
				for _, x := range S {
					in[x] = true
				}
				var outsiders []uint16
				for x := 1; x <= N; x++ {
					if !in[uint16(x)] {
						outsiders = append(outsiders, uint16(x))
					}
				}
				m = append([]uint16{}, p...)
				m[r.intn(k)] = outsiders[r.intn(len(outsiders))]
				run("foreign_share", p, m)
			}
			// one signer twice (with its share twice), another one missing
			dsig := append([]uint16{}, p...)
			dsig[j] = dsig[i]
			run("duplicate_signer", dsig, dsig)
		}
	}
}

// ---- malformed input at the bls entry points (C10 part) ----

type jMal struct {
	Kind  string `json:"kind"` // "malformed"
	Entry string `json:"entry"`
	Input string `json:"input"`
	Panic bool   `json:"panic"`
	Err   bool   `json:"err"`
	What  string `json:"what"`
}

func mutations(r *prng, valid []byte, n int) [][]byte {
	res := [][]byte{{}, {0}, {0x30}, {0x30, 0x00}, {0x30, 0x80}, {0x30, 0x84, 0xff, 0xff, 0xff, 0xff}}
	for i := 0; i < len(valid) && i < 12; i++ {
		res = append(res, append([]byte{}, valid[:i]...))
	}
	for i := 0; i < n; i++ {
		m := append([]byte{}, valid...)
		if len(m) == 0 {
			break
		}
		switch r.intn(4) {
		case 0:
			m = m[:r.intn(len(m))]
		case 1:
			m[r.intn(len(m))] ^= byte(1 << uint(r.intn(8)))
		case 2: // length byte mutation near the front (ASN.1 headers)
			k := r.intn(minInt(len(m), 12))
			m[k] = byte(r.intn(256))
		case 3:
			m = append(m, r.bytes(1+r.intn(4))...)
		}
		res = append(res, m)
	}
	return res
}

func minInt(a, b int) int {
	if a < b {
		return a
	}
	return b
}

func short(b []byte) string {
	if len(b) > 48 {
		return fmt.Sprintf("%x...(%d bytes)", b[:48], len(b))
	}
	return fmt.Sprintf("%x", b)
}

func runMalformed(seed uint64, thorough bool) {
	r := newPRNG(seed)
	n := 60
	if thorough {
		n = 600
	}
	d := runDKG(3, 2, r.next())
	if !d.same {
		emit(jMal{Kind: "malformed", Entry: "setup", What: "DKG failed"})
		return
	}
	digest := sha256.Sum256([]byte("m"))
	sig, _ := d.parties[0].Sign(context.Background(), digest[:])
	try := func(entry string, in []byte, f func() error) {
		err, pan, what := guard(f)
		emit(jMal{Kind: "malformed", Entry: entry, Input: short(in), Panic: pan, Err: err != nil, What: what})
	}
	for _, m := range mutations(r, d.pp, n) {
		m := m
		try("bls.Verifier.Init", m, func() error { return (&bls.Verifier{}).Init(m) })
	}
	v := &bls.Verifier{}
	v.Init(d.pp)
	for _, m := range mutations(r, sig, n) {
		m := m
		try("bls.Verifier.Verify", m, func() error { return v.Verify(digest[:], m) })
		try("bls.Verifier.AggregateSignatures", m, func() error {
			_, err := v.AggregateSignatures([][]byte{m, sig}, []uint16{1, 2})
			return err
		})
	}
	for _, m := range mutations(r, d.shares[0], n) {
		m := m
		try("bls.TBLS.SetShareData", m, func() error {
			p := &bls.TBLS{Party: 1, Logger: nolog{}}
			p.Init(ids(3), 2, func([]byte, bool, uint16) {})
			return p.SetShareData(m)
		})
	}
	// DKG messages in a fresh, initialised instance: every tag, truncated / mutated payloads, empty payload
	pkRaw := func() []byte {
		var pp bls.PublicParams
		asn1.Unmarshal(d.pp, &pp)
		return pp.PublicKeys[1]
	}()
	var msgs [][]byte
	for tag := 0; tag < 5; tag++ {
		for _, m := range mutations(r, pkRaw, n/4) {
			msgs = append(msgs, append([]byte{byte(tag)}, m...))
		}
	}
	msgs = append(msgs, []byte{}, nil)
	for _, m := range msgs {
		m := m
		p := &bls.TBLS{Party: 1, Logger: nolog{}}
		p.Init(ids(3), 2, func([]byte, bool, uint16) {})
		try("bls.TBLS.ClassifyMsg", m, func() error { _, _, err := p.ClassifyMsg(m); return err })
		try("bls.TBLS.OnMsg", m, func() error { p.OnMsg(m, 2, false); p.OnMsg(m, 3, true); return nil })
	}
}

func main() {
	if len(os.Args) < 2 {
		fmt.Fprintln(os.Stderr, "usage: psbls <perturb|malformed> [flags]")
		os.Exit(2)
	}
	cmd := os.Args[1]
	fs := flag.NewFlagSet(cmd, flag.ExitOnError)
	seed := fs.Uint64("seed", 1, "PRNG seed")
	tier := fs.String("tier", "quick", "quick|thorough")
	outPath := fs.String("out", "", "output file (JSON lines); default stdout")
	fs.Parse(os.Args[2:])
	f := os.Stdout
	if *outPath != "" {
		var err error
		f, err = os.Create(*outPath)
		if err != nil {
			panic(err)
		}
		defer f.Close()
	}
	out = bufio.NewWriterSize(f, 1<<20)
	defer out.Flush()
	switch cmd {
	case "perturb":
		runPerturb(*seed, *tier == "thorough")
	case "malformed":
		runMalformed(*seed, *tier == "thorough")
	default:
		fmt.Fprintln(os.Stderr, "unknown command", cmd)
		os.Exit(2)
	}
}
