package main

import (
	"crypto/rand"
	"crypto/tls"
	"crypto/x509"
	"encoding/binary"
	"fmt"
	"net"
	"runtime"
	"sort"
	"sync"
	"sync/atomic"
	"syscall"
	"time"

	comm "github.com/IBM/TSS/net"
)

// C17 (and the honest half of C16): real nodes on loopback TLS through the public API of package net:
// Listen + ServiceConnections on the receiving side, NewSocketRemoteParty + SocketRemoteParties.Send on the sending side.

const loopDomain = "loop"

type rmsg struct {
	from  uint16
	dom   string
	ty    uint8
	topic []byte
	data  []byte
}

type node struct {
	id      uint16
	ident   *identity
	addr    string
	stop    func()
	remotes comm.SocketRemoteParties
	log     *capLogger
	mu      sync.Mutex
	inbox   []rmsg
}

type cluster struct {
	nodes []*node
	p2id  map[string]uint16
	pool  *x509.CertPool
	srvID *identity
}

func newCluster(n int) *cluster {
	c := &cluster{p2id: map[string]uint16{}, pool: x509.NewCertPool(), srvID: newIdentity("loop-tls", "p256")}
	c.pool.AppendCertsFromPEM(c.srvID.certPEM)
	for i := 0; i < n; i++ {
		nd := &node{id: uint16(i), ident: newIdentity(fmt.Sprintf("n%d", i), "p256"), addr: freeAddr(), log: &capLogger{}}
		c.nodes = append(c.nodes, nd)
		c.p2id[lookupKey(loopDomain, nd.ident.certPEM)] = nd.id
	}
	return c
}

// listen starts the real receiving side of a node
func (c *cluster) listen(nd *node) {
	lsnr := comm.Listen(nd.addr, c.srvID.certPEM, c.srvID.keyPEM())
	in, stop := comm.ServiceConnections(lsnr, c.p2id, nd.log)
	nd.stop = stop
	go func() {
		for m := range in {
			nd.mu.Lock()
			nd.inbox = append(nd.inbox, rmsg{m.From, m.Domain, m.Type, m.Topic, m.Data})
			nd.mu.Unlock()
		}
	}()
}

func authFunc(id *identity, domain string) func([]byte) comm.Handshake {
	return func(binding []byte) comm.Handshake {
		h := comm.Handshake{Domain: domain, TLSBinding: binding, Identity: id.certPEM, Timestamp: time.Now().Unix()}
		sig, err := id.signer.Sign(rand.Reader, sha(h.Bytes()), nil)
		if err != nil {
			panic(err)
		}
		h.Signature = sig
		return h
	}
}

// connectOut builds the real sending side of a node towards all others
func (c *cluster) connectOut(nd *node) {
	nd.remotes = comm.SocketRemoteParties{}
	for _, o := range c.nodes {
		if o.id == nd.id {
			continue
		}
		nd.remotes[int(o.id)] = comm.NewSocketRemoteParty(comm.PartyConnectionConfig{
			AuthFunc: authFunc(nd.ident, loopDomain), Domain: loopDomain, Id: int(o.id), Endpoint: o.addr, TlsCAs: c.pool}, nd.log)
	}
}

func (nd *node) snapshot() []rmsg {
	nd.mu.Lock()
	defer nd.mu.Unlock()
	return append([]rmsg(nil), nd.inbox...)
}

// ---- deterministic traffic: message (sender, goroutine, seq) is a function of the seed ------------------------------

type spec struct {
	ty    uint8
	topic []byte
	data  []byte
	dests []uint16
}

func msgSpec(seed uint64, n int, sender uint16, g, seq int, exclude map[uint16]bool, bigTo map[uint16]bool) spec {
	r := newPRNG(seed ^ (uint64(sender)<<40 | uint64(g)<<32 | uint64(seq)))
	ty := []uint8{0, 1, 2, 3, 2, 1}[r.intn(6)]
	var topic []byte
	if pinnedHasTopic(ty) {
		topic = r.bytes(32)
	}
	size := []int{0, 1, 5, 31, 32, 33, 100, 300}[r.intn(8)]
	if r.chance(1, 25) {
		size = 60000 + r.intn(20000)
	}
	var dests []uint16
	for d := 0; d < n; d++ {
		if uint16(d) != sender && !exclude[uint16(d)] && r.chance(2, 3) {
			dests = append(dests, uint16(d))
		}
	}
	if len(dests) == 0 {
		for d := 0; d < n; d++ {
			if uint16(d) != sender && !exclude[uint16(d)] {
				dests = append(dests, uint16(d))
				break
			}
		}
	}
	if len(bigTo) > 0 && seq < 6 {
		size = 1 << 20
		for d := range bigTo {
			has := false
			for _, x := range dests {
				if x == d {
					has = true
				}
			}
			if !has {
				dests = append(dests, d)
			}
		}
		sort.Slice(dests, func(i, j int) bool { return dests[i] < dests[j] })
	}
	data := make([]byte, 12+size)
	binary.LittleEndian.PutUint16(data[0:], sender)
	binary.LittleEndian.PutUint16(data[2:], uint16(g))
	binary.LittleEndian.PutUint32(data[4:], uint32(seq))
	binary.LittleEndian.PutUint32(data[8:], uint32(size))
	copy(data[12:], r.bytes(size))
	return spec{ty, topic, data, dests}
}

type trafficResult struct {
	Sent       int      `json:"sent"`
	Expected   int      `json:"expected"`
	Received   int      `json:"received"`
	Complete   bool     `json:"complete"`
	Violations []string `json:"violations"`
	Timeouts   int      `json:"timeouts"`
	WaitMs     int64    `json:"wait_ms"`
}

// runTraffic lets every sender node run G goroutines of M Send calls each, then checks every receiving node:
// per (receiver, sender, goroutine) exactly the addressed messages, once, in order, unmodified, attributed to the sender.
func runTraffic(c *cluster, seed uint64, senders, receivers []*node, G, M int, exclude map[uint16]bool, bigTo map[uint16]bool, wait time.Duration) trafficResult {
	res := trafficResult{Violations: []string{}}
	n := len(c.nodes)
	var wg sync.WaitGroup
	var sentMu sync.Mutex
	for _, s := range senders {
		for g := 0; g < G; g++ {
			wg.Add(1)
			go func(s *node, g int) {
				defer wg.Done()
				for seq := 0; seq < M; seq++ {
					sp := msgSpec(seed, n, s.id, g, seq, exclude, bigTo)
					s.remotes.Send(sp.ty, sp.topic, sp.data, sp.dests...)
					sentMu.Lock()
					res.Sent += len(sp.dests)
					sentMu.Unlock()
				}
			}(s, g)
		}
	}
	wg.Wait()
	// expectation per receiver
	isRecv := map[uint16]bool{}
	for _, r := range receivers {
		isRecv[r.id] = true
	}
	type key struct {
		r, s uint16
		g    int
	}
	exp := map[key][]int{}
	for _, s := range senders {
		for g := 0; g < G; g++ {
			for seq := 0; seq < M; seq++ {
				sp := msgSpec(seed, n, s.id, g, seq, exclude, bigTo)
				for _, d := range sp.dests {
					if isRecv[d] {
						exp[key{d, s.id, g}] = append(exp[key{d, s.id, g}], seq)
						res.Expected++
					}
				}
			}
		}
	}
	isSender := map[uint16]bool{}
	for _, s := range senders {
		isSender[s.id] = true
	}
	count := func() int {
		t := 0
		for _, r := range receivers {
			for _, m := range r.snapshot() {
				if isSender[m.from] && len(m.data) >= 12 && binary.LittleEndian.Uint16(m.data[0:]) == m.from {
					t++
				}
			}
		}
		return t
	}
	t0 := time.Now()
	for time.Since(t0) < wait && count() < res.Expected {
		time.Sleep(20 * time.Millisecond)
	}
	time.Sleep(100 * time.Millisecond) // anything duplicated would show up now
	res.WaitMs = time.Since(t0).Milliseconds()
	viol := func(f string, a ...interface{}) {
		if len(res.Violations) < 20 {
			res.Violations = append(res.Violations, fmt.Sprintf(f, a...))
		}
	}
	for _, r := range receivers {
		got := map[key][]int{}
		for _, m := range r.snapshot() {
			if !isSender[m.from] {
				continue // traffic of a scripted (faulty) peer is judged separately
			}
			if len(m.data) < 12 {
				viol("node %d: frame of %d bytes attributed to %d was never sent", r.id, len(m.data), m.from)
				continue
			}
			s := binary.LittleEndian.Uint16(m.data[0:])
			g := int(binary.LittleEndian.Uint16(m.data[2:]))
			seq := int(binary.LittleEndian.Uint32(m.data[4:]))
			if s != m.from {
				viol("node %d: message of sender %d attributed to %d", r.id, s, m.from)
				continue
			}
			if m.dom != loopDomain {
				viol("node %d: message of %d carries domain %q", r.id, s, m.dom)
			}
			res.Received++
			if g >= G || seq >= M {
				viol("node %d: message (%d,%d,%d) was never sent", r.id, s, g, seq)
				continue
			}
			sp := msgSpec(seed, n, s, g, seq, exclude, bigTo)
			if sp.ty != m.ty || string(sp.topic) != string(m.topic) || string(sp.data) != string(m.data) {
				viol("node %d: frame differs from what %d sent as (g=%d, seq=%d): type %d/%d, topic %d/%d bytes, payload %d/%d bytes",
					r.id, s, g, seq, m.ty, sp.ty, len(m.topic), len(sp.topic), len(m.data), len(sp.data))
			}
			got[key{r.id, s, g}] = append(got[key{r.id, s, g}], seq)
		}
		for k, e := range exp {
			if k.r != r.id {
				continue
			}
			g := got[k]
			if fmt.Sprint(g) != fmt.Sprint(e) {
				viol("node %d <- %d (goroutine %d): received sequence %v, sent %v (reordered / duplicated / missing)", k.r, k.s, k.g, trunc(g), trunc(e))
			}
		}
	}
	res.Complete = res.Received == res.Expected
	for _, s := range senders {
		res.Timeouts += s.log.timeoutCount()
	}
	return res
}

func trunc(a []int) []int {
	if len(a) > 30 {
		return a[:30]
	}
	return a
}

// ---- scenario: concurrent senders ------------------------------------------------------------------------------------

type jConc struct {
	Kind string `json:"kind"` // "conc"
	N    int    `json:"n"`
	G    int    `json:"g"`
	M    int    `json:"m"`
	trafficResult
}

func scenarioConcurrent(seed uint64, n, G, M int) {
	c := newCluster(n)
	for _, nd := range c.nodes {
		c.listen(nd)
	}
	for _, nd := range c.nodes {
		c.connectOut(nd)
	}
	r := runTraffic(c, seed, c.nodes, c.nodes, G, M, nil, nil, 30*time.Second)
	emit(jConc{"conc", n, G, M, r})
	for _, nd := range c.nodes {
		nd.stop()
	}
}

// ---- scenario: one peer down / stalled / garbling ---------------------------------------------------------------------

type jFaulty struct {
	Kind string `json:"kind"` // "faulty"
	Bad  int    `json:"bad"`
	Mode string `json:"mode"`
	trafficResult
	QueueToBad []int `json:"queue_to_bad"`
}

func scenarioFaulty(seed uint64, n, bad int, mode string, M int) {
	c := newCluster(n)
	badNode := c.nodes[bad]
	var good []*node
	for _, nd := range c.nodes {
		if nd.id != badNode.id {
			good = append(good, nd)
		}
	}
	for _, nd := range good {
		c.listen(nd)
	}
	var bigTo map[uint16]bool
	switch mode {
	case "down":
		// nobody listens on the bad node's address
	case "stalled":
		// completes the TLS handshake, then never reads a byte
		cert, _ := tls.X509KeyPair(c.srvID.certPEM, c.srvID.keyPEM())
		l, err := tls.Listen("tcp", badNode.addr, &tls.Config{Certificates: []tls.Certificate{cert}, MinVersion: tls.VersionTLS13})
		if err != nil {
			panic(err)
		}
		var held []net.Conn
		var hm sync.Mutex
		go func() {
			for {
				conn, err := l.Accept()
				if err != nil {
					return
				}
				go func() {
					conn.(*tls.Conn).Handshake()
					hm.Lock()
					held = append(held, conn)
					hm.Unlock()
				}()
			}
		}()
		bigTo = map[uint16]bool{badNode.id: true} // 6 x 1 MiB per sender goroutine: more than the socket buffers take
	case "garbling":
		// as a server: reads a little, answers with noise, slams the connection
		cert, _ := tls.X509KeyPair(c.srvID.certPEM, c.srvID.keyPEM())
		l, err := tls.Listen("tcp", badNode.addr, &tls.Config{Certificates: []tls.Certificate{cert}, MinVersion: tls.VersionTLS13})
		if err != nil {
			panic(err)
		}
		go func() {
			for {
				conn, err := l.Accept()
				if err != nil {
					return
				}
				go func() {
					buf := make([]byte, 700)
					conn.Read(buf)
					conn.Write([]byte{2, 0xff, 0xff, 0xff, 0xff, 1, 2, 3})
					conn.Close()
				}()
			}
		}()
	}
	for _, nd := range good {
		c.connectOut(nd)
	}
	var garbleWG sync.WaitGroup
	if mode == "garbling" {
		// as a client: towards every good node, a series of broken connections, concurrently with the honest traffic
		for _, g := range good {
			garbleWG.Add(1)
			go func(g *node) {
				defer garbleWG.Done()
				garble(c, badNode, g, seed)
			}(g)
		}
	}
	exclude := map[uint16]bool{}
	if mode != "stalled" {
		// honest nodes keep addressing the bad node as well (its queue fills, nothing else may happen)
	}
	r := runTraffic(c, seed, good, good, 2, M, exclude, bigTo, 30*time.Second)
	garbleWG.Wait()
	j := jFaulty{Kind: "faulty", Bad: bad, Mode: mode, trafficResult: r}
	for _, g := range good {
		j.QueueToBad = append(j.QueueToBad, g.remotes.VerifQueueLen(bad))
	}
	emit(j)
	if mode == "garbling" {
		time.Sleep(200 * time.Millisecond)
		emitGarbleCases(c, badNode, good)
	}
	for _, nd := range good {
		nd.stop()
	}
}

// what the garbling peer sent on each of its connections, for the correspondence with the model of handleConn
type garbleConn struct {
	to      uint16
	idx     int
	binding []byte
	stream  []byte
	raw     bool
}

var (
	garbleMu    sync.Mutex
	garbleConns []garbleConn
)

func garble(c *cluster, bad, to *node, seed uint64) {
	r := newPRNG(seed ^ uint64(to.id)<<20 ^ 0xbad)
	limit := comm.VerifMaxBuffLen()
	tag := func(idx, k int) []byte { return []byte{0xBA, 0xD0, byte(to.id), byte(idx), byte(k)} }
	mk := func(idx int, fs ...frameIn) []byte {
		var out []byte
		for _, f := range fs {
			out = append(out, f.ty, byte(len(f.data)), byte(len(f.data)>>8), byte(len(f.data)>>16), byte(len(f.data)>>24))
			out = append(out, f.topic...)
			out = append(out, f.data...)
		}
		return out
	}
	over := []byte{2, byte(limit + 1), byte((limit + 1) >> 8), byte((limit + 1) >> 16), byte((limit + 1) >> 24), 9, 9}
	scripts := []func(idx int, b []byte) []byte{
		// valid handshake, two good frames, then a frame announcing more than the limit
		func(idx int, b []byte) []byte {
			s := lenPrefix16(signedHandshake(bad.ident, loopDomain, b, time.Now().Unix()))
			s = append(s, mk(idx, frameIn{2, r.bytes(32), tag(idx, 0)}, frameIn{0, nil, tag(idx, 1)})...)
			return append(s, over...)
		},
		// valid handshake, one good frame, then a frame cut in the middle
		func(idx int, b []byte) []byte {
			s := lenPrefix16(signedHandshake(bad.ident, loopDomain, b, time.Now().Unix()))
			s = append(s, mk(idx, frameIn{1, r.bytes(32), tag(idx, 0)})...)
			cut := mk(idx, frameIn{2, r.bytes(32), append(tag(idx, 1), r.bytes(40)...)})
			return append(s, cut[:len(cut)-11]...)
		},
		// valid handshake, a frame whose type wants a topic but carries none, noise
		func(idx int, b []byte) []byte {
			s := lenPrefix16(signedHandshake(bad.ident, loopDomain, b, time.Now().Unix()))
			return append(s, mk(idx, frameIn{2, nil, tag(idx, 0)}, frameIn{0, nil, r.bytes(3)})...)
		},
		// handshake of the bad node claiming to be an honest node (identity substituted, own signature), then frames
		func(idx int, b []byte) []byte {
			h := hsWire{Domain: loopDomain, TLSBinding: b, Identity: to.ident.certPEM, Timestamp: time.Now().Unix()}
			h.Signature = signWith(bad.ident, h)
			s := lenPrefix16(marshalHS(h))
			return append(s, mk(idx, frameIn{0, nil, tag(idx, 0)})...)
		},
		// noise instead of a handshake
		func(idx int, b []byte) []byte {
			return append(lenPrefix16(r.bytes(50)), mk(idx, frameIn{0, nil, tag(idx, 0)})...)
		},
		// a length prefix and nothing else
		func(idx int, b []byte) []byte { return []byte{0xff, 0x7f} },
	}
	for idx, sc := range scripts {
		conn, err := tls.Dial("tcp", to.addr, &tls.Config{RootCAs: c.pool, MinVersion: tls.VersionTLS13})
		if err != nil {
			continue
		}
		b := exporter(conn)
		s := sc(idx, b)
		conn.Write(s)
		conn.Close()
		garbleMu.Lock()
		garbleConns = append(garbleConns, garbleConn{to: to.id, idx: idx, binding: b, stream: s})
		garbleMu.Unlock()
	}
	// not even TLS
	if raw, err := net.Dial("tcp", to.addr); err == nil {
		raw.Write(r.bytes(200))
		raw.Close()
	}
}

func emitGarbleCases(c *cluster, bad *node, good []*node) {
	garbleMu.Lock()
	defer garbleMu.Unlock()
	byID := map[uint16]*node{}
	for _, g := range good {
		byID[g.id] = g
	}
	for _, gc := range garbleConns {
		j := jConn{Kind: "conn", Name: fmt.Sprintf("garbler/%d->%d/script%d", bad.id, gc.to, gc.idx), Class: "garbled", Should: "by-script",
			Binding: hx(gc.binding), Stream: hx(gc.stream), Msgs: []jInMsg{}}
		j.Or = oraclesFor(c.p2id, gc.stream)
		// what reached the channel of that node from this connection: frames tagged with (to, idx)
		for _, m := range byID[gc.to].snapshot() {
			if len(m.data) >= 5 && m.data[0] == 0xBA && m.data[1] == 0xD0 && m.data[2] == byte(gc.to) && m.data[3] == byte(gc.idx) {
				j.Msgs = append(j.Msgs, jInMsg{hx([]byte(m.dom)), m.from, m.ty, hx(m.topic), hx(m.data)})
			}
		}
		if gc.idx == 3 {
			j.Class, j.Should = "identity", "refuse"
		}
		if gc.idx >= 4 {
			j.Class, j.Should = "malformed", "refuse"
		}
		emit(j)
	}
}

// ---- scenario: queue operation sequences against the model -------------------------------------------------------------

type jQOp struct {
	Op string `json:"op"` // enq connect write
	D  int    `json:"d"`
	M  int    `json:"m"`
	Ok bool   `json:"ok"`
}

type jQueue struct {
	Kind    string  `json:"kind"` // "queue"
	Name    string  `json:"name"`
	Members []int   `json:"members"`
	Cap     int     `json:"cap"`
	Ops     []jQOp  `json:"ops"`
	Results []int   `json:"results"` // per op: 0 accepted 1 dropped 2 panic 3 none
	Final   []jQFin `json:"final"`
}

type jQFin struct {
	D    int   `json:"d"`
	Wire []int `json:"wire"`
	QLen int   `json:"qlen"`
}

func idOf(data []byte) int { return int(binary.LittleEndian.Uint32(data)) }

func wireAt(nd *node, from uint16) []int {
	var w []int
	for _, m := range nd.snapshot() {
		if m.from == from && len(m.data) >= 4 {
			w = append(w, idOf(m.data))
		}
	}
	return w
}

func scenarioQueue(seed uint64, rounds int) {
	r := newPRNG(seed)
	for round := 0; round < rounds; round++ {
		c := newCluster(4)
		s := c.nodes[0]
		late := -1
		if round%2 == 1 {
			late = 1 + r.intn(3)
		}
		for _, nd := range c.nodes[1:] {
			if int(nd.id) != late {
				c.listen(nd)
			}
		}
		c.connectOut(s)
		q := jQueue{Kind: "queue", Name: fmt.Sprintf("round%d/late=%d", round, late), Members: []int{1, 2, 3}, Cap: s.remotes.VerifQueueCap(1)}
		if late >= 0 {
			q.Ops = append(q.Ops, jQOp{Op: "connect", D: late, Ok: false})
			q.Results = append(q.Results, 3)
		}
		k := 10 + r.intn(40)
		perDest := map[int][]int{}
		for m := 0; m < k; m++ {
			var to []uint16
			for d := 1; d <= 3; d++ {
				if r.chance(1, 2) {
					to = append(to, uint16(d))
				}
			}
			if len(to) == 0 {
				to = []uint16{uint16(1 + r.intn(3))}
			}
			data := make([]byte, 4+r.intn(20))
			binary.LittleEndian.PutUint32(data, uint32(m))
			before := s.log.timeoutCount()
			pan := false
			func() {
				defer func() {
					if e := recover(); e != nil {
						pan = true
					}
				}()
				s.remotes.Send(0, nil, data, to...)
			}()
			for _, d := range to {
				q.Ops = append(q.Ops, jQOp{Op: "enq", D: int(d), M: m})
				switch {
				case pan:
					q.Results = append(q.Results, 2)
				case s.log.timeoutCount() > before:
					q.Results = append(q.Results, 1)
				default:
					q.Results = append(q.Results, 0)
					perDest[int(d)] = append(perDest[int(d)], m)
				}
			}
		}
		if late >= 0 {
			// while the destination is unreachable nothing leaves its queue
			time.Sleep(150 * time.Millisecond)
			mid := q
			mid.Name += "/before-listen"
			mid.Ops = append([]jQOp(nil), q.Ops...)
			mid.Results = append([]int(nil), q.Results...)
			mid.Final = []jQFin{{D: late, Wire: []int{}, QLen: s.remotes.VerifQueueLen(late)}}
			emit(mid)
			c.listen(c.nodes[late])
		}
		// the writers drain: connect, then one write per queued message
		t0 := time.Now()
		done := func() bool {
			for d := 1; d <= 3; d++ {
				if len(wireAt(c.nodes[d], 0)) < len(perDest[d]) {
					return false
				}
			}
			return true
		}
		for !done() && time.Since(t0) < 8*time.Second {
			time.Sleep(20 * time.Millisecond)
		}
		time.Sleep(50 * time.Millisecond)
		for d := 1; d <= 3; d++ {
			q.Ops = append(q.Ops, jQOp{Op: "connect", D: d, Ok: true})
			q.Results = append(q.Results, 3)
			for range perDest[d] {
				q.Ops = append(q.Ops, jQOp{Op: "write", D: d, Ok: true})
				q.Results = append(q.Results, 3)
			}
			w := wireAt(c.nodes[d], 0)
			if w == nil {
				w = []int{}
			}
			q.Final = append(q.Final, jQFin{D: d, Wire: w, QLen: s.remotes.VerifQueueLen(d)})
		}
		emit(q)
		for _, nd := range c.nodes[1:] {
			if nd.stop != nil {
				nd.stop()
			}
		}
	}
}

// ---- scenario (thorough): a destination whose queue stays full for the real 10 s enqueue timeout --------------------------

func scenarioStall10() {
	c := newCluster(2)
	s := c.nodes[0]
	c.connectOut(s)              // node 1 never listens
	parties := s.remotes.Clone() // queue capacity 10; a cloned party never gets as far as its (missing) AuthFunc here
	capQ := parties.VerifQueueCap(1)
	q := jQueue{Kind: "queue", Name: "stall10", Members: []int{1}, Cap: capQ}
	q.Ops = append(q.Ops, jQOp{Op: "connect", D: 1, Ok: false})
	q.Results = append(q.Results, 3)
	pan := false
	for m := 0; m < capQ+2 && !pan; m++ {
		data := make([]byte, 4)
		binary.LittleEndian.PutUint32(data, uint32(m))
		before := s.log.timeoutCount()
		func() {
			defer func() {
				if e := recover(); e != nil {
					pan = true
				}
			}()
			parties.Send(0, nil, data, 1)
		}()
		q.Ops = append(q.Ops, jQOp{Op: "enq", D: 1, M: m})
		switch {
		case pan:
			q.Results = append(q.Results, 2)
		case s.log.timeoutCount() > before:
			q.Results = append(q.Results, 1)
		default:
			q.Results = append(q.Results, 0)
		}
	}
	q.Final = []jQFin{{D: 1, Wire: []int{}, QLen: parties.VerifQueueLen(1)}}
	emit(q)
	emit(jMon{Kind: "mon", What: "panic", Ok: !pan, Detail: map[string]interface{}{"where": "Send, queue full for the enqueue timeout", "cap": capQ}})
}

// ---- scenario: burst -- one caller, one healthy destination, more messages than the queue holds ------------------------
// Send must block the caller while the queue is full: only then is the order of one caller's calls the order on the wire.

type jBurst struct {
	Kind       string   `json:"kind"` // "burst"
	Variant    string   `json:"variant"`
	N          int      `json:"n"`
	Payload    int      `json:"payload"`
	Cap        int      `json:"cap"`
	Received   int      `json:"received"`
	Complete   bool     `json:"complete"`
	Violations []string `json:"violations"`
	Timeouts   int      `json:"timeouts"`
	SendMs     int64    `json:"send_ms"`
	WaitMs     int64    `json:"wait_ms"`
}

func scenarioBurst(seed uint64, variant string, n, payload int) {
	c := newCluster(2)
	s, d := c.nodes[0], c.nodes[1]
	// receiving side: the real Listen + ServiceConnections; the consumer keeps sequence numbers only
	lsnr := comm.Listen(d.addr, c.srvID.certPEM, c.srvID.keyPEM())
	in, stop := comm.ServiceConnections(lsnr, c.p2id, d.log)
	j := jBurst{Kind: "burst", Variant: variant, N: n, Payload: payload, Violations: []string{}}
	var mu sync.Mutex
	var seqs []uint32
	viol := func(f string, a ...interface{}) {
		if len(j.Violations) < 10 {
			j.Violations = append(j.Violations, fmt.Sprintf(f, a...))
		}
	}
	filler := newPRNG(seed).bytes(payload)
	go func() {
		for m := range in {
			mu.Lock()
			if m.From != s.id || m.Domain != loopDomain || m.Type != 0 || len(m.Topic) != 0 || len(m.Data) != 4+payload ||
				(payload > 0 && (m.Data[4] != filler[0] || m.Data[len(m.Data)-1] != filler[payload-1])) {
				viol("frame differs: from %d type %d topic %d bytes payload %d bytes", m.From, m.Type, len(m.Topic), len(m.Data))
			} else {
				seqs = append(seqs, binary.LittleEndian.Uint32(m.Data))
			}
			mu.Unlock()
		}
	}()
	c.connectOut(s)
	j.Cap = s.remotes.VerifQueueCap(1)
	t0 := time.Now()
	for i := 0; i < n; i++ {
		data := make([]byte, 4+payload)
		binary.LittleEndian.PutUint32(data, uint32(i))
		copy(data[4:], filler)
		s.remotes.Send(0, nil, data, 1)
	}
	j.SendMs = time.Since(t0).Milliseconds()
	t1 := time.Now()
	for time.Since(t1) < 30*time.Second {
		mu.Lock()
		got := len(seqs)
		mu.Unlock()
		if got >= n {
			break
		}
		time.Sleep(10 * time.Millisecond)
	}
	time.Sleep(100 * time.Millisecond)
	j.WaitMs = time.Since(t1).Milliseconds()
	mu.Lock()
	j.Received = len(seqs)
	for i, q := range seqs {
		if int(q) != i {
			lo := i - 3
			if lo < 0 {
				lo = 0
			}
			hi := i + 8
			if hi > len(seqs) {
				hi = len(seqs)
			}
			viol("node 1 <- 0: message %d arrived at position %d (reordered / duplicated / missing); around it: %v", q, i, seqs[lo:hi])
			break
		}
	}
	mu.Unlock()
	j.Complete = j.Received == n
	j.Timeouts = s.log.timeoutCount()
	emit(j)
	stop()
}

// ---- scenario family: concurrent first send ----------------------------------------------------------------------------
// Every round builds FRESH destination objects (NewSocketRemoteParty) towards the same healthy peers and releases several
// caller goroutines through a spinning barrier, so that the very first Send to each destination is issued by all of them
// at the same instant.  Exactly one writer goroutine may be started per destination: with two, frames of one connection
// are reordered, interleaved (mis-framed) or lost.  Monitors: per (round, destination, caller) strict order, exactly once,
// integrity, count, nothing surplus.

type jFirst struct {
	Kind       string   `json:"kind"` // "firstsend"
	Rounds     int      `json:"rounds"`
	Senders    int      `json:"senders"`
	Dests      int      `json:"dests"`
	PerSender  int      `json:"frames_per_sender"`
	Expected   int      `json:"expected"`
	Received   int      `json:"received"`
	Complete   bool     `json:"complete"`
	FreshDests int      `json:"fresh_destinations"`
	Violations []string `json:"violations"`
	BadRound   int      `json:"bad_round"`
	Ms         int64    `json:"ms"`
}

func scenarioFirstSend(seed uint64, budget time.Duration, maxRounds int) {
	const S, D, F = 8, 3, 12
	c := newCluster(D + 1)
	sender := c.nodes[0]
	j := jFirst{Kind: "firstsend", Senders: S, Dests: D, PerSender: F, Violations: []string{}, BadRound: -1}
	var mu sync.Mutex
	viol := func(f string, a ...interface{}) {
		mu.Lock()
		if len(j.Violations) < 10 {
			j.Violations = append(j.Violations, fmt.Sprintf(f, a...))
		}
		mu.Unlock()
	}
	// receivers: real Listen + ServiceConnections; per (round, dest) the next expected sequence number of every caller
	type rk struct{ round, dest int }
	next := map[rk]*[S]int{}
	var counts sync.Map // round -> *int64
	countOf := func(round int) *int64 {
		v, _ := counts.LoadOrStore(round, new(int64))
		return v.(*int64)
	}
	filler := newPRNG(seed).bytes(64)
	for d := 1; d <= D; d++ {
		nd := c.nodes[d]
		lsnr := comm.Listen(nd.addr, c.srvID.certPEM, c.srvID.keyPEM())
		in, _ := comm.ServiceConnections(lsnr, c.p2id, nd.log)
		go func(d int, in <-chan comm.InMsg) {
			for m := range in {
				if m.From != sender.id || m.Domain != loopDomain || m.Type != 2 || len(m.Topic) != 32 || len(m.Data) < 12 {
					viol("node %d: frame differs: from %d type %d topic %d bytes payload %d bytes (never sent)", d, m.From, m.Type, len(m.Topic), len(m.Data))
					continue
				}
				round := int(binary.LittleEndian.Uint32(m.Data[0:]))
				g := int(binary.LittleEndian.Uint16(m.Data[4:]))
				seq := int(binary.LittleEndian.Uint16(m.Data[6:]))
				sz := int(binary.LittleEndian.Uint32(m.Data[8:]))
				if g >= S || seq >= F || sz != len(m.Data)-12 || sz > 64 || string(m.Data[12:]) != string(filler[:sz]) || m.Topic[0] != byte(round) || m.Topic[1] != byte(d) {
					viol("node %d: frame differs from anything sent: round %d caller %d seq %d, payload %d bytes", d, round, g, seq, len(m.Data))
					continue
				}
				mu.Lock()
				st := next[rk{round, d}]
				if st == nil {
					st = new([S]int)
					next[rk{round, d}] = st
				}
				want := st[g]
				if seq == want {
					st[g]++
				}
				mu.Unlock()
				if seq != want {
					viol("round %d, node %d <- caller %d: got sequence number %d where %d was due (reordered / duplicated / missing)", round, d, g, seq, want)
				}
				atomic.AddInt64(countOf(round), 1)
			}
		}(d, in)
	}
	// every fresh destination keeps a connection open at both ends (client and server live in this process): stay well below
	// the descriptor limit, otherwise dials start to fail and frames are "lost" by the harness, not by the code under test
	var rl syscall.Rlimit
	if err := syscall.Getrlimit(syscall.RLIMIT_NOFILE, &rl); err == nil {
		if fdRounds := (int(rl.Cur)*6/10 - 200) / (2 * D); fdRounds < maxRounds {
			maxRounds = fdRounds
		}
	}
	if maxRounds < 20 {
		maxRounds = 20
	}
	t0 := time.Now()
	r := newPRNG(seed ^ 0xf1)
	for round := 0; round < maxRounds && time.Since(t0) < budget; round++ {
		// fresh destination objects: nothing has ever been sent through them
		remotes := comm.SocketRemoteParties{}
		for d := 1; d <= D; d++ {
			remotes[d] = comm.NewSocketRemoteParty(comm.PartyConnectionConfig{
				AuthFunc: authFunc(sender.ident, loopDomain), Domain: loopDomain, Id: d, Endpoint: c.nodes[d].addr, TlsCAs: c.pool}, sender.log)
		}
		j.FreshDests += D
		sizes := [S][F]int{}
		for g := 0; g < S; g++ {
			for q := 0; q < F; q++ {
				sizes[g][q] = r.intn(65)
			}
		}
		var ready, release int32
		var wg sync.WaitGroup
		for g := 0; g < S; g++ {
			wg.Add(1)
			go func(g int) {
				defer wg.Done()
				// everything allocated before the barrier
				var msgs [F][D][]byte
				var topics [D][]byte
				for d := 1; d <= D; d++ {
					topics[d-1] = make([]byte, 32)
					topics[d-1][0], topics[d-1][1] = byte(round), byte(d)
				}
				for q := 0; q < F; q++ {
					for d := 0; d < D; d++ {
						b := make([]byte, 12+sizes[g][q])
						binary.LittleEndian.PutUint32(b[0:], uint32(round))
						binary.LittleEndian.PutUint16(b[4:], uint16(g))
						binary.LittleEndian.PutUint16(b[6:], uint16(q))
						binary.LittleEndian.PutUint32(b[8:], uint32(sizes[g][q]))
						copy(b[12:], filler)
						msgs[q][d] = b
					}
				}
				order := []int{1, 2, 3}
				// callers start at different destinations, so that every destination sees simultaneous first calls
				order = append(order[g%D:], order[:g%D]...)
				atomic.AddInt32(&ready, 1)
				for atomic.LoadInt32(&release) == 0 {
				}
				for q := 0; q < F; q++ {
					for _, d := range order {
						remotes.Send(2, topics[d-1], msgs[q][d-1], uint16(d))
					}
				}
			}(g)
		}
		for atomic.LoadInt32(&ready) < S {
			runtime.Gosched()
		}
		atomic.StoreInt32(&release, 1)
		wg.Wait()
		j.Rounds++
		j.Expected += S * D * F
		cnt := countOf(round)
		dl := time.Now().Add(3 * time.Second)
		for atomic.LoadInt64(cnt) < S*D*F && time.Now().Before(dl) {
			time.Sleep(100 * time.Microsecond)
		}
		got := int(atomic.LoadInt64(cnt))
		j.Received += got
		if got != S*D*F {
			viol("round %d: %d of %d frames arrived within 3 s (lost, or a receiver is stuck inside a mis-framed message)", round, got, S*D*F)
		}
		mu.Lock()
		bad := len(j.Violations) > 0
		mu.Unlock()
		if bad {
			j.BadRound = round
			break
		}
	}
	time.Sleep(50 * time.Millisecond) // surplus frames of the last round would arrive now
	mu.Lock()
	j.Complete = len(j.Violations) == 0 && j.Received == j.Expected
	mu.Unlock()
	j.Ms = time.Since(t0).Milliseconds()
	emit(j)
}
