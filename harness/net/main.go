package main

import (
	"bufio"
	"bytes"
	"encoding/json"
	"flag"
	"fmt"
	"os"
	"os/exec"
	"strings"
	"sync"
	"time"
)

var (
	out   *bufio.Writer
	outMu sync.Mutex
)

func emit(v interface{}) {
	b, err := json.Marshal(v)
	if err != nil {
		panic(err)
	}
	outMu.Lock()
	defer outMu.Unlock()
	out.Write(b)
	out.WriteByte('\n')
}

// one scenario in a process of its own: a panic in a goroutine of the library (writer, connection handler) cannot be
// recovered by the caller; it kills the process, and that is the observation.
type jProc struct {
	Kind     string `json:"kind"` // "proc"
	Scenario string `json:"scenario"`
	Exit     int    `json:"exit"`
	Panic    bool   `json:"panic"`
	TimedOut bool   `json:"timed_out"`
	Tail     string `json:"tail"`
	Ms       int64  `json:"ms"`
}

func runChild(name string, args []string, limit time.Duration) {
	tmp, err := os.CreateTemp("", "netchild-*.jsonl")
	if err != nil {
		panic(err)
	}
	tmp.Close()
	defer os.Remove(tmp.Name())
	cmd := exec.Command(os.Args[0], append(append([]string{"child-" + name}, args...), "-out", tmp.Name())...)
	var buf bytes.Buffer
	cmd.Stdout = &buf
	cmd.Stderr = &buf
	t0 := time.Now()
	p := jProc{Kind: "proc", Scenario: name + " " + strings.Join(args, " ")}
	if err := cmd.Start(); err != nil {
		panic(err)
	}
	done := make(chan error, 1)
	go func() { done <- cmd.Wait() }()
	select {
	case err := <-done:
		if err != nil {
			p.Exit = 1
			if ee, ok := err.(*exec.ExitError); ok {
				p.Exit = ee.ExitCode()
			}
		}
	case <-time.After(limit):
		cmd.Process.Kill()
		<-done
		p.TimedOut = true
		p.Exit = -1
	}
	p.Ms = time.Since(t0).Milliseconds()
	o := buf.String()
	if i := strings.Index(o, "panic:"); i >= 0 {
		p.Panic = true
		o = o[i:]
	} else if i := strings.Index(o, "fatal error:"); i >= 0 {
		p.Panic = true
		o = o[i:]
	} else if p.Exit == 0 {
		o = ""
	}
	if len(o) > 1500 {
		o = o[:1500]
	}
	p.Tail = o
	// the child's own JSON lines
	if b, err := os.ReadFile(tmp.Name()); err == nil {
		outMu.Lock()
		out.Write(b)
		if len(b) > 0 && b[len(b)-1] != '\n' {
			out.WriteByte('\n')
		}
		outMu.Unlock()
	}
	emit(p)
}

func main() {
	if len(os.Args) < 2 {
		fmt.Fprintln(os.Stderr, "usage: net <cmd> [flags]")
		os.Exit(2)
	}
	cmd := os.Args[1]
	fs := flag.NewFlagSet(cmd, flag.ExitOnError)
	seed := fs.Uint64("seed", 1, "PRNG seed")
	count := fs.Int("n", 40, "number of cases / messages")
	outPath := fs.String("out", "", "output file (JSON lines); default stdout")
	tier := fs.String("tier", "quick", "quick | thorough")
	bad := fs.Int("bad", 0, "faulty node")
	mode := fs.String("mode", "down", "down | stalled | garbling")
	sel := fs.String("x", "all", "loop: which scenarios (all | c16)")
	fs.Parse(os.Args[2:])
	f := os.Stdout
	if *outPath != "" {
		var err error
		f, err = os.Create(*outPath)
		if err != nil {
			panic(err)
		}
		defer f.Close()
	}
	out = bufio.NewWriterSize(f, 1<<20)
	defer out.Flush()
	r := newPRNG(*seed)
	thorough := *tier == "thorough"
	sd := fmt.Sprint(*seed)
	switch cmd {
	case "frames":
		runFrames(r, *count)
	case "handshakes":
		runHandshakes(r, thorough)
	case "loop":
		// every scenario in its own process, a few at a time
		type job struct {
			name string
			args []string
		}
		jobs := []job{{"concurrent", []string{"-seed", sd, "-n", fmt.Sprint(*count)}}, {"queue", []string{"-seed", sd, "-n", map[bool]string{false: "4", true: "12"}[thorough]}}}
		big := map[bool]string{false: "3000", true: "6000"}[thorough]
		jobs = append(jobs, job{"burst", []string{"-seed", sd, "-mode", "small", "-n", map[bool]string{false: "6000", true: "30000"}[thorough]}},
			job{"burst", []string{"-seed", sd, "-mode", "64k", "-n", big}})
		jobs = append(jobs, job{"stalled", []string{"-seed", sd}})
		// concurrent first send: time-boxed; thorough: two independent processes
		// (the number of rounds of one process is also capped by the descriptor limit: thorough uses more processes)
		fsBudget := map[bool]string{false: "8", true: "20"}[thorough]
		jobs = append(jobs, job{"firstsend", []string{"-seed", sd, "-n", fsBudget}})
		if thorough {
			for k := 1; k <= 3; k++ {
				jobs = append(jobs, job{"firstsend", []string{"-seed", fmt.Sprint(*seed + uint64(k)), "-n", fsBudget}})
			}
		}
		modes := []string{"down", "stalled", "garbling"}
		if *sel == "c16" {
			// the honest connections and the scripted faulty peer's handshakes, interleaved
			jobs = jobs[:1]
			modes = []string{"garbling"}
		}
		for b := 0; b < 4; b++ {
			for _, m := range modes {
				jobs = append(jobs, job{"faulty", []string{"-seed", sd, "-bad", fmt.Sprint(b), "-mode", m, "-n", fmt.Sprint(*count)}})
			}
		}
		if thorough {
			jobs = append(jobs, job{"stall10", nil})
		}
		sem := make(chan struct{}, 4)
		var wg sync.WaitGroup
		for _, j := range jobs {
			wg.Add(1)
			sem <- struct{}{}
			go func(j job) {
				defer wg.Done()
				defer func() { <-sem }()
				runChild(j.name, j.args, 90*time.Second)
			}(j)
		}
		wg.Wait()
	case "child-concurrent":
		scenarioConcurrent(*seed, 4, 3, *count)
	case "child-queue":
		scenarioQueue(*seed, *count)
	case "child-faulty":
		scenarioFaulty(*seed, 4, *bad, *mode, *count)
	case "child-burst":
		pl := 12
		if *mode == "64k" {
			pl = 65536
		}
		scenarioBurst(*seed, *mode, *count, pl)
	case "stalled":
		// on its own (used by the C10 check): the scenario in a child process, so that a crash is an outcome
		runChild("stalled", []string{"-seed", sd}, 90*time.Second)
	case "child-stalled":
		scenarioStalledClients(*seed, 3*time.Second)
	case "child-firstsend":
		scenarioFirstSend(*seed, time.Duration(*count)*time.Second, 1000000)
	case "child-stall10":
		scenarioStall10()
	default:
		fmt.Fprintln(os.Stderr, "unknown command", cmd)
		os.Exit(2)
	}
}
