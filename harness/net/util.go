package main

import (
	"bytes"
	"crypto"
	"crypto/ecdsa"
	"crypto/ed25519"
	"crypto/elliptic"
	"crypto/rand"
	"crypto/rsa"
	"crypto/sha256"
	"crypto/tls"
	"crypto/x509"
	"crypto/x509/pkix"
	"encoding/asn1"
	"encoding/hex"
	"encoding/pem"
	"fmt"
	"io"
	"math/big"
	"net"
	"sync"
	"time"
)

// ---------------------------------------------------------------------------------------------------------------
// logger handed to package net: collects warnings (never compared), counts "timeout sending"

type capLogger struct {
	mu       sync.Mutex
	warns    []string
	timeouts int
}

func (l *capLogger) DebugEnabled() bool                { return false }
func (l *capLogger) Debugf(f string, a ...interface{}) {}
func (l *capLogger) Warnf(f string, a ...interface{}) {
	s := fmt.Sprintf(f, a...)
	l.mu.Lock()
	defer l.mu.Unlock()
	if len(l.warns) < 200 {
		l.warns = append(l.warns, s)
	}
	if len(s) >= 15 && s[:15] == "timeout sending" {
		l.timeouts++
	}
}
func (l *capLogger) timeoutCount() int {
	l.mu.Lock()
	defer l.mu.Unlock()
	return l.timeouts
}

// ---------------------------------------------------------------------------------------------------------------
// identities: certificate (PEM) + signer, made with crypto/x509 directly

type identity struct {
	name    string
	kind    string // p256 p384 p521 rsa ed25519
	certPEM []byte
	der     []byte
	signer  crypto.Signer
}

var serialCounter int64 = 1000

func newIdentity(name, kind string) *identity {
	var signer crypto.Signer
	var err error
	switch kind {
	case "p256":
		signer, err = ecdsa.GenerateKey(elliptic.P256(), rand.Reader)
	case "p384":
		signer, err = ecdsa.GenerateKey(elliptic.P384(), rand.Reader)
	case "p521":
		signer, err = ecdsa.GenerateKey(elliptic.P521(), rand.Reader)
	case "rsa":
		signer, err = rsa.GenerateKey(rand.Reader, 2048)
	case "ed25519":
		_, priv, e := ed25519.GenerateKey(rand.Reader)
		signer, err = priv, e
	default:
		panic("unknown key kind " + kind)
	}
	if err != nil {
		panic(err)
	}
	serialCounter++
	tpl := x509.Certificate{
		SerialNumber: big.NewInt(serialCounter),
		Subject:      pkix.Name{CommonName: name},
		NotBefore:    time.Now().Add(-time.Hour),
		NotAfter:     time.Now().Add(24 * time.Hour),
		KeyUsage:     x509.KeyUsageDigitalSignature,
		IPAddresses:  []net.IP{net.ParseIP("127.0.0.1")},
		ExtKeyUsage:  []x509.ExtKeyUsage{x509.ExtKeyUsageServerAuth, x509.ExtKeyUsageClientAuth},
	}
	der, err := x509.CreateCertificate(rand.Reader, &tpl, &tpl, signer.Public(), signer)
	if err != nil {
		panic(err)
	}
	return &identity{name: name, kind: kind, der: der, signer: signer,
		certPEM: pem.EncodeToMemory(&pem.Block{Type: "CERTIFICATE", Bytes: der})}
}

// sign signs a SHA-256 digest the way the scheme of the key does (ECDSA: ASN.1; RSA: PKCS#1 v1.5; Ed25519: the digest as message)
func (id *identity) sign(digest []byte) []byte {
	var opts crypto.SignerOpts = crypto.SHA256
	if id.kind == "ed25519" {
		opts = crypto.Hash(0)
	}
	s, err := id.signer.Sign(rand.Reader, digest, opts)
	if err != nil {
		panic(err)
	}
	return s
}

func (id *identity) keyPEM() []byte {
	b, err := x509.MarshalPKCS8PrivateKey(id.signer)
	if err != nil {
		panic(err)
	}
	return pem.EncodeToMemory(&pem.Block{Type: "PRIVATE KEY", Bytes: b})
}

// ---------------------------------------------------------------------------------------------------------------
// the handshake message, as the harness's own type (same ASN.1 shape as net.Handshake, nothing shared with package net)

type hsWire struct {
	Domain     string
	TLSBinding []byte
	Identity   []byte
	Timestamp  int64
	Signature  []byte
}

func sha(b ...[]byte) []byte {
	h := sha256.New()
	for _, x := range b {
		h.Write(x)
	}
	return h.Sum(nil)
}

func lookupKey(domain string, identity []byte) string {
	return hex.EncodeToString(sha([]byte(domain), identity))
}

// signedHandshake builds the DER of a correctly signed handshake
func signedHandshake(id *identity, domain string, binding []byte, ts int64) []byte {
	h := hsWire{Domain: domain, TLSBinding: binding, Identity: id.certPEM, Timestamp: ts}
	pre, err := asn1.Marshal(h)
	if err != nil {
		panic(err)
	}
	h.Signature = id.sign(sha(pre))
	out, err := asn1.Marshal(h)
	if err != nil {
		panic(err)
	}
	return out
}

func lenPrefix16(b []byte) []byte {
	return append([]byte{byte(len(b)), byte(len(b) >> 8)}, b...)
}

// ---------------------------------------------------------------------------------------------------------------
// TLS 1.3 connection pair over net.Pipe

var (
	pipeServerCert     tls.Certificate
	pipeServerCertOnce sync.Once
)

func serverCert() tls.Certificate {
	pipeServerCertOnce.Do(func() {
		id := newIdentity("tls-server", "p256")
		c, err := tls.X509KeyPair(id.certPEM, id.keyPEM())
		if err != nil {
			panic(err)
		}
		pipeServerCert = c
	})
	return pipeServerCert
}

// rawPipes remembers the two ends under a TLS pair, so that a test can tear the pair down without the TLS layer trying to
// send close_notify into a pipe nobody reads (net.Pipe is synchronous)
var rawPipes sync.Map

func tlsPipe() (srv *tls.Conn, cli *tls.Conn) {
	a, b := net.Pipe()
	srv = tls.Server(a, &tls.Config{Certificates: []tls.Certificate{serverCert()}, MinVersion: tls.VersionTLS13})
	cli = tls.Client(b, &tls.Config{InsecureSkipVerify: true, MinVersion: tls.VersionTLS13})
	rawPipes.Store(srv, [2]net.Conn{a, b})
	return
}

// tearDown closes both raw ends: every blocked Read/Write on either side returns
func tearDown(srv *tls.Conn) {
	if v, ok := rawPipes.LoadAndDelete(srv); ok {
		p := v.([2]net.Conn)
		p[0].Close()
		p[1].Close()
	}
}

func exporter(c *tls.Conn) []byte {
	cs := c.ConnectionState()
	b, err := cs.ExportKeyingMaterial("MPC", []byte("MPC"), 32)
	if err != nil {
		panic(err)
	}
	return b
}

// ---------------------------------------------------------------------------------------------------------------
// a net.Conn that only replays a byte string (readMsg needs Read and RemoteAddr)

type bufConn struct{ r *bytes.Reader }

type dummyAddr struct{}

func (dummyAddr) Network() string { return "buf" }
func (dummyAddr) String() string  { return "buf" }

func newBufConn(b []byte) *bufConn                    { return &bufConn{r: bytes.NewReader(b)} }
func (c *bufConn) Read(p []byte) (int, error)         { return c.r.Read(p) }
func (c *bufConn) Write(p []byte) (int, error)        { return len(p), nil }
func (c *bufConn) Close() error                       { return nil }
func (c *bufConn) LocalAddr() net.Addr                { return dummyAddr{} }
func (c *bufConn) RemoteAddr() net.Addr               { return dummyAddr{} }
func (c *bufConn) SetDeadline(t time.Time) error      { return nil }
func (c *bufConn) SetReadDeadline(t time.Time) error  { return nil }
func (c *bufConn) SetWriteDeadline(t time.Time) error { return nil }
func (c *bufConn) remaining() int                     { return c.r.Len() }

var _ io.Reader = (*bufConn)(nil)

func hx(b []byte) string { return hex.EncodeToString(b) }

func clone(b []byte) []byte { d := make([]byte, len(b)); copy(d, b); return d }

func freeAddr() string {
	l, err := net.Listen("tcp", "127.0.0.1:0")
	if err != nil {
		panic(err)
	}
	defer l.Close()
	return l.Addr().String()
}
