package main

import (
	"bytes"
	"crypto/ecdsa"
	"crypto/x509"
	"encoding/asn1"
	"encoding/pem"
	"sort"
	"strings"
	"sync"
	"time"

	comm "github.com/IBM/TSS/net"
)

// C16: the real authenticateConnection / handleConn on real TLS connections (net.Pipe), the peer played by the harness.
// For every case the oracle values the Coq model needs are computed here with the standard library only.

type reg struct {
	id     uint16
	domain string
	ident  *identity
}

type world struct {
	regs                               []reg
	p2id                               map[string]uint16
	byKey                              map[string]*identity
	A, B, C, D, E384, F521, R, X, U, V *identity
	G, H, I                            *identity
	domains                            []string
}

func newWorld() *world {
	w := &world{p2id: map[string]uint16{}}
	w.A, w.B, w.C, w.D = newIdentity("A", "p256"), newIdentity("B", "p256"), newIdentity("C", "p256"), newIdentity("D", "p256")
	w.E384, w.F521 = newIdentity("E", "p384"), newIdentity("F", "p521")
	w.R, w.X = newIdentity("R", "rsa"), newIdentity("X", "ed25519")
	w.U, w.V = newIdentity("U", "p256"), newIdentity("V", "rsa")
	add := func(id uint16, dom string, i *identity) {
		w.regs = append(w.regs, reg{id, dom, i})
		w.p2id[lookupKey(dom, i.certPEM)] = id
	}
	add(1, "dom-a", w.A)
	add(2, "dom-a", w.B)
	add(3, "dom-a", w.C)
	add(4, "dom-a", w.D)
	add(11, "dom-b", w.A)
	add(5, "dom-a", w.E384)
	add(6, "dom-a", w.F521)
	add(7, "dom-a", w.R) // registered, so that only the key type check stands between them and an attribution
	add(8, "dom-a", w.X)
	add(300, "", w.C) // empty domain, identifier above one byte
	// a table spanning several domains: node ids reused across domains, identities under several domains, some only under ""
	w.G, w.H, w.I = newIdentity("G", "p256"), newIdentity("H", "p256"), newIdentity("I", "p256")
	add(20, "", w.G) // only under the empty domain
	add(21, "", w.H) // empty domain and "A"
	add(1, "A", w.H) // node id 1 again, other domain, other identity
	add(2, "A", w.I) // "A" and "B", same id
	add(2, "B", w.I)
	add(1, "B", w.D) // D: "dom-a" (4) and "B" (1)
	w.domains = []string{"", "dom-a", "dom-b", "A", "B"}
	return w
}

type jHS struct {
	Domain    string `json:"domain"`
	Binding   string `json:"binding"`
	Identity  string `json:"identity"`
	Timestamp int64  `json:"timestamp"`
	Sig       string `json:"sig"`
}

type jOracles struct {
	Buff    string           `json:"buff"`
	Um      *jHS             `json:"um"`   // nil: asn1.Unmarshal failed (or the bytes never arrived)
	Mm      *string          `json:"mm"`   // nil: asn1.Marshal of the signature-free handshake failed
	Der     *string          `json:"der"`  // nil: pem.Decode found no block
	X509    int              `json:"x509"` // 0 parse error, 1 ECDSA key, 2 other key
	Key     string           `json:"key"`  // abstract name of the key (hash of the certificate's SubjectPublicKeyInfo)
	KeyKind int              `json:"key_kind"`
	VDigest string           `json:"vdigest"`
	VRes    bool             `json:"vres"`
	Sha     [][2]string      `json:"sha"`
	Tbl     [][2]interface{} `json:"tbl"`
}

// oraclesFor computes, independently of package net, what each external function yields on the stream the peer sent.
func oraclesFor(p2id map[string]uint16, stream []byte) jOracles {
	o := jOracles{Sha: [][2]string{}, Tbl: [][2]interface{}{}}
	var keys []string
	for k := range p2id {
		keys = append(keys, k)
	}
	sort.Strings(keys)
	for _, k := range keys {
		o.Tbl = append(o.Tbl, [2]interface{}{hx([]byte(k)), p2id[k]})
	}
	if len(stream) < 2 {
		return o
	}
	n := int(stream[0]) | int(stream[1])<<8
	if len(stream)-2 < n {
		return o
	}
	buff := stream[2 : 2+n]
	o.Buff = hx(buff)
	var h hsWire
	if _, err := asn1.Unmarshal(buff, &h); err != nil {
		return o
	}
	ts := h.Timestamp
	if ts < 0 {
		ts = 0
	}
	o.Um = &jHS{hx([]byte(h.Domain)), hx(h.TLSBinding), hx(h.Identity), ts, hx(h.Signature)}
	pre := append([]byte(h.Domain), h.Identity...)
	o.Sha = append(o.Sha, [2]string{hx(pre), hx(sha(pre))})
	sig := h.Signature
	h.Signature = nil
	if m, err := asn1.Marshal(h); err == nil {
		s := hx(m)
		o.Mm = &s
		o.VDigest = hx(sha(m))
		o.Sha = append(o.Sha, [2]string{s, o.VDigest})
	}
	bl, _ := pem.Decode(h.Identity)
	if bl == nil {
		return o
	}
	d := hx(bl.Bytes)
	o.Der = &d
	cert, err := x509.ParseCertificate(bl.Bytes)
	if err != nil {
		return o
	}
	o.Key = hx(sha(cert.RawSubjectPublicKeyInfo)[:8])
	if pk, ok := cert.PublicKey.(*ecdsa.PublicKey); ok {
		o.X509 = 1
		if o.Mm != nil {
			dg := sha(mustUnhex(*o.Mm))
			o.VRes = ecdsa.VerifyASN1(pk, dg, sig)
		}
	} else {
		o.X509 = 2
		o.KeyKind = int(cert.PublicKeyAlgorithm)
	}
	return o
}

func mustUnhex(s string) []byte {
	b := make([]byte, len(s)/2)
	for i := range b {
		b[i] = unhexNibble(s[2*i])<<4 | unhexNibble(s[2*i+1])
	}
	return b
}
func unhexNibble(c byte) byte {
	switch {
	case c >= '0' && c <= '9':
		return c - '0'
	case c >= 'a' && c <= 'f':
		return c - 'a' + 10
	}
	panic("bad hex")
}

type hsCase struct {
	name    string
	class   string
	should  string // "attribute" or "refuse": decided by how the case is built, not by looking at the code
	wantDom string
	wantID  uint16
	stream  func(binding []byte) []byte
	toCoq   bool
}

type jAuth struct {
	Kind    string   `json:"kind"` // "auth"
	Name    string   `json:"name"`
	Class   string   `json:"class"`
	Should  string   `json:"should"`
	WantDom string   `json:"want_dom"`
	WantID  uint16   `json:"want_id"`
	ToCoq   bool     `json:"to_coq"`
	Binding string   `json:"binding"`
	Stream  string   `json:"stream"`
	Or      jOracles `json:"or"`
	Res     int      `json:"res"` // 0 attributed, 1 refused, 2 panic
	Dom     string   `json:"dom"`
	ID      uint16   `json:"id"`
	PanicV  string   `json:"panic_value,omitempty"`
}

func runAuth(w *world, c hsCase) jAuth {
	j := jAuth{Kind: "auth", Name: c.name, Class: c.class, Should: c.should, WantDom: hx([]byte(c.wantDom)), WantID: c.wantID, ToCoq: c.toCoq}
	srv, cli := tlsPipe()
	var wg sync.WaitGroup
	wg.Add(1)
	var sent, binding []byte
	go func() {
		defer wg.Done()
		if err := cli.Handshake(); err != nil {
			return
		}
		binding = exporter(cli)
		sent = c.stream(binding)
		cli.Write(sent)
		cli.Close()
	}()
	func() {
		defer func() {
			if e := recover(); e != nil {
				j.Res = 2
				j.PanicV = toStr(e)
			}
		}()
		dom, id, ok := comm.VerifAuthenticateConnection(w.p2id, srv, &capLogger{})
		if ok {
			j.Res, j.Dom, j.ID = 0, hx([]byte(dom)), id
		} else {
			j.Res = 1
		}
	}()
	tearDown(srv)
	wg.Wait()
	j.Binding, j.Stream = hx(binding), hx(sent)
	j.Or = oraclesFor(w.p2id, sent)
	return j
}

func toStr(e interface{}) string {
	if er, ok := e.(error); ok {
		return er.Error()
	}
	if s, ok := e.(string); ok {
		return s
	}
	return "panic"
}

type jInMsg struct {
	Dom   string `json:"dom"`
	From  uint16 `json:"from"`
	Ty    uint8  `json:"ty"`
	Topic string `json:"topic"`
	Data  string `json:"data"`
}

type jConn struct {
	Kind    string   `json:"kind"` // "conn"
	Name    string   `json:"name"`
	Class   string   `json:"class"`
	Should  string   `json:"should"`
	WantDom string   `json:"want_dom"`
	WantID  uint16   `json:"want_id"`
	Binding string   `json:"binding"`
	Stream  string   `json:"stream"`
	Or      jOracles `json:"or"`
	Panic   bool     `json:"panic"`
	Msgs    []jInMsg `json:"msgs"`
}

// runConn: the real handleConn (authentication + frame loop) on one connection; everything it puts on the channel.
func runConn(w *world, c hsCase) jConn {
	j := jConn{Kind: "conn", Name: c.name, Class: c.class, Should: c.should, WantDom: hx([]byte(c.wantDom)), WantID: c.wantID, Msgs: []jInMsg{}}
	srv, cli := tlsPipe()
	var wg sync.WaitGroup
	wg.Add(2)
	var sent, binding []byte
	go func() {
		defer wg.Done()
		if err := cli.Handshake(); err != nil {
			return
		}
		binding = exporter(cli)
		sent = c.stream(binding)
		cli.Write(sent)
		cli.Close()
	}()
	in := make(chan comm.InMsg)
	go func() {
		defer wg.Done()
		for m := range in {
			j.Msgs = append(j.Msgs, jInMsg{hx([]byte(m.Domain)), m.From, m.Type, hx(m.Topic), hx(m.Data)})
		}
	}()
	func() {
		defer func() {
			if e := recover(); e != nil {
				j.Panic = true
			}
		}()
		var stop uint32
		comm.VerifHandleConn(w.p2id, srv, in, &stop, &capLogger{})
	}()
	close(in)
	tearDown(srv)
	wg.Wait()
	j.Binding, j.Stream = hx(binding), hx(sent)
	j.Or = oraclesFor(w.p2id, sent)
	return j
}

// marshalHS encodes a handshake with exactly the given fields
func marshalHS(h hsWire) []byte {
	b, err := asn1.Marshal(h)
	if err != nil {
		panic(err)
	}
	return b
}

// signWith: signature of `signer` over the handshake with empty signature field
func signWith(signer *identity, h hsWire) []byte {
	h.Signature = nil
	return signer.sign(sha(marshalHS(h)))
}

func flip(b []byte, i int) []byte {
	c := clone(b)
	if len(c) > 0 {
		c[i%len(c)] ^= 0x20
	}
	return c
}

func handshakeCases(w *world, r *prng) []hsCase {
	now := time.Now().Unix()
	var cs []hsCase
	add := func(name, class, should, dom string, id uint16, f func(b []byte) []byte) {
		cs = append(cs, hsCase{name: name, class: class, should: should, wantDom: dom, wantID: id, stream: f, toCoq: true})
	}
	valid := func(id *identity, dom string) func(b []byte) []byte {
		return func(b []byte) []byte { return lenPrefix16(signedHandshake(id, dom, b, now)) }
	}
	// --- valid handshakes of every registered ECDSA peer
	for _, rg := range w.regs {
		if rg.ident.kind == "rsa" || rg.ident.kind == "ed25519" {
			continue
		}
		add("valid/"+rg.ident.name+"/"+rg.domain, "valid", "attribute", rg.domain, rg.id, valid(rg.ident, rg.domain))
	}
	// --- every registered ECDSA identity claiming every domain of the table, freshly signed, binding correct:
	//     attributed exactly when that very (domain, identity) pair is registered, and then as the node registered for it
	seen := map[*identity]bool{}
	for _, rg := range w.regs {
		id := rg.ident
		if seen[id] || id.kind == "rsa" || id.kind == "ed25519" {
			continue
		}
		seen[id] = true
		for _, dom := range w.domains {
			if node, ok := w.p2id[lookupKey(dom, id.certPEM)]; ok {
				add("cross/"+id.name+"/"+dom, "valid", "attribute", dom, node, valid(id, dom))
			} else {
				add("cross/"+id.name+"/"+dom, "domain", "refuse", "", 0, valid(id, dom))
			}
		}
	}
	// --- key types
	add("keytype/rsa", "keytype", "refuse", "", 0, valid(w.R, "dom-a"))
	add("keytype/ed25519", "keytype", "refuse", "", 0, valid(w.X, "dom-a"))
	add("keytype/rsa-unregistered", "keytype", "refuse", "", 0, valid(w.V, "dom-a"))

	// a handshake recorded on another connection (valid there)
	var recorded, recordedBinding []byte
	{
		j := runAuth(w, hsCase{name: "record", stream: valid(w.A, "dom-a")})
		recorded, recordedBinding = mustUnhex(j.Stream), mustUnhex(j.Binding)
	}
	add("replay/whole", "replay", "refuse", "", 0, func(b []byte) []byte { return clone(recorded) })

	// field-wise construction: base = A under dom-a
	build := func(mod func(h *hsWire, b []byte), signer *identity, after func(h *hsWire)) func(b []byte) []byte {
		return func(b []byte) []byte {
			h := hsWire{Domain: "dom-a", TLSBinding: clone(b), Identity: w.A.certPEM, Timestamp: now}
			if mod != nil {
				mod(&h, b)
			}
			if signer != nil {
				h.Signature = signWith(signer, h)
			}
			if after != nil {
				after(&h)
			}
			return lenPrefix16(marshalHS(h))
		}
	}
	// --- domain
	add("domain/altered-keep-sig", "domain", "refuse", "", 0, build(nil, w.A, func(h *hsWire) { h.Domain = "dom-x" }))
	add("domain/unregistered-resigned", "domain", "refuse", "", 0, build(func(h *hsWire, b []byte) { h.Domain = "dom-x" }, w.A, nil))
	add("domain/other-domain-not-registered-there", "domain", "refuse", "", 0, func(b []byte) []byte { return lenPrefix16(signedHandshake(w.B, "dom-b", b, now)) })
	add("domain/case-changed", "domain", "refuse", "", 0, build(func(h *hsWire, b []byte) { h.Domain = "Dom-a" }, w.A, nil))
	add("domain/empty-not-registered", "domain", "refuse", "", 0, build(func(h *hsWire, b []byte) { h.Domain = "" }, w.A, nil))
	add("domain/swapped-to-b-keep-sig", "domain", "refuse", "", 0, build(nil, w.A, func(h *hsWire) { h.Domain = "dom-b" }))
	// --- binding
	add("binding/bitflip-keep-sig", "binding", "refuse", "", 0, build(nil, w.A, func(h *hsWire) { h.TLSBinding = flip(h.TLSBinding, 5) }))
	add("binding/bitflip-resigned", "binding", "refuse", "", 0, build(func(h *hsWire, b []byte) { h.TLSBinding = flip(b, 31) }, w.A, nil))
	add("binding/empty-resigned", "binding", "refuse", "", 0, build(func(h *hsWire, b []byte) { h.TLSBinding = nil }, w.A, nil))
	add("binding/prefix-resigned", "binding", "refuse", "", 0, build(func(h *hsWire, b []byte) { h.TLSBinding = clone(b[:31]) }, w.A, nil))
	add("binding/extended-resigned", "binding", "refuse", "", 0, build(func(h *hsWire, b []byte) { h.TLSBinding = append(clone(b), 0) }, w.A, nil))
	add("binding/other-connection-resigned", "replay", "refuse", "", 0, build(func(h *hsWire, b []byte) { h.TLSBinding = clone(recordedBinding) }, w.A, nil))
	// --- identity
	add("identity/substituted-B-sig-A", "identity", "refuse", "", 0, build(func(h *hsWire, b []byte) { h.Identity = w.B.certPEM }, w.A, nil))
	add("identity/substituted-B-sig-U", "identity", "refuse", "", 0, build(func(h *hsWire, b []byte) { h.Identity = w.B.certPEM }, w.U, nil))
	add("identity/substituted-B-keep-sig", "identity", "refuse", "", 0, build(nil, w.A, func(h *hsWire) { h.Identity = w.B.certPEM }))
	add("identity/unknown-selfsigned", "identity", "refuse", "", 0, valid(w.U, "dom-a"))
	add("identity/not-pem", "identity", "refuse", "", 0, build(func(h *hsWire, b []byte) { h.Identity = []byte("hello, I am node 1") }, w.A, nil))
	add("identity/empty", "identity", "refuse", "", 0, build(func(h *hsWire, b []byte) { h.Identity = nil }, w.A, nil))
	add("identity/pem-garbage-der", "identity", "refuse", "", 0, build(func(h *hsWire, b []byte) {
		h.Identity = pem.EncodeToMemory(&pem.Block{Type: "CERTIFICATE", Bytes: []byte{0x30, 0x03, 1, 2, 3}})
	}, w.A, nil))
	add("identity/pem-truncated-der", "identity", "refuse", "", 0, build(func(h *hsWire, b []byte) {
		h.Identity = pem.EncodeToMemory(&pem.Block{Type: "CERTIFICATE", Bytes: w.A.der[:len(w.A.der)-9]})
	}, w.A, nil))
	add("identity/leading-junk", "identity", "refuse", "", 0, build(func(h *hsWire, b []byte) { h.Identity = append([]byte("junk\n"), w.A.certPEM...) }, w.A, nil))
	add("identity/trailing-junk", "identity", "refuse", "", 0, build(func(h *hsWire, b []byte) { h.Identity = append(clone(w.A.certPEM), []byte("junk")...) }, w.A, nil))
	add("identity/der-bitflip", "identity", "refuse", "", 0, build(func(h *hsWire, b []byte) {
		h.Identity = pem.EncodeToMemory(&pem.Block{Type: "CERTIFICATE", Bytes: flip(w.A.der, len(w.A.der)-20)})
	}, w.A, nil))
	// --- identities of several PEM blocks: the certificate whose key verifies the signature and the bytes that are looked up in
	//     the table must be one and the same thing; a registered certificate riding along in a later block proves nothing
	blockOf := func(typ string, der []byte) []byte { return pem.EncodeToMemory(&pem.Block{Type: typ, Bytes: der}) }
	cat := func(parts ...[]byte) []byte {
		var out []byte
		for _, p := range parts {
			out = append(out, p...)
		}
		return out
	}
	for _, typ := range []string{"TRUSTED CERTIFICATE", "CERTIFICATE", "X509 CERTIFICATE", "EC PARAMETERS"} {
		typ := typ
		tag := strings.ReplaceAll(strings.ToLower(typ), " ", "-")
		add("identity/blocks/"+tag+"-U-then-A-sig-U", "identity", "refuse", "", 0, build(func(h *hsWire, b []byte) {
			h.Identity = cat(blockOf(typ, w.U.der), w.A.certPEM)
		}, w.U, nil))
		add("identity/blocks/"+tag+"-B-then-A-sig-B", "identity", "refuse", "", 0, build(func(h *hsWire, b []byte) {
			h.Identity = cat(blockOf(typ, w.B.der), w.A.certPEM)
		}, w.B, nil))
		add("identity/blocks/A-then-"+tag+"-U-sig-A", "identity", "refuse", "", 0, build(func(h *hsWire, b []byte) {
			h.Identity = cat(w.A.certPEM, blockOf(typ, w.U.der))
		}, w.A, nil))
		add("identity/blocks/A-then-"+tag+"-U-sig-U", "identity", "refuse", "", 0, build(func(h *hsWire, b []byte) {
			h.Identity = cat(w.A.certPEM, blockOf(typ, w.U.der))
		}, w.U, nil))
	}
	add("identity/blocks/A-relabelled-sig-A", "identity", "refuse", "", 0, build(func(h *hsWire, b []byte) {
		h.Identity = blockOf("TRUSTED CERTIFICATE", w.A.der)
	}, w.A, nil))
	add("identity/blocks/preamble-text-A-sig-A", "identity", "refuse", "", 0, build(func(h *hsWire, b []byte) {
		h.Identity = cat([]byte("Bag Attributes\n    friendlyName: node\n"), w.A.certPEM)
	}, w.A, nil))
	add("identity/blocks/A-twice-sig-A", "identity", "refuse", "", 0, build(func(h *hsWire, b []byte) {
		h.Identity = cat(w.A.certPEM, w.A.certPEM)
	}, w.A, nil))
	// --- timestamp: checked by nobody (the code only logs); signed, so an edit without re-signing is refused
	add("timestamp/zero-resigned", "timestamp", "attribute", "dom-a", 1, build(func(h *hsWire, b []byte) { h.Timestamp = 0 }, w.A, nil))
	add("timestamp/future-resigned", "timestamp", "attribute", "dom-a", 1, build(func(h *hsWire, b []byte) { h.Timestamp = now + 1e6 }, w.A, nil))
	add("timestamp/negative-resigned", "timestamp", "attribute", "dom-a", 1, build(func(h *hsWire, b []byte) { h.Timestamp = -5 }, w.A, nil))
	add("timestamp/altered-keep-sig", "timestamp", "refuse", "", 0, build(nil, w.A, func(h *hsWire) { h.Timestamp++ }))
	// --- signature
	add("signature/bitflip", "signature", "refuse", "", 0, build(nil, w.A, func(h *hsWire) { h.Signature = flip(h.Signature, len(h.Signature)/2) }))
	add("signature/missing", "signature", "refuse", "", 0, build(nil, nil, nil))
	add("signature/truncated", "signature", "refuse", "", 0, build(nil, w.A, func(h *hsWire) { h.Signature = h.Signature[:len(h.Signature)-1] }))
	add("signature/random", "signature", "refuse", "", 0, build(nil, nil, func(h *hsWire) { h.Signature = r.bytes(70) }))
	add("signature/foreign-B", "signature", "refuse", "", 0, build(nil, w.B, nil))
	add("signature/foreign-unregistered", "signature", "refuse", "", 0, build(nil, w.U, nil))
	add("signature/over-other-binding", "signature", "refuse", "", 0, build(nil, nil, func(h *hsWire) {
		g := *h
		g.TLSBinding = clone(recordedBinding)
		h.Signature = signWith(w.A, g)
	}))
	add("signature/over-bytes-with-signature-field", "signature", "refuse", "", 0, build(nil, nil, func(h *hsWire) {
		g := *h
		g.Signature = []byte{1, 2, 3}
		h.Signature = w.A.sign(sha(marshalHS(g)))
	}))
	add("signature/over-self-including", "signature", "refuse", "", 0, build(nil, nil, func(h *hsWire) {
		// sign, put the signature in, sign the result again: valid only for a verifier that hashes the received bytes
		h.Signature = signWith(w.A, *h)
		h.Signature = w.A.sign(sha(marshalHS(*h)))
	}))
	add("signature/over-undigested", "signature", "refuse", "", 0, build(nil, nil, func(h *hsWire) {
		g := *h
		g.Signature = nil
		h.Signature = w.A.sign(sha(sha(marshalHS(g))))
	}))
	// --- encoding
	add("encoding/trailing-bytes-inside", "encoding-accepted", "attribute", "dom-a", 1, func(b []byte) []byte {
		return lenPrefix16(append(signedHandshake(w.A, "dom-a", b, now), 0, 0, 7))
	})
	add("encoding/t61-domain-not-utf8", "malformed", "refuse", "", 0, func(b []byte) []byte {
		type raw struct {
			Domain     asn1.RawValue
			TLSBinding []byte
			Identity   []byte
			Timestamp  int64
			Signature  []byte
		}
		x, err := asn1.Marshal(raw{Domain: asn1.RawValue{Class: 0, Tag: 20, Bytes: []byte{0xff, 0xfe}}, TLSBinding: b, Identity: w.A.certPEM, Timestamp: now, Signature: []byte{1}})
		if err != nil {
			panic(err)
		}
		return lenPrefix16(x)
	})
	add("encoding/fields-reordered", "malformed", "refuse", "", 0, func(b []byte) []byte {
		type alt struct {
			TLSBinding []byte
			Domain     string
			Identity   []byte
			Timestamp  int64
			Signature  []byte
		}
		x, _ := asn1.Marshal(alt{b, "dom-a", w.A.certPEM, now, []byte{1}})
		return lenPrefix16(x)
	})
	add("encoding/empty-message", "malformed", "refuse", "", 0, func(b []byte) []byte { return []byte{0, 0} })
	add("encoding/nothing", "malformed", "refuse", "", 0, func(b []byte) []byte { return nil })
	add("encoding/one-byte", "malformed", "refuse", "", 0, func(b []byte) []byte { return []byte{9} })
	add("encoding/length-beyond-data", "malformed", "refuse", "", 0, func(b []byte) []byte {
		s := lenPrefix16(signedHandshake(w.A, "dom-a", b, now))
		s[1]++ // announces 256 bytes more than follow
		return s
	})
	add("encoding/length-ffff", "malformed", "refuse", "", 0, func(b []byte) []byte { return []byte{0xff, 0xff, 1, 2, 3} })
	add("encoding/random-der", "malformed", "refuse", "", 0, func(b []byte) []byte { return lenPrefix16(r.bytes(60)) })
	add("encoding/length-short-by-one", "malformed", "refuse", "", 0, func(b []byte) []byte {
		d := signedHandshake(w.A, "dom-a", b, now)
		return append([]byte{byte(len(d) - 1), byte((len(d) - 1) >> 8)}, d...)
	})
	return cs
}

func runHandshakes(r *prng, thorough bool) {
	w := newWorld()
	cases := handshakeCases(w, r)
	for _, c := range cases {
		emit(runAuth(w, c))
	}
	// every truncation length of a valid handshake, (i) as sent, (ii) with the length prefix adjusted to what is sent
	now := time.Now().Unix()
	probe := lenPrefix16(signedHandshake(w.A, "dom-a", make([]byte, 32), now))
	n := len(probe)
	coqEvery := 37
	for k := 0; k < n; k++ {
		k := k
		toCoq := k < 4 || k%coqEvery == 0 || k >= n-2
		emit(runAuth(w, hsCase{name: "cut", class: "truncated", should: "refuse", toCoq: toCoq, stream: func(b []byte) []byte {
			s := lenPrefix16(signedHandshake(w.A, "dom-a", b, now)) // its length varies by a byte or two with the signature
			if k >= len(s) {
				return s[:len(s)-1]
			}
			return s[:k]
		}}))
	}
	for k := 0; k < n-2; k++ {
		k := k
		toCoq := k < 4 || k%coqEvery == 1 || k >= n-4
		emit(runAuth(w, hsCase{name: "cut-relabelled", class: "truncated", should: "refuse", toCoq: toCoq, stream: func(b []byte) []byte {
			d := signedHandshake(w.A, "dom-a", b, now)
			if k >= len(d) {
				return lenPrefix16(d[:len(d)-1])
			}
			return lenPrefix16(d[:k])
		}}))
	}
	// random single-byte corruptions of a valid handshake (any position): never attributed unless the decoded fields are unchanged
	m := 60
	if thorough {
		m = 600
	}
	for i := 0; i < m; i++ {
		pos := 2 + r.intn(n-2)
		bit := byte(1) << uint(r.intn(8))
		emit(runAuth(w, hsCase{name: "byteflip", class: "corrupted", should: "refuse-unless-same-fields", wantDom: "dom-a", wantID: 1, toCoq: i%3 == 0,
			stream: func(b []byte) []byte {
				s := lenPrefix16(signedHandshake(w.A, "dom-a", b, now))
				s[2+(pos-2)%(len(s)-2)] ^= bit
				return s
			}}))
	}

	// whole connections: handshake followed by frames
	frames := func(fs ...frameIn) []byte {
		w, _, _ := writeFrames(fs)
		return w
	}
	topic := r.bytes(32)
	f1 := frameIn{2, topic, []byte("first")}
	f2 := frameIn{0, nil, []byte{}}
	f3 := frameIn{1, r.bytes(32), r.bytes(300)}
	good := frames(f1, f2, f3)
	limit := comm.VerifMaxBuffLen()
	over := []byte{2, byte(limit + 1), byte((limit + 1) >> 8), byte((limit + 1) >> 16), byte((limit + 1) >> 24), 1, 2, 3}
	conn := func(name, class, should, dom string, id uint16, hs func(b []byte) []byte, tail []byte) {
		emit(runConn(w, hsCase{name: name, class: class, should: should, wantDom: dom, wantID: id, stream: func(b []byte) []byte {
			return append(hs(b), tail...)
		}}))
	}
	valid := func(id *identity, dom string) func(b []byte) []byte {
		return func(b []byte) []byte { return lenPrefix16(signedHandshake(id, dom, b, now)) }
	}
	conn("conn/valid-A", "valid", "attribute", "dom-a", 1, valid(w.A, "dom-a"), good)
	conn("conn/valid-A-dom-b", "valid", "attribute", "dom-b", 11, valid(w.A, "dom-b"), good)
	conn("conn/valid-C-empty-domain", "valid", "attribute", "", 300, valid(w.C, ""), good)
	conn("conn/valid-no-frames", "valid", "attribute", "dom-a", 2, valid(w.B, "dom-a"), nil)
	conn("conn/valid-then-oversize", "garbled", "attribute", "dom-a", 1, valid(w.A, "dom-a"), append(clone(good), over...))
	conn("conn/valid-then-truncated", "garbled", "attribute", "dom-a", 1, valid(w.A, "dom-a"), good[:len(good)-7])
	conn("conn/valid-then-noise", "garbled", "attribute", "dom-a", 1, valid(w.A, "dom-a"), append(frames(f1), r.bytes(23)...))
	conn("conn/valid-then-topic-missing", "garbled", "attribute", "dom-a", 1, valid(w.A, "dom-a"), frames(frameIn{2, nil, []byte("x")}, f2))
	conn("conn/unknown-identity", "identity", "refuse", "", 0, valid(w.U, "dom-a"), good)
	conn("conn/rsa", "keytype", "refuse", "", 0, valid(w.R, "dom-a"), good)
	conn("conn/ed25519", "keytype", "refuse", "", 0, valid(w.X, "dom-a"), good)
	conn("conn/other-domain", "domain", "refuse", "", 0, valid(w.B, "dom-b"), good)
	conn("conn/no-handshake-just-frames", "malformed", "refuse", "", 0, func(b []byte) []byte { return nil }, good)
	conn("conn/foreign-signature", "signature", "refuse", "", 0, func(b []byte) []byte {
		h := hsWire{Domain: "dom-a", TLSBinding: b, Identity: w.A.certPEM, Timestamp: now}
		h.Signature = signWith(w.B, h)
		return lenPrefix16(marshalHS(h))
	}, good)
	{
		j := runAuth(w, hsCase{name: "record", stream: valid(w.B, "dom-a")})
		rec := mustUnhex(j.Stream)
		conn("conn/replayed-handshake", "replay", "refuse", "", 0, func(b []byte) []byte { return clone(rec) }, good)
	}
}

var _ = bytes.Equal
