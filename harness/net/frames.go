package main

import (
	"bytes"
	"crypto/tls"
	"io"

	comm "github.com/IBM/TSS/net"
)

// C17, framing: the real writer (remoteParty.send through the verif hook, on a real TLS connection over net.Pipe) and the
// real reader (readMsg).  Small frames go to the Coq model in full; of big ones only type, topic, length and header bytes.

type jFrame struct {
	Ty    uint8  `json:"ty"`
	Topic string `json:"topic"`
	Data  string `json:"data"`
}

type jEnc struct {
	Kind  string `json:"kind"` // "enc"
	Ty    uint8  `json:"ty"`
	Topic string `json:"topic"`
	Data  string `json:"data"`
	Res   int    `json:"res"` // 0 written, 2 panic
	Wire  string `json:"wire"`
}

type jEncHdr struct {
	Kind  string `json:"kind"` // "enchdr"
	Ty    uint8  `json:"ty"`
	Topic string `json:"topic"`
	Len   int    `json:"len"`
	Res   int    `json:"res"`
	Hdr   string `json:"hdr"`
}

type jDec struct {
	Kind   string   `json:"kind"` // "dec"
	Origin string   `json:"origin"`
	Stream string   `json:"stream"`
	Frames []jFrame `json:"frames"`
	Clean  bool     `json:"clean"`
	Panic  bool     `json:"panic"`
}

type jDecBig struct {
	Kind  string `json:"kind"` // "decbig"
	Ty    uint8  `json:"ty"`
	B     [4]int `json:"b"`
	Avail int    `json:"avail"`
	Res   int    `json:"res"` // 0 frame returned, 1 error, 2 panic
	RTy   uint8  `json:"rty"`
	RTl   int    `json:"rtl"`
	RDl   int    `json:"rdl"`
}

// Go-side property monitor record
type jMon struct {
	Kind   string      `json:"kind"` // "mon"
	What   string      `json:"what"`
	Ok     bool        `json:"ok"`
	Detail interface{} `json:"detail,omitempty"`
}

type frameIn struct {
	ty    uint8
	topic []byte
	data  []byte
}

// writeFrames pushes the frames through the real writer on one TLS connection; returns everything that arrived on the
// other end (plaintext) and per frame 0 (returned normally) or 2 (panicked).
func writeFrames(fs []frameIn) (wire []byte, res []int, connKept bool) {
	srv, cli := tlsPipe()
	done := make(chan []byte, 1)
	go func() {
		b, _ := io.ReadAll(srv)
		done <- b
	}()
	connKept = true
	if err := cli.Handshake(); err != nil {
		panic(err)
	}
	for _, f := range fs {
		r := 0
		func() {
			defer func() {
				if e := recover(); e != nil {
					r = 2
				}
			}()
			if !comm.VerifSendFrame(cli, f.ty, f.topic, f.data, func(string, ...interface{}) {}) {
				connKept = false
			}
		}()
		res = append(res, r)
		if !connKept {
			break
		}
	}
	cli.Close()
	wire = <-done
	tearDown(srv)
	return
}

// readLoop is the loop of handleConn on a byte string: readMsg until it fails.
func readLoop(stream []byte) (frames []frameIn, clean bool, panicked bool) {
	c := newBufConn(stream)
	func() {
		defer func() {
			if e := recover(); e != nil {
				panicked = true
			}
		}()
		for {
			before := c.remaining()
			ty, topic, data, err := comm.VerifReadMsg(c)
			if err != nil {
				clean = before == 0
				return
			}
			frames = append(frames, frameIn{ty, topic, data})
		}
	}()
	return
}

func toJ(fs []frameIn) []jFrame {
	res := []jFrame{}
	for _, f := range fs {
		res = append(res, jFrame{f.ty, hx(f.topic), hx(f.data)})
	}
	return res
}

func sameFrames(a, b []frameIn) bool {
	if len(a) != len(b) {
		return false
	}
	for i := range a {
		if a[i].ty != b[i].ty || !bytes.Equal(a[i].topic, b[i].topic) || !bytes.Equal(a[i].data, b[i].data) {
			return false
		}
	}
	return true
}

// the type/topic combinations of the property, independent of the code under test: discovery (1) and MPC (2) messages
// carry a 32-byte topic, every other type none
func pinnedHasTopic(ty uint8) bool { return ty == 1 || ty == 2 }

func legalFrame(f frameIn) bool {
	if pinnedHasTopic(f.ty) {
		return len(f.topic) == 32
	}
	return len(f.topic) == 0
}

var frameTypes = []uint8{0, 1, 2, 3, 7, 128, 255}

func randLegalFrame(r *prng, size int) frameIn {
	ty := frameTypes[r.intn(len(frameTypes))]
	var topic []byte
	if pinnedHasTopic(ty) {
		topic = r.bytes(32)
	}
	return frameIn{ty, topic, r.bytes(size)}
}

const smallMax = 600 // frames up to this payload size are shipped to the Coq model in full

func runFrames(r *prng, n int) {
	limit := comm.VerifMaxBuffLen()
	emitDec := func(origin string, stream []byte) ([]frameIn, bool, bool) {
		fs, clean, pan := readLoop(stream)
		emit(jDec{Kind: "dec", Origin: origin, Stream: hx(stream), Frames: toJ(fs), Clean: clean, Panic: pan})
		if pan {
			emit(jMon{Kind: "mon", What: "panic", Ok: false, Detail: map[string]string{"where": "readMsg", "stream": hx(stream)}})
		}
		return fs, clean, pan
	}

	// 0. the reader's topic table against the property's
	for ty := 0; ty < 256; ty++ {
		if comm.VerifShouldHaveTopic(uint8(ty)) != pinnedHasTopic(uint8(ty)) {
			emit(jMon{Kind: "mon", What: "topic presence table differs", Ok: false, Detail: map[string]interface{}{"type": ty, "reader_expects_topic": comm.VerifShouldHaveTopic(uint8(ty))}})
		}
	}

	// 1. every type x topic-length combination, payload sizes around the small boundaries, one frame per connection
	sizes := []int{0, 1, 31, 32, 33}
	for _, ty := range frameTypes {
		for _, tl := range []int{0, 32, 1, 31, 33} {
			for _, sz := range sizes {
				if tl != 0 && tl != 32 && sz > 1 {
					continue
				}
				f := frameIn{ty, r.bytes(tl), r.bytes(sz)}
				if tl == 0 {
					f.topic = nil
				}
				wire, res, _ := writeFrames([]frameIn{f})
				emit(jEnc{Kind: "enc", Ty: ty, Topic: hx(f.topic), Data: hx(f.data), Res: res[0], Wire: hx(wire)})
				if res[0] == 2 && (tl == 0 || tl == 32) {
					emit(jMon{Kind: "mon", What: "panic", Ok: false, Detail: map[string]interface{}{"where": "send", "ty": ty, "topic_len": tl, "size": sz}})
				}
				if res[0] == 0 {
					got, clean, _ := emitDec("single", wire)
					if legalFrame(f) {
						ok := clean && sameFrames(got, []frameIn{f})
						emit(jMon{Kind: "mon", What: "frame differs/reordered/duplicated", Ok: ok,
							Detail: map[string]interface{}{"sent": toJ([]frameIn{f}), "got": toJ(got), "clean": clean}})
					}
				}
			}
		}
	}

	// 2. sequences of legal frames on one connection (small sizes): stream round trip, and every truncation of the stream
	for i := 0; i < n; i++ {
		k := 1 + r.intn(4)
		var fs []frameIn
		for j := 0; j < k; j++ {
			sz := []int{0, 1, 2, 5, 31, 32, 33, 40, 100}[r.intn(9)]
			if r.chance(1, 8) {
				sz = 200 + r.intn(smallMax-200)
			}
			fs = append(fs, randLegalFrame(r, sz))
		}
		wire, res, _ := writeFrames(fs)
		for j, f := range fs {
			if res[j] != 0 {
				emit(jMon{Kind: "mon", What: "panic", Ok: false, Detail: map[string]interface{}{"where": "send", "frame": toJ([]frameIn{f})}})
			}
		}
		got, clean, _ := emitDec("sequence", wire)
		emit(jMon{Kind: "mon", What: "frame differs/reordered/duplicated", Ok: clean && sameFrames(got, fs),
			Detail: map[string]interface{}{"sent": toJ(fs), "got": toJ(got), "clean": clean}})
		// truncations: all cut positions for short streams, a spread of them for longer ones
		step := 1
		if len(wire) > 120 {
			step = 1 + len(wire)/60
		}
		for cut := 0; cut < len(wire); cut += step {
			g, _, _ := emitDec("truncated", wire[:cut])
			// what is handed on must be a prefix of what was sent
			ok := len(g) <= len(fs) && sameFrames(g, fs[:len(g)])
			if !ok {
				emit(jMon{Kind: "mon", What: "frame differs/reordered/duplicated", Ok: false,
					Detail: map[string]interface{}{"sent": toJ(fs), "got": toJ(g), "cut": cut}})
			}
		}
	}

	// 3. big payloads: 65535, 65536, 2^20, limit, limit+1 (and a random one in between); header bytes to the model, payload by hash
	bigSizes := []int{2048, 65535, 65536, 1 << 20, limit - 1, limit, limit + 1, 1<<20 + r.intn(1<<20)}
	for bi, sz := range bigSizes {
		f := randLegalFrame(r, sz)
		if bi%2 == 0 {
			f.ty, f.topic = 2, r.bytes(32)
		}
		wire, res, _ := writeFrames([]frameIn{f})
		hl := 5 + len(f.topic)
		if res[0] != 0 || len(wire) < hl {
			emit(jEncHdr{Kind: "enchdr", Ty: f.ty, Topic: hx(f.topic), Len: sz, Res: res[0], Hdr: hx(wire)})
			emit(jMon{Kind: "mon", What: "panic", Ok: false, Detail: map[string]interface{}{"where": "send", "size": sz}})
			continue
		}
		emit(jEncHdr{Kind: "enchdr", Ty: f.ty, Topic: hx(f.topic), Len: sz, Res: 0, Hdr: hx(wire[:hl])})
		payloadOK := bytes.Equal(sha(wire[hl:]), sha(f.data)) && len(wire) == hl+sz
		emit(jMon{Kind: "mon", What: "frame differs/reordered/duplicated", Ok: payloadOK,
			Detail: map[string]interface{}{"where": "writer payload", "size": sz, "wire_len": len(wire)}})
		// read it back with the real reader
		c := newBufConn(wire)
		d := jDecBig{Kind: "decbig", Ty: wire[0], B: [4]int{int(wire[1]), int(wire[2]), int(wire[3]), int(wire[4])}, Avail: len(wire) - 5}
		var rty uint8
		var rtopic, rdata []byte
		var rerr error
		func() {
			defer func() {
				if e := recover(); e != nil {
					d.Res = 2
				}
			}()
			rty, rtopic, rdata, rerr = comm.VerifReadMsg(c)
		}()
		if d.Res != 2 {
			if rerr != nil {
				d.Res = 1
			} else {
				d.RTy, d.RTl, d.RDl = rty, len(rtopic), len(rdata)
			}
		}
		emit(d)
		if sz <= limit {
			ok := d.Res == 0 && rty == f.ty && bytes.Equal(rtopic, f.topic) && len(rdata) == sz && bytes.Equal(sha(rdata), sha(f.data)) && c.remaining() == 0
			emit(jMon{Kind: "mon", What: "frame differs/reordered/duplicated", Ok: ok,
				Detail: map[string]interface{}{"where": "reader, big payload", "size": sz, "res": d.Res}})
		} else {
			emit(jMon{Kind: "mon", What: "frame above the limit accepted", Ok: d.Res == 1,
				Detail: map[string]interface{}{"size": sz, "limit": limit, "res": d.Res}})
		}
		// the same header with fewer bytes behind it than announced
		for _, av := range []int{0, 31, 32, 33, sz - 1} {
			if av < 0 || av > len(wire)-5 {
				continue
			}
			c := newBufConn(wire[:5+av])
			d := jDecBig{Kind: "decbig", Ty: wire[0], B: [4]int{int(wire[1]), int(wire[2]), int(wire[3]), int(wire[4])}, Avail: av}
			func() {
				defer func() {
					if e := recover(); e != nil {
						d.Res = 2
					}
				}()
				t, tp, dt, err := comm.VerifReadMsg(c)
				if err != nil {
					d.Res = 1
				} else {
					d.RTy, d.RTl, d.RDl = t, len(tp), len(dt)
				}
			}()
			emit(d)
		}
	}

	// 4. malformed streams: oversize headers, wrong topic presence, patterned noise of every length 0..40
	over := []int{limit + 1, limit + 2, 1 << 25, 1<<31 - 1, 1 << 31, 1<<32 - 1}
	for _, ty := range []uint8{0, 1, 2, 9} {
		for _, l := range over {
			hdr := []byte{ty, byte(l), byte(l >> 8), byte(l >> 16), byte(l >> 24)}
			for _, tail := range []int{0, 3, 40} {
				s := append(clone(hdr), r.bytes(tail)...)
				// in front of it a valid frame, sometimes
				var pre []frameIn
				if r.chance(1, 2) {
					pre = []frameIn{randLegalFrame(r, r.intn(20))}
					w, _, _ := writeFrames(pre)
					s = append(w, s...)
				}
				got, clean, _ := emitDec("oversize", s)
				emit(jMon{Kind: "mon", What: "frame above the limit accepted", Ok: !clean && sameFrames(got, pre),
					Detail: map[string]interface{}{"announced": l, "got": len(got)}})
			}
		}
	}
	for i := 0; i < 40; i++ {
		// a frame whose topic presence contradicts its type, followed by a legal frame: the reader must follow the table
		ty := frameTypes[r.intn(len(frameTypes))]
		f := frameIn{ty, r.bytes(32), r.bytes(r.intn(50))}
		if pinnedHasTopic(ty) {
			f.topic = nil
		}
		w, res, _ := writeFrames([]frameIn{f, randLegalFrame(r, r.intn(40))})
		if res[0] == 0 {
			emitDec("topicmix", w)
		}
	}
	alphabet := []byte{0, 1, 2, 3, 32, 255}
	for l := 0; l <= 40; l++ {
		for v := 0; v < 4; v++ {
			s := make([]byte, l)
			for i := range s {
				s[i] = alphabet[r.intn(len(alphabet))]
				if i >= 2 && i <= 4 && r.chance(3, 4) {
					s[i] = 0 // keep most announced lengths small, so that bodies are reached
				}
			}
			emitDec("noise", s)
		}
	}
}

var _ = tls.VersionTLS13
