package main

import (
	"crypto/tls"
	"encoding/binary"
	"fmt"
	"io"
	"net"
	"sync"
	"time"

	comm "github.com/IBM/TSS/net"
)

// Scenario family "stalled clients" (C10: nothing a peer or client does can wedge a node; C17: isolation).
// A node runs the real Listen + ServiceConnections.  One client after the other connects, stops in a different state
// and keeps its socket open; after each of them a FRESH honest peer (never connected before) must connect, authenticate
// and deliver within a bound, and the peer connected before all of this must keep delivering.

type jStallState struct {
	State   string `json:"state"`
	FreshOK bool   `json:"fresh_ok"`
	FreshMs int64  `json:"fresh_ms"`
	OldOK   bool   `json:"old_ok"`
	OldMs   int64  `json:"old_ms"`
}

type jStalled struct {
	Kind       string        `json:"kind"` // "stalledclients"
	BoundMs    int64         `json:"bound_ms"`
	States     []jStallState `json:"states"`
	Wedged     bool          `json:"wedged"`
	Panic      bool          `json:"panic"`
	Violations []string      `json:"violations"`
	Ms         int64         `json:"ms"`
}

// clientHello returns the first TLS record a Go client sends (a complete ClientHello)
func clientHello() []byte {
	a, b := net.Pipe()
	go tls.Client(b, &tls.Config{InsecureSkipVerify: true, MinVersion: tls.VersionTLS13}).Handshake()
	hdr := make([]byte, 5)
	io.ReadFull(a, hdr)
	body := make([]byte, int(hdr[3])<<8|int(hdr[4]))
	io.ReadFull(a, body)
	a.Close()
	b.Close()
	return append(hdr, body...)
}

func scenarioStalledClients(seed uint64, bound time.Duration) {
	const nStates = 7
	t0 := time.Now()
	c := newCluster(3 + nStates) // 0: the node under test, 1: peer connected beforehand, 2: identity of the stalling client, 3..: fresh peers
	srvNode, old, bad := c.nodes[0], c.nodes[1], c.nodes[2]
	j := jStalled{Kind: "stalledclients", BoundMs: bound.Milliseconds(), Violations: []string{}, States: []jStallState{}}
	lsnr := comm.Listen(srvNode.addr, c.srvID.certPEM, c.srvID.keyPEM())
	in, stop := comm.ServiceConnections(lsnr, c.p2id, srvNode.log)
	var mu sync.Mutex
	arrived := map[[2]uint32]time.Time{} // (from, tag)
	go func() {
		for m := range in {
			if len(m.Data) == 4 {
				mu.Lock()
				arrived[[2]uint32{uint32(m.From), binary.LittleEndian.Uint32(m.Data)}] = time.Now()
				mu.Unlock()
			}
		}
	}()
	waitFor := func(from uint16, tag uint32) (bool, int64) {
		t := time.Now()
		for time.Since(t) < bound {
			mu.Lock()
			_, ok := arrived[[2]uint32{uint32(from), tag}]
			mu.Unlock()
			if ok {
				return true, time.Since(t).Milliseconds()
			}
			time.Sleep(2 * time.Millisecond)
		}
		return false, -1
	}
	remoteOf := func(nd *node) comm.SocketRemoteParties {
		return comm.SocketRemoteParties{0: comm.NewSocketRemoteParty(comm.PartyConnectionConfig{
			AuthFunc: authFunc(nd.ident, loopDomain), Domain: loopDomain, Id: 0, Endpoint: srvNode.addr, TlsCAs: c.pool}, nd.log)}
	}
	send := func(rp comm.SocketRemoteParties, tag uint32) {
		b := make([]byte, 4)
		binary.LittleEndian.PutUint32(b, tag)
		rp.Send(0, nil, b, 0)
	}
	oldRP := remoteOf(old)
	send(oldRP, 1000)
	if ok, _ := waitFor(old.id, 1000); !ok {
		j.Violations = append(j.Violations, "the honest peer could not deliver before any client stalled")
	}
	hello := clientHello()
	var held []net.Conn // kept open until the end
	rawDial := func() net.Conn {
		conn, err := net.Dial("tcp", srvNode.addr)
		if err != nil {
			panic(err)
		}
		held = append(held, conn)
		return conn
	}
	// a TLS client on a raw connection we keep; its handshake must complete for the later states (bounded, in case the node is wedged)
	tlsDial := func() *tls.Conn {
		raw := rawDial()
		tc := tls.Client(raw, &tls.Config{RootCAs: c.pool, ServerName: "127.0.0.1", MinVersion: tls.VersionTLS13})
		raw.SetDeadline(time.Now().Add(bound))
		if err := tc.Handshake(); err != nil {
			return nil
		}
		raw.SetDeadline(time.Time{})
		return tc
	}
	appHS := func(tc *tls.Conn) []byte {
		return lenPrefix16(signedHandshake(bad.ident, loopDomain, exporter(tc), time.Now().Unix()))
	}
	states := []struct {
		name string
		do   func()
	}{
		{"tcp-connect-nothing-sent", func() { rawDial() }},
		{"partial-tls-record-header", func() { rawDial().Write([]byte{0x16, 0x03, 0x01}) }},
		{"partial-client-hello", func() { rawDial().Write(hello[:len(hello)/2]) }},
		{"tls-complete-no-handshake-message", func() { tlsDial() }},
		{"partial-handshake-message", func() {
			if tc := tlsDial(); tc != nil {
				h := appHS(tc)
				tc.Write(h[:len(h)/2])
			}
		}},
		{"authenticated-partial-frame-header", func() {
			if tc := tlsDial(); tc != nil {
				tc.Write(append(appHS(tc), 2, 40, 0))
			}
		}},
		{"authenticated-partial-frame-body", func() {
			if tc := tlsDial(); tc != nil {
				s := append(appHS(tc), 2, 40, 0, 0, 0)
				s = append(s, make([]byte, 32+17)...) // topic and 17 of 40 payload bytes
				tc.Write(s)
			}
		}},
	}
	for i, st := range states {
		st.do()
		time.Sleep(30 * time.Millisecond) // let the node take the stalled connection
		fresh := c.nodes[3+i]
		send(remoteOf(fresh), uint32(i))
		send(oldRP, uint32(2000+i))
		r := jStallState{State: st.name}
		r.FreshOK, r.FreshMs = waitFor(fresh.id, uint32(i))
		r.OldOK, r.OldMs = waitFor(old.id, uint32(2000+i))
		j.States = append(j.States, r)
		if !r.FreshOK {
			j.Wedged = true
			j.Violations = append(j.Violations, fmt.Sprintf("client stalled in state %q (socket kept open): a fresh honest peer could not connect, authenticate and deliver within %v", st.name, bound))
			// release this one client, so that the remaining states are judged on their own
			held[len(held)-1].Close()
			time.Sleep(50 * time.Millisecond)
		}
		if !r.OldOK {
			j.Violations = append(j.Violations, fmt.Sprintf("client stalled in state %q: the peer connected beforehand stopped delivering", st.name))
		}
	}
	j.Ms = time.Since(t0).Milliseconds()
	emit(j)
	for _, h := range held {
		h.Close()
	}
	stop()
}
