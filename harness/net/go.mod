module verif/harness/net

go 1.18

require github.com/IBM/TSS v0.0.0

replace github.com/IBM/TSS => /repo
