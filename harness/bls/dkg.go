package main

// Whole DKGs through the public API only (Init / KeyGen / OnMsg / Sign, Verifier): the acceptance decision of KeyGen
// itself is observed, with every party honest and with one party whose revealed key is moved off the polynomial.

import (
	"bytes"
	"context"
	"crypto/sha256"
	"encoding/asn1"
	"strings"
	"sync"
	"time"

	bls "github.com/IBM/TSS/mpc/bls"
	ps "github.com/IBM/TSS/mpc/ps"
	math "github.com/IBM/mathlib"
)

type nopLogger struct{}

func (nopLogger) Debugf(string, ...interface{}) {}
func (nopLogger) Infof(string, ...interface{})  {}
func (nopLogger) Warnf(string, ...interface{})  {}
func (nopLogger) Errorf(string, ...interface{}) {}

// message tags of both DKGs (const block of mpc.go / tps.go: shareDistribution, commitPK, revealPK)
const (
	tagCommit = 2
	tagReveal = 3
)

type keygenParty interface {
	Init(parties []uint16, threshold int, sendMsg func(msg []byte, isBroadcast bool, to uint16))
	KeyGen(ctx context.Context) ([]byte, error)
	OnMsg(msgBytes []byte, from uint16, isBroadcast bool)
}

type dkgCase struct {
	Kind        string `json:"kind"`
	Pkg         string `json:"pkg"`
	N           int    `json:"n"`
	T           int    `json:"t"`
	Tampered    int    `json:"tampered"`    // 0: everybody honest; k: party k commits to and reveals a moved key
	IDs         []int  `json:"ids"`         // participant identifiers in session order
	ReuseGroup  int    `json:"reuse_group"` // > 0: the same party objects go through the runs 1, 2, .. of this group
	ReuseRun    int    `json:"reuse_run"`
	Stuck       bool   `json:"stuck"`    // some KeyGen did not return (or panicked)
	Accepted    []bool `json:"accepted"` // per party: KeyGen returned without error
	CrossError  []bool `json:"cross_error"`
	SameTPK     bool   `json:"same_tpk"`      // all accepting parties store the same threshold key and key list
	SkOnPoly    bool   `json:"sk_on_poly"`    // the stored secret shares of every t-subset reconstruct one secret ...
	TPKIsSecret bool   `json:"tpk_is_secret"` // ... and the threshold key is the key of that secret
	SigsVerify  bool   `json:"sigs_verify"`   // bls: every >= t subset signs, aggregates (Verifier) and verifies
	Subsets     int    `json:"subsets"`
}

// moveKey returns the serialized key with the generator added to (the first component of) it.
func moveKey(a *api, payload []byte) []byte {
	if a.name == "bls" {
		pk, err := a.curve.NewG2FromBytes(payload)
		if err != nil {
			panic(err)
		}
		pk.Add(a.curve.GenG2)
		return pk.Bytes()
	}
	var xys ps.XYs
	if _, err := asn1.Unmarshal(payload, &xys); err != nil {
		panic(err)
	}
	x, err := a.curve.NewG2FromBytes(xys.X)
	if err != nil {
		panic(err)
	}
	x.Add(a.curve.GenG2)
	xys.X = x.Bytes()
	out, err := asn1.Marshal(xys)
	if err != nil {
		panic(err)
	}
	return out
}

// instance reuse: while reuseObjs is non-nil, runDKG takes its party objects from it (and leaves them there for the next run)
var (
	reuseObjs  map[uint16]keygenParty
	reuseGroup int
	reuseRun   int
)

func runDKG(a *api, n, t, tampered int, ids ...uint16) dkgCase {
	res := dkgCase{Kind: "dkg", Pkg: a.name, N: n, T: t, Tampered: tampered, Accepted: make([]bool, n), CrossError: make([]bool, n)}
	parties := make([]uint16, n)
	for i := range parties {
		parties[i] = uint16(i + 1)
		if len(ids) == n {
			parties[i] = ids[i] // identifiers that are not 1..n: shares are still evaluated at the rank i+1
		}
		res.IDs = append(res.IDs, int(parties[i]))
	}
	insts := make([]keygenParty, n)
	for i := range insts {
		if reuseObjs != nil && reuseObjs[parties[i]] != nil {
			// instance reuse: the object that played this identifier in the previous run of the group
			insts[i] = reuseObjs[parties[i]]
			continue
		}
		if a.name == "bls" {
			insts[i] = &bls.TBLS{Party: parties[i], Logger: nopLogger{}}
		} else {
			insts[i] = &ps.TPS{Curve: a.curve, Party: parties[i], Logger: nopLogger{}, MessageLength: 1}
		}
	}
	if reuseObjs != nil {
		for i := range insts {
			reuseObjs[parties[i]] = insts[i]
		}
		res.ReuseGroup, res.ReuseRun = reuseGroup, reuseRun
	}
	var heldCommit sync.Mutex
	deliver := func(i int, msg []byte, bc bool, to uint16) {
		send := func(m []byte) {
			for j := range insts {
				if j == i {
					continue
				}
				if bc || parties[j] == to {
					insts[j].OnMsg(append([]byte{}, m...), parties[i], bc)
				}
			}
		}
		if tampered == i+1 && bc && len(msg) > 0 {
			heldCommit.Lock()
			defer heldCommit.Unlock()
			switch msg[0] {
			case tagCommit:
				return // withheld: the commitment to the moved key is sent together with the moved key
			case tagReveal:
				moved := moveKey(a, msg[1:])
				digest := sha256.Sum256(moved)
				send(append([]byte{tagCommit}, digest[:]...))
				send(append([]byte{tagReveal}, moved...))
				return
			}
		}
		send(msg)
	}
	for i := range insts {
		i := i
		insts[i].Init(append([]uint16{}, parties...), t, func(msg []byte, bc bool, to uint16) { deliver(i, msg, bc, to) })
	}
	ctx, cancel := context.WithTimeout(context.Background(), 60*time.Second)
	defer cancel()
	stored := make([][]byte, n)
	errs := make([]error, n)
	done := make(chan int, n)
	for i := range insts {
		go func(i int) {
			defer func() {
				if recover() != nil {
					done <- -1
					return
				}
				done <- i
			}()
			stored[i], errs[i] = insts[i].KeyGen(ctx)
		}(i)
	}
	for k := 0; k < n; k++ {
		select {
		case i := <-done:
			if i < 0 {
				res.Stuck = true
			}
		case <-time.After(90 * time.Second):
			res.Stuck = true
			return res
		}
	}
	if ctx.Err() != nil {
		res.Stuck = true
	}
	for i := range insts {
		res.Accepted[i] = errs[i] == nil
		res.CrossError[i] = errs[i] != nil && strings.Contains(errs[i].Error(), "different threshold public keys")
	}
	if tampered != 0 || res.Stuck {
		return res
	}
	for _, ok := range res.Accepted {
		if !ok {
			return res
		}
	}
	// everybody honest and everybody accepted: what was stored
	res.SameTPK, res.SkOnPoly, res.TPKIsSecret, res.SigsVerify = true, true, true, true
	if a.name == "bls" {
		sds := make([]bls.StoredData, n)
		sks := make([]*math.Zr, n)
		for i := range sds {
			if _, err := asn1.Unmarshal(stored[i], &sds[i]); err != nil {
				panic(err)
			}
			sks[i] = a.curve.NewZrFromBytes(sds[i].Sk)
			if !bytes.Equal(sds[i].ThresholdPK, sds[0].ThresholdPK) || len(sds[i].PublicKeys) != n {
				res.SameTPK = false
			}
			for j := 0; res.SameTPK && j < n; j++ {
				if !bytes.Equal(sds[i].PublicKeys[j], sds[0].PublicKeys[j]) {
					res.SameTPK = false
				}
			}
		}
		var secret *math.Zr
		digest := []byte("the digest the parties are asked to sign....")[:32]
		var v bls.Verifier
		rawPP, err := insts[0].(*bls.TBLS).ThresholdPK()
		if err != nil || v.Init(rawPP) != nil {
			res.SigsVerify = false
		}
		for _, sub := range checkedSubsets(n, t) {
			if len(sub) < t {
				continue
			}
			res.Subsets++
			s := a.rec(sks, sub...)
			if secret == nil {
				secret = s
			} else if zint(s).Cmp(zint(secret)) != 0 {
				res.SkOnPoly = false
			}
			if !res.SigsVerify {
				continue
			}
			var sigs [][]byte
			var signers []uint16
			for _, x := range sub {
				sig, err := insts[x-1].(*bls.TBLS).Sign(ctx, digest)
				if err != nil {
					res.SigsVerify = false
				}
				sigs = append(sigs, sig)
				signers = append(signers, parties[x-1])
			}
			agg, err := v.AggregateSignatures(sigs, signers)
			if err != nil || v.Verify(digest, agg) != nil {
				res.SigsVerify = false
			}
		}
		res.TPKIsSecret = secret != nil && bytes.Equal(a.curve.GenG2.Mul(secret).Bytes(), sds[0].ThresholdPK)
	} else {
		sds := make([]ps.StoredData, n)
		for i := range sds {
			if _, err := asn1.Unmarshal(stored[i], &sds[i]); err != nil {
				panic(err)
			}
			if !bytes.Equal(sds[i].ThresholdPK, sds[0].ThresholdPK) || len(sds[i].PublicKeys) != n {
				res.SameTPK = false
			}
			for j := 0; res.SameTPK && j < n; j++ {
				if !bytes.Equal(sds[i].PublicKeys[j], sds[0].PublicKeys[j]) {
					res.SameTPK = false
				}
			}
		}
		// every t-subset of the published keys aggregates to the stored threshold key (exported-key view of the cross-check)
		pks := make([]ps.PK, n)
		for j := range pks {
			var xys ps.XYs
			if _, err := asn1.Unmarshal(sds[0].PublicKeys[j], &xys); err != nil {
				panic(err)
			}
			x, err := a.curve.NewG2FromBytes(xys.X)
			if err != nil {
				panic(err)
			}
			pks[j].X = x
			for _, yb := range xys.Ys {
				y, err := a.curve.NewG2FromBytes(yb)
				if err != nil {
					panic(err)
				}
				pks[j].Y = append(pks[j].Y, y)
			}
		}
		for _, sub := range checkedSubsets(n, t) {
			if len(sub) < t {
				continue
			}
			res.Subsets++
			agg := ps.VerifLocalAggregatePublicKeys(2, pks, sub...)
			if !bytes.Equal(agg.Bytes(), sds[0].ThresholdPK) {
				res.TPKIsSecret = false
			}
		}
	}
	return res
}

// checkedSubsets: all subsets for small n; for a large n the complete set, all but one, the first t, the last t, 1..21 and
// a band in the middle (2^n subsets are out of reach; the interesting ones are the large ones)
func checkedSubsets(n, t int) [][]int64 {
	if n <= 8 {
		return subsetsOf(n)
	}
	res := [][]int64{rangeSet(1, int64(n)), rangeSet(2, int64(n)), rangeSet(1, int64(t)), rangeSet(int64(n-t+1), int64(n))}
	if n >= 21 && t <= 21 {
		res = append(res, rangeSet(1, 21))
	}
	if t <= n-4 {
		res = append(res, rangeSet(3, int64(n-2)))
	}
	return res
}

func dkgCases(a *api, thorough bool) {
	maxN := 4
	if thorough {
		maxN = 6
	}
	for n := 2; n <= maxN; n++ {
		for t := 2; t <= n; t++ {
			for k := 0; k <= n; k++ {
				emit(runDKG(a, n, t, k))
			}
		}
	}
	// participant identifier sets that are not 1..n (bls: every >= t subset signs and verifies through bls.Verifier, which maps
	// identifiers to ranks)
	if thorough {
		// a complete key generation with more than 20 parties (products of evaluation points beyond 2^63)
		emit(runDKG(a, 22, 2, 0))
		emit(runDKG(a, 22, 21, 0))
	}
	// instance reuse: the SAME objects through two and three consecutive Init + KeyGen runs (public API only); each run is
	// judged like a run on fresh objects.  (n, t, moved key of party k or 0, identifiers) per run
	type rn struct {
		n, t, k int
		ids     []uint16
	}
	groups := [][]rn{
		{{3, 2, 0, nil}, {3, 2, 0, nil}, {3, 3, 0, nil}},
		{{3, 2, 0, nil}, {3, 2, 3, nil}, {3, 2, 0, nil}},
		{{3, 2, 1, nil}, {3, 2, 0, nil}},
		{{4, 3, 0, nil}, {4, 3, 2, nil}, {4, 2, 0, nil}},
		{{4, 3, 4, nil}, {4, 3, 0, []uint16{2, 3, 4, 1}}},
		{{3, 2, 0, []uint16{1, 2, 4}}, {3, 2, 2, []uint16{1, 2, 4}}, {3, 2, 0, []uint16{4, 1, 2}}},
	}
	for gi, g := range groups {
		reuseObjs, reuseGroup = map[uint16]keygenParty{}, gi+1
		for ri, x := range g {
			reuseRun = ri + 1
			emit(runDKG(a, x.n, x.t, x.k, x.ids...))
		}
	}
	reuseObjs, reuseGroup, reuseRun = nil, 0, 0
	for _, ids := range [][]uint16{{1, 2, 4}, {2, 3, 5}, {1, 3, 4, 6}, {0, 1, 2}, {65533, 65534, 65535}} {
		n := len(ids)
		for t := 2; t <= n; t++ {
			emit(runDKG(a, n, t, 0, ids...))
			emit(runDKG(a, n, t, n, ids...))
		}
	}
}
