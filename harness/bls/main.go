package main

// Harness for the secret-sharing algebra of mpc/bls and mpc/ps (property C18).
// One JSON object per line; every random choice derives from -seed.

import (
	"bufio"
	"encoding/json"
	"flag"
	"fmt"
	"os"
)

var out *bufio.Writer

func emit(v interface{}) {
	b, err := json.Marshal(v)
	if err != nil {
		panic(err)
	}
	out.Write(b)
	out.WriteByte('\n')
}

func main() {
	if len(os.Args) < 2 {
		fmt.Fprintln(os.Stderr, "usage: bls <cmd> [flags]")
		os.Exit(2)
	}
	cmd := os.Args[1]
	fs := flag.NewFlagSet(cmd, flag.ExitOnError)
	seed := fs.Uint64("seed", 1, "PRNG seed")
	tier := fs.String("tier", "quick", "quick | thorough")
	outPath := fs.String("out", "", "output file (JSON lines); default stdout")
	fs.Parse(os.Args[2:])
	f := os.Stdout
	if *outPath != "" {
		var err error
		f, err = os.Create(*outPath)
		if err != nil {
			panic(err)
		}
		defer f.Close()
	}
	out = bufio.NewWriterSize(f, 1<<20)
	defer out.Flush()
	switch cmd {
	case "alg":
		runAlg(newPRNG(*seed), *tier == "thorough")
	default:
		fmt.Fprintln(os.Stderr, "unknown command", cmd)
		os.Exit(2)
	}
}
