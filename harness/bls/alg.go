package main

import (
	"bytes"
	"io"
	"math/big"

	bls "github.com/IBM/TSS/mpc/bls"
	ps "github.com/IBM/TSS/mpc/ps"
	math "github.com/IBM/mathlib"
)

// The two packages carry byte-identical copies of sss.go / choose.go; both are driven through the same table.
type api struct {
	name      string
	curve     *math.Curve
	lag       func(int64, ...int64) *math.Zr
	rec       func([]*math.Zr, ...int64) *math.Zr
	valueAt   func([]*math.Zr, int) *math.Zr
	gen       func(t, n int, rd io.Reader) ([]*math.Zr, []*math.Zr)
	choose    func(n, k int, f func([]int64))
	aggPoints func([]*math.G2, ...int64) *math.G2
}

var apis = []*api{
	{name: "bls", curve: bls.VerifCurve(), lag: bls.VerifLagrangeCoefficient, rec: bls.VerifReconstruct,
		valueAt: bls.VerifValueAt, gen: bls.VerifGen, choose: bls.VerifChooseKoutOfN, aggPoints: bls.VerifLocalAggregatePublicKeys},
	{name: "ps", curve: ps.VerifCurve(), lag: ps.VerifLagrangeCoefficient, rec: ps.VerifReconstruct,
		valueAt: ps.VerifValueAt, gen: ps.VerifGen, choose: ps.VerifChooseKoutOfN, aggPoints: ps.VerifLocalAggregateECPoints},
}

// ---------------------------------------------------------------- scalars

// zint is the exact integer a Zr holds (it may be unreduced or negative; String() prints the raw big.Int in hex).
func zint(z *math.Zr) *big.Int {
	n, ok := new(big.Int).SetString(z.String(), 16)
	if !ok {
		panic("unreadable scalar " + z.String())
	}
	return n
}

func zdec(z *math.Zr) string { return zint(z).String() }

func zdecs(zs []*math.Zr) []string {
	res := make([]string, len(zs))
	for i, z := range zs {
		res[i] = zdec(z)
	}
	return res
}

func order(a *api) *big.Int { return zint(a.curve.GroupOrder) }

func zrOf(a *api, n *big.Int) *math.Zr {
	b := make([]byte, 32)
	n.FillBytes(b)
	return a.curve.NewZrFromBytes(b)
}

// ---------------------------------------------------------------- deterministic io.Reader

// scriptReader hands out queued 32-byte values first (crypto/rand.Int keeps a value below the modulus), then PRNG bytes.
type scriptReader struct {
	queue [][]byte
	p     *prng
}

func (s *scriptReader) Read(b []byte) (int, error) {
	if len(s.queue) > 0 && len(b) == len(s.queue[0]) {
		copy(b, s.queue[0])
		s.queue = s.queue[1:]
		return len(b), nil
	}
	copy(b, s.p.bytes(len(b)))
	return len(b), nil
}

func be32(n *big.Int) []byte {
	b := make([]byte, 32)
	n.FillBytes(b)
	return b
}

// edgeCoefficients returns t scripted coefficients for pattern pat.
func edgeCoefficients(a *api, p *prng, t, pat int) []*big.Int {
	r := order(a)
	rm1 := new(big.Int).Sub(r, big.NewInt(1))
	rnd := func() *big.Int {
		x := new(big.Int).SetBytes(p.bytes(32))
		return x.Mod(x, r)
	}
	res := make([]*big.Int, t)
	for i := range res {
		switch pat {
		case 0: // all r-1
			res[i] = new(big.Int).Set(rm1)
		case 1: // secret 0, rest random
			if i == 0 {
				res[i] = big.NewInt(0)
			} else {
				res[i] = rnd()
			}
		case 2: // leading coefficient 0 (degree drops)
			if i == t-1 {
				res[i] = big.NewInt(0)
			} else {
				res[i] = rnd()
			}
		case 3: // zero polynomial
			res[i] = big.NewInt(0)
		case 4: // small coefficients 1,2,3,...
			res[i] = big.NewInt(int64(i + 1))
		default: // constant polynomial with a random secret
			if i == 0 {
				res[i] = rnd()
			} else {
				res[i] = big.NewInt(0)
			}
		}
	}
	return res
}

// ---------------------------------------------------------------- helpers

func try(f func()) (panicked bool) {
	defer func() {
		if recover() != nil {
			panicked = true
		}
	}()
	f()
	return false
}

func subsetsOf(n int) [][]int64 {
	var res [][]int64
	for m := 1; m < 1<<uint(n); m++ {
		var s []int64
		for i := 0; i < n; i++ {
			if m&(1<<uint(i)) != 0 {
				s = append(s, int64(i+1))
			}
		}
		res = append(res, s)
	}
	return res
}

func randomSubset(p *prng, n, k int) []int64 {
	perm := make([]int64, n)
	for i := range perm {
		perm[i] = int64(i + 1)
	}
	for i := n - 1; i > 0; i-- {
		j := p.intn(i + 1)
		perm[i], perm[j] = perm[j], perm[i]
	}
	s := append([]int64{}, perm[:k]...)
	// sorted
	for i := 1; i < len(s); i++ {
		for j := i; j > 0 && s[j-1] > s[j]; j-- {
			s[j-1], s[j] = s[j], s[j-1]
		}
	}
	return s
}

func shuffled(p *prng, s []int64) []int64 {
	t := append([]int64{}, s...)
	for i := len(t) - 1; i > 0; i-- {
		j := p.intn(i + 1)
		t[i], t[j] = t[j], t[i]
	}
	return t
}

func binom(n, k int) int {
	if k < 0 || k > n {
		return 0
	}
	res := 1
	for i := 1; i <= k; i++ {
		res = res * (n - k + i) / i
	}
	return res
}

// ---------------------------------------------------------------- emitted records

type chooseCase struct {
	Kind    string    `json:"kind"`
	Pkg     string    `json:"pkg"`
	N       int       `json:"n"`
	K       int       `json:"k"`
	Subsets [][]int64 `json:"subsets"`
}

type lagCase struct {
	Kind  string  `json:"kind"`
	Pkg   string  `json:"pkg"`
	I     int64   `json:"i"`
	Pts   []int64 `json:"pts"`
	Panic bool    `json:"panic"`
	V     string  `json:"v"`
}

type vecCase struct {
	Kind   string   `json:"kind"`
	Pkg    string   `json:"pkg"`
	ID     int      `json:"id"`
	Shares []string `json:"shares"`
}

type genCase struct {
	Kind    string   `json:"kind"`
	Pkg     string   `json:"pkg"`
	N       int      `json:"n"`
	T       int      `json:"t"`
	Pattern string   `json:"pattern"`
	Coeffs  []string `json:"coeffs"`
	Vec     int      `json:"vec"`
	At0     string   `json:"at0"` // Polynomial.ValueAt(0)
	At0OK   bool     `json:"at0_ok"`
}

type valueAtCase struct {
	Kind   string   `json:"kind"`
	Pkg    string   `json:"pkg"`
	Coeffs []string `json:"coeffs"`
	X      int      `json:"x"`
	V      string   `json:"v"`
}

type recCase struct {
	Kind   string  `json:"kind"`
	Pkg    string  `json:"pkg"`
	Vec    int     `json:"vec"`
	N      int     `json:"n"`
	T      int     `json:"t"`
	Pts    []int64 `json:"pts"`
	Panic  bool    `json:"panic"`
	V      string  `json:"v"`
	Secret string  `json:"secret"`
	Expect bool    `json:"expect"` // >= t distinct points of 1..n: the property demands V == Secret
	OK     bool    `json:"ok"`
}

type groupCase struct {
	Kind          string  `json:"kind"`
	Pkg           string  `json:"pkg"`
	Vec           int     `json:"vec"`
	N             int     `json:"n"`
	T             int     `json:"t"`
	Pts           []int64 `json:"pts"`
	Panic         bool    `json:"panic"`
	AggEqSecretPK bool    `json:"agg_eq_secret_pk"` // aggregate of the share keys == g2^secret
	HasSig        bool    `json:"has_sig"`
	SigVerifies   bool    `json:"sig_verifies"`   // aggregated partial signatures verify under the aggregated key
	SigEqSecret   bool    `json:"sig_eq_secret"`  // ... and equal H(m)^secret
	NegRejects    bool    `json:"neg_rejects"`    // the same signature is rejected for another digest (sanity of the verifier)
	KeysUntouched bool    `json:"keys_untouched"` // aggregation left its input keys as they were
	AggKey        string  `json:"agg_key,omitempty"`
}

type crossCase struct {
	Kind        string `json:"kind"`
	Pkg         string `json:"pkg"`
	N           int    `json:"n"`
	T           int    `json:"t"`
	Vec         int    `json:"vec"`      // share vector behind the (possibly moved) keys
	Tampered    int    `json:"tampered"` // 0 = all keys on the polynomial, k = key of party k moved
	Component   string `json:"component"`
	Delta       string `json:"delta"`
	Panic       bool   `json:"panic"`
	Distinct    int    `json:"distinct"` // number of different threshold keys found by assembleThresholdPublicKey
	Subsets     int    `json:"subsets"`  // C(n,t)
	TPKEqSecret bool   `json:"tpk_eq_secret"`
	Accepted    bool   `json:"accepted"` // KeyGen's test: len(combinations) <= 1
}

var vecCounter int

func newVec(a *api, shares []*math.Zr) int {
	vecCounter++
	emit(vecCase{"vec", a.name, vecCounter, zdecs(shares)})
	return vecCounter
}

// ---------------------------------------------------------------- the run

func runAlg(r *prng, thorough bool) {
	maxN, seeds, chooseN, lagN := 6, 2, 8, 6
	if thorough {
		maxN, seeds, chooseN, lagN = 10, 3, 10, 8
	}
	base := r.next()
	for _, a := range apis {
		// the same stream for both packages: their sss.go/choose.go are copies, so equal inputs must give equal outputs
		pr := newPRNG(base)
		vecCounter = 0
		chooseCases(a, chooseN)
		lagCases(a, pr, lagN, thorough)
		for n := 2; n <= maxN; n++ {
			for t := 2; t <= n; t++ {
				for s := 0; s < seeds; s++ {
					dealCase(a, newPRNG(pr.next()), n, t, s, thorough)
				}
			}
		}
		bigPointCases(a, newPRNG(pr.next()))
		dkgCases(a, thorough)
		if thorough {
			for i := 0; i < 40; i++ {
				n := 11 + pr.intn(30)
				t := 2 + pr.intn(n-1)
				largeCase(a, newPRNG(pr.next()), n, t)
			}
		}
	}
}

func chooseCases(a *api, maxN int) {
	for n := 0; n <= maxN; n++ {
		for k := 0; k <= n+1; k++ {
			subs := [][]int64{}
			a.choose(n, k, func(s []int64) { subs = append(subs, append([]int64{}, s...)) })
			emit(chooseCase{"choose", a.name, n, k, subs})
		}
	}
}

func emitLag(a *api, i int64, pts []int64) {
	var v *math.Zr
	p := try(func() { v = a.lag(i, pts...) })
	c := lagCase{Kind: "lag", Pkg: a.name, I: i, Pts: pts, Panic: p}
	if !p {
		c.V = zdec(v)
	}
	emit(c)
}

func lagCases(a *api, p *prng, maxN int, thorough bool) {
	for _, s := range subsetsOf(maxN) {
		for _, i := range s {
			emitLag(a, i, s)
		}
		if len(s) >= 3 && p.chance(1, 4) {
			sh := shuffled(p, s)
			emitLag(a, sh[0], sh)
		}
	}
	// outside the property's domain; the model follows the code there as well
	odd := []struct {
		i   int64
		pts []int64
	}{
		{1, []int64{1, 1, 2}}, {3, []int64{1, 2}}, {0, []int64{0, 1, 2}}, {2, []int64{0, 2, 5}}, {-1, []int64{-1, 2, 3}},
		{2, []int64{2, 9223372036854775807}}, {5, []int64{}}, {4, []int64{4, 4}}, {65535, []int64{1, 65535, 256}},
	}
	for _, o := range odd {
		emitLag(a, o.i, o.pts)
	}
	if thorough {
		for k := 0; k < 150; k++ {
			n := 9 + p.intn(60)
			s := randomSubset(p, n, 2+p.intn(n-1))
			emitLag(a, s[p.intn(len(s))], s)
		}
	}
}

func deal(a *api, p *prng, n, t, s int) ([]*math.Zr, []*math.Zr, string) {
	rd := &scriptReader{p: p}
	pattern := "random"
	if s == 0 {
		pat := (n*7 + t) % 6
		pattern = []string{"all r-1", "secret 0", "leading 0", "zero polynomial", "small", "constant"}[pat]
		for _, c := range edgeCoefficients(a, p, t, pat) {
			rd.queue = append(rd.queue, be32(c))
		}
	}
	poly, shares := a.gen(t, n, rd)
	return poly, shares, pattern
}

func emitRec(a *api, vec, n, t int, shares []*math.Zr, secret *math.Zr, pts []int64) {
	var v *math.Zr
	p := try(func() { v = a.rec(shares, pts...) })
	c := recCase{Kind: "rec", Pkg: a.name, Vec: vec, N: n, T: t, Pts: pts, Panic: p, Secret: zdec(secret), Expect: len(pts) >= t}
	if !p {
		c.V = zdec(v)
		c.OK = zint(v).Cmp(zint(secret)) == 0
	}
	emit(c)
}

func dealCase(a *api, p *prng, n, t, s int, thorough bool) {
	poly, shares, pattern := deal(a, p, n, t, s)
	vec := newVec(a, shares)
	at0 := a.valueAt(poly, 0)
	emit(genCase{"gen", a.name, n, t, pattern, zdecs(poly), vec, zdec(at0), zint(at0).Cmp(zint(poly[0])) == 0})
	secret := poly[0]
	if s == 0 {
		for _, x := range []int{0, n + 1, 255, 65535} {
			emit(valueAtCase{"valueat", a.name, zdecs(poly), x, zdec(a.valueAt(poly, x))})
		}
	}
	// scalar level: every subset of size >= 2 (n <= 6), a sample otherwise
	var subsets [][]int64
	if n <= 6 {
		for _, sub := range subsetsOf(n) {
			// below-threshold subsets (no property claim, model correspondence only) on the scripted seed only
			if len(sub) >= 2 && (s == 0 || thorough || len(sub) >= t) {
				subsets = append(subsets, sub)
			}
		}
	} else {
		if binom(n, t) <= 25 {
			for _, sub := range subsetsOf(n) {
				if len(sub) == t {
					subsets = append(subsets, sub)
				}
			}
		} else {
			for k := 0; k < 25; k++ {
				subsets = append(subsets, randomSubset(p, n, t))
			}
		}
		for k := 0; k < 8 && t < n; k++ {
			subsets = append(subsets, randomSubset(p, n, t+1+p.intn(n-t)))
		}
		for k := 0; k < 4 && t > 2; k++ {
			subsets = append(subsets, randomSubset(p, n, 2+p.intn(t-2)))
		}
	}
	for _, sub := range subsets {
		emitRec(a, vec, n, t, shares, secret, sub)
		if len(sub) >= 3 && p.chance(1, 4) {
			emitRec(a, vec, n, t, shares, secret, shuffled(p, sub))
		}
	}
	if s == 0 {
		// panics of the code are values of the model: single point (empty product), index outside the share slice
		emitRec(a, vec, n, 99, shares, secret, []int64{1})
		emitRec(a, vec, n, 99, shares, secret, []int64{1, int64(n + 1)})
		emitRec(a, vec, n, 99, shares, secret, []int64{0, 1})
		emitRec(a, vec, n, 99, shares, secret, []int64{})
	}
	// group level
	var gsubs [][]int64
	for _, sub := range subsets {
		if len(sub) >= t {
			gsubs = append(gsubs, sub)
		}
	}
	limit := len(gsubs)
	if s > 0 && !thorough && limit > 8 {
		limit = 8
	}
	if thorough && n > 6 && limit > 25 {
		limit = 25
	}
	if limit < len(gsubs) {
		for i := len(gsubs) - 1; i > 0; i-- {
			j := p.intn(i + 1)
			gsubs[i], gsubs[j] = gsubs[j], gsubs[i]
		}
		gsubs = gsubs[:limit]
	}
	groupCases(a, p, vec, n, t, shares, secret, gsubs)
	// the DKG cross-check
	crossCases(a, p, vec, n, t, s, shares, secret)
}

// bigPointCases: large point sets and large points, where only scalar arithmetic is needed.  The product of the points of a
// set passes 2^63 from about 21 points on (20! < 2^63 < 21!) and, for points near 2^15 / 2^16, from five points on: any
// machine-integer short cut in lagrangeCoefficient shows here.  Coefficients for {1..n}, top / bottom / random subsets;
// reconstruction over complete and large subsets; one aggregation in the exponent over 22 keys.
func rangeSet(lo, hi int64) []int64 {
	var s []int64
	for x := lo; x <= hi; x++ {
		s = append(s, x)
	}
	return s
}

func bigPointCases(a *api, p *prng) {
	for _, n := range []int{20, 21, 22, 25, 30, 40, 64} {
		full := rangeSet(1, int64(n))
		for _, i := range []int64{1, int64(n / 2), int64(n)} {
			emitLag(a, i, full)
		}
		top := rangeSet(int64(n-17), int64(n))
		emitLag(a, top[0], top)
		emitLag(a, top[len(top)-1], shuffled(p, top))
		bottom := rangeSet(1, 18)
		emitLag(a, 18, bottom)
		for k := 0; k < 2; k++ {
			sub := randomSubset(p, n, n-1-p.intn(3))
			emitLag(a, sub[p.intn(len(sub))], sub)
		}
	}
	// large points: five of them already multiply to more than 2^63
	for _, s := range [][]int64{rangeSet(32764, 32769), rangeSet(65530, 65535), {1, 255, 256, 32767, 32768, 65534, 65535},
		{65535, 65534, 65533, 65532, 65531, 65530, 65529, 65528}} {
		for _, i := range []int64{s[0], s[len(s)/2], s[len(s)-1]} {
			emitLag(a, i, s)
		}
	}
	// reconstruction over complete and large subsets of a dealt polynomial, t = 3
	for _, n := range []int{21, 22, 25, 30} {
		poly, shares, _ := deal(a, p, n, 3, 1)
		vec := newVec(a, shares)
		at0 := a.valueAt(poly, 0)
		emit(genCase{"gen", a.name, n, 3, "random", zdecs(poly), vec, zdec(at0), zint(at0).Cmp(zint(poly[0])) == 0})
		emitRec(a, vec, n, 3, shares, poly[0], rangeSet(1, int64(n)))
		emitRec(a, vec, n, 3, shares, poly[0], rangeSet(int64(n-19), int64(n)))
		emitRec(a, vec, n, 3, shares, poly[0], shuffled(p, randomSubset(p, n, n-1)))
		if n == 22 {
			// in the exponent: 22 public keys aggregate to the key of the secret
			groupCases(a, p, vec, n, 3, shares, poly[0], [][]int64{rangeSet(1, 22), rangeSet(2, 22)})
		}
	}
}

func largeCase(a *api, p *prng, n, t int) {
	poly, shares, _ := deal(a, p, n, t, 1)
	vec := newVec(a, shares)
	at0 := a.valueAt(poly, 0)
	emit(genCase{"gen", a.name, n, t, "random", zdecs(poly), vec, zdec(at0), zint(at0).Cmp(zint(poly[0])) == 0})
	for k := 0; k < 3; k++ {
		emitRec(a, vec, n, t, shares, poly[0], randomSubset(p, n, t))
	}
	if t < n {
		emitRec(a, vec, n, t, shares, poly[0], shuffled(p, randomSubset(p, n, t+1+p.intn(n-t))))
	}
}

// ---------------------------------------------------------------- group level

func g2(a *api, messageLength int) *math.G2 {
	if a.name == "ps" {
		return ps.VerifG2(messageLength)
	}
	return a.curve.GenG2
}

func keysOf(gen *math.G2, shares []*math.Zr) []*math.G2 {
	res := make([]*math.G2, len(shares))
	for i, s := range shares {
		res[i] = gen.Mul(s)
	}
	return res
}

func groupCases(a *api, p *prng, vec, n, t int, shares []*math.Zr, secret *math.Zr, subsets [][]int64) {
	var pks []*math.G2
	gen := g2(a, 1)
	if a.name == "bls" {
		pks = bls.VerifLocalCreatePublicKeys(shares)
	} else {
		pks = keysOf(gen, shares)
	}
	before := make([][]byte, len(pks))
	for i, k := range pks {
		before[i] = k.Bytes()
	}
	want := gen.Mul(secret).Bytes()
	digest := p.bytes(32)
	other := p.bytes(32)
	for _, sub := range subsets {
		c := groupCase{Kind: "group", Pkg: a.name, Vec: vec, N: n, T: t, Pts: sub}
		c.Panic = try(func() {
			agg := a.aggPoints(pks, sub...)
			c.AggEqSecretPK = bytes.Equal(agg.Bytes(), want)
			if a.name == "bls" {
				c.HasSig = true
				sigs := make([]*math.G1, len(sub))
				for i, x := range sub {
					sigs[i] = bls.VerifLocalSign(shares[x-1], digest)
				}
				aggSig := bls.VerifLocalAggregateSignatures(sigs, sub...)
				c.SigVerifies = bls.VerifLocalVerify(agg, digest, aggSig) == nil
				c.SigEqSecret = bytes.Equal(aggSig.Bytes(), bls.VerifLocalSign(secret, digest).Bytes())
				c.NegRejects = bls.VerifLocalVerify(agg, other, aggSig) != nil
			}
		})
		c.KeysUntouched = true
		for i, k := range pks {
			if !bytes.Equal(before[i], k.Bytes()) {
				c.KeysUntouched = false
			}
		}
		emit(c)
	}
}

// crossCases runs the real assembleThresholdPublicKey on keys that lie on the dealt polynomial and on the same keys with
// one party's key moved off it, for every party.
func crossCases(a *api, p *prng, vec, n, t, s int, shares []*math.Zr, secret *math.Zr) {
	r := order(a)
	parties := make([]uint16, n)
	for i := range parties {
		parties[i] = uint16(i + 1)
	}
	gen := g2(a, 1)
	// ps: a key is (X, Y_0, Y_1) for message length 1; the two other components come from further dealt polynomials
	var extraPoly [][]*math.Zr
	var extraShares [][]*math.Zr
	if a.name == "ps" {
		for k := 0; k < 2; k++ {
			pl, sh, _ := deal(a, p, n, t, 1)
			extraPoly = append(extraPoly, pl)
			extraShares = append(extraShares, sh)
		}
	}
	run := func(tampered int, delta *big.Int, vecID int, moved []*math.Zr, component int) {
		c := crossCase{Kind: "cross", Pkg: a.name, N: n, T: t, Vec: vecID, Tampered: tampered, Delta: delta.String(), Subsets: binom(n, t)}
		c.Panic = try(func() {
			var distinct [][]byte
			var tpk, want []byte
			if a.name == "bls" {
				c.Component = "pk"
				raw := make([][]byte, n)
				for i := range raw {
					raw[i] = gen.Mul(moved[i]).Bytes()
				}
				distinct, tpk = bls.VerifAssembleThresholdPublicKey(parties, t, raw)
				want = gen.Mul(secret).Bytes()
			} else {
				c.Component = []string{"X", "Y0", "Y1"}[component]
				comps := [][]*math.Zr{shares, extraShares[0], extraShares[1]}
				comps[component] = moved
				raw := make([][]byte, n)
				for i := range raw {
					pk := ps.PK{X: gen.Mul(comps[0][i]), Y: []*math.G2{gen.Mul(comps[1][i]), gen.Mul(comps[2][i])}}
					raw[i] = pk.Bytes()
				}
				distinct, tpk = ps.VerifAssembleThresholdPublicKey(parties, t, 1, raw)
				w := ps.PK{X: gen.Mul(secret), Y: []*math.G2{gen.Mul(extraPoly[0][0]), gen.Mul(extraPoly[1][0])}}
				want = w.Bytes()
			}
			c.Distinct = len(distinct)
			c.Accepted = len(distinct) <= 1
			c.TPKEqSecret = bytes.Equal(tpk, want)
		})
		emit(c)
	}
	run(0, big.NewInt(0), vec, shares, 0)
	for k := 1; k <= n; k++ {
		var delta *big.Int
		switch s {
		case 0:
			delta = big.NewInt(1)
		case 1:
			delta = new(big.Int).SetBytes(p.bytes(32))
			delta.Mod(delta, new(big.Int).Sub(r, big.NewInt(1)))
			delta.Add(delta, big.NewInt(1)) // 1..r-1
		default:
			delta = new(big.Int).Sub(r, big.NewInt(1))
		}
		moved := append([]*math.Zr{}, shares...)
		v := new(big.Int).Add(zint(shares[k-1]), delta)
		v.Mod(v, r)
		moved[k-1] = zrOf(a, v)
		run(k, delta, newVec(a, moved), moved, (k+s)%3)
	}
}
