package main

import (
	"context"
	"crypto/ecdsa"
	"crypto/ed25519"
	"crypto/x509"

	ecdsaAd "github.com/IBM/TSS/mpc/binance/ecdsa"
	eddsaAd "github.com/IBM/TSS/mpc/binance/eddsa"
)

// adapterParty is the surface of the two adapters' (unexported) party type that the harness drives:
// the real ClassifyMsg / OnMsg / Init / KeyGen / Sign plus the read-only verif hooks.
type adapterParty interface {
	ClassifyMsg(msgBytes []byte) (uint8, bool, error)
	OnMsg(msgBytes []byte, from uint16, broadcast bool)
	Init(parties []uint16, threshold int, sendMsg func(msg []byte, isBroadcast bool, to uint16))
	KeyGen(ctx context.Context) ([]byte, error)
	Sign(ctx context.Context, msgHash []byte) ([]byte, error)
	SetShareData(shareData []byte) error
	ThresholdPK() ([]byte, error)
	VerifInLen() int
	VerifInCap() int
	VerifDrainIn() (fromKeys [][]byte, fromIdx []int, types []string, bcast []bool)
}

type scheme struct {
	name     string
	newParty func(id uint16) adapterParty
	tables   func() (map[string]uint8, []string)
	verify   func(pk, digest, sig []byte) bool
}

// quiet logger: satisfies the Logger interface of both adapter packages; counts nothing, prints nothing
type nopLogger struct{}

func (nopLogger) Debugf(string, ...interface{}) {}
func (nopLogger) Warnf(string, ...interface{})  {}
func (nopLogger) Errorf(string, ...interface{}) {}

func schemeByName(name string) *scheme {
	switch name {
	case "ecdsa":
		return &scheme{
			name:     "ecdsa",
			newParty: func(id uint16) adapterParty { return ecdsaAd.NewParty(id, nopLogger{}) },
			tables:   ecdsaAd.VerifTables,
			verify: func(pk, digest, sig []byte) bool {
				k, err := x509.ParsePKIXPublicKey(pk)
				if err != nil {
					return false
				}
				ek, ok := k.(*ecdsa.PublicKey)
				if !ok {
					return false
				}
				return ecdsa.VerifyASN1(ek, digest, sig)
			},
		}
	case "eddsa":
		return &scheme{
			name:     "eddsa",
			newParty: func(id uint16) adapterParty { return eddsaAd.NewParty(id, nopLogger{}) },
			tables:   eddsaAd.VerifTables,
			verify: func(pk, digest, sig []byte) bool {
				if len(pk) != ed25519.PublicKeySize {
					return false
				}
				return ed25519.Verify(pk, digest, sig)
			},
		}
	}
	return nil
}
