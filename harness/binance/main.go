package main

// Harness for property C19 (tss-lib adapters of /repo/mpc/binance/{ecdsa,eddsa}).
//   binance capture  -scheme eddsa|ecdsa -mode live|preparams|shares -seed S -corpus DIR -out FILE
//   binance probe    -scheme ...          (single observations used by --replay)
// One JSON object per line; every random choice comes from the splitmix64 stream seeded by -seed
// (the protocol's own randomness is crypto/rand inside tss-lib: message *contents* differ between runs,
// the observables compared by the check -- type URL, routing flag, classification, queueing decision -- do not).

import (
	"bufio"
	"encoding/json"
	"flag"
	"fmt"
	"os"
	"sync"
)

var (
	out    *bufio.Writer
	outMu  sync.Mutex
	corpus string
)

func emit(v interface{}) {
	b, err := json.Marshal(v)
	if err != nil {
		panic(err)
	}
	outMu.Lock()
	out.Write(b)
	out.WriteByte('\n')
	outMu.Unlock()
}

func main() {
	if len(os.Args) < 2 {
		fmt.Fprintln(os.Stderr, "usage: binance <cmd> [flags]")
		os.Exit(2)
	}
	cmd := os.Args[1]
	fs := flag.NewFlagSet(cmd, flag.ExitOnError)
	seed := fs.Uint64("seed", 1, "PRNG seed")
	schemeName := fs.String("scheme", "eddsa", "eddsa | ecdsa")
	mode := fs.String("mode", "live", "live: real KeyGen of the adapter; preparams: ECDSA key generation by tss-lib directly with stored Paillier/safe-prime material; shares: skip key generation, stored key shares")
	count := fs.Int("n", 200, "number of malformed inputs")
	corp := fs.String("corpus", "", "corpus directory (stored ECDSA pre-parameters / key shares)")
	outPath := fs.String("out", "", "output file (JSON lines); default stdout")
	extra := fs.String("x", "", "command-specific argument")
	fs.Parse(os.Args[2:])
	corpus = *corp
	f := os.Stdout
	if *outPath != "" {
		var err error
		f, err = os.Create(*outPath)
		if err != nil {
			panic(err)
		}
		defer f.Close()
	}
	out = bufio.NewWriterSize(f, 1<<20)
	defer out.Flush()
	sc := schemeByName(*schemeName)
	if sc == nil {
		fmt.Fprintln(os.Stderr, "unknown scheme", *schemeName)
		os.Exit(2)
	}
	r := newPRNG(*seed)
	switch cmd {
	case "capture":
		if !capture(sc, *mode, r, *count, *extra) {
			out.Flush()
			os.Exit(3)
		}
	case "probe":
		probe(sc, *extra)
	case "extract-preparams":
		extractPreParams(*extra)
	default:
		fmt.Fprintln(os.Stderr, "unknown command", cmd)
		os.Exit(2)
	}
}
