package main

import (
	"bytes"
	"context"
	"crypto/elliptic"
	"encoding/hex"
	"encoding/json"
	"fmt"
	"math/big"
	"os"
	"path/filepath"
	"sort"
	"strings"
	"sync"
	"time"

	ecdsaAd "github.com/IBM/TSS/mpc/binance/ecdsa"
	"github.com/bnb-chain/tss-lib/v2/ecdsa/keygen"
	"github.com/bnb-chain/tss-lib/v2/tss"
	"google.golang.org/protobuf/proto"
	"google.golang.org/protobuf/types/known/anypb"
)

// ---------------------------------------------------------------------------------------------- records

type jTables struct {
	Kind      string           `json:"kind"` // "tables"
	Scheme    string           `json:"scheme"`
	Rounds    map[string]uint8 `json:"rounds"`
	Broadcast []string         `json:"broadcast"`
	InCap     int              `json:"in_cap"`
}

type jCls struct {
	By    uint16 `json:"by"`
	Round uint8  `json:"round"`
	Bcast bool   `json:"bcast"`
	Err   bool   `json:"err"`
	Panic bool   `json:"panic"`
}

type jMsg struct {
	Kind     string `json:"kind"` // "msg"
	Scheme   string `json:"scheme"`
	Phase    string `json:"phase"`
	Via      string `json:"via"` // adapter: sendMsg callback of the real adapter; library: tss-lib party driven by the harness
	Run      int    `json:"run"`
	N        int    `json:"n"`
	T        int    `json:"t"`
	From     uint16 `json:"from"`
	To       uint16 `json:"to"`
	URL      string `json:"url"`
	LibBcast bool   `json:"lib_bcast"`
	Len      int    `json:"len"`
	Cls      []jCls `json:"cls"`
}

type jRun struct {
	Kind     string   `json:"kind"` // "keygen" | "sign"
	Scheme   string   `json:"scheme"`
	Via      string   `json:"via"`
	Run      int      `json:"run"`
	N        int      `json:"n"`
	T        int      `json:"t"`
	IDs      []uint16 `json:"ids"`
	Signers  []uint16 `json:"signers,omitempty"`
	Expect   string   `json:"expect,omitempty"` // sign | refuse
	Reinit   string   `json:"reinit,omitempty"` // the party objects served another committee before this run: how
	PrevIDs  []uint16 `json:"prev_ids,omitempty"`
	Ok       bool     `json:"ok"`
	ErrClass string   `json:"err_class"` // "" | timeout | digest_mismatch | other
	ErrText  string   `json:"err_text,omitempty"`
	Seconds  float64  `json:"seconds"`
	// sign only
	Digest    string `json:"digest,omitempty"`
	DigestLen int    `json:"digest_len"`
	Sig       string `json:"sig,omitempty"`
	PK        string `json:"pk,omitempty"`
	SigsEqual bool   `json:"sigs_equal"`
	VerD      bool   `json:"verifies_d"`        // signature verifies for the requested digest
	VerStrip  bool   `json:"verifies_stripped"` // ... for the digest without its leading zero bytes
	VerFlip   bool   `json:"verifies_flipped"`  // ... for the digest with one bit of its first byte flipped (must be false)
	HashToInt string `json:"hash_to_int,omitempty"`
}

type jOn struct {
	Kind      string     `json:"kind"` // "onmsg"
	Scheme    string     `json:"scheme"`
	Phase     string     `json:"phase"` // keygen | signing: message captured in that phase; locate: session/sender grid for the slot lookup
	URL       string     `json:"url"`
	IDs       []uint16   `json:"ids"` // the receiver's session, sorted by key (= tss-lib's slot order)
	Self      uint16     `json:"self"`
	Prev      [][]uint16 `json:"prev,omitempty"`   // re-initialised party: the committees of its earlier Init calls, oldest first
	Primed    []uint16   `json:"primed,omitempty"` // ... and the senders it had received a message from before the last Init
	RealFrom  uint16     `json:"real_from"`
	From      uint16     `json:"from"` // transport sender handed to OnMsg
	Member    bool       `json:"member"`
	BcastIn   bool       `json:"bcast_in"`
	Parsed    bool       `json:"parsed"` // tss.ParseWireMessage accepts the bytes (independently of the adapter)
	Panic     bool       `json:"panic"`
	Enq       int        `json:"enq"`
	AttrKey   string     `json:"attr_key"` // decimal; sender the queued message is attributed to
	AttrIdx   int        `json:"attr_idx"`
	AttrType  string     `json:"attr_type"`
	AttrBcast bool       `json:"attr_bcast"`
	Hex       string     `json:"hex,omitempty"`
}

type jMal struct {
	Kind     string   `json:"kind"` // "mal"
	Scheme   string   `json:"scheme"`
	What     string   `json:"what"`
	Hex      string   `json:"hex"`
	AnyOk    bool     `json:"any_ok"` // bytes decode as a protobuf Any (same decoder the adapter uses)
	URLHex   string   `json:"url_hex"`
	ClsPanic bool     `json:"cls_panic"`
	ClsErr   bool     `json:"cls_err"`
	ClsRound uint8    `json:"cls_round"`
	ClsBcast bool     `json:"cls_bcast"`
	From     uint16   `json:"from"`
	Parsed   bool     `json:"parsed"`
	OnPanic  bool     `json:"on_panic"`
	OnEnq    int      `json:"on_enq"`
	AttrKey  string   `json:"attr_key"`
	AttrIdx  int      `json:"attr_idx"`
	IDs      []uint16 `json:"ids"`
}

// ---------------------------------------------------------------------------------------------- helpers

func typeURL(b []byte) (string, bool) {
	a := &anypb.Any{}
	if err := proto.Unmarshal(b, a); err != nil {
		return "", false
	}
	return a.TypeUrl, true
}

func partyID(id uint16) *tss.PartyID {
	return tss.NewPartyID(fmt.Sprintf("%d", id), "", big.NewInt(int64(id)))
}

func parses(b []byte, from uint16, bc bool) (ok bool) {
	defer func() {
		if r := recover(); r != nil {
			ok = false
		}
	}()
	_, err := tss.ParseWireMessage(b, partyID(from), bc)
	return err == nil
}

func classify(p adapterParty, by uint16, b []byte) (c jCls) {
	c.By = by
	defer func() {
		if r := recover(); r != nil {
			c.Panic = true
		}
	}()
	r, bc, err := p.ClassifyMsg(b)
	c.Round, c.Bcast, c.Err = r, bc, err != nil
	return
}

func onMsg(p adapterParty, b []byte, from uint16, bc bool) (panicked bool) {
	defer func() {
		if r := recover(); r != nil {
			panicked = true
		}
	}()
	p.OnMsg(b, from, bc)
	return false
}

func sorted16(xs []uint16) []uint16 {
	r := append([]uint16{}, xs...)
	sort.Slice(r, func(i, j int) bool { return r[i] < r[j] })
	return r
}

func has16(xs []uint16, x uint16) bool {
	for _, y := range xs {
		if x == y {
			return true
		}
	}
	return false
}

func errClass(err error) string {
	if err == nil {
		return ""
	}
	s := err.Error()
	switch {
	case strings.Contains(s, "timed out"):
		return "timeout"
	case strings.Contains(s, "message we requested to sign"):
		return "digest_mismatch"
	}
	return "other"
}

// ---------------------------------------------------------------------------------------------- recorder

type sample struct {
	phase, url string
	bytes      []byte
	from       uint16
	libBcast   bool
	ids        []uint16
	t          int
}

type recorder struct {
	mu      sync.Mutex
	samples map[string]*sample
	order   []string
	nmsg    int
}

func newRecorder() *recorder { return &recorder{samples: map[string]*sample{}} }

func (r *recorder) add(m jMsg, b []byte, ids []uint16, t int) {
	emit(m)
	r.mu.Lock()
	defer r.mu.Unlock()
	r.nmsg++
	k := m.Phase + "|" + m.URL
	if _, ok := r.samples[k]; !ok {
		r.samples[k] = &sample{phase: m.Phase, url: m.URL, bytes: append([]byte{}, b...), from: m.From, libBcast: m.LibBcast, ids: ids, t: t}
		r.order = append(r.order, k)
	}
}

func (r *recorder) sorted() []*sample {
	r.mu.Lock()
	defer r.mu.Unlock()
	ks := append([]string{}, r.order...)
	sort.Strings(ks)
	var res []*sample
	for _, k := range ks {
		res = append(res, r.samples[k])
	}
	return res
}

// ---------------------------------------------------------------------------------------------- adapter network

// In-process transport between real adapter parties.  As threshold.Scheme does, the receiver classifies the
// bytes with its own ClassifyMsg and hands its own broadcast verdict to OnMsg; the sender's routing flag
// (tss-lib's MessageRouting.IsBroadcast, as passed by the adapter to the sendMsg callback) is only recorded.
type netw struct {
	sc      *scheme
	phase   string
	run     int
	t       int
	ids     []uint16
	parties map[uint16]adapterParty
	rec     *recorder
	reuse   map[uint16]adapterParty         // party objects that already served an earlier session (re-initialised, not re-created)
	prime   func(id uint16, p adapterParty) // applied to freshly created objects before Init
}

func (nw *netw) sender(src uint16) func([]byte, bool, uint16) {
	return func(b []byte, libBcast bool, to uint16) {
		url, _ := typeURL(b)
		m := jMsg{Kind: "msg", Scheme: nw.sc.name, Phase: nw.phase, Via: "adapter", Run: nw.run, N: len(nw.ids), T: nw.t,
			From: src, To: to, URL: url, LibBcast: libBcast, Len: len(b)}
		var dsts []uint16
		if libBcast {
			for _, d := range nw.ids {
				if d != src {
					dsts = append(dsts, d)
				}
			}
		} else {
			dsts = []uint16{to}
		}
		type deliv struct {
			p  adapterParty
			bc bool
		}
		var ds []deliv
		for _, d := range dsts {
			p, ok := nw.parties[d]
			if !ok {
				continue
			}
			c := classify(p, d, b)
			m.Cls = append(m.Cls, c)
			if !c.Err && !c.Panic {
				ds = append(ds, deliv{p, c.Bcast})
			}
		}
		nw.rec.add(m, b, nw.ids, nw.t)
		for _, d := range ds {
			onMsg(d.p, b, src, d.bc)
		}
	}
}

func (nw *netw) build() {
	nw.parties = map[uint16]adapterParty{}
	for _, id := range nw.ids {
		if p, ok := nw.reuse[id]; ok {
			nw.parties[id] = p
			continue
		}
		nw.parties[id] = nw.sc.newParty(id)
		if nw.prime != nil {
			nw.prime(id, nw.parties[id])
		}
	}
	for _, id := range nw.ids {
		nw.parties[id].Init(nw.ids, nw.t, nw.sender(id))
	}
}

// keygenLive: the adapter's real KeyGen on every party.
func keygenLive(sc *scheme, rec *recorder, run int, ids []uint16, t int, timeout time.Duration) (map[uint16][]byte, jRun, map[uint16]adapterParty) {
	nw := &netw{sc: sc, phase: "keygen", run: run, t: t, ids: ids, rec: rec}
	nw.build()
	res := jRun{Kind: "keygen", Scheme: sc.name, Via: "adapter", Run: run, N: len(ids), T: t, IDs: ids}
	t0 := time.Now()
	ctx, cancel := context.WithTimeout(context.Background(), timeout)
	defer cancel()
	shares := map[uint16][]byte{}
	var mu sync.Mutex
	var firstErr error
	var wg sync.WaitGroup
	for _, id := range ids {
		wg.Add(1)
		go func(id uint16) {
			defer wg.Done()
			s, err := nw.parties[id].KeyGen(ctx)
			mu.Lock()
			defer mu.Unlock()
			if err != nil {
				if firstErr == nil {
					firstErr = err
				}
				return
			}
			shares[id] = s
		}(id)
	}
	wg.Wait()
	res.Seconds = time.Since(t0).Seconds()
	res.Ok = firstErr == nil && len(shares) == len(ids)
	res.ErrClass = errClass(firstErr)
	if firstErr != nil {
		res.ErrText = firstErr.Error()
	}
	return shares, res, nw.parties
}

// signLive: the adapter's real Sign on every signer.
type signOpts struct {
	reuse map[uint16]adapterParty
	prime func(id uint16, p adapterParty)
}

func signLive(sc *scheme, rec *recorder, run int, ids, signers []uint16, t int, shares map[uint16][]byte, digest []byte, timeout time.Duration, opts ...signOpts) jRun {
	nw := &netw{sc: sc, phase: "signing", run: run, t: t, ids: signers, rec: rec}
	if len(opts) > 0 {
		nw.reuse, nw.prime = opts[0].reuse, opts[0].prime
	}
	nw.build()
	res := jRun{Kind: "sign", Scheme: sc.name, Via: "adapter", Run: run, N: len(ids), T: t, IDs: ids, Signers: signers,
		Digest: hex.EncodeToString(digest), DigestLen: len(digest)}
	if sc.name == "ecdsa" {
		res.HashToInt = ecdsaAd.VerifHashToInt(digest).String()
	}
	for _, id := range signers {
		if err := nw.parties[id].SetShareData(shares[id]); err != nil {
			res.ErrClass, res.ErrText = "other", "SetShareData: "+err.Error()
			return res
		}
	}
	t0 := time.Now()
	ctx, cancel := context.WithTimeout(context.Background(), timeout)
	defer cancel()
	var mu sync.Mutex
	var sigs [][]byte
	var firstErr error
	var wg sync.WaitGroup
	for _, id := range signers {
		wg.Add(1)
		go func(id uint16) {
			defer wg.Done()
			s, err := nw.parties[id].Sign(ctx, digest)
			mu.Lock()
			defer mu.Unlock()
			if err != nil {
				if firstErr == nil || errClass(err) == "digest_mismatch" {
					firstErr = err
				}
				return
			}
			sigs = append(sigs, s)
		}(id)
	}
	wg.Wait()
	res.Seconds = time.Since(t0).Seconds()
	res.ErrClass = errClass(firstErr)
	if firstErr != nil {
		res.ErrText = firstErr.Error()
	}
	if len(sigs) == 0 {
		return res
	}
	res.Ok = firstErr == nil && len(sigs) == len(signers)
	res.SigsEqual = true
	for _, s := range sigs {
		if !bytes.Equal(s, sigs[0]) {
			res.SigsEqual = false
		}
	}
	res.Sig = hex.EncodeToString(sigs[0])
	pk, err := nw.parties[signers[0]].ThresholdPK()
	if err != nil {
		res.Ok, res.ErrClass, res.ErrText = false, "other", "ThresholdPK: "+err.Error()
		return res
	}
	res.PK = hex.EncodeToString(pk)
	res.VerD = sc.verify(pk, digest, sigs[0])
	stripped := bytes.TrimLeft(digest, "\x00")
	res.VerStrip = sc.verify(pk, stripped, sigs[0])
	fl := append([]byte{}, digest...)
	if len(fl) == 0 {
		fl = []byte{1}
	} else {
		fl[0] ^= 1
	}
	res.VerFlip = sc.verify(pk, fl, sigs[0])
	return res
}

// ---------------------------------------------------------------------------------------------- ECDSA key generation by tss-lib directly

// The adapter's KeyGen samples safe primes (minutes).  With stored Paillier / safe-prime material the same tss-lib
// key-generation protocol (P-256, the adapter's party identifiers) is run by the harness in seconds; every emitted
// message is classified by real adapter instances and delivered with the receiver's own broadcast verdict.
func loadPreParams(n int) ([]keygen.LocalPreParams, error) {
	var res []keygen.LocalPreParams
	bz, err := os.ReadFile(filepath.Join(corpus, "ecdsa_preparams.json"))
	if err != nil {
		return nil, err
	}
	if err := json.Unmarshal(bz, &res); err != nil {
		return nil, err
	}
	if len(res) < n {
		return nil, fmt.Errorf("only %d stored pre-parameter sets, %d needed", len(res), n)
	}
	return res[:n], nil
}

func extractPreParams(dst string) {
	keys, _, err := keygen.LoadKeygenTestFixtures(5)
	if err != nil {
		panic(err)
	}
	var res []keygen.LocalPreParams
	for _, k := range keys {
		res = append(res, k.LocalPreParams)
	}
	bz, _ := json.Marshal(res)
	if err := os.WriteFile(dst, bz, 0o644); err != nil {
		panic(err)
	}
}

func keygenDirectECDSA(sc *scheme, rec *recorder, run int, ids []uint16, t int, timeout time.Duration) (map[uint16][]byte, jRun) {
	res := jRun{Kind: "keygen", Scheme: sc.name, Via: "library", Run: run, N: len(ids), T: t, IDs: ids}
	pre, err := loadPreParams(len(ids))
	if err != nil {
		res.ErrClass, res.ErrText = "other", err.Error()
		return nil, res
	}
	t0 := time.Now()
	var unsorted tss.UnSortedPartyIDs
	for _, id := range ids {
		unsorted = append(unsorted, partyID(id))
	}
	pids := tss.SortPartyIDs(unsorted)
	pctx := tss.NewPeerContext(pids)
	n := len(pids)
	// real adapter instances, idle: they only classify
	cls := map[uint16]adapterParty{}
	for _, id := range ids {
		p := sc.newParty(id)
		p.Init(ids, t, func([]byte, bool, uint16) {})
		cls[id] = p
	}
	key16 := func(p *tss.PartyID) uint16 { return uint16(new(big.Int).SetBytes(p.Key).Uint64()) }
	outCh := make(chan tss.Message, 10*n*n)
	type endT struct {
		id   uint16
		data *keygen.LocalPartySaveData
	}
	endAll := make(chan endT, n)
	parties := map[uint16]tss.Party{}
	for i, pid := range pids {
		params := tss.NewParameters(elliptic.P256(), pctx, pid, n, t)
		endCh := make(chan *keygen.LocalPartySaveData, 1)
		id := key16(pid)
		parties[id] = keygen.NewLocalParty(params, outCh, endCh, pre[i])
		go func() { d := <-endCh; endAll <- endT{id, d} }()
	}
	errCh := make(chan *tss.Error, 4*n)
	for _, p := range parties {
		go func(p tss.Party) {
			if err := p.Start(); err != nil {
				errCh <- err
			}
		}(p)
	}
	shares := map[uint16][]byte{}
	deadline := time.After(timeout)
	var firstErr error
loop:
	for len(shares) < n {
		select {
		case <-deadline:
			firstErr = fmt.Errorf("DKG timed out (harness)")
			break loop
		case e := <-errCh:
			firstErr = e
			break loop
		case e := <-endAll:
			bz, err := json.Marshal(*e.data)
			if err != nil {
				firstErr = err
				break loop
			}
			shares[e.id] = bz
		case msg := <-outCh:
			b, routing, err := msg.WireBytes()
			if err != nil {
				firstErr = err
				break loop
			}
			src := key16(msg.GetFrom())
			url, _ := typeURL(b)
			var dsts []uint16
			to := uint16(0)
			if routing.IsBroadcast {
				for _, d := range ids {
					if d != src {
						dsts = append(dsts, d)
					}
				}
				m := jMsg{Kind: "msg", Scheme: sc.name, Phase: "keygen", Via: "library", Run: run, N: n, T: t, From: src, To: to,
					URL: url, LibBcast: true, Len: len(b)}
				for _, d := range dsts {
					m.Cls = append(m.Cls, classify(cls[d], d, b))
				}
				rec.add(m, b, ids, t)
				for i, d := range dsts {
					if !m.Cls[i].Err && !m.Cls[i].Panic {
						go func(d uint16, bc bool) {
							if _, err := parties[d].UpdateFromBytes(b, pids.FindByKey(big.NewInt(int64(src))), bc); err != nil {
								errCh <- err
							}
						}(d, m.Cls[i].Bcast)
					}
				}
			} else {
				for _, tp := range msg.GetTo() {
					d := key16(tp)
					m := jMsg{Kind: "msg", Scheme: sc.name, Phase: "keygen", Via: "library", Run: run, N: n, T: t, From: src, To: d,
						URL: url, LibBcast: false, Len: len(b)}
					c := classify(cls[d], d, b)
					m.Cls = []jCls{c}
					rec.add(m, b, ids, t)
					if !c.Err && !c.Panic {
						go func(d uint16, bc bool) {
							if _, err := parties[d].UpdateFromBytes(b, pids.FindByKey(big.NewInt(int64(src))), bc); err != nil {
								errCh <- err
							}
						}(d, c.Bcast)
					}
				}
			}
		}
	}
	res.Seconds = time.Since(t0).Seconds()
	res.Ok = firstErr == nil && len(shares) == n
	res.ErrClass = errClass(firstErr)
	if firstErr != nil {
		res.ErrText = firstErr.Error()
	}
	return shares, res
}
