package main

import (
	"encoding/hex"
	"math/big"
	"strings"
	"time"

	"google.golang.org/protobuf/proto"
	"google.golang.org/protobuf/types/known/anypb"
)

type cfg struct{ n, t int }

var idPool = []uint16{2, 7, 9, 255, 256, 257, 513, 4095, 32767, 32768, 65279, 65280}

func chooseIDs(r *prng, n int, ci int) []uint16 {
	var ids []uint16
	if ci%2 == 0 {
		for i := 1; i <= n; i++ {
			ids = append(ids, uint16(i))
		}
		return ids
	}
	// boundary identifiers; 65534 is the largest identifier OnMsg accepts (it compares with MaxUint16 using >=)
	ids = append(ids, 65534)
	for len(ids) < n {
		x := idPool[r.intn(len(idPool))]
		if !has16(ids, x) {
			ids = append(ids, x)
		}
	}
	return sorted16(ids)
}

func digests(r *prng, sc *scheme, ci int, thorough bool) [][]byte {
	z := func(k int, rest int) []byte { return append(make([]byte, k), r.bytes(rest)...) }
	ff := make([]byte, 32)
	for i := range ff {
		ff[i] = 0xff
	}
	if sc.name == "eddsa" {
		ds := [][]byte{r.bytes(32), z(1, 31), make([]byte, 32), ff, r.bytes(20), r.bytes(64), z(2, 30), z(1, 19)}
		if ci > 0 && !thorough {
			ds = [][]byte{r.bytes(32), z(1, 31), z(3, 29), r.bytes(33)}
		}
		if thorough {
			for i := 0; i < 8; i++ {
				ds = append(ds, r.bytes(1+r.intn(70)), z(1+r.intn(4), 28))
			}
		}
		return ds
	}
	ds := [][]byte{r.bytes(32), z(1, 31)}
	if ci == 0 {
		ds = append(ds, r.bytes(64), r.bytes(20))
	}
	if thorough {
		ds = append(ds, z(2, 30), r.bytes(33), r.bytes(31))
		if ci == 0 {
			// hashToInt(ff..ff) >= the group order: tss-lib refuses to start ("hashed message is not valid"); the adapter's
			// Sign then waits for its context (observation for C11); recognised by the caller through refuses()
			ds = append(ds, ff)
		}
	}
	return ds
}

// refuses: digests for which no signature may come back at all
func refuses(sc *scheme, d []byte) bool {
	if sc.name != "ecdsa" || len(d) < 32 {
		return false
	}
	for _, b := range d[:32] {
		if b != 0xff {
			return false
		}
	}
	return true
}

func pickSigners(r *prng, ids []uint16, t int, all bool) []uint16 {
	if all {
		return ids
	}
	var s []uint16
	for len(s) < t+1 {
		x := ids[r.intn(len(ids))]
		if !has16(s, x) {
			s = append(s, x)
		}
	}
	return sorted16(s)
}

func capture(sc *scheme, mode string, r *prng, nmal int, extra string) bool {
	thorough := strings.Contains(extra, "thorough")
	rounds, bc := sc.tables()
	emit(jTables{Kind: "tables", Scheme: sc.name, Rounds: rounds, Broadcast: bc, InCap: sc.newParty(1).VerifInCap()})
	rec := newRecorder()
	ok := true
	// honest runs take 0.05-0.15 s (EdDSA), 0.2-0.6 s (ECDSA signing), 2-4 s (ECDSA key generation with stored primes)
	kgTimeout, signTimeout := 20*time.Second, 20*time.Second
	if sc.name == "ecdsa" {
		kgTimeout = 60 * time.Second
		if mode == "live" {
			kgTimeout = 25 * time.Minute
		}
		signTimeout = 40 * time.Second
	}
	configs := []cfg{{3, 1}, {4, 2}}
	if strings.Contains(extra, "one") {
		configs = configs[:1]
	}
	run := 0
	for ci, c := range configs {
		ids := chooseIDs(r, c.n, ci)
		var shares map[uint16][]byte
		var kr jRun
		var kgParties map[uint16]adapterParty
		run++
		if sc.name == "ecdsa" && mode == "preparams" {
			shares, kr = keygenDirectECDSA(sc, rec, run, ids, c.t, kgTimeout)
		} else {
			shares, kr, kgParties = keygenLive(sc, rec, run, ids, c.t, kgTimeout)
		}
		emit(kr)
		if !kr.Ok {
			ok = false
			break // a run that does not finish is reported as such; the remaining runs would only wait for their timeouts
		}
		for di, d := range digests(r, sc, ci, thorough) {
			if !ok {
				break
			}
			run++
			signers := pickSigners(r, ids, c.t, di%2 == 0)
			to, expect := signTimeout, "sign"
			if refuses(sc, d) {
				to, expect = 6*time.Second, "refuse"
			}
			sr := signLive(sc, rec, run, ids, signers, c.t, shares, d, to)
			sr.Expect = expect
			emit(sr)
			if !sr.Ok && expect == "sign" {
				ok = false
			}
		}
		// The same party objects serve a second session with ANOTHER committee: the signers are the members without the
		// smallest identifier, so every remaining member sits one slot lower than during key generation.  Objects that
		// really ran KeyGen are re-initialised (as the package's own test does, there with the same committee); where key
		// generation was run by the library directly the objects first serve the full committee (Init + one message
		// from every other member) and are then re-initialised.
		if ok && len(ids) > c.t+1 {
			run++
			signers := sorted16(ids)[1:]
			opts := signOpts{}
			how := "objects primed with the key-generation committee (Init + one message from every member), then Init(signers)"
			if kgParties != nil {
				opts.reuse = kgParties
				how = "the objects that ran KeyGen among the full committee are re-initialised with the signers"
			} else {
				full := append([]uint16{}, ids...)
				opts.prime = func(id uint16, p adapterParty) { primeParty(sc, p, id, full, c.t, full) }
			}
			sr := signLive(sc, rec, run, ids, signers, c.t, shares, r.bytes(32), signTimeout, opts)
			sr.Expect, sr.Reinit, sr.PrevIDs = "sign", how, sorted16(ids)
			emit(sr)
			if !sr.Ok {
				ok = false
			}
		}
	}
	out.Flush()
	grid(sc, rec, r)
	locateGrid(sc, rec, r, thorough)
	reinitGrid(sc, r, thorough)
	malformed(sc, rec, r, nmal)
	return ok
}

// grid: every captured message type into the real OnMsg of an idle receiver, with the transport sender ranging over the
// session identifiers, the boundary identifiers and a few random ones.  The bytes carry no sender of their own
// (tss-lib's wire format is the bare protobuf Any); OnMsg attributes them to the transport sender.
func grid(sc *scheme, rec *recorder, r *prng) {
	for _, s := range rec.sorted() {
		var self uint16
		for _, id := range s.ids {
			if id != s.from {
				self = id
				break
			}
		}
		p := sc.newParty(self)
		p.Init(s.ids, s.t, func([]byte, bool, uint16) {})
		xs := append([]uint16{}, s.ids...)
		for _, x := range []uint16{0, 1, 65534, 65535, r.id16(), r.id16(), uint16(r.next())} {
			if !has16(xs, x) {
				xs = append(xs, x)
			}
		}
		c := classify(p, self, s.bytes)
		for _, x := range xs {
			flags := []bool{c.Bcast}
			if x == s.from {
				flags = append(flags, !c.Bcast)
			}
			for _, bcIn := range flags {
				o := jOn{Kind: "onmsg", Scheme: sc.name, Phase: s.phase, URL: s.url, IDs: sorted16(s.ids), Self: self, RealFrom: s.from, From: x,
					Member: has16(s.ids, x), BcastIn: bcIn, Parsed: parses(s.bytes, x, bcIn)}
				o.Panic = onMsg(p, s.bytes, x, bcIn)
				keys, idx, types, bcs := p.VerifDrainIn()
				o.Enq = len(keys)
				o.AttrIdx = -1
				if len(keys) > 0 {
					o.AttrKey = new(big.Int).SetBytes(keys[0]).String()
					o.AttrIdx, o.AttrType, o.AttrBcast = idx[0], types[0], bcs[0]
				}
				emit(o)
			}
		}
	}
}

// locateGrid: the slot a queued message is filed under.  OnMsg sets From.Index = locatePartyIndex(transport sender) and
// tss-lib files every message under that index without looking at the key again, so the index IS the sender binding:
// it must be the position of the party whose key equals the sender's, and -1 (refused by tss-lib) for everybody else.
// Sessions with gaps, not starting at the smallest identifier, with the boundary identifiers; senders = every member
// and non-members below, between and above the members.
func locateGrid(sc *scheme, rec *recorder, r *prng, thorough bool) {
	sessions := [][]uint16{{1, 3, 5}, {2, 7, 9}, {0, 255, 256, 65535}, {255, 256, 4095}, {10, 20, 30, 40}, {0, 1, 2},
		{65533, 65534, 65535}, {3, 4}, {1, 2, 3, 4, 5}, {32767, 32768, 65279, 65280}}
	nrand := 6
	if thorough {
		nrand = 40
	}
	for i := 0; i < nrand; i++ {
		sessions = append(sessions, sorted16(r.distinctIDs(2+r.intn(5), i%3 == 0)))
	}
	// one well-formed message per routing class: built from the tables (empty content decodes), plus captured ones
	rounds, bcs := sc.tables()
	type wire struct {
		url string
		b   []byte
	}
	var msgs []wire
	if len(bcs) > 0 {
		msgs = append(msgs, wire{bcs[0], anyBytes(bcs[0], nil)})
	}
	var urls []string
	for u := range rounds {
		urls = append(urls, u)
	}
	sortStrings(urls)
	for _, u := range urls {
		if !hasStr(bcs, u) {
			msgs = append(msgs, wire{u, anyBytes(u, nil)})
			break
		}
	}
	for _, s := range rec.sorted() {
		if len(msgs) >= 4 {
			break
		}
		msgs = append(msgs, wire{s.url, s.bytes})
	}
	for si, ids := range sessions {
		self := ids[0]
		if si%2 == 1 {
			self = ids[len(ids)-1]
		}
		p := sc.newParty(self)
		p.Init(ids, 1, func([]byte, bool, uint16) {})
		var xs []uint16
		add := func(x uint16) {
			if !has16(xs, x) {
				xs = append(xs, x)
			}
		}
		for _, m := range ids {
			add(m)
			if m > 0 {
				add(m - 1)
			}
			if m < 65535 {
				add(m + 1)
			}
		}
		for _, x := range []uint16{0, 255, 256, 65534, 65535, r.id16(), uint16(r.next())} {
			add(x)
		}
		// between two members that are more than 2 apart: the midpoint
		for i := 0; i+1 < len(ids); i++ {
			if ids[i+1]-ids[i] > 2 {
				add(ids[i] + (ids[i+1]-ids[i])/2)
			}
		}
		w := msgs[si%len(msgs)]
		c := classify(p, self, w.b)
		for _, x := range xs {
			o := jOn{Kind: "onmsg", Scheme: sc.name, Phase: "locate", URL: w.url, IDs: sorted16(ids), Self: self, RealFrom: x, From: x,
				Member: has16(ids, x), BcastIn: c.Bcast, Parsed: parses(w.b, x, c.Bcast)}
			o.Panic = onMsg(p, w.b, x, c.Bcast)
			keys, idx, types, bcf := p.VerifDrainIn()
			o.Enq = len(keys)
			o.AttrIdx = -1
			if len(keys) > 0 {
				o.AttrKey = new(big.Int).SetBytes(keys[0]).String()
				o.AttrIdx, o.AttrType, o.AttrBcast = idx[0], types[0], bcf[0]
			}
			emit(o)
		}
	}
}

// wellFormed: a message of the first broadcast-class type of the tables with empty content (decodes, is queued)
func wellFormed(sc *scheme) (string, []byte) {
	_, bcs := sc.tables()
	if len(bcs) == 0 {
		return "", nil
	}
	return bcs[0], anyBytes(bcs[0], nil)
}

// primeParty: the object serves a session: Init(committee) and one message from each of the given senders, consumed.
func primeParty(sc *scheme, p adapterParty, self uint16, committee []uint16, t int, senders []uint16) {
	p.Init(committee, t, func([]byte, bool, uint16) {})
	_, b := wellFormed(sc)
	for _, x := range senders {
		if x != self {
			onMsg(p, b, x, true)
		}
	}
	p.VerifDrainIn()
}

func senderSet(r *prng, committees ...[]uint16) []uint16 {
	var xs []uint16
	add := func(x uint16) {
		if !has16(xs, x) {
			xs = append(xs, x)
		}
	}
	for _, ids := range committees {
		for _, m := range ids {
			add(m)
			if m > 0 {
				add(m - 1)
			}
			if m < 65535 {
				add(m + 1)
			}
		}
	}
	for _, x := range []uint16{0, 255, 256, 65534, 65535, r.id16()} {
		add(x)
	}
	return xs
}

// reinitGrid: ONE party object taken through Init(A) -> messages from several senders -> Init(B) [-> Init(C)] and then the
// slot grid on the current committee.  A re-initialised object must behave like a fresh one: whatever it queues is filed
// under the slot the sender has in the CURRENT committee, an ex-member gets no slot.
func reinitGrid(sc *scheme, r *prng, thorough bool) {
	type scen struct {
		self uint16
		seq  [][]uint16
	}
	scens := []scen{
		{3, [][]uint16{{3, 5, 7}, {1, 3, 5, 7}}},                   // a smaller identifier joins: everybody moves up
		{5, [][]uint16{{1, 3, 5, 7}, {1, 5, 7}}},                   // a member leaves: the larger ones move down, 3 is an ex-member
		{2, [][]uint16{{2, 4, 6}, {2, 5, 6}}},                      // a member is replaced in place
		{6, [][]uint16{{2, 4, 6}, {2, 6, 9}}},                      // ... replaced by a larger one: 6 moves down
		{5, [][]uint16{{1, 2, 5}, {5, 10, 20}}},                    // disjoint apart from the receiver
		{256, [][]uint16{{0, 255, 256, 65535}, {255, 256, 65534}}}, // boundary identifiers
		{4, [][]uint16{{1, 2, 3, 4}, {3, 4}, {1, 2, 3, 4}}},        // shrink and grow back
		{1, [][]uint16{{1, 2, 3}, {1, 2, 3}}},                      // the same committee again (what the package's test does)
	}
	nrand := 4
	if thorough {
		nrand = 30
	}
	for i := 0; i < nrand; i++ {
		pool := r.distinctIDs(7, i%2 == 0)
		self := pool[0]
		var seq [][]uint16
		for k := 0; k < 2+r.intn(2); k++ {
			c := []uint16{self}
			for _, x := range pool[1:] {
				if r.chance(1, 2) {
					c = append(c, x)
				}
			}
			if len(c) < 2 {
				c = append(c, pool[1+r.intn(6)])
			}
			seq = append(seq, sorted16(c))
		}
		scens = append(scens, scen{self, seq})
	}
	url, b := wellFormed(sc)
	if b == nil {
		return
	}
	for _, sn := range scens {
		p := sc.newParty(sn.self)
		var prev [][]uint16
		var primed []uint16
		for k, com := range sn.seq {
			if k < len(sn.seq)-1 {
				// an earlier session: members and a few outsiders send
				snd := senderSet(r, com)
				primeParty(sc, p, sn.self, com, 1, snd)
				prev = append(prev, sorted16(com))
				for _, x := range snd {
					if !has16(primed, x) && x != sn.self {
						primed = append(primed, x)
					}
				}
				continue
			}
			p.Init(com, 1, func([]byte, bool, uint16) {})
			all := append([][]uint16{com}, sn.seq[:k]...)
			for _, x := range senderSet(r, all...) {
				o := jOn{Kind: "onmsg", Scheme: sc.name, Phase: "reinit", URL: url, IDs: sorted16(com), Self: sn.self, Prev: prev,
					Primed: sorted16(primed), RealFrom: x, From: x, Member: has16(com, x), BcastIn: true, Parsed: parses(b, x, true)}
				o.Panic = onMsg(p, b, x, true)
				keys, idx, types, bcf := p.VerifDrainIn()
				o.Enq = len(keys)
				o.AttrIdx = -1
				if len(keys) > 0 {
					o.AttrKey = new(big.Int).SetBytes(keys[0]).String()
					o.AttrIdx, o.AttrType, o.AttrBcast = idx[0], types[0], bcf[0]
				}
				emit(o)
			}
		}
	}
}

func hasStr(xs []string, x string) bool {
	for _, y := range xs {
		if x == y {
			return true
		}
	}
	return false
}

func anyBytes(url string, val []byte) []byte {
	b, err := proto.Marshal(&anypb.Any{TypeUrl: url, Value: val})
	if err != nil {
		panic(err)
	}
	return b
}

type malCase struct {
	what string
	b    []byte
}

func malformed(sc *scheme, rec *recorder, r *prng, nmal int) {
	var keep, pool []malCase
	rounds, _ := sc.tables()
	other := "eddsa"
	if sc.name == "eddsa" {
		other = "ecdsa"
	}
	orounds, _ := schemeByName(other).tables()
	var urls, ourls []string
	for u := range rounds {
		urls = append(urls, u)
	}
	for u := range orounds {
		ourls = append(ourls, u)
	}
	sortStrings(urls)
	sortStrings(ourls)
	samples := rec.sorted()
	short := func(v []byte) []byte {
		if len(v) > 48 {
			return v[:48]
		}
		return v
	}
	var val []byte
	if len(samples) > 0 {
		a := &anypb.Any{}
		if proto.Unmarshal(samples[0].bytes, a) == nil {
			val = short(a.Value)
		}
	}
	// every URL of both tables around foreign / short content, and without content
	for _, u := range urls {
		keep = append(keep, malCase{"url-own-short", anyBytes(u, val)}, malCase{"url-own-empty", anyBytes(u, nil)})
	}
	for _, u := range ourls {
		keep = append(keep, malCase{"url-other-scheme", anyBytes(u, val)})
	}
	for _, u := range []string{"", "type.googleapis.com/", "type.googleapis.com/binance.tsslib." + sc.name + ".resharing.DGRound1Message",
		"type.googleapis.com/binance.tsslib.MessageWrapper", "type.googleapis.com/google.protobuf.Any", "x"} {
		keep = append(keep, malCase{"url-unknown", anyBytes(u, val)})
	}
	keep = append(keep, malCase{"empty", []byte{}})
	for _, u := range urls {
		// single-character edits of a table URL
		for k := 0; k < 6; k++ {
			bs := []byte(u)
			switch k {
			case 0:
				bs[len(bs)-1] ^= 3 // ...Message1 <-> ...Message2, ...Message -> ...Messagf
			case 1:
				bs = append(bs, '1')
			case 2:
				bs = bs[:len(bs)-1]
			case 3:
				bs = []byte(strings.ToUpper(u))
			case 4:
				bs = []byte(strings.TrimPrefix(u, "type.googleapis.com/"))
			case 5:
				i := r.intn(len(bs))
				bs[i] ^= byte(1 << uint(r.intn(7)))
			}
			pool = append(pool, malCase{"url-edit", anyBytes(string(bs), val)})
		}
	}
	for _, s := range samples {
		a := &anypb.Any{}
		if proto.Unmarshal(s.bytes, a) != nil {
			continue
		}
		env := anyBytes(a.TypeUrl, short(a.Value))
		for k := 0; k <= len(env); k++ {
			pool = append(pool, malCase{"truncated", env[:k]})
		}
		for k := 0; k < 24; k++ {
			fl := append([]byte{}, env...)
			fl[r.intn(len(fl))] ^= byte(1 << uint(r.intn(8)))
			pool = append(pool, malCase{"bitflip", fl})
		}
	}
	for l := 0; l <= 40; l++ {
		pool = append(pool, malCase{"random", r.bytes(l)})
	}
	cases := keep
	if len(pool) > nmal {
		for i := 0; i < nmal; i++ {
			j := i + r.intn(len(pool)-i)
			pool[i], pool[j] = pool[j], pool[i]
		}
		pool = pool[:nmal]
	}
	cases = append(cases, pool...)
	ids := []uint16{1, 2, 3}
	p := sc.newParty(1)
	p.Init(ids, 1, func([]byte, bool, uint16) {})
	for _, c := range cases {
		m := jMal{Kind: "mal", Scheme: sc.name, What: c.what, Hex: hex.EncodeToString(c.b), From: 2}
		u, ok := typeURL(c.b)
		m.AnyOk, m.URLHex = ok, hex.EncodeToString([]byte(u))
		cl := classify(p, 1, c.b)
		m.ClsPanic, m.ClsErr, m.ClsRound, m.ClsBcast = cl.Panic, cl.Err, cl.Round, cl.Bcast
		m.Parsed = parses(c.b, 2, cl.Bcast)
		m.OnPanic = onMsg(p, c.b, 2, cl.Bcast)
		keys, idx, _, _ := p.VerifDrainIn()
		m.OnEnq = len(keys)
		m.IDs, m.AttrIdx = ids, -1
		if len(keys) > 0 {
			m.AttrKey = new(big.Int).SetBytes(keys[0]).String()
			m.AttrIdx = idx[0]
		}
		emit(m)
	}
}

func sortStrings(xs []string) {
	for i := 1; i < len(xs); i++ {
		for j := i; j > 0 && xs[j] < xs[j-1]; j-- {
			xs[j], xs[j-1] = xs[j-1], xs[j]
		}
	}
}

// probe: one observation on given bytes (hex in -x, optionally "hex:from"): used to replay a stored input by hand.
func probe(sc *scheme, arg string) {
	parts := strings.Split(arg, ":")
	b, err := hex.DecodeString(parts[0])
	if err != nil {
		panic(err)
	}
	from := uint16(2)
	if len(parts) > 1 {
		n, _ := new(big.Int).SetString(parts[1], 10)
		if n != nil {
			from = uint16(n.Uint64())
		}
	}
	p := sc.newParty(1)
	p.Init([]uint16{1, 2, 3}, 1, func([]byte, bool, uint16) {})
	m := jMal{Kind: "mal", Scheme: sc.name, What: "probe", Hex: parts[0], From: from}
	u, ok := typeURL(b)
	m.AnyOk, m.URLHex = ok, hex.EncodeToString([]byte(u))
	cl := classify(p, 1, b)
	m.ClsPanic, m.ClsErr, m.ClsRound, m.ClsBcast = cl.Panic, cl.Err, cl.Round, cl.Bcast
	m.Parsed = parses(b, from, cl.Bcast)
	m.OnPanic = onMsg(p, b, from, cl.Bcast)
	keys, idx, _, _ := p.VerifDrainIn()
	m.OnEnq = len(keys)
	m.IDs, m.AttrIdx = []uint16{1, 2, 3}, -1
	if len(keys) > 0 {
		m.AttrKey = new(big.Int).SetBytes(keys[0]).String()
		m.AttrIdx = idx[0]
	}
	emit(m)
}
