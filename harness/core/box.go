package main

import (
	"encoding/hex"
	"fmt"
	"sort"
	"time"

	"github.com/IBM/TSS/msg"
	. "github.com/IBM/TSS/types"
)

// C15 (and the sequential half of C14): the real msg.Box driven one operation at a time.

type jBMsg struct {
	Src   uint16 `json:"src"`
	Topic string `json:"topic"`
	Data  string `json:"data"`
}

type jBoxOp struct {
	Op       string   `json:"op"` // recv | other | send | tick
	Msg      *jBMsg   `json:"msg,omitempty"`
	Topic    string   `json:"topic,omitempty"`
	Handoffs []jBMsg  `json:"handoffs"`
	Forwards []string `json:"forwards"`
	Panic    bool     `json:"panic"`
	PanicV   string   `json:"panic_val,omitempty"`
}

type jBoxPending struct {
	Topic string  `json:"topic"`
	Msgs  []jBMsg `json:"msgs"`
}

type jBoxScenario struct {
	Kind     string              `json:"kind"`
	ID       int                 `json:"id"`
	Limit    int                 `json:"limit"`
	MaxT     int                 `json:"max_topics"`
	E        int                 `json:"expire_epochs"`
	Ops      []jBoxOp            `json:"ops"`
	Pending  []jBoxPending       `json:"fin_pending"`
	InFlight map[string][]string `json:"fin_inflight"`
	Started  []string            `json:"fin_started"`
	Epoch    uint64              `json:"fin_epoch"`
	LastGC   uint64              `json:"fin_lastgc"`
	Err      string              `json:"err,omitempty"`
}

type boxRecorder struct {
	handoffs []jBMsg
	forwards []string
}

func (r *boxRecorder) HandleMessage(m *IncMessage) {
	r.handoffs = append(r.handoffs, jBMsg{Src: m.Source, Topic: hex.EncodeToString(m.Topic), Data: hex.EncodeToString(m.Data)})
}

type seqBox struct {
	box   *msg.Box
	rec   *boxRecorder
	ticks chan time.Time
}

func newSeqBox(maxTopics, e int) *seqBox {
	rec := &boxRecorder{}
	ticks := make(chan time.Time)
	b := &msg.Box{
		Logger:                    nopLogger{},
		MaxInFlightTopicsBySender: maxTopics,
		GCSweep:                   time.Second,
		GCExpire:                  time.Duration(e) * time.Second,
		NewTicker:                 func(time.Duration) *time.Ticker { return &time.Ticker{C: ticks} },
		MessageHandler:            rec,
		ForwardSend: func(msgType uint8, topic []byte, m []byte, to ...UniversalID) {
			rec.forwards = append(rec.forwards, hex.EncodeToString(topic))
		},
	}
	return &seqBox{box: b, rec: rec, ticks: ticks}
}

func (s *seqBox) tick() error {
	before := s.box.VerifEpoch()
	select {
	case s.ticks <- time.Now():
	case <-time.After(2 * time.Second):
		return fmt.Errorf("clock goroutine does not take ticks")
	}
	deadline := time.Now().Add(2 * time.Second)
	for s.box.VerifEpoch() == before {
		if time.Now().After(deadline) {
			return fmt.Errorf("epoch did not advance")
		}
		time.Sleep(20 * time.Microsecond)
	}
	return nil
}

func (s *seqBox) do(op *jBoxOp) {
	s.rec.handoffs, s.rec.forwards = nil, nil
	func() {
		defer func() {
			if r := recover(); r != nil {
				op.Panic = true
				op.PanicV = fmt.Sprint(r)
			}
		}()
		switch op.Op {
		case "recv", "other":
			t, _ := hex.DecodeString(op.Msg.Topic)
			d, _ := hex.DecodeString(op.Msg.Data)
			ty := uint8(MsgTypeMPC)
			if op.Op == "other" {
				ty = uint8(MsgTypeSync)
			}
			s.box.HandleMessage(&IncMessage{MsgType: ty, Topic: t, Data: d, Source: op.Msg.Src})
		case "send":
			t, _ := hex.DecodeString(op.Topic)
			s.box.Send(uint8(MsgTypeMPC), t, []byte("out"), 1, 2)
		case "tick":
			if err := s.tick(); err != nil {
				panic(err)
			}
		}
	}()
	op.Handoffs = append([]jBMsg{}, s.rec.handoffs...)
	op.Forwards = append([]string{}, s.rec.forwards...)
}

func (s *seqBox) snapshot(sc *jBoxScenario) {
	snap := s.box.VerifSnapshot()
	for _, p := range snap.Pending {
		jp := jBoxPending{Topic: hex.EncodeToString([]byte(p.Topic)), Msgs: []jBMsg{}}
		for i := range p.Sources {
			jp.Msgs = append(jp.Msgs, jBMsg{Src: p.Sources[i], Topic: jp.Topic, Data: hex.EncodeToString(p.Data[i])})
		}
		sc.Pending = append(sc.Pending, jp)
	}
	sc.InFlight = map[string][]string{}
	for src, ts := range snap.InFlight {
		l := []string{}
		for _, t := range ts {
			l = append(l, hex.EncodeToString([]byte(t)))
		}
		sc.InFlight[fmt.Sprint(src)] = l
	}
	for t := range snap.Started {
		sc.Started = append(sc.Started, hex.EncodeToString([]byte(t)))
	}
	sort.Strings(sc.Started)
	sc.Epoch, sc.LastGC = snap.Epoch, snap.LastGC
}

func boxTopic(i int) string { return hex.EncodeToString(sha([]byte{byte(i)})[:8+i%3]) }

func runBoxSeq(r *prng, id int) *jBoxScenario {
	maxT := []int{0, 1, 2, 3, 50}[r.intn(5)]
	e := 2 + r.intn(5)
	sc := &jBoxScenario{Kind: "box", ID: id, Limit: msg.VerifLimitPerSender, MaxT: maxT, E: e, Ops: []jBoxOp{}, Pending: []jBoxPending{}, Started: []string{}}
	sb := newSeqBox(maxT, e)
	ntop := 2 + r.intn(6)
	nsrc := 1 + r.intn(3)
	n := 10 + r.intn(120)
	seq := 0
	mk := func(src, ti int) *jBMsg {
		seq++
		return &jBMsg{Src: uint16(src), Topic: boxTopic(ti), Data: fmt.Sprintf("%04x", seq)}
	}
	for i := 0; i < n; i++ {
		c := r.intn(100)
		var ops []jBoxOp
		switch {
		case c < 50:
			ops = append(ops, jBoxOp{Op: "recv", Msg: mk(1+r.intn(nsrc), r.intn(ntop))})
		case c < 52:
			// a burst beyond the per-sender limit
			src, ti := 1+r.intn(nsrc), r.intn(ntop)
			for k := 0; k < msg.VerifLimitPerSender+1+r.intn(4); k++ {
				ops = append(ops, jBoxOp{Op: "recv", Msg: mk(src, ti)})
			}
		case c < 60:
			// many topics of one sender
			src := 1 + r.intn(nsrc)
			for k := 0; k < 2+r.intn(5); k++ {
				ops = append(ops, jBoxOp{Op: "recv", Msg: mk(src, 20+r.intn(30))})
			}
		case c < 63:
			ops = append(ops, jBoxOp{Op: "other", Msg: mk(1+r.intn(nsrc), r.intn(ntop))})
		case c < 83:
			ops = append(ops, jBoxOp{Op: "send", Topic: boxTopic(r.intn(ntop))})
		case c < 95:
			ops = append(ops, jBoxOp{Op: "tick"})
		default:
			for k := 0; k < e+1+r.intn(2*e); k++ {
				ops = append(ops, jBoxOp{Op: "tick"})
			}
		}
		for _, op := range ops {
			sb.do(&op)
			sc.Ops = append(sc.Ops, op)
		}
	}
	// probe what is retained: start every topic that was used
	if r.chance(1, 2) {
		for ti := 0; ti < ntop; ti++ {
			op := jBoxOp{Op: "send", Topic: boxTopic(ti)}
			sb.do(&op)
			sc.Ops = append(sc.Ops, op)
		}
	}
	sb.snapshot(sc)
	sb.box.Stop()
	return sc
}
