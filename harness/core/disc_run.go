package main

// C07 (b): whole runs.  Real disc.Member.Synchronize in goroutines for 2..6 configured members over an in-memory
// router with a seeded scheduler (per-receiver delivery goroutine, random delays, optional reordering), some members
// scripted Byzantine.  The outcome of every honest member is recorded for the monitors in checks/disc.py.

import (
	"context"
	"sort"
	"strings"
	"sync"
	"time"

	discovery "github.com/IBM/TSS/disc"
)

type jOutcome struct {
	ID         uint16   `json:"id"`
	Cont       []uint16 `json:"cont"` // argument of the continuation (null when it did not run)
	NCont      int      `json:"ncont"`
	Err        string   `json:"err"` // ok | ctx | toomany | other | hang
	ErrText    string   `json:"err_text"`
	Announcers []uint16 `json:"announcers"` // peers whose announcement (type 1|2, own tag for the topic) was handed to this member
	ContFirst  bool     `json:"cont_before_return"`
	Blocked    bool     `json:"blocked"` // a HandleMessage call did not return
}

type jDiscRun struct {
	ID       int         `json:"id"`
	Class    string      `json:"class"` // exact | teardown | few | many | twins | byz
	Pattern  string      `json:"pattern"`
	ProbeMs  []float64   `json:"probe_ms"` // probe interval of each running member (same order as Running)
	Late     [][2]uint16 `json:"late"`     // links (from, to) whose messages are held back
	Teardown bool        `json:"teardown"` // every member stops handling messages for the topic once its Synchronize is through
	Members  []uint16    `json:"members"`
	Running  []uint16    `json:"running"`
	Byz      []uint16    `json:"byz"`
	ByzKind  []string    `json:"byz_kind"`
	Expected int         `json:"expected"`
	Fifo     bool        `json:"fifo"`
	Outcomes []jOutcome  `json:"outcomes"`
	Ms       int64       `json:"ms"`
	Messages int         `json:"messages"`
}

type routedMsg struct {
	from uint16
	data []byte
}

type inbox struct {
	mu   sync.Mutex
	q    []routedMsg
	wake chan struct{}
}

func (b *inbox) put(m routedMsg) {
	b.mu.Lock()
	b.q = append(b.q, m)
	b.mu.Unlock()
	select {
	case b.wake <- struct{}{}:
	default:
	}
}

func (b *inbox) take(r *prng, fifo bool) (routedMsg, bool) {
	b.mu.Lock()
	defer b.mu.Unlock()
	if len(b.q) == 0 {
		return routedMsg{}, false
	}
	i := 0
	if !fifo {
		i = r.intn(len(b.q))
	}
	m := b.q[i]
	b.q = append(b.q[:i], b.q[i+1:]...)
	return m, true
}

type discWorld struct {
	topic   []byte
	members []uint16
	boxes   map[uint16]*inbox
	mu      sync.Mutex
	count   int
	hold    map[[2]uint16]time.Duration // links that deliver late
}

func (w *discWorld) send(from, to uint16, data []byte) {
	if b, ok := w.boxes[to]; ok {
		w.mu.Lock()
		w.count++
		w.mu.Unlock()
		m := routedMsg{from: from, data: append([]byte{}, data...)}
		if d, late := w.hold[[2]uint16{from, to}]; late {
			go func() {
				time.Sleep(d)
				b.put(m)
			}()
			return
		}
		b.put(m)
	}
}

func (w *discWorld) broadcast(from uint16, data []byte) {
	for _, x := range w.members {
		if x != from {
			w.send(from, x, data)
		}
	}
}

func runDiscWhole(r *prng, id int, force string) *jDiscRun {
	n := 2 + r.intn(5)
	members := discIDs(r, n, r.chance(1, 5))
	run := &jDiscRun{ID: id, Members: append([]uint16{}, members...), Fifo: r.chance(2, 3)}
	class := []string{"exact", "teardown", "teardown", "few", "many", "twins", "twins", "byz", "byz", "probes"}[r.intn(10)]
	if force != "" {
		class = "probes"
	}
	var late [][2]uint16
	probes := map[uint16]time.Duration{}
	perm := append([]uint16{}, members...)
	for i := len(perm) - 1; i > 0; i-- {
		j := r.intn(i + 1)
		perm[i], perm[j] = perm[j], perm[i]
	}
	timeout := 5 * time.Second
	switch class {
	case "exact", "teardown":
		k := 1 + r.intn(n)
		if class == "teardown" && k < 2 {
			k = 2
		}
		run.Running = perm[:k]
		run.Expected = k
		run.Fifo = true
		run.Teardown = class == "teardown"
		if run.Teardown {
			timeout = 2 * time.Second
		}
	case "few":
		k := 1 + r.intn(n)
		run.Running = perm[:k]
		run.Expected = k + 1 + r.intn(2)
		timeout = 120 * time.Millisecond
	case "many":
		if n < 3 {
			class = "few"
			run.Running = perm[:1]
			run.Expected = 2
			timeout = 120 * time.Millisecond
		} else {
			k := 3 + r.intn(n-2)
			run.Running = perm[:k]
			run.Expected = 2 + r.intn(k-2)
			timeout = 300 * time.Millisecond
		}
	case "probes":
		// exact honest run in which the members probe at DIFFERENT intervals (the interval is a parameter of each call):
		// one fast prober among slow ones or one slow among fast ones, ratio 1:100 or 1:10.  Every member has to tick
		// again within its own interval whatever it receives meanwhile; the deadline is a dozen slow intervals.
		k := 2 + r.intn(4)
		if k > n {
			k = n
		}
		pattern := force
		if pattern == "" {
			pattern = []string{"fast-among-slow-100", "slow-among-fast-100", "fast-among-slow-10", "slow-among-fast-10"}[r.intn(4)]
		}
		slow, fast := 200*time.Millisecond, 2*time.Millisecond
		if strings.HasSuffix(pattern, "-10") {
			slow, fast = 100*time.Millisecond, 10*time.Millisecond
		}
		run.Running = perm[:k]
		run.Expected = k
		run.Fifo = true
		odd := r.intn(k)
		for i, x := range run.Running {
			isOdd := i == odd
			if strings.HasPrefix(pattern, "fast-among-slow") == isOdd {
				probes[x] = fast
			} else {
				probes[x] = slow
			}
		}
		run.Pattern = pattern
		timeout = 12*slow + time.Second
	case "twins":
		// four honest members a, b, x, y with x and y of ONE encoding class, everybody expects three; the links y->a,
		// x->b and x<->y deliver late: for a while a knows {a,b,x} and b knows {a,b,y}.  Nobody may complete with a
		// list that another completing member of it does not share; with the links in, there are too many members.
		x := discIDs(r, 1, false)[0]
		for discClassOf(x) == "other" && !r.chance(1, 6) {
			x = discIDs(r, 4, false)[r.intn(4)]
		}
		y := discTwinOf(r, x)
		for y == x {
			y = discTwinOf(r, x)
		}
		var ab []uint16
		for len(ab) < 2 {
			c := r.id16()
			if c != x && c != y && (len(ab) == 0 || ab[0] != c) {
				ab = append(ab, c)
			}
		}
		members = []uint16{ab[0], ab[1], x, y}
		n = 4
		run.Members = append([]uint16{}, members...)
		run.Running = append([]uint16{}, members...)
		run.Expected = 3
		run.Fifo = true
		late = [][2]uint16{{y, ab[0]}, {x, ab[1]}, {x, y}, {y, x}}
		run.Late = late
		timeout = 250 * time.Millisecond
	case "byz":
		if n < 3 {
			n = 3
			members = discIDs(r, 3, false)
			run.Members = append([]uint16{}, members...)
			perm = append([]uint16{}, members...)
		}
		nb := 1 + r.intn(2)
		if nb > n-2 {
			nb = n - 2
		}
		if nb < 1 {
			nb = 1
		}
		run.Byz = perm[:nb]
		run.Running = perm[nb:]
		run.Expected = 2 + r.intn(n-1)
		if run.Expected > n {
			run.Expected = n
		}
		timeout = 250 * time.Millisecond
	}
	run.Class = class
	topic := r.bytes(16)
	w := &discWorld{topic: topic, members: run.Members, boxes: map[uint16]*inbox{}, hold: map[[2]uint16]time.Duration{}}
	for _, l := range late {
		w.hold[l] = time.Duration(60+r.intn(60)) * time.Millisecond
	}
	for _, x := range run.Members {
		w.boxes[x] = &inbox{wake: make(chan struct{}, 1)}
	}
	stop := make(chan struct{})
	var wg sync.WaitGroup

	type honest struct {
		id   uint16
		m    *discovery.Member
		mu   sync.Mutex
		cont []uint16
		n    int
		ann  map[uint16]bool
		ret  bool
		cbr  bool
		blk  bool
		down bool // torn down: the orchestrator no longer hands it messages for the topic
	}
	hs := map[uint16]*honest{}
	for _, x := range run.Running {
		h := &honest{id: x, ann: map[uint16]bool{}}
		x := x
		h.m = &discovery.Member{Membership: append([]uint16{}, run.Members...), ID: x, Logger: discLogger{},
			Broadcast: func(msg []byte) { w.broadcast(x, msg) },
			Send:      func(msg []byte, to uint16) { w.send(x, to, msg) }}
		hs[x] = h
	}
	// delivery: one goroutine per honest receiver (threshold wraps HandleMessage in a mutex: sequential per member)
	for _, x := range run.Running {
		h := hs[x]
		box := w.boxes[x]
		rr := newPRNG(r.next())
		wg.Add(1)
		go func() {
			defer wg.Done()
			for {
				m, ok := box.take(rr, run.Fifo)
				if !ok {
					select {
					case <-stop:
						return
					case <-box.wake:
					case <-time.After(200 * time.Microsecond):
					}
					continue
				}
				if d := rr.intn(8); d > 0 {
					time.Sleep(time.Duration(d*40) * time.Microsecond)
				}
				h.mu.Lock()
				down := h.down
				h.mu.Unlock()
				if down {
					continue // dropped, as by threshold.Scheme once the synchroniser is unregistered
				}
				if len(m.data) >= 33 && (m.data[0] == 1 || m.data[0] == 2) && string(m.data[1:33]) == string(discTag(topic, m.from)) && (len(m.data)-33)%2 == 0 {
					h.mu.Lock()
					h.ann[m.from] = true
					h.mu.Unlock()
				}
				fin := make(chan struct{})
				go func() {
					defer close(fin)
					h.m.HandleMessage(m.from, m.data)
				}()
				select {
				case <-fin:
				case <-time.After(2 * time.Second):
					h.mu.Lock()
					h.blk = true
					h.mu.Unlock()
					return
				}
				select {
				case <-stop:
					return
				default:
				}
			}
		}()
	}
	// Byzantine members
	honestIDs := append([]uint16{}, run.Running...)
	for bi, x := range run.Byz {
		kind := []string{"liar", "splitter", "echo", "impersonator"}[r.intn(4)]
		run.ByzKind = append(run.ByzKind, kind)
		box := w.boxes[x]
		rr := newPRNG(r.next())
		x := x
		bi := bi
		wg.Add(1)
		go func() {
			defer wg.Done()
			tag := discTag(topic, x)
			lists := map[uint16][]uint16{} // what to tell each honest member
			mk := func(to uint16) []uint16 {
				// a plausible complete list of the expected size containing the addressee and this member
				l := []uint16{to, x}
				cand := append([]uint16{}, run.Members...)
				for i := len(cand) - 1; i > 0; i-- {
					j := rr.intn(i + 1)
					cand[i], cand[j] = cand[j], cand[i]
				}
				for _, c := range cand {
					if len(l) >= run.Expected {
						break
					}
					if c != to && c != x {
						l = append(l, c)
					}
				}
				return sortedU16(l)
			}
			shared := mk(honestIDs[(bi)%len(honestIDs)])
			for _, h := range honestIDs {
				if kind == "splitter" {
					lists[h] = mk(h)
				} else {
					lists[h] = shared
				}
			}
			tick := time.NewTicker(time.Millisecond)
			defer tick.Stop()
			for {
				select {
				case <-stop:
					return
				case <-tick.C:
					for _, h := range honestIDs {
						switch kind {
						case "liar":
							v := make([]uint16, rr.intn(run.Expected+2))
							for i := range v {
								v[i] = run.Members[rr.intn(len(run.Members))]
							}
							w.send(x, h, discEncode(byte(1+rr.intn(3)), tag, v))
						case "impersonator":
							o := honestIDs[rr.intn(len(honestIDs))]
							w.send(x, h, discEncode(byte(1+rr.intn(3)), discTag(topic, o), lists[h]))
							w.send(x, h, discEncode(byte(1+rr.intn(2)), tag, lists[h]))
						default:
							// an announcement, or a query (handled as an announcement too, and counted as a query)
							w.send(x, h, discEncode(byte(1+rr.intn(2)), tag, lists[h]))
						}
					}
				case <-box.wake:
				}
				for {
					m, ok := box.take(rr, true)
					if !ok {
						break
					}
					if len(m.data) < 33 {
						continue
					}
					var peers []uint16
					for o := 33; o+1 < len(m.data); o += 2 {
						peers = append(peers, uint16(m.data[o])|uint16(m.data[o+1])<<8)
					}
					switch m.data[0] {
					case 2: // confirm whatever was asked
						w.send(x, m.from, discEncode(3, tag, peers))
						if kind == "echo" || kind == "splitter" {
							lists[m.from] = peers
						}
					case 1:
						if kind == "echo" && len(peers) == run.Expected {
							lists[m.from] = peers // mirror a complete view back
						}
					}
					if kind == "echo" || kind == "splitter" {
						w.send(x, m.from, discEncode(3, tag, peers)) // responses before / without queries
					}
				}
			}
		}()
	}
	// the honest members call Synchronize
	ctx, cancel := context.WithTimeout(context.Background(), timeout)
	defer cancel()
	type res struct {
		id  uint16
		err error
	}
	results := make(chan res, len(run.Running))
	t0 := time.Now()
	for _, x := range run.Running {
		h := hs[x]
		stagger := time.Duration(r.intn(4)) * 500 * time.Microsecond
		probe := 2 * time.Millisecond
		if d, ok := probes[x]; ok {
			probe = d
		}
		run.ProbeMs = append(run.ProbeMs, float64(probe)/float64(time.Millisecond))
		go func() {
			time.Sleep(stagger)
			err := h.m.Synchronize(ctx, func(l []uint16) {
				h.mu.Lock()
				h.cont = append([]uint16{}, l...)
				h.n++
				h.cbr = !h.ret
				if run.Teardown {
					h.down = true
				}
				h.mu.Unlock()
			}, topic, run.Expected, probe)
			h.mu.Lock()
			h.ret = true
			if run.Teardown {
				h.down = true
			}
			h.mu.Unlock()
			results <- res{h.id, err}
		}()
	}
	errs := map[uint16]error{}
	hang := map[uint16]bool{}
	waitUntil := time.After(timeout + 3*time.Second)
	for range run.Running {
		select {
		case x := <-results:
			errs[x.id] = x.err
		case <-waitUntil:
			for _, x := range run.Running {
				if _, ok := errs[x]; !ok {
					hang[x] = true
				}
			}
		}
		if len(hang) > 0 {
			break
		}
	}
	run.Ms = time.Since(t0).Milliseconds()
	// a late continuation would show up here
	time.Sleep(2 * time.Millisecond)
	close(stop)
	cancel()
	wg.Wait()
	for _, x := range run.Running {
		h := hs[x]
		h.mu.Lock()
		o := jOutcome{ID: x, NCont: h.n, ContFirst: h.cbr, Blocked: h.blk}
		if h.n > 0 {
			o.Cont = u16s(h.cont)
		}
		for a := range h.ann {
			o.Announcers = append(o.Announcers, a)
		}
		h.mu.Unlock()
		sort.Slice(o.Announcers, func(i, j int) bool { return o.Announcers[i] < o.Announcers[j] })
		if o.Announcers == nil {
			o.Announcers = []uint16{}
		}
		switch err := errs[x]; {
		case hang[x]:
			o.Err = "hang"
		case err == nil:
			o.Err = "ok"
		default:
			o.ErrText = err.Error()
			switch {
			case strings.HasPrefix(o.ErrText, "only ") || strings.HasPrefix(o.ErrText, "haven't received") || strings.HasPrefix(o.ErrText, "haven't been queried"):
				o.Err = "ctx"
			case strings.HasPrefix(o.ErrText, "too many members"):
				o.Err = "toomany"
			default:
				o.Err = "other"
			}
		}
		run.Outcomes = append(run.Outcomes, o)
	}
	w.mu.Lock()
	run.Messages = w.count
	w.mu.Unlock()
	return run
}

// runDiscWholeBatch runs count runs, a few at a time.
func runDiscWholeBatch(r *prng, count int) {
	const par = 6
	seeds := make([]uint64, count)
	for i := range seeds {
		seeds[i] = r.next()
	}
	out := make([]*jDiscRun, count)
	var wg sync.WaitGroup
	sem := make(chan struct{}, par)
	for i := 0; i < count; i++ {
		wg.Add(1)
		sem <- struct{}{}
		go func(i int) {
			defer wg.Done()
			force := ""
			if i < 4 { // the four probe-interval patterns are always present
				force = []string{"fast-among-slow-100", "slow-among-fast-100", "fast-among-slow-10", "slow-among-fast-10"}[i]
			}
			out[i] = runDiscWhole(newPRNG(seeds[i]), i, force)
			<-sem
		}(i)
	}
	wg.Wait()
	for _, x := range out {
		emit(x)
	}
}

// ---- the window between the passes of intersectedView, on real goroutines (thorough tier).
// Member 1 runs Synchronize (expected 3, configured {1,2,3,4}); 3 announces [1 2 3]; after a varying busy-wait the
// first announcement of 2, carrying [2], is handed in.  If 1 then broadcasts the query for [1 2 3] although the view
// stored for 2 is [2], the comparison of announced views was bypassed.

type jDiscRace struct {
	Trials int      `json:"trials"`
	Hits   int      `json:"hits"`
	First  string   `json:"first"`
	List   []uint16 `json:"list"`
	Stored []uint16 `json:"stored"`
}

func discSpin(n int) int {
	x := 0
	for i := 0; i < n; i++ {
		x += i * i
	}
	return x
}

func runDiscRace(r *prng, trials int) *jDiscRace {
	res := &jDiscRace{Trials: trials}
	for trial := 0; trial < trials; trial++ {
		topic := r.bytes(16)
		var mu sync.Mutex
		var q []byte
		var cont []uint16
		a := &discovery.Member{Membership: []uint16{1, 2, 3, 4}, ID: 1, Logger: discLogger{},
			Broadcast: func(b []byte) {
				mu.Lock()
				if len(b) > 0 && b[0] == 2 && q == nil {
					q = append([]byte{}, b...)
				}
				mu.Unlock()
			}, Send: func([]byte, uint16) {}}
		ctx, cancel := context.WithCancel(context.Background())
		done := make(chan error, 1)
		go func() {
			done <- a.Synchronize(ctx, func(l []uint16) { cont = append([]uint16{}, l...) }, topic, 3, time.Hour)
		}()
		var vt *discovery.VerifTopic
		for vt == nil {
			vt = a.VerifTopicOf(topic)
			if vt == nil {
				time.Sleep(10 * time.Microsecond)
			}
		}
		time.Sleep(40 * time.Microsecond)
		a.HandleMessage(3, discEncode(1, discTag(topic, 3), []uint16{1, 2, 3}))
		discSpin(r.intn(400) * 5)
		a.HandleMessage(2, discEncode(1, discTag(topic, 2), []uint16{2}))
		time.Sleep(150 * time.Microsecond)
		mu.Lock()
		query := q
		mu.Unlock()
		if query != nil {
			a.HandleMessage(3, discEncode(3, discTag(topic, 3), []uint16{1, 2, 3}))
			a.HandleMessage(4, discEncode(3, discTag(topic, 4), []uint16{1, 2, 3}))
			select {
			case <-done:
			case <-time.After(2 * time.Second):
			}
			views, _ := vt.Snapshot()
			res.Hits++
			if res.First == "" {
				res.First = "member 1 proceeded although the view stored for member 2 differs from its list"
				res.List = u16s(cont)
				res.Stored = u16s(views[2])
			}
		}
		cancel()
		select {
		case <-done:
		case <-time.After(2 * time.Second):
		}
	}
	return res
}
