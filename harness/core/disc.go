package main

// C07: single-step and scripted-Synchronize correspondence for disc.Member (compared with the Coq model by
// Corr/DiscCorr.v).  Tags are computed here with crypto/hmac, not through the library.

import (
	"bytes"
	"context"
	"crypto/hmac"
	"crypto/sha256"
	"encoding/hex"
	"fmt"
	"runtime"
	"sort"
	"strings"
	"sync"
	"time"

	discovery "github.com/IBM/TSS/disc"
)

type discLogger struct{}

func (discLogger) Debugf(string, ...interface{}) {}
func (discLogger) Warnf(string, ...interface{})  {}

func discTag(topic []byte, id uint16) []byte {
	h := hmac.New(sha256.New, topic)
	h.Write([]byte{byte(id), byte(id >> 8)})
	return h.Sum(nil)
}

func discEncode(t byte, tag []byte, peers []uint16) []byte {
	b := make([]byte, 0, 33+2*len(peers))
	b = append(b, t)
	b = append(b, tag...)
	for _, p := range peers {
		b = append(b, byte(p), byte(p>>8))
	}
	return b
}

type jSend struct {
	To   uint16 `json:"to"`
	Data string `json:"data"`
}

type jView struct {
	K uint16   `json:"k"`
	V []uint16 `json:"v"`
}

type jTag struct {
	T   int    `json:"t"`
	ID  uint16 `json:"id"`
	Tag string `json:"tag"`
}

type jDiscOp struct {
	Op   string `json:"op"` // handle | freeze | pass2 | pass | drain | start | cancel
	Kind string `json:"kind"`
	From uint16 `json:"from"`
	Data string `json:"data"`
	// observed
	Sends     []jSend    `json:"sends"`
	Views     []jView    `json:"views"`
	Responded []uint16   `json:"responded"`
	Pending   int        `json:"pending"`
	Queried   []uint16   `json:"queried"`
	PendingQ  int        `json:"pending_q"`
	DrainedQ  [][]uint16 `json:"drained_q"`
	MyView    []uint16   `json:"myview"`
	IV        []uint16   `json:"iv"`
	Drained   [][]uint16 `json:"drained"`
	Tick      *string    `json:"tick"`
	Query     *string    `json:"query"`
	Cont      *[]uint16  `json:"cont"`
	Ret       int        `json:"ret"` // 0 nothing returned since the previous op, 1 nil, errors: 2 first loop ended by the context, 3 too many members, 4 acknowledgements missing, 5 queries missing, 6 other
	RetText   string     `json:"ret_text"`
	NCont     int        `json:"ncont"`
	Bad       string     `json:"bad"` // "blocked" | "panic: ..." | "stuck": the harness could not complete the op
}

type jDiscScen struct {
	ID       int       `json:"id"`
	Mode     string    `json:"mode"` // step | sync
	Plan     string    `json:"plan"`
	Self     uint16    `json:"self"`
	Members  []uint16  `json:"members"`
	Expected int       `json:"expected"`
	Tags     []jTag    `json:"tags"`
	Ops      []jDiscOp `json:"ops"`
}

func u16s(x []uint16) []uint16 {
	if x == nil {
		return []uint16{}
	}
	return append([]uint16{}, x...)
}

func sortedU16(x []uint16) []uint16 {
	r := u16s(x)
	sort.Slice(r, func(i, j int) bool { return r[i] < r[j] })
	return r
}

// ---- one member under test

type discFixture struct {
	sc     *jDiscScen
	m      *discovery.Member
	topic  []byte
	other  []byte
	vt     *discovery.VerifTopic
	frozen *discovery.VerifFrozen

	mu       sync.Mutex
	sends    []jSend
	lastTick []byte
	nTicks   int
	query    []byte
	nQuery   int
	cont     []uint16
	nCont    int
	seenCont int
	seenQ    int

	done     chan error
	returned bool
	err      error
	cancel   context.CancelFunc
}

func newDiscFixture(sc *jDiscScen, topic, other []byte) *discFixture {
	f := &discFixture{sc: sc, topic: topic, other: other}
	f.m = &discovery.Member{
		Membership: append([]uint16{}, sc.Members...),
		ID:         sc.Self,
		Logger:     discLogger{},
		Broadcast: func(msg []byte) {
			f.mu.Lock()
			defer f.mu.Unlock()
			cp := append([]byte{}, msg...)
			if len(cp) > 0 && cp[0] == 1 {
				f.lastTick = cp
				f.nTicks++
			} else {
				if f.nQuery == 0 {
					f.query = cp
				}
				f.nQuery++
			}
		},
		Send: func(msg []byte, to uint16) {
			f.mu.Lock()
			defer f.mu.Unlock()
			f.sends = append(f.sends, jSend{To: to, Data: hex.EncodeToString(msg)})
		},
	}
	return f
}

func (f *discFixture) snapshot(op *jDiscOp) {
	views, responded := f.vt.Snapshot()
	op.Views = []jView{}
	for k, v := range views {
		op.Views = append(op.Views, jView{K: k, V: u16s(v)})
	}
	sort.Slice(op.Views, func(i, j int) bool { return op.Views[i].K < op.Views[j].K })
	op.Responded = sortedU16(responded)
	op.Pending = f.vt.PendingResponses()
	op.Queried = sortedU16(f.vt.Queried())
	op.PendingQ = f.vt.PendingQueries()
	op.MyView = u16s(f.vt.MyView())
}

// number of operations the harness could not complete (blocked / panicked / stuck); after a few of them the rest of
// the batch is skipped: every one costs a watchdog timeout and the finding is already made
var discBadOps int

// handle calls HandleMessage under a watchdog (a blocked or panicking call ends the scenario).
func (f *discFixture) handle(op *jDiscOp, from uint16, data []byte) bool {
	f.mu.Lock()
	f.sends = nil
	f.mu.Unlock()
	res := make(chan string, 1)
	go func() {
		defer func() {
			if r := recover(); r != nil {
				res <- fmt.Sprintf("panic: %v", r)
			}
		}()
		f.m.HandleMessage(from, append([]byte{}, data...))
		res <- ""
	}()
	select {
	case bad := <-res:
		op.Bad = bad
	case <-time.After(1500 * time.Millisecond):
		op.Bad = "blocked"
	}
	if op.Bad != "" {
		discBadOps++
	}
	f.mu.Lock()
	op.Sends = append([]jSend{}, f.sends...)
	f.mu.Unlock()
	return op.Bad == ""
}

// discPause yields to the other goroutines (time.Sleep has a granularity of the order of 100 us, too coarse here)
func discPause() {
	for i := 0; i < 4; i++ {
		runtime.Gosched()
	}
}

// state of the goroutine that runs Synchronize ("select", "running", "runnable", ..., "gone")
var discStackBuf = make([]byte, 1<<17)

func syncGoroutineState() string {
	buf := discStackBuf
	n := runtime.Stack(buf, true)
	for _, block := range strings.Split(string(buf[:n]), "\n\n") {
		if strings.Contains(block, "disc.(*Member).Synchronize") {
			i := strings.Index(block, "[")
			j := strings.Index(block, "]")
			if i >= 0 && j > i {
				return block[i+1 : j]
			}
		}
	}
	return "gone"
}

func (f *discFixture) pollReturned() {
	if f.returned || f.done == nil {
		return
	}
	select {
	case err := <-f.done:
		f.returned = true
		f.err = err
	default:
	}
}

// quiesce waits until the Synchronize goroutine has digested everything handed to it: it has returned, or it
// sits in a select with no wake-up signal (and, in the acknowledgement loop, no response) waiting.
func (f *discFixture) quiesce() bool {
	deadline := time.Now().Add(4 * time.Second)
	stable := 0
	for {
		f.pollReturned()
		if f.returned {
			return true
		}
		f.mu.Lock()
		inAck := f.nQuery > 0
		f.mu.Unlock()
		// first loop: the wake-up signal has been consumed; acknowledgement loop (nobody reads the signal any
		// more): the responses channel has been emptied
		calm := f.vt != nil && ((!inAck && f.vt.PendingSignal() == 0) ||
			(inAck && f.vt.PendingResponses() == 0 && f.vt.PendingQueries() == 0))
		if calm && strings.HasPrefix(syncGoroutineState(), "select") {
			stable++
			if stable >= 2 {
				// re-check that the phase did not change while we looked
				f.mu.Lock()
				again := (f.nQuery > 0) != inAck
				f.mu.Unlock()
				if !again {
					return true
				}
				stable = 0
			}
		} else {
			stable = 0
		}
		if time.Now().After(deadline) {
			return false
		}
		discPause()
	}
}

// async fills in what the Synchronize goroutine did since the previous operation.
func (f *discFixture) async(op *jDiscOp, wantTick bool) {
	if !f.quiesce() {
		op.Bad = "stuck"
		discBadOps++
	}
	f.mu.Lock()
	inCollect := f.nQuery == 0 && !f.returned
	c0 := f.nTicks
	f.mu.Unlock()
	if wantTick && inCollect && op.Bad == "" {
		deadline := time.Now().Add(4 * time.Second)
		for {
			f.mu.Lock()
			n := f.nTicks
			f.mu.Unlock()
			f.pollReturned()
			if n > c0 || f.returned {
				break
			}
			if time.Now().After(deadline) {
				op.Bad = "stuck"
				break
			}
			discPause()
		}
		if !f.quiesce() {
			op.Bad = "stuck"
		}
	}
	f.mu.Lock()
	defer f.mu.Unlock()
	if f.nQuery == 0 && !f.returned && f.lastTick != nil && wantTick {
		s := hex.EncodeToString(f.lastTick)
		op.Tick = &s
	}
	if f.nQuery > f.seenQ {
		s := hex.EncodeToString(f.query)
		op.Query = &s
		f.seenQ = f.nQuery
	}
	if f.nCont > f.seenCont {
		c := u16s(f.cont)
		op.Cont = &c
		op.NCont = f.nCont - f.seenCont
		f.seenCont = f.nCont
	}
}

func (f *discFixture) noteReturn(op *jDiscOp, was bool) {
	if f.returned && !was {
		if f.err == nil {
			op.Ret = 1
		} else {
			op.RetText = f.err.Error()
			switch {
			case strings.HasPrefix(op.RetText, "only "):
				op.Ret = 2
			case strings.HasPrefix(op.RetText, "too many members"):
				op.Ret = 3
			case strings.HasPrefix(op.RetText, "haven't received"):
				op.Ret = 4
			case strings.HasPrefix(op.RetText, "haven't been queried"):
				op.Ret = 5
			default:
				op.Ret = 6
			}
		}
	}
}

// ---- identifiers.  Besides the numeric boundaries of prng.id16, the values at which an ENCODING of an identifier
// changes shape: the UTF-16 surrogate block and U+FFFD (not representable / the replacement character when an
// identifier is written as a rune), the neighbours of those, the UTF-8 length boundaries, and the bytes that are
// separators or brackets in a printed list.  Universes are built so that SEVERAL members of one class occur together.

var discClasses = map[string][]uint16{
	"surrogate":      {0xD800, 0xD801, 0xDBFF, 0xDC00, 0xDFFF},
	"replacement":    {0xFFFD},
	"near-surrogate": {0xD7FF, 0xE000, 0xFFFE, 0xFFFF},
	"utf8-boundary":  {0x7F, 0x80, 0x7FF, 0x800},
	"separator":      {0x0A, 0x20, 0x2C, 0x5B, 0x5D},
}

func discClassOf(x uint16) string {
	switch {
	case x >= 0xD800 && x <= 0xDFFF:
		return "surrogate"
	case x == 0xFFFD:
		return "replacement"
	}
	for _, c := range []string{"near-surrogate", "utf8-boundary", "separator"} {
		for _, y := range discClasses[c] {
			if x == y {
				return c
			}
		}
	}
	return "other"
}

// another identifier of the same encoding class as x (surrogates and U+FFFD form one class)
func discTwinOf(r *prng, x uint16) uint16 {
	switch discClassOf(x) {
	case "surrogate", "replacement":
		if r.chance(1, 3) {
			return uint16(0xD800 + r.intn(0x800))
		}
		pool := append(append([]uint16{}, discClasses["surrogate"]...), 0xFFFD)
		return pool[r.intn(len(pool))]
	case "other":
		if r.chance(1, 2) {
			return x ^ 1
		}
		return x ^ 0x100
	default:
		pool := discClasses[discClassOf(x)]
		return pool[r.intn(len(pool))]
	}
}

// discIDs returns n distinct identifiers; in about half of the universes two to four of them come from one
// encoding class.
func discIDs(r *prng, n int, small bool) []uint16 {
	seen := map[uint16]bool{}
	var res []uint16
	add := func(x uint16) {
		if !seen[x] && len(res) < n {
			seen[x] = true
			res = append(res, x)
		}
	}
	if !small && r.chance(3, 5) {
		var pool []uint16
		switch r.intn(6) {
		case 0, 1, 2: // the collapsing class, sometimes with its neighbours
			pool = append(append([]uint16{}, discClasses["surrogate"]...), 0xFFFD, uint16(0xD800+r.intn(0x800)))
			if r.chance(1, 3) {
				pool = append(pool, discClasses["near-surrogate"]...)
			}
		case 3:
			pool = append([]uint16{}, discClasses["near-surrogate"]...)
		case 4:
			pool = append([]uint16{}, discClasses["utf8-boundary"]...)
		default:
			pool = append([]uint16{}, discClasses["separator"]...)
		}
		k := 2 + r.intn(3)
		for i := 0; i < 4*k && len(res) < k; i++ {
			add(pool[r.intn(len(pool))])
		}
	}
	for len(res) < n {
		if small {
			add(uint16(r.intn(12)))
		} else {
			add(r.id16())
		}
	}
	// shuffle, so that the class members are not always the first (and so not always the configured members)
	for i := len(res) - 1; i > 0; i-- {
		j := r.intn(i + 1)
		res[i], res[j] = res[j], res[i]
	}
	return res
}

// ---- message generator

type discGen struct {
	r        *prng
	sc       *jDiscScen
	topic    []byte
	other    []byte
	outsider []uint16
	target   []uint16 // sorted list the scripted peers steer towards (contains self)
	history  [][2]interface{}
}

func (g *discGen) peers() []uint16 {
	var p []uint16
	for _, x := range g.target {
		if x != g.sc.Self {
			p = append(p, x)
		}
	}
	return p
}

func (g *discGen) anyMember() uint16 { return g.sc.Members[g.r.intn(len(g.sc.Members))] }

func (g *discGen) otherMember() uint16 {
	for i := 0; i < 20; i++ {
		x := g.anyMember()
		if x != g.sc.Self {
			return x
		}
	}
	return g.sc.Members[0]
}

// the target with ONE element replaced by another identifier of the same encoding class (a configured member outside
// the target, an outsider, or a fresh value): same size, differs from the target in exactly that identifier
func (g *discGen) twinView() []uint16 {
	t := u16s(g.target)
	if len(t) == 0 {
		return t
	}
	in := map[uint16]bool{}
	for _, x := range t {
		in[x] = true
	}
	// prefer replacing an element of a non-trivial class
	idx := g.r.intn(len(t))
	for i := 0; i < 2*len(t); i++ {
		j := g.r.intn(len(t))
		if discClassOf(t[j]) != "other" && (t[j] != g.sc.Self || g.r.chance(1, 4)) {
			idx = j
			break
		}
	}
	x := t[idx]
	var cand []uint16
	for _, y := range append(append([]uint16{}, g.sc.Members...), g.outsider...) {
		cx, cy := discClassOf(x), discClassOf(y)
		same := cx == cy || (cx == "surrogate" && cy == "replacement") || (cx == "replacement" && cy == "surrogate")
		if !in[y] && same && cx != "other" {
			cand = append(cand, y)
		}
	}
	y := discTwinOf(g.r, x)
	if len(cand) > 0 && g.r.chance(2, 3) {
		y = cand[g.r.intn(len(cand))]
	}
	for i := 0; i < 8 && in[y]; i++ {
		y = discTwinOf(g.r, x)
	}
	if in[y] {
		y = x ^ 0x4000
	}
	t[idx] = y
	return sortedU16(t)
}

// a list that is not the target
func (g *discGen) lyingView(from uint16) []uint16 {
	t := u16s(g.target)
	if g.r.chance(1, 3) {
		return g.twinView()
	}
	switch g.r.intn(9) {
	case 0: // same size, one element replaced
		if len(t) > 0 {
			t[g.r.intn(len(t))] = g.r.id16()
		}
		return t
	case 1: // permutation
		for i := len(t) - 1; i > 0; i-- {
			j := g.r.intn(i + 1)
			t[i], t[j] = t[j], t[i]
		}
		return t
	case 2: // duplicate element
		if len(t) > 0 {
			return append(t, t[g.r.intn(len(t))])
		}
		return t
	case 3: // prefix
		return t[:g.r.intn(len(t)+1)]
	case 4: // with an outsider
		return sortedU16(append(t, g.outsider[g.r.intn(len(g.outsider))]))
	case 5:
		return []uint16{}
	case 6: // just the sender
		return []uint16{from}
	case 7: // all configured members
		return sortedU16(g.sc.Members)
	default:
		n := g.r.intn(6)
		v := make([]uint16, n)
		for i := range v {
			v[i] = g.r.id16()
		}
		return v
	}
}

// partial honest-looking view of a peer: sorted subset of the target containing the peer
func (g *discGen) partialView(from uint16) []uint16 {
	v := []uint16{from}
	for _, x := range g.target {
		if x != from && g.r.chance(1, 2) {
			v = append(v, x)
		}
	}
	return sortedU16(v)
}

type discMsg struct {
	kind string
	from uint16
	data []byte
}

func (g *discGen) gen() discMsg {
	r := g.r
	peers := g.peers()
	pick := func() uint16 {
		if len(peers) > 0 && r.chance(4, 5) {
			return peers[r.intn(len(peers))]
		}
		return g.otherMember()
	}
	switch k := r.intn(100); {
	case k < 22:
		p := pick()
		return discMsg{"announce-target", p, discEncode(1, discTag(g.topic, p), g.target)}
	case k < 32:
		p := pick()
		return discMsg{"announce-partial", p, discEncode(1, discTag(g.topic, p), g.partialView(p))}
	case k < 40:
		p := pick()
		return discMsg{"announce-lie", p, discEncode(1, discTag(g.topic, p), g.lyingView(p))}
	case k < 48:
		p := pick()
		v := g.target
		if r.chance(1, 3) {
			v = g.lyingView(p)
		}
		return discMsg{"query", p, discEncode(2, discTag(g.topic, p), v)}
	case k < 62:
		p := pick()
		v := g.target
		if r.chance(1, 3) {
			v = g.lyingView(p)
		}
		return discMsg{"response", p, discEncode(3, discTag(g.topic, p), v)}
	case k < 68: // answering for others: tag of another member (or of the member under test)
		p := pick()
		q := g.anyMember()
		return discMsg{"other-members-tag", p, discEncode(byte(1+r.intn(3)), discTag(g.topic, q), g.target)}
	case k < 72: // tag for another topic
		p := pick()
		return discMsg{"other-topics-tag", p, discEncode(byte(1+r.intn(3)), discTag(g.other, p), g.target)}
	case k < 76: // outsider, with its own (unknown) tag or with a member's tag
		o := g.outsider[r.intn(len(g.outsider))]
		tg := discTag(g.topic, o)
		if r.chance(1, 2) {
			tg = discTag(g.topic, g.otherMember())
		}
		return discMsg{"outsider", o, discEncode(byte(1+r.intn(3)), tg, g.target)}
	case k < 79: // the member's own identifier as source
		return discMsg{"from-self", g.sc.Self, discEncode(byte(1+r.intn(3)), discTag(g.topic, g.sc.Self), g.target)}
	case k < 88: // replay of an earlier message (same or other source)
		if len(g.history) > 0 {
			h := g.history[r.intn(len(g.history))]
			from := h[0].(uint16)
			if r.chance(1, 4) {
				from = pick()
			}
			return discMsg{"replay", from, h[1].([]byte)}
		}
		fallthrough
	default: // malformed
		p := pick()
		base := discEncode(byte(1+r.intn(3)), discTag(g.topic, p), g.target)
		switch r.intn(7) {
		case 0:
			base = base[:r.intn(len(base)+1)]
		case 1:
			base = append(base, byte(r.next()))
		case 2:
			base[0] = byte(r.intn(256))
		case 3:
			base[1+r.intn(32)] ^= byte(1 << uint(r.intn(8)))
		case 4:
			base = r.bytes(r.intn(40))
		case 5:
			base = base[:32]
		case 6:
			base = []byte{}
		}
		return discMsg{"malformed", p, base}
	}
}

// ---- scenarios

func discSetup(r *prng, id int, mode string) (*jDiscScen, *discGen, []byte, []byte) {
	n := 2 + r.intn(5)
	ids := discIDs(r, n+2, r.chance(1, 5))
	members := append([]uint16{}, ids[:n]...)
	outsider := ids[n:]
	self := members[r.intn(n)]
	topic := r.bytes(8 + r.intn(25))
	other := r.bytes(8 + r.intn(25))
	if r.chance(1, 8) { // the other topic extends this one
		other = append(append([]byte{}, topic...), 0)
	}
	sc := &jDiscScen{ID: id, Mode: mode, Self: self, Members: members}
	// target list: self plus a random subset of the other members
	target := []uint16{self}
	for _, x := range members {
		if x != self && r.chance(2, 3) {
			target = append(target, x)
		}
	}
	target = sortedU16(target)
	sc.Expected = len(target)
	switch r.intn(12) {
	case 0:
		sc.Expected = len(target) + 1 // never enough
	case 1:
		if len(target) > 1 {
			sc.Expected = len(target) - 1 // too many once complete
		}
	case 2:
		sc.Expected = 1
	case 3:
		if r.chance(1, 3) {
			sc.Expected = 0
		}
	}
	for t, tp := range [][]byte{topic, other} {
		for _, x := range append(append([]uint16{}, members...), outsider...) {
			sc.Tags = append(sc.Tags, jTag{T: t, ID: x, Tag: hex.EncodeToString(discTag(tp, x))})
		}
	}
	g := &discGen{r: r, sc: sc, topic: topic, other: other, outsider: outsider, target: target}
	return sc, g, topic, other
}

func (g *discGen) remember(m discMsg) {
	if len(g.history) < 40 {
		g.history = append(g.history, [2]interface{}{m.from, m.data})
	}
}

// step mode: topic registered through the hook, every call synchronous.
func runDiscStep(r *prng, id int) *jDiscScen {
	sc, g, topic, other := discSetup(r, id, "step")
	f := newDiscFixture(sc, topic, other)
	vt, err := f.m.VerifRegister(topic)
	if err != nil {
		panic(err)
	}
	f.vt = vt
	if !bytes.Equal(vt.MyTag(), discTag(topic, sc.Self)) {
		sc.Plan = "own-tag-differs"
	}
	nops := 10 + r.intn(30)
	for i := 0; i < nops; i++ {
		op := jDiscOp{}
		switch k := r.intn(20); {
		case k < 13:
			m := g.gen()
			op.Op, op.Kind, op.From, op.Data = "handle", m.kind, m.from, hex.EncodeToString(m.data)
			ok := f.handle(&op, m.from, m.data)
			g.remember(m)
			if ok {
				f.snapshot(&op)
			}
			sc.Ops = append(sc.Ops, op)
			if !ok {
				return sc
			}
			continue
		case k < 15:
			op.Op = "freeze"
			f.frozen = vt.Freeze()
		case k < 17:
			if f.frozen == nil {
				f.frozen = vt.Freeze()
				sc.Ops = append(sc.Ops, jDiscOp{Op: "freeze"})
			}
			op.Op = "pass2"
			op.IV = u16s(vt.IntersectedViewFrom(f.frozen))
		case k < 19:
			op.Op = "pass"
			op.IV = u16s(vt.IntersectedView())
		default:
			op.Op = "drain"
			op.Drained = [][]uint16{}
			for _, d := range vt.DrainResponses() {
				op.Drained = append(op.Drained, u16s(d))
			}
			op.DrainedQ = [][]uint16{}
			for _, d := range vt.DrainQueries() {
				op.DrainedQ = append(op.DrainedQ, u16s(d))
			}
		}
		sc.Ops = append(sc.Ops, op)
	}
	// the race window, deliberately: everybody known so far agrees on the target, then a new member's first
	// announcement lands between the passes
	for _, p := range g.peers() {
		m := discMsg{"announce-target", p, discEncode(1, discTag(topic, p), g.target)}
		op := jDiscOp{Op: "handle", Kind: m.kind, From: p, Data: hex.EncodeToString(m.data)}
		if !f.handle(&op, p, m.data) {
			sc.Ops = append(sc.Ops, op)
			return sc
		}
		f.snapshot(&op)
		sc.Ops = append(sc.Ops, op)
		if r.chance(1, 2) {
			f.frozen = vt.Freeze()
			sc.Ops = append(sc.Ops, jDiscOp{Op: "freeze"})
		}
	}
	if f.frozen == nil {
		f.frozen = vt.Freeze()
		sc.Ops = append(sc.Ops, jDiscOp{Op: "freeze"})
	}
	iv2 := u16s(vt.IntersectedViewFrom(f.frozen))
	sc.Ops = append(sc.Ops, jDiscOp{Op: "pass2", IV: iv2})
	iv := u16s(vt.IntersectedView())
	sc.Ops = append(sc.Ops, jDiscOp{Op: "pass", IV: iv})
	// twin round: everybody agrees on the target, except one peer whose list differs from it in ONE identifier of the
	// same encoding class; then that peer comes round
	if ps := g.peers(); len(ps) > 0 {
		p := ps[r.intn(len(ps))]
		for _, v := range [][]uint16{g.twinView(), g.target} {
			m := discMsg{"announce-twin", p, discEncode(byte(1+r.intn(2)), discTag(topic, p), v)}
			op := jDiscOp{Op: "handle", Kind: m.kind, From: p, Data: hex.EncodeToString(m.data)}
			if !f.handle(&op, p, m.data) {
				sc.Ops = append(sc.Ops, op)
				return sc
			}
			f.snapshot(&op)
			sc.Ops = append(sc.Ops, op)
			iv := u16s(vt.IntersectedView())
			sc.Ops = append(sc.Ops, jDiscOp{Op: "pass", IV: iv})
		}
	}
	return sc
}

// sync mode: a real Synchronize in a goroutine, brought to rest after every operation.
func runDiscSync(r *prng, id int) *jDiscScen {
	sc, g, topic, other := discSetup(r, id, "sync")
	f := newDiscFixture(sc, topic, other)
	ctx, cancel := context.WithCancel(context.Background())
	f.cancel = cancel
	f.done = make(chan error, 1)
	probe := 100 * time.Microsecond
	go func() {
		f.done <- f.m.Synchronize(ctx, func(l []uint16) {
			f.mu.Lock()
			f.cont = append([]uint16{}, l...)
			f.nCont++
			f.mu.Unlock()
		}, topic, sc.Expected, probe)
	}()
	deadline := time.Now().Add(4 * time.Second)
	for f.vt == nil && time.Now().Before(deadline) {
		f.vt = f.m.VerifTopicOf(topic)
		if f.vt == nil {
			time.Sleep(10 * time.Microsecond)
		}
	}
	start := jDiscOp{Op: "start"}
	if f.vt == nil {
		start.Bad = "stuck"
		sc.Ops = append(sc.Ops, start)
		cancel()
		return sc
	}
	f.async(&start, true)
	f.noteReturn(&start, false)
	f.snapshot(&start)
	sc.Ops = append(sc.Ops, start)
	if start.Bad != "" {
		cancel()
		return sc
	}
	// plan: a prefix of mostly harmless traffic, then the peers announce the target, then responses
	plan := []string{"complete", "complete-noisy", "soup", "poison"}[r.intn(4)]
	sc.Plan = plan
	var script []discMsg
	peers := g.peers()
	harmless := func() discMsg {
		for {
			m := g.gen()
			switch m.kind {
			case "other-members-tag", "other-topics-tag", "outsider", "from-self", "malformed", "response":
				return m
			}
		}
	}
	switch plan {
	case "complete", "complete-noisy":
		noise := plan == "complete-noisy"
		for _, p := range peers {
			if r.chance(1, 2) {
				v := []uint16{p}
				script = append(script, discMsg{"announce-partial", p, discEncode(1, discTag(topic, p), v)})
			}
			if noise && r.chance(1, 2) {
				script = append(script, harmless())
			}
		}
		order := append([]uint16{}, peers...)
		for i := len(order) - 1; i > 0; i-- {
			j := r.intn(i + 1)
			order[i], order[j] = order[j], order[i]
		}
		for i, p := range order {
			t := byte(1)
			if r.chance(1, 3) {
				t = 2 // a peer that is already in its second loop: its query carries the list
			}
			if i == len(order)-1 && r.chance(1, 2) {
				// the last peer first announces a list that differs from the target in one same-class identifier
				script = append(script, discMsg{"announce-twin", p, discEncode(1, discTag(topic, p), g.twinView())})
			}
			script = append(script, discMsg{"announce-target", p, discEncode(t, discTag(topic, p), g.target)})
			if noise && r.chance(1, 2) {
				script = append(script, harmless())
			}
		}
		// responses: some mismatching, some duplicated, from members inside and outside the list
		resp := append([]uint16{}, order...)
		for _, x := range sc.Members {
			if x != sc.Self && r.chance(1, 3) {
				resp = append(resp, x)
			}
		}
		// second round: every peer acknowledges and queries; some lists do not match, some messages come twice,
		// some peers never query, and the two kinds arrive in any order
		var second []discMsg
		for _, p := range resp {
			v := g.target
			if r.chance(1, 4) {
				v = g.lyingView(p)
			}
			second = append(second, discMsg{"response", p, discEncode(3, discTag(topic, p), v)})
			if r.chance(1, 4) {
				second = append(second, discMsg{"response", p, discEncode(3, discTag(topic, p), g.target)})
			}
			if !r.chance(1, 6) {
				q := g.target
				if r.chance(1, 5) {
					q = g.lyingView(p)
				}
				second = append(second, discMsg{"query", p, discEncode(2, discTag(topic, p), q)})
				if r.chance(1, 5) {
					second = append(second, discMsg{"query", p, discEncode(2, discTag(topic, p), g.target)})
				}
			}
		}
		for i := len(second) - 1; i > 0; i-- {
			j := r.intn(i + 1)
			second[i], second[j] = second[j], second[i]
		}
		for _, m := range second {
			script = append(script, m)
			if noise && r.chance(1, 4) {
				script = append(script, harmless())
			}
		}
		if r.chance(1, 3) { // cut the run short somewhere
			script = script[:r.intn(len(script)+1)]
		}
	case "soup":
		for i, n := 0, 8+r.intn(25); i < n; i++ {
			script = append(script, g.gen())
		}
	case "poison":
		for i, n := 0, 5+r.intn(12); i < n; i++ {
			m := g.gen()
			script = append(script, m)
		}
		for _, p := range peers {
			script = append(script, discMsg{"announce-target", p, discEncode(1, discTag(topic, p), g.target)})
		}
		for _, p := range peers {
			script = append(script, discMsg{"response", p, discEncode(3, discTag(topic, p), g.target)})
			script = append(script, discMsg{"query", p, discEncode(2, discTag(topic, p), g.target)})
		}
	}
	for _, m := range script {
		op := jDiscOp{Op: "handle", Kind: m.kind, From: m.from, Data: hex.EncodeToString(m.data)}
		was := f.returned
		ok := f.handle(&op, m.from, m.data)
		g.remember(m)
		if ok {
			f.async(&op, true)
			f.noteReturn(&op, was)
			f.snapshot(&op)
		}
		sc.Ops = append(sc.Ops, op)
		if op.Bad != "" {
			cancel()
			return sc
		}
	}
	// the context ends
	op := jDiscOp{Op: "cancel"}
	was := f.returned
	cancel()
	if !f.returned {
		select {
		case err := <-f.done:
			f.returned = true
			f.err = err
		case <-time.After(4 * time.Second):
			op.Bad = "stuck"
		}
	}
	f.noteReturn(&op, was)
	f.mu.Lock()
	if f.nCont > f.seenCont {
		c := u16s(f.cont)
		op.Cont = &c
		op.NCont = f.nCont - f.seenCont
		f.seenCont = f.nCont
	}
	f.mu.Unlock()
	sc.Ops = append(sc.Ops, op)
	return sc
}

// The witness of the repaired two-pass defect (Disc/Refute.v race_script) as a fixed step-mode scenario, run before the
// generated ones: member 1 of {1,2,3,4}, expected 3; 3 announces [1 2 3]; the Range of intersectedView sees that; the
// first announcement of 2 ([2]) lands; the rest of intersectedView runs.  Upstream returned [1 2 3] here.
func runDiscWitness(id int) *jDiscScen {
	topic := []byte("C07 two-pass witness")
	other := []byte("another topic")
	sc := &jDiscScen{ID: id, Mode: "step", Plan: "witness", Self: 1, Members: []uint16{1, 2, 3, 4}, Expected: 3}
	for t, tp := range [][]byte{topic, other} {
		for _, x := range []uint16{1, 2, 3, 4, 9} {
			sc.Tags = append(sc.Tags, jTag{T: t, ID: x, Tag: hex.EncodeToString(discTag(tp, x))})
		}
	}
	f := newDiscFixture(sc, topic, other)
	vt, err := f.m.VerifRegister(topic)
	if err != nil {
		panic(err)
	}
	f.vt = vt
	handle := func(kind string, from uint16, data []byte) bool {
		op := jDiscOp{Op: "handle", Kind: kind, From: from, Data: hex.EncodeToString(data)}
		ok := f.handle(&op, from, data)
		if ok {
			f.snapshot(&op)
		}
		sc.Ops = append(sc.Ops, op)
		return ok
	}
	if !handle("announce-target", 3, discEncode(1, discTag(topic, 3), []uint16{1, 2, 3})) {
		return sc
	}
	fz := vt.Freeze()
	sc.Ops = append(sc.Ops, jDiscOp{Op: "freeze"})
	if !handle("announce-partial", 2, discEncode(1, discTag(topic, 2), []uint16{2})) {
		return sc
	}
	iv2 := u16s(vt.IntersectedViewFrom(fz))
	sc.Ops = append(sc.Ops, jDiscOp{Op: "pass2", IV: iv2})
	iv := u16s(vt.IntersectedView())
	sc.Ops = append(sc.Ops, jDiscOp{Op: "pass", IV: iv})
	// 2 catches up: now the list is agreed
	if !handle("announce-target", 2, discEncode(2, discTag(topic, 2), []uint16{1, 2, 3})) {
		return sc
	}
	iv = u16s(vt.IntersectedView())
	sc.Ops = append(sc.Ops, jDiscOp{Op: "pass", IV: iv})
	return sc
}

// Two lists that differ only in identifiers of one encoding class, as a fixed step-mode scenario: member 1 of
// {1, 2, 0xD800, 0xD801}, expected 3, has heard 2 and 0xD800; 2 (which has heard 0xD801 instead) announces
// [1 2 0xD801].  intersectedView must not take that for the own view [1 2 0xD800]; nor may a response or query
// carrying the other list be waiting as if it matched (drained and compared).
func runDiscTwinWitness(id int) *jDiscScen {
	topic := []byte("C07 twin identifiers")
	other := []byte("another topic")
	sc := &jDiscScen{ID: id, Mode: "step", Plan: "twin-witness", Self: 1, Members: []uint16{1, 2, 0xD800, 0xD801}, Expected: 3}
	for t, tp := range [][]byte{topic, other} {
		for _, x := range []uint16{1, 2, 0xD800, 0xD801, 0xFFFD} {
			sc.Tags = append(sc.Tags, jTag{T: t, ID: x, Tag: hex.EncodeToString(discTag(tp, x))})
		}
	}
	f := newDiscFixture(sc, topic, other)
	vt, err := f.m.VerifRegister(topic)
	if err != nil {
		panic(err)
	}
	f.vt = vt
	steps := []struct {
		kind string
		t    byte
		from uint16
		v    []uint16
	}{
		{"announce-target", 1, 0xD800, []uint16{1, 2, 0xD800}},
		{"announce-twin", 1, 2, []uint16{1, 2, 0xD801}},
		{"announce-twin", 2, 2, []uint16{1, 2, 0xFFFD}},
		{"announce-target", 1, 2, []uint16{1, 2, 0xD800}},
	}
	for _, st := range steps {
		data := discEncode(st.t, discTag(topic, st.from), st.v)
		op := jDiscOp{Op: "handle", Kind: st.kind, From: st.from, Data: hex.EncodeToString(data)}
		ok := f.handle(&op, st.from, data)
		if ok {
			f.snapshot(&op)
		}
		sc.Ops = append(sc.Ops, op)
		if !ok {
			return sc
		}
		iv := u16s(vt.IntersectedView())
		sc.Ops = append(sc.Ops, jDiscOp{Op: "pass", IV: iv})
	}
	return sc
}
