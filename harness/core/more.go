package main

func dispatchMore(cmd string, r *prng, count int, extra string) bool {
	switch cmd {
	case "codec":
		runCodec(r, count)
	default:
		return false
	}
	return true
}
