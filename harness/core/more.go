package main

func dispatchMore(cmd string, r *prng, count int, extra string) bool {
	return false
}
