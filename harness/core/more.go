package main

func dispatchMore(cmd string, r *prng, count int, extra string) bool {
	switch cmd {
	case "codec":
		runCodec(r, count)
	case "orch":
		for i := 0; i < count; i++ {
			emit(runOrchHistory(newPRNG(r.next()), i))
		}
	case "replay":
		replayFile(extra)
	case "fuzz-dispatch":
		runFuzzDispatch(r, count)
	case "box-conc":
		runBoxConcAll(r, count, extra == "thorough")
	case "box-seq":
		for i := 0; i < count; i++ {
			emit(runBoxSeq(newPRNG(r.next()), i))
		}
	case "disc-step":
		emit(runDiscWitness(99999))
		emit(runDiscTwinWitness(99998))
		for i := 0; i < count && discBadOps < 4; i++ {
			emit(runDiscStep(newPRNG(r.next()), i))
		}
	case "disc-sync":
		for i := 0; i < count && discBadOps < 4; i++ {
			emit(runDiscSync(newPRNG(r.next()), 100000+i))
		}
	case "disc-run":
		runDiscWholeBatch(r, count)
	case "disc-race":
		emit(runDiscRace(r, count))
	case "admission":
		runAdmissionAll()
	case "admission-one":
		runAdmissionOne(extra)
	case "deadline":
		runDeadlineAll()
	case "deadline-one":
		runDeadlineOne(extra)
	default:
		return false
	}
	return true
}
