package main

import (
	"encoding/hex"
	"encoding/json"
	"fmt"
	"os"
	"sort"

	. "github.com/IBM/TSS/types"
)

// `core replay -x <file>`: re-executes the scenario stored in a replay file on the implementation and emits what it
// observed this time, in the same format the generating sub-command uses.

func replayFile(path string) {
	raw, err := os.ReadFile(path)
	if err != nil {
		panic(err)
	}
	var doc map[string]json.RawMessage
	if err := json.Unmarshal(raw, &doc); err != nil {
		panic(err)
	}
	body := raw
	if s, ok := doc["scenario"]; ok {
		body = s
	} else if c, ok := doc["case"]; ok {
		body = c
	}
	var head struct {
		Kind string `json:"kind"`
	}
	json.Unmarshal(body, &head)
	switch head.Kind {
	case "rbc":
		var sc jScenario
		json.Unmarshal(body, &sc)
		universe := append([]uint16{}, sc.Members...)
		seen := map[uint16]bool{}
		for _, m := range universe {
			seen[m] = true
		}
		for _, e := range sc.Events {
			if !seen[e.From] {
				seen[e.From] = true
				universe = append(universe, e.From)
			}
		}
		forcedMapKind = sc.Map
		if len(sc.MapTable) > 0 {
			forcedMapTable = sc.MapTable
		}
		if forcedMapKind == "" {
			forcedMapKind = "identity"
		}
		w, err := newRBCWorld(newPRNG(1), sc.ID, sc.Members, sc.Honest, universe, sc.Mode, sc.AcceptEmpty)
		if err != nil {
			emit(&jScenario{Kind: "rbc", ID: sc.ID, Err: err.Error()})
			return
		}
		w.sc.FaultFree, w.sc.Sched, w.sc.Sent = sc.FaultFree, sc.Sched, sc.Sent
		for _, e := range sc.Events {
			d, _ := hex.DecodeString(e.Data)
			w.deliver(flight{to: e.H, from: e.From, data: d, kind: e.Kind})
		}
		emit(w.finish(sc.Drained))
	case "box":
		var sc jBoxScenario
		json.Unmarshal(body, &sc)
		out := &jBoxScenario{Kind: "box", ID: sc.ID, Limit: sc.Limit, MaxT: sc.MaxT, E: sc.E, Ops: []jBoxOp{}, Pending: []jBoxPending{}, Started: []string{}}
		sb := newSeqBox(sc.MaxT, sc.E)
		for _, op := range sc.Ops {
			o := jBoxOp{Op: op.Op, Msg: op.Msg, Topic: op.Topic}
			sb.do(&o)
			out.Ops = append(out.Ops, o)
		}
		sb.snapshot(out)
		sb.box.Stop()
		emit(out)
	case "boxconc":
		var sc jConcScenario
		json.Unmarshal(body, &sc)
		var sched []int
		for _, g := range sc.Grants {
			if !g.Noop {
				sched = append(sched, g.Thread)
			}
		}
		emit(runBoxConc(sc.ID, sc.Family, sc.Threads, sched, sc.MaxT))
	case "orch":
		var sc jOrchScenario
		json.Unmarshal(body, &sc)
		mp := map[UniversalID]PartyID{}
		keys := []string{}
		for u := range sc.Membership {
			keys = append(keys, u)
		}
		sort.Strings(keys)
		for _, u := range keys {
			var x int
			fmt.Sscanf(u, "%d", &x)
			mp[UniversalID(x)] = PartyID(sc.Membership[u])
		}
		w := newOrchWorld(sc.ID, sc.Self, sc.Threshold, mp)
		toMap := func(in map[string]uint16) map[UniversalID]PartyID {
			m := map[UniversalID]PartyID{}
			for u, p := range in {
				var x int
				fmt.Sscanf(u, "%d", &x)
				m[UniversalID(x)] = PartyID(p)
			}
			return m
		}
		for _, st := range sc.Steps {
			if st.MapPre != nil {
				w.sc.Steps = append(w.sc.Steps, w.remap(toMap(st.MapPre)))
			}
			switch st.Op {
			case "start":
				w.sc.Steps = append(w.sc.Steps, w.start(*st.Plan))
			case "release":
				w.sc.Steps = append(w.sc.Steps, w.release(st.SID))
			case "cancel":
				w.sc.Steps = append(w.sc.Steps, w.cancelSession(st.SID))
			case "inject":
				w.sc.Steps = append(w.sc.Steps, w.inject(*st.Inject))
			case "remap":
				w.sc.Steps = append(w.sc.Steps, w.remap(toMap(st.Map)))
			}
		}
		emit(w.sc)
	case "fuzz":
		var c jFuzzCase
		json.Unmarshal(body, &c)
		members := []uint16{1, 2, 256, 65535}
		self := uint16(1)
		if c.From == 1 {
			self = 2
		}
		n := newFuzzNode(c.Mode, self, members, c.State == "synchronising")
		if c.State != "idle" {
			n.startKeyGen(members)
			if c.State != "synchronising" && n.backend != nil {
				<-n.backend.entered
			}
			if c.State == "finished" {
				n.stop()
			}
		}
		topic, _ := hex.DecodeString(c.Topic)
		data, _ := hex.DecodeString(c.Data)
		out := c
		out.Panic, out.Hang, out.PanicV = false, false, ""
		reps := 1
		if c.Class == "burst" {
			reps = 105
		}
		for i := 0; i < reps && !out.Panic && !out.Hang; i++ {
			n.feed(&out, topic, data)
		}
		n.stop()
		emit(out)
	default:
		fmt.Fprintln(os.Stderr, "replay: unknown scenario kind", head.Kind)
		os.Exit(3)
	}
}
