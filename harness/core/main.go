package main

import (
	"bufio"
	"encoding/json"
	"flag"
	"fmt"
	"os"
)

var out *bufio.Writer

func emit(v interface{}) {
	b, err := json.Marshal(v)
	if err != nil {
		panic(err)
	}
	out.Write(b)
	out.WriteByte('\n')
	out.Flush() // a crash of the code under test must not lose what was already observed
}

func main() {
	if len(os.Args) < 2 {
		fmt.Fprintln(os.Stderr, "usage: core <cmd> [flags]")
		os.Exit(2)
	}
	cmd := os.Args[1]
	fs := flag.NewFlagSet(cmd, flag.ExitOnError)
	seed := fs.Uint64("seed", 1, "PRNG seed")
	count := fs.Int("n", 100, "number of cases")
	outPath := fs.String("out", "", "output file (JSON lines); default stdout")
	extra := fs.String("x", "", "command-specific argument")
	fs.Parse(os.Args[2:])
	f := os.Stdout
	if *outPath != "" {
		var err error
		f, err = os.Create(*outPath)
		if err != nil {
			panic(err)
		}
		defer f.Close()
	}
	out = bufio.NewWriterSize(f, 1<<20)
	defer out.Flush()
	r := newPRNG(*seed)
	switch cmd {
	case "rbc-adv":
		for i := 0; i < *count; i++ {
			emit(runRBCAdversarial(newPRNG(r.next()), i, nil))
		}
	case "rbc-attack":
		for i := 0; i < *count; i++ {
			emit(runRBCAttack(newPRNG(r.next()), 100000+i))
		}
	case "rbc-ff":
		for i := 0; i < *count; i++ {
			emit(runRBCFaultFree(newPRNG(r.next()), i))
		}
	default:
		if !dispatchMore(cmd, r, *count, *extra) {
			fmt.Fprintln(os.Stderr, "unknown command", cmd)
			os.Exit(2)
		}
	}
}
