package main

import (
	"context"
	"encoding/hex"
	"fmt"
	"time"

	discovery "github.com/IBM/TSS/disc"
	"github.com/IBM/TSS/threshold"
	. "github.com/IBM/TSS/types"
)

// C10: arbitrary messages at the dispatcher of a real Scheme (loud: real disc.Member + real rbc.Receiver; silent: real
// msg.Box in front) in the states idle / synchronising / protocol running / finished. Every call runs under recover
// and under a watchdog.

type jFuzzCase struct {
	Kind   string `json:"kind"`
	State  string `json:"state"`
	Mode   string `json:"mode"` // loud | silent
	Type   uint8  `json:"type"`
	Topic  string `json:"topic"`
	From   uint16 `json:"from"`
	Data   string `json:"data"`
	Class  string `json:"class"`
	Panic  bool   `json:"panic"`
	PanicV string `json:"panic_val,omitempty"`
	Hang   bool   `json:"hang"`
}

type fuzzNode struct {
	mp      MpcParty
	scheme  *threshold.Scheme
	backend *scriptedBackend
	cancel  context.CancelFunc
	done    chan struct{}
}

func newFuzzNode(mode string, self uint16, members []uint16, realSync bool) *fuzzNode {
	n := &fuzzNode{}
	mk := func(uint16) *scriptedBackend {
		b := newBackend(self, false)
		n.backend = b
		return b
	}
	send := func(msgType uint8, topic []byte, msg []byte, to ...uint16) {}
	membership := func() map[UniversalID]PartyID { return identityMembership(members) }
	if mode == "silent" {
		n.mp = threshold.SilentScheme(self, nopLogger{}, func(i uint16) KeyGenerator { return mk(i) }, func(i uint16) Signer { return mk(i) }, len(members)-1, send, membership,
			func(topic []byte, expected int) []uint16 { return members })
	} else {
		n.mp = threshold.LoudScheme(self, nopLogger{}, func(i uint16) KeyGenerator { return mk(i) }, func(i uint16) Signer { return mk(i) }, len(members)-1, send, membership)
		n.scheme = n.mp.(*threshold.Scheme)
		if !realSync {
			n.scheme.SyncFactory = func(m []uint16, _ func(msg []byte), _ func(msg []byte, to uint16)) Synchronizer {
				return &scriptedSync{given: m, decide: func([]byte, int, []uint16) syncAction { return syncAction{members: members} }}
			}
		}
	}
	return n
}

func (n *fuzzNode) startKeyGen(members []uint16) {
	ctx, cancel := context.WithCancel(context.Background())
	n.cancel = cancel
	n.done = make(chan struct{})
	go func() {
		defer close(n.done)
		defer func() { recover() }()
		n.mp.KeyGen(ctx, len(members), len(members)-1)
	}()
}

func (n *fuzzNode) stop() {
	if n.cancel != nil {
		n.cancel()
		select {
		case <-n.done:
		case <-time.After(3 * time.Second):
		}
	}
}

func (n *fuzzNode) feed(c *jFuzzCase, topic, data []byte) {
	res := make(chan string, 1)
	go func() {
		defer func() {
			if r := recover(); r != nil {
				res <- "panic:" + fmt.Sprint(r)
				return
			}
			res <- "ok"
		}()
		t := make([]byte, len(topic))
		copy(t, topic)
		d := make([]byte, len(data))
		copy(d, data)
		n.mp.HandleMessage(&IncMessage{MsgType: c.Type, Topic: t, Source: c.From, Data: d})
	}()
	select {
	case r := <-res:
		if r != "ok" {
			c.Panic, c.PanicV = true, r[6:]
		}
	case <-time.After(3 * time.Second):
		c.Hang = true
	}
}

func fuzzMessages(r *prng, self uint16, members []uint16, dkgTopic []byte) [][4]interface{} {
	var out [][4]interface{}
	add := func(class string, ty uint8, topic, data []byte) {
		out = append(out, [4]interface{}{class, ty, topic, data})
	}
	other := members[0]
	if other == self {
		other = members[1]
	}
	tagOf := func(id uint16) []byte { return discovery.VerifPRF(dkgTopic, id) }
	// synchroniser traffic: valid, for the wrong sender, truncated, odd-length, every message type byte
	for ty := 0; ty < 6; ty++ {
		valid := discovery.VerifEncode(uint8(1+ty%3), string(tagOf(other)), members)
		valid[0] = byte(ty)
		add("sync-type", uint8(MsgTypeSync), dkgTopic, valid)
	}
	valid := discovery.VerifEncode(1, string(tagOf(other)), members)
	for cut := 0; cut <= len(valid); cut++ {
		add("sync-truncated", uint8(MsgTypeSync), dkgTopic, valid[:cut])
	}
	add("sync-odd", uint8(MsgTypeSync), dkgTopic, append(append([]byte{}, valid...), 7))
	add("sync-own-tag", uint8(MsgTypeSync), dkgTopic, discovery.VerifEncode(2, string(tagOf(self)), members))
	add("sync-response-early", uint8(MsgTypeSync), dkgTopic, discovery.VerifEncode(3, string(tagOf(other)), members))
	// MPC traffic: acks of every small length, payloads the classifier accepts / rejects, empty
	for l := 0; l <= 12; l++ {
		d := r.bytes(l)
		if l > 0 {
			d[0] &= 0x7f
		}
		add("mpc-ack-short", uint8(MsgTypeMPC), dkgTopic, d)
	}
	add("mpc-empty-payload", uint8(MsgTypeMPC), dkgTopic, []byte{255})
	add("mpc-p2p", uint8(MsgTypeMPC), dkgTopic, wirePayload(mkPayload(r, 1, false)))
	add("mpc-bcast", uint8(MsgTypeMPC), dkgTopic, wirePayload(mkPayload(r, 2, true)))
	add("mpc-reject", uint8(MsgTypeMPC), dkgTopic, []byte{255, 250, 1})
	// topics of every length, unknown topics, unknown message types
	for l := 0; l <= 40; l += 1 {
		add("topic-len", uint8(1+l%2), r.bytes(l), wirePayload(mkPayload(r, 0, false)))
	}
	for ty := 0; ty < 8; ty++ {
		add("msg-type", uint8(ty), dkgTopic, r.bytes(r.intn(6)))
	}
	add("msg-type", 255, dkgTopic, nil)
	for i := 0; i < 20; i++ {
		add("random", uint8(r.intn(4)), dkgTopic, r.bytes(r.intn(80)))
	}
	return out
}

func runFuzzDispatch(r *prng, count int) {
	members := []uint16{1, 2, 256, 65535}
	dkgTopic := sha([]byte(DkgTopicName))
	for round := 0; round < count; round++ {
		self := members[r.intn(len(members))]
		for _, mode := range []string{"loud", "silent"} {
			for _, state := range []string{"idle", "synchronising", "running", "finished"} {
				if mode == "silent" && state == "synchronising" {
					continue // the silent synchroniser never waits
				}
				n := newFuzzNode(mode, self, members, state == "synchronising")
				switch state {
				case "synchronising":
					n.startKeyGen(members) // real disc.Member, nobody answers
					time.Sleep(2 * time.Millisecond)
				case "running", "finished":
					n.startKeyGen(members) // scripted synchroniser: the backend's KeyGen blocks
					if n.backend != nil {
						select {
						case <-n.backend.entered:
						case <-time.After(3 * time.Second):
						}
					}
					if state == "finished" {
						n.stop()
					}
				}
				for _, m := range fuzzMessages(r, self, members, dkgTopic) {
					from := members[r.intn(len(members))]
					if from == self || r.chance(1, 8) {
						from = members[(r.intn(len(members)-1)+1)%len(members)]
						if from == self {
							from = 777
						}
					}
					c := jFuzzCase{Kind: "fuzz", State: state, Mode: mode, Type: m[1].(uint8), From: from, Class: m[0].(string),
						Topic: hex.EncodeToString(m[2].([]byte)), Data: hex.EncodeToString(m[3].([]byte))}
					n.feed(&c, m[2].([]byte), m[3].([]byte))
					emit(c)
				}
				// a burst beyond the silent-mode limits from one sender on one topic
				if mode == "silent" {
					for i := 0; i < 105; i++ {
						c := jFuzzCase{Kind: "fuzz", State: state, Mode: mode, Type: uint8(MsgTypeMPC), From: 2, Class: "burst",
							Topic: hex.EncodeToString(sha([]byte("burst"))), Data: "ff01"}
						n.feed(&c, sha([]byte("burst")), []byte{255, 1})
						if c.Panic || c.Hang || i == 104 {
							emit(c)
						}
					}
				}
				n.stop()
			}
		}
	}
}
