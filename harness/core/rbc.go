package main

import (
	"encoding/hex"
	"fmt"
	"sort"

	. "github.com/IBM/TSS/types"
)

type jOnMsg struct {
	P    string `json:"p"`
	From uint16 `json:"from"`
	B    bool   `json:"b"`
}

type jAck struct {
	Data string   `json:"data"`
	To   []uint16 `json:"to"`
}

type jEvent struct {
	H      uint16   `json:"h"`
	From   uint16   `json:"from"`
	Data   string   `json:"data"`
	OnMsg  []jOnMsg `json:"onmsg"`
	Acks   []jAck   `json:"acks"`
	Other  int      `json:"other_sends"`
	Panic  bool     `json:"panic"`
	PanicV string   `json:"panic_val,omitempty"`
	Kind   string   `json:"kind"`
}

type jBcast struct {
	S uint16 `json:"s"`
	R uint8  `json:"r"`
	P string `json:"p"`
	B bool   `json:"b"`
	T uint16 `json:"t"` // addressee for p2p
}

type jScenario struct {
	Kind        string      `json:"kind"`
	ID          int         `json:"id"`
	Mode        string      `json:"mode"`
	N           int         `json:"n"`
	Members     []uint16    `json:"members"`
	Honest      []uint16    `json:"honest"`
	AcceptEmpty bool        `json:"accept_empty"`
	FaultFree   bool        `json:"faultfree"`
	Sched       string      `json:"sched"`
	Hash        [][2]string `json:"hash"`
	Events      []jEvent    `json:"events"`
	Sent        []jBcast    `json:"sent"`
	Drained     bool        `json:"drained"`
	Err         string      `json:"err,omitempty"`
	Map         string      `json:"map"` // identity | offset | permuted: the node -> party map of the scenario
	MapTable    [][2]uint16 `json:"map_table,omitempty"`
}

type flight struct {
	to, from uint16
	data     []byte
	kind     string
}

type rbcWorld struct {
	r       *prng
	members []uint16
	honest  map[uint16]*party
	sess    map[uint16]*session
	topic   []byte
	sc      *jScenario
	pool    []flight
	hashes  map[string]string
	inv     map[uint16]uint16 // party -> node of the scenario's membership map (nil: identity)
}

func identityMembership(universe []uint16) map[UniversalID]PartyID {
	m := map[UniversalID]PartyID{}
	for _, u := range universe {
		m[UniversalID(u)] = PartyID(u)
	}
	return m
}

// membership maps of the RBC scenarios: the node -> party translation sits between reliable broadcast and the backend, so the
// scenarios run over the identity, an offset and a permuted (injective) map; what the backend is handed is translated back
// to node identifiers before it is compared with the model and judged by the monitors
func scenarioMembership(kind string, id int, universe []uint16) (map[UniversalID]PartyID, map[uint16]uint16) {
	m := map[UniversalID]PartyID{}
	inv := map[uint16]uint16{}
	r := newPRNG(uint64(id)*2654435761 + 17) // the table is a function of (kind, scenario id, universe): replayable
	switch kind {
	case "offset":
		k := uint16(1 + r.intn(60000))
		for _, u := range universe {
			m[UniversalID(u)] = PartyID(u + k)
		}
	case "permuted":
		perm := append([]uint16(nil), universe...)
		for i := len(perm) - 1; i > 0; i-- {
			j := r.intn(i + 1)
			perm[i], perm[j] = perm[j], perm[i]
		}
		for i, u := range universe {
			m[UniversalID(u)] = PartyID(perm[i])
		}
	default:
		return identityMembership(universe), nil
	}
	for u, p := range m {
		inv[uint16(p)] = uint16(u)
	}
	return m, inv
}

// forcedMapKind: set by the replay to the map kind recorded in the scenario (consumed by the next newRBCWorld)
var forcedMapKind string
var forcedMapTable [][2]uint16

func newRBCWorld(r *prng, id int, members, honest, universe []uint16, mode string, acceptEmpty bool) (*rbcWorld, error) {
	w := &rbcWorld{r: r, members: members, honest: map[uint16]*party{}, sess: map[uint16]*session{}, hashes: map[string]string{}}
	mapKind := forcedMapKind
	forcedMapKind = ""
	if mapKind == "" {
		mapKind = []string{"offset", "permuted", "identity", "identity"}[r.intn(4)]
	}
	mm, inv := scenarioMembership(mapKind, id, universe)
	if forcedMapTable != nil {
		mm, inv = map[UniversalID]PartyID{}, map[uint16]uint16{}
		for _, e := range forcedMapTable {
			mm[UniversalID(e[0])] = PartyID(e[1])
			inv[e[1]] = e[0]
		}
		forcedMapTable = nil
	}
	w.inv = inv
	w.sc = &jScenario{Kind: "rbc", ID: id, Mode: mode, N: len(members), Members: members, Honest: honest, AcceptEmpty: acceptEmpty,
		Events: []jEvent{}, Sent: []jBcast{}, Hash: [][2]string{}, Map: mapKind}
	if mapKind != "identity" {
		for _, u := range universe {
			w.sc.MapTable = append(w.sc.MapTable, [2]uint16{u, uint16(mm[UniversalID(u)])})
		}
	}
	w.noteHash(nil)
	sorted := append([]uint16(nil), members...)
	sort.Slice(sorted, func(i, j int) bool { return sorted[i] < sorted[j] })
	for _, h := range honest {
		p := newParty(h, len(members)-1, mm, acceptEmpty)
		var s *session
		var err error
		if mode == "sign" {
			s, err = p.startSign(sorted, fmt.Sprintf("topic-%d", id), sha([]byte("msg")))
		} else {
			s, err = p.startKeyGen(sorted, len(members), len(members)-1)
		}
		if err != nil {
			return nil, err
		}
		p.takeSends()
		w.honest[h] = p
		w.sess[h] = s
		w.topic = s.topic
	}
	return w, nil
}

func (w *rbcWorld) close() {
	for _, s := range w.sess {
		s.stop()
	}
}

func (w *rbcWorld) noteHash(payload []byte) {
	k := hex.EncodeToString(payload)
	if _, ok := w.hashes[k]; !ok {
		w.hashes[k] = hex.EncodeToString(sha(payload))
	}
}

// deliver hands one message to honest party h through Scheme.HandleMessage and records what it did.
func (w *rbcWorld) deliver(f flight) {
	p := w.honest[f.to]
	if len(f.data) > 0 && f.data[0] >= 128 {
		w.noteHash(f.data[1:])
	}
	panicked, pv := p.handle(uint8(MsgTypeMPC), w.topic, f.from, f.data)
	ev := jEvent{H: f.to, From: f.from, Data: hex.EncodeToString(f.data), Panic: panicked, PanicV: pv, Kind: f.kind, OnMsg: []jOnMsg{}, Acks: []jAck{}}
	for _, be := range p.backends {
		for _, o := range be.takeOnMsg() {
			from := o.From
			if w.inv != nil {
				if u, ok := w.inv[from]; ok {
					from = u
				} else {
					from = 0xfffe // attributed to a party that no node of the universe represents
				}
			}
			ev.OnMsg = append(ev.OnMsg, jOnMsg{P: hex.EncodeToString(o.Payload), From: from, B: o.Bcast})
		}
	}
	for _, s := range p.takeSends() {
		if s.Type == uint8(MsgTypeMPC) && string(s.Topic) == string(w.topic) && len(s.Data) > 0 && s.Data[0] < 128 {
			ev.Acks = append(ev.Acks, jAck{Data: hex.EncodeToString(s.Data), To: s.To})
			for _, to := range s.To {
				if _, ok := w.honest[to]; ok && to != f.to {
					w.pool = append(w.pool, flight{to: to, from: f.to, data: s.Data, kind: "hack"})
				}
			}
		} else {
			ev.Other++
		}
	}
	w.sc.Events = append(w.sc.Events, ev)
}

func mkPayload(r *prng, round uint8, bcast bool) []byte {
	b0 := round%8 + 16*uint8(r.intn(12))
	if bcast {
		b0 += 8
	}
	return append([]byte{b0}, r.bytes(r.intn(6))...)
}

func wirePayload(p []byte) []byte { return append([]byte{255}, p...) }

func wireAck(digest []byte, sender uint16, round uint8) []byte {
	return append([]byte{round & 0x7f, byte(sender >> 8), byte(sender)}, digest...)
}

func (w *rbcWorld) honestIDs() []uint16 { return w.sc.Honest }

func (w *rbcWorld) finish(drained bool) *jScenario {
	keys := make([]string, 0, len(w.hashes))
	for k := range w.hashes {
		keys = append(keys, k)
	}
	sort.Strings(keys)
	for _, k := range keys {
		w.sc.Hash = append(w.sc.Hash, [2]string{k, w.hashes[k]})
	}
	w.sc.Drained = drained
	w.close()
	return w.sc
}

// ---------- adversarial scenarios (C02, C03, C10) ----------

func runRBCAdversarial(r *prng, id int, script []flight) *jScenario {
	n := 3 + r.intn(4)
	if r.chance(1, 6) {
		n = 2
	}
	small := r.chance(1, 3)
	ids := r.distinctIDs(n+2, small)
	members := ids[:n]
	outsiders := ids[n:]
	nh := 2 + r.intn(n-1)
	if nh > n {
		nh = n
	}
	if n == 2 {
		nh = 1 + r.intn(2)
	}
	honest := append([]uint16(nil), members[:nh]...)
	byz := append([]uint16(nil), members[nh:]...)
	mode := "sign"
	if r.chance(1, 2) {
		mode = "dkg"
	}
	w, err := newRBCWorld(r, id, members, honest, ids, mode, r.chance(1, 3))
	if err != nil {
		return &jScenario{Kind: "rbc", ID: id, Err: err.Error()}
	}
	w.sc.Sched = "adversarial"
	bad := append(append([]uint16(nil), byz...), outsiders...)
	type sr struct {
		s uint16
		r uint8
	}
	usedRound := map[sr]bool{}
	var digests [][]byte
	var history []flight
	steps := 5 + r.intn(36)
	for i := 0; i < steps; i++ {
		c := r.intn(100)
		switch {
		case c < 45 && len(w.pool) > 0:
			j := r.intn(len(w.pool))
			f := w.pool[j]
			if !r.chance(1, 10) {
				w.pool = append(w.pool[:j], w.pool[j+1:]...)
			}
			history = append(history, f)
			w.deliver(f)
		case c < 60:
			// honest sender behaviour: one payload per (sender, round), to everybody else
			s := r.pick16(honest)
			round := uint8(r.intn(3))
			bc := r.chance(3, 4)
			if bc {
				if usedRound[sr{s, round}] {
					continue
				}
				usedRound[sr{s, round}] = true
				p := mkPayload(r, round, true)
				digests = append(digests, sha(p))
				w.sc.Sent = append(w.sc.Sent, jBcast{S: s, R: round, P: hex.EncodeToString(p), B: true})
				for _, x := range honest {
					if x != s {
						w.pool = append(w.pool, flight{to: x, from: s, data: wirePayload(p), kind: "hbcast"})
					}
				}
			} else {
				x := r.pick16(honest)
				if x == s {
					continue
				}
				p := mkPayload(r, round, false)
				w.sc.Sent = append(w.sc.Sent, jBcast{S: s, R: round, P: hex.EncodeToString(p), B: false, T: x})
				w.pool = append(w.pool, flight{to: x, from: s, data: wirePayload(p), kind: "hp2p"})
			}
		default:
			if len(bad) == 0 {
				continue
			}
			from := r.pick16(bad)
			to := r.pick16(honest)
			var f flight
			k := r.intn(100)
			switch {
			case k < 25: // (possibly equivocating) broadcast payload
				p := mkPayload(r, uint8(r.intn(2)), true)
				digests = append(digests, sha(p))
				f = flight{to: to, from: from, data: wirePayload(p), kind: "bbcast"}
				if r.chance(1, 2) { // and vouch for it oneself
					history = append(history, f)
					w.deliver(f)
					f = flight{to: to, from: from, data: wireAck(sha(p), from, p[0]%8), kind: "selfack"}
				}
			case k < 60: // acknowledgement: about anybody, any known or unknown digest
				var d []byte
				switch {
				case len(digests) > 0 && r.chance(3, 4):
					d = digests[r.intn(len(digests))]
				case r.chance(1, 3):
					d = r.bytes(1 + r.intn(9))
				default:
					d = r.bytes(32)
				}
				about := r.pick16(w.members)
				switch r.intn(6) {
				case 0:
					about = from
				case 1:
					about = to
				case 2:
					about = r.pick16(append(outsiders, 0))
				}
				f = flight{to: to, from: from, data: wireAck(d, about, uint8(r.intn(3))), kind: "back"}
			case k < 70 && len(history) > 0: // replay something seen earlier, from this source
				old := history[r.intn(len(history))]
				f = flight{to: to, from: from, data: old.data, kind: "replay"}
			case k < 80: // p2p payload
				f = flight{to: to, from: from, data: wirePayload(mkPayload(r, uint8(r.intn(3)), false)), kind: "bp2p"}
			default: // malformed
				var d []byte
				switch r.intn(8) {
				case 0:
					d = []byte{}
				case 1:
					d = []byte{byte(r.intn(128))}
				case 2:
					d = []byte{byte(r.intn(128)), byte(r.next()), byte(r.next())}
				case 3:
					d = []byte{255}
				case 4:
					d = []byte{255, byte(200 + r.intn(56))}
				case 5:
					d = []byte{byte(128 + r.intn(128))}
				case 6:
					d = append([]byte{byte(r.intn(128)), byte(r.next()), byte(r.next())}, r.bytes(1+r.intn(7))...)
				default:
					d = r.bytes(r.intn(12))
				}
				f = flight{to: to, from: from, data: d, kind: "malformed"}
			}
			history = append(history, f)
			w.deliver(f)
		}
	}
	// replay a user-supplied script verbatim (corpus scenarios) after the random part
	for _, f := range script {
		w.deliver(f)
	}
	return w.finish(false)
}

// ---------- fault-free scenarios (C04) ----------

func runRBCFaultFree(r *prng, id int) *jScenario {
	n := 2 + r.intn(4)
	// now and then the configured membership is larger than the session: spare nodes that take no part
	spare := 0
	if r.chance(1, 3) {
		spare = 1 + r.intn(2)
	}
	universe := r.distinctIDs(n+spare, r.chance(1, 3))
	members := append([]uint16(nil), universe[:n]...)
	mode := "sign"
	if r.chance(1, 2) {
		mode = "dkg"
	}
	w, err := newRBCWorld(r, id, members, members, universe, mode, false)
	if err != nil {
		return &jScenario{Kind: "rbc", ID: id, Err: err.Error()}
	}
	w.sc.FaultFree = true
	// several senders, consecutive rounds, plus point-to-point traffic
	for _, s := range members {
		if !r.chance(2, 3) && s != members[0] {
			continue
		}
		rounds := 1 + r.intn(3)
		for round := 0; round < rounds; round++ {
			p := mkPayload(r, uint8(round), true)
			w.sc.Sent = append(w.sc.Sent, jBcast{S: s, R: uint8(round), P: hex.EncodeToString(p), B: true})
			for _, x := range members {
				if x != s {
					w.pool = append(w.pool, flight{to: x, from: s, data: wirePayload(p), kind: "hbcast"})
				}
			}
		}
		for k := r.intn(3); k > 0; k-- {
			x := r.pick16(members)
			if x == s {
				continue
			}
			p := mkPayload(r, uint8(r.intn(3)), false)
			w.sc.Sent = append(w.sc.Sent, jBcast{S: s, R: p[0] % 8, P: hex.EncodeToString(p), B: false, T: x})
			w.pool = append(w.pool, flight{to: x, from: s, data: wirePayload(p), kind: "hp2p"})
		}
	}
	scheds := []string{"random", "acksfirst", "lifo", "fifo", "starve"}
	sched := scheds[r.intn(len(scheds))]
	w.sc.Sched = sched
	starveTo, starveFrom := r.pick16(members), r.pick16(members)
	for guard := 0; len(w.pool) > 0 && guard < 100000; guard++ {
		j := 0
		switch sched {
		case "random":
			j = r.intn(len(w.pool))
		case "lifo":
			j = len(w.pool) - 1
		case "fifo":
			j = 0
		case "acksfirst":
			j = -1
			var acks []int
			for i, f := range w.pool {
				if len(f.data) > 0 && f.data[0] < 128 {
					acks = append(acks, i)
				}
			}
			if len(acks) > 0 {
				j = acks[r.intn(len(acks))]
			} else {
				j = r.intn(len(w.pool))
			}
		case "starve":
			var ok []int
			for i, f := range w.pool {
				if !(f.to == starveTo && f.from == starveFrom) {
					ok = append(ok, i)
				}
			}
			if len(ok) > 0 {
				j = ok[r.intn(len(ok))]
			} else {
				j = r.intn(len(w.pool))
			}
		}
		f := w.pool[j]
		w.pool = append(w.pool[:j], w.pool[j+1:]...)
		w.deliver(f)
	}
	drained := len(w.pool) == 0
	// probe: a party that concluded equivocation drops everything, including this p2p message
	for _, x := range members {
		for _, y := range members {
			if y != x {
				p := mkPayload(r, 0, false)
				w.sc.Sent = append(w.sc.Sent, jBcast{S: y, R: p[0] % 8, P: hex.EncodeToString(p), B: false, T: x})
				w.deliver(flight{to: x, from: y, data: wirePayload(p), kind: "probe"})
				break
			}
		}
	}
	return w.finish(drained)
}

// ---------- focused attack stream (C02/C03): a Byzantine sender equivocates towards two honest parties ----------

func runRBCAttack(r *prng, id int) *jScenario {
	n := 3 + r.intn(3)
	ids := r.distinctIDs(n+1, r.chance(1, 2))
	members := ids[:n]
	outsider := ids[n]
	nh := 2
	if n > 3 && r.chance(1, 2) {
		nh = 3
	}
	// twins: a second Byzantine member whose identifier differs from the sender's in the high byte only (an acknowledgement
	// about one must never count for the other, whatever an encoder or a table key does with 16-bit identifiers)
	twins := false
	if n-nh >= 2 && r.chance(1, 3) {
		tw := members[nh] ^ 0x0100
		clash := false
		for _, x := range ids {
			if x == tw {
				clash = true
			}
		}
		if !clash {
			members[nh+1], twins = tw, true
		}
	}
	honest := append([]uint16(nil), members[:nh]...)
	byz := append([]uint16(nil), members[nh:]...)
	sender := byz[0]
	mode := "sign"
	if r.chance(1, 2) {
		mode = "dkg"
	}
	w, err := newRBCWorld(r, id, members, honest, ids, mode, r.chance(1, 4))
	if err != nil {
		return &jScenario{Kind: "rbc", ID: id, Err: err.Error()}
	}
	w.sc.Sched = "attack"
	round := uint8(r.intn(2))
	// one payload per honest target (some equal, some different)
	pay := map[uint16][]byte{}
	base := mkPayload(r, round, true)
	for _, h := range honest {
		if r.chance(1, 2) {
			pay[h] = base
		} else {
			pay[h] = mkPayload(r, round, true)
		}
	}
	steps := 4 + r.intn(14)
	if r.chance(1, 4) {
		// crossed equivocation with the honest acknowledgements still in flight: A to the first honest party and B to the
		// second, then the other way round, before any acknowledgement is delivered
		a, b := mkPayload(r, round, true), mkPayload(r, round, true)
		pay[honest[0]], pay[honest[1]] = a, b
		w.deliver(flight{to: honest[0], from: sender, data: wirePayload(a), kind: "bbcast"})
		w.deliver(flight{to: honest[1], from: sender, data: wirePayload(b), kind: "bbcast"})
		if r.chance(1, 2) {
			w.deliver(flight{to: honest[0], from: sender, data: wirePayload(b), kind: "bbcast"})
			w.deliver(flight{to: honest[1], from: sender, data: wirePayload(a), kind: "bbcast"})
		} else {
			w.deliver(flight{to: honest[1], from: sender, data: wirePayload(a), kind: "bbcast"})
			w.deliver(flight{to: honest[0], from: sender, data: wirePayload(b), kind: "bbcast"})
		}
		steps = r.intn(4)
	} else if twins && r.chance(2, 3) {
		// crossed twins: the sender shows A to the first honest party and B to the second; its twin broadcasts, as its own
		// message of the same round, B to the first and A to the second, and vouches for the sender's payload towards each.
		// The honest parties' acknowledgements about the TWIN's message then carry exactly the digest the other party holds
		// for the SENDER: they must not be taken for vouchers about the sender.
		a, b := mkPayload(r, round, true), mkPayload(r, round, true)
		pay[honest[0]], pay[honest[1]] = a, b
		twin := byz[1]
		w.deliver(flight{to: honest[0], from: twin, data: wirePayload(b), kind: "bbcast"})
		w.deliver(flight{to: honest[1], from: twin, data: wirePayload(a), kind: "bbcast"})
		for guard := 0; len(w.pool) > 0 && guard < 200; guard++ {
			f := w.pool[0]
			w.pool = w.pool[1:]
			w.deliver(f)
		}
		w.deliver(flight{to: honest[0], from: twin, data: wireAck(sha(a), sender, round), kind: "back"})
		w.deliver(flight{to: honest[1], from: twin, data: wireAck(sha(b), sender, round), kind: "back"})
		for _, x := range byz[2:] {
			w.deliver(flight{to: honest[0], from: x, data: wireAck(sha(a), sender, round), kind: "back"})
			w.deliver(flight{to: honest[1], from: x, data: wireAck(sha(b), sender, round), kind: "back"})
		}
		w.deliver(flight{to: honest[0], from: sender, data: wirePayload(a), kind: "bbcast"})
		w.deliver(flight{to: honest[1], from: sender, data: wirePayload(b), kind: "bbcast"})
		steps = r.intn(4)
	} else if r.chance(1, 3) {
		// split vouchers: every honest party gets its own payload from the sender and, before any honest acknowledgement
		// moves, the acknowledgement of every other Byzantine member for exactly that payload. Each honest party then
		// holds (Byzantine members + itself) vouchers for a different payload: harmless as long as a hand-over needs
		// every other party, a disagreement as soon as it needs fewer.
		for _, h := range honest {
			pay[h] = mkPayload(r, round, true)
			w.deliver(flight{to: h, from: sender, data: wirePayload(pay[h]), kind: "bbcast"})
		}
		for _, h := range honest {
			for _, b := range byz[1:] {
				w.deliver(flight{to: h, from: b, data: wireAck(sha(pay[h]), sender, round), kind: "back"})
			}
		}
		steps = r.intn(4)
	} else if r.chance(1, 3) {
		// round revisited: the sender completes a broadcast of round rho (every Byzantine member vouches, the honest
		// acknowledgements are delivered), moves on to another round (a broadcast, or only somebody's acknowledgement
		// about it), and then comes back to round rho with a different payload that every Byzantine member vouches for
		// again. Whatever a party remembers about rho must survive the sender's later rounds.
		other := (round + 1 + uint8(r.intn(3))) % 8
		if r.chance(1, 3) && round > 0 {
			other = round - 1
		}
		phase := func(p []byte, rd uint8, ackOnly bool) {
			for _, h := range honest {
				if ackOnly {
					w.deliver(flight{to: h, from: r.pick16(byz), data: wireAck(sha(p), sender, rd), kind: "back"})
					continue
				}
				w.deliver(flight{to: h, from: sender, data: wirePayload(p), kind: "bbcast"})
				for _, b := range byz[1:] {
					w.deliver(flight{to: h, from: b, data: wireAck(sha(p), sender, rd), kind: "back"})
				}
			}
			for guard := 0; len(w.pool) > 0 && guard < 200; guard++ {
				f := w.pool[0]
				w.pool = w.pool[1:]
				w.deliver(f)
			}
		}
		first, second := mkPayload(r, round, true), mkPayload(r, round, true)
		phase(first, round, false)
		phase(mkPayload(r, other, true), other, r.chance(1, 3))
		phase(second, round, false)
		for _, h := range honest {
			pay[h] = second
		}
		steps = r.intn(4)
	}
	for i := 0; i < steps; i++ {
		if len(w.pool) > 0 && r.chance(2, 5) {
			j := r.intn(len(w.pool))
			f := w.pool[j]
			if !r.chance(1, 8) {
				w.pool = append(w.pool[:j], w.pool[j+1:]...)
			}
			w.deliver(f)
			continue
		}
		to := r.pick16(honest)
		p := pay[to]
		if r.chance(1, 6) {
			p = pay[r.pick16(honest)]
		}
		var f flight
		switch r.intn(10) {
		case 0, 1, 2:
			f = flight{to: to, from: sender, data: wirePayload(p), kind: "bbcast"}
		case 3, 4:
			f = flight{to: to, from: sender, data: wireAck(sha(p), sender, round), kind: "selfack"}
		case 5, 6, 7:
			from := r.pick16(byz)
			f = flight{to: to, from: from, data: wireAck(sha(p), sender, round), kind: "back"}
		case 8:
			f = flight{to: to, from: outsider, data: wireAck(sha(p), sender, round), kind: "back"}
		default:
			// an ack that pretends to come about an honest sender or about the target
			about := r.pick16(members)
			f = flight{to: to, from: r.pick16(byz), data: wireAck(sha(p), about, round), kind: "back"}
		}
		w.deliver(f)
	}
	// drain remaining honest acknowledgements
	for guard := 0; len(w.pool) > 0 && guard < 200; guard++ {
		f := w.pool[0]
		w.pool = w.pool[1:]
		w.deliver(f)
	}
	return w.finish(false)
}
