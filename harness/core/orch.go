package main

import (
	"context"
	"encoding/hex"
	"fmt"
	"os"
	"sort"
	"sync"
	"time"

	"github.com/IBM/TSS/threshold"
	. "github.com/IBM/TSS/types"
)

// C06 / C11 / C12: session histories on one real threshold.Scheme (loud wiring, real RBC) with a scripted
// synchroniser and backend, so that the harness decides when each continuation fires and what it returns.

type jPlan struct {
	SID      int      `json:"sid"`
	Kind     string   `json:"kind"`  // sign | keygen
	Topic    int      `json:"topic"` // label; keygen ignores it
	Members  []uint16 `json:"members"`
	S1       string   `json:"s1"`      // ok | fail | gate | gate_ignore
	S1Then   string   `json:"s1_then"` // ok | fail (after a gate is released)
	S2OK     bool     `json:"s2_ok"`
	Be       string   `json:"be"` // ok | fail | block
	ShareOK  bool     `json:"share_ok"`
	InitGate bool     `json:"init_gate"` // the backend's Init blocks until released
}

type jInject struct {
	Key  string `json:"key"`  // label of the topic: T<i> | H<i> | D | M<sid> | X (unknown)
	Type string `json:"type"` // mpc | sync
	From uint16 `json:"from"`
	What string `json:"what"` // p2p | bcast | ack | junk
	Data string `json:"data"`
}

type jReached struct {
	SID   int    `json:"sid"`
	What  string `json:"what"` // onmsg | sync
	From  uint16 `json:"from"` // attributed source
	Bcast bool   `json:"bcast"`
	Key   string `json:"key,omitempty"`
}

type jInitRec struct {
	SID       int      `json:"sid"`
	Parties   []uint16 `json:"parties"`
	Threshold int      `json:"threshold"`
}

type jDest struct {
	SID int      `json:"sid"`
	To  uint16   `json:"to"`  // party addressed by the backend
	Got []uint16 `json:"got"` // nodes the message was transmitted to
}

type jOStep struct {
	Op      string            `json:"op"`             // start | release | cancel | inject | remap
	Map     map[string]uint16 `json:"map,omitempty"`  // remap: the membership map the application returns from now on
	MapPre  map[string]uint16 `json:"_map,omitempty"` // (replay files) a remap folded into the step that follows it
	SID     int               `json:"sid"`
	Plan    *jPlan            `json:"plan,omitempty"`
	Inject  *jInject          `json:"inject,omitempty"`
	API     map[string]string `json:"api"` // sid -> ok | err | ctx | refused | running
	Panic   bool              `json:"panic"`
	PanicV  string            `json:"panic_val,omitempty"`
	Reached []jReached        `json:"reached"`
	Inits   []jInitRec        `json:"inits"`
	Dests   []jDest           `json:"dests"`
	Syncs   []string          `json:"syncs"`
	RBCs    []string          `json:"rbcs"`
	Cls     []string          `json:"cls"`
	DKG     bool              `json:"dkg_running"`
	Stuck   string            `json:"stuck,omitempty"`
}

type jOrchScenario struct {
	Kind       string            `json:"kind"`
	ID         int               `json:"id"`
	Self       uint16            `json:"self"`
	Threshold  int               `json:"threshold"`
	Membership map[string]uint16 `json:"membership"` // node -> party
	Steps      []jOStep          `json:"steps"`
	Err        string            `json:"err,omitempty"`
}

type oSession struct {
	plan     jPlan
	ctx      context.Context
	cancel   context.CancelFunc
	done     chan string // api result class
	result   string
	gate     chan struct{}
	initGate chan struct{}
	s2Gate   chan struct{}
	at       string // "", gate, initgate, s2fail, backend, finished
	backend  *scriptedBackend
}

type orchWorld struct {
	mu          sync.Mutex
	membership  map[UniversalID]PartyID // what the application's Membership function returns now
	p           *party
	sc          *jOrchScenario
	sess        map[int]*oSession
	current     int
	signals     chan string
	keys        map[string]string // topic bytes -> label
	keygen      int               // sid of the key generation that owns D
	byTopic     map[string]int    // topic bytes -> sid (first topic of the session)
	byTopic2    map[string]int    // second-sync topic -> sid
	reached     []jReached
	inits       []jInitRec
	beSID       map[*scriptedBackend]int
	allBackends []*orchBackend
}

type orchBackend struct {
	*scriptedBackend
	w   *orchWorld
	sid int
}

func (b *orchBackend) Init(parties []uint16, threshold int, sendMsg func(msg []byte, isBroadcast bool, to uint16)) {
	b.scriptedBackend.Init(parties, threshold, sendMsg)
	b.w.mu.Lock()
	b.w.inits = append(b.w.inits, jInitRec{SID: b.sid, Parties: append([]uint16{}, parties...), Threshold: threshold})
	se := b.w.sess[b.sid]
	b.w.mu.Unlock()
	if se != nil && se.plan.InitGate {
		b.w.signals <- fmt.Sprintf("initgate %d", b.sid)
		<-se.initGate
	}
}

func (b *orchBackend) OnMsg(msgBytes []byte, from uint16, broadcast bool) {
	b.w.mu.Lock()
	b.w.reached = append(b.w.reached, jReached{SID: b.sid, What: "onmsg", From: from, Bcast: broadcast})
	b.w.mu.Unlock()
}

func (b *orchBackend) SetShareData(d []byte) error {
	if !b.w.sess[b.sid].plan.ShareOK {
		return fmt.Errorf("unusable share data")
	}
	return nil
}

func (b *orchBackend) run(ctx context.Context) ([]byte, error) {
	s := b.w.sess[b.sid]
	switch s.plan.Be {
	case "ok":
		return []byte("result"), nil
	case "fail":
		return nil, fmt.Errorf("backend failed")
	}
	b.w.signals <- fmt.Sprintf("backend %d", b.sid)
	<-ctx.Done()
	return nil, ctx.Err()
}

func (b *orchBackend) KeyGen(ctx context.Context) ([]byte, error)         { return b.run(ctx) }
func (b *orchBackend) Sign(ctx context.Context, m []byte) ([]byte, error) { return b.run(ctx) }

type orchSync struct {
	w     *orchWorld
	given []uint16
}

func (s *orchSync) HandleMessage(from uint16, msg []byte) {
	// which registration this instance serves is known from the topic the message came in on: recorded by handle()
	s.w.mu.Lock()
	s.w.reached = append(s.w.reached, jReached{SID: -1, What: "sync", From: from})
	s.w.mu.Unlock()
}

func (s *orchSync) Synchronize(ctx context.Context, f func([]uint16), topic []byte, expected int, _ time.Duration) error {
	w := s.w
	w.mu.Lock()
	sid, first := w.byTopic[string(topic)]
	if !first {
		sid = w.byTopic2[string(topic)]
	}
	se := w.sess[sid]
	w.mu.Unlock()
	if se == nil {
		return fmt.Errorf("unknown topic")
	}
	if !first {
		if ctx.Err() != nil {
			// a second synchronisation entered although the session is already over lingers before it gives up: whatever
			// was registered for the dead session is visible meanwhile
			w.signals <- fmt.Sprintf("s2linger %d", sid)
			<-se.s2Gate
			return fmt.Errorf("context done")
		}
		if se.plan.S2OK {
			f(se.plan.Members)
			return nil
		}
		w.signals <- fmt.Sprintf("s2fail %d", sid)
		return fmt.Errorf("second synchronisation failed")
	}
	defer func() { w.signals <- fmt.Sprintf("s1done %d", sid) }()
	act := se.plan.S1
	if act == "gate" || act == "gate_ignore" {
		w.signals <- fmt.Sprintf("gate %d", sid)
		if act == "gate" {
			select {
			case <-se.gate:
			case <-ctx.Done():
				return fmt.Errorf("context done while synchronising")
			}
		} else {
			<-se.gate
		}
		act = se.plan.S1Then
	}
	if act == "fail" {
		return fmt.Errorf("synchronisation failed")
	}
	f(se.plan.Members)
	return nil
}

func orchTopicName(i int) string { return fmt.Sprintf("sign-topic-%d", i) }

func newOrchWorld(id int, self uint16, t int, membership map[UniversalID]PartyID) *orchWorld {
	w := &orchWorld{membership: membership, sess: map[int]*oSession{}, signals: make(chan string, 64), keys: map[string]string{}, byTopic: map[string]int{},
		byTopic2: map[string]int{}, beSID: map[*scriptedBackend]int{}, keygen: -1}
	w.sc = &jOrchScenario{Kind: "orch", ID: id, Self: self, Threshold: t, Membership: map[string]uint16{}, Steps: []jOStep{}}
	for u, p := range membership {
		w.sc.Membership[fmt.Sprint(uint16(u))] = uint16(p)
	}
	p := &party{id: self}
	mkBackend := func() *orchBackend {
		b := &orchBackend{scriptedBackend: newBackend(self, false), w: w, sid: w.current}
		w.mu.Lock()
		w.allBackends = append(w.allBackends, b)
		w.mu.Unlock()
		return b
	}
	mp := threshold.LoudScheme(self, nopLogger{}, func(uint16) KeyGenerator { return mkBackend() }, func(uint16) Signer { return mkBackend() }, t,
		func(msgType uint8, topic []byte, msg []byte, to ...uint16) {
			p.mu.Lock()
			defer p.mu.Unlock()
			p.sends = append(p.sends, sendRec{Type: msgType, Topic: append([]byte(nil), topic...), Data: append([]byte(nil), msg...), To: append([]uint16(nil), to...)})
		}, func() map[UniversalID]PartyID {
			w.mu.Lock()
			defer w.mu.Unlock()
			return w.membership
		})
	p.scheme = mp.(*threshold.Scheme)
	p.scheme.SyncFactory = func(members []uint16, _ func(msg []byte), _ func(msg []byte, to uint16)) Synchronizer {
		return &orchSync{w: w, given: members}
	}
	w.p = p
	w.keys[string(sha([]byte(DkgTopicName)))] = "D"
	return w
}

func (w *orchWorld) label(topic string) string {
	if l, ok := w.keys[topic]; ok {
		return l
	}
	return "?" + hex.EncodeToString([]byte(topic))[:8]
}

// waitSignal waits for the next blocking point / completion of session sid.
func (w *orchWorld) await(sid int, want ...string) string {
	deadline := time.After(3 * time.Second)
	se := w.sess[sid]
	for {
		select {
		case r := <-se.done:
			se.result = r
			se.done = nil
			for _, x := range want {
				if x == "done" {
					return "done"
				}
			}
		case sig := <-w.signals:
			var kind string
			var s int
			fmt.Sscanf(sig, "%s %d", &kind, &s)
			if o := w.sess[s]; o != nil {
				switch kind {
				case "gate":
					o.at = "gate"
				case "initgate":
					o.at = "initgate"
				case "s2linger":
					o.at = "s2linger"
				case "s2fail":
					o.at = "s2fail"
				case "backend":
					o.at = "backend"
				case "s1done":
					o.at = "finished"
				}
			}
			if s == sid {
				for _, x := range want {
					if x == kind {
						return kind
					}
				}
			}
		case <-deadline:
			if os.Getenv("VERIF_DEBUG") != "" {
				fmt.Fprintf(os.Stderr, "await timeout sid=%d want=%v at=%s result=%s plan=%+v\n", sid, want, se.at, se.result, se.plan)
			}
			return "stuck"
		}
	}
}

func (w *orchWorld) snapshot(st *jOStep) {
	st.API = map[string]string{}
	ids := []int{}
	for sid := range w.sess {
		ids = append(ids, sid)
	}
	sort.Ints(ids)
	for _, sid := range ids {
		se := w.sess[sid]
		// pick up results that arrived meanwhile
		if se.done != nil {
			select {
			case r := <-se.done:
				se.result = r
				se.done = nil
			default:
			}
		}
		r := se.result
		if r == "" {
			r = "running"
		}
		st.API[fmt.Sprint(sid)] = r
	}
	syncs, rbcs, cls, dkg := w.p.scheme.VerifTableKeys()
	tr := func(l []string) []string {
		res := []string{}
		for _, k := range l {
			res = append(res, w.label(k))
		}
		sort.Strings(res)
		return res
	}
	st.Syncs, st.RBCs, st.Cls, st.DKG = tr(syncs), tr(rbcs), tr(cls), dkg
	w.mu.Lock()
	st.Reached = append([]jReached{}, w.reached...)
	st.Inits = append([]jInitRec{}, w.inits...)
	w.reached, w.inits = nil, nil
	w.mu.Unlock()
	if st.Dests == nil {
		st.Dests = []jDest{}
	}
}

func classifyErr(err error, ctx context.Context) string {
	if err == nil {
		return "ok"
	}
	if ctx.Err() != nil && err == ctx.Err() {
		return "ctx"
	}
	msg := err.Error()
	if len(msg) >= 7 && (msg[:7] == "already" || msg == "key generation already running") {
		return "refused"
	}
	return "err"
}

func (w *orchWorld) start(plan jPlan) jOStep {
	st := jOStep{Op: "start", SID: plan.SID, Plan: &plan}
	ctx, cancel := context.WithCancel(context.Background())
	se := &oSession{plan: plan, ctx: ctx, cancel: cancel, done: make(chan string, 1), gate: make(chan struct{}), initGate: make(chan struct{}), s2Gate: make(chan struct{})}
	w.mu.Lock()
	w.sess[plan.SID] = se
	w.current = plan.SID
	var t1, t2 []byte
	var oldLabel string
	var hadLabel bool
	if plan.Kind == "sign" {
		t1 = sha([]byte(orchTopicName(plan.Topic)))
		t2 = sha(t1)
		w.keys[string(t1)] = fmt.Sprintf("T%d", plan.Topic)
		w.keys[string(t2)] = fmt.Sprintf("H%d", plan.Topic)
	} else {
		t1 = sha([]byte(DkgTopicName))
		t2 = threshold.VerifMembershipSyncTopicName(plan.Members)
		oldLabel, hadLabel = w.keys[string(t2)]
		w.keys[string(t2)] = fmt.Sprintf("M%d", plan.SID)
	}
	// the newest session on a topic owns the plan lookup; an older one waiting at its gate looked its plan up before
	old1, had1 := w.byTopic[string(t1)]
	old2, had2 := w.byTopic2[string(t2)]
	w.byTopic[string(t1)] = plan.SID
	w.byTopic2[string(t2)] = plan.SID
	w.mu.Unlock()
	go func() {
		defer func() {
			if r := recover(); r != nil {
				se.done <- "panic:" + fmt.Sprint(r)
			}
		}()
		var err error
		if plan.Kind == "sign" {
			_, err = w.p.scheme.Sign(ctx, sha([]byte("digest")), orchTopicName(plan.Topic))
		} else {
			_, err = w.p.scheme.KeyGen(ctx, len(plan.Members), w.sc.Threshold)
		}
		se.done <- classifyErr(err, ctx)
	}()
	r0 := w.await(plan.SID, "done", "gate", "initgate", "s2fail", "backend")
	if r0 == "stuck" {
		st.Stuck = "start"
	}
	if r0 == "s2fail" && plan.Kind == "sign" {
		// a failed pre-signing synchronisation makes Sign return its error
		if w.await(plan.SID, "done") == "stuck" {
			st.Stuck = "start: Sign did not return after the pre-signing synchronisation failed"
		}
		if se.at != "finished" {
			w.await(plan.SID, "s1done")
		}
	}
	if se.result != "" && len(se.result) > 6 && se.result[:6] == "panic:" {
		st.Panic, st.PanicV = true, se.result[6:]
		se.result = "panic"
	}
	if se.result == "refused" {
		w.mu.Lock()
		if had1 {
			w.byTopic[string(t1)] = old1
		}
		if had2 {
			w.byTopic2[string(t2)] = old2
		}
		if hadLabel {
			w.keys[string(t2)] = oldLabel
		}
		w.mu.Unlock()
	}
	// C06: once the backend is initialised, ask it to address every party and see where the messages go
	w.probeDests(&st, plan.SID)
	w.snapshot(&st)
	return st
}

func (w *orchWorld) probeDests(st *jOStep, sid int) {
	w.mu.Lock()
	var be *scriptedBackend
	var parties []uint16
	for _, in := range w.inits {
		if in.SID == sid {
			parties = in.Parties
		}
	}
	w.mu.Unlock()
	if parties == nil {
		return
	}
	// the backend instance of this session is the last one created for it
	for _, b := range w.allBackends {
		if b.sid == sid && b.sendMsg != nil {
			be = b.scriptedBackend
		}
	}
	if be == nil {
		return
	}
	w.p.takeSends()
	probe := append([]uint16{}, parties...)
	probe = append(probe, 60000) // a party that does not take part
	for _, to := range probe {
		be.sendMsg([]byte{1, 2, 3}, false, to)
		got := []uint16{}
		for _, s := range w.p.takeSends() {
			got = append(got, s.To...)
		}
		st.Dests = append(st.Dests, jDest{SID: sid, To: to, Got: got})
	}
}

func (w *orchWorld) release(sid int) jOStep {
	st := jOStep{Op: "release", SID: sid}
	se := w.sess[sid]
	w.mu.Lock()
	w.current = sid
	w.mu.Unlock()
	if se != nil && (se.at == "gate" || se.at == "initgate") {
		if se.at == "gate" {
			close(se.gate)
		} else {
			close(se.initGate)
		}
		se.at = ""
		want := []string{"s2fail", "backend", "s1done", "initgate", "s2linger"}
		if se.result == "" {
			want = append(want, "done")
		}
		r0 := w.await(sid, want...)
		if r0 == "stuck" {
			st.Stuck = "release"
		}
		if r0 == "s2fail" && se.plan.Kind == "sign" && se.result == "" {
			if w.await(sid, "done") == "stuck" {
				st.Stuck = "release: Sign did not return after the pre-signing synchronisation failed"
			}
		}
		// when the continuation produced the API result, wait for the goroutine to wind down too
		if se.at != "finished" && se.at != "backend" && se.at != "s2fail" && se.at != "initgate" && se.at != "s2linger" {
			w.await(sid, "s1done")
		}
		if se.result == "" && se.at == "finished" {
			w.await(sid, "done")
		}
	}
	if se != nil && len(se.result) > 6 && se.result[:6] == "panic:" {
		st.Panic, st.PanicV = true, se.result[6:]
		se.result = "panic"
	}
	w.probeDests(&st, sid)
	w.snapshot(&st)
	return st
}

func (w *orchWorld) cancelSession(sid int) jOStep {
	st := jOStep{Op: "cancel", SID: sid}
	se := w.sess[sid]
	w.mu.Lock()
	w.current = sid
	w.mu.Unlock()
	if se != nil {
		se.cancel()
		if se.result == "" {
			if r := w.await(sid, "done"); r == "stuck" {
				st.Stuck = "cancel: API call did not return after its context was cancelled"
			}
		}
		// stragglers: everything that honours the context winds down now
		if se.at == "backend" || (se.at == "gate" && se.plan.S1 == "gate") || (se.at == "s2fail" && se.plan.Kind == "keygen") {
			if r := w.await(sid, "s1done"); r == "stuck" {
				st.Stuck = "cancel: goroutine did not finish"
			}
		}
	}
	w.snapshot(&st)
	return st
}

// remap: the application's Membership function returns another map from now on (only between sessions: the orchestrator
// reads the map at the start of KeyGen / Sign and keeps it for that session)
func (w *orchWorld) remap(m map[UniversalID]PartyID) jOStep {
	st := jOStep{Op: "remap", SID: -1, Map: map[string]uint16{}}
	for u, p := range m {
		st.Map[fmt.Sprint(uint16(u))] = uint16(p)
	}
	w.mu.Lock()
	w.membership = m
	w.mu.Unlock()
	w.snapshot(&st)
	return st
}

func (w *orchWorld) inject(in jInject) jOStep {
	st := jOStep{Op: "inject", SID: -1, Inject: &in}
	var topic []byte
	for k, l := range w.keys {
		if l == in.Key {
			topic = []byte(k)
		}
	}
	if topic == nil {
		topic = sha([]byte("unknown-" + in.Key))
	}
	ty := uint8(MsgTypeMPC)
	if in.Type == "sync" {
		ty = uint8(MsgTypeSync)
	}
	data, _ := hex.DecodeString(in.Data)
	st.Panic, st.PanicV = w.p.handle(ty, topic, in.From, data)
	w.snapshot(&st)
	for i := range st.Reached {
		if st.Reached[i].What == "sync" {
			st.Reached[i].Key = in.Key
		}
	}
	return st
}

// ---------- history generator ----------

func hexPayload(b []byte) string { return hex.EncodeToString(b) }

func runOrchHistory(r *prng, id int) *jOrchScenario {
	// universe of six nodes; party map: identity, offset, permutation, or with replicas
	nodes := []uint16{1, 2, 3, 4, 5, 6}
	if r.chance(1, 3) {
		nodes = []uint16{255, 256, 257, 513, 65280, 65535}
	} else if r.chance(1, 3) {
		// node identifier 0 is a legal identifier (so is party 0 under the identity map): no zero value may stand for "none"
		nodes = []uint16{0, 1, 2, 3, 256, 65535}
	}
	mkMap := func() map[UniversalID]PartyID {
		mp := map[UniversalID]PartyID{}
		mode := r.intn(4)
		perm := r.distinctIDs(6, false)
		for i, u := range nodes {
			switch mode {
			case 0:
				mp[UniversalID(u)] = PartyID(u)
			case 1:
				mp[UniversalID(u)] = PartyID(uint16(100 + i))
			case 2:
				mp[UniversalID(u)] = PartyID(perm[i])
			default:
				mp[UniversalID(u)] = PartyID(uint16(10 + i/2)) // two replicas per party
			}
		}
		return mp
	}
	mp := mkMap()
	self := nodes[r.intn(len(nodes))]
	t := 1 + r.intn(2)
	w := newOrchWorld(id, self, t, mp)
	nextSID := 0
	steps := 4 + r.intn(12)
	live := func() []int {
		var l []int
		for sid, se := range w.sess {
			if se.result == "" || se.at == "gate" || se.at == "initgate" {
				l = append(l, sid)
			}
		}
		sort.Ints(l)
		return l
	}
	pickMembers := func() []uint16 {
		// always contains self; sometimes two replicas of one party (refused), sorted
		n := 2 + r.intn(3)
		set := map[uint16]bool{self: true}
		for len(set) < n {
			set[nodes[r.intn(len(nodes))]] = true
		}
		var l []uint16
		for u := range set {
			l = append(l, u)
		}
		sort.Slice(l, func(i, j int) bool { return l[i] < l[j] })
		return l
	}
	quiet := func() bool { // no session is running, waiting at a gate or lingering in a synchroniser
		for _, se := range w.sess {
			if se.result == "" || se.at == "gate" || se.at == "initgate" || se.at == "s2linger" {
				return false
			}
		}
		return true
	}
	for i := 0; i < steps; i++ {
		c := r.intn(100)
		if len(w.sess) > 0 && quiet() && r.chance(1, 4) {
			// the application re-assigns parties between sessions
			w.sc.Steps = append(w.sc.Steps, w.remap(mkMap()))
		}
		switch {
		case c < 40:
			plan := jPlan{SID: nextSID, Kind: "sign", Topic: r.intn(3), Members: pickMembers(), S1: "ok", S1Then: "ok", S2OK: true, Be: "block", ShareOK: true}
			nextSID++
			if r.chance(1, 4) {
				plan.Kind = "keygen"
			}
			switch r.intn(10) {
			case 0:
				plan.S1 = "fail"
			case 1, 2:
				plan.S1 = "gate"
			case 3:
				plan.S1 = "gate_ignore"
			}
			if r.chance(1, 4) {
				plan.S1Then = "fail"
			}
			if r.chance(1, 8) {
				plan.S2OK = false
			}
			switch r.intn(6) {
			case 0:
				plan.Be = "ok"
			case 1:
				plan.Be = "fail"
			}
			if r.chance(1, 8) {
				plan.ShareOK = false
			}
			if r.chance(1, 5) {
				plan.InitGate = true
			}
			w.sc.Steps = append(w.sc.Steps, w.start(plan))
		case c < 55:
			l := live()
			if len(l) == 0 {
				continue
			}
			sid := l[r.intn(len(l))]
			if w.sess[sid].at == "gate" || (w.sess[sid].at == "initgate" && r.chance(1, 2)) {
				w.sc.Steps = append(w.sc.Steps, w.release(sid))
			} else {
				w.sc.Steps = append(w.sc.Steps, w.cancelSession(sid))
			}
		case c < 65:
			l := live()
			if len(l) == 0 {
				continue
			}
			w.sc.Steps = append(w.sc.Steps, w.cancelSession(l[r.intn(len(l))]))
		default:
			// traffic: for a live, a finished or an unknown topic; from a participant, another node or an outsider
			keys := []string{"X", "D"}
			for ti := 0; ti < 3; ti++ {
				keys = append(keys, fmt.Sprintf("T%d", ti), fmt.Sprintf("H%d", ti))
			}
			for sid := range w.sess {
				if w.sess[sid].plan.Kind == "keygen" {
					keys = append(keys, fmt.Sprintf("M%d", sid))
				}
			}
			sort.Strings(keys)
			in := jInject{Key: keys[r.intn(len(keys))], Type: "mpc", From: nodes[r.intn(len(nodes))]}
			if r.chance(1, 6) {
				in.From = 7777
			}
			// mostly aim at a session whose protocol instance is registered, from one of its participants
			var atBackend []int
			for sid, se := range w.sess {
				if se.at == "backend" || se.at == "s2fail" {
					atBackend = append(atBackend, sid)
				}
			}
			sort.Ints(atBackend)
			if len(atBackend) > 0 && r.chance(2, 3) {
				se := w.sess[atBackend[r.intn(len(atBackend))]]
				if se.plan.Kind == "sign" {
					in.Key = fmt.Sprintf("T%d", se.plan.Topic)
				} else {
					in.Key = "D"
				}
				if r.chance(3, 4) {
					in.From = se.plan.Members[r.intn(len(se.plan.Members))]
				}
			}
			switch r.intn(5) {
			case 0:
				in.Type = "sync"
				in.What = "junk"
				in.Data = hexPayload(r.bytes(35))
			case 1:
				in.What = "ack"
				about := nodes[r.intn(len(nodes))]
				in.Data = hexPayload(wireAck(sha([]byte{byte(about)}), about, 1))
				if in.From == self {
					in.From = 7777 // the transport never delivers a node's own traffic to it
				}
			case 2:
				in.What = "junk"
				in.Data = hexPayload([][]byte{{}, {5}, {255, 200}, {255, 255, 1}, {127, 0}}[r.intn(5)])
			default:
				in.What = "p2p"
				in.Data = hexPayload(wirePayload(mkPayload(r, 0, false)))
			}
			w.sc.Steps = append(w.sc.Steps, w.inject(in))
		}
	}
	// wind down: cancel everything that is still running, release late gates, and take a final snapshot
	for _, sid := range live() {
		if w.sess[sid].result == "" {
			w.sc.Steps = append(w.sc.Steps, w.cancelSession(sid))
		}
	}
	defer func() {
		for _, se := range w.sess {
			if se.at == "s2linger" {
				close(se.s2Gate)
			}
		}
	}()
	for pass := 0; pass < 3; pass++ {
		for _, sid := range live() {
			if w.sess[sid].at == "gate" || w.sess[sid].at == "initgate" {
				w.sc.Steps = append(w.sc.Steps, w.release(sid))
			}
		}
		for _, sid := range live() {
			if w.sess[sid].result == "" {
				w.sc.Steps = append(w.sc.Steps, w.cancelSession(sid))
			}
		}
	}
	return w.sc
}
