package main

import (
	"context"
	"crypto/sha256"
	"fmt"
	"sync"
	"time"

	"github.com/IBM/TSS/threshold"
	. "github.com/IBM/TSS/types"
)

type nopLogger struct{}

func (nopLogger) DebugEnabled() bool                     { return false }
func (nopLogger) Debugf(format string, a ...interface{}) {}
func (nopLogger) Infof(format string, a ...interface{})  {}
func (nopLogger) Warnf(format string, a ...interface{})  {}
func (nopLogger) Errorf(format string, a ...interface{}) {}

func sha(b []byte) []byte { h := sha256.Sum256(b); return h[:] }

type sendRec struct {
	Type  uint8
	Topic []byte
	Data  []byte
	To    []uint16
}

type onMsgRec struct {
	Payload []byte
	From    uint16
	Bcast   bool
}

type initRec struct {
	Parties   []uint16
	Threshold int
}

// scripted classifier shared with the Coq model (Corr/RBCCorr.v: classify)
func scriptedClassify(acceptEmpty bool, p []byte) (uint8, bool, error) {
	if len(p) == 0 {
		if acceptEmpty {
			return 0, false, nil
		}
		return 0, false, fmt.Errorf("empty")
	}
	if p[0] >= 200 {
		return 0, false, fmt.Errorf("invalid prefix")
	}
	return p[0] % 8, (p[0]/8)%2 == 1, nil
}

type backendResult struct {
	data []byte
	err  error
}

// scriptedBackend implements both types.KeyGenerator and types.Signer.
type scriptedBackend struct {
	mu          sync.Mutex
	acceptEmpty bool
	onmsg       []onMsgRec
	inits       []initRec
	sendMsg     func(msg []byte, isBroadcast bool, to uint16)
	shareData   [][]byte
	shareErr    error
	entered     chan struct{} // receives one token when KeyGen/Sign is entered
	release     chan backendResult
	signedMsgs  [][]byte
	id          uint16
}

func newBackend(id uint16, acceptEmpty bool) *scriptedBackend {
	return &scriptedBackend{id: id, acceptEmpty: acceptEmpty, entered: make(chan struct{}, 16), release: make(chan backendResult, 16)}
}

func (b *scriptedBackend) ClassifyMsg(p []byte) (uint8, bool, error) {
	return scriptedClassify(b.acceptEmpty, p)
}

func (b *scriptedBackend) Init(parties []uint16, threshold int, sendMsg func(msg []byte, isBroadcast bool, to uint16)) {
	b.mu.Lock()
	defer b.mu.Unlock()
	b.inits = append(b.inits, initRec{Parties: append([]uint16(nil), parties...), Threshold: threshold})
	b.sendMsg = sendMsg
}

func (b *scriptedBackend) OnMsg(msgBytes []byte, from uint16, broadcast bool) {
	b.mu.Lock()
	defer b.mu.Unlock()
	b.onmsg = append(b.onmsg, onMsgRec{Payload: append([]byte(nil), msgBytes...), From: from, Bcast: broadcast})
}

func (b *scriptedBackend) takeOnMsg() []onMsgRec {
	b.mu.Lock()
	defer b.mu.Unlock()
	r := b.onmsg
	b.onmsg = nil
	return r
}

func (b *scriptedBackend) wait(ctx context.Context) ([]byte, error) {
	b.entered <- struct{}{}
	select {
	case r := <-b.release:
		return r.data, r.err
	case <-ctx.Done():
		return nil, ctx.Err()
	}
}

func (b *scriptedBackend) KeyGen(ctx context.Context) ([]byte, error) { return b.wait(ctx) }

func (b *scriptedBackend) Sign(ctx context.Context, msg []byte) ([]byte, error) {
	b.mu.Lock()
	b.signedMsgs = append(b.signedMsgs, append([]byte(nil), msg...))
	b.mu.Unlock()
	return b.wait(ctx)
}

func (b *scriptedBackend) SetShareData(d []byte) error {
	b.mu.Lock()
	defer b.mu.Unlock()
	b.shareData = append(b.shareData, d)
	return b.shareErr
}

func (b *scriptedBackend) ThresholdPK() ([]byte, error) { return []byte("tpk"), nil }

// syncAction says what a scripted synchroniser does when Synchronize is invoked.
type syncAction struct {
	members []uint16      // passed to the continuation
	err     error         // returned instead of invoking the continuation
	gate    chan struct{} // if non-nil, wait for it (or for ctx) before acting
}

type scriptedSync struct {
	decide func(topic []byte, expected int, members []uint16) syncAction
	given  []uint16
	handle func(from uint16, msg []byte)
}

func (s *scriptedSync) Synchronize(ctx context.Context, f func([]uint16), topic []byte, expected int, _ time.Duration) error {
	act := s.decide(topic, expected, s.given)
	if act.gate != nil {
		select {
		case <-act.gate:
		case <-ctx.Done():
			return fmt.Errorf("context done while synchronising")
		}
	}
	if act.err != nil {
		return act.err
	}
	f(act.members)
	return nil
}

func (s *scriptedSync) HandleMessage(from uint16, msg []byte) {
	if s.handle != nil {
		s.handle(from, msg)
	}
}

// party is one real threshold.Scheme with scripted synchroniser and backend, real RBC.
type party struct {
	id       uint16
	scheme   *threshold.Scheme
	mu       sync.Mutex
	sends    []sendRec
	backends []*scriptedBackend // every backend instance the factories produced, in order
	decide   func(topic []byte, expected int, members []uint16) syncAction
	accept   bool
	syncMsgs []onMsgRec // sync messages that reached a scripted synchroniser (Payload=msg)
}

func newParty(id uint16, thresholdT int, membership map[UniversalID]PartyID, acceptEmpty bool) *party {
	p := &party{id: id, accept: acceptEmpty}
	mk := func(uint16) *scriptedBackend {
		b := newBackend(id, acceptEmpty)
		p.mu.Lock()
		p.backends = append(p.backends, b)
		p.mu.Unlock()
		return b
	}
	mp := threshold.LoudScheme(id, nopLogger{}, func(i uint16) KeyGenerator { return mk(i) }, func(i uint16) Signer { return mk(i) }, thresholdT,
		func(msgType uint8, topic []byte, msg []byte, to ...uint16) {
			p.mu.Lock()
			defer p.mu.Unlock()
			p.sends = append(p.sends, sendRec{Type: msgType, Topic: append([]byte(nil), topic...), Data: append([]byte(nil), msg...), To: append([]uint16(nil), to...)})
		}, func() map[UniversalID]PartyID { return membership })
	p.scheme = mp.(*threshold.Scheme)
	p.scheme.SyncFactory = func(members []uint16, broadcast func(msg []byte), send func(msg []byte, to uint16)) Synchronizer {
		return &scriptedSync{given: members, decide: func(topic []byte, expected int, m []uint16) syncAction { return p.decide(topic, expected, m) },
			handle: func(from uint16, msg []byte) {
				p.mu.Lock()
				p.syncMsgs = append(p.syncMsgs, onMsgRec{Payload: append([]byte(nil), msg...), From: from})
				p.mu.Unlock()
			}}
	}
	return p
}

func (p *party) takeSends() []sendRec {
	p.mu.Lock()
	defer p.mu.Unlock()
	r := p.sends
	p.sends = nil
	return r
}

func (p *party) lastBackend() *scriptedBackend {
	p.mu.Lock()
	defer p.mu.Unlock()
	if len(p.backends) == 0 {
		return nil
	}
	return p.backends[len(p.backends)-1]
}

// handle delivers one message synchronously; reports whether the call panicked.
func (p *party) handle(msgType uint8, topic []byte, from uint16, data []byte) (panicked bool, panicVal string) {
	defer func() {
		if r := recover(); r != nil {
			panicked = true
			panicVal = fmt.Sprint(r)
		}
	}()
	// cap == len, as net.readMsg allocates
	d := make([]byte, len(data))
	copy(d, data)
	t := make([]byte, len(topic))
	copy(t, topic)
	p.scheme.HandleMessage(&IncMessage{MsgType: msgType, Topic: t, Source: from, Data: d})
	return false, ""
}

type session struct {
	cancel context.CancelFunc
	done   chan error
	res    []byte
	topic  []byte // topic hash on which MPC traffic of the session travels
}

func waitEntered(b func() *scriptedBackend) error {
	deadline := time.Now().Add(5 * time.Second)
	for time.Now().Before(deadline) {
		if be := b(); be != nil {
			select {
			case <-be.entered:
				return nil
			case <-time.After(2 * time.Millisecond):
			}
		} else {
			time.Sleep(time.Millisecond)
		}
	}
	return fmt.Errorf("backend never entered")
}

// startSign runs the real Scheme.Sign up to the point where the backend's Sign blocks.
func (p *party) startSign(signers []uint16, topic string, msgHash []byte) (*session, error) {
	p.decide = func([]byte, int, []uint16) syncAction { return syncAction{members: signers} }
	ctx, cancel := context.WithCancel(context.Background())
	s := &session{cancel: cancel, done: make(chan error, 1), topic: sha([]byte(topic))}
	go func() {
		r, err := p.scheme.Sign(ctx, msgHash, topic)
		s.res = r
		s.done <- err
	}()
	if err := waitEntered(p.lastBackend); err != nil {
		cancel()
		return nil, err
	}
	return s, nil
}

// startKeyGen runs the real Scheme.KeyGen up to the point where the backend's KeyGen blocks.
func (p *party) startKeyGen(members []uint16, n, t int) (*session, error) {
	p.decide = func([]byte, int, []uint16) syncAction { return syncAction{members: members} }
	ctx, cancel := context.WithCancel(context.Background())
	s := &session{cancel: cancel, done: make(chan error, 1), topic: sha([]byte(DkgTopicName))}
	go func() {
		r, err := p.scheme.KeyGen(ctx, n, t)
		s.res = r
		s.done <- err
	}()
	if err := waitEntered(p.lastBackend); err != nil {
		cancel()
		return nil, err
	}
	return s, nil
}

func (s *session) stop() {
	s.cancel()
	select {
	case <-s.done:
	case <-time.After(5 * time.Second):
	}
}
