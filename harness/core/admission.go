package main

import (
	"context"
	"fmt"
	"os"
	"strings"
	"sync"
	"sync/atomic"
	"time"

	. "github.com/IBM/TSS/types"
)

// C12: K concurrent calls for the SAME session name (Sign on one topic, or KeyGen) at one real Scheme. The application's
// synchroniser factory holds the first K calls until all K are inside it (or 300 ms passed), i.e. every call has passed whatever
// the library does before it builds its synchroniser and none has got past it; the synchroniser itself waits for its context.
// Required: exactly one call is admitted (it runs until cancelled and then returns an error), every other call is refused with an
// error while the admitted one is still running, and after the admitted one returned the name is admitted again.
// One child process per case ("admission-one"): the library panics on some double admissions, on its own goroutines.

type jAdmission struct {
	Kind    string `json:"kind"` // "admission"
	Op      string `json:"op"`
	K       int    `json:"k"`
	Where   string `json:"where"` // rendezvous in the factory | none (calls merely started together)
	Verdict string `json:"verdict"`
	Detail  string `json:"detail"`
}

func runAdmissionAll() {
	var cases []*jAdmission
	var wg sync.WaitGroup
	for _, op := range []string{"sign", "keygen"} {
		for _, k := range []int{2, 3, 5} {
			for _, where := range []string{"factory", "none"} {
				j := &jAdmission{Kind: "admission", Op: op, K: k, Where: where}
				cases = append(cases, j)
				wg.Add(1)
				go func() {
					defer wg.Done()
					j.Verdict, j.Detail = runChild(30*time.Second, "admission-one", fmt.Sprintf("%s,%d,%s", j.Op, j.K, j.Where))
				}()
			}
		}
	}
	wg.Wait()
	for _, j := range cases {
		emit(j)
	}
}

func runAdmissionOne(spec string) {
	p := strings.Split(spec, ",")
	op, where := p[0], p[2]
	k := 0
	fmt.Sscan(p[1], &k)
	members := []uint16{1, 2, 3, 4}
	n := newFuzzNode("loud", 1, members, true)
	var arrived int32
	all := make(chan struct{})
	var once sync.Once
	rendezvous := where == "factory"
	n.scheme.SyncFactory = func(m []uint16, _ func(msg []byte), _ func(msg []byte, to uint16)) Synchronizer {
		if rendezvous {
			if int(atomic.AddInt32(&arrived, 1)) >= k {
				once.Do(func() { close(all) })
			}
			select {
			case <-all:
			case <-time.After(300 * time.Millisecond):
			}
		}
		return &scriptedSync{given: m, decide: func([]byte, int, []uint16) syncAction {
			return syncAction{gate: make(chan struct{})} // never released: the synchroniser ends with its context
		}}
	}
	type res struct {
		i   int
		err error
	}
	results := make(chan res, k+1)
	ctxs := make([]context.CancelFunc, k+1)
	call := func(i int) {
		ctx, cancel := context.WithCancel(context.Background())
		ctxs[i] = cancel
		go func() {
			var err error
			if op == "sign" {
				_, err = n.mp.Sign(ctx, []byte("digest to sign, 32 bytes long...."), "one-topic")
			} else {
				_, err = n.mp.KeyGen(ctx, len(members), len(members)-1)
			}
			results <- res{i, err}
		}()
	}
	for i := 0; i < k; i++ {
		call(i)
	}
	// phase 1: within 2 s all but one call must have been refused
	returned := map[int]error{}
	deadline := time.After(2 * time.Second)
collect:
	for len(returned) < k {
		select {
		case r := <-results:
			returned[r.i] = r.err
		case <-deadline:
			break collect
		}
	}
	running := k - len(returned)
	fail := func(s string) { fmt.Println("bad: " + s); os.Exit(0) }
	for i, err := range returned {
		if err == nil {
			fail(fmt.Sprintf("call %d returned success", i))
		}
	}
	if running != 1 {
		errs := []string{}
		for _, e := range returned {
			errs = append(errs, e.Error())
		}
		fail(fmt.Sprintf("%d of %d concurrent calls for one session name are running (exactly one must be admitted, the others refused); returned: %v", running, k, errs))
	}
	// phase 2: a further call while the admitted one runs is refused too
	rendezvous = false
	call(k)
	select {
	case r := <-results:
		if r.i != k || r.err == nil {
			fail(fmt.Sprintf("while a session runs: call %d returned %v", r.i, r.err))
		}
	case <-time.After(2 * time.Second):
		fail("a call made while the session name is in use was not refused within 2 s")
	}
	// phase 3: the admitted call ends with its context, and then the name is free again
	for i := 0; i < k; i++ {
		if _, done := returned[i]; !done {
			ctxs[i]()
		}
	}
	select {
	case r := <-results:
		if r.err == nil {
			fail("the admitted call returned success after its context was cancelled")
		}
	case <-time.After(3 * time.Second):
		fail("the admitted call did not return within 3 s after its context was cancelled")
	}
	call(k)
	select {
	case r := <-results:
		fail(fmt.Sprintf("after the session ended its name was not admitted again: %v", r.err))
	case <-time.After(500 * time.Millisecond):
	}
	ctxs[k]()
	select {
	case <-results:
	case <-time.After(3 * time.Second):
		fail("the re-admitted call did not return after cancellation")
	}
	time.Sleep(200 * time.Millisecond)
	fmt.Println("good: one admitted, the others refused, name free again afterwards")
}
