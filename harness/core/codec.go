package main

import (
	"encoding/hex"
	"fmt"

	discovery "github.com/IBM/TSS/disc"
	"github.com/IBM/TSS/threshold"
)

// C13 / C10: wire codecs through the verif hooks.

type jAckCase struct {
	Kind   string `json:"kind"` // "ack"
	Digest string `json:"digest"`
	Sender uint16 `json:"sender"`
	Round  uint8  `json:"round"`
	EncPan bool   `json:"enc_panic"`
	Enc    string `json:"enc"`
}

type jDecCase struct {
	Kind   string `json:"kind"` // "mpcdec"
	Data   string `json:"data"`
	Panic  bool   `json:"panic"`
	Err    bool   `json:"err"`
	IsAck  bool   `json:"is_ack"`
	Digest string `json:"digest"`
	Sender uint16 `json:"sender"`
	Round  uint8  `json:"round"`
}

type jSyncEnc struct {
	Kind  string   `json:"kind"` // "syncenc"
	Type  uint8    `json:"type"`
	Tag   string   `json:"tag"`
	Peers []uint16 `json:"peers"`
	Panic bool     `json:"panic"`
	Enc   string   `json:"enc"`
}

type jSyncDec struct {
	Kind  string   `json:"kind"` // "syncdec"
	Data  string   `json:"data"`
	Panic bool     `json:"panic"`
	Err   bool     `json:"err"`
	Type  uint8    `json:"type"`
	Tag   string   `json:"tag"`
	Peers []uint16 `json:"peers"`
}

type jTopic struct {
	Kind    string   `json:"kind"` // "topic"
	Members []uint16 `json:"members"`
	Topic   string   `json:"topic"`
}

type jExh struct {
	Kind     string `json:"kind"` // "exhaustive"
	What     string `json:"what"`
	Count    int    `json:"count"`
	Failures int    `json:"failures"`
	First    string `json:"first"`
}

func exact(b []byte) []byte { d := make([]byte, len(b)); copy(d, b); return d }

func tryAckEnc(digest []byte, sender uint16, round uint8) (enc []byte, panicked bool) {
	defer func() {
		if r := recover(); r != nil {
			panicked = true
		}
	}()
	return threshold.VerifNewRBCEncoding(string(digest), sender, round), false
}

func mpcDecode(data []byte) jDecCase {
	c := jDecCase{Kind: "mpcdec", Data: hex.EncodeToString(data)}
	func() {
		defer func() {
			if r := recover(); r != nil {
				c.Panic = true
			}
		}()
		// what handleMPC does: reject empty data, then Ack(), then branch on len(digest)
		if len(data) == 0 {
			c.Err = true // guarded by handleMPC; see "handle" cases for the real entry point
			return
		}
		d, s, r, err := threshold.VerifRBCAck(exact(data))
		if err != nil {
			c.Err = true
			return
		}
		if len(d) > 0 {
			c.IsAck = true
			c.Digest = hex.EncodeToString(d)
			c.Sender = s
			c.Round = r
		}
	}()
	return c
}

func syncDecode(data []byte) jSyncDec {
	c := jSyncDec{Kind: "syncdec", Data: hex.EncodeToString(data), Peers: []uint16{}}
	func() {
		defer func() {
			if r := recover(); r != nil {
				c.Panic = true
			}
		}()
		t, tag, peers, err := discovery.VerifDecode(exact(data))
		if err != nil {
			c.Err = true
			return
		}
		c.Type = t
		c.Tag = hex.EncodeToString([]byte(tag))
		if peers != nil {
			c.Peers = peers
		}
	}()
	return c
}

func syncEncode(t uint8, tag []byte, peers []uint16) jSyncEnc {
	c := jSyncEnc{Kind: "syncenc", Type: t, Tag: hex.EncodeToString(tag), Peers: peers}
	if c.Peers == nil {
		c.Peers = []uint16{}
	}
	func() {
		defer func() {
			if r := recover(); r != nil {
				c.Panic = true
			}
		}()
		c.Enc = hex.EncodeToString(discovery.VerifEncode(t, string(tag), peers))
	}()
	return c
}

func runCodec(r *prng, count int) {
	// ---- exhaustive implementation round-trip monitors (every 16-bit identifier)
	fail, first := 0, ""
	n := 0
	for s := 0; s < 65536; s++ {
		for _, round := range []uint8{0, 1, 64, 127} {
			n++
			d := []byte{byte(s), byte(s >> 3), 9}
			enc, p := tryAckEnc(d, uint16(s), round)
			if p {
				fail++
				continue
			}
			dd, ss, rr, err := threshold.VerifRBCAck(exact(enc))
			if err != nil || string(dd) != string(d) || ss != uint16(s) || rr != round {
				fail++
				if first == "" {
					first = fmt.Sprintf("sender=%d round=%d decoded sender=%d round=%d", s, round, ss, rr)
				}
			}
		}
	}
	emit(jExh{Kind: "exhaustive", What: "ack round-trip: all 65536 senders x rounds {0,1,64,127}", Count: n, Failures: fail, First: first})
	fail, first, n = 0, "", 0
	tag := r.bytes(32)
	for s := 0; s < 65536; s++ {
		n++
		peers := []uint16{uint16(s), uint16(65535 - s), uint16(s ^ 0x00ff)}
		enc := discovery.VerifEncode(uint8(1+s%3), string(tag), peers)
		t, tg, pp, err := discovery.VerifDecode(exact(enc))
		ok := err == nil && t == uint8(1+s%3) && tg == string(tag) && len(pp) == 3 && pp[0] == peers[0] && pp[1] == peers[1] && pp[2] == peers[2]
		if !ok {
			fail++
			if first == "" {
				first = fmt.Sprintf("peers=%v decoded=%v err=%v", peers, pp, err)
			}
		}
	}
	emit(jExh{Kind: "exhaustive", What: "sync round-trip: all 65536 identifiers in a 3-member view", Count: n, Failures: fail, First: first})

	// the per-topic tag stands for the sender's identifier in every synchronisation message: over all 65536 identifiers the
	// tags of one topic must be pairwise different (two members with one tag cannot both be heard) and equal to the
	// independently computed HMAC-SHA256(topic, identifier)
	fail, first, n = 0, "", 0
	tkey := r.bytes(32)
	seenTag := make(map[string]int, 65536)
	for s := 0; s < 65536; s++ {
		n++
		tg := string(discovery.VerifPRF(tkey, uint16(s)))
		bad := ""
		if prev, dup := seenTag[tg]; dup {
			bad = fmt.Sprintf("identifiers %d and %d have the same tag", prev, s)
		} else if tg != string(discTag(tkey, uint16(s))) {
			bad = fmt.Sprintf("tag of identifier %d is not HMAC-SHA256(topic, identifier)", s)
		}
		seenTag[tg] = s
		if bad != "" {
			fail++
			if first == "" {
				first = bad
			}
		}
	}
	emit(jExh{Kind: "exhaustive", What: "membership tags: all 65536 identifiers of one topic pairwise different and as specified", Count: n, Failures: fail, First: first})

	// ---- model = implementation: structured stream
	for i := 0; i < count; i++ {
		dl := []int{1, 2, 7, 8, 9, 32, 33}[r.intn(7)]
		if r.chance(1, 10) {
			dl = 0
		}
		d := r.bytes(dl)
		s := r.id16()
		round := uint8(r.intn(128))
		if r.chance(1, 10) {
			round = uint8(128 + r.intn(128))
		}
		enc, p := tryAckEnc(d, s, round)
		emit(jAckCase{Kind: "ack", Digest: hex.EncodeToString(d), Sender: s, Round: round, EncPan: p, Enc: hex.EncodeToString(enc)})
		if !p {
			emit(mpcDecode(enc))
			// mutations: truncate / extend / flip
			m := exact(enc)
			switch r.intn(4) {
			case 0:
				m = m[:r.intn(len(m)+1)]
			case 1:
				m = append(m, r.bytes(1+r.intn(3))...)
			case 2:
				m[r.intn(len(m))] ^= byte(1 << uint(r.intn(8)))
			case 3:
				m[0] |= 0x80
			}
			emit(mpcDecode(m))
		}
		// synchroniser messages
		np := r.intn(7)
		peers := make([]uint16, np)
		for j := range peers {
			peers[j] = r.id16()
		}
		t := uint8(1 + r.intn(3))
		if r.chance(1, 12) {
			t = uint8(r.intn(256))
		}
		tl := 32
		if r.chance(1, 12) {
			tl = r.intn(40)
		}
		se := syncEncode(t, r.bytes(tl), peers)
		emit(se)
		if !se.Panic {
			enc, _ := hex.DecodeString(se.Enc)
			emit(syncDecode(enc))
			m := exact(enc)
			switch r.intn(4) {
			case 0:
				m = m[:r.intn(len(m)+1)]
			case 1:
				m = append(m, r.bytes(1+r.intn(3))...)
			case 2:
				m[r.intn(len(m))] ^= byte(1 << uint(r.intn(8)))
			case 3:
				m[0] = byte(r.intn(256))
			}
			emit(syncDecode(m))
		}
		// membership topic
		emit(jTopic{Kind: "topic", Members: peers, Topic: hex.EncodeToString(threshold.VerifMembershipSyncTopicName(peers))})
	}
	// ---- malformed stream: every length 0..40 over a small alphabet pattern, both decoders
	alpha := []byte{0, 1, 127, 128, 255, 3}
	for l := 0; l <= 40; l++ {
		for a := 0; a < len(alpha); a++ {
			for b := 0; b < 3; b++ {
				m := make([]byte, l)
				for j := range m {
					m[j] = alpha[(a+j*b)%len(alpha)]
				}
				emit(mpcDecode(m))
				emit(syncDecode(m))
			}
		}
	}
}
