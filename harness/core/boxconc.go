package main

import (
	"bytes"
	"encoding/hex"
	"fmt"
	"runtime"
	"strconv"
	"sync"
	"time"

	"github.com/IBM/TSS/msg"
	. "github.com/IBM/TSS/types"
)

// C14: concurrent HandleMessage / Send calls on the real msg.Box, interleaved deterministically at the lock
// boundaries (yield hooks, build tag verif) by a cooperative scheduler that replays a given schedule.

type jCall struct {
	Kind  string `json:"kind"` // recv | send
	Msg   *jBMsg `json:"msg,omitempty"`
	Topic string `json:"topic,omitempty"`
}

// one goroutine: the calls it makes one after the other (a connection reader delivering the messages of its peer,
// or the local protocol goroutine sending)
type jThread struct {
	Calls []jCall `json:"calls"`
}

type jGrant struct {
	Thread   int      `json:"t"`
	Noop     bool     `json:"noop"`
	Site     string   `json:"site"` // where the thread stopped: a yield site, "call:next" or "done"
	Done     bool     `json:"done"`
	Handoffs []jBMsg  `json:"handoffs"`
	Forwards []string `json:"forwards"`
}

type jConcScenario struct {
	Kind     string              `json:"kind"`
	ID       int                 `json:"id"`
	Limit    int                 `json:"limit"`
	MaxT     int                 `json:"max_topics"`
	Threads  []jThread           `json:"threads"`
	Grants   []jGrant            `json:"grants"`
	Pending  []jBoxPending       `json:"fin_pending"`
	InFlight map[string][]string `json:"fin_inflight"`
	Started  []string            `json:"fin_started"`
	Panic    string              `json:"panic,omitempty"`
	Family   string              `json:"family"`
}

func goid() int {
	var buf [64]byte
	n := runtime.Stack(buf[:], false)
	f := bytes.Fields(buf[:n])
	id, _ := strconv.Atoi(string(f[1]))
	return id
}

type coopSched struct {
	mu     sync.Mutex
	byGoid map[int]int
	grant  []chan struct{}
	report chan string
	done   []bool
}

func (s *coopSched) hook(site string) {
	s.mu.Lock()
	t, ok := s.byGoid[goid()]
	s.mu.Unlock()
	if !ok {
		return
	}
	s.report <- site
	<-s.grant[t]
}

var concMu sync.Mutex // the yield hook is a package variable: one concurrent scenario at a time

func runBoxConc(id int, family string, threads []jThread, schedule []int, maxT int) *jConcScenario {
	concMu.Lock()
	defer concMu.Unlock()
	sc := &jConcScenario{Kind: "boxconc", ID: id, Limit: msg.VerifLimitPerSender, MaxT: maxT, Threads: threads, Grants: []jGrant{}, Pending: []jBoxPending{},
		Started: []string{}, Family: family}
	sb := newSeqBox(maxT, 4)
	s := &coopSched{byGoid: map[int]int{}, report: make(chan string), grant: make([]chan struct{}, len(threads)), done: make([]bool, len(threads))}
	for i := range threads {
		s.grant[i] = make(chan struct{})
	}
	// force initialisation (and the clock goroutine) before the hook is active
	sb.box.VerifEpoch()
	msg.VerifYieldHook = s.hook
	defer func() { msg.VerifYieldHook = nil }()
	for i, th := range threads {
		i, th := i, th
		go func() {
			s.mu.Lock()
			s.byGoid[goid()] = i
			s.mu.Unlock()
			<-s.grant[i]
			defer func() {
				if r := recover(); r != nil {
					s.report <- "panic:" + fmt.Sprint(r)
					return
				}
				s.report <- "done"
			}()
			for k, c := range th.Calls {
				if k > 0 {
					s.hook("call:next")
				}
				if c.Kind == "recv" {
					t, _ := hex.DecodeString(c.Msg.Topic)
					d, _ := hex.DecodeString(c.Msg.Data)
					sb.box.HandleMessage(&IncMessage{MsgType: uint8(MsgTypeMPC), Topic: t, Data: d, Source: c.Msg.Src})
				} else {
					t, _ := hex.DecodeString(c.Topic)
					sb.box.Send(uint8(MsgTypeMPC), t, []byte("out"), 1)
				}
			}
		}()
	}
	step := func(t int) {
		g := jGrant{Thread: t, Handoffs: []jBMsg{}, Forwards: []string{}}
		if t < 0 || t >= len(threads) || s.done[t] {
			g.Noop = true
			sc.Grants = append(sc.Grants, g)
			return
		}
		sb.rec.handoffs, sb.rec.forwards = nil, nil
		s.grant[t] <- struct{}{}
		select {
		case site := <-s.report:
			g.Site = site
			if site == "done" || (len(site) > 6 && site[:6] == "panic:") {
				s.done[t] = true
				if site != "done" {
					sc.Panic = site
				}
			}
		case <-time.After(3 * time.Second):
			g.Site = "stuck"
			s.done[t] = true
			sc.Panic = "stuck"
		}
		g.Done = s.done[t]
		g.Handoffs = append(g.Handoffs, sb.rec.handoffs...)
		g.Forwards = append(g.Forwards, sb.rec.forwards...)
		sc.Grants = append(sc.Grants, g)
	}
	for _, t := range schedule {
		step(t)
	}
	// run everything that is still going to completion, round robin
	for guard := 0; guard < 10000; guard++ {
		all := true
		for t := range threads {
			if !s.done[t] {
				all = false
				step(t)
			}
		}
		if all {
			break
		}
	}
	tmp := &jBoxScenario{}
	sb.snapshot(tmp)
	sc.Pending, sc.InFlight, sc.Started = tmp.Pending, tmp.InFlight, tmp.Started
	if sc.Pending == nil {
		sc.Pending = []jBoxPending{}
	}
	if sc.Started == nil {
		sc.Started = []string{}
	}
	sb.box.Stop()
	return sc
}

// random thread sets: reader goroutines (one per sender: the transport delivers the messages of a peer in order from one
// goroutine) and sending goroutines; now and then a goroutine that both receives and sends
func concThreads(r *prng, n int, ntopics, nsrc int) []jThread {
	var ths []jThread
	seq := 0
	src := 0
	for i := 0; i < n; i++ {
		var th jThread
		k := 1 + r.intn(4)
		switch {
		case src < nsrc && (i == 0 || !r.chance(1, 3)):
			src++
			for j := 0; j < k; j++ {
				seq++
				th.Calls = append(th.Calls, jCall{Kind: "recv", Msg: &jBMsg{Src: uint16(src), Topic: boxTopic(r.intn(ntopics)), Data: fmt.Sprintf("%04x", seq)}})
				if r.chance(1, 8) {
					th.Calls = append(th.Calls, jCall{Kind: "send", Topic: boxTopic(r.intn(ntopics))})
				}
			}
		default:
			for j := 0; j < (k+1)/2; j++ {
				th.Calls = append(th.Calls, jCall{Kind: "send", Topic: boxTopic(r.intn(ntopics))})
			}
		}
		ths = append(ths, th)
	}
	return ths
}

func runBoxConcAll(r *prng, count int, thorough bool) {
	id := 0
	seq := 0
	reader := func(src int, topics ...int) jThread {
		var th jThread
		for _, ti := range topics {
			seq++
			th.Calls = append(th.Calls, jCall{Kind: "recv", Msg: &jBMsg{Src: uint16(src), Topic: boxTopic(ti), Data: fmt.Sprintf("%04x", seq)}})
		}
		return th
	}
	sender := func(topics ...int) jThread {
		var th jThread
		for _, ti := range topics {
			th.Calls = append(th.Calls, jCall{Kind: "send", Topic: boxTopic(ti)})
		}
		return th
	}
	// exhaustive: every schedule of length L over the threads (grants to finished threads are no-ops; what is still
	// running after the schedule is run to completion round robin)
	exhaustive := func(family string, ths []jThread, L int) {
		k := len(ths)
		total := 1
		for i := 0; i < L; i++ {
			total *= k
		}
		for code := 0; code < total; code++ {
			sched := make([]int, L)
			c := code
			for i := 0; i < L; i++ {
				sched[i] = c % k
				c /= k
			}
			emit(runBoxConc(id, family, ths, sched, 50))
			id++
		}
	}
	// corpus: the thread sets and schedules on which the pinned upstream Box lost, delayed or reordered a message
	// (Props/C14.v: late, lost, order) always run first
	emit(runBoxConc(id, "corpus", []jThread{reader(1, 0), sender(0)}, []int{0, 1, 1, 0, 0, 0, 0, 0}, 50))
	id++
	emit(runBoxConc(id, "corpus", []jThread{reader(1, 0), reader(2, 0), sender(0)}, []int{0, 0, 0, 0, 0, 0, 1, 1, 1, 1, 2, 2, 2, 1}, 50))
	id++
	emit(runBoxConc(id, "corpus", []jThread{reader(1, 0, 0, 0), sender(0)}, []int{0, 0, 1, 1, 1, 0, 1, 0, 1, 1, 1, 1}, 50))
	id++
	emit(runBoxConc(id, "corpus", []jThread{reader(1, 0, 0), sender(0), reader(2, 0)}, []int{0, 0, 1, 1, 1, 2, 0, 1, 2, 1, 1, 1}, 50))
	id++
	exhaustive("reader2|send", []jThread{reader(1, 0, 0), sender(0)}, 10)
	exhaustive("recv|recv|send", []jThread{reader(1, 0), reader(2, 0), sender(0)}, 6)
	if thorough {
		exhaustive("reader3|send.send", []jThread{reader(1, 0, 0, 0), sender(0, 0)}, 13)
		exhaustive("reader2|reader1|send", []jThread{reader(1, 0, 0), reader(2, 0), sender(0)}, 9)
		exhaustive("reader2|send|send", []jThread{reader(1, 0, 1), sender(0), sender(1, 0)}, 9)
	}
	// random bursty schedules over 2..6 threads, one or two topics
	for i := 0; i < count; i++ {
		n := 2 + r.intn(5)
		ths := concThreads(r, n, 1+r.intn(2), 1+r.intn(3))
		L := 6 * n
		sched := make([]int, L)
		cur := r.intn(n)
		for j := range sched {
			if !r.chance(3, 5) {
				cur = r.intn(n)
			}
			sched[j] = cur
		}
		maxT := 50
		if r.chance(1, 6) {
			maxT = r.intn(2)
		}
		emit(runBoxConc(id, "random", ths, sched, maxT))
		id++
	}
}
