package main

import (
	"bytes"
	"context"
	"fmt"
	"os"
	"os/exec"
	"strings"
	"sync"
	"time"
)

// C11: KeyGen and Sign of a lone real Scheme (loud: real disc.Member and rbc.Receiver; silent: real msg.Box) whose peers have
// vanished (every outgoing message is dropped), called with a context that is already over or ends almost at once: expired
// deadline, deadline now, a deadline shorter than any internal timer, cancelled before the call. The call must RETURN AN ERROR:
// a panic on a goroutine the library starts cannot be recovered by the caller and takes the process down, so every case runs in
// a child process of its own ("deadline-one") and the parent records exit status and the last lines of its stderr.

type jDeadline struct {
	Kind    string `json:"kind"` // "deadline"
	Mode    string `json:"mode"`
	Op      string `json:"op"`
	Class   string `json:"class"`
	Verdict string `json:"verdict"` // err | ok | hang | crash
	Detail  string `json:"detail"`
}

var deadlineClasses = []string{"expired-1s", "expired-1ns", "now", "1us", "1ms", "20ms", "cancelled-before", "cancelled-1ms", "keygen-then-expired-sign"}

func runDeadlineAll() {
	var cases []*jDeadline
	sem := make(chan struct{}, 8)
	var wg sync.WaitGroup
	for _, mode := range []string{"loud", "silent"} {
		for _, op := range []string{"keygen", "sign"} {
			for _, class := range deadlineClasses {
				if class == "keygen-then-expired-sign" && op != "sign" {
					continue
				}
				j := &jDeadline{Kind: "deadline", Mode: mode, Op: op, Class: class}
				cases = append(cases, j)
				wg.Add(1)
				go func() {
					defer wg.Done()
					sem <- struct{}{}
					defer func() { <-sem }()
					j.Verdict, j.Detail = runChild(20*time.Second, "deadline-one", j.Mode+","+j.Op+","+j.Class)
				}()
			}
		}
	}
	wg.Wait()
	for _, j := range cases {
		emit(j)
	}
}

func runDeadlineOne(spec string) {
	p := strings.Split(spec, ",")
	mode, op, class := p[0], p[1], p[2]
	members := []uint16{1, 2, 3, 4}
	n := newFuzzNode(mode, 1, members, true)
	ctx, cancel := context.Background(), context.CancelFunc(func() {})
	mk := func() {
		switch class {
		case "expired-1s", "keygen-then-expired-sign":
			ctx, cancel = context.WithDeadline(context.Background(), time.Now().Add(-time.Second))
		case "expired-1ns":
			ctx, cancel = context.WithDeadline(context.Background(), time.Now().Add(-time.Nanosecond))
		case "now":
			ctx, cancel = context.WithDeadline(context.Background(), time.Now())
		case "1us":
			ctx, cancel = context.WithTimeout(context.Background(), time.Microsecond)
		case "1ms":
			ctx, cancel = context.WithTimeout(context.Background(), time.Millisecond)
		case "20ms":
			ctx, cancel = context.WithTimeout(context.Background(), 20*time.Millisecond)
		case "cancelled-before":
			ctx, cancel = context.WithCancel(context.Background())
			cancel()
		case "cancelled-1ms":
			ctx, cancel = context.WithCancel(context.Background())
			c := cancel
			time.AfterFunc(time.Millisecond, c)
		}
	}
	res := make(chan string, 1)
	go func() {
		defer func() {
			if r := recover(); r != nil {
				res <- "crash: panic in the calling goroutine: " + fmt.Sprint(r)
			}
		}()
		if class == "keygen-then-expired-sign" {
			// a key generation that failed by its (short) deadline first, then Sign with an expired one on the same Scheme
			c0, cn := context.WithTimeout(context.Background(), 30*time.Millisecond)
			n.mp.KeyGen(c0, len(members), len(members)-1)
			cn()
		}
		mk()
		defer cancel()
		var err error
		if op == "keygen" {
			_, err = n.mp.KeyGen(ctx, len(members), len(members)-1)
		} else {
			_, err = n.mp.Sign(ctx, []byte("digest to sign, 32 bytes long...."), "deadline-topic")
		}
		if err != nil {
			res <- "err: " + err.Error()
		} else {
			res <- "ok: returned success although no peer ever answered"
		}
	}()
	select {
	case r := <-res:
		// goroutines the call left behind get a moment to show a late panic
		time.Sleep(300 * time.Millisecond)
		if strings.HasPrefix(r, "crash") {
			fmt.Fprintln(os.Stderr, r)
			os.Exit(3)
		}
		fmt.Println(r)
	case <-time.After(8 * time.Second):
		fmt.Println("hang: the call did not return within 8 s after its context was over")
	}
}

// runChild runs one case in a child process of this binary and classifies what came back: the first word of the child's
// stdout (err / ok / hang / good / bad) or "crash" with the head of its stderr when it died.
func runChild(limit time.Duration, cmdName, spec string) (string, string) {
	cmd := exec.Command(os.Args[0], cmdName, "-x", spec)
	var so, se bytes.Buffer
	cmd.Stdout, cmd.Stderr = &so, &se
	done := make(chan error, 1)
	if err := cmd.Start(); err != nil {
		return "crash", "cannot start child: " + err.Error()
	}
	go func() { done <- cmd.Wait() }()
	select {
	case err := <-done:
		res := strings.TrimSpace(so.String())
		if err != nil {
			head := strings.Split(strings.TrimSpace(se.String()), "\n")
			if len(head) > 12 {
				head = head[:12]
			}
			return "crash", err.Error() + ": " + strings.Join(head, " | ")
		}
		for _, w := range []string{"err", "ok", "hang", "good", "bad"} {
			if strings.HasPrefix(res, w+":") {
				return w, res
			}
		}
		return "crash", "unexpected child output: " + res
	case <-time.After(limit):
		cmd.Process.Kill()
		return "hang", fmt.Sprintf("child did not finish within %v", limit)
	}
}
