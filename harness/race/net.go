package main

import (
	"fmt"
	"os"
	"sync"
	"sync/atomic"
	"time"

	. "github.com/IBM/TSS/types"
)

var verbose = os.Getenv("VERIF_RACE_LOG") != ""

type nolog struct{}

func (nolog) DebugEnabled() bool            { return false }
func (nolog) Debugf(string, ...interface{}) {}
func (nolog) Infof(string, ...interface{})  {}
func (nolog) Warnf(f string, a ...interface{}) {
	if verbose {
		fmt.Fprintf(os.Stderr, "warn: "+f+"\n", a...)
	}
}
func (nolog) Errorf(string, ...interface{}) {}

// network: in-memory transport; every message is handed to the receiver's HandleMessage from a goroutine of its own
// (as one goroutine per peer connection, or per message, would do), on a private copy of the bytes.
type network struct {
	nodes    []MpcParty
	ids      []uint16       // identifier of nodes[i]
	index    map[uint16]int // identifier -> position in nodes (configured members without a node are absent)
	inflight sync.WaitGroup
	stopped  int32
	rng      *prng
	rngLock  sync.Mutex
	// misbehaving sender: its traffic is duplicated and recorded for replay
	byz      uint16
	recLock  sync.Mutex
	recorded []*IncMessage
	sent     int64
	extra    int64
	active   int64
}

func clone(b []byte) []byte { return append([]byte(nil), b...) }

func (nw *network) rand(n int) int {
	nw.rngLock.Lock()
	defer nw.rngLock.Unlock()
	return int(nw.rng.next() % uint64(n))
}

func (nw *network) deliver(to uint16, m *IncMessage, delay time.Duration) {
	pos, isNode := nw.index[to]
	if atomic.LoadInt32(&nw.stopped) != 0 || !isNode {
		return
	}
	c := &IncMessage{Data: clone(m.Data), Topic: clone(m.Topic), Source: m.Source, MsgType: m.MsgType}
	nw.inflight.Add(1)
	atomic.AddInt64(&nw.active, 1)
	go func() {
		defer nw.inflight.Done()
		defer atomic.AddInt64(&nw.active, -1)
		if delay > 0 {
			time.Sleep(delay)
		}
		nw.nodes[pos].HandleMessage(c)
	}()
}

func (nw *network) sender(from uint16) func(msgType uint8, topic []byte, msg []byte, to ...uint16) {
	return func(msgType uint8, topic []byte, msg []byte, to ...uint16) {
		for _, dst := range to {
			if dst == from {
				continue
			}
			m := &IncMessage{Data: msg, Topic: topic, Source: from, MsgType: msgType}
			atomic.AddInt64(&nw.sent, 1)
			nw.deliver(dst, m, 0)
			if from == nw.byz { // duplicated, the copy a little later; remembered for out-of-phase replays
				atomic.AddInt64(&nw.extra, 1)
				nw.deliver(dst, m, time.Duration(nw.rand(300))*time.Microsecond)
				nw.recLock.Lock()
				nw.recorded = append(nw.recorded, &IncMessage{Data: clone(msg), Topic: clone(topic), Source: from, MsgType: msgType})
				nw.recLock.Unlock()
			}
		}
	}
}

// replayer re-sends recorded messages of the misbehaving sender to random receivers until stop is closed
func (nw *network) replayer(stop chan struct{}, done *sync.WaitGroup) {
	defer done.Done()
	for {
		select {
		case <-stop:
			return
		case <-time.After(150 * time.Microsecond):
		}
		nw.recLock.Lock()
		var m *IncMessage
		if len(nw.recorded) > 0 {
			m = nw.recorded[nw.rand(len(nw.recorded))]
		}
		nw.recLock.Unlock()
		if m != nil {
			to := uint16(1 + nw.rand(len(nw.nodes)))
			if to != nw.byz {
				atomic.AddInt64(&nw.extra, 1)
				nw.deliver(to, m, 0)
			}
		}
	}
}

// flooder sends forged messages in the name of the misbehaving sender (early / out of phase) until stop is closed
func (nw *network) flooder(stop chan struct{}, done *sync.WaitGroup, forged []*IncMessage) {
	defer done.Done()
	for {
		select {
		case <-stop:
			return
		case <-time.After(100 * time.Microsecond):
		}
		m := forged[nw.rand(len(forged))]
		to := uint16(1 + nw.rand(len(nw.nodes)))
		if to != nw.byz {
			atomic.AddInt64(&nw.extra, 1)
			nw.deliver(to, m, 0)
		}
	}
}

type prng struct{ s uint64 }

func (p *prng) next() uint64 {
	p.s += 0x9e3779b97f4a7c15
	z := p.s
	z = (z ^ (z >> 30)) * 0xbf58476d1ce4e5b9
	z = (z ^ (z >> 27)) * 0x94d049bb133111eb
	return z ^ (z >> 31)
}
