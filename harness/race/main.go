// race: full-stack KeyGen + Sign among three parties of the real threshold + rbc + disc + msg + mpc/bls code over an
// in-memory transport that delivers every message from a goroutine of its own; to be built with -race (property C20).
//
//	race -seed N -scenarios a,b,.. -out FILE      scenario markers and the detector's reports go to stderr
package main

import (
	"context"
	"crypto/sha256"
	"encoding/json"
	"flag"
	"fmt"
	"os"
	"strings"
	"sync"
	"sync/atomic"
	"time"

	"github.com/IBM/TSS/mpc/bls"
	"github.com/IBM/TSS/threshold"
	. "github.com/IBM/TSS/types"
	math "github.com/IBM/mathlib"
)

const n = 3

type result struct {
	Scenario string   `json:"scenario"`
	KeyGenOK int      `json:"keygen_ok"`
	SignOK   int      `json:"sign_ok"`
	SignRuns int      `json:"sign_runs"`
	Verified int      `json:"verified"`
	Sent     int64    `json:"sent"`
	Extra    int64    `json:"extra"`
	Stuck    int      `json:"stuck"`
	Errors   []string `json:"errors"`
	Millis   int64    `json:"ms"`
}

var lastShares [][]byte // shares of the last complete key generation (used when a flooded key generation does not finish)

// slowInitGen: the real key generator, descheduled for a while just before Init runs (a scheduling delay, nothing else)
type slowInitGen struct{ *bls.TBLS }

func (g *slowInitGen) Init(parties []uint16, threshold int, sendMsg func(msg []byte, isBroadcast bool, to uint16)) {
	time.Sleep(20 * time.Millisecond)
	g.TBLS.Init(parties, threshold, sendMsg)
}

// build: nodes with the given identifiers out of `configured` configured members 1..configured (identity mapping to party ids)
func build(silent bool, byz uint16, seed uint64, slowInit bool, ids []uint16, configured int) *network {
	nw := &network{byz: byz, rng: &prng{s: seed}, ids: ids, index: map[uint16]int{}}
	membership := func() map[UniversalID]PartyID {
		m := map[UniversalID]PartyID{}
		for i := 1; i <= configured; i++ {
			m[UniversalID(i)] = PartyID(i)
		}
		return m
	}
	for pos, id := range ids {
		nw.index[id] = pos
		kgf := func(id uint16) KeyGenerator {
			if slowInit {
				return &slowInitGen{TBLS: &bls.TBLS{Logger: nolog{}, Party: id}}
			}
			return &bls.TBLS{Logger: nolog{}, Party: id}
		}
		sf := func(id uint16) Signer { return &bls.TBLS{Logger: nolog{}, Party: id} }
		if silent {
			pick := func(topic []byte, expected int) []uint16 { return append([]uint16(nil), ids...)[:expected] }
			nw.nodes = append(nw.nodes, threshold.SilentScheme(id, nolog{}, kgf, sf, 1, nw.sender(id), membership, pick))
		} else {
			nw.nodes = append(nw.nodes, threshold.LoudScheme(id, nolog{}, kgf, sf, 1, nw.sender(id), membership))
		}
	}
	return nw
}

func topicHash(s string) []byte { h := sha256.Sum256([]byte(s)); return h[:] }

// forged traffic in the name of party `from`: DKG-phase messages of every kind, acknowledgements, sync noise
func forged(from uint16, topics ...string) []*IncMessage {
	g2 := math.Curves[1].GenG2.Bytes()
	zr := make([]byte, 32)
	zr[31] = 7
	var res []*IncMessage
	for _, t := range topics {
		th := topicHash(t)
		mpc := func(b ...byte) {
			res = append(res, &IncMessage{MsgType: uint8(MsgTypeMPC), Topic: th, Source: from, Data: b})
		}
		mpc(append([]byte{255, 1}, zr...)...)
		mpc(append([]byte{255, 2}, zr...)...)
		mpc(append([]byte{255, 3}, g2...)...)
		mpc(append([]byte{3, 0, 3}, zr...)...) // acknowledgement about its own message (ignored by the receivers)
		mpc(2, 0)                              // truncated acknowledgement
		mpc(255)
		res = append(res, &IncMessage{MsgType: uint8(MsgTypeSync), Topic: th, Source: from, Data: make([]byte, 37)})
	}
	return res
}

func (nw *network) keygen(res *result, timeout time.Duration) [][]byte {
	shares := make([][]byte, n)
	var wg sync.WaitGroup
	var ok int32
	for i := range nw.nodes {
		wg.Add(1)
		go func(i int) {
			defer wg.Done()
			ctx, cancel := context.WithTimeout(context.Background(), timeout)
			defer cancel()
			s, err := nw.nodes[i].KeyGen(ctx, n, 2)
			if err == nil && len(s) > 0 {
				shares[i] = s
				atomic.AddInt32(&ok, 1)
			}
		}(i)
	}
	wg.Wait()
	res.KeyGenOK = int(ok)
	if ok == n {
		lastShares = shares
		return shares
	}
	return nil
}

// sign: the given parties sign concurrently on one topic; returns their partial signatures (nil entries on failure)
func (nw *network) sign(res *result, topic string, digest []byte, parties []int, timeout time.Duration, during func()) [][]byte {
	sigs := make([][]byte, len(parties))
	var wg sync.WaitGroup
	for k, p := range parties {
		wg.Add(1)
		go func(k, p int) {
			defer wg.Done()
			ctx, cancel := context.WithTimeout(context.Background(), timeout)
			defer cancel()
			s, err := nw.nodes[p-1].Sign(ctx, digest, topic)
			if err == nil && len(s) > 0 {
				sigs[k] = s
			}
		}(k, p)
	}
	if during != nil {
		during()
	}
	wg.Wait()
	return sigs
}

func (nw *network) check(res *result, digest []byte, parties []int, sigs [][]byte) {
	res.SignRuns++
	for _, s := range sigs {
		if s == nil {
			return
		}
	}
	res.SignOK++
	// (Scheme.ThresholdPK panics with mpc/bls: it does not Init the signer it creates; the key is read from the share directly)
	if lastShares == nil {
		return
	}
	holder := &bls.TBLS{Logger: nolog{}, Party: 1}
	holder.Init([]uint16{1, 2, 3}, 2, nil)
	if holder.SetShareData(lastShares[0]) != nil {
		return
	}
	pk, err := holder.ThresholdPK()
	if err != nil {
		return
	}
	var v bls.Verifier
	if v.Init(pk) != nil {
		return
	}
	ids := make([]uint16, len(parties))
	for i, p := range parties {
		ids[i] = uint16(p)
	}
	if agg, err := v.AggregateSignatures(sigs, ids); err == nil && v.Verify(digest, agg) == nil {
		res.Verified++
	}
}

// scenario = mode[-dup][-flood][-api]:  loud|silent;  dup: party 3's traffic is duplicated and replayed out of phase;
// slowinit: the key generator's Init is delayed by 20 ms (early traffic meets an instance that is not set up yet);
// earlysync: authentic sync messages of member 1 for the session's sync topics, dispatched continuously from before the call;
// flood: forged early / out-of-phase messages in party 3's name all along;  api: SetStoredData during a signing session
func run(name string, seed uint64) *result {
	res := &result{Scenario: name, Errors: []string{}}
	t0 := time.Now()
	parts := strings.Split(name, "-")
	has := func(s string) bool {
		for _, p := range parts[1:] {
			if p == s {
				return true
			}
		}
		return false
	}
	silent := parts[0] == "silent"
	var byz uint16
	if has("dup") || has("flood") {
		byz = 3
	}
	ids, configured := []uint16{1, 2, 3}, n
	if has("earlysync") { // many configured members, the three nodes last: setting a topic up takes the longest for them
		configured = earlyConfigured
		ids = []uint16{earlyConfigured - 2, earlyConfigured - 1, earlyConfigured}
	}
	nw := build(silent, byz, seed, has("slowinit"), ids, configured)
	stop := make(chan struct{})
	var bg sync.WaitGroup
	if has("dup") {
		bg.Add(1)
		go nw.replayer(stop, &bg)
	}
	if has("flood") {
		bg.Add(1)
		go nw.flooder(stop, &bg, forged(3, DkgTopicName, "topic-A", "topic-B", "topic-C"))
	}
	if has("flood") {
		time.Sleep(30 * time.Millisecond) // early traffic: it arrives before the session exists (silent mode buffers it)
	}
	kgTimeout := 20 * time.Second
	if has("flood") {
		kgTimeout = 4 * time.Second // forged messages in the sender's own rounds make the receivers drop the real ones
	}
	early := has("earlysync")
	if early {
		// the early member makes itself part of every session, so the sessions end with "too many members" or by their
		// short context: what is exercised is the set-up of each synchronisation against the dispatcher
		all := append([]uint16{earlyMember}, nw.ids...)
		stopEarly := nw.earlyTraffic([]int{1, 2, 3}, [][]byte{topicHash(DkgTopicName), membersTopic(nw.ids)}, all)
		time.Sleep(2 * time.Millisecond)
		nw.keygen(res, 700*time.Millisecond)
		stopEarly()
		if lastShares != nil {
			for i := range nw.nodes {
				nw.nodes[i].SetStoredData(lastShares[i])
			}
		}
		digest := topicHash("message of " + name)
		for k, parties := range [][]int{{1, 2}, {1, 3}, {2, 3}, {1, 2}, {1, 3}, {2, 3}} {
			topic := fmt.Sprintf("early-%d", k)
			peers := []uint16{earlyMember}
			for _, p := range parties {
				peers = append(peers, nw.ids[p-1])
			}
			th := topicHash(topic)
			stopS := nw.earlyTraffic(parties, [][]byte{th, topicHash(string(th))}, peers)
			time.Sleep(2 * time.Millisecond)
			sigs := nw.sign(res, topic, digest, parties, 500*time.Millisecond, nil)
			stopS()
			res.SignRuns++
			for _, sg := range sigs {
				if sg != nil {
					res.SignOK++
					break
				}
			}
		}
		return nw.finish(res, t0, stop, &bg)
	}
	shares := nw.keygen(res, kgTimeout)
	if shares == nil {
		shares = lastShares
	}
	if shares == nil {
		res.Errors = append(res.Errors, "no key material: key generation did not complete in this or an earlier scenario")
	} else {
		for i := range nw.nodes {
			nw.nodes[i].SetStoredData(shares[i])
		}
		sgTimeout := 10 * time.Second
		if has("flood") {
			sgTimeout = 3 * time.Second
		}
		digest := topicHash("message of " + name)
		var during func()
		if has("api") {
			during = func() {
				for i := 0; i < 50; i++ {
					nw.nodes[0].SetStoredData(shares[0])
					time.Sleep(200 * time.Microsecond)
				}
			}
		}
		one := []int{1, 2}
		nw.check(res, digest, one, nw.sign(res, "topic-A", digest, one, sgTimeout, during))
		// two sessions at once; party 2 takes part in both (in silent mode the picked members are 1 and 2 for both)
		other := []int{2, 3}
		if silent {
			other = []int{1, 2}
		}
		var wg sync.WaitGroup
		var sigB, sigC [][]byte
		wg.Add(2)
		go func() { defer wg.Done(); sigB = nw.sign(res, "topic-B", digest, one, sgTimeout, nil) }()
		go func() { defer wg.Done(); sigC = nw.sign(res, "topic-C", digest, other, sgTimeout, nil) }()
		wg.Wait()
		nw.check(res, digest, one, sigB)
		nw.check(res, digest, other, sigC)
	}
	return nw.finish(res, t0, stop, &bg)
}

func (nw *network) finish(res *result, t0 time.Time, stop chan struct{}, bg *sync.WaitGroup) *result {
	close(stop)
	bg.Wait()
	atomic.StoreInt32(&nw.stopped, 1)
	// deliveries still inside HandleMessage after a grace period are stuck for good (a dispatcher goroutine that deadlocked)
	idle := make(chan struct{})
	go func() { nw.inflight.Wait(); close(idle) }()
	select {
	case <-idle:
	case <-time.After(3 * time.Second):
		res.Stuck = int(atomic.LoadInt64(&nw.active))
		res.Errors = append(res.Errors, "deliveries still blocked inside HandleMessage 3 s after the end of the scenario")
	}
	res.Sent, res.Extra = atomic.LoadInt64(&nw.sent), atomic.LoadInt64(&nw.extra)
	res.Millis = time.Since(t0).Milliseconds()
	return res
}

func main() {
	seed := flag.Uint64("seed", 1, "seed of the transport's random choices")
	scen := flag.String("scenarios", "loud,loud-dup,loud-flood,silent,silent-dup-flood,loud-api", "comma separated")
	outPath := flag.String("out", "", "JSON lines")
	flag.Parse()
	threshold.SyncInterval = 50 * time.Millisecond
	var out *os.File = os.Stdout
	if *outPath != "" {
		f, err := os.Create(*outPath)
		if err != nil {
			fmt.Fprintln(os.Stderr, err)
			os.Exit(2)
		}
		defer f.Close()
		out = f
	}
	enc := json.NewEncoder(out)
	for i, s := range strings.Split(*scen, ",") {
		fmt.Fprintf(os.Stderr, "SCENARIO-BEGIN %s\n", s)
		r := run(s, *seed+uint64(i)*1000003)
		fmt.Fprintf(os.Stderr, "SCENARIO-END %s\n", s)
		enc.Encode(r)
	}
}
