package main

import (
	"crypto/hmac"
	"crypto/sha256"
	"runtime"
	"sort"
	"sync"
	"sync/atomic"
	"time"

	. "github.com/IBM/TSS/types"
)

// "early sync traffic": member `earlyMember` is a configured member (it has no node here: it only misbehaves) whose
// membership-synchronisation messages for the sync topics of a session -- authentic: the tag is the keyed PRF of the topic
// and its identifier, exactly what disc.Member expects of it -- are dispatched to the other parties from goroutines of
// their own, continuously from BEFORE the party calls KeyGen / Sign, so that some of them meet the party's Synchronize
// between the registration of the topic and its first tick.  The topics are predictable: hash("DKG"), the hash of the
// member list, hash(topic), hash(hash(topic)).
// The nodes are the last three of earlyConfigured configured members and the early member is the first: a node stores the
// tag of member 1 first and its own tag last, so the set-up of a topic is as long as the configuration allows.
const earlyMember = uint16(1)
const earlyConfigured = 64

func syncTag(topic []byte, id uint16) []byte {
	h := hmac.New(sha256.New, topic)
	h.Write([]byte{byte(id), byte(id >> 8)})
	return h.Sum(nil)
}

// kind: 1 membership announcement, 2 query, 3 response (disc wire format: kind | tag | members little endian)
func syncMsg(kind byte, from uint16, topic []byte, peers []uint16) *IncMessage {
	b := append([]byte{kind}, syncTag(topic, from)...)
	for _, p := range peers {
		b = append(b, byte(p), byte(p>>8))
	}
	return &IncMessage{MsgType: uint8(MsgTypeSync), Topic: topic, Source: from, Data: b}
}

func membersTopic(members []uint16) []byte {
	h := sha256.New()
	for _, m := range members {
		h.Write([]byte{uint8(m), uint8(m >> 8)})
	}
	return h.Sum(nil)
}

// earlyTraffic starts, for every target party and every topic, a goroutine that hands the forged messages to the party's
// HandleMessage back to back for 25 ms (the session starts within that time) and then about every 20 microseconds.
// The returned function stops them and waits.
func (nw *network) earlyTraffic(targets []int, topics [][]byte, peers []uint16) func() {
	sorted := append([]uint16(nil), peers...)
	sort.Slice(sorted, func(i, j int) bool { return sorted[i] < sorted[j] })
	stop := make(chan struct{})
	var wg sync.WaitGroup
	for _, t := range targets {
		for _, topic := range topics {
			msgs := []*IncMessage{syncMsg(2, earlyMember, topic, sorted), syncMsg(1, earlyMember, topic, sorted),
				syncMsg(2, earlyMember, topic, sorted), syncMsg(3, earlyMember, topic, sorted)}
			wg.Add(1)
			go func(node MpcParty, msgs []*IncMessage) {
				defer wg.Done()
				t0 := time.Now()
				for i := 0; ; i++ {
					select {
					case <-stop:
						return
					default:
					}
					m := msgs[i%len(msgs)]
					node.HandleMessage(&IncMessage{Data: clone(m.Data), Topic: clone(m.Topic), Source: m.Source, MsgType: m.MsgType})
					atomic.AddInt64(&nw.extra, 1)
					if time.Since(t0) > 25*time.Millisecond {
						for w := time.Now(); time.Since(w) < 20*time.Microsecond; {
							runtime.Gosched()
						}
					} else if i%16 == 0 {
						runtime.Gosched()
					}
				}
			}(nw.nodes[t-1], msgs)
		}
	}
	return func() { close(stop); wg.Wait() }
}
