module verif/harness/dkg

go 1.20

require (
	github.com/IBM/TSS v0.0.0
	github.com/IBM/TSS/mpc/bls v0.0.0
	github.com/IBM/TSS/mpc/ps v0.0.0
	github.com/IBM/mathlib v0.0.3-0.20230831091907-c532c4d3b65c
)

require (
	github.com/consensys/bavard v0.1.13 // indirect
	github.com/consensys/gnark-crypto v0.9.1 // indirect
	github.com/hyperledger/fabric-amcl v0.0.0-20230602173724-9e02669dceb2 // indirect
	github.com/kilic/bls12-381 v0.1.0 // indirect
	github.com/mmcloughlin/addchain v0.4.0 // indirect
	github.com/pkg/errors v0.9.1 // indirect
	golang.org/x/crypto v0.1.0 // indirect
	golang.org/x/sys v0.5.0 // indirect
	rsc.io/tmplfunc v0.0.3 // indirect
)

replace github.com/IBM/TSS => /repo

replace github.com/IBM/TSS/mpc/bls => /repo/mpc/bls

replace github.com/IBM/TSS/mpc/ps => /repo/mpc/ps
