package main

// Cancellation matrix of the backend key generators (property C11 at the backend level): one real TBLS / TPS instance,
// its peers played by the harness.  For every wait of KeyGen (shares / commitments / keys) the context is done
//   before   KeyGen is invoked,
//   sending  while the party is inside sendMsg for the message it sends right before that wait (the monitor goroutine
//            fires its only Signal while nobody is parked),
//   parked   while the party is parked in that wait,
//   silent   never explicitly: the context has a deadline and the peers stop after their k-th message.
// Every KeyGen call runs under a watchdog: it has to return within 2 s after its context is done.

import (
	"context"
	"crypto/sha256"
	"encoding/asn1"
	"math/big"
	"sync"
	"time"

	ps "github.com/IBM/TSS/mpc/ps"
	math "github.com/IBM/mathlib"
)

type jCancel struct {
	Kind    string `json:"kind"`
	ID      int    `json:"id"`
	Pkg     string `json:"pkg"`
	N       int    `json:"n"`
	T       int    `json:"t"`
	Wait    string `json:"wait"`         // shares | commits | reveals
	Mode    string `json:"mode"`         // before | sending | parked | silent
	Silent  int    `json:"silent_after"` // silent: peers stop after this many kinds of messages (0..2); -1 otherwise
	OnePeer bool   `json:"one_peer"`     // silent: only the last peer stops, the others deliver everything
	Verdict string `json:"verdict"`      // err | ok | panic | hang
	Millis  int64  `json:"ms_after_done"`
	Reached bool   `json:"reached"` // the instance was observed in the intended situation before the context ended
}

func peerShare(pkg string, p *prng) []byte {
	sc := func() []byte {
		x := new(big.Int).SetBytes(p.bytes(32))
		x.Mod(x, order)
		b := make([]byte, 32)
		x.FillBytes(b)
		return b
	}
	if pkg == "bls" {
		return tagged(tagShare, sc())
	}
	raw, _ := asn1.Marshal(ps.XYs{X: sc(), Ys: [][]byte{sc(), sc()}})
	return tagged(tagShare, raw)
}

func peerKey(pkg string, p *prng) []byte {
	pt := func() *math.G2 { x := new(big.Int).SetBytes(p.bytes(32)); return curve.GenG2.Mul(zr(x)) }
	if pkg == "bls" {
		return pt().Bytes()
	}
	pk := ps.PK{X: pt(), Y: []*math.G2{pt(), pt()}}
	return pk.Bytes()
}

func runCancelCase(id int, pkg string, n, t int, wait, mode string, silentAfter int, onePeer bool, seed uint64) jCancel {
	res := jCancel{Kind: "cancel", ID: id, Pkg: pkg, N: n, T: t, Wait: wait, Mode: mode, Silent: silentAfter, OnePeer: onePeer}
	p := newPRNG(seed)
	w := &world{pkg: pkg, n: n, t: t}
	inst := w.newInstance(1)
	ids := make([]uint16, n)
	for i := range ids {
		ids[i] = uint16(i + 1)
	}
	phaseOf := map[string]int{"shares": 1, "commits": 2, "reveals": 3}[wait]
	var mu sync.Mutex
	sentTags := map[byte]int{}
	block := make(chan struct{})
	blockedNow := make(chan struct{}, 1)
	blockTag := byte(0)
	if mode == "sending" {
		blockTag = byte(phaseOf)
	}
	inst.Init(ids, t, func(msg []byte, bc bool, to uint16) {
		if len(msg) == 0 {
			return
		}
		mu.Lock()
		sentTags[msg[0]]++
		first := sentTags[msg[0]] == 1
		mu.Unlock()
		if msg[0] == blockTag && first {
			blockedNow <- struct{}{}
			<-block
		}
	})
	// what the peers would send, per kind
	keys := map[int][]byte{}
	for q := 2; q <= n; q++ {
		keys[q] = peerKey(pkg, p)
	}
	inject := func(kind int, upTo int) {
		for q := 2; q <= upTo; q++ {
			switch kind {
			case 1:
				inst.OnMsg(peerShare(pkg, p), uint16(q), false)
			case 2:
				d := sha256.Sum256(keys[q])
				inst.OnMsg(tagged(tagCommit, d[:]), uint16(q), true)
			case 3:
				inst.OnMsg(tagged(tagReveal, keys[q]), uint16(q), true)
			}
		}
	}
	var ctx context.Context
	var cancel context.CancelFunc
	if mode == "silent" {
		ctx, cancel = context.WithTimeout(context.Background(), 300*time.Millisecond)
	} else {
		ctx, cancel = context.WithCancel(context.Background())
	}
	defer cancel()
	// everything of the earlier phases is there (early messages are kept by OnMsg)
	switch mode {
	case "silent":
		for k := 1; k <= 3; k++ {
			upTo := n
			if k > silentAfter {
				if !onePeer {
					break
				}
				upTo = n - 1 // the last peer is the silent one
			}
			inject(k, upTo)
		}
	default:
		for k := 1; k < phaseOf; k++ {
			inject(k, n)
		}
	}
	if mode == "before" {
		cancel()
		res.Reached = true
	}
	type outcome struct {
		err      error
		panicked bool
	}
	done := make(chan outcome, 1)
	go func() {
		defer func() {
			if r := recover(); r != nil {
				done <- outcome{panicked: true}
			}
		}()
		_, err := inst.KeyGen(ctx)
		done <- outcome{err: err}
	}()
	switch mode {
	case "sending":
		select {
		case <-blockedNow:
			res.Reached = true
			cancel()
			time.Sleep(30 * time.Millisecond) // the monitor goroutine signals now; nobody is parked
		case <-time.After(3 * time.Second):
		}
		close(block)
	case "parked":
		for k := 0; k < 40000; k++ {
			total, parked := keygenGoroutines()
			mu.Lock()
			inPhase := (phaseOf == 1 && sentTags[tagShare] >= n-1 && sentTags[tagCommit] == 0) ||
				(phaseOf == 2 && sentTags[tagCommit] > 0 && sentTags[tagReveal] == 0) || (phaseOf == 3 && sentTags[tagReveal] > 0)
			mu.Unlock()
			if total >= 1 && parked >= 1 && inPhase {
				res.Reached = true
				break
			}
			time.Sleep(50 * time.Microsecond)
		}
		cancel()
	case "silent":
		res.Reached = true
	}
	<-ctx.Done()
	t0 := time.Now()
	select {
	case o := <-done:
		res.Millis = time.Since(t0).Milliseconds()
		switch {
		case o.panicked:
			res.Verdict = "panic"
		case o.err != nil:
			res.Verdict = "err"
		default:
			res.Verdict = "ok"
		}
	case <-time.After(2 * time.Second):
		res.Verdict, res.Millis = "hang", 2000
	}
	return res
}

func runCancel(r *prng, thorough bool) {
	nts := [][2]int{{3, 2}}
	if thorough {
		nts = [][2]int{{2, 2}, {3, 2}, {4, 3}}
	}
	id := 0
	for _, pkg := range []string{"bls", "ps"} {
		for _, nt := range nts {
			for _, wait := range []string{"shares", "commits", "reveals"} {
				for _, mode := range []string{"before", "sending", "parked"} {
					id++
					emit(runCancelCase(id, pkg, nt[0], nt[1], wait, mode, -1, false, r.next()))
				}
			}
			for k := 0; k <= 2; k++ {
				for _, one := range []bool{false, true} {
					id++
					emit(runCancelCase(id, pkg, nt[0], nt[1], []string{"shares", "commits", "reveals"}[k], "silent", k, one, r.next()))
				}
			}
		}
	}
}
