package main

// Backend level: real bls.TBLS / ps.TPS key generators, one goroutine per KeyGen, every message handed over by the
// harness in an order chosen by the seeded scheduler; one participant may deviate (its real instance runs, a mutator
// rewrites what it sends).  Dealt polynomials are known: crypto/rand.Reader is a seeded stream while a party deals.

import (
	"bytes"
	"context"
	crand "crypto/rand"
	"crypto/sha256"
	"encoding/asn1"
	"encoding/hex"
	"math/big"
	"runtime"
	"strings"
	"sync"
	"time"

	bls "github.com/IBM/TSS/mpc/bls"
	ps "github.com/IBM/TSS/mpc/ps"
	math "github.com/IBM/mathlib"
)

var curve = bls.VerifCurve()
var order = func() *big.Int { n, _ := new(big.Int).SetString(curve.GroupOrder.String(), 16); return n }()

const (
	tagShare  = 1
	tagCommit = 2
	tagReveal = 3
)

type kgParty interface {
	Init(parties []uint16, threshold int, sendMsg func(msg []byte, isBroadcast bool, to uint16))
	KeyGen(ctx context.Context) ([]byte, error)
	OnMsg(msgBytes []byte, from uint16, broadcast bool)
}

// seededReader: a deterministic byte stream (splitmix64)
type seededReader struct{ p *prng }

func (s *seededReader) Read(b []byte) (int, error) { copy(b, s.p.bytes(len(b))); return len(b), nil }

// keygenGoroutines inspects all goroutine stacks: how many are inside a KeyGen of mpc/bls or mpc/ps, and how many of
// those are parked in sync.Cond.Wait (a signalled waiter is runnable, not parked).
func keygenGoroutines() (total, parked int) {
	buf := make([]byte, 1<<20)
	n := runtime.Stack(buf, true)
	for _, g := range strings.Split(string(buf[:n]), "\n\n") {
		if !strings.Contains(g, ").KeyGen(") || !(strings.Contains(g, "mpc/bls.(*TBLS)") || strings.Contains(g, "mpc/ps.(*TPS)")) {
			continue
		}
		total++
		head := g
		if i := strings.Index(g, "\n"); i >= 0 {
			head = g[:i]
		}
		if strings.Contains(head, "[sync.Cond.Wait") {
			parked++
		}
	}
	return
}

// ---------------------------------------------------------------- scenario records
type jEvent struct {
	K    string `json:"k"` // S | C | R | Rbad | X  (ignored deliveries are not events: empty, unknown tag, unparsable share)
	From int    `json:"from,omitempty"`
	V    string `json:"v,omitempty"` // S: the scalar; C: exponent of the key committed to (>= r: no such key); R: exponent
}

type jParty struct {
	ID            int      `json:"id"`
	Honest        bool     `json:"honest"`
	Own           []string `json:"own"`    // own dealt share(s)
	Coeffs        []string `json:"coeffs"` // dealt polynomial(s), flattened
	DealOK        bool     `json:"deal_ok"`
	Events        []jEvent `json:"events"`
	Verdict       string   `json:"verdict"` // ok | err | panic | running
	Cancelled     bool     `json:"cancelled"`
	Sk            string   `json:"sk,omitempty"`
	PkExps        []string `json:"pk_exps,omitempty"`
	TpkExp        string   `json:"tpk_exp,omitempty"`
	ExpsMatch     bool     `json:"exps_match"` // g2^exponent equals the stored key bytes, for every key and the threshold key
	Material      string   `json:"material,omitempty"`
	Bcasts        []int    `json:"bcasts"`
	RevealCommits int      `json:"reveal_commits"` // commitments of other parties held when the key was broadcast (-1: never)
}

type jBScenario struct {
	Kind       string   `json:"kind"`
	Pkg        string   `json:"pkg"`
	ID         int      `json:"id"`
	N          int      `json:"n"`
	T          int      `json:"t"`
	Deviant    int      `json:"deviant"`
	Deviation  string   `json:"deviation"`
	Victims    []int    `json:"victims"`
	IDs        []int    `json:"ids"`         // participant identifiers in session order; party records, victims, events are by RANK (1..n)
	ReuseGroup int      `json:"reuse_group"` // > 0: the SAME party objects go through the runs 1, 2, .. of this group (Init + KeyGen again)
	ReuseRun   int      `json:"reuse_run"`
	Schedule   string   `json:"schedule"` // random (any pending message next, links are NOT FIFO) | a directed pattern "name X->Y"
	Parties    []jParty `json:"parties"`
	Stuck      bool     `json:"stuck"`
	SignOK     bool     `json:"sign_ok"`   // every >= t subset of the honest Ok parties signs and verifies under the reported key
	SignSets   int      `json:"sign_sets"` // number of subsets tried
	Deliver    int      `json:"deliveries"`
	Err        string   `json:"err,omitempty"`
}

// ---------------------------------------------------------------- the world of one scenario
type pmsg struct {
	from, to   int
	bcast      bool
	data       []byte
	after      *pmsg // must be delivered first
	needReveal int   // > 0: held until the party of this rank has broadcast its key
	done       bool
}

type bparty struct {
	id        int
	inst      kgParty
	honest    bool
	own       []*big.Int
	coeffs    []*big.Int
	dealOK    bool
	shares    map[int][]*big.Int // first stored share per sender (mirror of OnMsg)
	commits   map[int]bool
	reveals   map[int]bool
	events    []jEvent
	bcasts    []int
	revealAt  int
	rawSends  int // sendMsg calls seen (before the mutator)
	ctx       context.Context
	cancel    context.CancelFunc
	finished  bool
	res       []byte
	err       error
	panicked  bool
	cancelled bool
}

type world struct {
	mu       sync.Mutex
	pkg      string
	n, t     int
	comps    int // scalars per share: bls 1, ps 3 (message length 1)
	parties  []*bparty
	pending  []*pmsg
	rng      *prng
	keyExp   map[string][]*big.Int // key bytes -> exponent(s)
	compExp  map[string]*big.Int   // bytes of one key component (a G2 point) -> its exponent
	commitOf map[string]string     // commitment bytes -> key bytes
	fresh    int64
	dev      *deviation
	delivers int
	sched    *sched
	ids      []uint16        // identifier of the party of rank i+1
	rank     map[uint16]int  // identifier -> rank
	seen     map[[3]int]bool // (from, to, tag) delivered at least once
}

func (w *world) gen() *math.G2 {
	if w.pkg == "ps" {
		return ps.VerifG2(1)
	}
	return curve.GenG2
}

func zr(n *big.Int) *math.Zr {
	m := new(big.Int).Mod(n, order)
	b := make([]byte, 32)
	m.FillBytes(b)
	return curve.NewZrFromBytes(b)
}

// keyBytes: the serialized public key with the given exponent(s), as the package reveals it
func (w *world) keyBytes(exp []*big.Int) []byte {
	g := w.gen()
	if w.pkg == "bls" {
		return g.Mul(zr(exp[0])).Bytes()
	}
	pk := ps.PK{X: g.Mul(zr(exp[0]))}
	for _, e := range exp[1:] {
		pk.Y = append(pk.Y, g.Mul(zr(e)))
	}
	return pk.Bytes()
}

// canon: the canonical serialisation of a key that parses (the decoder accepts some non-canonical encodings: flag bits,
// trailing bytes); nil when it does not parse
func (w *world) canon(payload []byte) []byte {
	if !w.keyParses(payload) {
		return nil
	}
	if w.pkg == "bls" {
		p, _ := curve.NewG2FromBytes(payload)
		return p.Bytes()
	}
	var xys ps.XYs
	asn1.Unmarshal(payload, &xys)
	x, _ := curve.NewG2FromBytes(xys.X)
	pk := ps.PK{X: x}
	for _, yb := range xys.Ys {
		y, _ := curve.NewG2FromBytes(yb)
		pk.Y = append(pk.Y, y)
	}
	return pk.Bytes()
}

// compExponent: the exponent of one key component (a G2 point) if it is g^e for an exponent e the harness knows (or its
// negation, or 0): a deviating participant may combine components of several known keys (one flipped sign flag, one identity)
func (w *world) compExponent(pt *math.G2) *big.Int {
	if w.compExp == nil {
		return nil
	}
	return w.compExp[string(pt.Bytes())]
}

func (w *world) componentExps(key []byte) []*big.Int {
	if !w.keyParses(key) {
		return nil
	}
	var pts []*math.G2
	if w.pkg == "bls" {
		p, _ := curve.NewG2FromBytes(key)
		pts = []*math.G2{p}
	} else {
		var xys ps.XYs
		asn1.Unmarshal(key, &xys)
		x, _ := curve.NewG2FromBytes(xys.X)
		pts = append(pts, x)
		for _, yb := range xys.Ys {
			y, _ := curve.NewG2FromBytes(yb)
			pts = append(pts, y)
		}
	}
	if len(pts) != w.comps {
		return nil
	}
	res := make([]*big.Int, len(pts))
	for i, p := range pts {
		e := w.compExponent(p)
		if e == nil {
			return nil
		}
		res[i] = e
	}
	return res
}

func (w *world) registerKey(exp []*big.Int) []byte {
	if w.compExp == nil {
		w.compExp = map[string]*big.Int{}
		w.compExp[string(w.gen().Mul(zr(big.NewInt(0))).Bytes())] = big.NewInt(0)
	}
	for _, e := range exp {
		r := new(big.Int).Mod(e, order)
		n := new(big.Int).Mod(new(big.Int).Neg(e), order)
		w.compExp[string(w.gen().Mul(zr(r)).Bytes())] = r
		w.compExp[string(w.gen().Mul(zr(n)).Bytes())] = n
	}
	kb := w.keyBytes(exp)
	red := make([]*big.Int, len(exp))
	for i, e := range exp {
		red[i] = new(big.Int).Mod(e, order)
	}
	w.keyExp[string(kb)] = red
	d := sha256.Sum256(kb)
	w.commitOf[string(d[:])] = string(kb)
	// the inverse key as well (a flipped sign flag of an encoding decodes to it)
	neg := make([]*big.Int, len(exp))
	for i, e := range red {
		neg[i] = new(big.Int).Mod(new(big.Int).Neg(e), order)
	}
	w.keyExp[string(w.keyBytes(neg))] = neg
	return kb
}

// parseShare mirrors OnMsg: bls takes any bytes as a big-endian integer; ps wants an ASN.1 XYs with one Y per slot
func (w *world) parseShare(payload []byte) []*big.Int {
	if w.pkg == "bls" {
		return []*big.Int{new(big.Int).SetBytes(payload)}
	}
	var xys ps.XYs
	if _, err := asn1.Unmarshal(payload, &xys); err != nil || len(xys.Ys) != w.comps-1 {
		return nil
	}
	res := []*big.Int{new(big.Int).SetBytes(xys.X)}
	for _, y := range xys.Ys {
		res = append(res, new(big.Int).SetBytes(y))
	}
	return res
}

func (w *world) keyParses(payload []byte) bool {
	if w.pkg == "bls" {
		_, err := curve.NewG2FromBytes(payload)
		return err == nil
	}
	var xys ps.XYs
	if _, err := asn1.Unmarshal(payload, &xys); err != nil || len(xys.Ys) != w.comps-1 {
		return false
	}
	if _, err := curve.NewG2FromBytes(xys.X); err != nil {
		return false
	}
	for _, y := range xys.Ys {
		if _, err := curve.NewG2FromBytes(y); err != nil {
			return false
		}
	}
	return true
}

func decs(xs []*big.Int) []string {
	res := make([]string, len(xs))
	for i, x := range xs {
		res[i] = x.String()
	}
	return res
}

// secret of a party as the mirror sees it: own share plus the first stored share of every other party (missing ones skipped)
func (w *world) mirrorSk(p *bparty) []*big.Int {
	sk := make([]*big.Int, w.comps)
	for c := range sk {
		sk[c] = new(big.Int).Set(p.own[c])
		for _, q := range w.parties {
			if sh, ok := p.shares[q.id]; ok && q.id != p.id {
				sk[c].Add(sk[c], sh[c])
			}
		}
		sk[c].Mod(sk[c], order)
	}
	return sk
}

// record what the delivery of data from `from` means for party p (must mirror OnMsg exactly; the Coq model is fed from this)
func (w *world) observe(p *bparty, from int, data []byte) {
	if len(data) == 0 {
		return
	}
	payload := data[1:]
	switch data[0] {
	case tagShare:
		if _, dup := p.shares[from]; dup {
			return
		}
		sh := w.parseShare(payload)
		if sh == nil {
			return
		}
		p.shares[from] = sh
		p.events = append(p.events, jEvent{K: "S", From: from, V: sh[0].String()})
	case tagCommit:
		if p.commits[from] {
			return
		}
		p.commits[from] = true
		v := ""
		if kb, ok := w.commitOf[string(payload)]; ok && w.keyExp[kb] != nil {
			v = w.keyExp[kb][0].String()
		} else {
			w.fresh++
			v = new(big.Int).Add(order, big.NewInt(w.fresh)).String()
			// remember it, so that the same unknown commitment gets the same number at every receiver
			w.commitOf[string(payload)] = "?" + v
			w.keyExp["?"+v] = []*big.Int{new(big.Int).Add(order, big.NewInt(w.fresh))}
		}
		p.events = append(p.events, jEvent{K: "C", From: from, V: v})
	case tagReveal:
		if p.reveals[from] {
			return
		}
		if !w.keyParses(payload) {
			p.events = append(p.events, jEvent{K: "Rbad", From: from})
			return
		}
		p.reveals[from] = true
		v := "-1" // a well-formed key whose exponent the harness does not know (does not happen in the catalogue)
		if e, ok := w.keyExp[string(w.canon(payload))]; ok {
			v = e[0].String()
		}
		p.events = append(p.events, jEvent{K: "R", From: from, V: v})
	}
}

// ---------------------------------------------------------------- the deviating participant
type deviation struct {
	kind    string
	party   int
	victims map[int]bool
	held    []*pmsg // revealfirst: commitments kept back until the key is out
}

func (w *world) altShare(payload []byte) []byte {
	if w.pkg == "bls" {
		v := new(big.Int).SetBytes(payload)
		v.Add(v, big.NewInt(1)).Mod(v, order)
		b := make([]byte, 32)
		v.FillBytes(b)
		return b
	}
	var xys ps.XYs
	if _, err := asn1.Unmarshal(payload, &xys); err != nil {
		panic(err)
	}
	v := new(big.Int).SetBytes(xys.X)
	v.Add(v, big.NewInt(1)).Mod(v, order)
	xys.X = make([]byte, 32)
	v.FillBytes(xys.X)
	out, _ := asn1.Marshal(xys)
	return out
}

// otherKey: a well-formed key different from the deviant's own (exponent + 1 in the first component), registered
func (w *world) otherKey(p *bparty) []byte {
	e := w.mirrorSk(p)
	e[0] = new(big.Int).Add(e[0], big.NewInt(1))
	return w.registerKey(e)
}

// badKey: a right-sized key derived from the deviant's own one that is NOT what an honest party would reveal: bit flips of a
// valid encoding (almost surely no curve point), all 0xff (coordinates >= the field modulus), all zero (the identity: a
// valid point), a flipped flag bit / a trailing byte (non-canonical encodings the decoder may accept).  ps: one component.
func (w *world) badKey(p *bparty, kind string) []byte {
	own := w.keyBytes(w.mirrorSk(p))
	mod := func(b []byte) []byte {
		b = append([]byte{}, b...)
		switch kind {
		case "badkey-flip1":
			b[1] ^= 1
		case "badkey-flip40":
			b[40] ^= 4
		case "badkey-flip70":
			b[70] ^= 0x10
		case "badkey-fliplast":
			b[len(b)-1] ^= 1
		case "badkey-ff":
			for i := range b {
				b[i] = 0xff
			}
		case "badkey-zero":
			for i := range b {
				b[i] = 0
			}
		case "badkey-flagbit":
			b[0] ^= 0x80
		case "badkey-long":
			b = append(b, 0)
		}
		return b
	}
	if w.pkg == "bls" {
		return mod(own)
	}
	var xys ps.XYs
	asn1.Unmarshal(own, &xys)
	// the spoilt component is the first one: the one the model replay follows (some of these encodings still parse - the
	// identity, a flipped sign flag, a trailing byte - and the key they yield must be judged by the model as well)
	comp := 0
	switch comp {
	case 0:
		xys.X = mod(xys.X)
	case 1:
		xys.Ys[0] = mod(xys.Ys[0])
	default:
		xys.Ys[len(xys.Ys)-1] = mod(xys.Ys[len(xys.Ys)-1])
	}
	out, _ := asn1.Marshal(xys)
	return out
}

func tagged(tag byte, payload []byte) []byte { return append([]byte{tag}, payload...) }

// fan out one sendMsg call into pending deliveries, rewriting it when the sender is the deviant (lock held)
func (w *world) outgoing(p *bparty, data []byte, bcast bool, to int) {
	var dests []int
	for _, q := range w.parties {
		if q.id != p.id && (bcast || q.id == to) {
			dests = append(dests, q.id)
		}
	}
	add := func(dst int, d []byte, after *pmsg) *pmsg {
		m := &pmsg{from: p.id, to: dst, bcast: bcast, data: d, after: after}
		w.pending = append(w.pending, m)
		return m
	}
	dv := w.dev
	if dv == nil || dv.party != p.id || len(data) == 0 {
		for _, d := range dests {
			add(d, data, nil)
		}
		return
	}
	tag, payload := data[0], data[1:]
	alt := func() []byte { // the same kind of message with another value
		switch tag {
		case tagShare:
			return tagged(tag, w.altShare(payload))
		case tagCommit:
			d := sha256.Sum256(w.otherKey(p))
			return tagged(tag, d[:])
		default:
			return tagged(tag, w.otherKey(p))
		}
	}
	for _, d := range dests {
		// commitments and keys are broadcast-class: reliable broadcast hands every honest receiver the same bytes
		// (Props/C02.v), so a deviation that changes their CONTENT is applied to all receivers alike; the victim set
		// selects receivers for shares (point to point) and for withholding.
		victim := dv.victims[d] || (tag != tagShare && !strings.HasPrefix(dv.kind, "withhold"))
		switch dv.kind {
		case "offpoly":
			if tag == tagShare && victim {
				add(d, alt(), nil)
			} else {
				add(d, data, nil)
			}
		case "wrongreveal":
			if tag == tagReveal {
				add(d, alt(), nil)
			} else {
				add(d, data, nil)
			}
		case "wrongcommit":
			if tag == tagCommit {
				add(d, alt(), nil)
			} else {
				add(d, data, nil)
			}
		case "revealfirst":
			if tag == tagCommit {
				dv.held = append(dv.held, &pmsg{from: p.id, to: d, bcast: bcast, data: data})
			} else if tag == tagReveal {
				r := add(d, data, nil)
				for _, h := range dv.held {
					if h.to == d {
						h.after = r
						w.pending = append(w.pending, h)
					}
				}
			} else {
				add(d, data, nil)
			}
		case "dupgood":
			add(d, alt(), add(d, data, nil))
		case "dupbad":
			if victim {
				add(d, data, add(d, alt(), nil))
			} else {
				add(d, data, nil)
			}
		case "withhold-share", "withhold-commit", "withhold-reveal":
			drop := map[string]byte{"withhold-share": tagShare, "withhold-commit": tagCommit, "withhold-reveal": tagReveal}[dv.kind]
			if !(tag == drop && victim) {
				add(d, data, nil)
			}
		case "trunc-share":
			if tag == tagShare && victim {
				add(d, data[:len(data)/2], nil)
			} else {
				add(d, data, nil)
			}
		case "long-share":
			if tag == tagShare && victim && w.pkg == "bls" {
				add(d, append([]byte{tagShare, 1, 2, 3, 4, 5, 6, 7, 8}, payload...), nil)
			} else {
				add(d, data, nil)
			}
		case "trunc-reveal":
			if tag == tagReveal && victim {
				add(d, data[:len(data)-1], nil)
			} else {
				add(d, data, nil)
			}
		case "trunc-reveal-then-good":
			if tag == tagReveal {
				add(d, data, add(d, data[:len(data)-1], nil))
			} else {
				add(d, data, nil)
			}
		case "empty-share-first":
			if tag == tagShare && victim {
				add(d, data, add(d, []byte{tagShare}, nil))
			} else {
				add(d, data, nil)
			}
		case "commit-lastbyte", "commit-firstbyte":
			// a commitment that agrees with the hash of the key everywhere but in one byte
			if tag == tagCommit {
				c := append([]byte{}, data...)
				if dv.kind == "commit-lastbyte" {
					c[len(c)-1] ^= 1
				} else {
					c[1] ^= 1
				}
				add(d, c, nil)
			} else {
				add(d, data, nil)
			}
		case "empty-commit":
			if tag == tagCommit && victim {
				add(d, []byte{tagCommit}, nil)
			} else {
				add(d, data, nil)
			}
		case "badkey-flip1", "badkey-flip40", "badkey-flip70", "badkey-fliplast", "badkey-ff", "badkey-zero", "badkey-flagbit", "badkey-long":
			// a right-sized key that is not the honest one, WITH a matching commitment
			bad := w.badKey(p, dv.kind)
			// an encoding that still parses yields a key assembled from known components (own key, a negated or an identity
			// component): account for it, so that events, commitments and the final key lists carry its exponents
			w.registerKey(w.mirrorSk(p))
			if c := w.canon(bad); c != nil && w.keyExp[string(c)] == nil {
				if ce := w.componentExps(bad); ce != nil {
					w.keyExp[string(c)] = ce
				}
			}
			if c := w.canon(bad); c != nil && w.keyExp[string(c)] != nil {
				dg := sha256.Sum256(bad)
				w.commitOf[string(dg[:])] = string(c) // a commitment to these bytes commits to that key
			}
			switch tag {
			case tagCommit:
				dg := sha256.Sum256(bad)
				add(d, tagged(tagCommit, dg[:]), nil)
			case tagReveal:
				add(d, tagged(tagReveal, bad), nil)
			default:
				add(d, data, nil)
			}
		case "commit-placeholder-empty", "commit-placeholder-onebyte", "commit-placeholder-short":
			// a placeholder instead of the commitment; the real commitment only after the receiver has revealed its key, then
			// the key.  First value wins: the placeholder is the commitment, the key cannot match it.
			switch tag {
			case tagCommit:
				ph := []byte{tagCommit}
				if dv.kind == "commit-placeholder-onebyte" {
					ph = []byte{tagCommit, 7}
				} else if dv.kind == "commit-placeholder-short" {
					ph = append([]byte{tagCommit}, payload[:16]...)
				}
				first := add(d, ph, nil)
				late := add(d, data, first)
				late.needReveal = d
				dv.held = append(dv.held, late)
			case tagReveal:
				var late *pmsg
				for _, h := range dv.held {
					if h.to == d {
						late = h
					}
				}
				add(d, data, late)
			default:
				add(d, data, nil)
			}
		case "short-share-first":
			if tag == tagShare && victim {
				add(d, data, add(d, []byte{tagShare, 9}, nil))
			} else {
				add(d, data, nil)
			}
		case "empty-reveal-then-good":
			if tag == tagReveal {
				add(d, data, add(d, []byte{tagReveal}, nil))
			} else {
				add(d, data, nil)
			}
		case "junk":
			if tag == tagShare {
				j := add(d, []byte{}, nil)
				j = add(d, []byte{9, 1, 2, 3}, j)
				j = add(d, []byte{tagReveal}, j)
				add(d, data, j)
			} else {
				add(d, data, nil)
			}
		default:
			add(d, data, nil)
		}
	}
}

// ---------------------------------------------------------------- running one scenario
// ident: the identifier of the party of the given rank (ranks are 1..n, the evaluation points of the sharing)
func (w *world) ident(rank int) uint16 {
	if w.ids == nil {
		return uint16(rank)
	}
	return w.ids[rank-1]
}

func (w *world) rankOf(id uint16) int {
	if w.ids == nil {
		return int(id)
	}
	return w.rank[id]
}

func (w *world) newInstance(id int) kgParty {
	if w.pkg == "bls" {
		return &bls.TBLS{Party: w.ident(id), Logger: nolog{}}
	}
	return &ps.TPS{Curve: curve, Party: w.ident(id), Logger: nolog{}, MessageLength: 1}
}

func toBig(z *math.Zr) *big.Int { n, _ := new(big.Int).SetString(z.String(), 16); return n }

func (w *world) send(p *bparty, data []byte, bcast bool, to uint16) {
	w.mu.Lock()
	defer w.mu.Unlock()
	p.rawSends++
	cp := append([]byte{}, data...)
	if len(cp) > 0 && cp[0] == tagCommit {
		w.registerKey(w.mirrorSk(p)) // the key this party is committing to (and will reveal)
		p.bcasts = append(p.bcasts, 2)
	}
	if len(cp) > 0 && cp[0] == tagReveal {
		p.bcasts = append(p.bcasts, 3)
		p.revealAt = len(p.commits)
	}
	w.outgoing(p, cp, bcast, w.rankOf(to))
}

// sched: a directed schedule on top of the random one.  Deliveries are never FIFO per link (any pending message may be
// next); a pattern additionally HOLDS one message until another one has been delivered:
//
//	reveal-overtakes-commit  X's commitment reaches Y only after X's key (de-commitment) did
//	share-after-commits      X's share reaches Y only after Y holds the commitments of all other parties
//
// Both are possible with honest parties only: a party emits its commitment / key independently of what the held message
// unblocks at Y (holding a share until the same sender's KEY arrived would deadlock: the key needs Y's commitment).
type sched struct {
	pattern string // "": random only
	x, y    int
	ids     []uint16  // participant identifiers in session order (nil: 1..n); everything else in the harness is by RANK
	insts   []kgParty // instance reuse: the objects of an earlier run, by rank in THIS run (nil: fresh instances)
	group   int       // instance reuse: group number and position of the run in its group (0: not a reuse scenario)
	run     int
}

func (sc *sched) String() string {
	if sc == nil || sc.pattern == "" {
		return "random"
	}
	return sc.pattern + " " + string(rune('0'+sc.x)) + "->" + string(rune('0'+sc.y))
}

func (w *world) held(m *pmsg) bool {
	if m.needReveal > 0 {
		revealed := false
		for _, b := range w.parties[m.needReveal-1].bcasts {
			if b == 3 {
				revealed = true
			}
		}
		if !revealed {
			return true
		}
	}
	sc := w.sched
	if sc == nil || m.from != sc.x || m.to != sc.y || len(m.data) == 0 {
		return false
	}
	switch sc.pattern {
	case "reveal-overtakes-commit":
		return m.data[0] == tagCommit && !w.seen[[3]int{sc.x, sc.y, tagReveal}]
	case "share-after-commits":
		if m.data[0] != tagShare {
			return false
		}
		for _, q := range w.parties {
			if q.id != sc.y && !w.seen[[3]int{q.id, sc.y, tagCommit}] {
				return true
			}
		}
	}
	return false
}

func (w *world) enabled() []*pmsg {
	var res []*pmsg
	for _, m := range w.pending {
		if !m.done && (m.after == nil || m.after.done) && !w.held(m) {
			res = append(res, m)
		}
	}
	return res
}

func (w *world) allFinished() bool {
	for _, p := range w.parties {
		if !p.finished {
			return false
		}
	}
	return true
}

func (w *world) live() int {
	k := 0
	for _, p := range w.parties {
		if !p.finished {
			k++
		}
	}
	return k
}

// waitQuiet returns "msg" when something can be delivered, "done" when every KeyGen returned, "parked" when every
// KeyGen still running is blocked on its condition variable and nothing can be delivered, "stuck" on timeout.
func (w *world) waitQuiet() string {
	deadline := time.Now().Add(20 * time.Second)
	for time.Now().Before(deadline) {
		w.mu.Lock()
		en, fin, lv := len(w.enabled()), w.allFinished(), w.live()
		w.mu.Unlock()
		if en > 0 {
			return "msg"
		}
		if fin {
			return "done"
		}
		total, parked := keygenGoroutines()
		if total == lv && parked == lv {
			// look again: a send may have slipped in between the two observations
			w.mu.Lock()
			en, lv2 := len(w.enabled()), w.live()
			w.mu.Unlock()
			if en == 0 && lv2 == lv {
				return "parked"
			}
			continue
		}
		time.Sleep(100 * time.Microsecond)
	}
	return "stuck"
}

func (w *world) start(p *bparty, seed uint64) {
	// what it is going to deal, from a clone of the stream it will read
	clone := &seededReader{p: newPRNG(seed)}
	for c := 0; c < w.comps; c++ {
		poly, shares := bls.VerifGen(w.t, w.n, clone)
		for _, x := range poly {
			p.coeffs = append(p.coeffs, toBig(x))
		}
		p.own = append(p.own, toBig(shares[p.id-1]))
	}
	crand.Reader = &seededReader{p: newPRNG(seed)}
	p.ctx, p.cancel = context.WithCancel(context.Background())
	go func() {
		defer func() {
			if r := recover(); r != nil {
				w.mu.Lock()
				p.panicked, p.finished = true, true
				w.mu.Unlock()
			}
		}()
		res, err := p.inst.KeyGen(p.ctx)
		w.mu.Lock()
		p.res, p.err, p.finished = res, err, true
		w.mu.Unlock()
	}()
	// dealing is over once the n-1 share messages are out (the reader is not touched afterwards)
	for i := 0; i < 200000; i++ {
		w.mu.Lock()
		k, fin := p.rawSends, p.finished
		w.mu.Unlock()
		if k >= w.n-1 || fin {
			return
		}
		time.Sleep(50 * time.Microsecond)
	}
}

func (w *world) deliver(m *pmsg) {
	w.mu.Lock()
	m.done = true
	w.delivers++
	if len(m.data) > 0 {
		w.seen[[3]int{m.from, m.to, int(m.data[0])}] = true
	}
	target := w.parties[m.to-1]
	w.observe(target, m.from, m.data)
	w.mu.Unlock()
	func() {
		defer func() {
			if r := recover(); r != nil {
				w.mu.Lock()
				target.panicked = true
				w.mu.Unlock()
			}
		}()
		target.inst.OnMsg(append([]byte{}, m.data...), w.ident(m.from), m.bcast)
	}()
}

func runBScenario(id int, pkg string, n, t int, dv *deviation, seed uint64, sch ...*sched) jBScenario {
	w := &world{pkg: pkg, n: n, t: t, comps: 1, rng: newPRNG(seed), keyExp: map[string][]*big.Int{}, commitOf: map[string]string{}, dev: dv,
		seen: map[[3]int]bool{}}
	if len(sch) > 0 {
		w.sched = sch[0]
	}
	if pkg == "ps" {
		w.comps = 3
	}
	zeroKey := make([]*big.Int, w.comps)
	for i := range zeroKey {
		zeroKey[i] = big.NewInt(0)
	}
	w.registerKey(zeroKey) // the identity (its encoding is all zero) is a key whose exponent is known
	sc := jBScenario{Kind: "bdkg", Pkg: pkg, ID: id, N: n, T: t, Deviation: "none", Victims: []int{}, Schedule: w.sched.String()}
	if dv != nil {
		sc.Deviant, sc.Deviation = dv.party, dv.kind
		for v := range dv.victims {
			sc.Victims = append(sc.Victims, v)
		}
	}
	ids := make([]uint16, n)
	for i := range ids {
		ids[i] = uint16(i + 1)
	}
	if w.sched != nil && w.sched.ids != nil {
		ids = append([]uint16{}, w.sched.ids...)
		w.ids, w.rank = ids, map[uint16]int{}
		for i, x := range ids {
			w.rank[x] = i + 1
		}
	}
	for _, x := range ids {
		sc.IDs = append(sc.IDs, int(x))
	}
	if w.sched != nil {
		sc.ReuseGroup, sc.ReuseRun = w.sched.group, w.sched.run
	}
	for i := 1; i <= n; i++ {
		inst := kgParty(nil)
		if w.sched != nil && w.sched.insts != nil {
			inst = w.sched.insts[i-1]
		} else {
			inst = w.newInstance(i)
		}
		p := &bparty{id: i, inst: inst, honest: dv == nil || dv.party != i, shares: map[int][]*big.Int{},
			commits: map[int]bool{}, reveals: map[int]bool{}, revealAt: -1}
		w.parties = append(w.parties, p)
	}
	for _, p := range w.parties {
		p := p
		p.inst.Init(append([]uint16{}, ids...), t, func(msg []byte, bc bool, to uint16) { w.send(p, msg, bc, to) })
	}
	saved := crand.Reader
	for _, p := range w.parties {
		w.start(p, w.rng.next())
	}
	crand.Reader = saved
	cancelled := false
	for {
		st := w.waitQuiet()
		if st == "msg" {
			w.mu.Lock()
			en := w.enabled()
			m := en[w.rng.intn(len(en))]
			w.mu.Unlock()
			w.deliver(m)
			if w.rng.chance(1, 2) {
				// let the receiver react before the next delivery (otherwise several deliveries race with its wake-up)
				for k := 0; k < 2000; k++ {
					total, parked := keygenGoroutines()
					w.mu.Lock()
					lv := w.live()
					w.mu.Unlock()
					if total == lv && parked == lv {
						break
					}
					time.Sleep(50 * time.Microsecond)
				}
			}
			continue
		}
		if st == "done" {
			break
		}
		if st == "stuck" || cancelled {
			sc.Stuck = true
			break
		}
		// parked and nothing left to deliver: somebody waits for a message that will never come: cancel everybody still running
		cancelled = true
		w.mu.Lock()
		for _, p := range w.parties {
			if !p.finished {
				p.cancelled = true
				p.events = append(p.events, jEvent{K: "X"})
			}
		}
		w.mu.Unlock()
		for _, p := range w.parties {
			if p.cancelled {
				p.cancel()
			}
		}
		// a cancelled KeyGen returns as soon as its monitor goroutine has signalled it
		for k := 0; k < 100000; k++ {
			w.mu.Lock()
			pendingReturn := false
			for _, p := range w.parties {
				if p.cancelled && !p.finished {
					pendingReturn = true
				}
			}
			w.mu.Unlock()
			if !pendingReturn {
				break
			}
			time.Sleep(100 * time.Microsecond)
		}
	}
	for _, p := range w.parties {
		if p.cancel != nil {
			p.cancel()
		}
	}
	sc.Deliver = w.delivers
	w.collect(&sc)
	return sc
}

func subsetsAtLeast(ids []int, k int) [][]int {
	var res [][]int
	for m := 1; m < 1<<uint(len(ids)); m++ {
		var s []int
		for i, x := range ids {
			if m&(1<<uint(i)) != 0 {
				s = append(s, x)
			}
		}
		if len(s) >= k {
			res = append(res, s)
		}
	}
	return res
}

func (w *world) collect(sc *jBScenario) {
	var okHonest []int
	stored := map[int]*bls.StoredData{}
	for _, p := range w.parties {
		jp := jParty{ID: p.id, Honest: p.honest, Own: decs(p.own), Coeffs: decs(p.coeffs), Events: p.events, Bcasts: p.bcasts,
			RevealCommits: p.revealAt, Cancelled: p.cancelled, DealOK: true}
		if jp.Events == nil {
			jp.Events = []jEvent{}
		}
		if jp.Bcasts == nil {
			jp.Bcasts = []int{}
		}
		switch {
		case p.panicked:
			jp.Verdict = "panic"
		case !p.finished:
			jp.Verdict = "running"
		case p.err != nil:
			jp.Verdict = "err"
		default:
			jp.Verdict = "ok"
			var sk []byte
			var pks [][]byte
			var tpk []byte
			if w.pkg == "bls" {
				var sd bls.StoredData
				if _, err := asn1.Unmarshal(p.res, &sd); err != nil {
					panic(err)
				}
				sk, pks, tpk = sd.Sk, sd.PublicKeys, sd.ThresholdPK
				stored[p.id] = &sd
				jp.Sk = new(big.Int).SetBytes(sk).String()
			} else {
				var sd ps.StoredData
				if _, err := asn1.Unmarshal(p.res, &sd); err != nil {
					panic(err)
				}
				pks, tpk = sd.PublicKeys, sd.ThresholdPK
				if sh := w.parseShare(sd.Sk); sh != nil {
					jp.Sk = sh[0].String()
				}
			}
			h := sha256.New()
			h.Write(tpk)
			for _, k := range pks {
				h.Write(k)
			}
			jp.Material = hex.EncodeToString(h.Sum(nil))
			// exponents of the listed keys; the threshold key from them by the library's own reconstruct on the last subset
			jp.ExpsMatch = len(pks) == w.n
			exps := make([][]*big.Int, 0, w.n)
			for _, k := range pks {
				e, ok := w.keyExp[string(w.canon(k))]
				if !ok {
					// component by component: a deviator may reveal a key assembled from known components (identity, flipped sign)
					if ce := w.componentExps(k); ce != nil {
						e, ok = ce, true
					}
				}
				if !ok {
					jp.ExpsMatch = false
					e = make([]*big.Int, w.comps)
					for c := range e {
						e[c] = big.NewInt(-1)
					}
				}
				exps = append(exps, e)
				jp.PkExps = append(jp.PkExps, e[0].String())
			}
			if jp.ExpsMatch {
				var last []int64
				bls.VerifChooseKoutOfN(w.n, w.t, func(s []int64) { last = append([]int64{}, s...) })
				texp := make([]*big.Int, w.comps)
				for c := range texp {
					col := make([]*math.Zr, w.n)
					for i := range col {
						col[i] = zr(exps[i][c])
					}
					texp[c] = toBig(bls.VerifReconstruct(col, last...))
				}
				jp.TpkExp = texp[0].String()
				if !bytes.Equal(w.keyBytes(texp), tpk) {
					jp.ExpsMatch = false
				}
			}
			if p.honest {
				okHonest = append(okHonest, p.id)
			}
		}
		sc.Parties = append(sc.Parties, jp)
	}
	// C05/C01: the shares of any >= t honest parties that returned Ok sign under the reported key (bls; public API only)
	sc.SignOK = true
	if w.pkg == "bls" && len(okHonest) >= w.t {
		digest := sha256.Sum256([]byte("digest to sign"))
		first := w.parties[okHonest[0]-1].inst.(*bls.TBLS)
		rawPP, err := first.ThresholdPK()
		var v bls.Verifier
		if err != nil || v.Init(rawPP) != nil {
			sc.SignOK = false
			return
		}
		subsets := [][]int{}
		if len(okHonest) <= 8 {
			subsets = subsetsAtLeast(okHonest, w.t)
		} else {
			// many parties: the large signer sets are the interesting ones (products of evaluation points beyond 2^63)
			all := append([]int{}, okHonest...)
			subsets = append(subsets, all, all[1:], all[:w.t], all[len(all)-w.t:])
			if len(all) >= 21 && w.t <= 21 {
				subsets = append(subsets, all[:21], all[len(all)-21:])
			}
		}
		for _, sub := range subsets {
			sc.SignSets++
			var sigs [][]byte
			var signers []uint16
			for _, x := range sub {
				sig, err := w.parties[x-1].inst.(*bls.TBLS).Sign(context.Background(), digest[:])
				if err != nil {
					sc.SignOK = false
				}
				sigs = append(sigs, sig)
				signers = append(signers, w.ident(x))
			}
			agg, err := v.AggregateSignatures(sigs, signers)
			if err != nil || v.Verify(digest[:], agg) != nil {
				sc.SignOK = false
			}
			// the same set in the order the signatures might have arrived in (C01 speaks of sets of signers: the caller's
			// order of the aligned lists must not matter): reversed for odd subsets, rotated otherwise
			m := len(sub)
			sigs2, signers2 := make([][]byte, m), make([]uint16, m)
			for i := range sub {
				j := (i + 1 + sc.SignSets%m) % m
				if sc.SignSets%2 == 1 {
					j = m - 1 - i
				}
				sigs2[i], signers2[i] = sigs[j], signers[j]
			}
			agg, err = v.AggregateSignatures(sigs2, signers2)
			if err != nil || v.Verify(digest[:], agg) != nil {
				sc.SignOK = false
			}
		}
	}
}

// ---------------------------------------------------------------- the catalogue
var deviationKinds = []string{"offpoly", "wrongreveal", "wrongcommit", "revealfirst", "dupgood", "dupbad",
	"withhold-share", "withhold-commit", "withhold-reveal", "trunc-share", "long-share", "trunc-reveal",
	"trunc-reveal-then-good", "empty-share-first", "empty-commit", "commit-lastbyte", "commit-firstbyte", "junk",
	"badkey-flip1", "badkey-flip40", "badkey-flip70", "badkey-fliplast", "badkey-ff", "badkey-zero", "badkey-flagbit", "badkey-long",
	"commit-placeholder-empty", "commit-placeholder-onebyte", "commit-placeholder-short", "short-share-first", "empty-reveal-then-good"}

func victimSets(p *prng, n, deviant int, all bool) []map[int]bool {
	var honest []int
	for i := 1; i <= n; i++ {
		if i != deviant {
			honest = append(honest, i)
		}
	}
	var res []map[int]bool
	for m := 1; m < 1<<uint(len(honest)); m++ {
		s := map[int]bool{}
		for i, x := range honest {
			if m&(1<<uint(i)) != 0 {
				s[x] = true
			}
		}
		res = append(res, s)
	}
	if all {
		return res
	}
	// quick: one single victim and everybody
	return []map[int]bool{res[p.intn(len(honest))%len(res)], res[len(res)-1]}
}

var idSets = map[int][][]uint16{
	2: {{3, 7}, {1, 3}},
	3: {{1, 2, 4}, {2, 3, 5}, {0, 1, 2}, {255, 256, 300}, {65533, 65534, 65535}},
	4: {{1, 3, 4, 6}, {2, 3, 5, 9}, {1, 2, 3, 5}},
	5: {{1, 2, 4, 8, 16}, {2, 3, 4, 5, 6}},
}

// scheduleFamily: delivery schedules without per-link FIFO.  Directed cases (one per pattern and pair) plus random ones,
// everybody honest and with a deviating participant.  Returns the next free scenario id.
func scheduleFamily(r *prng, id int, pkg string, n, t int, thorough bool, byz bool) int {
	var pairs [][2]int
	for x := 1; x <= n; x++ {
		for y := 1; y <= n; y++ {
			if x != y {
				pairs = append(pairs, [2]int{x, y})
			}
		}
	}
	for _, pat := range []string{"reveal-overtakes-commit", "share-after-commits"} {
		sel := pairs
		if !thorough {
			sel = [][2]int{pairs[r.intn(len(pairs))]}
		}
		for _, pr := range sel {
			id++
			emit(runBScenario(id, pkg, n, t, nil, r.next(), &sched{pattern: pat, x: pr[0], y: pr[1]}))
		}
	}
	randomRuns := 2
	if thorough {
		randomRuns = 6
	}
	for k := 0; k < randomRuns; k++ {
		id++
		emit(runBScenario(id, pkg, n, t, nil, r.next()))
	}
	// participant identifier sets that are not 1..n: gaps, not starting at 1, boundary values.  The sharing is evaluated at
	// the RANK of a party in the session order, never at its identifier.
	sets := idSets[n]
	if !thorough && len(sets) > 2 {
		k := r.intn(len(sets) - 1)
		last := sets[len(sets)-1] // for n = 3 the set that ends at 65535: always part of the quick tier as well
		sets = [][]uint16{sets[0], sets[1+k]}
		if 1+k != len(idSets[n])-1 && n == 3 {
			sets = append(sets, last)
		}
	}
	for si, ids := range sets {
		id++
		emit(runBScenario(id, pkg, n, t, nil, r.next(), &sched{ids: ids}))
		if si == 0 || thorough {
			pr := pairs[r.intn(len(pairs))]
			id++
			emit(runBScenario(id, pkg, n, t, nil, r.next(), &sched{pattern: "reveal-overtakes-commit", x: pr[0], y: pr[1], ids: ids}))
		}
	}
	if !byz || n < 3 {
		return id
	}
	for _, kind := range []string{"offpoly", "dupgood", "revealfirst", "wrongreveal"} {
		deviant := 1 + r.intn(n)
		var honest []int
		for i := 1; i <= n; i++ {
			if i != deviant {
				honest = append(honest, i)
			}
		}
		x := honest[r.intn(len(honest))]
		y := x
		for y == x {
			y = honest[r.intn(len(honest))]
		}
		pat := []string{"reveal-overtakes-commit", "share-after-commits"}[r.intn(2)]
		if kind == "revealfirst" {
			pat = "reveal-overtakes-commit" // holding a share until commitments that are themselves held back would just stall
		}
		id++
		emit(runBScenario(id, pkg, n, t, &deviation{kind: kind, party: deviant, victims: map[int]bool{y: true}}, r.next(), &sched{pattern: pat, x: x, y: y, ids: idSets[n][r.intn(len(idSets[n]))]}))
	}
	return id
}

// reuseFamily: the same party objects taken through consecutive Init + KeyGen runs.  Every run is an ordinary scenario
// (own dealt polynomials, own schedule, own mirror): a reused object has to behave like a fresh one.
type stage struct {
	t    int
	ids  []uint16
	kind string // "" honest, else a deviation of the party of rank n with victim rank 1
}

var reuseGroups int

func runReuse(r *prng, id int, pkg string, n int, stages []stage) int {
	reuseGroups++
	objs := map[uint16]kgParty{}
	w0 := &world{pkg: pkg}
	for run, st := range stages {
		ids := st.ids
		if ids == nil {
			ids = make([]uint16, n)
			for i := range ids {
				ids[i] = uint16(i + 1)
			}
		}
		insts := make([]kgParty, n)
		for i, x := range ids {
			if objs[x] == nil {
				w0.ids = ids
				objs[x] = w0.newInstance(i + 1)
			}
			insts[i] = objs[x]
		}
		var dv *deviation
		if st.kind != "" {
			dv = &deviation{kind: st.kind, party: n, victims: map[int]bool{1: true}}
		}
		id++
		emit(runBScenario(id, pkg, n, st.t, dv, r.next(), &sched{ids: ids, insts: insts, group: reuseGroups, run: run + 1}))
	}
	return id
}

func reuseFamily(r *prng, id int, pkg string, n, t int, thorough bool, only string) int {
	t2 := n
	if t == n {
		t2 = 2
	}
	perm := make([]uint16, n) // the same parties in another session order (ranks change)
	for i := range perm {
		perm[i] = uint16((i+1)%n + 1)
	}
	gaps := idSets[n][0]
	id = runReuse(r, id, pkg, n, []stage{{t: t}, {t: t}, {t: t2}})
	id = runReuse(r, id, pkg, n, []stage{{t: t}, {t: t, ids: perm}})
	if only == "honest" {
		return id
	}
	id = runReuse(r, id, pkg, n, []stage{{t: t}, {t: t, kind: "offpoly"}, {t: t}})
	id = runReuse(r, id, pkg, n, []stage{{t: t}, {t: t, kind: "wrongreveal"}})
	id = runReuse(r, id, pkg, n, []stage{{t: t, kind: "offpoly"}, {t: t}, {t: t}})
	id = runReuse(r, id, pkg, n, []stage{{t: t, ids: gaps}, {t: t, ids: gaps, kind: "offpoly"}})
	if thorough {
		id = runReuse(r, id, pkg, n, []stage{{t: t, kind: "wrongcommit"}, {t: t2}, {t: t, kind: "dupbad"}})
		id = runReuse(r, id, pkg, n, []stage{{t: t2}, {t: t, ids: perm, kind: "offpoly"}, {t: t, ids: gaps}})
	}
	return id
}

// runMalformed: the malformed / placeholder part of the catalogue for both packages, one record per scenario in the shape the
// C10 check reads from the other engines (entry, class, panic): a panic of KeyGen or OnMsg of an honest party, or a KeyGen that
// does not return, on input a peer can send.
type jMal struct {
	Kind     string   `json:"kind"`
	Entry    string   `json:"entry"`
	Class    string   `json:"class"`
	Panic    bool     `json:"panic"`
	Stuck    bool     `json:"stuck"`
	Verdicts []string `json:"verdicts"`
	Scenario int      `json:"scenario"`
	N        int      `json:"n"`
	T        int      `json:"t"`
}

func runMalformed(r *prng, thorough bool) {
	kinds := []string{"trunc-share", "long-share", "trunc-reveal", "trunc-reveal-then-good", "empty-share-first", "empty-commit", "junk",
		"badkey-flip1", "badkey-flip40", "badkey-flip70", "badkey-fliplast", "badkey-ff", "badkey-zero", "badkey-flagbit", "badkey-long",
		"commit-placeholder-empty", "commit-placeholder-onebyte", "commit-placeholder-short", "short-share-first", "empty-reveal-then-good"}
	nts := [][2]int{{3, 2}, {3, 3}}
	if thorough {
		nts = [][2]int{{2, 2}, {3, 2}, {3, 3}, {4, 3}, {4, 4}}
	}
	id := 0
	for _, pkg := range []string{"bls", "ps"} {
		for _, nt := range nts {
			for _, kind := range kinds {
				if pkg == "ps" && kind == "long-share" {
					continue
				}
				deviant := 1 + r.intn(nt[0])
				victims := map[int]bool{}
				for i := 1; i <= nt[0]; i++ {
					if i != deviant {
						victims[i] = true
					}
				}
				id++
				sc := runBScenario(id, pkg, nt[0], nt[1], &deviation{kind: kind, party: deviant, victims: victims}, r.next())
				m := jMal{Kind: "dkgmal", Entry: "dkg/" + pkg + "/KeyGen+OnMsg", Class: kind, Stuck: sc.Stuck, Scenario: id, N: nt[0], T: nt[1]}
				for _, p := range sc.Parties {
					if p.Honest {
						m.Verdicts = append(m.Verdicts, p.Verdict)
						if p.Verdict == "panic" || p.Verdict == "running" {
							m.Panic = true
						}
					}
				}
				if sc.Stuck {
					m.Panic = true
				}
				emit(m)
			}
		}
	}
}

// runSchedules: the schedule family alone, for one package (C08 uses it for mpc/ps)
func runSchedules(r *prng, thorough bool, pkg string) {
	nts := [][2]int{{3, 2}, {3, 3}, {4, 3}}
	if thorough {
		nts = [][2]int{{2, 2}, {3, 2}, {3, 3}, {4, 2}, {4, 3}, {4, 4}, {5, 3}}
	}
	id := 0
	for _, nt := range nts {
		id = scheduleFamily(r, id, pkg, nt[0], nt[1], thorough, true)
	}
}

func runBackend(r *prng, thorough bool, only string) {
	nts := [][2]int{{3, 2}, {3, 3}, {4, 2}, {4, 3}, {4, 4}}
	pkgs := []string{"bls"}
	if thorough {
		nts = append(nts, [2]int{2, 2}, [2]int{5, 3}, [2]int{5, 5})
		pkgs = []string{"bls", "ps"}
	}
	id := 0
	for _, pkg := range pkgs {
		for _, nt := range nts {
			n, t := nt[0], nt[1]
			// everybody honest, several schedules
			honestRuns := 2
			if thorough {
				honestRuns = 5
			}
			if only == "honest" {
				honestRuns *= 3
			}
			for k := 0; k < honestRuns && only != "deviant"; k++ {
				id++
				emit(runBScenario(id, pkg, n, t, nil, r.next()))
			}
			for ki, kind := range deviationKinds {
				if only == "honest" {
					break
				}
				if !thorough && t == n && ki%2 != n%2 {
					continue // quick: for t = n (no cross-check to fool) (3,3) and (4,4) share the catalogue between them
				}
				if pkg == "ps" && kind == "long-share" {
					continue
				}
				deviant := 1 + r.intn(n)
				sets := victimSets(r, n, deviant, thorough && n <= 4)
				if !thorough {
					sets = sets[:1] // quick: one victim set per deviation
				}
				for _, vs := range sets {
					id++
					emit(runBScenario(id, pkg, n, t, &deviation{kind: kind, party: deviant, victims: vs}, r.next()))
				}
			}
		}
	}
	if thorough && only != "deviant" {
		// more than 20 parties: every honest party completes and large signer sets verify (model replay skipped: monitors only)
		id++
		emit(runBScenario(id, "bls", 22, 2, nil, r.next()))
		id++
		emit(runBScenario(id, "bls", 22, 21, nil, r.next()))
	}
	// schedules without per-link FIFO, directed and random, both packages
	fam := [][2]int{{3, 2}, {4, 3}}
	if thorough {
		fam = nts
	}
	for _, pkg := range []string{"bls", "ps"} {
		for _, nt := range fam {
			id = scheduleFamily(r, id, pkg, nt[0], nt[1], thorough, only != "honest")
		}
	}
	// instance reuse: the same objects through two and three consecutive Init + KeyGen runs
	for _, pkg := range []string{"bls", "ps"} {
		for _, nt := range fam {
			id = reuseFamily(r, id, pkg, nt[0], nt[1], thorough, only)
		}
	}
	if !thorough {
		// quick: a few more PS scenarios
		for _, kind := range []string{"none", "offpoly", "wrongreveal", "withhold-commit", "dupbad", "trunc-share", "badkey-flip40",
			"badkey-ff", "badkey-zero", "badkey-flagbit", "commit-placeholder-empty", "commit-placeholder-short", "empty-reveal-then-good"} {
			if (only == "honest") != (kind == "none") && only != "all" {
				continue
			}
			id++
			var dv *deviation
			if kind != "none" {
				dv = &deviation{kind: kind, party: 2, victims: map[int]bool{1: true}}
			}
			emit(runBScenario(id, "ps", 3, 2, dv, r.next()))
		}
	}
}
