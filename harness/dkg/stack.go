package main

// Full stack: threshold.LoudScheme / SilentScheme parties (the real threshold + disc + rbc + msg + mpc/bls of /repo) over an
// in-memory network with one FIFO queue per directed link; a seeded scheduler decides which link delivers next.
// Honest runs: KeyGen, then Sign by every t-subset for two digests, verified with bls.Verifier.
// Byzantine runs: one participant shows different commitment/key pairs to different honest parties (optionally vouching for
// its own messages); the honest parties must not end with differing public material.

import (
	"context"
	"crypto/sha256"
	"encoding/asn1"
	"encoding/hex"
	"fmt"
	"os"
	"strings"
	"sync"
	"time"

	bls "github.com/IBM/TSS/mpc/bls"
	"github.com/IBM/TSS/threshold"
	. "github.com/IBM/TSS/types"
)

type link struct{ from, to uint16 }

type lateMsg struct {
	at time.Time
	l  link
	m  *IncMessage
}

type snet struct {
	mu       sync.Mutex
	n        int
	nodes    []MpcParty
	queues   map[link][]*IncMessage
	busy     map[link]bool
	late     []lateMsg // Byzantine runs: acknowledgements about the deviating sender, released after a delay (reordering)
	order    []link
	rng      *prng
	byz      uint16
	groupB   map[uint16]bool
	selfAck  bool
	held     map[uint16]*IncMessage // the Byzantine party's commitment per destination, kept until its key is known
	picks    map[string][]uint16    // silent mode: topic hash -> members
	ids      []uint16               // identifier of the node of rank i+1
	idx      map[uint16]int         // identifier -> index into nodes
	stop     chan struct{}
	wg       sync.WaitGroup
	sent     int
	panics   []string
	teardown int
	logs     map[string]int
}

func (nw *snet) enqueue(from, to uint16, m *IncMessage) {
	l := link{from, to}
	if nw.byz != 0 && from != nw.byz && to != nw.byz && m.MsgType == uint8(MsgTypeMPC) && len(m.Data) > 0 && m.Data[0] != 0xFF {
		// the network is the adversary's: what honest parties say about the deviating sender's broadcasts reaches the
		// other honest parties late (C05 quantifies over delivery schedules; links need not be FIFO here)
		if _, sender, _, err := threshold.VerifRBCAck(m.Data); err == nil && sender == nw.byz {
			nw.late = append(nw.late, lateMsg{time.Now().Add(1500 * time.Millisecond), l, m})
			nw.sent++
			return
		}
	}
	if _, ok := nw.queues[l]; !ok {
		nw.order = append(nw.order, l)
	}
	nw.queues[l] = append(nw.queues[l], m)
	nw.sent++
}

func mpcPayload(raw []byte) []byte { return append([]byte{0xFF}, raw...) }

func (nw *snet) sender(id uint16) func(msgType uint8, topic []byte, msg []byte, to ...uint16) {
	return func(msgType uint8, topic []byte, msg []byte, to ...uint16) {
		nw.mu.Lock()
		defer nw.mu.Unlock()
		for _, d := range to {
			m := &IncMessage{Data: append([]byte{}, msg...), Source: id, MsgType: msgType, Topic: append([]byte{}, topic...)}
			equivocate := id == nw.byz && msgType == uint8(MsgTypeMPC) && len(msg) >= 2 && msg[0] == 0xFF
			if equivocate && msg[1] == tagCommit {
				nw.held[d] = m
				continue
			}
			if equivocate && msg[1] == tagReveal {
				rawCommit, rawReveal := nw.held[d].Data[1:], msg[1:]
				if nw.groupB[d] {
					pk, err := curve.NewG2FromBytes(msg[2:])
					if err != nil {
						panic(err)
					}
					pk.Add(curve.GenG2)
					other := pk.Bytes()
					dg := sha256.Sum256(other)
					rawCommit = append([]byte{tagCommit}, dg[:]...)
					rawReveal = append([]byte{tagReveal}, other...)
				}
				nw.enqueue(id, d, &IncMessage{Data: mpcPayload(rawCommit), Source: id, MsgType: msgType, Topic: m.Topic})
				if nw.selfAck {
					dg := sha256.Sum256(rawCommit)
					nw.enqueue(id, d, &IncMessage{Data: threshold.VerifNewRBCEncoding(string(dg[:]), id, 2), Source: id, MsgType: msgType, Topic: m.Topic})
				}
				nw.enqueue(id, d, &IncMessage{Data: mpcPayload(rawReveal), Source: id, MsgType: msgType, Topic: m.Topic})
				if nw.selfAck {
					dg := sha256.Sum256(rawReveal)
					nw.enqueue(id, d, &IncMessage{Data: threshold.VerifNewRBCEncoding(string(dg[:]), id, 3), Source: id, MsgType: msgType, Topic: m.Topic})
				}
				continue
			}
			nw.enqueue(id, d, m)
		}
	}
}

// scheduler: pick a non-empty idle link and release its oldest message; the link's own goroutine hands it to the destination
// (as the transport does: one reader per connection), so a handler that blocks stalls that link only.
func (nw *snet) schedule() {
	defer nw.wg.Done()
	for {
		select {
		case <-nw.stop:
			return
		default:
		}
		nw.mu.Lock()
		for len(nw.late) > 0 && time.Now().After(nw.late[0].at) {
			lm := nw.late[0]
			nw.late = nw.late[1:]
			if _, ok := nw.queues[lm.l]; !ok {
				nw.order = append(nw.order, lm.l)
			}
			nw.queues[lm.l] = append(nw.queues[lm.l], lm.m)
		}
		var ready []link
		for _, l := range nw.order {
			if len(nw.queues[l]) > 0 && !nw.busy[l] {
				ready = append(ready, l)
			}
		}
		var m *IncMessage
		var l link
		if len(ready) > 0 {
			l = ready[nw.rng.intn(len(ready))]
			m = nw.queues[l][0]
			nw.queues[l] = nw.queues[l][1:]
			nw.busy[l] = true
		}
		nw.mu.Unlock()
		if m == nil {
			time.Sleep(50 * time.Microsecond)
			continue
		}
		go func(l link, m *IncMessage) {
			defer func() {
				if r := recover(); r != nil {
					nw.mu.Lock()
					nw.panics = append(nw.panics, fmt.Sprint(r))
					nw.mu.Unlock()
				}
				nw.mu.Lock()
				nw.busy[l] = false
				nw.mu.Unlock()
			}()
			nw.nodes[nw.idx[l.to]].HandleMessage(m)
		}(l, m)
	}
}

var debugLog = os.Getenv("DKG_DEBUG") != ""

// capLog keeps the warnings / errors that explain why a session failed (never compared as text beyond one known marker)
type capLog struct {
	nw *snet
	id uint16
}

func (l capLog) Debugf(string, ...interface{}) {}
func (l capLog) Infof(string, ...interface{})  {}
func (l capLog) DebugEnabled() bool            { return false }
func (l capLog) note(f string, a ...interface{}) {
	m := fmt.Sprintf(f, a...)
	if debugLog {
		fmt.Fprintf(os.Stderr, "%s %d %s\n", time.Now().Format("05.000"), l.id, m)
	}
	l.nw.mu.Lock()
	if strings.Contains(m, "pre-signing topic") {
		l.nw.teardown++
	}
	// classes of reports, for the record only (digits and hex runs blanked)
	key := []byte(m)
	for i, c := range key {
		if (c >= '0' && c <= '9') || (c >= 'a' && c <= 'f' && i+1 < len(key) && ((key[i+1] >= '0' && key[i+1] <= '9') || (key[i+1] >= 'a' && key[i+1] <= 'f'))) {
			key[i] = '#'
		}
	}
	if len(key) > 90 {
		key = key[:90]
	}
	if l.nw.logs == nil {
		l.nw.logs = map[string]int{}
	}
	l.nw.logs[string(key)]++
	l.nw.mu.Unlock()
}
func (l capLog) Warnf(f string, a ...interface{})  { l.note(f, a...) }
func (l capLog) Errorf(f string, a ...interface{}) { l.note(f, a...) }

func buildNet(silent bool, n, t int, seed uint64, ids []uint16) *snet {
	nw := &snet{n: n, queues: map[link][]*IncMessage{}, busy: map[link]bool{}, rng: newPRNG(seed), groupB: map[uint16]bool{},
		held: map[uint16]*IncMessage{}, picks: map[string][]uint16{}, stop: make(chan struct{}), idx: map[uint16]int{}}
	mem := map[UniversalID]PartyID{}
	all := make([]uint16, n)
	for i := 1; i <= n; i++ {
		all[i-1] = uint16(i)
		if ids != nil {
			all[i-1] = ids[i-1] // node identifier = party identifier, but not 1..n
		}
		mem[UniversalID(all[i-1])] = PartyID(all[i-1])
		nw.idx[all[i-1]] = i - 1
	}
	nw.ids = all
	membership := func() map[UniversalID]PartyID { return mem }
	for _, id := range all {
		id := id
		kgf := func(id uint16) KeyGenerator { return &bls.TBLS{Logger: nolog{}, Party: id} }
		sf := func(id uint16) Signer { return &bls.TBLS{Logger: nolog{}, Party: id} }
		if silent {
			pick := func(topic []byte, expected int) []uint16 {
				nw.mu.Lock()
				defer nw.mu.Unlock()
				s, ok := nw.picks[string(topic)]
				if !ok {
					s = all[:expected]
				}
				if seed&1 == 1 && len(s) > 1 {
					// the application's pick need not be ordered (nor ordered alike at every node): every node returns the same
					// set, rotated by its own identifier
					r := int(id) % len(s)
					s = append(append([]uint16{}, s[r:]...), s[:r]...)
				}
				return s
			}
			nw.nodes = append(nw.nodes, threshold.SilentScheme(id, capLog{nw, id}, kgf, sf, t-1, nw.sender(id), membership, pick))
		} else {
			nw.nodes = append(nw.nodes, threshold.LoudScheme(id, capLog{nw, id}, kgf, sf, t-1, nw.sender(id), membership))
		}
	}
	nw.wg.Add(1)
	go nw.schedule()
	return nw
}

func materialOf(data []byte) (string, *bls.StoredData) {
	var sd bls.StoredData
	if _, err := asn1.Unmarshal(data, &sd); err != nil {
		return "unparsable", nil
	}
	h := sha256.New()
	h.Write(sd.ThresholdPK)
	for _, k := range sd.PublicKeys {
		h.Write(k)
	}
	return hex.EncodeToString(h.Sum(nil)), &sd
}

type jStack struct {
	Kind        string         `json:"kind"`
	ID          int            `json:"id"`
	Mode        string         `json:"mode"` // loud | silent
	N           int            `json:"n"`
	T           int            `json:"t"`
	Fault       string         `json:"fault"` // none | equivocate | equivocate-selfack
	IDs         []int          `json:"ids"`   // node = party identifiers of the participants, in order
	Byz         int            `json:"byz"`
	GroupB      []int          `json:"group_b"`
	KeyGen      []string       `json:"keygen"`    // per party: ok | err | timeout | panic
	Materials   int            `json:"materials"` // number of different (tpk, pks) among honest parties that returned ok
	Outcome     string         `json:"outcome"`   // all-ok | all-err | some-ok-consistent | split
	SignRuns    int            `json:"sign_runs"`
	SignOK      int            `json:"sign_ok"`     // sessions in which every participant obtained a partial signature
	Verified    int            `json:"verified"`    // ... whose aggregate verifies under the reported threshold key
	Teardown    int            `json:"teardown"`    // "Failed synchronizing on pre-signing topic" reports (known finding C01-a)
	Undelivered int            `json:"undelivered"` // messages still queued when the scenario ended
	SignFails   []string       `json:"sign_fails"`  // topics of the sessions in which some participant got no signature
	Logs        map[string]int `json:"logs"`        // warnings / errors of the stack by class (for diagnosis; not compared)
	Panics      []string       `json:"panics"`
	Sent        int            `json:"sent"`
	Millis      int64          `json:"ms"`
}

func tsubsets(n, t int) [][]uint16 {
	var res [][]uint16
	for m := 1; m < 1<<uint(n); m++ {
		var s []uint16
		for i := 0; i < n; i++ {
			if m&(1<<uint(i)) != 0 {
				s = append(s, uint16(i+1))
			}
		}
		if len(s) == t {
			res = append(res, s)
		}
	}
	return res
}

var signTimeout = 4 * time.Second

func runStackScenario(id int, silent bool, n, t int, fault string, seed uint64, maxSubsets int, ids []uint16) jStack {
	t0 := time.Now()
	nw := buildNet(silent, n, t, seed, ids)
	sc := jStack{Kind: "stack", ID: id, Mode: "loud", N: n, T: t, Fault: fault, GroupB: []int{}, Panics: []string{}, SignFails: []string{}}
	if silent {
		sc.Mode = "silent"
	}
	for _, x := range nw.ids {
		sc.IDs = append(sc.IDs, int(x))
	}
	timeout := 20 * time.Second
	if fault != "none" {
		nw.byz = uint16(1 + nw.rng.intn(n))
		nw.selfAck = fault == "equivocate-selfack"
		// split the honest parties: at least one of them sees the other commitment/key pair
		var honest []uint16
		for i := uint16(1); i <= uint16(n); i++ {
			if i != nw.byz {
				honest = append(honest, i)
			}
		}
		k := 1 + nw.rng.intn(len(honest))
		if k == len(honest) && len(honest) > 1 {
			k--
		}
		for _, h := range honest[:k] {
			nw.groupB[h] = true
			sc.GroupB = append(sc.GroupB, int(h))
		}
		sc.Byz = int(nw.byz)
		timeout = 5 * time.Second
	}
	// ---- KeyGen on every party
	data := make([][]byte, n)
	sc.KeyGen = make([]string, n)
	var wg sync.WaitGroup
	for i := 0; i < n; i++ {
		wg.Add(1)
		go func(i int) {
			defer wg.Done()
			defer func() {
				if r := recover(); r != nil {
					sc.KeyGen[i] = "panic"
				}
			}()
			ctx, cancel := context.WithTimeout(context.Background(), timeout)
			defer cancel()
			d, err := nw.nodes[i].KeyGen(ctx, n, t)
			switch {
			case err == nil && len(d) > 0:
				data[i], sc.KeyGen[i] = d, "ok"
			case ctx.Err() != nil:
				sc.KeyGen[i] = "timeout"
			default:
				sc.KeyGen[i] = "err"
			}
		}(i)
	}
	wg.Wait()
	mats := map[string]bool{}
	okHonest := 0
	for i := 0; i < n; i++ {
		if uint16(i+1) != nw.byz && sc.KeyGen[i] == "ok" {
			m, _ := materialOf(data[i])
			mats[m] = true
			okHonest++
		}
	}
	sc.Materials = len(mats)
	honestN := n
	if nw.byz != 0 {
		honestN--
	}
	switch {
	case len(mats) > 1:
		sc.Outcome = "split"
	case okHonest == honestN:
		sc.Outcome = "all-ok"
	case okHonest == 0:
		sc.Outcome = "all-err"
	default:
		sc.Outcome = "some-ok-consistent"
	}
	// ---- Sign: every t-subset, two digests (only when everybody holds a share)
	if okHonest == n {
		for i := 0; i < n; i++ {
			nw.nodes[i].SetStoredData(data[i])
		}
		holder := &bls.TBLS{Logger: nolog{}, Party: nw.ids[0]}
		holder.Init(append([]uint16{}, nw.ids...), t, nil)
		var v bls.Verifier
		verifier := holder.SetShareData(data[0]) == nil
		if verifier {
			pp, err := holder.ThresholdPK()
			verifier = err == nil && v.Init(pp) == nil
		}
		subs := tsubsets(n, t)
		if len(subs) > maxSubsets {
			for i := len(subs) - 1; i > 0; i-- {
				j := nw.rng.intn(i + 1)
				subs[i], subs[j] = subs[j], subs[i]
			}
			subs = subs[:maxSubsets]
		}
		for si, sub := range subs {
			for dg := 0; dg < 2; dg++ {
				topic := fmt.Sprintf("sign-%d-%d-%d", id, si, dg)
				digest := sha256.Sum256([]byte(topic + "/digest"))
				th := sha256.Sum256([]byte(topic))
				subIDs := make([]uint16, len(sub)) // sub holds ranks
				for k, p := range sub {
					subIDs[k] = nw.ids[p-1]
				}
				nw.mu.Lock()
				nw.picks[string(th[:])] = subIDs
				nw.mu.Unlock()
				sigs := make([][]byte, len(sub))
				var sw sync.WaitGroup
				for k, p := range sub {
					sw.Add(1)
					go func(k int, p uint16) {
						defer sw.Done()
						defer func() { recover() }()
						ctx, cancel := context.WithTimeout(context.Background(), signTimeout)
						defer cancel()
						s, err := nw.nodes[p-1].Sign(ctx, digest[:], topic)
						if err == nil && len(s) > 0 {
							sigs[k] = s
						}
					}(k, p)
				}
				sw.Wait()
				sc.SignRuns++
				complete := true
				for _, s := range sigs {
					if s == nil {
						complete = false
					}
				}
				if !complete {
					sc.SignFails = append(sc.SignFails, topic)
					continue
				}
				sc.SignOK++
				if verifier {
					// in the order of the session, and in reverse (the caller's order of the aligned lists must not matter)
					m := len(sigs)
					rs, rids := make([][]byte, m), make([]uint16, m)
					for i := range sigs {
						rs[i], rids[i] = sigs[m-1-i], subIDs[m-1-i]
					}
					agg, err := v.AggregateSignatures(sigs, subIDs)
					ragg, rerr := v.AggregateSignatures(rs, rids)
					if err == nil && v.Verify(digest[:], agg) == nil && rerr == nil && v.Verify(digest[:], ragg) == nil {
						sc.Verified++
					}
				}
			}
		}
	}
	// let the network drain: what is still queued are answers to sessions that are over
	for k := 0; k < 20000; k++ {
		nw.mu.Lock()
		left := len(nw.late)
		for l, q := range nw.queues {
			left += len(q)
			if nw.busy[l] {
				left++
			}
		}
		nw.mu.Unlock()
		if left == 0 || (nw.byz != 0 && k > 4000) {
			break
		}
		time.Sleep(100 * time.Microsecond)
	}
	// the report of a failed synchronisation is written by the synchroniser's goroutine after Sign has returned
	time.Sleep(150 * time.Millisecond)
	close(nw.stop)
	nw.wg.Wait()
	nw.mu.Lock()
	sc.Panics = append(sc.Panics, nw.panics...)
	sc.Sent = nw.sent
	sc.Teardown = nw.teardown
	sc.Logs = nw.logs
	for _, q := range nw.queues {
		sc.Undelivered += len(q)
	}
	nw.mu.Unlock()
	sc.Millis = time.Since(t0).Milliseconds()
	return sc
}

func runStack(r *prng, thorough bool, only string) {
	maxN, maxSubsets, byzRuns := 4, 3, 1
	if thorough {
		maxN, maxSubsets, byzRuns = 5, 10, 3
		signTimeout = 10 * time.Second
	}
	type job struct {
		silent bool
		n, t   int
		fault  string
		seed   uint64
		ids    []uint16
	}
	var jobs []job
	for _, silent := range []bool{false, true} {
		for n := 2; n <= maxN; n++ {
			for t := 2; t <= n; t++ {
				if only != "deviant" {
					jobs = append(jobs, job{silent, n, t, "none", r.next(), nil})
				}
			}
		}
	}
	// participant sets that are not 1..n (gaps, not starting at 1, beyond one byte): every t-subset must still verify
	if only != "deviant" {
		stackSets := [][]uint16{{1, 2, 4}, {2, 3, 5}, {1, 3, 4, 6}, {255, 256, 300}}
		if thorough {
			stackSets = append(stackSets, []uint16{3, 7}, []uint16{0, 1, 2}, []uint16{65533, 65534, 65535}, []uint16{1, 2, 4, 8, 16})
		}
		for si, ids := range stackSets {
			n := len(ids)
			for t := 2; t <= n; t++ {
				if !thorough && t != 2+si%(n-1) {
					continue // quick: one threshold per set
				}
				for _, silent := range []bool{false, true} {
					jobs = append(jobs, job{silent, n, t, "none", r.next(), ids})
				}
			}
		}
	}
	if only == "honest" {
		byzRuns = 0
	}
	for k := 0; k < byzRuns; k++ {
		for _, nt := range [][2]int{{3, 3}, {3, 2}, {4, 4}, {4, 3}} {
			for _, f := range []string{"equivocate", "equivocate-selfack"} {
				jobs = append(jobs, job{false, nt[0], nt[1], f, r.next(), nil})
			}
		}
		jobs = append(jobs, job{true, 3, 3, "equivocate-selfack", r.next(), nil})
	}
	res := make([]jStack, len(jobs))
	var wg sync.WaitGroup
	sem := make(chan struct{}, 8)
	for i, j := range jobs {
		wg.Add(1)
		go func(i int, j job) {
			defer wg.Done()
			sem <- struct{}{}
			defer func() { <-sem }()
			res[i] = runStackScenario(i+1, j.silent, j.n, j.t, j.fault, j.seed, maxSubsets, j.ids)
		}(i, j)
	}
	wg.Wait()
	for _, s := range res {
		emit(s)
	}
}
