package main

// splitmix64: every random choice of the harness derives from one state.
type prng struct{ s uint64 }

func newPRNG(seed uint64) *prng { return &prng{s: seed*0x9E3779B97F4A7C15 + 0x1234567} }

func (p *prng) next() uint64 {
	p.s += 0x9E3779B97F4A7C15
	z := p.s
	z = (z ^ (z >> 30)) * 0xBF58476D1CE4E5B9
	z = (z ^ (z >> 27)) * 0x94D049BB133111EB
	return z ^ (z >> 31)
}

func (p *prng) intn(n int) int {
	if n <= 0 {
		return 0
	}
	return int(p.next() % uint64(n))
}

func (p *prng) chance(num, den int) bool { return p.intn(den) < num }

func (p *prng) bytes(n int) []byte {
	b := make([]byte, n)
	for i := range b {
		b[i] = byte(p.next())
	}
	return b
}

func (p *prng) pick16(xs []uint16) uint16 { return xs[p.intn(len(xs))] }

// boundary identifiers of the 16-bit range
var boundaryIDs = []uint16{0, 1, 2, 3, 127, 128, 255, 256, 257, 511, 512, 513, 4095, 32767, 32768, 65279, 65280, 65534, 65535}

func (p *prng) id16() uint16 {
	switch p.intn(4) {
	case 0:
		return uint16(p.intn(8))
	case 1:
		return boundaryIDs[p.intn(len(boundaryIDs))]
	default:
		return uint16(p.next())
	}
}

// distinctIDs returns n distinct identifiers, mostly from the boundary set.
func (p *prng) distinctIDs(n int, small bool) []uint16 {
	seen := map[uint16]bool{}
	var res []uint16
	for len(res) < n {
		var x uint16
		if small {
			x = uint16(p.intn(12))
		} else {
			x = p.id16()
		}
		if !seen[x] {
			seen[x] = true
			res = append(res, x)
		}
	}
	return res
}
