package main

// Harness for the distributed key generation (properties C05, C01).
//   dkg backend -seed N -tier quick|thorough -out FILE     real TBLS / TPS instances driven message by message
//   dkg malformed -seed N -tier T -out FILE               malformed / placeholder deviations, records for the C10 check
//   dkg schedules -pkg ps -seed N -tier T -out FILE       backend DKG under schedules without per-link FIFO (C08, C05)
//   dkg cancel  -seed N -tier quick|thorough -out FILE     cancellation matrix of the backend KeyGen (C11)
//   dkg stack   -seed N -tier quick|thorough -out FILE     threshold.LoudScheme / SilentScheme over an in-memory network
// One JSON object per line; every random choice derives from -seed.

import (
	"bufio"
	"encoding/json"
	"flag"
	"fmt"
	"os"
	"sync"
)

var (
	out   *bufio.Writer
	outMu sync.Mutex
)

func emit(v interface{}) {
	b, err := json.Marshal(v)
	if err != nil {
		panic(err)
	}
	outMu.Lock()
	out.Write(b)
	out.WriteByte('\n')
	outMu.Unlock()
}

type nolog struct{}

func (nolog) Debugf(string, ...interface{}) {}
func (nolog) Infof(string, ...interface{})  {}
func (nolog) Warnf(string, ...interface{})  {}
func (nolog) Errorf(string, ...interface{}) {}
func (nolog) DebugEnabled() bool            { return false }

func main() {
	if len(os.Args) < 2 {
		fmt.Fprintln(os.Stderr, "usage: dkg backend|stack [flags]")
		os.Exit(2)
	}
	cmd := os.Args[1]
	fs := flag.NewFlagSet(cmd, flag.ExitOnError)
	seed := fs.Uint64("seed", 1, "PRNG seed")
	tier := fs.String("tier", "quick", "quick | thorough")
	outPath := fs.String("out", "", "output file (JSON lines); default stdout")
	pkgFlag := fs.String("pkg", "ps", "schedules: bls | ps")
	only := fs.String("only", "all", "all | honest | deviant: which scenarios to run")
	fs.Parse(os.Args[2:])
	f := os.Stdout
	if *outPath != "" {
		var err error
		f, err = os.Create(*outPath)
		if err != nil {
			panic(err)
		}
		defer f.Close()
	}
	out = bufio.NewWriterSize(f, 1<<20)
	defer out.Flush()
	switch cmd {
	case "backend":
		runBackend(newPRNG(*seed), *tier == "thorough", *only)
	case "malformed":
		runMalformed(newPRNG(*seed), *tier == "thorough")
	case "schedules":
		runSchedules(newPRNG(*seed), *tier == "thorough", *pkgFlag)
	case "cancel":
		runCancel(newPRNG(*seed), *tier == "thorough")
	case "stack":
		runStack(newPRNG(*seed), *tier == "thorough", *only)
	default:
		fmt.Fprintln(os.Stderr, "unknown command", cmd)
		os.Exit(2)
	}
}
