"""Shared machinery of the /verif checks: builds, Coq evaluation, evidence, verdicts."""
import fcntl, hashlib, json, os, re, subprocess, sys, time

VERIF = os.path.dirname(os.path.abspath(__file__))
REPO = os.environ.get("VERIF_REPO", "/repo")
COQ = os.path.join(VERIF, "coq")
BUILD = os.path.join(VERIF, "build")
# VERIF_REPO=<copy of the repository> runs the checks against that copy (used to try seeded changes without touching
# /repo): harness modules are then built through an alternative go.mod whose replace lines point at the copy, and
# binaries, run files, replays and evidence go to separate directories.
ALT = "" if REPO == "/repo" else "_" + hashlib.sha256(REPO.encode()).hexdigest()[:8]
BIN = os.path.join(BUILD, "bin" + ALT)
RUN = os.path.join(BUILD, "run" + ALT)
EVID = os.path.join(VERIF, "evidence") if not ALT else os.path.join(BUILD, "evidence" + ALT)
REPLAYS = os.path.join(VERIF, "replays") if not ALT else os.path.join(BUILD, "replays" + ALT)
KNOWN = os.path.join(VERIF, "KNOWN_FINDINGS.txt")

GOENV = dict(os.environ, GOFLAGS="-mod=mod", GOPROXY="off", GOSUMDB="off", GOTOOLCHAIN="local")

FORBIDDEN = re.compile(r"\b(Admitted|admit|Axiom|Axioms|Parameter|Parameters|Conjecture|Conjectures|Admit Obligations|"
                       r"Unset Guard Checking|Unset Positivity Checking|Unset Universe Checking|bypass_check|"
                       r"type-in-type|impredicative-set)\b")


def log(*a):
    print(*a, file=sys.stderr, flush=True)


class Lock:
    def __init__(self, name):
        os.makedirs(BUILD, exist_ok=True)
        self.path = os.path.join(BUILD, name + ".lock")

    def __enter__(self):
        self.f = open(self.path, "w")
        fcntl.flock(self.f, fcntl.LOCK_EX)
        return self

    def __exit__(self, *a):
        fcntl.flock(self.f, fcntl.LOCK_UN)
        self.f.close()


def sh(cmd, cwd=None, env=None, timeout=3600, input=None):
    p = subprocess.run(cmd, cwd=cwd, env=env, shell=isinstance(cmd, str), capture_output=True, text=True,
                       timeout=timeout, input=input)
    return p.returncode, p.stdout, p.stderr


# ----------------------------------------------------------------------------- Coq build

def grep_gate():
    """No Admitted/admit/Axiom/Parameter/... anywhere in the development."""
    bad = []
    # the development = the files of _CoqProject plus the property files (some are compiled outside the project);
    # scratch files of work in progress that are not part of the build are not the development
    project = set(l.strip() for l in open(os.path.join(COQ, "_CoqProject")) if l.strip().endswith(".v"))
    for root, _, files in os.walk(os.path.join(COQ, "theories")):
        for f in files:
            if f.endswith(".v"):
                p = os.path.join(root, f)
                rel = os.path.relpath(p, COQ)
                if rel not in project and not rel.startswith("theories/Props/") and not rel.startswith("theories/Gen/"):
                    continue
                for i, line in enumerate(open(p, encoding="utf-8"), 1):
                    code = re.sub(r"\(\*.*?\*\)", "", line)
                    if FORBIDDEN.search(code):
                        bad.append("%s:%d: %s" % (os.path.relpath(p, VERIF), i, line.strip()))
    cp = open(os.path.join(COQ, "_CoqProject")).read()
    if FORBIDDEN.search(cp):
        bad.append("_CoqProject uses a forbidden flag")
    return bad


def regen():
    """Regenerate Gen/*.v from /repo (translators); returns list of (file, changed)."""
    import glob
    for gen in sorted(glob.glob(os.path.join(VERIF, "tools", "gen_*.py"))):
        rc, out, err = sh([sys.executable, gen, REPO, os.path.join(COQ, "theories", "Gen")])
        if rc != 0:
            return False, os.path.basename(gen) + ": " + out + err
    return True, ""


def _ensure_makefile():
    mk = os.path.join(COQ, "Makefile")
    if not os.path.exists(mk) or os.path.getmtime(os.path.join(COQ, "_CoqProject")) > os.path.getmtime(mk):
        sh("coq_makefile -f _CoqProject -o Makefile", cwd=COQ)


_REGEN_DONE = False


def coq_build(clean=False, targets=None):
    """Full .vo build (never -vos) of the whole development, or of the given .vo targets and what they depend on.
    Returns (ok, log, failing_file)."""
    global _REGEN_DONE
    with Lock("coq"):
        if not _REGEN_DONE or clean:
            ok, msg = regen()
            if not ok:
                return False, "translator failed: " + msg, "tools/gen_*.py"
            _REGEN_DONE = True
        _ensure_makefile()
        if clean:
            sh("make clean", cwd=COQ)
        cmd = "timeout 3000 make -j16" + ("" if not targets else " " + " ".join(sorted(set(targets))))
        rc, out, err = sh(cmd, cwd=COQ, timeout=3100)
        failing = None
        if rc != 0:
            m = re.search(r'File "\./([^"]+)", line (\d+)', out + err)
            if m:
                failing = "%s:%s" % (m.group(1), m.group(2))
        return rc == 0, out + err, failing


def module_target(mod):
    """TSS.X.Y -> theories/X/Y.vo"""
    parts = mod.split(".")
    return "theories/" + "/".join(parts[1:]) + ".vo"


def props_file(pid):
    return os.path.join(COQ, "theories", "Props", pid + ".v")


def obligations(pid):
    """Compile Props/<pid>.v on its own, capture Print Assumptions per theorem.
    Returns dict(theorems=[...], discharged=[...], assumptions={thm: text}, ok, log, cmd)."""
    pf = props_file(pid)
    src = open(pf, encoding="utf-8").read()
    thms = re.findall(r"^\s*(?:Theorem|Corollary)\s+([A-Za-z0-9_']+)", src, re.M)
    cmd = "coqc -Q theories TSS theories/Props/%s.v" % pid
    with Lock("coq"):
        rc, out, err = sh("timeout 1200 " + cmd, cwd=COQ, timeout=1300)
    assum = {}
    # output of Print Assumptions: either "Closed under the global context" or "Axioms:\n..."
    blocks = re.split(r"(?=Closed under the global context|Axioms:)", out)
    blocks = [b.strip() for b in blocks if b.strip().startswith(("Closed", "Axioms:"))]
    pa = re.findall(r"^\s*Print Assumptions\s+([A-Za-z0-9_']+)", src, re.M)
    for name, b in zip(pa, blocks):
        assum[name] = b
    discharged = thms if rc == 0 else []
    failing = None
    if rc != 0:
        m = re.search(r'line (\d+)', err + out)
        if m:
            ln = int(m.group(1))
            before = [t for t in re.finditer(r"^\s*(?:Theorem|Corollary)\s+([A-Za-z0-9_']+)", src, re.M)
                      if src.count("\n", 0, t.start()) + 1 <= ln]
            if before:
                failing = before[-1].group(1)
                discharged = [t for t in thms if t != failing and thms.index(t) < thms.index(failing)]
    return dict(theorems=thms, discharged=discharged, assumptions=assum, ok=(rc == 0), log=out + err, cmd=cmd,
                failing=failing)


# ----------------------------------------------------------------------------- Coq evaluation

_BUILT = set()


class Emitter:
    """Builds the text of a cases.v: interns byte strings as named definitions."""

    def __init__(self):
        self.names = {}
        self.defs = []

    def bytes(self, hexstr):
        if hexstr == "":
            return "[]"
        n = self.names.get(hexstr)
        if n is None:
            n = "b%d" % len(self.names)
            self.names[hexstr] = n
            bs = bytes.fromhex(hexstr)
            self.defs.append("Definition %s : bytes := [%s]." % (n, ";".join(str(b) for b in bs)))
        return n

    @staticmethod
    def lst(items):
        return "[" + "; ".join(items) + "]"

    @staticmethod
    def nlist(xs):
        return "[" + ";".join(str(x) for x in xs) + "]"

    @staticmethod
    def b(x):
        return "true" if x else "false"


def coq_eval(tag, requires, body, result_name="M", timeout=1800):
    """Write build/run/<tag>/cases.v, compile it, return the printed value of result_name (string)."""
    targets = [module_target(m) for m in requires if m.startswith("TSS.")]
    key = tuple(sorted(targets))
    if key not in _BUILT:
        ok, blog, failing = coq_build(targets=targets)
        if not ok:
            return None, "cannot build %s: %s\n%s" % (targets, failing, blog[-3000:]), 0.0
        _BUILT.add(key)
    d = os.path.join(RUN, tag)
    os.makedirs(d, exist_ok=True)
    path = os.path.join(d, "cases.v")
    with open(path, "w") as f:
        f.write("Require Import %s.\nOpen Scope N_scope.\n" % " ".join(requires))
        f.write(body)
        f.write("\nDefinition %s := Eval vm_compute in %s_def.\nPrint %s.\n" % (result_name, result_name, result_name))
    t0 = time.time()
    rc, out, err = sh("timeout %d coqc -Q %s TSS -w -notation-overridden %s" % (timeout, os.path.join(COQ, "theories"), path),
                      cwd=d, timeout=timeout + 60)
    if rc != 0:
        return None, (out + err)[-4000:], time.time() - t0
    m = re.search(r"%s\s*=\s*(.*?)\n\s*:\s" % result_name, out, re.S)
    if not m:
        return None, out[-4000:], time.time() - t0
    return re.sub(r"\s+", " ", m.group(1)).strip(), out, time.time() - t0


def parse_pairs(val):
    """Parse a printed Coq list of pairs of numbers; None when the text is not understood."""
    v = re.sub(r"\s+", "", re.sub(r"%(nat|N|Z)", "", val))
    if v == "[]":
        return []
    if not re.fullmatch(r"\[\(\d+,\d+\)(;\(\d+,\d+\))*\]", v):
        return None
    return [(int(a), int(b)) for a, b in re.findall(r"\((\d+),(\d+)\)", v)]


def parse_nats(val):
    v = re.sub(r"\s+", "", re.sub(r"%(nat|N|Z)", "", val))
    if v == "[]":
        return []
    if not re.fullmatch(r"\[\d+(;\d+)*\]", v):
        return None
    return [int(a) for a in re.findall(r"\d+", v)]


def parallel_map(fn, items, workers=8):
    """Run fn over items concurrently (the work is in coqc subprocesses), keeping order."""
    from concurrent.futures import ThreadPoolExecutor
    if not items:
        return []
    with ThreadPoolExecutor(max_workers=workers) as ex:
        return list(ex.map(fn, items))


# ----------------------------------------------------------------------------- Go harness

def go_build(module, binary):
    """Build harness/<module> against /repo's working tree with -tags verif."""
    src = os.path.join(VERIF, "harness", module)
    os.makedirs(BIN, exist_ok=True)
    with Lock("go-" + module):
        # go.sum of the corresponding /repo module(s) (offline, no sumdb): harness/<module>/gosum.from lists the files
        gs = os.path.join(src, "gosum.from")
        if os.path.exists(gs):
            lines = set()
            for pth in open(gs).read().split():
                pth = pth.replace("/repo", REPO, 1) if pth.startswith("/repo") else pth
                if os.path.exists(pth):
                    lines.update(open(pth).read().splitlines())
            with open(os.path.join(src, "go.sum"), "w") as f:
                f.write("\n".join(sorted(lines)) + "\n")
        modflag = ""
        if ALT:
            md = os.path.join(BUILD, "modfiles" + ALT)
            os.makedirs(md, exist_ok=True)
            alt_mod = os.path.join(md, module + ".mod")
            with open(alt_mod, "w") as f:
                f.write(open(os.path.join(src, "go.mod")).read().replace("=> /repo", "=> " + REPO))
            gsum = os.path.join(src, "go.sum")
            if os.path.exists(gsum):
                with open(os.path.join(md, module + ".sum"), "w") as f:
                    f.write(open(gsum).read())
            modflag = "-modfile=%s " % alt_mod
        env = dict(GOENV)
        if ALT:
            env["GOFLAGS"] = "-mod=mod"
        rc, out, err = sh("go build %s-tags verif -o %s ." % (modflag, os.path.join(BIN, binary)), cwd=src, env=env, timeout=1800)
    return rc == 0, out + err


def run_harness(binary, args, out_path, timeout=3600):
    os.makedirs(os.path.dirname(out_path), exist_ok=True)
    rc, out, err = sh([os.path.join(BIN, binary)] + args + ["-out", out_path], env=GOENV, timeout=timeout)
    return rc, out + err


def read_jsonl(path):
    res = []
    with open(path) as f:
        for line in f:
            line = line.strip()
            if line:
                res.append(json.loads(line))
    return res


# ----------------------------------------------------------------------------- verdicts

def known_findings(pid):
    res = []
    if os.path.exists(KNOWN):
        for line in open(KNOWN):
            line = line.strip()
            if line.startswith("known:") and ("property=%s " % pid) in line:
                m = re.search(r"id=(\S+)", line)
                sig = re.search(r"sig=(\S+)", line)
                res.append(dict(id=m.group(1) if m else "?", sig=sig.group(1) if sig else "", text=line))
    return res


class Check:
    """One run of one property's check: accumulates coverage, writes evidence, prints the verdict."""

    def __init__(self, pid, tier, seed):
        self.pid, self.tier, self.seed = pid, tier, seed
        self.t0 = time.time()
        self.cov = dict(obligations=0, discharged=0, checker_cmd="", trusted_base=[], evaluations=0,
                        distinct_nontrivial=0, rule="", samples=[], mismatches=0, monitor_hits=0,
                        known_findings_reported=0)
        self.assumptions = []
        self.violations = []   # (replay_path, suffix)
        self.known_hits = []
        self.notes = []
        os.makedirs(os.path.join(RUN, pid), exist_ok=True)
        # replays of earlier runs of this property are stale
        d = os.path.join(REPLAYS, pid)
        if os.path.isdir(d):
            for f in os.listdir(d):
                try:
                    os.remove(os.path.join(d, f))
                except OSError:
                    pass

    def rundir(self):
        return os.path.join(RUN, self.pid)

    def add_obligations(self, ob):
        self.cov["obligations"] += len(ob["theorems"])
        self.cov["discharged"] += len(ob["discharged"])
        self.cov["checker_cmd"] = (self.cov["checker_cmd"] + " ; " if self.cov["checker_cmd"] else "") + \
            "make -j16 (coq_makefile, full .vo) ; " + ob["cmd"]
        for t, a in ob["assumptions"].items():
            self.cov["trusted_base"].append("Print Assumptions %s: %s" % (t, re.sub(r"\s+", " ", a)))

    def replay_path(self, name):
        d = os.path.join(REPLAYS, self.pid)
        os.makedirs(d, exist_ok=True)
        return os.path.join(d, name)

    def violation(self, name, content, no_input=False):
        p = self.replay_path(name)
        with open(p, "w") as f:
            if isinstance(content, str):
                f.write(content)
            else:
                json.dump(content, f, indent=1)
        self.violations.append((p, " no-failing-input-found" if no_input else ""))

    def monitor_hit(self, sig, name, content, what):
        """A property failure observed on the implementation. Known findings are matched by signature."""
        self.cov["monitor_hits"] += 1
        for k in known_findings(self.pid):
            if k["sig"] and k["sig"] == sig:
                if k["id"] not in [x[0] for x in self.known_hits]:
                    self.known_hits.append((k["id"], what))
                return
        self.violation(name, content)

    def finish(self, level="proof", extra_assumptions=()):
        self.cov["known_findings_reported"] = len(self.known_hits)
        ev = dict(property_id=self.pid, tier=self.tier, seed=self.seed, level=level, coverage=self.cov,
                  assumptions=list(extra_assumptions) + self.assumptions, wall_s=round(time.time() - self.t0, 2),
                  violations=len(self.violations), notes=self.notes)
        os.makedirs(EVID, exist_ok=True)
        with open(os.path.join(EVID, self.pid + ".json"), "w") as f:
            json.dump(ev, f, indent=1)
        for kid, what in self.known_hits:
            print("KNOWN-FINDING: property=%s %s %s" % (self.pid, kid, what))
        for p, suffix in self.violations[:5]:
            print("VIOLATION property=%s replay=%s%s" % (self.pid, p, suffix))
        sys.stdout.flush()
        return 1 if self.violations else 0


def proof_stage(chk, pids_props=None):
    """Grep gate + build + obligations of Props/<pid>.v.  Returns True when every obligation is discharged."""
    bad = grep_gate()
    if bad:
        chk.violation("grep_gate.txt", "forbidden construct in the Coq development:\n" + "\n".join(bad), no_input=True)
        return False
    props = (pids_props or [chk.pid])
    in_project = open(os.path.join(COQ, "_CoqProject")).read()
    targets = ["theories/Props/%s.vo" % p for p in props if ("theories/Props/%s.v" % p) in in_project]
    # a Props file kept out of _CoqProject (regenerated inputs) is compiled by obligations(); build its imports here
    for p in props:
        if ("theories/Props/%s.v" % p) not in in_project:
            src = open(props_file(p), encoding="utf-8").read()
            for mod in re.findall(r"\bTSS\.[A-Za-z0-9_.]+", src):
                t = module_target(mod.rstrip("."))
                if t[:-1] in in_project:
                    targets.append(t)
    ok, blog, failing = coq_build(targets=targets or None)
    if not ok:
        chk.notes.append("coq build failed at %s" % failing)
        chk.violation("coq_build.txt", "the Coq development no longer builds; failing: %s\n\n%s" % (failing, blog[-6000:]),
                      no_input=True)
        return False
    allok = True
    for pid in (pids_props or [chk.pid]):
        ob = obligations(pid)
        chk.add_obligations(ob)
        if not ob["ok"]:
            allok = False
            chk.violation("obligation_%s.txt" % pid,
                          "theorem %s of Props/%s.v no longer checks\n\n%s" % (ob["failing"], pid, ob["log"][-4000:]),
                          no_input=True)
        for t, a in ob["assumptions"].items():
            if not a.startswith("Closed under the global context"):
                chk.notes.append("%s depends on axioms: %s" % (t, a))
        if allok and chk.tier == "thorough":
            # independent re-check of the compiled property file and everything it depends on
            cmd = "coqchk -silent -o -Q theories TSS TSS.Props.%s" % pid
            t0 = time.time()
            rc, out, err = sh("timeout 2700 " + cmd, cwd=COQ, timeout=2800)
            txt = out + err
            m = re.search(r"\* Axioms:(.*?)\n\s*\n\* Constants", txt, re.S)
            axioms = re.sub(r"\s+", " ", m.group(1)).strip() if m else "?"
            chk.cov["coqchk"] = dict(cmd=cmd, exit=rc, seconds=round(time.time() - t0, 1), axioms=axioms)
            chk.cov["checker_cmd"] += " ; " + cmd
            chk.cov["trusted_base"].append("coqchk -o (independent checker) on TSS.Props.%s: axioms %s" % (pid, axioms))
            if rc != 0:
                allok = False
                chk.violation("coqchk_%s.txt" % pid, "coqchk rejects TSS.Props.%s\n\n%s" % (pid, txt[-4000:]), no_input=True)
    return allok


def canon_hash(obj):
    return hashlib.sha256(json.dumps(obj, sort_keys=True).encode()).hexdigest()
