(* Invariant of the sequential Box model (repaired variant) and the C15 theorems. *)
Require Import TSS.Base.Base TSS.Box.Model TSS.Box.Assoc.
From Coq Require Import Arith ZifyN ZifyNat ZifyBool.

Definition nsrc (src : N) (l : list bmsg) : nat := length (filter (fun m => N.eqb (m_src m) src) l).

Lemma nsrc_app src l1 l2 : nsrc src (l1 ++ l2) = (nsrc src l1 + nsrc src l2)%nat.
Proof. unfold nsrc. rewrite filter_app, app_length. reflexivity. Qed.

Definition tof (infl : list (N * list topic)) (src : N) : list topic :=
  match aget N.eqb infl src with Some l => l | None => [] end.

Lemma topics_of_tof b src : topics_of b src = tof (inflight b) src.
Proof. reflexivity. Qed.

Lemma tof_release infl t who src :
  tof (release infl t who) src = if existsb (N.eqb src) who then tdel t (tof infl src) else tof infl src.
Proof.
  unfold tof, release. induction infl as [|[s l] infl IH]; simpl.
  - destruct (existsb (N.eqb src) who); reflexivity.
  - destruct (existsb (N.eqb s) who) eqn:E; simpl; destruct (N.eqb s src) eqn:Es.
    + apply N.eqb_eq in Es. subst s. rewrite E. reflexivity.
    + exact IH.
    + apply N.eqb_eq in Es. subst s. rewrite E. reflexivity.
    + exact IH.
Qed.

Lemma tof_aset infl s l src : tof (aset N.eqb infl s l) src = if N.eqb s src then l else tof infl src.
Proof.
  unfold tof. destruct (N.eqb s src) eqn:E.
  - apply N.eqb_eq in E. subst. rewrite (aget_aset_same N.eqb neqb_spec). reflexivity.
  - rewrite (aget_aset_other N.eqb neqb_spec); [reflexivity|]. intros ->. rewrite N.eqb_refl in E. discriminate.
Qed.

Lemma count_senders st src : (1 <= count_of st src)%nat -> existsb (N.eqb src) (senders st) = true.
Proof.
  unfold count_of, senders. intros H. destruct (aget N.eqb (s_count st) src) as [n|] eqn:E; [|lia].
  apply (aget_in N.eqb neqb_spec) in E. apply existsb_exists. exists src. split; [|apply N.eqb_refl].
  apply in_map_iff. exists (src, n). auto.
Qed.

Record Inv (c : cfg) (b : box) : Prop := {
  I_count : forall t st src, aget teqb (pending b) t = Some st ->
      count_of st src = nsrc src (s_msgs st) /\ (count_of st src <= S (limit c))%nat;
  I_topics : forall src, NoDup (topics_of b src) /\ (length (topics_of b src) <= S (maxTopics c))%nat;
  I_live : forall src t, In t (topics_of b src) ->
      exists st, aget teqb (pending b) t = Some st /\ (1 <= count_of st src)%nat;
  I_disj : forall t st, aget teqb (pending b) t = Some st -> aget teqb (started b) t = None;
  I_topic : forall t st m, aget teqb (pending b) t = Some st -> In m (s_msgs st) -> m_topic m = t;
  I_time : lastGC b <= epoch b /\ forall t st, aget teqb (pending b) t = Some st -> s_last st <= epoch b }.

Lemma Inv_box0 c : Inv c box0.
Proof.
  constructor; simpl; try discriminate.
  - intros src. unfold topics_of. simpl. split; [constructor|lia].
  - intros src t []. 
  - split; [lia|discriminate].
Qed.

(* ---- storedMessages.add ---- *)
Lemma add_fixed c st m e st' o :
  fix_logger (var c) = true -> add c st m e = (st', o) ->
  ((Nat.ltb (limit c) (count_of st (m_src m)) = true /\ st' = st /\ o = [Dropped m]) \/
   (Nat.ltb (limit c) (count_of st (m_src m)) = false /\ o = [] /\
    s_msgs st' = s_msgs st ++ [m] /\
    (forall src, count_of st' src = if N.eqb (m_src m) src then S (count_of st src) else count_of st src) /\
    s_last st' = (if s_last st <? e then e else s_last st))).
Proof.
  intros Hf H. unfold add in H. destruct (Nat.ltb (limit c) (count_of st (m_src m))) eqn:E.
  - rewrite Hf in H. inversion H; subst. auto.
  - inversion H; subst. right. split; [reflexivity|]. split; [reflexivity|]. simpl.
    split; [reflexivity|]. split; [|reflexivity].
    intros src. unfold count_of at 1. cbn [s_count]. destruct (N.eqb (m_src m) src) eqn:Es.
    + apply N.eqb_eq in Es. subst src. rewrite (aget_aset_same N.eqb neqb_spec). reflexivity.
    + rewrite (aget_aset_other N.eqb neqb_spec); [reflexivity|]. intros ->. rewrite N.eqb_refl in Es. discriminate.
Qed.

Lemma nsrc_snoc src l m : nsrc src (l ++ [m]) = if N.eqb (m_src m) src then S (nsrc src l) else nsrc src l.
Proof. rewrite nsrc_app. unfold nsrc at 2. simpl. destruct (N.eqb (m_src m) src); simpl; lia. Qed.

Section Fixed.
Variable c : cfg.
Hypothesis Hvar : var c = v_fixed.

Lemma recv_inv b m b' o : Inv c b -> recv c b m = (b', o) -> Inv c b'.
Proof.
  intros HI H. unfold recv in H.
  destruct (aget teqb (started b) (m_topic m)) as [e|] eqn:Est; [inversion H; subst; exact HI|].
  destruct (Nat.ltb (maxTopics c) (length (topics_of b (m_src m)))) eqn:Emax; [inversion H; subst; exact HI|].
  apply Nat.ltb_ge in Emax.
  set (t := m_topic m) in *. set (src := m_src m) in *.
  set (st := match aget teqb (pending b) t with Some st => st | None => mkStored [] [] (if fix_units (var c) then epoch b else 0) end) in *.
  destruct (add c st m (epoch b)) as [st' o'] eqn:Eadd.
  inversion H; subst b' o; clear H.
  assert (Hfl : fix_logger (var c) = true) by (rewrite Hvar; reflexivity).
  pose proof (add_fixed c st m (epoch b) st' o' Hfl Eadd) as Hadd.
  destruct HI as [Ic It Il Id Ito Iti].
  (* facts about st *)
  assert (Hst : (forall s, count_of st s = nsrc s (s_msgs st) /\ (count_of st s <= S (limit c))%nat) /\
                (forall x, In x (s_msgs st) -> m_topic x = t) /\ s_last st <= epoch b).
  { unfold st. destruct (aget teqb (pending b) t) as [s0|] eqn:Ep.
    - split; [intros s; eapply Ic; eauto|]. split; [intros x; eapply Ito; eauto|]. eapply Iti; eauto.
    - split; [intros s; unfold count_of, nsrc; simpl; lia|]. split; [intros x []|].
      simpl. rewrite Hvar. simpl. lia. }
  destruct Hst as (Hc & Htp & Hlast).
  assert (Hst' : (forall s, count_of st' s = nsrc s (s_msgs st') /\ (count_of st' s <= S (limit c))%nat) /\
                 (forall x, In x (s_msgs st') -> m_topic x = t) /\ s_last st' <= epoch b /\
                 (forall s, (count_of st s <= count_of st' s)%nat) /\ (1 <= count_of st' src)%nat).
  { destruct Hadd as [(Hlt & -> & _)|(Hlt & _ & Hm & Hcnt & Hl)].
    - split; [exact Hc|]. split; [exact Htp|]. split; [exact Hlast|]. split; [intros; lia|].
      apply Nat.ltb_lt in Hlt. fold src in Hlt. lia.
    - apply Nat.ltb_ge in Hlt. fold src in Hlt, Hcnt.
      split. { intros s. rewrite Hcnt, Hm, nsrc_snoc. fold src. destruct (Hc s) as [A B].
               destruct (N.eqb src s) eqn:Es; [apply N.eqb_eq in Es; subst s; lia|lia]. }
      split. { intros x Hx. rewrite Hm in Hx. apply in_app_iff in Hx. destruct Hx as [Hx|[<-|[]]]; auto. }
      split. { rewrite Hl. destruct (s_last st <? epoch b); lia. }
      split. { intros s. rewrite Hcnt. destruct (N.eqb src s); lia. }
      rewrite Hcnt, N.eqb_refl. lia. }
  destruct Hst' as (Hc' & Htp' & Hlast' & Hmono & Hone).
  constructor; cbn [pending started inflight epoch lastGC].
  - intros t0 st0 s Hg. destruct (bytes_dec t0 t) as [->|Hne].
    + rewrite (aget_aset_same teqb teqb_spec) in Hg. inversion Hg; subst. apply Hc'.
    + rewrite (aget_aset_other teqb teqb_spec) in Hg by exact Hne. eapply Ic; eauto.
  - intros s. rewrite topics_of_tof. cbn [inflight]. rewrite tof_aset. destruct (N.eqb src s) eqn:Es.
    + split; [apply tadd_nodup; apply It|]. pose proof (tadd_length t (topics_of b src)). lia.
    + apply It.
  - intros s t0 Hin. rewrite topics_of_tof in Hin. cbn [inflight] in Hin. rewrite tof_aset in Hin.
    destruct (N.eqb src s) eqn:Es.
    + apply N.eqb_eq in Es. subst s. apply tadd_in in Hin. destruct Hin as [->|Hin].
      * exists st'. split; [apply (aget_aset_same teqb teqb_spec)|exact Hone].
      * destruct (bytes_dec t0 t) as [->|Hne].
        -- exists st'. split; [apply (aget_aset_same teqb teqb_spec)|exact Hone].
        -- rewrite (aget_aset_other teqb teqb_spec) by exact Hne. apply Il. exact Hin.
    + destruct (Il s t0 Hin) as (s0 & Hg & H1). destruct (bytes_dec t0 t) as [->|Hne].
      * exists st'. split; [apply (aget_aset_same teqb teqb_spec)|].
        unfold st in Hmono. rewrite Hg in Hmono. specialize (Hmono s). lia.
      * exists s0. rewrite (aget_aset_other teqb teqb_spec) by exact Hne. auto.
  - intros t0 st0 Hg. destruct (bytes_dec t0 t) as [->|Hne]; [exact Est|].
    rewrite (aget_aset_other teqb teqb_spec) in Hg by exact Hne. eapply Id; eauto.
  - intros t0 st0 x Hg Hx. destruct (bytes_dec t0 t) as [->|Hne].
    + rewrite (aget_aset_same teqb teqb_spec) in Hg. inversion Hg; subst. auto.
    + rewrite (aget_aset_other teqb teqb_spec) in Hg by exact Hne. eapply Ito; eauto.
  - split; [apply Iti|]. intros t0 st0 Hg. destruct (bytes_dec t0 t) as [->|Hne].
    + rewrite (aget_aset_same teqb teqb_spec) in Hg. inversion Hg; subst. exact Hlast'.
    + rewrite (aget_aset_other teqb teqb_spec) in Hg by exact Hne. eapply Iti; eauto.
Qed.

(* removing a pending topic (Send, or sweep of an expired topic), releasing it from its senders *)
Lemma drop_topic_inv b t st' :
  Inv c b ->
  (forall t', t' <> t -> aget teqb st' t' = aget teqb (started b) t' \/ aget teqb st' t' = None) ->
  Inv c (mkBox (adel teqb (pending b) t) st'
               (match aget teqb (pending b) t with
                | Some st => release (inflight b) t (senders st)
                | None => inflight b end) (epoch b) (lastGC b)).
Proof.
  intros [Ic It Il Id Ito Iti] Hst.
  assert (Hsub : forall s t0, In t0 (tof (match aget teqb (pending b) t with
                | Some st => release (inflight b) t (senders st)
                | None => inflight b end) s) -> In t0 (topics_of b s) /\ t0 <> t).
  { intros s t0 Hin. destruct (aget teqb (pending b) t) as [st|] eqn:Ep.
    - rewrite tof_release in Hin. destruct (existsb (N.eqb s) (senders st)) eqn:Ex.
      + apply tdel_in in Hin. exact Hin.
      + split; [exact Hin|]. intros ->. destruct (Il s t Hin) as (s0 & Hg & H1).
        rewrite Ep in Hg. inversion Hg; subst s0. apply count_senders in H1. congruence.
    - split; [exact Hin|]. intros ->. destruct (Il s t Hin) as (s0 & Hg & _). congruence. }
  constructor; cbn [pending started inflight epoch lastGC].
  - intros t0 st0 s Hg. destruct (bytes_dec t0 t) as [->|Hne].
    + rewrite (aget_adel_same teqb) in Hg. discriminate.
    + rewrite (aget_adel_other teqb teqb_spec) in Hg by exact Hne. eapply Ic; eauto.
  - intros s. rewrite topics_of_tof. cbn [inflight].
    destruct (aget teqb (pending b) t) as [st|] eqn:Ep; [|apply It].
    rewrite tof_release. destruct (existsb (N.eqb s) (senders st)); [|apply It].
    destruct (It s) as [A B]. split; [apply tdel_nodup; exact A|].
    pose proof (tdel_length t (tof (inflight b) s)). rewrite topics_of_tof in B. lia.
  - intros s t0 Hin. rewrite topics_of_tof in Hin. cbn [inflight] in Hin.
    destruct (Hsub s t0 Hin) as [Hin0 Hne]. destruct (Il s t0 Hin0) as (s0 & Hg & H1).
    exists s0. rewrite (aget_adel_other teqb teqb_spec) by exact Hne. auto.
  - intros t0 st0 Hg. destruct (bytes_dec t0 t) as [->|Hne].
    + rewrite (aget_adel_same teqb) in Hg. discriminate.
    + rewrite (aget_adel_other teqb teqb_spec) in Hg by exact Hne.
      destruct (Hst t0 Hne) as [E|E]; rewrite E; [eapply Id; eauto|reflexivity].
  - intros t0 st0 x Hg Hx. destruct (bytes_dec t0 t) as [->|Hne].
    + rewrite (aget_adel_same teqb) in Hg. discriminate.
    + rewrite (aget_adel_other teqb teqb_spec) in Hg by exact Hne. eapply Ito; eauto.
  - split; [apply Iti|]. intros t0 st0 Hg. destruct (bytes_dec t0 t) as [->|Hne].
    + rewrite (aget_adel_same teqb) in Hg. discriminate.
    + rewrite (aget_adel_other teqb teqb_spec) in Hg by exact Hne. eapply Iti; eauto.
Qed.

Lemma sweep1_inv b o t b' o' : Inv c b -> sweep1 (b, o) t = (b', o') -> Inv c b'.
Proof.
  intros HI H. unfold sweep1 in H. destruct (aget teqb (pending b) t) as [st|] eqn:Ep.
  - inversion H; subst b' o'; clear H.
    pose proof (drop_topic_inv b t (adel teqb (started b) t) HI) as D. rewrite Ep in D. apply D.
    intros t' Hne. left. apply (aget_adel_other teqb teqb_spec). exact Hne.
  - inversion H; subst b' o'; clear H. destruct HI as [Ic It Il Id Ito Iti].
    constructor; cbn [pending started inflight epoch lastGC]; auto.
    intros t0 st0 Hg. destruct (bytes_dec t0 t) as [->|Hne]; [congruence|].
    rewrite (aget_adel_other teqb teqb_spec) by exact Hne. eapply Id; eauto.
Qed.

Lemma sweep_fold_inv del : forall b o b' o', Inv c b -> fold_left sweep1 del (b, o) = (b', o') -> Inv c b'.
Proof.
  induction del as [|t del IH]; cbn [fold_left]; intros b o b' o' HI H; [inversion H; subst; exact HI|].
  destruct (sweep1 (b, o) t) as [b1 o1] eqn:E. eapply IH; [|exact H]. eapply sweep1_inv; eauto.
Qed.

Lemma sweep1_epoch b o t : epoch (fst (sweep1 (b, o) t)) = epoch b /\ lastGC (fst (sweep1 (b, o) t)) = lastGC b.
Proof. unfold sweep1. destruct (aget teqb (pending b) t); simpl; auto. Qed.

Lemma sweep_fold_epoch del : forall b o, epoch (fst (fold_left sweep1 del (b, o))) = epoch b.
Proof.
  induction del as [|t del IH]; cbn [fold_left]; intros b o; [reflexivity|].
  destruct (sweep1 (b, o) t) as [b1 o1] eqn:E. rewrite IH.
  pose proof (sweep1_epoch b o t) as [A _]. rewrite E in A. exact A.
Qed.

Lemma gc_inv b b' o : Inv c b -> gc c b = (b', o) -> Inv c b'.
Proof.
  intros HI H. unfold gc in H. destruct (gc_gate c b); [|inversion H; subst; exact HI].
  destruct (fold_left sweep1 (expired_pending c b ++ expired_started c b) (b, [])) as [b1 o1] eqn:E.
  inversion H; subst b' o; clear H.
  pose proof (sweep_fold_inv _ _ _ _ _ HI E) as [Ic It Il Id Ito Iti].
  pose proof (sweep_fold_epoch (expired_pending c b ++ expired_started c b) b []) as He. rewrite E in He. simpl in He.
  constructor; cbn [pending started inflight epoch lastGC]; auto.
  split; [lia|]. apply Iti.
Qed.

Lemma send_inv b t b' o : Inv c b -> send c b t = (b', o) -> Inv c b'.
Proof.
  intros HI H. unfold send in H.
  assert (Hfr : fix_release (var c) = true) by (rewrite Hvar; reflexivity). rewrite Hfr in H.
  match type of H with (let '(b2, o) := gc c ?B1 in _) = _ => set (b1 := B1) in * end.
  destruct (gc c b1) as [b2 o2] eqn:Eg. inversion H; subst b' o; clear H.
  eapply gc_inv; [|exact Eg]. unfold b1.
  pose proof (drop_topic_inv b t (aset teqb (started b) t (epoch b)) HI) as D.
  destruct (aget teqb (pending b) t) as [st|] eqn:Ep; apply D;
    intros t' Hne; left; apply (aget_aset_other teqb teqb_spec); exact Hne.
Qed.

Lemma step_inv b op b' o : Inv c b -> step c b op = (b', o) -> Inv c b'.
Proof.
  intros HI H. destruct op as [m| |t|]; simpl in H.
  - eapply recv_inv; eauto.
  - inversion H; subst; exact HI.
  - eapply send_inv; eauto.
  - inversion H; subst b' o. destruct HI as [Ic It Il Id Ito Iti].
    constructor; cbn [pending started inflight epoch lastGC]; auto.
    split; [lia|]. intros t st Hg. pose proof (proj2 Iti t st Hg). lia.
Qed.

Lemma run_inv ops : forall b b' o, Inv c b -> run c b ops = (b', o) -> Inv c b'.
Proof.
  induction ops as [|op ops IH]; simpl; intros b b' o HI H; [inversion H; subst; exact HI|].
  destruct (step c b op) as [b1 o1] eqn:E1. destruct (run c b1 ops) as [b2 o2] eqn:E2.
  inversion H; subst. eapply IH; [|exact E2]. eapply step_inv; eauto.
Qed.
End Fixed.
