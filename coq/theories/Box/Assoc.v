Require Import TSS.Base.Base TSS.Box.Model.
From Coq Require Import Arith.

Section AssocFacts.
Context {K V : Type} (eqb : K -> K -> bool).
Hypothesis eqb_spec : forall a b, eqb a b = true <-> a = b.

Lemma eqb_refl a : eqb a a = true.
Proof. apply eqb_spec. reflexivity. Qed.
Lemma eqb_neq a b : a <> b -> eqb a b = false.
Proof. intros H. destruct (eqb a b) eqn:E; [apply eqb_spec in E; contradiction|reflexivity]. Qed.
Lemma eqb_false a b : eqb a b = false -> a <> b.
Proof. intros E H. subst. rewrite eqb_refl in E. discriminate. Qed.

Lemma aget_adel_same (l : list (K * V)) k : aget eqb (adel eqb l k) k = None.
Proof.
  induction l as [|[k' v] l IH]; simpl; [reflexivity|].
  destruct (eqb k' k) eqn:E; [exact IH|]. simpl. rewrite E. exact IH.
Qed.

Lemma aget_adel_other (l : list (K * V)) k k' : k' <> k -> aget eqb (adel eqb l k) k' = aget eqb l k'.
Proof.
  intros Hne. induction l as [|[k0 v] l IH]; simpl; [reflexivity|].
  destruct (eqb k0 k) eqn:E.
  - apply eqb_spec in E. subst k0. rewrite (eqb_neq k k') by congruence. exact IH.
  - simpl. destruct (eqb k0 k'); [reflexivity|exact IH].
Qed.

Lemma aget_aset_same (l : list (K * V)) k v : aget eqb (aset eqb l k v) k = Some v.
Proof. unfold aset. simpl. rewrite eqb_refl. reflexivity. Qed.

Lemma aget_aset_other (l : list (K * V)) k k' v : k' <> k -> aget eqb (aset eqb l k v) k' = aget eqb l k'.
Proof.
  intros Hne. unfold aset. simpl. rewrite (eqb_neq k k') by congruence. apply aget_adel_other. exact Hne.
Qed.

Lemma aget_in (l : list (K * V)) k v : aget eqb l k = Some v -> In (k, v) l.
Proof.
  induction l as [|[k0 v0] l IH]; simpl; [discriminate|].
  destruct (eqb k0 k) eqn:E.
  - intros H; inversion H; subst. apply eqb_spec in E. subst. left; reflexivity.
  - intros H. right. apply IH. exact H.
Qed.

Lemma in_adel (l : list (K * V)) k k' v : In (k', v) (adel eqb l k) -> In (k', v) l /\ k' <> k.
Proof.
  induction l as [|[k0 v0] l IH]; simpl; [contradiction|].
  destruct (eqb k0 k) eqn:E.
  - intros H. destruct (IH H). auto.
  - intros [H|H].
    + inversion H; subst. split; [left; reflexivity|]. apply eqb_false. exact E.
    + destruct (IH H). auto.
Qed.
End AssocFacts.

Lemma teqb_spec a b : teqb a b = true <-> a = b.
Proof. apply bytes_eqb_spec. Qed.
Lemma neqb_spec a b : N.eqb a b = true <-> a = b.
Proof. apply N.eqb_eq. Qed.

Lemma tmem_spec t l : tmem t l = true <-> In t l.
Proof.
  unfold tmem. rewrite existsb_exists. split.
  - intros (x & Hx & E). apply teqb_spec in E. subst. exact Hx.
  - intros H. exists t. split; [exact H|apply teqb_spec; reflexivity].
Qed.

Lemma tadd_in t l x : In x (tadd t l) <-> x = t \/ In x l.
Proof.
  unfold tadd. destruct (tmem t l) eqn:E; simpl; [|intuition].
  apply tmem_spec in E. intuition (subst; auto).
Qed.

Lemma tadd_nodup t l : NoDup l -> NoDup (tadd t l).
Proof.
  intros H. unfold tadd. destruct (tmem t l) eqn:E; [exact H|].
  constructor; [|exact H]. intros Hin. apply tmem_spec in Hin. congruence.
Qed.

Lemma tadd_length t l : (length (tadd t l) <= S (length l))%nat.
Proof. unfold tadd. destruct (tmem t l); simpl; lia. Qed.

Lemma tdel_in t l x : In x (tdel t l) <-> In x l /\ x <> t.
Proof.
  unfold tdel. rewrite filter_In. split; intros [H1 H2]; split; auto.
  - intros ->. rewrite (proj2 (teqb_spec t t) eq_refl) in H2. discriminate.
  - destruct (teqb t x) eqn:E; [apply teqb_spec in E; congruence|reflexivity].
Qed.

Lemma tdel_nodup t l : NoDup l -> NoDup (tdel t l).
Proof. intros H. unfold tdel. apply NoDup_filter. exact H. Qed.

Lemma tdel_length t l : (length (tdel t l) <= length l)%nat.
Proof. unfold tdel. induction l as [|x l IH]; simpl; [lia|]. destruct (negb (teqb t x)); simpl; lia. Qed.
