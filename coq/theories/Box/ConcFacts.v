(* C14 on the lock-granular model: what holds for every schedule (no message is ever handed over twice),
   and the three ways in which the full property fails (witness schedules, by computation). *)
Require Import TSS.Base.Base TSS.Box.Model TSS.Box.Assoc TSS.Box.Conc.
From Coq Require Import Arith Permutation.

Definition pc_msgs (p : pc) : list bmsg :=
  match p with
  | RCheck m | RCount m | RMark m | RLookup m | RCreate m | RAdd m _ => [m]
  | SForward _ l | SDrain _ l => l
  | SBegin _ | Fin => []
  end.

Definition pend_msgs (b : cbox) : list bmsg := flat_map (fun e : topic * nat => c_msgs (getobj b (snd e))) (cpend b).

Definition all_msgs (st : cbox * list pc * list cout) : list bmsg :=
  let '(b, ths, log) := st in flat_map pc_msgs ths ++ pend_msgs b ++ handoffs_of log.

(* l' is obtained from l by dropping some elements and permuting *)
Definition subperm {A} (l' l : list A) : Prop := exists extra, Permutation l (extra ++ l').

Lemma nodup_app_r {A} (a b : list A) : NoDup (a ++ b) -> NoDup b.
Proof. induction a as [|x a IH]; simpl; intros H; [exact H|]. inversion H; subst. apply IH. assumption. Qed.

Lemma subperm_nodup {A} (l' l : list A) : subperm l' l -> NoDup l -> NoDup l'.
Proof.
  intros [extra Hp] Hn. apply (Permutation_NoDup Hp) in Hn. apply nodup_app_r in Hn. exact Hn.
Qed.

Lemma subperm_refl {A} (l : list A) : subperm l l.
Proof. exists []. reflexivity. Qed.

Lemma subperm_perm {A} (l' l : list A) : Permutation l l' -> subperm l' l.
Proof. intros H. exists []. exact H. Qed.

Lemma subperm_drop {A} (a l : list A) : subperm l (a ++ l).
Proof. exists a. reflexivity. Qed.

Lemma subperm_app {A} (a a' b b' : list A) : subperm a' a -> subperm b' b -> subperm (a' ++ b') (a ++ b).
Proof.
  intros [x Hx] [y Hy]. exists (x ++ y). rewrite Hx, Hy.
  rewrite <- !app_assoc. apply Permutation_app_head. rewrite !app_assoc. apply Permutation_app_tail. apply Permutation_app_comm.
Qed.

Lemma subperm_trans {A} (a b c : list A) : subperm a b -> subperm b c -> subperm a c.
Proof.
  intros [x Hx] [y Hy]. exists (y ++ x). rewrite Hy, Hx. rewrite app_assoc. reflexivity.
Qed.

(* ---- threads ---- *)
Lemma flat_map_set_nth {A B} (f : A -> list B) (l : list A) i p p' :
  nth_error l i = Some p ->
  exists rest, Permutation (flat_map f l) (f p ++ rest) /\ Permutation (flat_map f (set_nth l i p')) (f p' ++ rest).
Proof.
  revert i. induction l as [|a l IH]; intros [|i] H; simpl in *; try discriminate.
  - inversion H; subst. exists (flat_map f l). split; reflexivity.
  - destruct (IH i H) as (rest & H1 & H2). exists (f a ++ rest). split.
    + rewrite H1. rewrite !app_assoc. apply Permutation_app_tail. apply Permutation_app_comm.
    + rewrite H2. rewrite !app_assoc. apply Permutation_app_tail. apply Permutation_app_comm.
Qed.

(* ---- heap and pending table ---- *)
Record wf (b : cbox) : Prop := {
  wf_keys : NoDup (map fst (cpend b));
  wf_objs : NoDup (map snd (cpend b));
  wf_bound : forall t o, In (t, o) (cpend b) -> (o < length (objs b))%nat }.

Lemma wf0 : wf cbox0.
Proof. constructor; simpl; try constructor. intros t o []. Qed.

Lemma getobj_setobj_same l o s : (o < length l)%nat -> nth o (setobj l o s) (mkCS [] []) = s.
Proof. revert o. induction l as [|x l IH]; intros [|o] H; simpl in *; try lia; [reflexivity|]. apply IH. lia. Qed.

Lemma getobj_setobj_other l o o' s : o' <> o -> nth o' (setobj l o s) (mkCS [] []) = nth o' l (mkCS [] []).
Proof.
  revert o o'. induction l as [|x l IH]; intros [|o] [|o'] H; simpl; try reflexivity; try congruence.
  apply IH. congruence.
Qed.

Lemma setobj_length l o s : length (setobj l o s) = length l.
Proof. revert o. induction l as [|x l IH]; intros [|o]; simpl; auto. Qed.

Lemma adel_absent (l : list (topic * nat)) t : aget teqb l t = None -> adel teqb l t = l.
Proof.
  induction l as [|[k v] l IH]; simpl; [reflexivity|]. destruct (teqb k t); [discriminate|]. intros H. rewrite IH; auto.
Qed.

Lemma aget_none_notin (l : list (topic * nat)) t : aget teqb l t = None -> ~ In t (map fst l).
Proof.
  induction l as [|[k v] l IH]; simpl; [tauto|]. destruct (teqb k t) eqn:E; [discriminate|].
  intros H [Hk|Hin]; [subst; rewrite (proj2 (teqb_spec t t) eq_refl) in E; discriminate|exact (IH H Hin)].
Qed.

(* removing the entry of topic t splits the buffered messages *)
Lemma pend_split (objsl : list cstored) (l : list (topic * nat)) t o :
  NoDup (map fst l) -> aget teqb l t = Some o ->
  Permutation (flat_map (fun e : topic * nat => c_msgs (nth (snd e) objsl (mkCS [] []))) l)
              (c_msgs (nth o objsl (mkCS [] [])) ++
               flat_map (fun e : topic * nat => c_msgs (nth (snd e) objsl (mkCS [] []))) (adel teqb l t)) /\
  In (t, o) l.
Proof.
  induction l as [|[k v] l IH]; simpl; intros Hnd Hg; [discriminate|].
  inversion Hnd; subst. destruct (teqb k t) eqn:E.
  - inversion Hg; subst. apply teqb_spec in E. subst k. split; [|left; reflexivity].
    rewrite adel_absent; [reflexivity|].
    destruct (aget teqb l t) eqn:E'; [|reflexivity]. exfalso. apply H1.
    apply (aget_in teqb teqb_spec) in E'. apply in_map_iff. exists (t, n). auto.
  - destruct (IH H2 Hg) as [Hp Hin]. split; [|right; exact Hin]. simpl. rewrite Hp.
    rewrite !app_assoc. apply Permutation_app_tail. apply Permutation_app_comm.
Qed.

Lemma in_adel_sub (l : list (topic * nat)) t e : In e (adel teqb l t) -> In e l.
Proof.
  induction l as [|[k v] l IH]; simpl; [tauto|]. destruct (teqb k t); simpl; [auto|]. intros [H|H]; auto.
Qed.

Lemma nodup_adel_fst (l : list (topic * nat)) t : NoDup (map fst l) -> NoDup (map fst (adel teqb l t)).
Proof.
  induction l as [|[k v] l IH]; simpl; intros H; [constructor|]. inversion H; subst.
  destruct (teqb k t); [apply IH; assumption|]. simpl. constructor; [|apply IH; assumption].
  intros Hin. apply H2. apply in_map_iff in Hin. destruct Hin as (e & <- & He). apply in_map. eapply in_adel_sub; eauto.
Qed.

Lemma nodup_adel_snd (l : list (topic * nat)) t : NoDup (map snd l) -> NoDup (map snd (adel teqb l t)).
Proof.
  induction l as [|[k v] l IH]; simpl; intros H; [constructor|]. inversion H; subst.
  destruct (teqb k t); [apply IH; assumption|]. simpl. constructor; [|apply IH; assumption].
  intros Hin. apply H2. apply in_map_iff in Hin. destruct Hin as (e & <- & He). apply in_map. eapply in_adel_sub; eauto.
Qed.

Lemma nth_app_old (l : list cstored) e o : (o < length l)%nat -> nth o (l ++ [e]) (mkCS [] []) = nth o l (mkCS [] []).
Proof. intros H. apply app_nth1. exact H. Qed.

Lemma flat_map_ext_in' {A B} (f g : A -> list B) l : (forall a, In a l -> f a = g a) -> flat_map f l = flat_map g l.
Proof.
  induction l as [|a l IH]; simpl; intros H; [reflexivity|]. rewrite (H a (or_introl eq_refl)), IH; [reflexivity|].
  intros x Hx. apply H. right; exact Hx.
Qed.

(* storing into object o changes the buffered messages only through the (unique) topic that still refers to o *)
Lemma setobj_pend (objsl : list cstored) (l : list (topic * nat)) o s m :
  NoDup (map snd l) -> (forall e, In e l -> (snd e < length objsl)%nat) ->
  c_msgs s = c_msgs (nth o objsl (mkCS [] [])) ++ [m] ->
  let F := fun ol => flat_map (fun e : topic * nat => c_msgs (nth (snd e) ol (mkCS [] []))) l in
  (In o (map snd l) -> Permutation (F (setobj objsl o s)) (m :: F objsl)) /\
  (~ In o (map snd l) -> F (setobj objsl o s) = F objsl).
Proof.
  intros Hnd Hb Hs. simpl. induction l as [|[t v] l IH]; simpl.
  - split; [tauto|reflexivity].
  - inversion Hnd; subst. assert (Hb' : forall e, In e l -> (snd e < length objsl)%nat) by (intros e He; apply Hb; right; exact He).
    destruct (IH H2 Hb') as [IH1 IH2]. split.
    + intros [Hv|Hin].
      * subst v. rewrite getobj_setobj_same by (apply (Hb (t, o)); left; reflexivity).
        rewrite Hs, (IH2 H1). rewrite <- app_assoc. simpl. apply Permutation_sym, Permutation_middle.
      * assert (v <> o) by (intros ->; contradiction). rewrite getobj_setobj_other by exact H.
        rewrite (IH1 Hin). apply Permutation_sym, Permutation_middle.
    + intros Hn. assert (v <> o) by (intros ->; apply Hn; left; reflexivity).
      rewrite getobj_setobj_other by exact H. rewrite IH2; [reflexivity|]. intros Hin. apply Hn. right; exact Hin.
Qed.

Lemma perm5 {A} (a b c d e : list A) : Permutation ((a ++ c ++ e) ++ b ++ d) ((a ++ b) ++ c ++ d ++ e).
Proof.
  rewrite <- !app_assoc. apply Permutation_app_head. symmetry.
  rewrite (Permutation_app_comm b (c ++ d ++ e)). rewrite <- !app_assoc. apply Permutation_app_head.
  rewrite (Permutation_app_comm d (e ++ b)). rewrite <- !app_assoc. reflexivity.
Qed.
Lemma perm4 {A} (a b c d : list A) : Permutation ((a ++ c) ++ b ++ d) ((a ++ b) ++ c ++ d).
Proof. rewrite <- !app_assoc. apply Permutation_app_head. apply Permutation_app_swap_app. Qed.

Section Inv.
Variable limit maxTopics : nat.

Lemma tstep_inv b p b' p' o :
  wf b -> tstep limit maxTopics b p = (b', p', o) ->
  wf b' /\ subperm (pc_msgs p' ++ pend_msgs b' ++ handoffs_of o) (pc_msgs p ++ pend_msgs b).
Proof.
  intros W H. destruct p as [m|m|m|m|m|m ob|t|t l|t l|]; simpl in H.
  - (* RCheck *) destruct (tmem (m_topic m) (cstart b)); inversion H; subst; split; auto; simpl; repeat rewrite app_nil_r.
    + apply subperm_perm. apply Permutation_cons_append.
    + apply subperm_refl.
  - (* RCount *) destruct (Nat.ltb maxTopics (length (ctopics b (m_src m)))); inversion H; subst; split; auto; simpl; repeat rewrite app_nil_r.
    + apply (subperm_drop [m]).
    + apply subperm_refl.
  - (* RMark *) inversion H; subst. split; [destruct W; constructor; auto|]. simpl. unfold pend_msgs. simpl. repeat rewrite app_nil_r. apply subperm_refl.
  - (* RLookup *) destruct (aget teqb (cpend b) (m_topic m)); inversion H; subst; split; auto; simpl; repeat rewrite app_nil_r; apply subperm_refl.
  - (* RCreate *)
    destruct (aget teqb (cpend b) (m_topic m)) eqn:E; inversion H; subst; [split; auto; simpl; repeat rewrite app_nil_r; apply subperm_refl|].
    destruct W as [W1 W2 W3]. unfold aset. rewrite (adel_absent _ _ E). split.
    + constructor; simpl.
      * constructor; [apply aget_none_notin; exact E|exact W1].
      * constructor; [|exact W2]. intros Hin. apply in_map_iff in Hin. destruct Hin as ([t o'] & Ho & Hin). simpl in Ho. subst o'.
        pose proof (W3 _ _ Hin). lia.
      * intros t o' [Heq|Hin]; rewrite app_length; simpl; [inversion Heq; lia|pose proof (W3 _ _ Hin); lia].
    + simpl. unfold pend_msgs. simpl. unfold getobj. simpl. rewrite nth_middle. simpl. repeat rewrite app_nil_r.
      rewrite (flat_map_ext_in' _ (fun e : topic * nat => c_msgs (nth (snd e) (objs b) (mkCS [] [])))); [apply subperm_refl|].
      intros [t o'] Hin. simpl. rewrite nth_app_old; [reflexivity|apply (W3 _ _ Hin)].
  - (* RAdd *)
    set (st := getobj b ob) in *.
    destruct (Nat.ltb limit (ccount st (m_src m))); inversion H; subst; [split; auto; simpl; repeat rewrite app_nil_r; apply (subperm_drop [m])|].
    destruct W as [W1 W2 W3]. split.
    + constructor; simpl; auto. intros t o' Hin. rewrite setobj_length. apply (W3 _ _ Hin).
    + simpl. repeat rewrite app_nil_r. unfold pend_msgs. simpl. unfold getobj. simpl.
      destruct (setobj_pend (objs b) (cpend b) ob (mkCS (c_msgs st ++ [m]) (aset N.eqb (c_count st) (m_src m) (S (ccount st (m_src m))))) m W2)
        as [S1 S2].
      { intros [t o'] Hin. apply (W3 _ _ Hin). }
      { reflexivity. }
      destruct (in_dec Nat.eq_dec ob (map snd (cpend b))) as [Hin|Hn].
      * apply subperm_perm. symmetry. apply S1. exact Hin.
      * simpl in S2. rewrite (S2 Hn). apply (subperm_drop [m]).
  - (* SBegin *)
    inversion H; subst; clear H. destruct W as [W1 W2 W3].
    split.
    + constructor; simpl.
      * apply nodup_adel_fst; exact W1.
      * apply nodup_adel_snd; exact W2.
      * intros t0 o0 Hin. apply (W3 t0 o0). eapply in_adel_sub; eauto.
    + simpl. repeat rewrite app_nil_r. unfold pend_msgs. simpl. unfold getobj. simpl.
      destruct (aget teqb (cpend b) t) as [ob|] eqn:E.
      * destruct (pend_split (objs b) (cpend b) t ob W1 E) as [Hp _]. apply subperm_perm. exact Hp.
      * rewrite (adel_absent _ _ E). simpl. apply subperm_refl.
  - (* SForward *) inversion H; subst. split; auto. simpl. repeat rewrite app_nil_r. destruct l; simpl; apply subperm_refl.
  - (* SDrain *)
    destruct l as [|m rest]; inversion H; subst; split; auto; simpl.
    + repeat rewrite app_nil_r. apply subperm_refl.
    + apply subperm_perm. replace (pc_msgs match rest with [] => Fin | _ :: _ => SDrain t rest end) with rest by (destruct rest; reflexivity).
      simpl. rewrite app_assoc. apply Permutation_cons_append.
  - inversion H; subst. split; auto. simpl. repeat rewrite app_nil_r. apply subperm_refl.
Qed.

Lemma handoffs_of_app a b : handoffs_of (a ++ b) = handoffs_of a ++ handoffs_of b.
Proof. unfold handoffs_of. apply flat_map_app. Qed.

Lemma cstep_inv st i :
  wf (fst (fst st)) -> wf (fst (fst (cstep limit maxTopics st i))) /\ subperm (all_msgs (cstep limit maxTopics st i)) (all_msgs st).
Proof.
  destruct st as [[b ths] log]. simpl. intros W. destruct (nth_error ths i) as [p|] eqn:E; [|split; [exact W|apply subperm_refl]].
  destruct (tstep limit maxTopics b p) as [[b' p'] o] eqn:Et. simpl.
  destruct (tstep_inv b p b' p' o W Et) as [W' Hs]. split; [exact W'|].
  destruct (flat_map_set_nth pc_msgs ths i p p' E) as (rest & H1 & H2).
  rewrite handoffs_of_app.
  apply subperm_trans with (b := (pc_msgs p ++ pend_msgs b) ++ rest ++ handoffs_of log).
  - apply subperm_trans with (b := (pc_msgs p' ++ pend_msgs b' ++ handoffs_of o) ++ rest ++ handoffs_of log).
    + apply subperm_perm. rewrite H2. apply perm5.
    + apply subperm_app; [exact Hs|apply subperm_refl].
  - apply subperm_perm. rewrite H1. apply perm4.
Qed.

Lemma crun_inv sched : forall st, wf (fst (fst st)) ->
  wf (fst (fst (fold_left (cstep limit maxTopics) sched st))) /\
  subperm (all_msgs (fold_left (cstep limit maxTopics) sched st)) (all_msgs st).
Proof.
  induction sched as [|i sched IH]; intros st W; simpl; [split; [exact W|apply subperm_refl]|].
  destruct (cstep_inv st i W) as [W1 S1]. destruct (IH _ W1) as [W2 S2]. split; [exact W2|].
  eapply subperm_trans; eauto.
Qed.

(* C14, the half that holds: whatever the threads and the schedule, no message is handed over twice
   (the messages of the receive calls being pairwise different, and Send calls carrying none) *)
Theorem at_most_once ths sched :
  NoDup (flat_map pc_msgs ths) ->
  NoDup (handoffs_of (snd (crun limit maxTopics ths sched))).
Proof.
  intros Hnd. unfold crun. destruct (crun_inv sched (cbox0, ths, []) wf0) as [_ Hs].
  assert (Hall : NoDup (all_msgs (cbox0, ths, []))).
  { simpl. unfold pend_msgs. simpl. rewrite app_nil_r. exact Hnd. }
  pose proof (subperm_nodup _ _ Hs Hall) as Hn.
  destruct (fold_left (cstep limit maxTopics) sched (cbox0, ths, [])) as [[b' ths'] log']. simpl in *.
  apply nodup_app_r in Hn. apply nodup_app_r in Hn. exact Hn.
Qed.
End Inv.

(* ---- how the full property fails on the (unchanged) lock structure: three witness schedules ---- *)
Definition Tc : topic := [7].
Definition Mc (src k : N) : bmsg := mkMsg src Tc [k].
Definition run100 := crun 100 50.
Definition final_box (r : cbox * list pc * list cout) : cbox := fst (fst r).

(* (a) late: the receive passes the started-check, Send then starts (and drains nothing), the receive stores:
   the message sits in the buffer of a topic that has started and waits for a later Send, for ever if none comes *)
Lemma late_refuted :
  let r := run100 [RCheck (Mc 1 1); SBegin Tc] [0; 1; 1; 0; 0; 0; 0; 0]%nat in
  handoffs_of (snd r) = [] /\ cbuffered (final_box r) Tc = [Mc 1 1] /\ cstart (final_box r) = [Tc] /\
  snd (fst r) = [Fin; Fin].
Proof. vm_compute. repeat split; reflexivity. Qed.

(* (b) lost: the receive has looked the store up, Send detaches that store and drains it, the receive then adds to
   the detached store: the message is neither handed over nor buffered any more *)
Lemma lost_refuted :
  let r := run100 [RCheck (Mc 1 0); RCheck (Mc 1 1); SBegin Tc] [0; 0; 0; 0; 0; 0; 1; 1; 1; 1; 2; 2; 2; 1]%nat in
  handoffs_of (snd r) = [Mc 1 0] /\ cbuffered (final_box r) Tc = [] /\ snd (fst r) = [Fin; Fin; Fin].
Proof. vm_compute. repeat split; reflexivity. Qed.

(* (c) order: while Send drains [m1; m2] of a sender, m3 of the same sender arrives, sees the topic started and is
   handed over at once, before m1 and m2 *)
Lemma order_refuted :
  let r := run100 [RCheck (Mc 1 1); RCheck (Mc 1 2); SBegin Tc; RCheck (Mc 1 3)]
                  [0; 0; 0; 0; 0; 0; 1; 1; 1; 1; 1; 2; 2; 3; 2; 2]%nat in
  handoffs_of (snd r) = [Mc 1 3; Mc 1 1; Mc 1 2] /\ snd (fst r) = [Fin; Fin; Fin; Fin].
Proof. vm_compute. repeat split; reflexivity. Qed.

(* non-vacuity of at_most_once: distinct messages, and a schedule in which hand-overs do happen *)
Example at_most_once_nonvacuous :
  NoDup (flat_map pc_msgs [RCheck (Mc 1 1); RCheck (Mc 1 2); SBegin Tc; RCheck (Mc 1 3)]) /\
  length (handoffs_of (snd (run100 [RCheck (Mc 1 1); RCheck (Mc 1 2); SBegin Tc; RCheck (Mc 1 3)]
                                   [0; 0; 0; 0; 0; 0; 1; 1; 1; 1; 1; 2; 2; 3; 2; 2]%nat))) = 3%nat.
Proof.
  split; [|reflexivity]. simpl. repeat constructor; simpl; intuition discriminate.
Qed.
