(* msg.Box (msg/msgbox.go), sequential semantics: one operation at a time.
   Operations: Recv (HandleMessage of an MPC message), RecvOther (any other type), Send, Tick (the GC clock).
   The variant flags select the pinned upstream behaviour (false) or the repaired behaviour (true):
     fix_logger   : storedMessages has a logger (excess traffic is dropped instead of a nil-logger panic)
     fix_release  : Send removes the topic from the in-flight sets of the senders that buffered for it
     fix_gate     : maybeGC runs when at least E epochs passed since the last run (upstream: at most E)
     fix_units    : pending topics expire E epochs after their last stored message (upstream compared
                    unix seconds with the epoch counter: never) *)
Require Import TSS.Base.Base.
From Coq Require Import Arith.

Definition topic := bytes.
Record bmsg := mkMsg { m_src : N; m_topic : topic; m_data : bytes }.

Record variant := { fix_logger : bool; fix_release : bool; fix_gate : bool; fix_units : bool }.
Definition v_tree := {| fix_logger := false; fix_release := false; fix_gate := false; fix_units := false |}.
Definition v_fixed := {| fix_logger := true; fix_release := true; fix_gate := true; fix_units := true |}.

Record cfg := mkCfg { limit : nat;        (* limitPerSender *)
                      maxTopics : nat;    (* MaxInFlightTopicsBySender *)
                      expireE : N;        (* GCExpire / GCSweep, in epochs *)
                      var : variant }.

(* one pending topic: messages in arrival order, per-sender counters, epoch of last store *)
Record stored := mkStored { s_msgs : list bmsg; s_count : list (N * nat); s_last : N }.

Record box := mkBox { pending : list (topic * stored);
                      started : list (topic * N);
                      inflight : list (N * list topic);
                      epoch : N; lastGC : N }.
Definition box0 := mkBox [] [] [] 0 0.

Inductive out :=
| Handoff (m : bmsg)          (* MessageHandler.HandleMessage(m) *)
| Forward (t : topic)         (* ForwardSend *)
| Discard (m : bmsg)          (* buffered message thrown away by the GC (not observable from outside) *)
| Dropped (m : bmsg)          (* received message shed because a limit is exceeded (not observable) *)
| OPanic.

Inductive op :=
| Recv (m : bmsg)
| RecvOther
| Send (t : topic)
| Tick.

(* ---- association lists ---- *)
Section Assoc.
Context {K V : Type} (eqb : K -> K -> bool).
Fixpoint aget (l : list (K * V)) (k : K) : option V :=
  match l with [] => None | (k', v) :: t => if eqb k' k then Some v else aget t k end.
Fixpoint adel (l : list (K * V)) (k : K) : list (K * V) :=
  match l with [] => [] | (k', v) :: t => if eqb k' k then adel t k else (k', v) :: adel t k end.
Definition aset (l : list (K * V)) (k : K) (v : V) : list (K * V) := (k, v) :: adel l k.
End Assoc.

Definition teqb : topic -> topic -> bool := bytes_eqb.
Definition count_of (st : stored) (src : N) : nat :=
  match aget N.eqb (s_count st) src with Some n => n | None => 0 end.
Definition topics_of (b : box) (src : N) : list topic :=
  match aget N.eqb (inflight b) src with Some l => l | None => [] end.
Definition tmem (t : topic) (l : list topic) : bool := existsb (teqb t) l.
Definition tadd (t : topic) (l : list topic) : list topic := if tmem t l then l else t :: l.
Definition tdel (t : topic) (l : list topic) : list topic := filter (fun x => negb (teqb t x)) l.
Definition senders (st : stored) : list N := map fst (s_count st).

(* storedMessages.add *)
Definition add (c : cfg) (st : stored) (m : bmsg) (e : N) : stored * list out :=
  let n := count_of st (m_src m) in
  if Nat.ltb (limit c) n then (st, if fix_logger (var c) then [Dropped m] else [OPanic])
  else (mkStored (s_msgs st ++ [m]) (aset N.eqb (s_count st) (m_src m) (S n))
                 (if s_last st <? e then e else s_last st), []).

(* Box.storeOrForward *)
Definition recv (c : cfg) (b : box) (m : bmsg) : box * list out :=
  match aget teqb (started b) (m_topic m) with
  | Some _ => (b, [Handoff m])
  | None =>
      if Nat.ltb (maxTopics c) (length (topics_of b (m_src m))) then (b, [Dropped m])
      else
        let infl := aset N.eqb (inflight b) (m_src m) (tadd (m_topic m) (topics_of b (m_src m))) in
        let st := match aget teqb (pending b) (m_topic m) with
                  | Some st => st
                  | None => mkStored [] [] (if fix_units (var c) then epoch b else 0)
                  end in
        let '(st', o) := add c st m (epoch b) in
        (mkBox (aset teqb (pending b) (m_topic m) st') (started b) infl (epoch b) (lastGC b), o)
  end.

Definition release (infl : list (N * list topic)) (t : topic) (who : list N) : list (N * list topic) :=
  map (fun '(s, l) => if existsb (N.eqb s) who then (s, tdel t l) else (s, l)) infl.

(* mark: topics to delete *)
Definition expired_pending (c : cfg) (b : box) : list topic :=
  if fix_units (var c)
  then map fst (filter (fun '(_, st) => expireE c <? epoch b - s_last st) (pending b))
  else [].
Definition expired_started (c : cfg) (b : box) : list topic :=
  map fst (filter (fun '(_, e) => expireE c <? epoch b - e) (started b)).

(* sweep of one topic *)
Definition sweep1 (acc : box * list out) (t : topic) : box * list out :=
  let '(b, o) := acc in
  match aget teqb (pending b) t with
  | Some st => (mkBox (adel teqb (pending b) t) (adel teqb (started b) t)
                      (release (inflight b) t (senders st)) (epoch b) (lastGC b),
                o ++ map Discard (s_msgs st))
  | None => (mkBox (pending b) (adel teqb (started b) t) (inflight b) (epoch b) (lastGC b), o)
  end.

Definition gc_gate (c : cfg) (b : box) : bool :=
  if fix_gate (var c) then negb (epoch b - lastGC b <? expireE c)     (* run when >= E epochs passed *)
  else negb (expireE c <? epoch b - lastGC b).                          (* upstream: run when <= E epochs passed *)

Definition gc (c : cfg) (b : box) : box * list out :=
  if gc_gate c b then
    let del := expired_pending c b ++ expired_started c b in
    let '(b', o) := fold_left sweep1 del (b, []) in
    (mkBox (pending b') (started b') (inflight b') (epoch b') (epoch b), o)
  else (b, []).

(* Box.Send: mark started, take and delete what is pending, forward, drain, then maybeGC *)
Definition send (c : cfg) (b : box) (t : topic) : box * list out :=
  let st := aget teqb (pending b) t in
  let msgs := match st with Some s => s_msgs s | None => [] end in
  let infl := match st with
              | Some s => if fix_release (var c) then release (inflight b) t (senders s) else inflight b
              | None => inflight b
              end in
  let b1 := mkBox (adel teqb (pending b) t) (aset teqb (started b) t (epoch b)) infl (epoch b) (lastGC b) in
  let '(b2, o) := gc c b1 in
  (b2, Forward t :: map Handoff msgs ++ o).

Definition step (c : cfg) (b : box) (o : op) : box * list out :=
  match o with
  | Recv m => recv c b m
  | RecvOther => (b, [])
  | Send t => send c b t
  | Tick => (mkBox (pending b) (started b) (inflight b) (epoch b + 1) (lastGC b), [])
  end.

Fixpoint run (c : cfg) (b : box) (ops : list op) : box * list out :=
  match ops with
  | [] => (b, [])
  | o :: rest => let '(b1, o1) := step c b o in let '(b2, o2) := run c b1 rest in (b2, o1 ++ o2)
  end.
