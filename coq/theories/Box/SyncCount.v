(* C14, conservation without premises: in EVERY interleaving of the repaired Box (Box/Sync.v), whatever the scripts of the
   goroutines (several goroutines may deliver messages of one sender) and whether or not traffic is shed, every message
   that arrived is, with its multiplicity, in exactly one place: handed over, shed, in the hands of a draining Send, in a
   draining queue, buffered, or in the hands of the goroutine that is about to hand it over.
   The proof counts occurrences (count_occ), so every case closes by linear arithmetic. *)
Require Import TSS.Base.Base TSS.Box.Model TSS.Box.Assoc TSS.Box.Inv TSS.Box.Handoff TSS.Box.Sync TSS.Box.SyncFacts.
From Coq Require Import Arith Lia Permutation.

Definition bmsg_dec : forall a b : bmsg, {a = b} + {a <> b}.
Proof. decide equality; try apply bytes_dec; apply N.eq_dec. Defined.

Definition cnt (x : bmsg) (l : list bmsg) : nat := count_occ bmsg_dec l x.

Lemma cnt_app x a b : cnt x (a ++ b) = (cnt x a + cnt x b)%nat.
Proof. apply count_occ_app. Qed.
Lemma cnt_nil x : cnt x [] = 0%nat.
Proof. reflexivity. Qed.

Definition dropped (log : list sout) : list bmsg := flat_map (fun x => match x with SDropped m => [m] | _ => [] end) log.
Definition all_queued (s : sbox) : list bmsg := flat_map (fun e : topic * list bmsg => snd e) (drainq s).
Definition all_buffered (b : box) : list bmsg := flat_map (fun e : topic * stored => s_msgs (snd e)) (pending b).

Lemma dropped_app a b : dropped (a ++ b) = dropped a ++ dropped b.
Proof. apply flat_map_app. Qed.

(* ---- threads ---- *)
Lemma cnt_set_nth {A} (f : A -> list bmsg) x (l : list A) i a b :
  nth_error l i = Some a ->
  (cnt x (flat_map f (set_nth l i b)) + cnt x (f a) = cnt x (flat_map f l) + cnt x (f b))%nat.
Proof.
  revert i. induction l as [|y l IH]; intros [|i] Hn; simpl in *; try discriminate.
  - inversion Hn; subst y. rewrite !cnt_app. lia.
  - specialize (IH i Hn). rewrite !cnt_app. lia.
Qed.

(* ---- association lists with unique keys ---- *)
Section AssocKeys.
Context {V : Type}.

Lemma adel_notin (l : list (topic * V)) t : ~ In t (map fst l) -> adel teqb l t = l.
Proof.
  induction l as [|[k v] l IH]; simpl; intros H; [reflexivity|].
  destruct (teqb k t) eqn:E; [apply teqb_spec in E; subst; exfalso; apply H; left; reflexivity|].
  f_equal. apply IH. intros Hin. apply H. right. exact Hin.
Qed.

Lemma in_adel_keys (l : list (topic * V)) t k : In k (map fst (adel teqb l t)) -> In k (map fst l) /\ k <> t.
Proof.
  induction l as [|[k' v] l IH]; simpl; [tauto|].
  destruct (teqb k' t) eqn:E.
  - intros H. destruct (IH H). split; [right; assumption|assumption].
  - simpl. intros [<-|H].
    + split; [left; reflexivity|]. intros ->. rewrite (proj2 (teqb_spec t t) eq_refl) in E. discriminate.
    + destruct (IH H). split; [right; assumption|assumption].
Qed.

Lemma nodup_adel_keys (l : list (topic * V)) t : NoDup (map fst l) -> NoDup (map fst (adel teqb l t)).
Proof.
  induction l as [|[k v] l IH]; simpl; intros H; [constructor|]. inversion H; subst.
  destruct (teqb k t); [apply IH; assumption|]. simpl. constructor; [|apply IH; assumption].
  intros Hin. apply in_adel_keys in Hin. tauto.
Qed.

Lemma nodup_aset_keys (l : list (topic * V)) t v : NoDup (map fst l) -> NoDup (map fst (aset teqb l t v)).
Proof.
  intros H. unfold aset. simpl. constructor; [|apply nodup_adel_keys; exact H].
  intros Hin. apply in_adel_keys in Hin. tauto.
Qed.

End AssocKeys.

Section AssocCount.
Context {V : Type} (g : V -> list bmsg).
Let G := fun e : topic * V => g (snd e).

Lemma cnt_split x (l : list (topic * V)) t :
  NoDup (map fst l) ->
  cnt x (flat_map G l) =
  (cnt x (match aget teqb l t with Some v => g v | None => [] end) + cnt x (flat_map G (adel teqb l t)))%nat.
Proof.
  induction l as [|[k v] l IH]; simpl; intros H; [reflexivity|]. inversion H; subst.
  destruct (teqb k t) eqn:E.
  - apply teqb_spec in E. subst k. rewrite (adel_notin l t) by assumption. rewrite cnt_app. reflexivity.
  - cbn [flat_map]. rewrite !cnt_app, (IH H3). unfold G at 1 3. simpl. lia.
Qed.

Lemma cnt_aset x (l : list (topic * V)) t v :
  NoDup (map fst l) ->
  (cnt x (flat_map G (aset teqb l t v)) + cnt x (match aget teqb l t with Some v0 => g v0 | None => [] end) =
   cnt x (flat_map G l) + cnt x (g v))%nat.
Proof. intros H. unfold aset. cbn [flat_map]. rewrite cnt_app, (cnt_split x l t H). unfold G at 1. simpl. lia. Qed.
End AssocCount.

Section Conservation.
Variable c : cfg.
Hypothesis Hvar : var c = v_fixed.

Definition total (x : bmsg) (w : world) : nat :=
  (cnt x (handoffs (wlog w)) + cnt x (dropped (wlog w)) + cnt x (flat_map hand_of (wths w)) + cnt x (all_queued (wbox w)) +
   cnt x (all_buffered (sb (wbox w))) + cnt x (flat_map fwd_of (wths w)))%nat.

Record CInv (w : world) : Prop := {
  C_pend : NoDup (map fst (pending (sb (wbox w))));
  C_drain : NoDup (map fst (drainq (wbox w)));
  C_cons : forall x, total x w = cnt x (arrivals (wlog w)) }.

(* storeOrForward of a topic that has not started: buffered or shed *)
Lemma recv_count b m b' o :
  NoDup (map fst (pending b)) -> aget teqb (started b) (m_topic m) = None -> recv c b m = (b', o) ->
  NoDup (map fst (pending b')) /\
  forall x, (cnt x (all_buffered b') + cnt x (dropped (flat_map lift_out o)) = cnt x (all_buffered b) + cnt x [m])%nat /\
            handoffs (flat_map lift_out o) = [] /\ arrivals (flat_map lift_out o) = [].
Proof.
  intros Hnd Est H. unfold recv in H. rewrite Est in H.
  destruct (Nat.ltb (maxTopics c) (length (topics_of b (m_src m)))).
  { inversion H; subst. split; [exact Hnd|]. intros x. simpl. repeat split; lia. }
  match type of H with context [add c ?ST m ?e] => set (st := ST) in *; destruct (add c st m e) as [st' o'] eqn:Ea end.
  inversion H; subst b' o; clear H. cbn [pending].
  split; [apply nodup_aset_keys; exact Hnd|]. intros x.
  assert (Hfl : fix_logger (var c) = true) by (rewrite Hvar; reflexivity).
  pose proof (cnt_aset s_msgs x (pending b) (m_topic m) st' Hnd) as A. unfold all_buffered. cbn [pending].
  assert (Hst : cnt x (match aget teqb (pending b) (m_topic m) with Some v0 => s_msgs v0 | None => [] end) = cnt x (s_msgs st)).
  { unfold st. destruct (aget teqb (pending b) (m_topic m)); reflexivity. }
  destruct (add_fixed c st m (epoch b) st' o' Hfl Ea) as [(_ & -> & ->)|(_ & -> & Hm & _)].
  - simpl. repeat split; try reflexivity. simpl in A. lia.
  - simpl. repeat split; try reflexivity. rewrite Hm, cnt_app in A. simpl in A. simpl. lia.
Qed.

Lemma tstep_count s th s' th' o :
  NoDup (map fst (pending (sb s))) -> NoDup (map fst (drainq s)) ->
  tstep c s th = (s', th', o) ->
  NoDup (map fst (pending (sb s'))) /\ NoDup (map fst (drainq s')) /\
  forall x, (cnt x (handoffs o) + cnt x (dropped o) + cnt x (hand_of th') + cnt x (all_queued s') + cnt x (all_buffered (sb s')) +
             cnt x (fwd_of th') + cnt x (hand_of th) + cnt x (fwd_of th) =
             cnt x (arrivals o) + cnt x (hand_of th) + cnt x (all_queued s) + cnt x (all_buffered (sb s)) + cnt x (fwd_of th) +
             cnt x (hand_of th) + cnt x (fwd_of th))%nat.
Proof.
  intros Hp Hd. unfold tstep, hand_of, fwd_of. destruct (pc th) as [|m|t d|t|t m] eqn:Hpc.
  - destruct (todo th) as [|[m|t] rest].
    + intros H; inversion H; subst. rewrite Hpc. split; [exact Hp|]. split; [exact Hd|]. intros x. simpl. lia.
    + unfold recv_enter. destruct (is_started s (m_topic m)) eqn:Est.
      * destruct (aget teqb (drainq s) (m_topic m)) as [q|] eqn:Eq; intros H; inversion H; subst; cbn [pc sb drainq].
        -- split; [exact Hp|]. split; [apply nodup_aset_keys; exact Hd|]. intros x.
           pose proof (cnt_aset (fun q0 : list bmsg => q0) x (drainq s) (m_topic m) (q ++ [m]) Hd) as A.
           rewrite Eq, cnt_app in A. unfold all_queued. cbn [drainq]. simpl in *. lia.
        -- split; [exact Hp|]. split; [exact Hd|]. intros x. simpl. lia.
      * destruct (recv c (sb s) m) as [b' o'] eqn:Er. intros H; inversion H; subst; cbn [pc sb drainq].
        assert (Hns : aget teqb (started (sb s)) (m_topic m) = None).
        { unfold is_started in Est. destruct (aget teqb (started (sb s)) (m_topic m)); [discriminate|reflexivity]. }
        destruct (recv_count (sb s) m b' o' Hp Hns Er) as [Hp' Hc]. split; [exact Hp'|]. split; [exact Hd|]. intros x.
        destruct (Hc x) as (A & B & C).
        change (SArrive m :: flat_map lift_out o') with ([SArrive m] ++ flat_map lift_out o').
        rewrite handoffs_app, dropped_app, arrivals_app, B, C. unfold all_queued. cbn [drainq]. simpl in *. lia.
    + unfold send_enter. set (b := sb s).
      assert (Hbuf : forall x, cnt x (all_buffered b) =
                (cnt x (match aget teqb (pending b) t with Some st => s_msgs st | None => [] end) +
                 cnt x (flat_map (fun e : topic * stored => s_msgs (snd e)) (adel teqb (pending b) t)))%nat).
      { intros x. apply (cnt_split s_msgs x (pending b) t Hp). }
      destruct (match aget teqb (pending b) t with Some x => s_msgs x | None => [] end) as [|m0 ms] eqn:Em.
      * intros H; inversion H; subst; cbn [pc sb drainq pending].
        split; [apply nodup_adel_keys; exact Hp|]. split; [exact Hd|]. intros x. specialize (Hbuf x).
        unfold all_queued, all_buffered at 1. cbn [drainq pending]. simpl in *. lia.
      * destruct (aget teqb (drainq s) t) as [q|] eqn:Eq; intros H; inversion H; subst; cbn [pc sb drainq pending].
        -- split; [apply nodup_adel_keys; exact Hp|]. split; [apply nodup_aset_keys; exact Hd|]. intros x. specialize (Hbuf x).
           pose proof (cnt_aset (fun q0 : list bmsg => q0) x (drainq s) t (q ++ m0 :: ms) Hd) as A.
           rewrite Eq, cnt_app in A. unfold all_queued, all_buffered at 1. cbn [drainq pending]. simpl in *. lia.
        -- split; [apply nodup_adel_keys; exact Hp|]. split; [apply nodup_aset_keys; exact Hd|]. intros x. specialize (Hbuf x).
           pose proof (cnt_aset (fun q0 : list bmsg => q0) x (drainq s) t (m0 :: ms) Hd) as A.
           rewrite Eq in A. unfold all_queued, all_buffered at 1. cbn [drainq pending]. simpl in *. lia.
  - intros H; inversion H; subst. cbn [pc]. split; [exact Hp|]. split; [exact Hd|]. intros x. simpl. lia.
  - intros H; inversion H; subst. cbn [pc]. split; [exact Hp|]. split; [exact Hd|]. intros x. destruct d; simpl; lia.
  - destruct (aget teqb (drainq s) t) as [[|m q]|] eqn:Eq; intros H; inversion H; subst; cbn [pc sb drainq].
    + split; [exact Hp|]. split; [apply nodup_adel_keys; exact Hd|]. intros x.
      pose proof (cnt_split (fun q0 : list bmsg => q0) x (drainq s) t Hd) as A. rewrite Eq in A.
      unfold all_queued. cbn [drainq]. simpl in *. lia.
    + split; [exact Hp|]. split; [apply nodup_aset_keys; exact Hd|]. intros x.
      pose proof (cnt_aset (fun q0 : list bmsg => q0) x (drainq s) t q Hd) as A. rewrite Eq in A.
      unfold all_queued. cbn [drainq]. simpl in *. destruct (bmsg_dec m x); lia.
    + split; [exact Hp|]. split; [apply nodup_adel_keys; exact Hd|]. intros x.
      pose proof (cnt_split (fun q0 : list bmsg => q0) x (drainq s) t Hd) as A. rewrite Eq in A.
      unfold all_queued. cbn [drainq]. simpl in *. lia.
  - intros H; inversion H; subst. cbn [pc]. split; [exact Hp|]. split; [exact Hd|]. intros x. simpl. destruct (bmsg_dec m x); lia.
Qed.

Lemma wstep_cinv w i : CInv w -> CInv (wstep c w i).
Proof.
  destruct w as [[s ths] log]. intros [Hp Hd Hc]. unfold wstep. cbn [wbox wths wlog fst snd] in *.
  destruct (nth_error ths i) as [th|] eqn:Hi; [|constructor; assumption].
  destruct (tstep c s th) as [[s' th'] o] eqn:Et.
  destruct (tstep_count s th s' th' o Hp Hd Et) as (Hp' & Hd' & Hx).
  constructor; cbn [wbox wths wlog fst snd]; [exact Hp'|exact Hd'|].
  intros x. specialize (Hc x). specialize (Hx x). unfold total in *. cbn [wbox wths wlog fst snd] in *.
  rewrite handoffs_app, dropped_app, arrivals_app, !cnt_app.
  pose proof (cnt_set_nth hand_of x ths i th th' Hi) as A.
  pose proof (cnt_set_nth fwd_of x ths i th th' Hi) as B.
  lia.
Qed.

(* exactly once, for every interleaving, without premises *)
Theorem conservation scripts sched :
  let w := wrun c scripts sched in
  Permutation (handoffs (wlog w) ++ dropped (wlog w) ++ flat_map hand_of (wths w) ++ all_queued (wbox w) ++
               all_buffered (sb (wbox w)) ++ flat_map fwd_of (wths w))
              (arrivals (wlog w)).
Proof.
  intros w. assert (HC : CInv w).
  { unfold w, wrun. assert (G : forall sched w0, CInv w0 -> CInv (fold_left (wstep c) sched w0)).
    { intros sc. induction sc as [|i sc IH]; intros w0 H; cbn [fold_left]; [exact H|]. apply IH. apply wstep_cinv. exact H. }
    apply G. unfold start. constructor; cbn [wbox wths wlog fst snd sbox0 sb drainq box0 pending]; try constructor.
    intros x. unfold total. cbn [wbox wths wlog fst snd sbox0 sb drainq box0 pending handoffs dropped arrivals flat_map all_queued all_buffered].
    rewrite (idle_flat_map hand_of) by reflexivity. rewrite (idle_flat_map fwd_of) by reflexivity. reflexivity. }
  apply (Permutation_count_occ bmsg_dec). intros x. pose proof (C_cons w HC x) as E. unfold total, cnt in E.
  rewrite !count_occ_app. lia.
Qed.

(* ... hence: when every call has returned, every arrived message has been handed over, shed, or is buffered for a topic
   that has not started - exactly once *)
Corollary conservation_quiescent scripts sched :
  let w := wrun c scripts sched in
  forallb finished (wths w) = true -> drainq (wbox w) = [] ->
  Permutation (handoffs (wlog w) ++ dropped (wlog w) ++ all_buffered (sb (wbox w))) (arrivals (wlog w)).
Proof.
  intros w Hfin Hdq. pose proof (conservation scripts sched) as P. cbv zeta in P. fold w in P.
  assert (Hidle : forall th, In th (wths w) -> pc th = Idle).
  { intros th Hin. rewrite forallb_forall in Hfin. specialize (Hfin th Hin). unfold finished in Hfin.
    destruct (pc th); try discriminate. reflexivity. }
  assert (Z1 : flat_map hand_of (wths w) = []).
  { apply flat_map_nil. intros j z Hz. unfold hand_of. rewrite (Hidle z (nth_error_In _ _ Hz)). reflexivity. }
  assert (Z2 : flat_map fwd_of (wths w) = []).
  { apply flat_map_nil. intros j z Hz. unfold fwd_of. rewrite (Hidle z (nth_error_In _ _ Hz)). reflexivity. }
  rewrite Z1, Z2 in P. unfold all_queued in P. rewrite Hdq in P. cbn [flat_map app] in P. rewrite app_nil_r in P. exact P.
Qed.
End Conservation.
