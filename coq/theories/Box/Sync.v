(* msg.Box (msg/msgbox.go) as repaired by b40b5e7, at lock granularity: any number of goroutines, each performing a
   sequence of HandleMessage and Send calls (C14).
   One step of a thread is the code between two consecutive lock boundaries (= the yield points that the build tag
   `verif` puts into msgbox.go).  storeOrForward decides and stores inside ONE critical section of the box lock
   (the sequential `recv` of Box/Model.v, unless the topic has started); Send marks the topic as started and moves
   what was buffered into the draining queue of the topic in one critical section; the messages of the queue are
   handed over one by one, each pop being a critical section, the handler call being outside every lock.
   A message that finds its topic started is appended to the draining queue when there is one, and is handed over
   directly (after the lock has been released) when there is none.
   The garbage collector is not part of this model: no clock tick happens during the schedules considered, so maybeGC
   at the end of Send does nothing (Box/Model.v gc_gate with epoch = lastGC).  *)
Require Import TSS.Base.Base TSS.Box.Model.
From Coq Require Import Arith.

Inductive call := CRecv (m : bmsg) | CSend (t : topic).

Inductive spc :=
| Idle                            (* between two calls (or finished) *)
| PFwd (m : bmsg)                 (* storeOrForward found the topic started and not draining: about to call the handler *)
| PSent (t : topic) (d : bool)    (* Send has left its critical section, about to call ForwardSend; d: this call drains *)
| PPop (t : topic)                (* drain: about to take the next message of the queue *)
| PHand (t : topic) (m : bmsg).   (* drain: about to hand m over *)

Record thread := mkTh { pc : spc; todo : list call }.

Record sbox := mkSB { sb : box; drainq : list (topic * list bmsg) }.
Definition sbox0 := mkSB box0 [].

Inductive sout :=
| SArrive (m : bmsg)              (* HandleMessage(m) entered the critical section of storeOrForward *)
| SHandoff (m : bmsg)             (* MessageHandler.HandleMessage(m) *)
| SForward (t : topic)            (* ForwardSend *)
| SDropped (m : bmsg)             (* shed because a limit is exceeded *)
| SPanic.

Definition lift_out (o : out) : list sout :=
  match o with
  | Handoff m => [SHandoff m]
  | Forward t => [SForward t]
  | Dropped m => [SDropped m]
  | Discard _ => []
  | OPanic => [SPanic]
  end.

Section Sync.
Variable c : cfg.

Definition is_started (s : sbox) (t : topic) : bool :=
  match aget teqb (started (sb s)) t with Some _ => true | None => false end.

(* critical section of storeOrForward *)
Definition recv_enter (s : sbox) (m : bmsg) : sbox * spc * list sout :=
  if is_started s (m_topic m) then
    match aget teqb (drainq s) (m_topic m) with
    | Some q => (mkSB (sb s) (aset teqb (drainq s) (m_topic m) (q ++ [m])), Idle, [SArrive m])
    | None => (s, PFwd m, [SArrive m])
    end
  else
    let '(b', o) := recv c (sb s) m in
    (mkSB b' (drainq s), Idle, SArrive m :: flat_map lift_out o).

(* critical section of Send *)
Definition send_enter (s : sbox) (t : topic) : sbox * spc * list sout :=
  let b := sb s in
  let st := aget teqb (pending b) t in
  let msgs := match st with Some x => s_msgs x | None => [] end in
  let infl := match st with Some x => release (inflight b) t (senders x) | None => inflight b end in
  let b1 := mkBox (adel teqb (pending b) t) (aset teqb (started b) t (epoch b)) infl (epoch b) (lastGC b) in
  match msgs with
  | [] => (mkSB b1 (drainq s), PSent t false, [])
  | _ :: _ =>
      match aget teqb (drainq s) t with
      | Some q => (mkSB b1 (aset teqb (drainq s) t (q ++ msgs)), PSent t false, [])
      | None => (mkSB b1 (aset teqb (drainq s) t msgs), PSent t true, [])
      end
  end.

(* one step of a thread *)
Definition tstep (s : sbox) (th : thread) : sbox * thread * list sout :=
  match pc th with
  | Idle =>
      match todo th with
      | [] => (s, th, [])
      | CRecv m :: rest => let '(s', p, o) := recv_enter s m in (s', mkTh p rest, o)
      | CSend t :: rest => let '(s', p, o) := send_enter s t in (s', mkTh p rest, o)
      end
  | PFwd m => (s, mkTh Idle (todo th), [SHandoff m])
  | PSent t d => (s, mkTh (if d then PPop t else Idle) (todo th), [SForward t])
  | PPop t =>
      match aget teqb (drainq s) t with
      | Some (m :: q) => (mkSB (sb s) (aset teqb (drainq s) t q), mkTh (PHand t m) (todo th), [])
      | _ => (mkSB (sb s) (adel teqb (drainq s) t), mkTh Idle (todo th), [])
      end
  | PHand t m => (s, mkTh (PPop t) (todo th), [SHandoff m])
  end.

Fixpoint set_nth {A} (l : list A) (i : nat) (x : A) : list A :=
  match l, i with
  | [], _ => []
  | _ :: t, O => x :: t
  | y :: t, S i' => y :: set_nth t i' x
  end.

Definition world : Type := sbox * list thread * list sout.

(* one scheduler grant: thread i runs up to its next lock boundary *)
Definition wstep (w : world) (i : nat) : world :=
  let '(s, ths, log) := w in
  match nth_error ths i with
  | None => w
  | Some th => let '(s', th', o) := tstep s th in (s', set_nth ths i th', log ++ o)
  end.

Definition start (scripts : list (list call)) : world := (sbox0, map (mkTh Idle) scripts, []).
Definition wrun (scripts : list (list call)) (sched : list nat) : world := fold_left wstep sched (start scripts).
End Sync.

Definition finished (th : thread) : bool :=
  match pc th, todo th with Idle, [] => true | _, _ => false end.
