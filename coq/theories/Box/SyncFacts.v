(* C14 for the repaired msg.Box (Box/Sync.v): for EVERY interleaving at lock granularity of any number of goroutines making
   any sequences of HandleMessage and Send calls, every message is handed over exactly once and the messages of one
   sender are handed over in their arrival order. *)
Require Import TSS.Base.Base TSS.Box.Model TSS.Box.Assoc TSS.Box.Inv TSS.Box.Handoff TSS.Box.Sync.
From Coq Require Import Arith Lia.

(* ---------------------------------------------------------------- lists of threads *)
Section ListFacts.
Context {A B : Type}.

Lemma set_nth_length (l : list A) i x : length (set_nth l i x) = length l.
Proof. revert i. induction l as [|y l IH]; intros [|i]; simpl; auto. Qed.

Lemma nth_error_set_nth_same (l : list A) i x y : nth_error l i = Some y -> nth_error (set_nth l i x) i = Some x.
Proof. revert i. induction l as [|z l IH]; intros [|i]; simpl; try discriminate; auto. Qed.

Lemma nth_error_set_nth_other (l : list A) i j x : j <> i -> nth_error (set_nth l i x) j = nth_error l j.
Proof.
  revert i j. induction l as [|z l IH]; intros [|i] [|j] H; simpl; try reflexivity; try congruence.
  apply IH. congruence.
Qed.

Lemma in_set_nth (l : list A) i x z : In z (set_nth l i x) -> z = x \/ In z l.
Proof.
  revert i. induction l as [|y l IH]; intros [|i]; simpl; auto.
  - intros [H|H]; auto.
  - intros [H|H]; auto. destruct (IH i H); auto.
Qed.

(* a per-thread contribution that is empty for every thread but the i-th *)
Lemma flat_map_only (f : A -> list B) (l : list A) i x :
  nth_error l i = Some x ->
  (forall j z, j <> i -> nth_error l j = Some z -> f z = []) ->
  flat_map f l = f x.
Proof.
  revert i. induction l as [|y l IH]; intros [|i] Hn Ho; simpl in *; try discriminate.
  - inversion Hn; subst y.
    assert (E : flat_map f l = []).
    { clear IH Hn. assert (Ho' : forall j z, nth_error l j = Some z -> f z = []).
      { intros j z Hj. apply (Ho (S j) z); [discriminate|exact Hj]. }
      clear Ho. induction l as [|z l IH]; simpl; [reflexivity|].
      rewrite (Ho' O z eq_refl). simpl. apply IH. intros j w Hj. apply (Ho' (S j) w Hj). }
    rewrite E, app_nil_r. reflexivity.
  - rewrite (Ho O y) by (discriminate || reflexivity). simpl.
    apply (IH i Hn). intros j z Hj Hz. apply (Ho (S j) z); [congruence|exact Hz].
Qed.

Lemma flat_map_set_nth_same (f : A -> list B) (l : list A) i x y :
  nth_error l i = Some x -> f y = f x -> flat_map f (set_nth l i y) = flat_map f l.
Proof.
  revert i. induction l as [|z l IH]; intros [|i] Hn He; simpl in *; try discriminate.
  - inversion Hn; subst z. rewrite He. reflexivity.
  - f_equal. apply IH; assumption.
Qed.

Lemma filter_flat_map (p : B -> bool) (f : A -> list B) (l : list A) :
  filter p (flat_map f l) = flat_map (fun x => filter p (f x)) l.
Proof. induction l as [|x l IH]; simpl; [reflexivity|]. rewrite filter_app, IH. reflexivity. Qed.

Lemma count_set_nth (p : A -> bool) (l : list A) i x y :
  nth_error l i = Some x ->
  (length (filter p (set_nth l i y)) + (if p x then 1 else 0) = length (filter p l) + (if p y then 1 else 0))%nat.
Proof.
  revert i. induction l as [|z l IH]; intros [|i] Hn; simpl in *; try discriminate.
  - inversion Hn; subst z. destruct (p x), (p y); simpl; lia.
  - specialize (IH i Hn). destruct (p z); simpl; lia.
Qed.

Lemma count_zero_none (p : A -> bool) (l : list A) z : length (filter p l) = 0%nat -> In z l -> p z = false.
Proof.
  induction l as [|y l IH]; simpl; intros H Hin; [destruct Hin|]. destruct Hin as [->|Hin].
  - destruct (p z); [discriminate|reflexivity].
  - destruct (p y); [discriminate|auto].
Qed.

Lemma count_one_unique (p : A -> bool) (l : list A) i j x y :
  (length (filter p l) <= 1)%nat -> nth_error l i = Some x -> nth_error l j = Some y -> p x = true -> p y = true -> i = j.
Proof.
  revert i j. induction l as [|z l IH]; intros [|i] [|j] Hc Hi Hj Hx Hy; simpl in *; try discriminate; auto.
  - inversion Hi; subst z. rewrite Hx in Hc. simpl in Hc.
    assert (E : length (filter p l) = 0%nat) by lia.
    apply nth_error_In in Hj. rewrite (count_zero_none p l y E Hj) in Hy. discriminate.
  - inversion Hj; subst z. rewrite Hy in Hc. simpl in Hc.
    assert (E : length (filter p l) = 0%nat) by lia.
    apply nth_error_In in Hi. rewrite (count_zero_none p l x E Hi) in Hx. discriminate.
  - f_equal. apply (IH i j); auto. destruct (p z); simpl in Hc; lia.
Qed.
End ListFacts.

(* ---------------------------------------------------------------- what the property is about *)
Definition key : Type := (topic * N)%type.          (* topic and sender *)
Definition sel (k : key) (m : bmsg) : bool := teqb (m_topic m) (fst k) && (m_src m =? snd k).

Definition handoffs (log : list sout) : list bmsg := flat_map (fun x => match x with SHandoff m => [m] | _ => [] end) log.
Definition arrivals (log : list sout) : list bmsg := flat_map (fun x => match x with SArrive m => [m] | _ => [] end) log.
Definition slossless (log : list sout) : Prop :=
  forall x, In x log -> match x with SDropped _ | SPanic => False | _ => True end.

Definition hand_of (th : thread) : list bmsg := match pc th with PHand _ m => [m] | _ => [] end.
Definition fwd_of (th : thread) : list bmsg := match pc th with PFwd m => [m] | _ => [] end.
Definition queue (s : sbox) (t : topic) : list bmsg := match aget teqb (drainq s) t with Some q => q | None => [] end.
Definition drains (t : topic) (th : thread) : bool :=
  match pc th with
  | PSent t' true => teqb t' t
  | PPop t' => teqb t' t
  | PHand t' _ => teqb t' t
  | _ => false
  end.

(* the messages a goroutine delivers: the one it is about to hand over directly and those of its remaining calls *)
Definition recvs (l : list call) : list bmsg := flat_map (fun x => match x with CRecv m => [m] | _ => [] end) l.
Definition delivers (th : thread) : list bmsg := fwd_of th ++ recvs (todo th).
Definition has_src (src : N) (th : thread) : bool := existsb (fun m => m_src m =? src) (delivers th).
(* the messages of one sender are delivered by one goroutine (the reader of the connection to that peer) *)
Definition one_reader (ths : list thread) : Prop :=
  forall i j x y src, nth_error ths i = Some x -> nth_error ths j = Some y ->
                      has_src src x = true -> has_src src y = true -> i = j.

(* per topic and sender: what has arrived and has not been handed over yet, in the order in which it will be *)
Definition waiting (k : key) (s : sbox) (ths : list thread) : list bmsg :=
  filter (sel k) (flat_map hand_of ths) ++ filter (sel k) (queue s (fst k)) ++
  filter (sel k) (buffered (sb s) (fst k)) ++ filter (sel k) (flat_map fwd_of ths).

Definition wbox (w : world) : sbox := fst (fst w).
Definition wths (w : world) : list thread := snd (fst w).
Definition wlog (w : world) : list sout := snd w.

Lemma handoffs_app a b : handoffs (a ++ b) = handoffs a ++ handoffs b.
Proof. apply flat_map_app. Qed.
Lemma arrivals_app a b : arrivals (a ++ b) = arrivals a ++ arrivals b.
Proof. apply flat_map_app. Qed.
Lemma slossless_app a b : slossless (a ++ b) <-> slossless a /\ slossless b.
Proof.
  unfold slossless. split.
  - intros H. split; intros x Hx; apply H; apply in_app_iff; auto.
  - intros [H1 H2] x Hx. apply in_app_iff in Hx. destruct Hx as [Hx|Hx]; [apply H1|apply H2]; exact Hx.
Qed.

Lemma set_nth_id {A} (l : list A) i x : nth_error l i = Some x -> set_nth l i x = l.
Proof. revert i. induction l as [|y l IH]; intros [|i] H; simpl in *; try discriminate; [inversion H; reflexivity|f_equal; auto]. Qed.

Lemma sel_topic k m : sel k m = true -> m_topic m = fst k.
Proof. unfold sel. intros H. apply andb_prop in H. apply teqb_spec. tauto. Qed.
Lemma sel_src k m : sel k m = true -> m_src m = snd k.
Proof. unfold sel. intros H. apply andb_prop in H. apply N.eqb_eq. tauto. Qed.

Section Facts.
Variable c : cfg.
Hypothesis Hvar : var c = v_fixed.

Definition Q_ok (s : sbox) : Prop :=
  (forall t q, aget teqb (drainq s) t = Some q -> is_started s t = true) /\
  (forall t q m, aget teqb (drainq s) t = Some q -> In m q -> m_topic m = t).
Definition tcond (s : sbox) (th : thread) : Prop :=
  match pc th with
  | PHand t m => m_topic m = t
  | PFwd m => is_started s (m_topic m) = true /\ aget teqb (drainq s) (m_topic m) = None
  | _ => True
  end.
Definition T_ok (s : sbox) (ths : list thread) : Prop := forall th, In th ths -> tcond s th.
Definition D_ok (s : sbox) (ths : list thread) : Prop :=
  forall t, length (filter (drains t) ths) = if aget teqb (drainq s) t then 1%nat else 0%nat.
Definition E_ok (s : sbox) (ths : list thread) (log : list sout) : Prop :=
  forall k, filter (sel k) (handoffs log) ++ waiting k s ths = filter (sel k) (arrivals log).

Record WInv (w : world) : Prop := {
  W_box : Inv c (sb (wbox w));
  W_q : Q_ok (wbox w);
  W_t : T_ok (wbox w) (wths w);
  W_d : D_ok (wbox w) (wths w);
  W_one : one_reader (wths w);
  W_eq : E_ok (wbox w) (wths w) (wlog w) }.

(* ---------------------------------------------------------------- who else can hold a message of this key *)
Lemma flat_map_nil {A B} (f : A -> list B) (l : list A) :
  (forall j z, nth_error l j = Some z -> f z = []) -> flat_map f l = [].
Proof.
  induction l as [|y l IH]; simpl; intros H; [reflexivity|].
  rewrite (H O y eq_refl). simpl. apply IH. intros j z Hj. apply (H (S j) z Hj).
Qed.

Lemma flat_map_focus {A B} (f : A -> list B) (l : list A) i x y :
  nth_error l i = Some x ->
  (forall j z, j <> i -> nth_error l j = Some z -> f z = []) ->
  flat_map f l = f x /\ flat_map f (set_nth l i y) = f y.
Proof.
  intros Hn Ho. split; [apply (flat_map_only f l i x Hn Ho)|].
  apply (flat_map_only f (set_nth l i y) i y).
  - eapply nth_error_set_nth_same; eauto.
  - intros j z Hj Hz. rewrite nth_error_set_nth_other in Hz by exact Hj. eapply Ho; eauto.
Qed.

Lemma has_src_fwd (k : key) th m : pc th = PFwd m -> sel k m = true -> has_src (snd k) th = true.
Proof.
  intros Hp Hs. unfold has_src, delivers, fwd_of. rewrite Hp. simpl. apply sel_src in Hs. rewrite Hs, N.eqb_refl. reflexivity.
Qed.

Lemma has_src_todo (k : key) th m rest : todo th = CRecv m :: rest -> m_src m = snd k -> has_src (snd k) th = true.
Proof.
  intros Ht Hs. unfold has_src, delivers. rewrite Ht. rewrite existsb_app. simpl. rewrite Hs, N.eqb_refl.
  apply Bool.orb_true_r.
Qed.

Lemma others_no_fwd ths i th (k : key) :
  one_reader ths -> nth_error ths i = Some th -> has_src (snd k) th = true ->
  forall j z, j <> i -> nth_error ths j = Some z -> filter (sel k) (fwd_of z) = [].
Proof.
  intros H1 Hi Hs j z Hj Hz. unfold fwd_of. destruct (pc z) as [|m0| | |] eqn:Ep; try reflexivity.
  simpl. destruct (sel k m0) eqn:E; [|reflexivity]. exfalso. apply Hj.
  apply (H1 j i z th (snd k) Hz Hi); [eapply has_src_fwd; eauto|exact Hs].
Qed.

Lemma D_le1 s ths t : D_ok s ths -> (length (filter (drains t) ths) <= 1)%nat.
Proof. intros H. rewrite (H t). destruct (aget teqb (drainq s) t); lia. Qed.

Lemma others_no_hand s ths i th t (k : key) :
  D_ok s ths -> T_ok s ths -> nth_error ths i = Some th -> drains t th = true -> fst k = t ->
  forall j z, j <> i -> nth_error ths j = Some z -> filter (sel k) (hand_of z) = [].
Proof.
  intros HD HT Hi Hd Hk j z Hj Hz. unfold hand_of. destruct (pc z) as [| | | |t' m'] eqn:Ep; try reflexivity.
  simpl. destruct (sel k m') eqn:E; [|reflexivity]. exfalso. apply Hj.
  pose proof (HT z (nth_error_In _ _ Hz)) as Ht. unfold tcond in Ht. rewrite Ep in Ht.
  apply sel_topic in E. assert (Ht' : t' = t) by congruence.
  apply (count_one_unique (drains t) ths j i z th (D_le1 s ths t HD) Hz Hi); [|exact Hd].
  unfold drains. rewrite Ep. apply teqb_spec. exact Ht'.
Qed.

Lemma no_hand_when_none s ths t (k : key) :
  D_ok s ths -> T_ok s ths -> aget teqb (drainq s) t = None -> fst k = t -> filter (sel k) (flat_map hand_of ths) = [].
Proof.
  intros HD HT Hn Hk. rewrite filter_flat_map. apply flat_map_nil. intros j z Hz.
  unfold hand_of. destruct (pc z) as [| | | |t' m'] eqn:Ep; try reflexivity.
  simpl. destruct (sel k m') eqn:E; [|reflexivity]. exfalso.
  pose proof (HT z (nth_error_In _ _ Hz)) as Ht. unfold tcond in Ht. rewrite Ep in Ht.
  apply sel_topic in E. assert (Ht' : t' = t) by congruence.
  pose proof (HD t) as Hc. rewrite Hn in Hc.
  assert (Hf : drains t z = false) by (eapply count_zero_none; eauto using nth_error_In).
  unfold drains in Hf. rewrite Ep in Hf. rewrite (proj2 (teqb_spec t' t) Ht') in Hf. discriminate.
Qed.

Lemma no_fwd_when (k : key) s ths :
  T_ok s ths ->
  (is_started s (fst k) = false \/ aget teqb (drainq s) (fst k) <> None) ->
  filter (sel k) (flat_map fwd_of ths) = [].
Proof.
  intros HT Hc. rewrite filter_flat_map. apply flat_map_nil. intros j z Hz.
  unfold fwd_of. destruct (pc z) as [|m0| | |] eqn:Ep; try reflexivity.
  simpl. destruct (sel k m0) eqn:E; [|reflexivity]. exfalso.
  pose proof (HT z (nth_error_In _ _ Hz)) as Ht. unfold tcond in Ht. rewrite Ep in Ht. apply sel_topic in E. rewrite E in Ht.
  destruct Ht as [A B]. destruct Hc as [Hc|Hc]; congruence.
Qed.

Lemma buffered_started_nil b t : Inv c b -> aget teqb (started b) t <> None -> buffered b t = [].
Proof.
  intros HI Hs. unfold buffered. destruct (aget teqb (pending b) t) as [st|] eqn:E; [|reflexivity].
  exfalso. apply Hs. eapply I_disj; eauto.
Qed.

Lemma queue_aset s t q t0 :
  queue (mkSB (sb s) (aset teqb (drainq s) t q)) t0 = if teqb t t0 then q else queue s t0.
Proof.
  unfold queue. cbn [drainq]. destruct (teqb t t0) eqn:E.
  - apply teqb_spec in E. subst. rewrite (aget_aset_same teqb teqb_spec). reflexivity.
  - rewrite (aget_aset_other teqb teqb_spec); [reflexivity|]. intros ->.
    rewrite (proj2 (teqb_spec t t) eq_refl) in E. discriminate.
Qed.


(* ---------------------------------------------------------------- replacing one thread *)
Lemma T_ok_step s s' ths i th' :
  T_ok s ths -> (forall z, In z ths -> tcond s z -> tcond s' z) -> tcond s' th' -> T_ok s' (set_nth ths i th').
Proof.
  intros HT Hc Hn z Hz. apply in_set_nth in Hz. destruct Hz as [->|Hz]; [exact Hn|]. apply Hc; [exact Hz|apply HT; exact Hz].
Qed.

Lemma D_ok_step s s' ths i th th' :
  D_ok s ths -> nth_error ths i = Some th ->
  (forall t, ((if drains t th' then 1 else 0) + (if aget teqb (drainq s) t then 1 else 0) =
              (if drains t th then 1 else 0) + (if aget teqb (drainq s') t then 1 else 0))%nat) ->
  D_ok s' (set_nth ths i th').
Proof.
  intros HD Hi H t. pose proof (count_set_nth (drains t) ths i th th' Hi) as C. specialize (HD t). specialize (H t).
  destruct (drains t th), (drains t th'), (aget teqb (drainq s) t), (aget teqb (drainq s') t); simpl in *; lia.
Qed.

Lemma one_reader_step ths i th th' :
  one_reader ths -> nth_error ths i = Some th ->
  (forall src, has_src src th' = true -> has_src src th = true) -> one_reader (set_nth ths i th').
Proof.
  intros H1 Hi Hm a b x y src Ha Hb Hx Hy.
  assert (F : forall a x, nth_error (set_nth ths i th') a = Some x -> has_src src x = true ->
                          exists x0, nth_error ths a = Some x0 /\ has_src src x0 = true).
  { intros a0 x0 Hn Hs. destruct (Nat.eq_dec a0 i) as [->|Hne].
    - rewrite (nth_error_set_nth_same ths i th' th Hi) in Hn. inversion Hn; subst x0. exists th. auto.
    - rewrite nth_error_set_nth_other in Hn by exact Hne. exists x0. auto. }
  destruct (F a x Ha Hx) as (x0 & A1 & A2). destruct (F b y Hb Hy) as (y0 & B1 & B2).
  eapply H1; eauto.
Qed.


Definition hk (k : key) (th : thread) : list bmsg := filter (sel k) (hand_of th).
Definition fk (k : key) (th : thread) : list bmsg := filter (sel k) (fwd_of th).

Lemma waiting_alt k s ths :
  waiting k s ths = flat_map (hk k) ths ++ filter (sel k) (queue s (fst k)) ++
                    filter (sel k) (buffered (sb s) (fst k)) ++ flat_map (fk k) ths.
Proof. unfold waiting. rewrite !filter_flat_map. reflexivity. Qed.

Lemma is_started_spec s t : is_started s t = true <-> aget teqb (started (sb s)) t <> None.
Proof. unfold is_started. destruct (aget teqb (started (sb s)) t); split; congruence. Qed.

(* a step that changes neither the box nor what the thread holds *)
Lemma quiet_step s ths log i th th' o :
  WInv (s, ths, log) -> nth_error ths i = Some th ->
  hand_of th' = hand_of th -> fwd_of th' = fwd_of th -> todo th' = todo th ->
  (forall t, drains t th' = drains t th) -> tcond s th' ->
  handoffs o = [] -> arrivals o = [] ->
  WInv (s, set_nth ths i th', log ++ o).
Proof.
  intros [Hb Hq Ht Hd H1 He] Hi Hh Hf Htd Hdr Htc Ho Ha. cbn [wbox wths wlog fst snd] in *.
  constructor; cbn [wbox wths wlog fst snd]; auto.
  - eapply T_ok_step; eauto.
  - eapply D_ok_step; eauto. intros t. rewrite Hdr. reflexivity.
  - eapply one_reader_step; eauto. intros src. unfold has_src, delivers. rewrite Hf, Htd. auto.
  - intros k. rewrite handoffs_app, arrivals_app, Ho, Ha, !app_nil_r. rewrite <- (He k). f_equal.
    rewrite !waiting_alt. f_equal; [|f_equal; f_equal].
    + apply (flat_map_set_nth_same (hk k) ths i th th' Hi). unfold hk. rewrite Hh. reflexivity.
    + apply (flat_map_set_nth_same (fk k) ths i th th' Hi). unfold fk. rewrite Hf. reflexivity.
Qed.

Lemma case_sent s ths log i th t d :
  WInv (s, ths, log) -> nth_error ths i = Some th -> pc th = PSent t d ->
  WInv (s, set_nth ths i (mkTh (if d then PPop t else Idle) (todo th)), log ++ [SForward t]).
Proof.
  intros HW Hi Hp. eapply quiet_step; eauto; unfold hand_of, fwd_of, drains, tcond; cbn [pc todo]; rewrite ?Hp;
    destruct d; try reflexivity; auto.
Qed.

Lemma case_done s ths log i th :
  WInv (s, ths, log) -> nth_error ths i = Some th -> WInv (s, set_nth ths i th, log ++ []).
Proof. intros HW Hi. rewrite (set_nth_id ths i th Hi), app_nil_r. exact HW. Qed.

(* direct hand-over of a message that found its topic started and not draining *)
Lemma case_fwd s ths log i th m :
  WInv (s, ths, log) -> nth_error ths i = Some th -> pc th = PFwd m ->
  WInv (s, set_nth ths i (mkTh Idle (todo th)), log ++ [SHandoff m]).
Proof.
  intros [Hb Hq Ht Hd H1 He] Hi Hp. cbn [wbox wths wlog fst snd] in *.
  pose proof (Ht th (nth_error_In _ _ Hi)) as Hc. unfold tcond in Hc. rewrite Hp in Hc. destruct Hc as [Hst Hnone].
  constructor; cbn [wbox wths wlog fst snd]; auto.
  - eapply T_ok_step; eauto. exact I.
  - eapply D_ok_step; eauto. intros t. unfold drains. cbn [pc]. rewrite Hp. reflexivity.
  - eapply one_reader_step; eauto. intros src. unfold has_src, delivers, fwd_of. cbn [pc todo]. rewrite Hp. simpl.
    intros ->. apply Bool.orb_true_r.
  - intros k. rewrite handoffs_app, arrivals_app. cbn [handoffs arrivals flat_map]. rewrite !app_nil_r, filter_app.
    rewrite <- (He k), !waiting_alt, <- !app_assoc. f_equal.
    destruct (sel k m) eqn:Es.
    + pose proof (sel_topic k m Es) as Etop.
      assert (Hhs : has_src (snd k) th = true) by (eapply has_src_fwd; eauto).
      destruct (flat_map_focus (fk k) ths i th (mkTh Idle (todo th)) Hi (others_no_fwd ths i th k H1 Hi Hhs)) as [F1 F2].
      rewrite F1, F2. unfold fk, fwd_of. cbn [pc]. rewrite Hp. cbn [filter]. rewrite Es.
      assert (Hh0 : forall l, flat_map (hk k) l = filter (sel k) (flat_map hand_of l)).
      { intros l. unfold hk. rewrite filter_flat_map. reflexivity. }
      assert (Hnh : forall l, l = ths \/ l = set_nth ths i (mkTh Idle (todo th)) -> True) by auto.
      rewrite !Hh0.
      rewrite (no_hand_when_none s ths (m_topic m) k Hd Ht Hnone (eq_sym Etop)).
      assert (Hq0 : queue s (fst k) = []) by (unfold queue; rewrite <- Etop, Hnone; reflexivity).
      assert (Hb0 : buffered (sb s) (fst k) = []).
      { apply buffered_started_nil; [exact Hb|]. rewrite <- Etop. apply is_started_spec. exact Hst. }
      rewrite Hq0, Hb0. cbn [filter app].
      assert (Hnew : filter (sel k) (flat_map hand_of (set_nth ths i (mkTh Idle (todo th)))) = []).
      { rewrite filter_flat_map.
        rewrite (flat_map_set_nth_same (fun x => filter (sel k) (hand_of x)) ths i th (mkTh Idle (todo th)) Hi).
        - rewrite <- filter_flat_map. apply (no_hand_when_none s ths (m_topic m) k Hd Ht Hnone (eq_sym Etop)).
        - unfold hand_of. cbn [pc]. rewrite Hp. reflexivity. }
      rewrite Hnew. reflexivity.
    + cbn [filter]. rewrite Es. cbn [app].
      rewrite (flat_map_set_nth_same (hk k) ths i th (mkTh Idle (todo th)) Hi)
        by (unfold hk, hand_of; cbn [pc]; rewrite Hp; reflexivity).
      rewrite (flat_map_set_nth_same (fk k) ths i th (mkTh Idle (todo th)) Hi)
        by (unfold fk, fwd_of; cbn [pc]; rewrite Hp; cbn [filter]; rewrite Es; reflexivity).
      reflexivity.
Qed.


Lemma count_pos {A} (p : A -> bool) (l : list A) i x :
  nth_error l i = Some x -> p x = true -> (1 <= length (filter p l))%nat.
Proof.
  revert i. induction l as [|y l IH]; intros [|i] Hn Hp; simpl in *; try discriminate.
  - inversion Hn; subst y. rewrite Hp. simpl. lia.
  - specialize (IH i Hn Hp). destruct (p y); simpl; lia.
Qed.

(* hand-over of the message taken from the draining queue *)
Lemma case_hand s ths log i th t m :
  WInv (s, ths, log) -> nth_error ths i = Some th -> pc th = PHand t m ->
  WInv (s, set_nth ths i (mkTh (PPop t) (todo th)), log ++ [SHandoff m]).
Proof.
  intros [Hb Hq Ht Hd H1 He] Hi Hp. cbn [wbox wths wlog fst snd] in *.
  pose proof (Ht th (nth_error_In _ _ Hi)) as Hc. unfold tcond in Hc. rewrite Hp in Hc.
  assert (Hdr : drains t th = true) by (unfold drains; rewrite Hp; apply teqb_spec; reflexivity).
  constructor; cbn [wbox wths wlog fst snd]; auto.
  - eapply T_ok_step; eauto. exact I.
  - eapply D_ok_step; eauto. intros t0. unfold drains. cbn [pc]. rewrite Hp. reflexivity.
  - eapply one_reader_step; eauto. intros src. unfold has_src, delivers, fwd_of. cbn [pc todo]. rewrite Hp. auto.
  - intros k. rewrite handoffs_app, arrivals_app. cbn [handoffs arrivals flat_map]. rewrite !app_nil_r, filter_app.
    rewrite <- (He k), !waiting_alt, <- !app_assoc. f_equal.
    rewrite (flat_map_set_nth_same (fk k) ths i th (mkTh (PPop t) (todo th)) Hi)
      by (unfold fk, fwd_of; cbn [pc]; rewrite Hp; reflexivity).
    destruct (sel k m) eqn:Es.
    + pose proof (sel_topic k m Es) as Etop. assert (Hk : fst k = t) by congruence.
      destruct (flat_map_focus (hk k) ths i th (mkTh (PPop t) (todo th)) Hi
                  (others_no_hand s ths i th t k Hd Ht Hi Hdr Hk)) as [F1 F2].
      rewrite F1, F2. unfold hk, hand_of. cbn [pc]. rewrite Hp. cbn [filter]. rewrite Es. reflexivity.
    + cbn [filter]. rewrite Es. cbn [app].
      rewrite (flat_map_set_nth_same (hk k) ths i th (mkTh (PPop t) (todo th)) Hi)
        by (unfold hk, hand_of; cbn [pc]; rewrite Hp; cbn [filter]; rewrite Es; reflexivity).
      reflexivity.
Qed.

(* the drain takes the next message of the queue *)
Lemma case_pop_some s ths log i th t m q :
  WInv (s, ths, log) -> nth_error ths i = Some th -> pc th = PPop t -> aget teqb (drainq s) t = Some (m :: q) ->
  WInv (mkSB (sb s) (aset teqb (drainq s) t q), set_nth ths i (mkTh (PHand t m) (todo th)), log ++ []).
Proof.
  intros [Hb Hq Ht Hd H1 He] Hi Hp Hg. cbn [wbox wths wlog fst snd] in *. rewrite app_nil_r.
  destruct Hq as [Hq1 Hq2].
  assert (Hdr : drains t th = true) by (unfold drains; rewrite Hp; apply teqb_spec; reflexivity).
  assert (Hmt : m_topic m = t) by (eapply Hq2; [exact Hg|left; reflexivity]).
  assert (Hget : forall t0, aget teqb (aset teqb (drainq s) t q) t0 = if teqb t t0 then Some q else aget teqb (drainq s) t0).
  { intros t0. destruct (teqb t t0) eqn:E.
    - apply teqb_spec in E. subst t0. apply (aget_aset_same teqb teqb_spec).
    - apply (aget_aset_other teqb teqb_spec). intros ->. rewrite (proj2 (teqb_spec t t) eq_refl) in E. discriminate. }
  constructor; cbn [wbox wths wlog fst snd sb drainq]; auto.
  - split.
    + intros t0 q0. cbn [drainq]. rewrite Hget. destruct (teqb t t0) eqn:E.
      * apply teqb_spec in E. subst t0. intros _. apply (Hq1 t _ Hg).
      * apply Hq1.
    + intros t0 q0 x. cbn [drainq]. rewrite Hget. destruct (teqb t t0) eqn:E.
      * apply teqb_spec in E. subst t0. intros Hs Hx. inversion Hs; subst q0. eapply Hq2; [exact Hg|right; exact Hx].
      * apply Hq2.
  - eapply T_ok_step; [exact Ht| |].
    + intros z Hz. unfold tcond. destruct (pc z) as [|m0| | |]; auto. cbn [drainq sb]. intros [A B]. split; [exact A|].
      rewrite Hget. destruct (teqb t (m_topic m0)) eqn:E; [|exact B].
      apply teqb_spec in E. rewrite <- E in B. congruence.
    + unfold tcond. cbn [pc]. exact Hmt.
  - eapply D_ok_step; eauto. intros t0. unfold drains. cbn [pc drainq]. rewrite Hp, Hget.
    destruct (teqb t t0) eqn:E; [|reflexivity]. apply teqb_spec in E. subst t0. rewrite Hg. reflexivity.
  - eapply one_reader_step; eauto. intros src. unfold has_src, delivers, fwd_of. cbn [pc todo]. rewrite Hp. auto.
  - intros k. rewrite <- (He k). f_equal. rewrite !waiting_alt. cbn [sb].
    rewrite (flat_map_set_nth_same (fk k) ths i th (mkTh (PHand t m) (todo th)) Hi)
      by (unfold fk, fwd_of; cbn [pc]; rewrite Hp; reflexivity).
    rewrite queue_aset.
    destruct (sel k m) eqn:Es.
    + pose proof (sel_topic k m Es) as Etop. assert (Hk : fst k = t) by congruence.
      destruct (flat_map_focus (hk k) ths i th (mkTh (PHand t m) (todo th)) Hi
                  (others_no_hand s ths i th t k Hd Ht Hi Hdr Hk)) as [F1 F2].
      rewrite F1, F2. unfold hk, hand_of. cbn [pc]. rewrite Hp. cbn [filter]. rewrite Es.
      rewrite Hk, (proj2 (teqb_spec t t) eq_refl). unfold queue. rewrite Hg. cbn [filter]. rewrite Es. reflexivity.
    + rewrite (flat_map_set_nth_same (hk k) ths i th (mkTh (PHand t m) (todo th)) Hi)
        by (unfold hk, hand_of; cbn [pc]; rewrite Hp; cbn [filter]; rewrite Es; reflexivity).
      f_equal. f_equal. destruct (teqb t (fst k)) eqn:E; [|reflexivity].
      apply teqb_spec in E. rewrite <- E. unfold queue. rewrite Hg. cbn [filter]. rewrite Es. reflexivity.
Qed.

(* the drain finds its queue empty: the topic leaves the draining table *)
Lemma case_pop_none s ths log i th t :
  WInv (s, ths, log) -> nth_error ths i = Some th -> pc th = PPop t ->
  (aget teqb (drainq s) t = None \/ aget teqb (drainq s) t = Some []) ->
  WInv (mkSB (sb s) (adel teqb (drainq s) t), set_nth ths i (mkTh Idle (todo th)), log ++ []).
Proof.
  intros [Hb Hq Ht Hd H1 He] Hi Hp Hg. cbn [wbox wths wlog fst snd] in *. rewrite app_nil_r.
  destruct Hq as [Hq1 Hq2].
  assert (Hdr : drains t th = true) by (unfold drains; rewrite Hp; apply teqb_spec; reflexivity).
  assert (Hsome : aget teqb (drainq s) t = Some []).
  { destruct Hg as [Hg|Hg]; [|exact Hg]. exfalso. pose proof (Hd t) as C. rewrite Hg in C.
    pose proof (count_pos (drains t) ths i th Hi Hdr). lia. }
  assert (Hget : forall t0, aget teqb (adel teqb (drainq s) t) t0 = if teqb t t0 then None else aget teqb (drainq s) t0).
  { intros t0. destruct (teqb t t0) eqn:E.
    - apply teqb_spec in E. subst t0. apply (aget_adel_same teqb).
    - apply (aget_adel_other teqb teqb_spec). intros ->. rewrite (proj2 (teqb_spec t t) eq_refl) in E. discriminate. }
  constructor; cbn [wbox wths wlog fst snd sb drainq]; auto.
  - split.
    + intros t0 q0. cbn [drainq]. rewrite Hget. destruct (teqb t t0); [discriminate|apply Hq1].
    + intros t0 q0 x. cbn [drainq]. rewrite Hget. destruct (teqb t t0); [discriminate|apply Hq2].
  - eapply T_ok_step; [exact Ht| |].
    + intros z Hz. unfold tcond. destruct (pc z) as [|m0| | |]; auto. cbn [drainq sb]. intros [A B]. split; [exact A|].
      rewrite Hget. destruct (teqb t (m_topic m0)); [reflexivity|exact B].
    + exact I.
  - eapply D_ok_step; eauto. intros t0. unfold drains. cbn [pc drainq]. rewrite Hp, Hget.
    destruct (teqb t t0) eqn:E; [|reflexivity]. apply teqb_spec in E. subst t0. rewrite Hsome. reflexivity.
  - eapply one_reader_step; eauto. intros src. unfold has_src, delivers, fwd_of. cbn [pc todo]. rewrite Hp. auto.
  - intros k. rewrite <- (He k). f_equal. rewrite !waiting_alt. cbn [sb].
    rewrite (flat_map_set_nth_same (fk k) ths i th (mkTh Idle (todo th)) Hi)
      by (unfold fk, fwd_of; cbn [pc]; rewrite Hp; reflexivity).
    rewrite (flat_map_set_nth_same (hk k) ths i th (mkTh Idle (todo th)) Hi)
      by (unfold hk, hand_of; cbn [pc]; rewrite Hp; reflexivity).
    f_equal. f_equal. unfold queue. cbn [drainq]. rewrite Hget.
    destruct (teqb t (fst k)) eqn:E; [|reflexivity]. apply teqb_spec in E. rewrite <- E, Hsome. reflexivity.
Qed.


Lemma recvs_has src m rest : existsb (fun x => m_src x =? src) (recvs rest) = true ->
  existsb (fun x => m_src x =? src) (recvs (CRecv m :: rest)) = true.
Proof. simpl. intros ->. apply Bool.orb_true_r. Qed.

(* a message finds its topic started and draining: it queues up behind the drain *)
Lemma case_recv_queue s ths log i th m rest q :
  WInv (s, ths, log) -> nth_error ths i = Some th -> pc th = Idle -> todo th = CRecv m :: rest ->
  is_started s (m_topic m) = true -> aget teqb (drainq s) (m_topic m) = Some q ->
  WInv (mkSB (sb s) (aset teqb (drainq s) (m_topic m) (q ++ [m])), set_nth ths i (mkTh Idle rest), log ++ [SArrive m]).
Proof.
  intros [Hb Hq Ht Hd H1 He] Hi Hp Htd Hst Hg. cbn [wbox wths wlog fst snd] in *.
  destruct Hq as [Hq1 Hq2]. set (t := m_topic m) in *.
  assert (Hget : forall t0, aget teqb (aset teqb (drainq s) t (q ++ [m])) t0 =
                            if teqb t t0 then Some (q ++ [m]) else aget teqb (drainq s) t0).
  { intros t0. destruct (teqb t t0) eqn:E.
    - apply teqb_spec in E. subst t0. apply (aget_aset_same teqb teqb_spec).
    - apply (aget_aset_other teqb teqb_spec). intros ->. rewrite (proj2 (teqb_spec t t) eq_refl) in E. discriminate. }
  constructor; cbn [wbox wths wlog fst snd sb drainq]; auto.
  - split.
    + intros t0 q0. cbn [drainq]. rewrite Hget. destruct (teqb t t0) eqn:E.
      * apply teqb_spec in E. subst t0. intros _. exact Hst.
      * apply Hq1.
    + intros t0 q0 x. cbn [drainq]. rewrite Hget. destruct (teqb t t0) eqn:E.
      * apply teqb_spec in E. subst t0. intros Hs Hx. inversion Hs; subst q0. apply in_app_iff in Hx.
        destruct Hx as [Hx|[<-|[]]]; [eapply Hq2; eauto|reflexivity].
      * apply Hq2.
  - eapply T_ok_step; [exact Ht| |exact I].
    intros z Hz. unfold tcond. destruct (pc z) as [|m0| | |]; auto. cbn [drainq sb]. intros [A B]. split; [exact A|].
    rewrite Hget. destruct (teqb t (m_topic m0)) eqn:E; [|exact B].
    apply teqb_spec in E. rewrite <- E in B. congruence.
  - eapply D_ok_step; eauto. intros t0. unfold drains. cbn [pc drainq]. rewrite Hp, Hget.
    destruct (teqb t t0) eqn:E; [|reflexivity]. apply teqb_spec in E. subst t0. rewrite Hg. reflexivity.
  - eapply one_reader_step; eauto. intros src. unfold has_src, delivers, fwd_of. cbn [pc todo]. rewrite Hp, Htd.
    cbn [app]. apply recvs_has.
  - intros k. rewrite handoffs_app, arrivals_app. cbn [handoffs arrivals flat_map]. rewrite !app_nil_r, filter_app.
    rewrite <- (He k), !waiting_alt, <- !app_assoc. cbn [sb]. f_equal.
    rewrite (flat_map_set_nth_same (fk k) ths i th (mkTh Idle rest) Hi)
      by (unfold fk, fwd_of; cbn [pc]; rewrite Hp; reflexivity).
    rewrite (flat_map_set_nth_same (hk k) ths i th (mkTh Idle rest) Hi)
      by (unfold hk, hand_of; cbn [pc]; rewrite Hp; reflexivity).
    f_equal. rewrite queue_aset.
    destruct (sel k m) eqn:Es.
    + pose proof (sel_topic k m Es) as Etop. fold t in Etop. rewrite <- Etop, (proj2 (teqb_spec t t) eq_refl).
      assert (Hb0 : buffered (sb s) t = []).
      { apply buffered_started_nil; [exact Hb|]. apply is_started_spec. exact Hst. }
      assert (Hf0 : flat_map (fk k) ths = []).
      { unfold fk. rewrite <- filter_flat_map. apply (no_fwd_when k s ths Ht). right. rewrite <- Etop, Hg. discriminate. }
      rewrite Hb0, Hf0. unfold queue. rewrite Hg. cbn [filter app]. rewrite filter_app. cbn [filter]. rewrite Es.
      rewrite !app_nil_r. reflexivity.
    + cbn [filter]. rewrite Es, !app_nil_r. f_equal.
      destruct (teqb t (fst k)) eqn:E; [|reflexivity].
      apply teqb_spec in E. rewrite <- E. unfold queue. rewrite Hg, filter_app. cbn [filter]. rewrite Es. apply app_nil_r.
Qed.

(* a message finds its topic started and not draining: the thread will hand it over directly *)
Lemma case_recv_fwd s ths log i th m rest :
  WInv (s, ths, log) -> nth_error ths i = Some th -> pc th = Idle -> todo th = CRecv m :: rest ->
  is_started s (m_topic m) = true -> aget teqb (drainq s) (m_topic m) = None ->
  WInv (s, set_nth ths i (mkTh (PFwd m) rest), log ++ [SArrive m]).
Proof.
  intros [Hb Hq Ht Hd H1 He] Hi Hp Htd Hst Hg. cbn [wbox wths wlog fst snd] in *.
  constructor; cbn [wbox wths wlog fst snd]; auto.
  - eapply T_ok_step; [exact Ht|auto|]. unfold tcond. cbn [pc]. auto.
  - eapply D_ok_step; eauto. intros t0. unfold drains. cbn [pc]. rewrite Hp. reflexivity.
  - eapply one_reader_step; eauto. intros src. unfold has_src, delivers, fwd_of. cbn [pc todo]. rewrite Hp, Htd. auto.
  - intros k. rewrite handoffs_app, arrivals_app. cbn [handoffs arrivals flat_map]. rewrite !app_nil_r, filter_app.
    rewrite <- (He k), !waiting_alt, <- !app_assoc. f_equal.
    rewrite (flat_map_set_nth_same (hk k) ths i th (mkTh (PFwd m) rest) Hi)
      by (unfold hk, hand_of; cbn [pc]; rewrite Hp; reflexivity).
    f_equal. f_equal. f_equal.
    destruct (sel k m) eqn:Es.
    + assert (Hhs : has_src (snd k) th = true) by (eapply has_src_todo; [exact Htd|apply sel_src; exact Es]).
      destruct (flat_map_focus (fk k) ths i th (mkTh (PFwd m) rest) Hi (others_no_fwd ths i th k H1 Hi Hhs)) as [F1 F2].
      rewrite F1, F2. unfold fk, fwd_of. cbn [pc]. rewrite Hp. cbn [filter]. rewrite Es. reflexivity.
    + cbn [filter]. rewrite Es, app_nil_r.
      apply (flat_map_set_nth_same (fk k) ths i th (mkTh (PFwd m) rest) Hi).
      unfold fk, fwd_of. cbn [pc]. rewrite Hp. cbn [filter]. rewrite Es. reflexivity.
Qed.


(* storeOrForward for a topic that has not started: the sequential recv *)
Lemma recv_store b m b' o :
  Inv c b -> aget teqb (started b) (m_topic m) = None -> recv c b m = (b', o) ->
  slossless (flat_map lift_out o) ->
  o = [] /\ started b' = started b /\
  forall t0, buffered b' t0 = buffered b t0 ++ (if on_topic t0 m then [m] else []).
Proof.
  intros HI Est H HL. unfold recv in H. rewrite Est in H.
  destruct (Nat.ltb (maxTopics c) (length (topics_of b (m_src m)))).
  { inversion H; subst. exfalso. apply (HL (SDropped m)). simpl. auto. }
  match type of H with context [add c ?ST m ?e] => set (st := ST) in *; destruct (add c st m e) as [st' o'] eqn:Ea end.
  inversion H; subst b' o; clear H.
  assert (Hfl : fix_logger (var c) = true) by (rewrite Hvar; reflexivity).
  destruct (add_fixed c st m (epoch b) st' o' Hfl Ea) as [(_ & _ & ->)|(_ & -> & Hm & _)].
  { exfalso. apply (HL (SDropped m)). simpl. auto. }
  split; [reflexivity|]. split; [reflexivity|]. intros t0. unfold buffered. cbn [pending].
  destruct (on_topic t0 m) eqn:Et.
  - apply teqb_spec in Et. subst t0. rewrite (aget_aset_same teqb teqb_spec), Hm.
    unfold st. destruct (aget teqb (pending b) (m_topic m)); reflexivity.
  - assert (Hne : t0 <> m_topic m).
    { intros ->. unfold on_topic in Et. rewrite (proj2 (teqb_spec _ _) eq_refl) in Et. discriminate. }
    rewrite (aget_aset_other teqb teqb_spec) by exact Hne. rewrite app_nil_r. reflexivity.
Qed.

Lemma sel_on_topic (k : key) m : on_topic (fst k) m = false -> sel k m = false.
Proof. unfold sel, on_topic. intros ->. reflexivity. Qed.

(* a message for a topic that has not started is buffered (inside the same critical section as the decision) *)
Lemma case_recv_store s ths log i th m rest b' o :
  WInv (s, ths, log) -> nth_error ths i = Some th -> pc th = Idle -> todo th = CRecv m :: rest ->
  is_started s (m_topic m) = false -> recv c (sb s) m = (b', o) ->
  slossless (SArrive m :: flat_map lift_out o) ->
  WInv (mkSB b' (drainq s), set_nth ths i (mkTh Idle rest), log ++ SArrive m :: flat_map lift_out o).
Proof.
  intros [Hb Hq Ht Hd H1 He] Hi Hp Htd Hst Hr HL. cbn [wbox wths wlog fst snd] in *.
  assert (Hns : aget teqb (started (sb s)) (m_topic m) = None).
  { unfold is_started in Hst. destruct (aget teqb (started (sb s)) (m_topic m)); [discriminate|reflexivity]. }
  assert (HL' : slossless (flat_map lift_out o)).
  { intros x Hx. apply HL. right. exact Hx. }
  destruct (recv_store (sb s) m b' o Hb Hns Hr HL') as (Ho & Hstd & Hbuf). subst o. cbn [flat_map].
  assert (Hiss : forall t0, is_started (mkSB b' (drainq s)) t0 = is_started s t0).
  { intros t0. unfold is_started. cbn [sb]. rewrite Hstd. reflexivity. }
  destruct Hq as [Hq1 Hq2].
  constructor; cbn [wbox wths wlog fst snd sb drainq]; auto.
  - eapply recv_inv; eauto.
  - split; [|exact Hq2]. intros t0 q0 Hg. rewrite Hiss. eapply Hq1; eauto.
  - eapply T_ok_step; [exact Ht| |exact I].
    intros z Hz. unfold tcond. destruct (pc z) as [|m0| | |]; auto. rewrite Hiss. auto.
  - eapply D_ok_step; eauto. intros t0. unfold drains. cbn [pc drainq]. rewrite Hp. reflexivity.
  - eapply one_reader_step; eauto. intros src. unfold has_src, delivers, fwd_of. cbn [pc todo]. rewrite Hp, Htd.
    cbn [app]. apply recvs_has.
  - intros k. rewrite handoffs_app, arrivals_app. cbn [handoffs arrivals flat_map]. rewrite !app_nil_r, filter_app.
    rewrite <- (He k), !waiting_alt, <- !app_assoc. cbn [sb]. f_equal.
    rewrite (flat_map_set_nth_same (fk k) ths i th (mkTh Idle rest) Hi)
      by (unfold fk, fwd_of; cbn [pc]; rewrite Hp; reflexivity).
    rewrite (flat_map_set_nth_same (hk k) ths i th (mkTh Idle rest) Hi)
      by (unfold hk, hand_of; cbn [pc]; rewrite Hp; reflexivity).
    f_equal. change (queue (mkSB b' (drainq s)) (fst k)) with (queue s (fst k)). f_equal.
    rewrite Hbuf, filter_app, <- app_assoc. f_equal.
    destruct (sel k m) eqn:Es.
    + pose proof (sel_topic k m Es) as Etop.
      assert (Hon : on_topic (fst k) m = true) by (unfold on_topic; apply teqb_spec; exact Etop).
      rewrite Hon. cbn [filter]. rewrite Es.
      assert (Hf0 : flat_map (fk k) ths = []).
      { unfold fk. rewrite <- filter_flat_map. apply (no_fwd_when k s ths Ht). left. rewrite <- Etop. exact Hst. }
      rewrite Hf0. reflexivity.
    + cbn [filter]. rewrite Es, app_nil_r.
      destruct (on_topic (fst k) m); cbn [filter]; rewrite ?Es; reflexivity.
Qed.


(* the critical section of Send: the topic is started, what was buffered moves to the draining queue *)
Lemma case_send s ths log i th t rest s' p o :
  WInv (s, ths, log) -> nth_error ths i = Some th -> pc th = Idle -> todo th = CSend t :: rest ->
  send_enter s t = (s', p, o) ->
  WInv (s', set_nth ths i (mkTh p rest), log ++ o).
Proof.
  intros [Hb Hq Ht Hd H1 He] Hi Hp Htd Hs. cbn [wbox wths wlog fst snd] in *.
  destruct Hq as [Hq1 Hq2].
  unfold send_enter in Hs.
  set (b := sb s) in *.
  set (b1 := mkBox (adel teqb (pending b) t) (aset teqb (started b) t (epoch b))
                   (match aget teqb (pending b) t with Some x => release (inflight b) t (senders x) | None => inflight b end)
                   (epoch b) (lastGC b)) in *.
  assert (Hmsgs : match aget teqb (pending b) t with Some x => s_msgs x | None => [] end = buffered b t) by reflexivity.
  rewrite Hmsgs in Hs.
  assert (Hb1 : Inv c b1).
  { unfold b1. pose proof (drop_topic_inv c b t (aset teqb (started b) t (epoch b)) Hb) as D.
    apply D. intros t' Hne. left. apply (aget_aset_other teqb teqb_spec). exact Hne. }
  assert (Hst1 : forall sx t0, sb sx = b1 -> is_started sx t0 = if teqb t t0 then true else is_started s t0).
  { intros sx t0 Hsx. unfold is_started. rewrite Hsx. unfold b1. cbn [started]. fold b. destruct (teqb t t0) eqn:E.
    - apply teqb_spec in E. subst t0. rewrite (aget_aset_same teqb teqb_spec). reflexivity.
    - rewrite (aget_aset_other teqb teqb_spec); [reflexivity|]. intros ->.
      rewrite (proj2 (teqb_spec t t) eq_refl) in E. discriminate. }
  assert (Hmono : forall sx t0, sb sx = b1 -> is_started s t0 = true -> is_started sx t0 = true).
  { intros sx t0 Hsx H. rewrite (Hst1 sx t0 Hsx). destruct (teqb t t0); auto. }
  assert (Hbuf1 : forall t0, buffered b1 t0 = if teqb t t0 then [] else buffered b t0).
  { intros t0. unfold buffered, b1. cbn [pending]. destruct (teqb t t0) eqn:E.
    - apply teqb_spec in E. subst t0. rewrite (aget_adel_same teqb). reflexivity.
    - rewrite (aget_adel_other teqb teqb_spec); [reflexivity|]. intros ->.
      rewrite (proj2 (teqb_spec t t) eq_refl) in E. discriminate. }
  assert (Hbt : forall x, In x (buffered b t) -> m_topic x = t).
  { intros x Hx. unfold buffered in Hx. destruct (aget teqb (pending b) t) as [st|] eqn:E; [|destruct Hx].
    eapply (I_topic _ _ Hb); eauto. }
  assert (Hstarted_nobuf : is_started s t = true -> buffered b t = []).
  { intros H. apply buffered_started_nil; [exact Hb|]. apply is_started_spec. exact H. }
  (* the new draining table, uniformly *)
  assert (Hcases : exists dq d,
     s' = mkSB b1 dq /\ p = PSent t d /\ o = [] /\
     (forall t0, match aget teqb dq t0 with Some q' => q' | None => [] end =
                 if teqb t t0 then queue s t ++ buffered b t else queue s t0) /\
     (forall t0, (if aget teqb dq t0 then 1 else 0)%nat =
                 ((if aget teqb (drainq s) t0 then 1 else 0) + (if d then (if teqb t t0 then 1 else 0) else 0))%nat) /\
     (forall t0, teqb t t0 = false -> aget teqb dq t0 = aget teqb (drainq s) t0) /\
     (buffered b t = [] -> dq = drainq s)).
  { destruct (buffered b t) as [|m0 ms] eqn:Eb.
    - exists (drainq s), false. inversion Hs; subst.
      split; [reflexivity|]. split; [reflexivity|]. split; [reflexivity|]. split; [|split; [|split]].
      + intros t0. destruct (teqb t t0) eqn:E; [|reflexivity]. apply teqb_spec in E. subst t0. rewrite app_nil_r. reflexivity.
      + intros t0. lia.
      + reflexivity.
      + reflexivity.
    - assert (Hget : forall q' t0, aget teqb (aset teqb (drainq s) t q') t0 = if teqb t t0 then Some q' else aget teqb (drainq s) t0).
      { intros q' t0. destruct (teqb t t0) eqn:E.
        - apply teqb_spec in E. subst t0. apply (aget_aset_same teqb teqb_spec).
        - apply (aget_aset_other teqb teqb_spec). intros ->. rewrite (proj2 (teqb_spec t t) eq_refl) in E. discriminate. }
      destruct (aget teqb (drainq s) t) as [q|] eqn:Eq; inversion Hs; subst.
      + exists (aset teqb (drainq s) t (q ++ m0 :: ms)), false.
        split; [reflexivity|]. split; [reflexivity|]. split; [reflexivity|]. split; [|split; [|split]].
        * intros t0. rewrite Hget. destruct (teqb t t0) eqn:E; [|reflexivity]. unfold queue. rewrite Eq. reflexivity.
        * intros t0. rewrite Hget. destruct (teqb t t0) eqn:E; [|lia]. apply teqb_spec in E. subst t0. rewrite Eq. reflexivity.
        * intros t0 E. rewrite Hget, E. reflexivity.
        * discriminate.
      + exists (aset teqb (drainq s) t (m0 :: ms)), true.
        split; [reflexivity|]. split; [reflexivity|]. split; [reflexivity|]. split; [|split; [|split]].
        * intros t0. rewrite Hget. destruct (teqb t t0) eqn:E; [|reflexivity]. unfold queue. rewrite Eq. reflexivity.
        * intros t0. rewrite Hget. destruct (teqb t t0) eqn:E; [|lia]. apply teqb_spec in E. subst t0. rewrite Eq. reflexivity.
        * intros t0 E. rewrite Hget, E. reflexivity.
        * discriminate. }
  destruct Hcases as (dq & d & -> & -> & -> & Hqueue & Hcount & Hother & Hsame). rewrite app_nil_r.
  constructor; cbn [wbox wths wlog fst snd sb drainq]; auto.
  - split.
    + intros t0 q0 Hg. cbn [drainq] in Hg. rewrite (Hst1 (mkSB b1 dq) t0 eq_refl). destruct (teqb t t0) eqn:E; [reflexivity|].
      rewrite (Hother t0 E) in Hg. eapply Hq1; eauto.
    + intros t0 q0 x Hg Hx. cbn [drainq] in Hg. pose proof (Hqueue t0) as Q. rewrite Hg in Q.
      destruct (teqb t t0) eqn:E.
      * apply teqb_spec in E. subst t0. rewrite Q in Hx. apply in_app_iff in Hx. destruct Hx as [Hx|Hx]; [|apply Hbt; exact Hx].
        unfold queue in Hx. destruct (aget teqb (drainq s) t) as [q1|] eqn:E1; [|destruct Hx]. eapply Hq2; eauto.
      * rewrite (Hother t0 E) in Hg. eapply Hq2; eauto.
  - eapply T_ok_step; [exact Ht| |exact I].
    intros z Hz. unfold tcond. destruct (pc z) as [|m0| | |]; auto. cbn [drainq]. intros [A B].
    split; [apply (Hmono (mkSB b1 dq) _ eq_refl A)|].
    destruct (teqb t (m_topic m0)) eqn:E.
    + apply teqb_spec in E. rewrite <- E in A. rewrite (Hsame (Hstarted_nobuf A)). exact B.
    + rewrite (Hother _ E). exact B.
  - eapply D_ok_step; eauto. intros t0. cbn [drainq]. rewrite (Hcount t0). unfold drains. cbn [pc]. rewrite Hp.
    destruct d; destruct (teqb t t0); destruct (aget teqb (drainq s) t0); simpl; lia.
  - eapply one_reader_step; eauto. intros src. unfold has_src, delivers, fwd_of. cbn [pc todo]. rewrite Hp, Htd. auto.
  - intros k. rewrite <- (He k). f_equal. rewrite !waiting_alt. cbn [sb].
    rewrite (flat_map_set_nth_same (fk k) ths i th (mkTh (PSent t d) rest) Hi)
      by (unfold fk, fwd_of; cbn [pc]; rewrite Hp; reflexivity).
    rewrite (flat_map_set_nth_same (hk k) ths i th (mkTh (PSent t d) rest) Hi)
      by (unfold hk, hand_of; cbn [pc]; rewrite Hp; reflexivity).
    f_equal. rewrite !app_assoc. f_equal. fold b.
    unfold queue at 1. cbn [drainq]. rewrite (Hqueue (fst k)), Hbuf1.
    destruct (teqb t (fst k)) eqn:E; [|reflexivity].
    apply teqb_spec in E. rewrite <- E. rewrite filter_app. cbn [filter]. rewrite app_nil_r. reflexivity.
Qed.


(* ---------------------------------------------------------------- every step, every schedule *)
Lemma wstep_inv w i : WInv w -> slossless (wlog (wstep c w i)) -> WInv (wstep c w i).
Proof.
  destruct w as [[s ths] log]. intros HW. unfold wstep. destruct (nth_error ths i) as [th|] eqn:Hi; [|auto].
  unfold tstep. destruct (pc th) as [|m|t d|t|t m] eqn:Hp.
  - destruct (todo th) as [|[m|t] rest] eqn:Htd.
    + intros _. apply case_done; assumption.
    + unfold recv_enter. destruct (is_started s (m_topic m)) eqn:Est.
      * destruct (aget teqb (drainq s) (m_topic m)) as [q|] eqn:Eq; intros _.
        -- apply case_recv_queue with (th := th); assumption.
        -- apply case_recv_fwd with (th := th); assumption.
      * destruct (recv c (sb s) m) as [b' o] eqn:Er. cbn [wlog snd]. intros HL.
        apply slossless_app in HL. destruct HL as [_ HL].
        apply case_recv_store with (th := th); assumption.
    + destruct (send_enter s t) as [[s' p] o] eqn:Es. intros _. apply case_send with (s := s) (th := th) (t := t); assumption.
  - intros _. apply case_fwd; assumption.
  - intros _. apply case_sent; assumption.
  - destruct (aget teqb (drainq s) t) as [[|m q]|] eqn:Eq; intros _.
    + apply case_pop_none; auto.
    + apply case_pop_some; assumption.
    + apply case_pop_none; auto.
  - intros _. apply case_hand; assumption.
Qed.

Lemma wstep_log w i : exists o, wlog (wstep c w i) = wlog w ++ o.
Proof.
  destruct w as [[s ths] log]. unfold wstep. destruct (nth_error ths i) as [th|]; [|exists []; cbn; rewrite app_nil_r; reflexivity].
  destruct (tstep c s th) as [[s' th'] o]. exists o. reflexivity.
Qed.

Lemma wrun_log sched : forall w, exists o, wlog (fold_left (wstep c) sched w) = wlog w ++ o.
Proof.
  induction sched as [|i sched IH]; intros w; cbn [fold_left]; [exists []; rewrite app_nil_r; reflexivity|].
  destruct (IH (wstep c w i)) as [o2 H2]. destruct (wstep_log w i) as [o1 H1].
  exists (o1 ++ o2). rewrite H2, H1, app_assoc. reflexivity.
Qed.

Lemma wrun_inv sched : forall w, WInv w -> slossless (wlog (fold_left (wstep c) sched w)) -> WInv (fold_left (wstep c) sched w).
Proof.
  induction sched as [|i sched IH]; intros w HW HL; cbn [fold_left] in *; [exact HW|].
  apply IH; [|exact HL]. apply wstep_inv; [exact HW|].
  destruct (wrun_log sched (wstep c w i)) as [o Ho]. rewrite Ho in HL. apply slossless_app in HL. tauto.
Qed.

Lemma idle_flat_map {B} (f : thread -> list B) scripts :
  (forall l, f (mkTh Idle l) = []) -> flat_map f (map (mkTh Idle) scripts) = [].
Proof. intros H. induction scripts as [|l scripts IH]; simpl; [reflexivity|]. rewrite H, IH. reflexivity. Qed.

Lemma WInv_start scripts : one_reader (map (mkTh Idle) scripts) -> WInv (start scripts).
Proof.
  intros H1. unfold start. constructor; cbn [wbox wths wlog fst snd sbox0 sb drainq].
  - apply Inv_box0.
  - split; intros t q; cbn; discriminate.
  - intros th Hin. apply in_map_iff in Hin. destruct Hin as (l & <- & _). exact I.
  - intros t. cbn [aget]. clear H1. induction scripts as [|l scripts IH]; [reflexivity|]. simpl. apply IH.
  - exact H1.
  - intros k. cbn [handoffs arrivals flat_map filter app]. unfold waiting. cbn [sb drainq].
    rewrite (idle_flat_map hand_of) by reflexivity. rewrite (idle_flat_map fwd_of) by reflexivity. reflexivity.
Qed.

(* C14: at every point of every run in which nothing is shed, per topic and sender: the hand-overs so far followed by
   what is waiting (in the hands of the draining Send, in its queue, buffered, in the hands of the delivering goroutine)
   are exactly the arrivals so far, in arrival order - each message exactly once. *)
Theorem exactly_once_in_order scripts sched :
  one_reader (map (mkTh Idle) scripts) ->
  let w := wrun c scripts sched in
  slossless (wlog w) ->
  forall t src, filter (sel (t, src)) (handoffs (wlog w)) ++ waiting (t, src) (wbox w) (wths w) =
                filter (sel (t, src)) (arrivals (wlog w)).
Proof.
  intros H1 w HL t src. pose proof (wrun_inv sched (start scripts) (WInv_start scripts H1) HL) as HW.
  exact (W_eq _ HW (t, src)).
Qed.

Lemma idle_no_drains t l : (forall th, In th l -> pc th = Idle) -> length (filter (drains t) l) = 0%nat.
Proof.
  induction l as [|th l IH]; intros H; [reflexivity|]. simpl.
  assert (E : drains t th = false) by (unfold drains; rewrite (H th (or_introl eq_refl)); reflexivity).
  rewrite E. apply IH. intros x Hx. apply H. right. exact Hx.
Qed.

(* once every call has returned nothing is in anybody's hands, no topic is draining, and a started topic has nothing buffered *)
Theorem quiescent_complete scripts sched :
  one_reader (map (mkTh Idle) scripts) ->
  let w := wrun c scripts sched in
  slossless (wlog w) -> forallb finished (wths w) = true ->
  forall t src,
    (forall t0, aget teqb (drainq (wbox w)) t0 = None) /\
    filter (sel (t, src)) (handoffs (wlog w)) ++ filter (sel (t, src)) (buffered (sb (wbox w)) t) =
      filter (sel (t, src)) (arrivals (wlog w)) /\
    (is_started (wbox w) t = true ->
       buffered (sb (wbox w)) t = [] /\ filter (sel (t, src)) (handoffs (wlog w)) = filter (sel (t, src)) (arrivals (wlog w))).
Proof.
  intros H1 w HL Hfin t src. pose proof (wrun_inv sched (start scripts) (WInv_start scripts H1) HL) as HW.
  subst w. set (w := wrun c scripts sched) in *. change (fold_left (wstep c) sched (start scripts)) with w in HW.
  clearbody w. destruct HW as [Hb Hq Ht Hd Ho He].
  assert (Hidle : forall th, In th (wths w) -> pc th = Idle).
  { intros th Hin. rewrite forallb_forall in Hfin. specialize (Hfin th Hin). unfold finished in Hfin.
    destruct (pc th); try discriminate. reflexivity. }
  assert (Hnone : forall t0, aget teqb (drainq (wbox w)) t0 = None).
  { intros t0. pose proof (Hd t0) as C. destruct (aget teqb (drainq (wbox w)) t0); [|reflexivity]. exfalso.
    pose proof (idle_no_drains t0 (wths w) Hidle) as Z. rewrite Z in C. discriminate. }
  assert (Hw : waiting (t, src) (wbox w) (wths w) = filter (sel (t, src)) (buffered (sb (wbox w)) t)).
  { unfold waiting. cbn [fst]. unfold queue. rewrite Hnone. cbn [filter app].
    assert (Z1 : flat_map hand_of (wths w) = []).
    { apply flat_map_nil. intros j z Hz. unfold hand_of. rewrite (Hidle z (nth_error_In _ _ Hz)). reflexivity. }
    assert (Z2 : flat_map fwd_of (wths w) = []).
    { apply flat_map_nil. intros j z Hz. unfold fwd_of. rewrite (Hidle z (nth_error_In _ _ Hz)). reflexivity. }
    rewrite Z1, Z2. cbn [filter app]. apply app_nil_r. }
  pose proof (He (t, src)) as E. rewrite Hw in E.
  split; [exact Hnone|]. split; [exact E|].
  intros Hst. assert (B : buffered (sb (wbox w)) t = []).
  { apply buffered_started_nil; [exact Hb|]. apply is_started_spec. exact Hst. }
  split; [exact B|]. rewrite B in E. cbn [filter] in E. rewrite app_nil_r in E. exact E.
Qed.

(* the repaired Box never panics, whatever the limits *)
Theorem never_panics scripts sched : ~ In SPanic (wlog (wrun c scripts sched)).
Proof.
  unfold wrun. assert (G : forall sched w, ~ In SPanic (wlog w) -> ~ In SPanic (wlog (fold_left (wstep c) sched w))).
  { clear sched. induction sched as [|i sched IH]; intros w Hw; cbn [fold_left]; [exact Hw|].
    apply IH. destruct w as [[s ths] log]. unfold wstep. destruct (nth_error ths i) as [th|]; [|exact Hw].
    destruct (tstep c s th) as [[s' th'] o] eqn:Et. cbn [wlog snd] in *. intros Hin. apply in_app_iff in Hin.
    destruct Hin as [Hin|Hin]; [auto|]. clear Hw.
    unfold tstep in Et. destruct (pc th).
    - destruct (todo th) as [|[m|t] rest].
      + inversion Et; subst. destruct Hin.
      + unfold recv_enter in Et. destruct (is_started s (m_topic m)).
        * destruct (aget teqb (drainq s) (m_topic m)); inversion Et; subst; destruct Hin as [Hin|[]]; discriminate.
        * destruct (recv c (sb s) m) as [b' o'] eqn:Er. inversion Et; subst. destruct Hin as [Hin|Hin]; [discriminate|].
          unfold recv in Er. destruct (aget teqb (started (sb s)) (m_topic m)).
          { inversion Er; subst. simpl in Hin. destruct Hin as [Hin|[]]; discriminate. }
          destruct (Nat.ltb (maxTopics c) (length (topics_of (sb s) (m_src m)))).
          { inversion Er; subst. simpl in Hin. destruct Hin as [Hin|[]]; discriminate. }
          match type of Er with context [add c ?ST m ?e] => destruct (add c ST m e) as [st' o''] eqn:Ea end.
          inversion Er; subst.
          assert (Hfl : fix_logger (var c) = true) by (rewrite Hvar; reflexivity).
          destruct (add_fixed c _ m _ st' o' Hfl Ea) as [(_ & _ & ->)|(_ & -> & _)]; simpl in Hin;
            [destruct Hin as [Hin|[]]; discriminate|destruct Hin].
      + unfold send_enter in Et.
        destruct (match aget teqb (pending (sb s)) t with Some x => s_msgs x | None => [] end);
          [|destruct (aget teqb (drainq s) t)]; inversion Et; subst; destruct Hin.
    - inversion Et; subst. destruct Hin as [Hin|[]]; discriminate.
    - inversion Et; subst. destruct Hin as [Hin|[]]; discriminate.
    - destruct (aget teqb (drainq s) t) as [[|m q]|]; inversion Et; subst; destruct Hin.
    - inversion Et; subst. destruct Hin as [Hin|[]]; discriminate. }
  apply G. simpl. auto.
Qed.


(* ---------------------------------------------------------------- arrival order = the order in which the reader of the
   connection calls HandleMessage *)
Definition from (src : N) (l : list bmsg) : list bmsg := filter (fun m => m_src m =? src) l.
Definition rk (src : N) (th : thread) : list bmsg := from src (recvs (todo th)).

Lemma tstep_todo s th s' th' o :
  tstep c s th = (s', th', o) ->
  (forall src, has_src src th' = true -> has_src src th = true) /\
  ((todo th' = todo th /\ arrivals o = []) \/
   (exists m, todo th = CRecv m :: todo th' /\ arrivals o = [m]) \/
   (exists t, todo th = CSend t :: todo th' /\ arrivals o = [])).
Proof.
  unfold tstep. destruct (pc th) as [|m|t d|t|t m] eqn:Hp.
  - destruct (todo th) as [|[m|t] rest] eqn:Htd.
    + intros H; inversion H; subst. split; [auto|]. left. auto.
    + unfold recv_enter. intros H.
      assert (G : todo th' = rest /\ arrivals o = [m] /\ (forall src, has_src src th' = true -> has_src src th = true)).
      { unfold has_src, delivers, fwd_of. rewrite Hp, Htd. cbn [app].
        destruct (is_started s (m_topic m)).
        - destruct (aget teqb (drainq s) (m_topic m)); inversion H; subst; cbn [todo pc arrivals flat_map app];
            (split; [reflexivity|]); (split; [reflexivity|]); intros src; [apply recvs_has|auto].
        - destruct (recv c (sb s) m) as [b' o'] eqn:Er. inversion H; subst. cbn [todo pc].
          split; [reflexivity|]. split; [|intros src; apply recvs_has].
          cbn [arrivals flat_map].
          assert (Z : forall l, flat_map (fun x => match x with SArrive m0 => [m0] | _ => [] end) (flat_map lift_out l) = []).
          { induction l as [|x l IH]; [reflexivity|]. cbn [flat_map]. rewrite flat_map_app, IH.
            destruct x; reflexivity. }
          rewrite Z. reflexivity. }
      destruct G as (G1 & G2 & G3). split; [exact G3|]. right. left. exists m. rewrite G1. auto.
    + intros H. destruct (send_enter s t) as [[s1 p] o1] eqn:Es. inversion H; subst. cbn [todo].
      assert (o = []).
      { unfold send_enter in Es.
        destruct (match aget teqb (pending (sb s)) t with Some x => s_msgs x | None => [] end);
          [|destruct (aget teqb (drainq s) t)]; inversion Es; reflexivity. }
      subst o. split.
      * intros src. unfold has_src, delivers, fwd_of. rewrite Hp, Htd. cbn [pc todo].
        assert (fwd_of (mkTh p rest) = []).
        { unfold send_enter in Es. unfold fwd_of. cbn [pc].
          destruct (match aget teqb (pending (sb s)) t with Some x => s_msgs x | None => [] end);
            [|destruct (aget teqb (drainq s) t)]; inversion Es; reflexivity. }
        unfold fwd_of in H0. cbn [pc] in H0. rewrite H0. auto.
      * right. right. exists t. auto.
  - intros H; inversion H; subst. cbn [todo]. split; [|left; auto].
    intros src. unfold has_src, delivers, fwd_of. cbn [pc todo]. rewrite Hp. simpl. intros ->. apply Bool.orb_true_r.
  - intros H; inversion H; subst. cbn [todo]. split; [|left; auto].
    intros src. unfold has_src, delivers, fwd_of. cbn [pc todo]. rewrite Hp. destruct d; auto.
  - destruct (aget teqb (drainq s) t) as [[|m q]|]; intros H; inversion H; subst; cbn [todo]; (split; [|left; auto]);
      intros src; unfold has_src, delivers, fwd_of; cbn [pc todo]; rewrite Hp; auto.
  - intros H; inversion H; subst. cbn [todo]. split; [|left; auto].
    intros src. unfold has_src, delivers, fwd_of. cbn [pc todo]. rewrite Hp. auto.
Qed.

Lemma rk_has src th : rk src th <> [] -> has_src src th = true.
Proof.
  unfold rk, from, has_src, delivers. intros H. rewrite existsb_app. apply Bool.orb_true_iff. right.
  induction (recvs (todo th)) as [|m l IH]; simpl in *; [congruence|].
  destruct (m_src m =? src); [reflexivity|]. simpl. apply IH. exact H.
Qed.

Definition A_ok (scripts : list (list call)) (w : world) : Prop :=
  one_reader (wths w) /\
  forall src, from src (arrivals (wlog w)) ++ flat_map (rk src) (wths w) = flat_map (fun l => from src (recvs l)) scripts.

Lemma A_step scripts w i : A_ok scripts w -> A_ok scripts (wstep c w i).
Proof.
  destruct w as [[s ths] log]. intros [H1 HA]. cbn [wths wlog fst snd] in *. unfold wstep, A_ok.
  destruct (nth_error ths i) as [th|] eqn:Hi; [|split; assumption].
  destruct (tstep c s th) as [[s' th'] o] eqn:Et. unfold A_ok. cbn [wths wlog fst snd].
  destruct (tstep_todo s th s' th' o Et) as [Hm Hcase].
  split; [eapply one_reader_step; eauto|].
  intros src. rewrite <- (HA src), arrivals_app. unfold from at 1. rewrite filter_app. fold (from src (arrivals log)).
  rewrite <- app_assoc. f_equal.
  destruct Hcase as [[E1 E2]|[(m & E1 & E2)|(t & E1 & E2)]]; rewrite E2.
  - cbn [filter app]. apply (flat_map_set_nth_same (rk src) ths i th th' Hi). unfold rk. rewrite E1. reflexivity.
  - cbn [filter]. destruct (m_src m =? src) eqn:Es.
    + assert (Hhs : has_src src th = true).
      { apply rk_has. unfold rk, from. rewrite E1. cbn [recvs flat_map app filter]. rewrite Es. discriminate. }
      assert (Ho : forall j z, j <> i -> nth_error ths j = Some z -> rk src z = []).
      { intros j z Hj Hz. destruct (rk src z) eqn:Ez; [reflexivity|]. exfalso. apply Hj.
        apply (H1 j i z th src Hz Hi); [apply rk_has; rewrite Ez; discriminate|exact Hhs]. }
      destruct (flat_map_focus (rk src) ths i th th' Hi Ho) as [F1 F2]. rewrite F1, F2.
      unfold rk, from. rewrite E1. cbn [recvs flat_map app filter]. rewrite Es. reflexivity.
    + cbn [app]. apply (flat_map_set_nth_same (rk src) ths i th th' Hi).
      unfold rk, from. rewrite E1. cbn [recvs flat_map app filter]. rewrite Es. reflexivity.
  - cbn [filter app]. apply (flat_map_set_nth_same (rk src) ths i th th' Hi). unfold rk. rewrite E1. reflexivity.
Qed.

(* per sender: the arrivals so far followed by the messages of the calls its reader has still to make are the
   messages of the reader's script, in order *)
Theorem arrival_order_is_call_order scripts sched :
  one_reader (map (mkTh Idle) scripts) ->
  let w := wrun c scripts sched in
  forall src, from src (arrivals (wlog w)) ++ flat_map (rk src) (wths w) = flat_map (fun l => from src (recvs l)) scripts.
Proof.
  intros H1 w. assert (G : forall sched w0, A_ok scripts w0 -> A_ok scripts (fold_left (wstep c) sched w0)).
  { clear. induction sched as [|i sched IH]; intros w0 H; cbn [fold_left]; [exact H|]. apply IH. apply A_step. exact H. }
  apply G. split; [exact H1|]. intros src. cbn [wths wlog start fst snd arrivals flat_map from filter app].
  clear. induction scripts as [|l scripts IH]; [reflexivity|]. cbn [map flat_map]. rewrite IH. reflexivity.
Qed.

End Facts.

(* ---------------------------------------------------------------- C15 under concurrency: the bookkeeping invariant of the
   sequential model (limits respected give or take one, in-flight sets = topics with buffered messages, ...) holds at every
   point of every interleaving, whether or not traffic is shed *)
Section Bounds.
Variable c : cfg.
Hypothesis Hvar : var c = v_fixed.

Lemma tstep_box_inv s th s' th' o : Inv c (sb s) -> tstep c s th = (s', th', o) -> Inv c (sb s').
Proof.
  intros HI. unfold tstep. destruct (pc th) as [|m|t d|t|t m].
  - destruct (todo th) as [|[m|t] rest].
    + intros H; inversion H; subst; exact HI.
    + unfold recv_enter. destruct (is_started s (m_topic m)).
      * destruct (aget teqb (drainq s) (m_topic m)); intros H; inversion H; subst; exact HI.
      * destruct (recv c (sb s) m) as [b' o'] eqn:Er. intros H; inversion H; subst. cbn [sb]. eapply recv_inv; eauto.
    + unfold send_enter. set (b := sb s).
      assert (Hb1 : Inv c (mkBox (adel teqb (pending b) t) (aset teqb (started b) t (epoch b))
                     (match aget teqb (pending b) t with Some x => release (inflight b) t (senders x) | None => inflight b end)
                     (epoch b) (lastGC b))).
      { pose proof (drop_topic_inv c b t (aset teqb (started b) t (epoch b)) HI) as D.
        apply D. intros t' Hne. left. apply (aget_aset_other teqb teqb_spec). exact Hne. }
      destruct (match aget teqb (pending b) t with Some x => s_msgs x | None => [] end);
        [|destruct (aget teqb (drainq s) t)]; intros H; inversion H; subst; exact Hb1.
  - intros H; inversion H; subst; exact HI.
  - intros H; inversion H; subst; exact HI.
  - destruct (aget teqb (drainq s) t) as [[|m q]|]; intros H; inversion H; subst; exact HI.
  - intros H; inversion H; subst; exact HI.
Qed.

Theorem concurrent_box_inv scripts sched : Inv c (sb (wbox (wrun c scripts sched))).
Proof.
  unfold wrun. assert (G : forall sched w, Inv c (sb (wbox w)) -> Inv c (sb (wbox (fold_left (wstep c) sched w)))).
  { clear sched. induction sched as [|i sched IH]; intros w Hw; cbn [fold_left]; [exact Hw|].
    apply IH. destruct w as [[s ths] log]. unfold wstep. destruct (nth_error ths i) as [th|]; [|exact Hw].
    destruct (tstep c s th) as [[s' th'] o] eqn:Et. cbn [wbox fst] in *. eapply tstep_box_inv; eauto. }
  apply G. apply Inv_box0.
Qed.

Theorem concurrent_bounds scripts sched :
  let b := sb (wbox (wrun c scripts sched)) in
  (forall t st src, aget teqb (pending b) t = Some st -> (nsrc src (s_msgs st) <= S (limit c))%nat) /\
  (forall src, (length (topics_of b src) <= S (maxTopics c))%nat) /\
  (forall src t, In t (topics_of b src) -> exists st, aget teqb (pending b) t = Some st /\ (1 <= count_of st src)%nat) /\
  (forall t st, aget teqb (pending b) t = Some st -> aget teqb (started b) t = None).
Proof.
  intros b. pose proof (concurrent_box_inv scripts sched) as [Ic It Il Id _ _]. fold b in Ic, It, Il, Id.
  split; [|split; [|split]].
  - intros t st src Hg. destruct (Ic t st src Hg) as [A B]. lia.
  - intros src. apply It.
  - exact Il.
  - exact Id.
Qed.
End Bounds.

(* ---------------------------------------------------------------- the hypotheses are satisfiable *)
Fixpoint pairwise_disjoint (l : list (list N)) : bool :=
  match l with
  | [] => true
  | x :: rest => forallb (fun y => forallb (fun a => negb (existsb (N.eqb a) y)) x) rest && pairwise_disjoint rest
  end.
Definition srcs_of (th : thread) : list N := map m_src (delivers th).

Lemma has_src_in src th : has_src src th = true <-> In src (srcs_of th).
Proof.
  unfold has_src, srcs_of. rewrite existsb_exists. split.
  - intros (m & Hm & E). apply N.eqb_eq in E. subst src. apply in_map. exact Hm.
  - intros H. apply in_map_iff in H. destruct H as (m & <- & Hm). exists m. split; [exact Hm|apply N.eqb_refl].
Qed.

Lemma pairwise_disjoint_sound ths : pairwise_disjoint (map srcs_of ths) = true -> one_reader ths.
Proof.
  induction ths as [|th ths IH]; intros H i j x y src Hi Hj Hx Hy.
  - destruct i; discriminate.
  - cbn [map pairwise_disjoint] in H. apply andb_prop in H. destruct H as [H0 H1].
    assert (D : forall z, In z ths -> In src (srcs_of th) -> In src (srcs_of z) -> False).
    { intros z Hz A B. rewrite forallb_forall in H0. specialize (H0 (srcs_of z) (in_map srcs_of ths z Hz)).
      rewrite forallb_forall in H0. specialize (H0 src A). apply Bool.negb_true_iff in H0.
      assert (existsb (N.eqb src) (srcs_of z) = true) by (apply existsb_exists; exists src; split; [exact B|apply N.eqb_refl]).
      congruence. }
    apply has_src_in in Hx. apply has_src_in in Hy.
    destruct i as [|i], j as [|j]; cbn [nth_error] in Hi, Hj.
    + reflexivity.
    + inversion Hi; subst x. exfalso. eapply D; eauto using nth_error_In.
    + inversion Hj; subst y. exfalso. eapply D; eauto using nth_error_In.
    + f_equal. apply (IH H1 i j x y src Hi Hj); apply has_src_in; assumption.
Qed.

Definition Ts : topic := [7].
Definition Ms (src k : N) : bmsg := mkMsg src Ts [k].
Definition cex : cfg := mkCfg 100 50 6 v_fixed.
(* a reader delivering three messages of sender 1, a reader delivering one of sender 2, the local party sending twice;
   the schedule lets two messages be buffered, starts the topic, lets the third and the fourth message arrive while
   the Send is draining *)
Definition ex_scripts : list (list call) :=
  [[CRecv (Ms 1 1); CRecv (Ms 1 2); CRecv (Ms 1 3); CRecv (Ms 1 5)]; [CRecv (Ms 2 4)]; [CSend Ts; CSend Ts]].
Definition ex_sched : list nat := [0; 0; 2; 2; 2; 0; 1; 2; 2; 2; 0; 2; 2; 2; 2; 2; 2; 2; 0; 2; 2]%nat.

Lemma sync_example :
  let w := wrun cex ex_scripts ex_sched in
  one_reader (map (mkTh Idle) ex_scripts) /\ slossless (wlog w) /\ forallb finished (wths w) = true /\
  handoffs (wlog w) = [Ms 1 1; Ms 1 2; Ms 1 3; Ms 2 4; Ms 1 5] /\
  arrivals (wlog w) = [Ms 1 1; Ms 1 2; Ms 1 3; Ms 2 4; Ms 1 5] /\ is_started (wbox w) Ts = true.
Proof.
  split; [apply pairwise_disjoint_sound; vm_compute; reflexivity|].
  split.
  { intros x Hx. vm_compute in Hx.
    repeat (destruct Hx as [<-|Hx]; [exact I|]). destruct Hx. }
  vm_compute. repeat split; reflexivity.
Qed.
