(* msg.Box (msg/msgbox.go) at lock granularity: concurrent HandleMessage and Send calls (C14).
   A thread is a program counter; one step of a thread is the code between two consecutive lock boundaries
   (the yield points the build tag `verif` puts into msgbox.go: after the started-check, after the in-flight
   count, after markTopicForSender, between the read-locked and the write-locked lookup, before add; in Send
   after the critical section and before every drained hand-over).  Buffered-message stores are heap objects:
   a receive that looked its store up keeps the pointer while a Send may already have detached it.
   The garbage collector is not part of this model (no clock ticks during the schedules considered). *)
Require Import TSS.Base.Base TSS.Box.Model.
From Coq Require Import Arith.

Record cstored := mkCS { c_msgs : list bmsg; c_count : list (N * nat) }.
Record cbox := mkCB { objs : list cstored;                 (* heap: object id = position *)
                      cpend : list (topic * nat);          (* pendingMessages: topic -> object id *)
                      cstart : list topic;                 (* startedSending (keys) *)
                      cinfl : list (N * list topic) }.
Definition cbox0 := mkCB [] [] [] [].

Inductive pc :=
| RCheck (m : bmsg)               (* hasStartedSending; forward when started *)
| RCount (m : bmsg)               (* read the sender's in-flight count *)
| RMark (m : bmsg)                (* markTopicForSender *)
| RLookup (m : bmsg)              (* read-locked lookup of the store *)
| RCreate (m : bmsg)              (* write-locked lookup-or-create *)
| RAdd (m : bmsg) (o : nat)       (* storedMessages.add on the store found *)
| SBegin (t : topic)              (* critical section of Send *)
| SForward (t : topic) (l : list bmsg)   (* ForwardSend *)
| SDrain (t : topic) (l : list bmsg)     (* hand over the next detached message *)
| Fin.

Definition ccount (st : cstored) (src : N) : nat :=
  match aget N.eqb (c_count st) src with Some n => n | None => 0 end.
Definition ctopics (b : cbox) (src : N) : list topic :=
  match aget N.eqb (cinfl b) src with Some l => l | None => [] end.
Definition getobj (b : cbox) (o : nat) : cstored := nth o (objs b) (mkCS [] []).
Fixpoint setobj (l : list cstored) (o : nat) (s : cstored) : list cstored :=
  match l, o with
  | [], _ => []
  | _ :: t, O => s :: t
  | x :: t, S o' => x :: setobj t o' s
  end.

Inductive cout := CHandoff (m : bmsg) | CForward (t : topic).

Section Conc.
Variable limit : nat.
Variable maxTopics : nat.

Definition tstep (b : cbox) (p : pc) : cbox * pc * list cout :=
  match p with
  | RCheck m => if tmem (m_topic m) (cstart b) then (b, Fin, [CHandoff m]) else (b, RCount m, [])
  | RCount m => if Nat.ltb maxTopics (length (ctopics b (m_src m))) then (b, Fin, []) else (b, RMark m, [])
  | RMark m =>
      (mkCB (objs b) (cpend b) (cstart b) (aset N.eqb (cinfl b) (m_src m) (tadd (m_topic m) (ctopics b (m_src m)))),
       RLookup m, [])
  | RLookup m =>
      match aget teqb (cpend b) (m_topic m) with
      | Some o => (b, RAdd m o, [])
      | None => (b, RCreate m, [])
      end
  | RCreate m =>
      match aget teqb (cpend b) (m_topic m) with
      | Some o => (b, RAdd m o, [])
      | None => let o := length (objs b) in
                (mkCB (objs b ++ [mkCS [] []]) (aset teqb (cpend b) (m_topic m) o) (cstart b) (cinfl b), RAdd m o, [])
      end
  | RAdd m o =>
      let st := getobj b o in
      let n := ccount st (m_src m) in
      if Nat.ltb limit n then (b, Fin, [])
      else (mkCB (setobj (objs b) o (mkCS (c_msgs st ++ [m]) (aset N.eqb (c_count st) (m_src m) (S n))))
                 (cpend b) (cstart b) (cinfl b), Fin, [])
  | SBegin t =>
      let so := aget teqb (cpend b) t in
      let msgs := match so with Some o => c_msgs (getobj b o) | None => [] end in
      let infl := match so with Some o => release (cinfl b) t (map fst (c_count (getobj b o))) | None => cinfl b end in
      (mkCB (objs b) (adel teqb (cpend b) t) (tadd t (cstart b)) infl, SForward t msgs, [])
  | SForward t l => (b, match l with [] => Fin | _ => SDrain t l end, [CForward t])
  | SDrain t l =>
      match l with
      | [] => (b, Fin, [])
      | m :: rest =>
          (* the drained message goes through storeOrForward again: the topic has started, so it is handed over *)
          (b, match rest with [] => Fin | _ => SDrain t rest end, [CHandoff m])
      end
  | Fin => (b, Fin, [])
  end.

Fixpoint set_nth {A} (l : list A) (i : nat) (x : A) : list A :=
  match l, i with
  | [], _ => []
  | _ :: t, O => x :: t
  | y :: t, S i' => y :: set_nth t i' x
  end.

(* one scheduler grant: thread i runs up to its next lock boundary *)
Definition cstep (st : cbox * list pc * list cout) (i : nat) : cbox * list pc * list cout :=
  let '(b, ths, log) := st in
  match nth_error ths i with
  | None => st
  | Some p => let '(b', p', o) := tstep b p in (b', set_nth ths i p', log ++ o)
  end.

Definition crun (ths : list pc) (sched : list nat) : cbox * list pc * list cout :=
  fold_left cstep sched (cbox0, ths, []).
End Conc.

Definition handoffs_of (log : list cout) : list bmsg :=
  flat_map (fun x => match x with CHandoff m => [m] | _ => [] end) log.
Definition cbuffered (b : cbox) (t : topic) : list bmsg :=
  match aget teqb (cpend b) t with Some o => c_msgs (getobj b o) | None => [] end.
