(* What the pinned upstream msg.Box did (variant v_tree), by computation; and non-vacuity examples. *)
Require Import TSS.Base.Base TSS.Box.Model TSS.Box.Assoc TSS.Box.Inv TSS.Box.Bounded TSS.Box.Handoff.

Definition ctree (lim maxt : nat) (e : N) := mkCfg lim maxt e v_tree.
Definition cfix (lim maxt : nat) (e : N) := mkCfg lim maxt e v_fixed.
Definition T (i : N) : topic := [i].
Definition M (src i k : N) : bmsg := mkMsg src (T i) [k].

Definition has_panic (o : list out) : bool := existsb (fun x => match x with OPanic => true | _ => false end) o.
Definition handoffs (o : list out) : list bmsg := flat_map (fun x => match x with Handoff m => [m] | _ => [] end) o.

(* (a) upstream: the (limit+2)-th buffered message of a sender panics (nil logger) *)
Lemma shed_tree_refuted :
  has_panic (snd (run (ctree 2 10 6) box0 [Recv (M 1 0 0); Recv (M 1 0 1); Recv (M 1 0 2); Recv (M 1 0 3)])) = true.
Proof. reflexivity. Qed.
Lemma shed_fixed :
  has_panic (snd (run (cfix 2 10 6) box0 [Recv (M 1 0 0); Recv (M 1 0 1); Recv (M 1 0 2); Recv (M 1 0 3)])) = false.
Proof. reflexivity. Qed.

(* (d) upstream: finished topics keep counting against the sender: with maxTopics = 1, after three topics
   that each started, the message on the fourth topic is silently dropped (Send on it hands over nothing) *)
Definition finished_topics : list op :=
  [Recv (M 1 0 0); Send (T 0); Recv (M 1 1 0); Send (T 1); Recv (M 1 2 0); Send (T 2); Recv (M 1 3 0); Send (T 3)].
Lemma release_tree_refuted :
  handoffs (snd (run (ctree 100 1 6) box0 finished_topics)) = [M 1 0 0; M 1 1 0].
Proof. reflexivity. Qed.
Lemma release_fixed :
  handoffs (snd (run (cfix 100 1 6) box0 finished_topics)) = [M 1 0 0; M 1 1 0; M 1 2 0; M 1 3 0].
Proof. reflexivity. Qed.

(* (b)+(c) upstream: data of a topic that never starts is never discarded, however many epochs pass *)
Definition stale_ops : list op :=
  [Recv (M 1 0 0)] ++ repeat Tick 20 ++ [Send (T 9)] ++ repeat Tick 20 ++ [Send (T 9)].
Lemma expiry_tree_refuted :
  buffered (fst (run (ctree 100 10 6) box0 stale_ops)) (T 0) = [M 1 0 0].
Proof. reflexivity. Qed.
Lemma expiry_fixed :
  buffered (fst (run (cfix 100 10 6) box0 stale_ops)) (T 0) = [] /\
  topics_of (fst (run (cfix 100 10 6) box0 stale_ops)) 1 = [].
Proof. split; reflexivity. Qed.

(* non-vacuity of the sequential exactly-once theorem: a lossless run with buffering, hand-off, late arrivals *)
Definition seq_ops : list op :=
  [Recv (M 1 0 0); Recv (M 2 0 1); Recv (M 1 5 7); Send (T 0); Recv (M 1 0 2); Tick; Recv (M 2 5 8)].
Example seq_nonvacuous :
  lossless (snd (run (cfix 100 10 6) box0 seq_ops)) /\
  handed (T 0) (snd (run (cfix 100 10 6) box0 seq_ops)) = [M 1 0 0; M 2 0 1; M 1 0 2] /\
  buffered (fst (run (cfix 100 10 6) box0 seq_ops)) (T 5) = [M 1 5 7; M 2 5 8].
Proof.
  split; [|split; reflexivity].
  intros x Hx. vm_compute in Hx. repeat (destruct Hx as [<-|Hx]; [exact I|]). destruct Hx.
Qed.
