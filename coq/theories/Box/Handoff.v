(* C14, sequential half: when operations do not overlap, every received message is handed over exactly
   once and in arrival order, as long as nothing is shed (limits) or discarded (expiry). *)
Require Import TSS.Base.Base TSS.Box.Model TSS.Box.Assoc TSS.Box.Inv TSS.Box.Bounded.
From Coq Require Import Arith ZifyN ZifyNat ZifyBool.

Definition on_topic (t : topic) (m : bmsg) : bool := teqb (m_topic m) t.

(* hand-overs of topic t, in order *)
Definition handed (t : topic) (o : list out) : list bmsg :=
  flat_map (fun x => match x with Handoff m => if on_topic t m then [m] else [] | _ => [] end) o.
(* messages received for topic t, in arrival order *)
Definition received (t : topic) (ops : list op) : list bmsg :=
  flat_map (fun x => match x with Recv m => if on_topic t m then [m] else [] | _ => [] end) ops.
Definition buffered (b : box) (t : topic) : list bmsg :=
  match aget teqb (pending b) t with Some st => s_msgs st | None => [] end.
(* nothing was shed or discarded *)
Definition lossless (o : list out) : Prop :=
  forall x, In x o -> match x with Dropped _ | Discard _ | OPanic => False | _ => True end.

Lemma handed_app t o1 o2 : handed t (o1 ++ o2) = handed t o1 ++ handed t o2.
Proof. unfold handed. apply flat_map_app. Qed.

Lemma handed_map_handoff t l : handed t (map Handoff l) = filter (on_topic t) l.
Proof.
  induction l as [|m l IH]; simpl; [reflexivity|]. unfold handed in *. simpl.
  destruct (on_topic t m); simpl; rewrite IH; reflexivity.
Qed.

Lemma lossless_app o1 o2 : lossless (o1 ++ o2) <-> lossless o1 /\ lossless o2.
Proof.
  unfold lossless. split.
  - intros H. split; intros x Hx; apply H; apply in_app_iff; [left|right]; exact Hx.
  - intros [H1 H2] x Hx. apply in_app_iff in Hx. destruct Hx as [Hx|Hx]; [apply H1|apply H2]; exact Hx.
Qed.

Section Fixed.
Variable c : cfg.
Hypothesis Hvar : var c = v_fixed.

Lemma filter_all (t : topic) (l : list bmsg) :
  (forall m, In m l -> m_topic m = t) -> filter (on_topic t) l = l.
Proof.
  induction l as [|m l IH]; simpl; intros H; [reflexivity|].
  unfold on_topic at 1. rewrite (proj2 (teqb_spec (m_topic m) t)) by (apply H; left; reflexivity).
  f_equal. apply IH. intros x Hx. apply H. right; exact Hx.
Qed.

Lemma filter_none (t t0 : topic) (l : list bmsg) :
  t0 <> t -> (forall m, In m l -> m_topic m = t0) -> filter (on_topic t) l = [].
Proof.
  intros Hne. induction l as [|m l IH]; simpl; intros H; [reflexivity|].
  unfold on_topic at 1. destruct (teqb (m_topic m) t) eqn:E.
  - apply teqb_spec in E. rewrite (H m (or_introl eq_refl)) in E. congruence.
  - apply IH. intros x Hx. apply H. right; exact Hx.
Qed.

(* a lossless sweep discards nothing, so it leaves every buffer as it was *)
Lemma sweep1_lossless b o t t0 :
  lossless (snd (sweep1 (b, o) t)) -> buffered (fst (sweep1 (b, o) t)) t0 = buffered b t0 /\
  handed t0 (snd (sweep1 (b, o) t)) = handed t0 o.
Proof.
  unfold sweep1, buffered. destruct (aget teqb (pending b) t) as [st|] eqn:E; simpl; [|auto].
  intros HL. apply lossless_app in HL. destruct HL as [_ HL].
  assert (Hnil : s_msgs st = []).
  { destruct (s_msgs st) as [|m l]; [reflexivity|]. exfalso. apply (HL (Discard m)). left; reflexivity. }
  split.
  - destruct (bytes_dec t0 t) as [->|Hne].
    + rewrite (aget_adel_same teqb), E, Hnil. reflexivity.
    + rewrite (aget_adel_other teqb teqb_spec) by exact Hne. reflexivity.
  - rewrite Hnil. simpl. rewrite app_nil_r. reflexivity.
Qed.

Lemma sweep1_out_mono b o t : exists o', snd (sweep1 (b, o) t) = o ++ o'.
Proof.
  unfold sweep1. destruct (aget teqb (pending b) t); simpl; [eauto|exists []; rewrite app_nil_r; reflexivity].
Qed.

Lemma sweep_fold_out_mono del : forall b o, exists o', snd (fold_left sweep1 del (b, o)) = o ++ o'.
Proof.
  induction del as [|t del IH]; cbn [fold_left]; intros b o; [exists []; rewrite app_nil_r; reflexivity|].
  destruct (sweep1 (b, o) t) as [b1 o1] eqn:E. destruct (sweep1_out_mono b o t) as [o' Ho]. rewrite E in Ho.
  simpl in Ho. subst o1. destruct (IH b1 (o ++ o')) as [o'' Ho'']. exists (o' ++ o''). rewrite Ho'', app_assoc. reflexivity.
Qed.

Lemma sweep_fold_lossless del : forall b o t0,
  lossless (snd (fold_left sweep1 del (b, o))) ->
  buffered (fst (fold_left sweep1 del (b, o))) t0 = buffered b t0 /\
  handed t0 (snd (fold_left sweep1 del (b, o))) = handed t0 o.
Proof.
  induction del as [|t del IH]; cbn [fold_left]; intros b o t0 HL; [auto|].
  destruct (sweep1 (b, o) t) as [b1 o1] eqn:E.
  destruct (sweep_fold_out_mono del b1 o1) as [o' Ho'].
  assert (HL1 : lossless o1). { rewrite Ho' in HL. apply lossless_app in HL. tauto. }
  pose proof (sweep1_lossless b o t t0) as A. rewrite E in A. simpl in A. destruct (A HL1) as [A1 A2].
  destruct (IH b1 o1 t0 HL) as [B1 B2]. rewrite B1, B2. auto.
Qed.

Lemma gc_lossless b b' o t0 :
  gc c b = (b', o) -> lossless o -> buffered b' t0 = buffered b t0 /\ handed t0 o = [].
Proof.
  unfold gc. destruct (gc_gate c b); [|intros H; inversion H; subst; auto].
  destruct (fold_left sweep1 (expired_pending c b ++ expired_started c b) (b, [])) as [b1 o1] eqn:E.
  intros H HL. inversion H; subst b' o; clear H.
  pose proof (sweep_fold_lossless (expired_pending c b ++ expired_started c b) b [] t0) as A.
  rewrite E in A. simpl in A. destruct (A HL) as [A1 A2]. unfold buffered in *. simpl. auto.
Qed.

(* one step: hand-overs so far ++ buffer = messages received so far, per topic *)
Lemma step_conservation b op b' o t :
  Inv c b -> step c b op = (b', o) -> lossless o ->
  handed t o ++ buffered b' t = buffered b t ++ received t [op].
Proof.
  intros HI H HL. destruct op as [m| |t1|]; simpl in H.
  - (* Recv *)
    unfold received. simpl. rewrite app_nil_r. unfold recv in H.
    destruct (aget teqb (started b) (m_topic m)) as [e|] eqn:Est.
    + inversion H; subst b' o. unfold handed. simpl. rewrite app_nil_r.
      destruct (on_topic t m) eqn:Et; [|simpl; rewrite app_nil_r; reflexivity].
      apply teqb_spec in Et. subst t. unfold buffered.
      destruct (aget teqb (pending b) (m_topic m)) as [st|] eqn:Ep; [|reflexivity].
      rewrite (I_disj _ _ HI _ _ Ep) in Est. discriminate.
    + destruct (Nat.ltb (maxTopics c) (length (topics_of b (m_src m)))).
      { inversion H; subst. exfalso. apply (HL (Dropped m)). left; reflexivity. }
      match type of H with context [add c ?ST m ?e] => set (st := ST) in *; destruct (add c st m e) as [st' o'] eqn:Ea end.
      inversion H; subst b' o; clear H.
      assert (Hfl : fix_logger (var c) = true) by (rewrite Hvar; reflexivity).
      destruct (add_fixed c st m (epoch b) st' o' Hfl Ea) as [(_ & _ & ->)|(_ & -> & Hm & _)].
      { exfalso. apply (HL (Dropped m)). left; reflexivity. }
      simpl. unfold buffered. cbn [pending]. destruct (on_topic t m) eqn:Et.
      * apply teqb_spec in Et. subst t. rewrite (aget_aset_same teqb teqb_spec), Hm.
        unfold st. destruct (aget teqb (pending b) (m_topic m)); reflexivity.
      * assert (Hne : t <> m_topic m).
        { intros ->. unfold on_topic in Et. rewrite (proj2 (teqb_spec _ _) eq_refl) in Et. discriminate. }
        rewrite (aget_aset_other teqb teqb_spec) by exact Hne. rewrite app_nil_r. reflexivity.
  - inversion H; subst. unfold received. simpl. rewrite app_nil_r. reflexivity.
  - (* Send *)
    unfold received. simpl. rewrite app_nil_r. unfold send in H.
    match type of H with (let '(b2, o) := gc c ?B1 in _) = _ => set (b1 := B1) in * end.
    destruct (gc c b1) as [b2 o2] eqn:Eg. inversion H; subst b' o; clear H.
    assert (HL2 : lossless o2).
    { intros x Hx. apply HL. right. apply in_app_iff. right. exact Hx. }
    destruct (gc_lossless b1 b2 o2 t Eg HL2) as [G1 G2].
    change (Forward t1 :: map Handoff ?l ++ o2) with ([Forward t1] ++ map Handoff l ++ o2).
    rewrite !handed_app, G2, app_nil_r, handed_map_handoff, G1. simpl.
    unfold buffered, b1. cbn [pending].
    destruct (bytes_dec t t1) as [->|Hne].
    + rewrite (aget_adel_same teqb), app_nil_r.
      destruct (aget teqb (pending b) t1) as [st|] eqn:Ep; [|reflexivity].
      apply filter_all. intros m Hm. eapply (I_topic _ _ HI); eauto.
    + rewrite (aget_adel_other teqb teqb_spec) by exact Hne.
      destruct (aget teqb (pending b) t1) as [st|] eqn:Ep; [|reflexivity].
      rewrite (filter_none t t1); [reflexivity|congruence|]. intros m Hm. eapply (I_topic _ _ HI); eauto.
  - inversion H; subst. unfold received. simpl. rewrite app_nil_r. reflexivity.
Qed.

Lemma received_app t a b : received t (a ++ b) = received t a ++ received t b.
Proof. unfold received. apply flat_map_app. Qed.

Theorem run_conservation ops : forall b b' o t,
  Inv c b -> run c b ops = (b', o) -> lossless o ->
  handed t o ++ buffered b' t = buffered b t ++ received t ops.
Proof.
  induction ops as [|op ops IH]; cbn [run]; intros b b' o t HI H HL.
  - inversion H; subst. unfold received. simpl. rewrite app_nil_r. reflexivity.
  - destruct (step c b op) as [b1 o1] eqn:E1. destruct (run c b1 ops) as [b2 o2] eqn:E2.
    inversion H; subst b' o; clear H. apply lossless_app in HL. destruct HL as [HL1 HL2].
    pose proof (step_conservation b op b1 o1 t HI E1 HL1) as S1.
    pose proof (IH b1 b2 o2 t (step_inv c Hvar b op b1 o1 HI E1) E2 HL2) as S2.
    rewrite handed_app. change (op :: ops) with ([op] ++ ops). rewrite received_app.
    rewrite <- app_assoc, S2, app_assoc, S1, app_assoc. reflexivity.
Qed.

(* C14 (sequential): from the empty box, hand-overs ++ what is still buffered = arrivals, per topic, in order *)
Theorem sequential_exactly_once_in_order ops b o t :
  run c box0 ops = (b, o) -> lossless o ->
  handed t o ++ buffered b t = received t ops.
Proof.
  intros H HL. pose proof (run_conservation ops box0 b o t (Inv_box0 c) H HL) as A. exact A.
Qed.
End Fixed.
