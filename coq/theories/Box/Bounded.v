(* C15 theorems about the sequential Box model (repaired variant), for arbitrary operation lists. *)
Require Import TSS.Base.Base TSS.Box.Model TSS.Box.Assoc TSS.Box.Inv.
From Coq Require Import Arith ZifyN ZifyNat ZifyBool.

Definition no_panic (o : list out) : Prop := ~ In OPanic o.

Section Fixed.
Variable c : cfg.
Hypothesis Hvar : var c = v_fixed.

Lemma reach_inv ops b o : run c box0 ops = (b, o) -> Inv c b.
Proof. apply run_inv; [exact Hvar|apply Inv_box0]. Qed.

(* --- bounds --- *)
Theorem box_bounds ops b o : run c box0 ops = (b, o) ->
  (forall t st src, aget teqb (pending b) t = Some st -> (nsrc src (s_msgs st) <= S (limit c))%nat) /\
  (forall src, (length (topics_of b src) <= S (maxTopics c))%nat).
Proof.
  intros H. pose proof (reach_inv _ _ _ H) as [Ic It _ _ _ _]. split.
  - intros t st src Hg. destruct (Ic t st src Hg) as [A B]. lia.
  - intros src. apply It.
Qed.

(* --- sheds by dropping, never by failing --- *)
Lemma sweep1_out b o t : no_panic o -> no_panic (snd (sweep1 (b, o) t)).
Proof.
  unfold sweep1, no_panic. destruct (aget teqb (pending b) t); simpl; auto.
  intros H Hin. apply in_app_iff in Hin. destruct Hin as [Hin|Hin]; [auto|].
  apply in_map_iff in Hin. destruct Hin as (x & Hx & _). discriminate.
Qed.

Lemma sweep_fold_out del : forall b o, no_panic o -> no_panic (snd (fold_left sweep1 del (b, o))).
Proof.
  induction del as [|t del IH]; cbn [fold_left]; intros b o H; [exact H|].
  destruct (sweep1 (b, o) t) as [b1 o1] eqn:E. apply IH.
  pose proof (sweep1_out b o t H) as A. rewrite E in A. exact A.
Qed.

Lemma gc_out b : no_panic (snd (gc c b)).
Proof.
  unfold gc. destruct (gc_gate c b); [|simpl; intros []].
  destruct (fold_left sweep1 (expired_pending c b ++ expired_started c b) (b, [])) as [b1 o1] eqn:E. simpl.
  pose proof (sweep_fold_out (expired_pending c b ++ expired_started c b) b [] (fun x => x)) as A.
  rewrite E in A. exact A.
Qed.

Lemma step_out b op : no_panic (snd (step c b op)).
Proof.
  destruct op as [m| |t|]; simpl; try (intros []).
  - unfold recv. destruct (aget teqb (started b) (m_topic m)); [simpl; intros [H|[]]; discriminate|].
    destruct (Nat.ltb (maxTopics c) (length (topics_of b (m_src m)))); [simpl; intros [H|[]]; discriminate|].
    match goal with |- context [add c ?st m ?e] => destruct (add c st m e) as [st' o'] eqn:Ea end.
    simpl. unfold add in Ea. rewrite Hvar in Ea. simpl in Ea.
    match type of Ea with (if ?x then _ else _) = _ => destruct x end; inversion Ea; subst;
      [intros [H|[]]; discriminate|intros []].
  - unfold send. destruct (gc c _) as [b2 o2] eqn:Eg. simpl.
    intros [H|Hin]; [discriminate|]. apply in_app_iff in Hin. destruct Hin as [Hin|Hin].
    + apply in_map_iff in Hin. destruct Hin as (x & Hx & _). discriminate.
    + pose proof (gc_out (mkBox (adel teqb (pending b) t) (aset teqb (started b) t (epoch b))
         match aget teqb (pending b) t with
         | Some s => if fix_release (var c) then release (inflight b) t (senders s) else inflight b
         | None => inflight b end (epoch b) (lastGC b))) as A.
      rewrite Eg in A. apply A. exact Hin.
Qed.

Theorem box_no_panic ops : forall b b' o, run c b ops = (b', o) -> no_panic o.
Proof.
  induction ops as [|op ops IH]; simpl; intros b b' o H; [inversion H; subst; intros []|].
  destruct (step c b op) as [b1 o1] eqn:E1. destruct (run c b1 ops) as [b2 o2] eqn:E2.
  inversion H; subst. intros Hin. apply in_app_iff in Hin. destruct Hin as [Hin|Hin].
  - pose proof (step_out b op) as A. rewrite E1 in A. exact (A Hin).
  - exact (IH _ _ _ E2 Hin).
Qed.

(* --- release when the topic starts --- *)
Lemma sweep1_keeps_none b o t t0 :
  aget teqb (pending b) t0 = None -> aget teqb (pending (fst (sweep1 (b, o) t))) t0 = None.
Proof.
  intros H. unfold sweep1. destruct (aget teqb (pending b) t) eqn:E; simpl; [|exact H].
  destruct (bytes_dec t0 t) as [->|Hne]; [apply (aget_adel_same teqb)|].
  rewrite (aget_adel_other teqb teqb_spec) by exact Hne. exact H.
Qed.

Lemma sweep_fold_keeps_none del : forall b o t0,
  aget teqb (pending b) t0 = None -> aget teqb (pending (fst (fold_left sweep1 del (b, o)))) t0 = None.
Proof.
  induction del as [|t del IH]; cbn [fold_left]; intros b o t0 H; [exact H|].
  destruct (sweep1 (b, o) t) as [b1 o1] eqn:E. apply IH.
  pose proof (sweep1_keeps_none b o t t0 H) as A. rewrite E in A. exact A.
Qed.

Lemma gc_keeps_none b t0 :
  aget teqb (pending b) t0 = None -> aget teqb (pending (fst (gc c b))) t0 = None.
Proof.
  intros H. unfold gc. destruct (gc_gate c b); [|exact H].
  destruct (fold_left sweep1 (expired_pending c b ++ expired_started c b) (b, [])) as [b1 o1] eqn:E. simpl.
  pose proof (sweep_fold_keeps_none (expired_pending c b ++ expired_started c b) b [] t0 H) as A.
  rewrite E in A. exact A.
Qed.

Theorem release_on_send b t b' o :
  Inv c b -> send c b t = (b', o) ->
  aget teqb (pending b') t = None /\ forall src, ~ In t (topics_of b' src).
Proof.
  intros HI H. pose proof (send_inv c Hvar b t b' o HI H) as HI'.
  assert (Hn : aget teqb (pending b') t = None).
  { unfold send in H. destruct (gc c _) as [b2 o2] eqn:Eg. inversion H; subst b' o.
    match type of Eg with gc c ?B1 = _ => pose proof (gc_keeps_none B1 t) as A end.
    rewrite Eg in A. apply A. simpl. apply (aget_adel_same teqb). }
  split; [exact Hn|]. intros src Hin. destruct (I_live _ _ HI' src t Hin) as (st & Hg & _). congruence.
Qed.

(* --- release on expiry --- *)
Lemma sweep1_started_none b o t t0 :
  aget teqb (started b) t0 = None -> aget teqb (started (fst (sweep1 (b, o) t))) t0 = None.
Proof.
  intros H. unfold sweep1. destruct (aget teqb (pending b) t) eqn:E; simpl;
  (destruct (bytes_dec t0 t) as [->|Hne]; [apply (aget_adel_same teqb)|
   rewrite (aget_adel_other teqb teqb_spec) by exact Hne; exact H]).
Qed.

Lemma sweep1_hits b o t :
  aget teqb (pending (fst (sweep1 (b, o) t))) t = None /\ aget teqb (started (fst (sweep1 (b, o) t))) t = None.
Proof.
  unfold sweep1. destruct (aget teqb (pending b) t) eqn:E; simpl.
  - split; apply (aget_adel_same teqb).
  - split; [exact E|apply (aget_adel_same teqb)].
Qed.

Lemma sweep_fold_hits del : forall b o t,
  (In t del \/ (aget teqb (pending b) t = None /\ aget teqb (started b) t = None)) ->
  aget teqb (pending (fst (fold_left sweep1 del (b, o)))) t = None /\
  aget teqb (started (fst (fold_left sweep1 del (b, o)))) t = None.
Proof.
  induction del as [|t0 del IH]; cbn [fold_left]; intros b o t H.
  - destruct H as [[]|H]. exact H.
  - destruct (sweep1 (b, o) t0) as [b1 o1] eqn:E. apply IH.
    destruct H as [[->|Hin]|[Hp Hs]].
    + right. pose proof (sweep1_hits b o t) as A. rewrite E in A. exact A.
    + left. exact Hin.
    + right. pose proof (sweep1_keeps_none b o t0 t Hp) as A. pose proof (sweep1_started_none b o t0 t Hs) as B.
      rewrite E in A, B. auto.
Qed.

Theorem release_on_expiry b t st b' o :
  Inv c b -> gc c b = (b', o) ->
  expireE c <= epoch b - lastGC b ->                        (* the collector is due *)
  aget teqb (pending b) t = Some st -> expireE c < epoch b - s_last st ->   (* the topic is stale *)
  aget teqb (pending b') t = None /\ aget teqb (started b') t = None /\ forall src, ~ In t (topics_of b' src).
Proof.
  intros HI H Hdue Hg Hold. pose proof (gc_inv c b b' o HI H) as HI'.
  unfold gc in H. unfold gc_gate in H. rewrite Hvar in H. cbn [fix_gate v_fixed] in H.
  replace (epoch b - lastGC b <? expireE c) with false in H by (symmetry; apply N.ltb_ge; lia).
  cbn [negb] in H.
  destruct (fold_left sweep1 (expired_pending c b ++ expired_started c b) (b, [])) as [b1 o1] eqn:E.
  inversion H; subst b' o; clear H. cbn [pending started].
  assert (Hin : In t (expired_pending c b ++ expired_started c b)).
  { apply in_app_iff. left. unfold expired_pending. rewrite Hvar. cbn [fix_units v_fixed].
    apply in_map_iff. exists (t, st). split; [reflexivity|]. apply filter_In. split.
    - apply (aget_in teqb teqb_spec). exact Hg.
    - apply N.ltb_lt. exact Hold. }
  pose proof (sweep_fold_hits _ b [] t (or_introl Hin)) as A. rewrite E in A. simpl in A.
  destruct A as [A1 A2]. split; [exact A1|]. split; [exact A2|].
  intros src Hi. destruct (I_live _ _ HI' src t Hi) as (s0 & Hg0 & _). cbn [pending] in Hg0. congruence.
Qed.

(* --- a sender within the limits is never throttled --- *)
Theorem not_throttled b m b' o (L : list topic) :
  Inv c b -> recv c b m = (b', o) ->
  aget teqb (started b) (m_topic m) = None ->
  (* L lists the topics for which this sender currently has buffered messages *)
  NoDup L -> (forall t st, aget teqb (pending b) t = Some st -> (1 <= count_of st (m_src m))%nat -> In t L) ->
  (length L <= maxTopics c)%nat ->
  (* and it has at most `limit` messages buffered for this topic *)
  (forall st, aget teqb (pending b) (m_topic m) = Some st -> (nsrc (m_src m) (s_msgs st) <= limit c)%nat) ->
  o = [] /\ exists st', aget teqb (pending b') (m_topic m) = Some st' /\
    s_msgs st' = (match aget teqb (pending b) (m_topic m) with Some st => s_msgs st | None => [] end) ++ [m].
Proof.
  intros HI H Hns Hnd HL Hlen Hlim. unfold recv in H. rewrite Hns in H.
  assert (Hle : (length (topics_of b (m_src m)) <= maxTopics c)%nat).
  { transitivity (length L); [|exact Hlen]. apply NoDup_incl_length; [apply (I_topics _ _ HI)|].
    intros t Hin. destruct (I_live _ _ HI _ _ Hin) as (st & Hg & H1). eapply HL; eauto. }
  replace (Nat.ltb (maxTopics c) (length (topics_of b (m_src m)))) with false in H
    by (symmetry; apply Nat.ltb_ge; exact Hle).
  match type of H with context [add c ?ST m ?e] => set (st := ST) in *; destruct (add c st m e) as [st' o'] eqn:Ea end.
  inversion H; subst b' o; clear H. cbn [pending].
  assert (Hcnt : (count_of st (m_src m) <= limit c)%nat).
  { unfold st. destruct (aget teqb (pending b) (m_topic m)) as [s0|] eqn:Ep.
    - destruct (I_count _ _ HI _ _ (m_src m) Ep) as [A _]. rewrite A. apply Hlim. reflexivity.
    - unfold count_of. simpl. lia. }
  unfold add in Ea. replace (Nat.ltb (limit c) (count_of st (m_src m))) with false in Ea
    by (symmetry; apply Nat.ltb_ge; exact Hcnt).
  inversion Ea; subst st' o'. split; [reflexivity|].
  eexists. split; [apply (aget_aset_same teqb teqb_spec)|]. cbn [s_msgs].
  unfold st. destruct (aget teqb (pending b) (m_topic m)); reflexivity.
Qed.
End Fixed.
