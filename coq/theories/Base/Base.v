(* Common definitions: outcomes of modelled Go calls, bytes as N with explicit widths. *)
From Coq Require Export List NArith Bool Lia.
From Coq Require Import ZifyN ZifyBool.
Export ListNotations.
Open Scope N_scope.

(* Every modelled Go function returns one of these: a value, a rejection (error return /
   message dropped), or a run-time panic (index out of range, nil dereference, explicit panic). *)
Inductive outcome (A : Type) : Type :=
| Ok (a : A)
| Err
| Panic.
Arguments Ok {A} a.
Arguments Err {A}.
Arguments Panic {A}.

Definition is_panic {A} (o : outcome A) : bool :=
  match o with Panic => true | _ => false end.

Definition bytes := list N.

(* a Go byte: value < 256 *)
Definition byte_ok (b : N) : Prop := b < 256.
Definition bytes_ok (bs : bytes) : Prop := Forall byte_ok bs.

Definition lo8 (x : N) : N := x mod 256.          (* byte(x) *)
Definition hi8 (x : N) : N := (x / 256) mod 256.  (* byte(x >> 8) *)

Lemma lo8_ok x : byte_ok (lo8 x).
Proof. unfold byte_ok, lo8. apply N.mod_lt. discriminate. Qed.
Lemma hi8_ok x : byte_ok (hi8 x).
Proof. unfold byte_ok, hi8. apply N.mod_lt. discriminate. Qed.

Lemma hi_lo_u16 x : x < 65536 -> hi8 x * 256 + lo8 x = x.
Proof.
  intros H. unfold hi8, lo8.
  assert (x / 256 < 256) by (apply N.div_lt_upper_bound; lia).
  rewrite (N.mod_small (x / 256) 256) by assumption.
  pose proof (N.div_mod x 256). lia.
Qed.

Definition list_eqb {A} (eqb : A -> A -> bool) : list A -> list A -> bool :=
  fix go (a b : list A) : bool :=
    match a, b with
    | [], [] => true
    | x :: a', y :: b' => eqb x y && go a' b'
    | _, _ => false
    end.

Lemma list_eqb_spec {A} (eqb : A -> A -> bool) :
  (forall x y, eqb x y = true <-> x = y) ->
  forall a b, list_eqb eqb a b = true <-> a = b.
Proof.
  intros H. induction a as [|x a IH]; destruct b as [|y b]; simpl; split; intros E;
    try reflexivity; try discriminate.
  - apply andb_true_iff in E. destruct E as [E1 E2]. apply H in E1. apply IH in E2. congruence.
  - inversion E; subst. apply andb_true_iff. split; [apply H; reflexivity | apply IH; reflexivity].
Qed.

Definition bytes_eqb : bytes -> bytes -> bool := list_eqb N.eqb.
Lemma bytes_eqb_spec a b : bytes_eqb a b = true <-> a = b.
Proof. apply list_eqb_spec. intros; apply N.eqb_eq. Qed.

Definition bytes_dec : forall a b : bytes, {a = b} + {a <> b} := list_eq_dec N.eq_dec.
