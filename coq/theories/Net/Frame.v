(* Frame codec of the bundled transport (net/net.go): remoteParty.send writes, readMsg reads.

     frame  =  type (1 byte) ‖ len(data) as little-endian uint32 (4 bytes) ‖ topic (0 or 32 bytes) ‖ data

   The writer puts a topic on the wire whenever the caller supplied one (it panics unless the topic has 0 or 32
   bytes); the reader expects a topic iff the type is a key of the shouldHaveTopic table.  A frame is [legal]
   when both agree.  Lengths are N; byte strings are lists of N; nothing here builds a list from a number, so
   the model runs under vm_compute on streams of realistic size and the theorems (Net/FrameFacts.v) hold for
   every length up to the limit without materialising anything. *)
Require Import TSS.Base.Base TSS.Gen.NetConsts.

Definition lenN {A} (l : list A) : N := N.of_nat (length l).

(* the first n elements / what follows them; structural on the list, the counter is binary *)
Fixpoint takeN {A} (n : N) (l : list A) : list A :=
  match l with
  | [] => []
  | x :: t => if n =? 0 then [] else x :: takeN (N.pred n) t
  end.
Fixpoint dropN {A} (n : N) (l : list A) : list A :=
  match l with
  | [] => []
  | x :: t => if n =? 0 then l else dropN (N.pred n) t
  end.

Record frame := mkFrame { f_ty : N; f_topic : bytes; f_data : bytes }.

(* shouldHaveTopic[msgType] *)
Definition has_topic (ty : N) : bool := existsb (N.eqb ty) topic_types.

(* binary.LittleEndian.PutUint32 *)
Definition le32 (n : N) : bytes :=
  [n mod 256; (n / 256) mod 256; (n / 65536) mod 256; (n / 16777216) mod 256].
(* binary.LittleEndian.Uint32 *)
Definition le32_val (b0 b1 b2 b3 : N) : N := b0 + 256 * b1 + 65536 * b2 + 16777216 * b3.

Definition u32_max : N := 4294967295.

(* the header buffer of remoteParty.send, given only the payload length *)
Definition encode_header (ty : N) (topic : bytes) (len : N) : outcome bytes :=
  if negb ((lenN topic =? 0) || (lenN topic =? 32)) then Panic      (* "topic should be either empty or 32 bytes" *)
  else if u32_max <? len then Panic                                  (* "data too large" *)
  else Ok (ty :: le32 len ++ topic).

(* remoteParty.send: header, then data *)
Definition encode_frame (ty : N) (topic data : bytes) : outcome bytes :=
  match encode_header ty topic (lenN data) with
  | Ok h => Ok (h ++ data)
  | Err => Err
  | Panic => Panic
  end.

(* readMsg on the bytes still to come on the connection: one frame and the rest, or an error
   (length above the limit, or the stream ends inside the frame: io.ReadFull fails) *)
Definition read_msg (s : bytes) : outcome (frame * bytes) :=
  match s with
  | ty :: b0 :: b1 :: b2 :: b3 :: r =>
      let len := le32_val b0 b1 b2 b3 in
      if max_buff_len <? len then Err
      else
        let tl := if has_topic ty then 32 else 0 in
        if lenN r <? tl then Err
        else
          let r' := dropN tl r in
          if lenN r' <? len then Err
          else Ok (mkFrame ty (takeN tl r) (takeN len r'), dropN len r')
  | _ => Err
  end.

(* the decision of readMsg as a function of the five header bytes and of how many bytes follow them on the
   connection: (type, topic length, payload length) of the frame it returns.  FrameFacts.read_msg_decision_spec
   proves it agrees with read_msg; the correspondence check uses it for frames too big to write down. *)
Definition read_msg_decision (ty b0 b1 b2 b3 avail : N) : outcome (N * N * N) :=
  let len := le32_val b0 b1 b2 b3 in
  if max_buff_len <? len then Err
  else
    let tl := if has_topic ty then 32 else 0 in
    if avail <? tl then Err
    else if avail - tl <? len then Err
    else Ok (ty, tl, len).

(* the loop of handleConn over a whole byte stream: the frames handed on, and how the stream ended:
   Ok tt = end of stream exactly at a frame boundary, Err = readMsg failed inside a frame *)
Fixpoint decode_fuel (fuel : nat) (s : bytes) : list frame * outcome unit :=
  match fuel with
  | O => ([], Err)
  | S fuel' =>
      match s with
      | [] => ([], Ok tt)
      | _ =>
          match read_msg s with
          | Ok (f, rest) => let (fs, e) := decode_fuel fuel' rest in (f :: fs, e)
          | Err => ([], Err)
          | Panic => ([], Panic)
          end
      end
  end.
Definition decode_stream (s : bytes) : list frame * outcome unit := decode_fuel (S (length s)) s.

(* what may be handed to Send: the writer and the reader agree about the topic *)
Definition legal (f : frame) : Prop :=
  f_ty f < 256 /\
  ((has_topic (f_ty f) = true /\ lenN (f_topic f) = 32) \/ (has_topic (f_ty f) = false /\ f_topic f = [])).

Definition legalb (f : frame) : bool :=
  (f_ty f <? 256) &&
  (if has_topic (f_ty f) then lenN (f_topic f) =? 32 else match f_topic f with [] => true | _ => false end).

(* the bytes a sequence of Send calls puts on one connection *)
Fixpoint encode_stream (fs : list frame) : outcome bytes :=
  match fs with
  | [] => Ok []
  | f :: t =>
      match encode_frame (f_ty f) (f_topic f) (f_data f), encode_stream t with
      | Ok a, Ok b => Ok (a ++ b)
      | Panic, _ => Panic
      | _, Panic => Panic
      | _, _ => Err
      end
  end.

Definition frame_eqb (a b : frame) : bool :=
  (f_ty a =? f_ty b) && bytes_eqb (f_topic a) (f_topic b) && bytes_eqb (f_data a) (f_data b).
