(* The decision of Handshake.Read + authenticateConnection (net/net.go): which registered node, if any, a freshly
   accepted TLS connection is attributed to.  Everything outside IBM/TSS is an oracle (Section variable):
   encoding/asn1 (unmarshal / marshal of the Handshake struct), encoding/pem, crypto/x509 (returning the kind of
   public key), crypto/ecdsa verification, SHA-256.  The model follows the Go function check by check, in order.

   Variant flags (pinned upstream tree = false, repaired = true):
     fix_keytype        unchecked type assertion of cert.PublicKey to an ECDSA key: a non-ECDSA identity panicked
     fix_marshal_panic  the received handshake was re-encoded with Handshake.Bytes(), which panics when asn1.Marshal
                        fails (domain received as T61String/GeneralString with bytes that are not UTF-8) *)
Require Import TSS.Base.Base TSS.Gen.NetConsts TSS.Net.Frame.

Record handshake := mkHS {
  h_domain : bytes; h_binding : bytes; h_identity : bytes; h_timestamp : N; h_sig : bytes }.

Definition set_sig (h : handshake) (s : bytes) : handshake :=
  mkHS (h_domain h) (h_binding h) (h_identity h) (h_timestamp h) s.

(* what x509.ParseCertificate puts into cert.PublicKey *)
Inductive pubkey := KEcdsa (k : bytes) | KOther (kind : N).

Record hs_variant := { fix_keytype : bool; fix_marshal_panic : bool }.
Definition hs_tree  := {| fix_keytype := false; fix_marshal_panic := false |}.
Definition hs_fixed := {| fix_keytype := true;  fix_marshal_panic := true  |}.

(* hex.EncodeToString *)
Definition hex_digit (n : N) : N := if n <? 10 then 48 + n else 87 + n.
Fixpoint hex (bs : bytes) : bytes :=
  match bs with
  | [] => []
  | b :: t => hex_digit (b / 16) :: hex_digit (b mod 16) :: hex t
  end.

(* Handshake.Read, framing part: 2-byte little-endian length, then exactly that many bytes *)
Definition read_handshake (s : bytes) : outcome (bytes * bytes) :=
  match s with
  | l0 :: l1 :: r =>
      let len := l0 + 256 * l1 in
      if max_buff_len <? len then Err
      else if lenN r <? len then Err
      else Ok (takeN len r, dropN len r)
  | _ => Err
  end.

(* one message as it appears on the channel returned by ServiceConnections *)
Record inmsg := mkIn { in_domain : bytes; in_from : N; in_frame : frame }.

Section Auth.
  Variable asn1_unmarshal : bytes -> option handshake.
  Variable asn1_marshal : handshake -> option bytes.
  Variable pem_decode : bytes -> option bytes.
  Variable x509_parse : bytes -> option pubkey.
  Variable ecdsa_verify : bytes -> bytes -> bytes -> bool.        (* key, digest, signature *)
  Variable sha256 : bytes -> bytes.

  Definition lookup_key (domain identity : bytes) : bytes := hex (sha256 (domain ++ identity)).

  (* authenticateConnection after the handshake bytes have been read: [binding] is extractTLSBinding(conn),
     [tbl] the participant2ID table *)
  Definition auth_core (v : hs_variant) (binding : bytes) (tbl : bytes -> option N) (buff : bytes)
    : outcome (bytes * N) :=
    match asn1_unmarshal buff with
    | None => Err
    | Some h =>
        if negb (bytes_eqb binding (h_binding h)) then Err                      (* "TLS binding mismatch" *)
        else match pem_decode (h_identity h) with
        | None => Err
        | Some der =>
            match x509_parse der with
            | None => Err
            | Some (KOther _) => if fix_keytype v then Err else Panic            (* type assertion *)
            | Some (KEcdsa k) =>
                match asn1_marshal (set_sig h []) with
                | None => if fix_marshal_panic v then Err else Panic             (* h.Bytes() *)
                | Some m =>
                    if negb (ecdsa_verify k (sha256 m) (h_sig h)) then Err       (* "Signature mismatch" *)
                    else match tbl (lookup_key (h_domain h) (h_identity h)) with
                         | None => Err                                             (* "Node ... doesn't exist" *)
                         | Some i => Ok (h_domain h, i)
                         end
                end
            end
        end
    end.

  (* Handshake.Read + authenticateConnection on the bytes the peer sends on the connection *)
  Definition authenticate (v : hs_variant) (binding : bytes) (tbl : bytes -> option N) (s : bytes)
    : outcome (bytes * N) :=
    match read_handshake s with
    | Ok (buff, _) => auth_core v binding tbl buff
    | Err => Err
    | Panic => Panic
    end.

  (* handleConn: everything that reaches the channel from one connection *)
  Definition handle_conn (v : hs_variant) (binding : bytes) (tbl : bytes -> option N) (s : bytes)
    : outcome (list inmsg) :=
    match read_handshake s with
    | Ok (buff, rest) =>
        match auth_core v binding tbl buff with
        | Ok (dom, i) => Ok (map (mkIn dom i) (fst (decode_stream rest)))
        | Err => Ok []
        | Panic => Panic
        end
    | Err => Ok []
    | Panic => Panic
    end.

  (* ---- soundness of an attribution --------------------------------------------------------------- *)

  Lemma auth_core_sound v binding tbl buff dom i :
    auth_core v binding tbl buff = Ok (dom, i) ->
    exists h der k m,
      asn1_unmarshal buff = Some h /\
      h_binding h = binding /\
      pem_decode (h_identity h) = Some der /\ x509_parse der = Some (KEcdsa k) /\
      asn1_marshal (set_sig h []) = Some m /\
      ecdsa_verify k (sha256 m) (h_sig h) = true /\
      tbl (lookup_key dom (h_identity h)) = Some i /\
      dom = h_domain h.
  Proof.
    unfold auth_core. intros H.
    destruct (asn1_unmarshal buff) as [h|] eqn:Eu; [|discriminate].
    destruct (bytes_eqb binding (h_binding h)) eqn:Eb; [|discriminate]. cbn [negb] in H.
    destruct (pem_decode (h_identity h)) as [der|] eqn:Ep; [|discriminate].
    destruct (x509_parse der) as [[k|kind]|] eqn:Ex; [| destruct (fix_keytype v); discriminate | discriminate].
    destruct (asn1_marshal (set_sig h [])) as [m|] eqn:Em; [| destruct (fix_marshal_panic v); discriminate].
    destruct (ecdsa_verify k (sha256 m) (h_sig h)) eqn:Ev; [|discriminate]. cbn [negb] in H.
    destruct (tbl (lookup_key (h_domain h) (h_identity h))) as [j|] eqn:Et; [|discriminate].
    inversion H; subst. apply bytes_eqb_spec in Eb.
    exists h, der, k, m. repeat split; try assumption; try reflexivity. symmetry; assumption.
  Qed.

  Theorem authenticate_sound v binding tbl s dom i :
    authenticate v binding tbl s = Ok (dom, i) ->
    exists buff rest h der k m,
      read_handshake s = Ok (buff, rest) /\
      asn1_unmarshal buff = Some h /\
      h_binding h = binding /\
      pem_decode (h_identity h) = Some der /\ x509_parse der = Some (KEcdsa k) /\
      asn1_marshal (set_sig h []) = Some m /\
      ecdsa_verify k (sha256 m) (h_sig h) = true /\
      tbl (lookup_key dom (h_identity h)) = Some i /\
      dom = h_domain h.
  Proof.
    unfold authenticate. intros H. destruct (read_handshake s) as [[buff rest]| |]; try discriminate.
    destruct (auth_core_sound _ _ _ _ _ _ H) as (h & der & k & m & P).
    exists buff, rest, h, der, k, m. split; [reflexivity|exact P].
  Qed.

  (* a message reaches the channel only from an authenticated connection, with exactly the attribution decided *)
  Theorem handle_conn_attributed v binding tbl s msgs x :
    handle_conn v binding tbl s = Ok msgs -> In x msgs ->
    authenticate v binding tbl s = Ok (in_domain x, in_from x).
  Proof.
    unfold handle_conn, authenticate. destruct (read_handshake s) as [[buff rest]| |]; try discriminate.
    - destruct (auth_core v binding tbl buff) as [[dom i]| |]; try discriminate.
      + intros H Hin. inversion H; subst. apply in_map_iff in Hin. destruct Hin as (f & <- & _). reflexivity.
      + intros H Hin. inversion H; subst. destruct Hin.
    - intros H Hin. inversion H; subst. destruct Hin.
  Qed.

  Corollary handle_conn_silent v binding tbl s :
    (forall dom i, authenticate v binding tbl s <> Ok (dom, i)) ->
    handle_conn v binding tbl s = Ok [] \/ handle_conn v binding tbl s = Panic.
  Proof.
    unfold handle_conn, authenticate. intros H. destruct (read_handshake s) as [[buff rest]| |]; auto.
    destruct (auth_core v binding tbl buff) as [[dom i]| |]; auto. exfalso. apply (H dom i). reflexivity.
  Qed.

  (* ---- the repaired decision never panics ---------------------------------------------------------- *)

  Lemma read_handshake_total s : read_handshake s <> Panic.
  Proof.
    unfold read_handshake. destruct s as [|l0 [|l1 r]]; try discriminate.
    destruct (max_buff_len <? _); [discriminate|]. destruct (lenN r <? _); discriminate.
  Qed.

  Lemma auth_core_fixed_total binding tbl buff : auth_core hs_fixed binding tbl buff <> Panic.
  Proof.
    unfold auth_core. destruct (asn1_unmarshal buff) as [h|]; [|discriminate].
    destruct (negb _); [discriminate|].
    destruct (pem_decode _) as [der|]; [|discriminate].
    destruct (x509_parse der) as [[k|kind]|]; try discriminate.
    destruct (asn1_marshal _) as [m|]; [|discriminate].
    destruct (negb _); [discriminate|]. destruct (tbl _); discriminate.
  Qed.

  Theorem authenticate_fixed_total binding tbl s : authenticate hs_fixed binding tbl s <> Panic.
  Proof.
    unfold authenticate. pose proof (read_handshake_total s).
    destruct (read_handshake s) as [[buff rest]| |]; [apply auth_core_fixed_total|discriminate|congruence].
  Qed.

  Theorem handle_conn_fixed_total binding tbl s : handle_conn hs_fixed binding tbl s <> Panic.
  Proof.
    unfold handle_conn. pose proof (read_handshake_total s).
    destruct (read_handshake s) as [[buff rest]| |]; [|discriminate|congruence].
    pose proof (auth_core_fixed_total binding tbl buff).
    destruct (auth_core hs_fixed binding tbl buff) as [[dom i]| |]; [discriminate|discriminate|congruence].
  Qed.

  (* ---- the mutation classes of the property: none of them is ever attributed -------------------------- *)

  Definition refused (v : hs_variant) binding tbl s : Prop := forall dom i, authenticate v binding tbl s <> Ok (dom, i).

  (* malformed or truncated encoding: the length prefix is incomplete, announces more than arrives, or the
     ASN.1 decoder rejects the bytes *)
  Lemma refused_truncated v binding tbl s : read_handshake s = Err -> refused v binding tbl s.
  Proof. intros H dom i. unfold authenticate. rewrite H. discriminate. Qed.

  Lemma refused_short v binding tbl l0 l1 r : lenN r < l0 + 256 * l1 -> refused v binding tbl (l0 :: l1 :: r).
  Proof.
    intros H. apply refused_truncated. unfold read_handshake.
    destruct (max_buff_len <? _); [reflexivity|]. apply N.ltb_lt in H. rewrite H. reflexivity.
  Qed.

  Lemma refused_malformed v binding tbl s buff rest :
    read_handshake s = Ok (buff, rest) -> asn1_unmarshal buff = None -> refused v binding tbl s.
  Proof. intros H1 H2 dom i. unfold authenticate, auth_core. rewrite H1, H2. discriminate. Qed.

  Section Decoded.
    (* from here on: the bytes decode to the handshake h *)
    Variables (v : hs_variant) (binding : bytes) (tbl : bytes -> option N) (s buff rest : bytes) (h : handshake).
    Hypothesis Hread : read_handshake s = Ok (buff, rest).
    Hypothesis Hdec : asn1_unmarshal buff = Some h.

    Lemma sound_here dom i :
      authenticate v binding tbl s = Ok (dom, i) ->
      exists der k m,
        h_binding h = binding /\ pem_decode (h_identity h) = Some der /\ x509_parse der = Some (KEcdsa k) /\
        asn1_marshal (set_sig h []) = Some m /\ ecdsa_verify k (sha256 m) (h_sig h) = true /\
        tbl (lookup_key dom (h_identity h)) = Some i /\ dom = h_domain h.
    Proof.
      intros H. destruct (authenticate_sound _ _ _ _ _ _ H) as (buff' & rest' & h' & der & k & m & R & U & P).
      rewrite Hread in R. inversion R; subst buff' rest'. rewrite Hdec in U. inversion U; subst h'.
      exists der, k, m. exact P.
    Qed.

    (* the binding in the handshake is not this connection's *)
    Lemma refused_binding : h_binding h <> binding -> refused v binding tbl s.
    Proof. intros N dom i H. destruct (sound_here _ _ H) as (der & k & m & B & _). contradiction. Qed.

    (* the identity is no PEM block / no certificate *)
    Lemma refused_identity_pem : pem_decode (h_identity h) = None -> refused v binding tbl s.
    Proof. intros N dom i H. destruct (sound_here _ _ H) as (der & k & m & _ & P & _). congruence. Qed.
    Lemma refused_identity_x509 der :
      pem_decode (h_identity h) = Some der -> x509_parse der = None -> refused v binding tbl s.
    Proof. intros N1 N2 dom i H. destruct (sound_here _ _ H) as (der' & k & m & _ & P & X & _). congruence. Qed.

    (* unsupported key type *)
    Lemma refused_keytype der kind :
      pem_decode (h_identity h) = Some der -> x509_parse der = Some (KOther kind) -> refused v binding tbl s.
    Proof. intros N1 N2 dom i H. destruct (sound_here _ _ H) as (der' & k & m & _ & P & X & _). congruence. Qed.

    (* wrong, missing or foreign signature: whatever does not verify under the key of the presented identity *)
    Lemma refused_signature der k m :
      pem_decode (h_identity h) = Some der -> x509_parse der = Some (KEcdsa k) ->
      asn1_marshal (set_sig h []) = Some m -> ecdsa_verify k (sha256 m) (h_sig h) = false ->
      refused v binding tbl s.
    Proof.
      intros N1 N2 N3 N4 dom i H. destruct (sound_here _ _ H) as (der' & k' & m' & _ & P & X & M & V & _).
      rewrite N1 in P. inversion P; subst der'. rewrite N2 in X. inversion X; subst k'.
      rewrite N3 in M. inversion M; subst m'. congruence.
    Qed.

    (* unknown identity, or identity not registered under the claimed domain *)
    Lemma refused_unregistered :
      tbl (lookup_key (h_domain h) (h_identity h)) = None -> refused v binding tbl s.
    Proof.
      intros N dom i H. destruct (sound_here _ _ H) as (der & k & m & _ & _ & _ & _ & _ & T & ->). congruence.
    Qed.

    (* whatever is attributed carries the domain claimed in the handshake and the table's node for it *)
    Lemma attributed_as_registered dom i :
      authenticate v binding tbl s = Ok (dom, i) ->
      dom = h_domain h /\ tbl (lookup_key (h_domain h) (h_identity h)) = Some i.
    Proof.
      intros H. destruct (sound_here _ _ H) as (der & k & m & _ & _ & _ & _ & _ & T & ->). split; [reflexivity|assumption].
    Qed.
  End Decoded.

  (* ---- attribution under the cryptographic premises -------------------------------------------------- *)

  Section Crypto.
    (* connections and their exporter values; what the holder of a key has signed *)
    Variable conn : Type.
    Variable binding_of : conn -> bytes.
    Hypothesis binding_inj : forall c c', binding_of c = binding_of c' -> c = c'.
    Variable signed : bytes -> bytes -> Prop.                       (* key, digest *)
    Hypothesis unforgeable : forall k d sg, ecdsa_verify k d sg = true -> signed k d.

    (* an attribution on connection c: the holder of the presented identity's key signed (the digest of) a
       handshake with empty signature field that names c's exporter value and the attributed domain, and that
       identity is registered as node i under that domain *)
    Theorem attribution v c tbl s dom i :
      authenticate v (binding_of c) tbl s = Ok (dom, i) ->
      exists h0 der k m,
        pem_decode (h_identity h0) = Some der /\ x509_parse der = Some (KEcdsa k) /\
        asn1_marshal h0 = Some m /\ signed k (sha256 m) /\
        h_sig h0 = [] /\ h_binding h0 = binding_of c /\ h_domain h0 = dom /\
        tbl (lookup_key dom (h_identity h0)) = Some i.
    Proof.
      intros H. destruct (authenticate_sound _ _ _ _ _ _ H) as (buff & rest & h & der & k & m & _ & _ & B & P & X & M & V & T & D).
      exists (set_sig h []), der, k, m. cbn [set_sig h_identity h_sig h_binding h_domain].
      repeat split; try assumption; try (symmetry; assumption). apply (unforgeable _ _ _ V).
    Qed.

    (* a handshake made for (recorded on) another connection is refused on this one *)
    Theorem refused_replay v c c' tbl s buff rest h :
      read_handshake s = Ok (buff, rest) -> asn1_unmarshal buff = Some h ->
      h_binding h = binding_of c' -> c' <> c -> refused v (binding_of c) tbl s.
    Proof.
      intros R U B N. apply (refused_binding v _ tbl s buff rest h R U).
      intros E. apply N. apply binding_inj. congruence.
    Qed.

    (* substituted identity: the identity of a registered peer whose key holder never signed this handshake *)
    Theorem refused_substituted v c tbl s buff rest h der k m :
      read_handshake s = Ok (buff, rest) -> asn1_unmarshal buff = Some h ->
      pem_decode (h_identity h) = Some der -> x509_parse der = Some (KEcdsa k) ->
      asn1_marshal (set_sig h []) = Some m -> ~ signed k (sha256 m) ->
      refused v (binding_of c) tbl s.
    Proof.
      intros R U P X M NS. apply (refused_signature v _ tbl s buff rest h R U der k m P X M).
      destruct (ecdsa_verify k (sha256 m) (h_sig h)) eqn:E; [|reflexivity]. exfalso. apply NS. apply (unforgeable _ _ _ E).
    Qed.
  End Crypto.

  (* ---- the lookup key hashes domain ‖ identity without a separator ------------------------------------- *)

  (* two different (domain, identity) pairs with the same concatenation share a table entry *)
  Lemma lookup_key_shift d x idn : lookup_key (d ++ x) idn = lookup_key d (x ++ idn).
  Proof. unfold lookup_key. rewrite app_assoc. reflexivity. Qed.

  (* for domains of equal length (in particular: one domain) the pair is determined by the hashed bytes *)
  Lemma lookup_preimage_inj (d1 i1 d2 i2 : bytes) :
    length d1 = length d2 -> d1 ++ i1 = d2 ++ i2 -> d1 = d2 /\ i1 = i2.
  Proof.
    revert d2. induction d1 as [|a d1 IH]; intros [|b d2] HL E; try discriminate.
    - split; [reflexivity|exact E].
    - cbn in HL, E. inversion HL. inversion E; subst. destruct (IH d2 H0 H2) as [-> ->]. split; reflexivity.
  Qed.
End Auth.

(* ---- refutations for the pinned tree, non-vacuity ---------------------------------------------------- *)

(* concrete oracles: the handshake bytes [d; b; i; s] decode to domain [d], binding [b], identity [i], signature [s];
   identity 1 carries an ECDSA key, identity 2 an RSA key, identity 3 an ECDSA key; a signature verifies iff it is
   [key; digest]; the digest of x is x; domain 255 cannot be re-encoded *)
Definition ex_unmarshal (b : bytes) : option handshake :=
  match b with [d; bd; i; s0; s1] => Some (mkHS [d] [bd] [i] 0 [s0; s1]) | _ => None end.
Definition ex_marshal (h : handshake) : option bytes :=
  match h_domain h with [255] => None | _ => Some (h_domain h ++ h_binding h ++ h_identity h ++ h_sig h) end.
Definition ex_pem (b : bytes) : option bytes := match b with [i] => Some [i] | _ => None end.
Definition ex_x509 (b : bytes) : option pubkey :=
  match b with [1] => Some (KEcdsa [11]) | [2] => Some (KOther 1) | [3] => Some (KEcdsa [33]) | _ => None end.
Definition ex_verify (k d sg : bytes) : bool :=
  match k, sg with [kk], [s0; s1] => (s0 =? kk) && (s1 =? N.of_nat (length d)) | _, _ => false end.
Definition ex_sha (b : bytes) : bytes := b.
Definition ex_tbl (key : bytes) : option N :=
  if bytes_eqb key (hex [9; 1]) then Some 5 else if bytes_eqb key (hex [9; 3]) then Some 6 else None.

Definition ex_auth v binding s := authenticate ex_unmarshal ex_marshal ex_pem ex_x509 ex_verify ex_sha v binding ex_tbl s.

Lemma keytype_tree_refuted :
  ex_auth hs_tree [77] [5; 0; 9; 77; 2; 0; 0] = Panic /\ ex_auth hs_fixed [77] [5; 0; 9; 77; 2; 0; 0] = Err.
Proof. split; vm_compute; reflexivity. Qed.

Lemma marshal_tree_refuted :
  ex_auth hs_tree [77] [5; 0; 255; 77; 1; 0; 0] = Panic /\ ex_auth hs_fixed [77] [5; 0; 255; 77; 1; 0; 0] = Err.
Proof. split; vm_compute; reflexivity. Qed.

Example handshake_example :
  (* the registered identity 1, domain 9, this connection's binding 77, signature by key 11 over 3 bytes: node 5 *)
  ex_auth hs_fixed [77] [5; 0; 9; 77; 1; 11; 3; 200] = Ok ([9], 5) /\
  (* replayed on the connection with binding 78 *)
  ex_auth hs_fixed [78] [5; 0; 9; 77; 1; 11; 3] = Err /\
  (* identity 3 (node 6) with the signature of key 11 *)
  ex_auth hs_fixed [77] [5; 0; 9; 77; 3; 11; 3] = Err /\
  (* other domain *)
  ex_auth hs_fixed [77] [5; 0; 8; 77; 1; 11; 3] = Err /\
  (* truncated *)
  ex_auth hs_fixed [77] [5; 0; 9; 77; 1; 11] = Err /\
  (* what follows the handshake on an attributed connection is handed on as frames of node 5 *)
  handle_conn ex_unmarshal ex_marshal ex_pem ex_x509 ex_verify ex_sha hs_fixed [77] ex_tbl
     [5; 0; 9; 77; 1; 11; 3;  0; 2; 0; 0; 0; 4; 5] = Ok [mkIn [9] 5 (mkFrame 0 [] [4; 5])].
Proof. repeat split; vm_compute; reflexivity. Qed.
