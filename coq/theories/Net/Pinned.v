(* Facts about the constants regenerated from net/net.go (Gen/NetConsts.v) that the property statements pin down.
   Kept apart from the models so that an edit of the Go tables breaks exactly these obligations (and Props/C17.v), while
   the models -- which follow the regenerated tables -- still build and the correspondence run still tells what changed. *)
Require Import TSS.Base.Base TSS.Gen.NetConsts TSS.Net.Frame.

(* the topic presence table of this tree: exactly the discovery and MPC message types carry a topic *)
Lemma topic_table_pinned ty : has_topic ty = true <-> ty = msg_type_discovery \/ ty = msg_type_mpc.
Proof.
  unfold has_topic, topic_types, msg_type_discovery, msg_type_mpc. cbn [existsb].
  rewrite orb_false_r, orb_true_iff, !N.eqb_eq. tauto.
Qed.

Lemma msg_types_pinned : msg_type_none = 0 /\ msg_type_discovery = 1 /\ msg_type_mpc = 2.
Proof. repeat split; reflexivity. Qed.

(* what /repo does on an enqueue timeout, as read off the source by tools/gen_netconsts.py on every run (syntactic:
   the onTimeout closure of SocketRemoteParties.Send contains no panic call): the repaired variant of Net/Queue.v *)
Lemma repo_send_timeout_repaired : send_timeout_panics = false.
Proof. reflexivity. Qed.

(* The queue model has ONE writer per destination (QWrite operations of a destination are steps of a single sequential
   process: that is what lets Net/Queue.v treat "take the head, write header, write payload" as one atomic step).  In
   /repo this rests on startOnce: the writer goroutine is started at exactly one site, through a sync.Once of the
   destination object (syntactic, read off the source by tools/gen_netconsts.py on every run). *)
Lemma repo_single_writer : single_writer_once_guarded = true.
Proof. reflexivity. Qed.

(* Net/Handshake.v models one connection: handle_conn is a function of that connection's byte stream alone, so in the model
   a connection whose reader never gets input (a stalled client) cannot influence any other connection.  For /repo this
   needs every accepted connection to be served by a goroutine of its own and the single accept goroutine never to wait
   for a client: the accept loop mentions the accepted connection only in `go handleConn(...)` (syntactic, read off the
   source by tools/gen_netconsts.py on every run). *)
Lemma repo_accept_hands_off : accept_loop_hands_off = true.
Proof. reflexivity. Qed.
