(* The sending side of the bundled transport (net/net.go) as a sequential state machine:
   SocketRemoteParties.Send -> outChan.enqueue (bounded queue per destination, 10 s timeout) and the single writer
   goroutine per destination (sendMessages: maybeConnect, take the head of the queue, send).

   A run is a list of atomic operations in the order in which they take effect (any interleaving of callers and
   writers is such a list).  A message is named by a number (one Send call to one destination).  What the Go
   runtime adds -- real time, the 1 s pause between connection attempts, TCP buffering -- is not modelled:
   an enqueue on a full queue IS the timed-out enqueue (had the writer made room in time, its write would come
   first in the list).

   Variant flag fix_timeout_panic: the pinned upstream tree (false) panicked in the caller of Send when the queue
   of a destination stayed full for the timeout; the repaired code (true) reports and drops that message. *)
Require Import TSS.Base.Base TSS.Net.Frame TSS.Net.FrameFacts.
From Coq Require Import Arith ZifyN ZifyNat ZifyBool.

Record dstate := mkD {
  d_queue : list N;                (* rp.msgs, oldest first *)
  d_up : bool;                     (* rp.conn != nil *)
  d_popped : list (N * bool);      (* what the writer took from the queue, in order, and whether both writes succeeded *)
  d_accepted : list N              (* messages whose enqueue succeeded, in order *)
}.
Definition d_init := mkD [] false [] [].

Record qcfg := mkQ {
  fix_timeout_panic : bool;
  q_members : list N;              (* keys of the SocketRemoteParties map *)
  q_cap : N -> N                   (* capacity of the queue (1000; 10 after Clone) *)
}.

Definition qstate := N -> dstate.
Definition q_init : qstate := fun _ => d_init.
Definition upd (st : qstate) (d : N) (x : dstate) : qstate := fun d' => if d' =? d then x else st d'.

Inductive qop :=
| QEnq (d m : N)                   (* Send(..., d) of message m *)
| QConnect (d : N) (ok : bool)     (* the writer's maybeConnect, succeeding or not *)
| QWrite (d : N) (ok : bool).      (* the writer takes the head of the queue and writes it; ok = both writes succeeded *)

Definition target (o : qop) : N := match o with QEnq d _ | QConnect d _ | QWrite d _ => d end.

Inductive qres := RAccepted | RDropped | RNone.

Definition memb (d : N) (l : list N) : bool := existsb (N.eqb d) l.

Definition step (c : qcfg) (st : qstate) (o : qop) : qstate * outcome qres :=
  match o with
  | QEnq d m =>
      if negb (memb d (q_members c)) then (st, Panic)                          (* "party %d doesn't exist" *)
      else
        let s := st d in
        if lenN (d_queue s) <? q_cap c d
        then (upd st d (mkD (d_queue s ++ [m]) (d_up s) (d_popped s) (d_accepted s ++ [m])), Ok RAccepted)
        else if fix_timeout_panic c then (st, Ok RDropped)                     (* reported, dropped *)
        else (st, Panic)                                                        (* panic("bla") *)
  | QConnect d ok =>
      let s := st d in
      if d_up s then (st, Ok RNone)
      else (upd st d (mkD (d_queue s) ok (d_popped s) (d_accepted s)), Ok RNone)
  | QWrite d ok =>
      let s := st d in
      match d_up s, d_queue s with
      | true, m :: q' => (upd st d (mkD q' ok (d_popped s ++ [(m, ok)]) (d_accepted s)), Ok RNone)
      | _, _ => (st, Ok RNone)
      end
  end.

Fixpoint run (c : qcfg) (st : qstate) (ops : list qop) : qstate * list (outcome qres) :=
  match ops with
  | [] => (st, [])
  | o :: t => let (st1, r) := step c st o in let (st2, rs) := run c st1 t in (st2, r :: rs)
  end.

(* the frames that reached the wire towards d, in order *)
Definition wire (s : dstate) : list N := map fst (filter snd (d_popped s)).
Definition taken (s : dstate) : list N := map fst (d_popped s).

(* ---- facts -------------------------------------------------------------------------------------------- *)

Lemma upd_same st d x : upd st d x d = x.
Proof. unfold upd. rewrite N.eqb_refl. reflexivity. Qed.
Lemma upd_other st d x d' : d' <> d -> upd st d x d' = st d'.
Proof. unfold upd. intros H. apply N.eqb_neq in H. rewrite H. reflexivity. Qed.

(* isolation: an operation on destination d never changes anything of a destination d' <> d *)
Theorem step_isolation c st o d' : d' <> target o -> fst (step c st o) d' = st d'.
Proof.
  intros H. destruct o as [d m|d ok|d ok]; cbn [target] in H; cbn [step].
  - destruct (negb _); [reflexivity|]. destruct (_ <? _); [apply upd_other; assumption|].
    destruct (fix_timeout_panic c); reflexivity.
  - destruct (d_up (st d)); [reflexivity|apply upd_other; assumption].
  - destruct (d_up (st d)); [|reflexivity]. destruct (d_queue (st d)); [reflexivity|apply upd_other; assumption].
Qed.

Theorem run_isolation c ops st d' :
  Forall (fun o => target o <> d') ops -> fst (run c st ops) d' = st d'.
Proof.
  revert st. induction ops as [|o t IH]; intros st H; [reflexivity|].
  inversion H as [|? ? Ho Ht]; subst. cbn [run].
  destruct (step c st o) as [st1 r] eqn:E1. destruct (run c st1 t) as [st2 rs] eqn:E2. cbn [fst].
  change st2 with (fst (st2, rs)). rewrite <- E2, IH by assumption.
  change st1 with (fst (st1, r)). rewrite <- E1. apply step_isolation. congruence.
Qed.

(* the per-destination invariant: what the writer has taken so far, followed by what still waits, is exactly the
   sequence of accepted messages; the queue never exceeds its capacity *)
Definition dinv (c : qcfg) (d : N) (s : dstate) : Prop :=
  taken s ++ d_queue s = d_accepted s /\ lenN (d_queue s) <= q_cap c d.

Lemma step_inv c st o :
  (forall d, dinv c d (st d)) -> forall d, dinv c d (fst (step c st o) d).
Proof.
  intros I d. destruct (N.eq_dec d (target o)) as [->|Hne]; [|rewrite step_isolation by assumption; apply I].
  specialize (I (target o)). destruct I as [I1 I2].
  destruct o as [d m|d ok|d ok]; cbn [target] in *; cbn [step].
  - destruct (negb _); [split; assumption|].
    destruct (lenN (d_queue (st d)) <? q_cap c d) eqn:E.
    + cbn [fst]. rewrite upd_same. unfold dinv, taken. cbn [d_popped d_queue d_accepted].
      split; [rewrite app_assoc; unfold taken in I1; rewrite I1; reflexivity|].
      apply N.ltb_lt in E. rewrite lenN_app. unfold lenN at 2. cbn [length]. lia.
    + destruct (fix_timeout_panic c); split; assumption.
  - destruct (d_up (st d)); [split; assumption|]. cbn [fst]. rewrite upd_same. split; assumption.
  - destruct (d_up (st d)); [|split; assumption].
    destruct (d_queue (st d)) as [|m q'] eqn:Eq;
      [cbn [fst]; unfold dinv; rewrite Eq; split; assumption|].
    cbn [fst]. rewrite upd_same. unfold dinv, taken in *. cbn [d_popped d_queue d_accepted].
    split.
    + rewrite map_app. cbn [map fst]. rewrite <- app_assoc. exact I1.
    + unfold lenN in *. cbn [length] in I2. lia.
Qed.

Lemma run_inv c ops st :
  (forall d, dinv c d (st d)) -> forall d, dinv c d (fst (run c st ops) d).
Proof.
  revert st. induction ops as [|o t IH]; intros st I d; [apply I|].
  cbn [run]. destruct (step c st o) as [st1 r] eqn:E1. destruct (run c st1 t) as [st2 rs] eqn:E2. cbn [fst].
  change st2 with (fst (st2, rs)). rewrite <- E2. apply IH.
  intros d0. change st1 with (fst (st1, r)). rewrite <- E1. apply step_inv. assumption.
Qed.

Lemma init_inv c d : dinv c d (q_init d).
Proof. split; [reflexivity|]. unfold lenN. cbn. lia. Qed.

(* FIFO, exactly once: in every run, for every destination, the messages taken by the writer (in order) followed by
   the waiting ones (in order) are the accepted ones (in order); so nothing is taken twice, skipped or reordered *)
Theorem fifo_general c ops d :
  let s := fst (run c q_init ops) d in taken s ++ d_queue s = d_accepted s.
Proof. apply (run_inv c ops q_init (init_inv c) d). Qed.

(* ... and while no write to d fails (the connection stays up) what was taken is what is on the wire *)
Lemma wire_taken s : Forall (fun p => snd p = true) (d_popped s) -> wire s = taken s.
Proof.
  unfold wire, taken. induction (d_popped s) as [|[m b] l IH]; intros H; [reflexivity|].
  inversion H as [|? ? Hb Hl]; subst. cbn in Hb. subst b. cbn [filter snd map fst]. rewrite IH by assumption. reflexivity.
Qed.

Definition no_write_failure (d : N) (o : qop) : Prop :=
  match o with QWrite d' false => d' <> d | _ => True end.

Lemma step_popped_ok c st o d :
  no_write_failure d o -> Forall (fun p => snd p = true) (d_popped (st d)) ->
  Forall (fun p => snd p = true) (d_popped (fst (step c st o) d)).
Proof.
  intros Hn H. destruct (N.eq_dec d (target o)) as [->|Hne]; [|rewrite step_isolation by assumption; exact H].
  destruct o as [d m|d ok|d ok]; cbn [target] in *; cbn [step].
  - destruct (negb _); [exact H|]. destruct (_ <? _); [cbn [fst]; rewrite upd_same; exact H|].
    destruct (fix_timeout_panic c); exact H.
  - destruct (d_up (st d)); [exact H|]. cbn [fst]. rewrite upd_same. exact H.
  - destruct (d_up (st d)); [|exact H]. destruct (d_queue (st d)) as [|m q']; [exact H|].
    cbn [fst]. rewrite upd_same. cbn [d_popped]. apply Forall_app. split; [exact H|].
    constructor; [|constructor]. cbn [snd]. destruct ok; [reflexivity|]. cbn in Hn. congruence.
Qed.

Lemma run_popped_ok c ops st d :
  Forall (no_write_failure d) ops -> Forall (fun p => snd p = true) (d_popped (st d)) ->
  Forall (fun p => snd p = true) (d_popped (fst (run c st ops) d)).
Proof.
  revert st. induction ops as [|o t IH]; intros st Hn H; [exact H|].
  inversion Hn as [|? ? Ho Ht]; subst. cbn [run].
  destruct (step c st o) as [st1 r] eqn:E1. destruct (run c st1 t) as [st2 rs] eqn:E2. cbn [fst].
  change st2 with (fst (st2, rs)). rewrite <- E2. apply IH; [assumption|].
  change st1 with (fst (st1, r)). rewrite <- E1. apply step_popped_ok; assumption.
Qed.

(* C17, queue: while the connection to d stays up, the frames on the wire towards d followed by the queued ones are
   exactly the accepted messages in the order of acceptance -- each once; with an empty queue: wire = accepted *)
Theorem fifo_exactly_once c ops d :
  Forall (no_write_failure d) ops ->
  let s := fst (run c q_init ops) d in
  wire s ++ d_queue s = d_accepted s /\ (d_queue s = [] -> wire s = d_accepted s).
Proof.
  intros Hn s.
  assert (W : wire s = taken s) by (apply wire_taken; apply run_popped_ok; [assumption|constructor]).
  pose proof (fifo_general c ops d) as G. cbv zeta in G. fold s in G.
  split; [rewrite W; exact G|]. intros Hq. rewrite W, <- G, Hq. symmetry. apply app_nil_r.
Qed.

(* the queue of a destination never holds more than its capacity *)
Theorem queue_bounded c ops d : lenN (d_queue (fst (run c q_init ops) d)) <= q_cap c d.
Proof. apply (run_inv c ops q_init (init_inv c) d). Qed.

(* no operation panics (repaired code; Send is only called for destinations of the map) *)
Theorem step_no_panic c st o :
  fix_timeout_panic c = true -> (forall d m, o = QEnq d m -> memb d (q_members c) = true) ->
  snd (step c st o) <> Panic.
Proof.
  intros F M. destruct o as [d m|d ok|d ok]; cbn [step].
  - rewrite (M d m eq_refl). cbn [negb]. destruct (_ <? _); [discriminate|]. rewrite F. discriminate.
  - destruct (d_up (st d)); discriminate.
  - destruct (d_up (st d)); [|discriminate]. destruct (d_queue (st d)); discriminate.
Qed.

Theorem run_no_panic c ops st :
  fix_timeout_panic c = true ->
  Forall (fun o => forall d m, o = QEnq d m -> memb d (q_members c) = true) ops ->
  Forall (fun r => r <> Panic) (snd (run c st ops)).
Proof.
  intros F. revert st. induction ops as [|o t IH]; intros st H; [constructor|].
  inversion H as [|? ? Ho Ht]; subst. cbn [run].
  pose proof (step_no_panic c st o F Ho) as P.
  destruct (step c st o) as [st1 r]. specialize (IH st1 Ht). destruct (run c st1 t) as [st2 rs].
  cbn [snd] in *. constructor; assumption.
Qed.

(* an operation reads and writes only the state of its own destination *)
Lemma step_local c st st' o :
  st (target o) = st' (target o) ->
  fst (step c st o) (target o) = fst (step c st' o) (target o) /\ snd (step c st o) = snd (step c st' o).
Proof.
  intros E. destruct o as [d m|d ok|d ok]; cbn [target] in E; cbn [step target]; rewrite <- E.
  - destruct (negb _); [split; [exact E|reflexivity]|].
    destruct (_ <? _); [cbn [fst snd]; rewrite !upd_same; split; reflexivity|].
    destruct (fix_timeout_panic c); (split; [exact E|reflexivity]).
  - destruct (d_up (st d)); [split; [exact E|reflexivity]|]. cbn [fst snd]. rewrite !upd_same. split; reflexivity.
  - destruct (d_up (st d)); [|split; [exact E|reflexivity]].
    destruct (d_queue (st d)); [split; [exact E|reflexivity]|]. cbn [fst snd]. rewrite !upd_same. split; reflexivity.
Qed.

Lemma run_filter c d' ops : forall st st',
  st d' = st' d' ->
  fst (run c st ops) d' = fst (run c st' (filter (fun o => target o =? d') ops)) d'.
Proof.
  induction ops as [|o t IH]; intros st st' A; [exact A|].
  cbn [run filter]. destruct (target o =? d') eqn:E.
  - apply N.eqb_eq in E. subst d'. cbn [run].
    destruct (step_local c st st' o A) as [L _].
    destruct (step c st o) as [st1 r]. destruct (step c st' o) as [st1' r']. cbn [fst] in L.
    specialize (IH st1 st1' L).
    destruct (run c st1 t) as [st2 rs]. destruct (run c st1' (filter _ t)) as [st3 rs3]. exact IH.
  - apply N.eqb_neq in E.
    assert (A1 : fst (step c st o) d' = st' d') by (rewrite step_isolation by congruence; exact A).
    destruct (step c st o) as [st1 r]. cbn [fst] in A1. specialize (IH st1 st' A1).
    destruct (run c st1 t) as [st2 rs]. exact IH.
Qed.

(* a failing destination costs the others nothing: whatever happens elsewhere (failed connects, failed writes, full
   queues, timeouts), destination d' ends in the state it reaches when only the operations on d' are run *)
Theorem failing_peer_isolated c ops d' :
  fst (run c q_init ops) d' = fst (run c q_init (filter (fun o => target o =? d') ops)) d'.
Proof. apply run_filter. reflexivity. Qed.

(* ---- per-caller order ---------------------------------------------------------------------------------------- *)
(* QEnq is atomic: when it returns the message is either in the queue (accepted) or dropped (timeout) -- Send never
   returns while its message is neither.  Hence the accepted messages of a destination are, in order, exactly the
   messages of the enqueue operations that were accepted, in the order of those operations; for one caller (whose
   Send calls are sequential) that is the order of its calls.  With fifo_general: wire order = call order. *)
Fixpoint enq_accepted (d : N) (ops : list qop) (rs : list (outcome qres)) : list N :=
  match ops, rs with
  | QEnq d' m :: t, Ok RAccepted :: rt => if d' =? d then m :: enq_accepted d t rt else enq_accepted d t rt
  | _ :: t, _ :: rt => enq_accepted d t rt
  | _, _ => []
  end.

Lemma step_accepted c st o d :
  d_accepted (fst (step c st o) d) =
  d_accepted (st d) ++ enq_accepted d [o] [snd (step c st o)].
Proof.
  destruct o as [d' m|d' ok|d' ok]; cbn [step].
  - destruct (negb _); [cbn; symmetry; apply app_nil_r|].
    destruct (_ <? _).
    + cbn [fst snd enq_accepted]. unfold upd. rewrite (N.eqb_sym d' d).
      destruct (d =? d') eqn:E; [apply N.eqb_eq in E; subst; reflexivity|symmetry; apply app_nil_r].
    + destruct (fix_timeout_panic c); cbn; symmetry; apply app_nil_r.
  - destruct (d_up (st d')); cbn [fst snd enq_accepted]; [symmetry; apply app_nil_r|].
    unfold upd. destruct (d =? d') eqn:E; [apply N.eqb_eq in E; subst; cbn; symmetry; apply app_nil_r|symmetry; apply app_nil_r].
  - destruct (d_up (st d')); [|cbn; symmetry; apply app_nil_r].
    destruct (d_queue (st d')) eqn:Eq; cbn [fst snd enq_accepted]; [symmetry; apply app_nil_r|].
    unfold upd. destruct (d =? d') eqn:E; [apply N.eqb_eq in E; subst; cbn; symmetry; apply app_nil_r|symmetry; apply app_nil_r].
Qed.

Lemma run_accepted c ops : forall st d,
  d_accepted (fst (run c st ops) d) = d_accepted (st d) ++ enq_accepted d ops (snd (run c st ops)).
Proof.
  induction ops as [|o t IH]; intros st d; [cbn; symmetry; apply app_nil_r|].
  cbn [run]. pose proof (step_accepted c st o d) as S.
  destruct (step c st o) as [st1 r]. specialize (IH st1 d).
  destruct (run c st1 t) as [st2 rs]. cbn [fst snd] in *. rewrite IH, S, <- app_assoc. f_equal.
  destruct o as [d' m| |]; cbn [enq_accepted]; try reflexivity.
  destruct r as [[| |]| |]; try reflexivity. destruct (d' =? d); reflexivity.
Qed.

(* C17, per-caller order: what is taken by the writer followed by what waits is the list of accepted enqueue
   operations in the order in which they were performed *)
Theorem call_order c ops d :
  let r := run c q_init ops in
  taken (fst r d) ++ d_queue (fst r d) = enq_accepted d ops (snd r).
Proof.
  cbv zeta. rewrite (fifo_general c ops d). rewrite run_accepted. reflexivity.
Qed.

(* ---- the pinned tree panicked on a full queue; non-vacuity ----------------------------------------------- *)

Definition cfg_ex (fx : bool) := mkQ fx [1; 2; 3] (fun _ => 2).

Lemma timeout_tree_refuted :
  snd (run (cfg_ex false) q_init [QEnq 1 10; QEnq 1 11; QEnq 1 12]) = [Ok RAccepted; Ok RAccepted; Panic] /\
  snd (run (cfg_ex true) q_init [QEnq 1 10; QEnq 1 11; QEnq 1 12]) = [Ok RAccepted; Ok RAccepted; Ok RDropped].
Proof. split; vm_compute; reflexivity. Qed.

Example queue_example :
  let ops := [QEnq 1 10; QEnq 2 20; QConnect 2 false; QEnq 1 11; QConnect 1 true; QWrite 1 true; QEnq 1 12;
              QEnq 2 21; QEnq 2 22; QWrite 1 true; QConnect 2 true; QWrite 2 true; QWrite 2 false; QWrite 1 true] in
  let st := fst (run (cfg_ex true) q_init ops) in
  wire (st 1) = [10; 11; 12] /\ d_queue (st 1) = [] /\ d_accepted (st 1) = [10; 11; 12] /\
  wire (st 2) = [20] /\ taken (st 2) = [20; 21] /\ d_up (st 2) = false /\ d_accepted (st 2) = [20; 21] /\
  st 3 = d_init /\ Forall (no_write_failure 1) ops.
Proof. cbv zeta. repeat split; try (vm_compute; reflexivity). repeat constructor; discriminate. Qed.
