(* Theorems about the frame codec (Net/Frame.v): stream round trip for every list of legal frames within the
   limit, refusal of oversize headers, totality of the reader, safety under truncation. *)
Require Import TSS.Base.Base TSS.Gen.NetConsts TSS.Net.Frame.
From Coq Require Import Arith ZArith ZifyN ZifyNat ZifyBool.
Open Scope N_scope.

Ltac Zify.zify_post_hook ::= Z.div_mod_to_equations.

(* ---- lengths, takeN / dropN -------------------------------------------------------- *)

Lemma lenN_nil {A} : lenN (@nil A) = 0.
Proof. reflexivity. Qed.
Lemma lenN_cons {A} (x : A) l : lenN (x :: l) = N.succ (lenN l).
Proof. unfold lenN. cbn [length]. lia. Qed.
Lemma lenN_app {A} (a b : list A) : lenN (a ++ b) = lenN a + lenN b.
Proof. unfold lenN. rewrite app_length. lia. Qed.
Lemma lenN_firstn {A} k (l : list A) : lenN (firstn k l) = N.min (N.of_nat k) (lenN l).
Proof. unfold lenN. rewrite firstn_length. lia. Qed.
Lemma lenN_0 {A} (l : list A) : lenN l = 0 -> l = [].
Proof. destruct l; [reflexivity|]. rewrite lenN_cons. lia. Qed.

Lemma takeN_0 {A} (l : list A) : takeN 0 l = [].
Proof. destruct l; reflexivity. Qed.
Lemma dropN_0 {A} (l : list A) : dropN 0 l = l.
Proof. destruct l; reflexivity. Qed.

Lemma takeN_succ {A} n (x : A) l : takeN (N.succ n) (x :: l) = x :: takeN n l.
Proof.
  cbn [takeN]. destruct (N.succ n =? 0) eqn:E; [apply N.eqb_eq in E; lia|]. rewrite N.pred_succ. reflexivity.
Qed.
Lemma dropN_succ {A} n (x : A) l : dropN (N.succ n) (x :: l) = dropN n l.
Proof.
  cbn [dropN]. destruct (N.succ n =? 0) eqn:E; [apply N.eqb_eq in E; lia|]. rewrite N.pred_succ. reflexivity.
Qed.

Lemma takeN_app_exact {A} (a b : list A) : takeN (lenN a) (a ++ b) = a.
Proof.
  induction a as [|x a IH]; [apply takeN_0|].
  rewrite lenN_cons. cbn [app]. rewrite takeN_succ, IH. reflexivity.
Qed.
Lemma dropN_app_exact {A} (a b : list A) : dropN (lenN a) (a ++ b) = b.
Proof.
  induction a as [|x a IH]; [apply dropN_0|].
  rewrite lenN_cons. cbn [app]. rewrite dropN_succ, IH. reflexivity.
Qed.

Lemma lenN_dropN {A} n (l : list A) : lenN (dropN n l) = lenN l - n.
Proof.
  revert n. induction l as [|x l IH]; intros n; [reflexivity|].
  destruct (N.eq_dec n 0) as [->|Hn]; [rewrite dropN_0; lia|].
  replace n with (N.succ (N.pred n)) by lia. rewrite dropN_succ, IH, lenN_cons. lia.
Qed.
Lemma lenN_takeN {A} n (l : list A) : lenN (takeN n l) = N.min n (lenN l).
Proof.
  revert n. induction l as [|x l IH]; intros n; [cbn [takeN]; rewrite lenN_nil; lia|].
  destruct (N.eq_dec n 0) as [->|Hn]; [rewrite takeN_0, lenN_nil; lia|].
  replace n with (N.succ (N.pred n)) at 1 by lia. rewrite takeN_succ, !lenN_cons, IH. lia.
Qed.

(* ---- the length prefix -------------------------------------------------------------- *)

Lemma max_buff_len_u32 : max_buff_len <= u32_max.
Proof. apply N.leb_le. vm_compute. reflexivity. Qed.

Lemma le32_roundtrip n :
  n <= u32_max ->
  le32_val (n mod 256) ((n / 256) mod 256) ((n / 65536) mod 256) ((n / 16777216) mod 256) = n.
Proof. unfold le32_val, u32_max. intros H. lia. Qed.

Lemma le32_bytes_ok n : bytes_ok (le32 n).
Proof. unfold le32. repeat constructor; unfold byte_ok; apply N.mod_lt; discriminate. Qed.

(* readMsg on a stream that starts with a well-formed header announcing len *)
Lemma read_msg_header ty len r :
  len <= u32_max ->
  read_msg (ty :: le32 len ++ r) =
    if max_buff_len <? len then Err
    else let tl := if has_topic ty then 32 else 0 in
         if lenN r <? tl then Err
         else let r' := dropN tl r in
              if lenN r' <? len then Err
              else Ok (mkFrame ty (takeN tl r) (takeN len r'), dropN len r').
Proof.
  intros H. unfold le32. cbn [app]. unfold read_msg. rewrite le32_roundtrip by assumption. reflexivity.
Qed.

(* ---- one frame ------------------------------------------------------------------------ *)

Definition within_limit (f : frame) : Prop := lenN (f_data f) <= max_buff_len.

Lemma legal_topic_len f : legal f -> lenN (f_topic f) = if has_topic (f_ty f) then 32 else 0.
Proof. intros [_ [[-> H]|[-> ->]]]; [assumption|reflexivity]. Qed.

Lemma legalb_spec f : legalb f = true <-> legal f.
Proof.
  unfold legalb, legal. destruct f as [ty topic data]; cbn [f_ty f_topic f_data]. split.
  - intros H. apply andb_true_iff in H. destruct H as [H1 H2]. apply N.ltb_lt in H1. split; [assumption|].
    destruct (has_topic ty).
    + left. split; [reflexivity|apply N.eqb_eq; assumption].
    + right. split; [reflexivity|]. destruct topic; [reflexivity|discriminate].
  - intros [H1 [[H2 H3]|[H2 H3]]]; apply andb_true_iff; (split; [apply N.ltb_lt; assumption|]); rewrite H2.
    + apply N.eqb_eq; assumption.
    + rewrite H3. reflexivity.
Qed.

Lemma encode_frame_legal f :
  legal f -> within_limit f ->
  encode_frame (f_ty f) (f_topic f) (f_data f) = Ok (f_ty f :: le32 (lenN (f_data f)) ++ f_topic f ++ f_data f).
Proof.
  intros L W. unfold encode_frame, encode_header.
  rewrite (legal_topic_len f L).
  assert (E1 : negb (((if has_topic (f_ty f) then 32 else 0) =? 0) || ((if has_topic (f_ty f) then 32 else 0) =? 32)) = false)
    by (destruct (has_topic (f_ty f)); reflexivity).
  rewrite E1.
  assert (E2 : u32_max <? lenN (f_data f) = false).
  { apply N.ltb_ge. pose proof max_buff_len_u32. unfold within_limit in W. lia. }
  rewrite E2. cbn [app]. rewrite <- app_assoc. reflexivity.
Qed.

(* the frame a legal, size-conforming Send puts on the wire is read back exactly, whatever follows it *)
Lemma frame_roundtrip f rest :
  legal f -> within_limit f ->
  exists e, encode_frame (f_ty f) (f_topic f) (f_data f) = Ok e /\ (5 <= length e)%nat /\
            read_msg (e ++ rest) = Ok (f, rest).
Proof.
  intros L W. eexists. split; [apply encode_frame_legal; assumption|]. split.
  { cbn [length]. unfold le32. cbn [length app]. lia. }
  pose proof max_buff_len_u32 as HU. unfold within_limit in W.
  change ((f_ty f :: le32 (lenN (f_data f)) ++ f_topic f ++ f_data f) ++ rest)
    with (f_ty f :: (le32 (lenN (f_data f)) ++ f_topic f ++ f_data f) ++ rest).
  rewrite <- !app_assoc.
  rewrite read_msg_header by lia.
  destruct (max_buff_len <? lenN (f_data f)) eqn:E1; [apply N.ltb_lt in E1; lia|].
  cbv zeta. rewrite <- (legal_topic_len f L).
  destruct (lenN (f_topic f ++ f_data f ++ rest) <? lenN (f_topic f)) eqn:E2;
    [apply N.ltb_lt in E2; rewrite lenN_app in E2; lia|].
  rewrite dropN_app_exact, takeN_app_exact.
  destruct (lenN (f_data f ++ rest) <? lenN (f_data f)) eqn:E3;
    [apply N.ltb_lt in E3; rewrite lenN_app in E3; lia|].
  rewrite dropN_app_exact, takeN_app_exact. destruct f; reflexivity.
Qed.

(* ---- streams ---------------------------------------------------------------------------- *)

Lemma decode_fuel_frame f e s' fuel :
  legal f -> within_limit f -> encode_frame (f_ty f) (f_topic f) (f_data f) = Ok e ->
  decode_fuel (S fuel) (e ++ s') = (f :: fst (decode_fuel fuel s'), snd (decode_fuel fuel s')).
Proof.
  intros L W E. destruct (frame_roundtrip f s' L W) as (e' & E' & Hlen & R).
  rewrite E in E'. inversion E'; subst e'. clear E'.
  cbn [decode_fuel]. destruct (e ++ s') eqn:Es.
  - destruct e; [cbn in Hlen; lia|discriminate].
  - rewrite R. destruct (decode_fuel fuel s'). reflexivity.
Qed.

Lemma encode_stream_cons f fs s :
  encode_stream (f :: fs) = Ok s ->
  exists e s', encode_frame (f_ty f) (f_topic f) (f_data f) = Ok e /\ encode_stream fs = Ok s' /\ s = e ++ s'.
Proof.
  cbn [encode_stream]. destruct (encode_frame _ _ _) as [e| |]; destruct (encode_stream fs) as [s'| |]; try discriminate.
  intros H; inversion H. eauto.
Qed.

Lemma stream_roundtrip_fuel fs :
  Forall legal fs -> Forall within_limit fs ->
  exists s, encode_stream fs = Ok s /\
            forall fuel, (length s < fuel)%nat -> decode_fuel fuel s = (fs, Ok tt).
Proof.
  induction fs as [|f fs IH]; intros HL HW.
  - exists []. split; [reflexivity|]. intros fuel H. destruct fuel; [cbn in H; lia|reflexivity].
  - inversion HL as [|? ? L HL']; inversion HW as [|? ? W HW']; subst.
    destruct (IH HL' HW') as (s' & Es' & D).
    destruct (frame_roundtrip f [] L W) as (e & Ee & Hlen & _).
    exists (e ++ s'). split; [cbn [encode_stream]; rewrite Ee, Es'; reflexivity|].
    intros fuel H. rewrite app_length in H. destruct fuel as [|fuel]; [lia|].
    rewrite (decode_fuel_frame f e s' fuel L W Ee), D by lia. reflexivity.
Qed.

(* C17, framing: every sequence of legal frames with payloads of 0 .. limit bytes, written back to back on one
   connection, is read as exactly that sequence, and the reader then sits at a frame boundary *)
Theorem stream_roundtrip fs :
  Forall legal fs -> Forall within_limit fs ->
  exists s, encode_stream fs = Ok s /\ decode_stream s = (fs, Ok tt).
Proof.
  intros HL HW. destruct (stream_roundtrip_fuel fs HL HW) as (s & E & D).
  exists s. split; [assumption|]. apply D. lia.
Qed.

(* a header announcing more than the limit is refused, whatever the type and whatever follows *)
Theorem limit_refused ty b0 b1 b2 b3 rest :
  max_buff_len < le32_val b0 b1 b2 b3 -> read_msg (ty :: b0 :: b1 :: b2 :: b3 :: rest) = Err.
Proof. intros H. unfold read_msg. apply N.ltb_lt in H. rewrite H. reflexivity. Qed.

Corollary limit_refused_len ty len rest :
  max_buff_len < len -> len <= u32_max -> read_msg (ty :: le32 len ++ rest) = Err.
Proof. intros H1 H2. rewrite read_msg_header by assumption. apply N.ltb_lt in H1. rewrite H1. reflexivity. Qed.

(* ... also in mid-stream: the frames before it are delivered, nothing of or after the oversize frame is *)
Theorem limit_refused_stream fs ty len rest :
  Forall legal fs -> Forall within_limit fs -> max_buff_len < len -> len <= u32_max ->
  exists s, encode_stream fs = Ok s /\ decode_stream (s ++ ty :: le32 len ++ rest) = (fs, Err).
Proof.
  intros HL HW H1 H2. unfold decode_stream.
  assert (G : exists s, encode_stream fs = Ok s /\ forall fuel, (length (s ++ ty :: le32 len ++ rest) < fuel)%nat ->
                 decode_fuel fuel (s ++ ty :: le32 len ++ rest) = (fs, Err)).
  { induction fs as [|f fs IH].
    - exists []. split; [reflexivity|]. intros fuel H. destruct fuel; [lia|].
      cbn [app decode_fuel]. rewrite limit_refused_len by assumption. reflexivity.
    - inversion HL as [|? ? L HL']; inversion HW as [|? ? W HW']; subst.
      destruct (IH HL' HW') as (s' & Es' & D).
      destruct (frame_roundtrip f [] L W) as (e & Ee & Hlen & _).
      exists (e ++ s'). split; [cbn [encode_stream]; rewrite Ee, Es'; reflexivity|].
      intros fuel H. rewrite <- app_assoc in *. rewrite app_length in H. destruct fuel as [|fuel]; [lia|].
      rewrite (decode_fuel_frame f e _ fuel L W Ee), D by lia. reflexivity. }
  destruct G as (s & E & D). exists s. split; [assumption|]. apply D. lia.
Qed.

(* ---- totality ------------------------------------------------------------------------------ *)

Theorem read_msg_total s : read_msg s <> Panic.
Proof.
  unfold read_msg. destruct s as [|ty [|b0 [|b1 [|b2 [|b3 r]]]]]; try discriminate.
  destruct (max_buff_len <? _); [discriminate|]. cbv zeta.
  destruct (lenN r <? _); [discriminate|]. destruct (lenN _ <? _); discriminate.
Qed.

Lemma decode_fuel_total fuel s : snd (decode_fuel fuel s) <> Panic.
Proof.
  revert s. induction fuel as [|fuel IH]; intros s; [discriminate|].
  cbn [decode_fuel]. destruct s as [|x s]; [discriminate|].
  pose proof (read_msg_total (x :: s)) as T.
  destruct (read_msg (x :: s)) as [[f rest]| |]; [|discriminate|congruence].
  specialize (IH rest). destruct (decode_fuel fuel rest). exact IH.
Qed.

(* the reader never panics, on any byte sequence whatsoever *)
Theorem decode_stream_total s : snd (decode_stream s) <> Panic.
Proof. apply decode_fuel_total. Qed.

(* every frame the reader hands on respects the limit and the topic table *)
Lemma read_msg_shape s f rest :
  read_msg s = Ok (f, rest) ->
  lenN (f_data f) <= max_buff_len /\ lenN (f_topic f) = (if has_topic (f_ty f) then 32 else 0) /\
  (length rest < length s)%nat.
Proof.
  unfold read_msg. destruct s as [|ty [|b0 [|b1 [|b2 [|b3 r]]]]]; try discriminate.
  destruct (max_buff_len <? _) eqn:E1; [discriminate|]. cbv zeta.
  destruct (lenN r <? _) eqn:E2; [discriminate|]. destruct (lenN (dropN _ r) <? _) eqn:E3; [discriminate|].
  intros H; inversion H; subst; clear H. cbn [f_data f_topic f_ty].
  apply N.ltb_ge in E1, E2, E3. rewrite !lenN_takeN. rewrite lenN_dropN in E3.
  split; [lia|]. split; [lia|].
  assert (lenN (dropN (le32_val b0 b1 b2 b3) (dropN (if has_topic ty then 32 else 0) r)) <= lenN r)
    by (rewrite !lenN_dropN; lia).
  unfold lenN in H. cbn [length]. lia.
Qed.

(* the length-only decision is exactly readMsg's *)
Lemma read_msg_decision_spec ty b0 b1 b2 b3 r :
  match read_msg (ty :: b0 :: b1 :: b2 :: b3 :: r) with
  | Ok (f, rest) => read_msg_decision ty b0 b1 b2 b3 (lenN r) = Ok (f_ty f, lenN (f_topic f), lenN (f_data f)) /\
                    lenN rest = lenN r - lenN (f_topic f) - lenN (f_data f)
  | Err => read_msg_decision ty b0 b1 b2 b3 (lenN r) = Err
  | Panic => False
  end.
Proof.
  unfold read_msg, read_msg_decision.
  destruct (max_buff_len <? _); [reflexivity|]. cbv zeta.
  generalize (if has_topic ty then 32 else 0). intros tl.
  destruct (lenN r <? tl) eqn:E2; [reflexivity|]. rewrite lenN_dropN.
  destruct (lenN r - tl <? le32_val b0 b1 b2 b3) eqn:E3; [reflexivity|].
  apply N.ltb_ge in E2, E3. cbn [f_ty f_topic f_data]. rewrite !lenN_takeN, !lenN_dropN.
  replace (N.min tl (lenN r)) with tl by lia.
  replace (N.min (le32_val b0 b1 b2 b3) (lenN r - tl)) with (le32_val b0 b1 b2 b3) by lia.
  split; [reflexivity|lia].
Qed.

(* ---- truncation ------------------------------------------------------------------------------ *)

Lemma read_msg_lt5 s : (length s < 5)%nat -> read_msg s = Err.
Proof.
  intros H. destruct s as [|ty [|b0 [|b1 [|b2 [|b3 r]]]]]; try reflexivity. cbn [length] in H. lia.
Qed.

Lemma read_msg_short ty len r :
  len <= max_buff_len -> lenN r < (if has_topic ty then 32 else 0) + len ->
  read_msg (ty :: le32 len ++ r) = Err.
Proof.
  intros H1 H2. pose proof max_buff_len_u32. rewrite read_msg_header by lia.
  destruct (max_buff_len <? len); [reflexivity|]. cbv zeta.
  destruct (lenN r <? _) eqn:E2; [reflexivity|]. apply N.ltb_ge in E2.
  destruct (lenN (dropN _ r) <? len) eqn:E3; [reflexivity|]. apply N.ltb_ge in E3.
  rewrite lenN_dropN in E3. lia.
Qed.

(* a proper, non-empty prefix of one encoded frame makes readMsg fail *)
Lemma read_msg_truncated f k :
  legal f -> within_limit f ->
  let e := f_ty f :: le32 (lenN (f_data f)) ++ f_topic f ++ f_data f in
  (k < length e)%nat -> read_msg (firstn k e) = Err.
Proof.
  intros L W e Hk. unfold within_limit in W.
  destruct (Nat.lt_ge_cases k 5) as [H5|H5].
  - apply read_msg_lt5. rewrite firstn_length. lia.
  - destruct k as [|[|[|[|[|k]]]]]; try lia. unfold e, le32 in *. cbn [app firstn].
    change (f_ty f :: ?a :: ?b :: ?c :: ?d :: ?r) with (f_ty f :: le32 (lenN (f_data f)) ++ r).
    apply read_msg_short; [assumption|].
    rewrite lenN_firstn, lenN_app, <- (legal_topic_len f L).
    cbn [length app] in Hk. rewrite app_length in Hk. unfold lenN. lia.
Qed.

Lemma firstn_app_ge {A} k (a b : list A) : (length a <= k)%nat -> firstn k (a ++ b) = a ++ firstn (k - length a) b.
Proof. intros H. rewrite firstn_app, firstn_all2 by assumption. reflexivity. Qed.
Lemma firstn_app_lt {A} k (a b : list A) : (k < length a)%nat -> firstn k (a ++ b) = firstn k a.
Proof.
  intros H. rewrite firstn_app. replace (k - length a)%nat with 0%nat by lia. cbn [firstn]. apply app_nil_r.
Qed.

Lemma truncated_fuel fs :
  Forall legal fs -> Forall within_limit fs ->
  forall s, encode_stream fs = Ok s ->
  forall k fuel, (k < length s)%nat -> (k < fuel)%nat ->
  exists fs1 fs2, fs = fs1 ++ fs2 /\ fs2 <> [] /\
     ((decode_fuel fuel (firstn k s) = (fs1, Ok tt) /\ encode_stream fs1 = Ok (firstn k s)) \/
       decode_fuel fuel (firstn k s) = (fs1, Err)).
Proof.
  induction fs as [|f fs IH]; intros HL HW s E k fuel Hk Hf.
  - cbn in E. inversion E; subst. cbn in Hk. lia.
  - inversion HL as [|? ? L HL']; inversion HW as [|? ? W HW']; subst.
    destruct (encode_stream_cons f fs s E) as (e & s' & Ee & Es' & ->).
    pose proof (encode_frame_legal f L W) as Ee'. rewrite Ee in Ee'.
    assert (He : e = f_ty f :: le32 (lenN (f_data f)) ++ f_topic f ++ f_data f) by congruence. clear Ee'.
    destruct fuel as [|fuel]; [lia|].
    destruct (Nat.lt_ge_cases k (length e)) as [Hlt|Hge].
    + (* the cut falls inside the first frame *)
      exists [], (f :: fs). split; [reflexivity|]. split; [discriminate|].
      rewrite firstn_app_lt by assumption.
      destruct k as [|k].
      * left. split; reflexivity.
      * right. cbn [decode_fuel].
        destruct (firstn (S k) e) eqn:Ef; [subst e; discriminate|].
        rewrite <- Ef. subst e. rewrite read_msg_truncated by assumption. reflexivity.
    + (* the first frame is complete *)
      rewrite firstn_app_ge by assumption.
      rewrite app_length in Hk.
      assert (5 <= length e)%nat by (subst e; cbn [length]; unfold le32; cbn [length app]; lia).
      destruct (IH HL' HW' s' Es' (k - length e)%nat fuel) as (fs1 & fs2 & -> & Hne & D); [lia|lia|].
      exists (f :: fs1), fs2. split; [reflexivity|]. split; [assumption|].
      rewrite (decode_fuel_frame f e _ fuel L W Ee).
      destruct D as [[D1 D2]|D1]; rewrite D1; cbn [fst snd].
      * left. split; [reflexivity|]. cbn [encode_stream]. rewrite Ee, D2. reflexivity.
      * right. reflexivity.
Qed.

(* C17, a connection cut anywhere: the reader hands on a prefix of the frames that were sent -- never a frame
   that was not sent, never one out of order -- and unless the cut is at a frame boundary it ends with an error *)
Theorem truncated_stream fs s k :
  Forall legal fs -> Forall within_limit fs -> encode_stream fs = Ok s -> (k < length s)%nat ->
  exists fs1 fs2, fs = fs1 ++ fs2 /\ fs2 <> [] /\
     ((decode_stream (firstn k s) = (fs1, Ok tt) /\ encode_stream fs1 = Ok (firstn k s)) \/
       decode_stream (firstn k s) = (fs1, Err)).
Proof.
  intros HL HW E Hk. unfold decode_stream.
  apply (truncated_fuel fs HL HW s E k); [assumption|]. rewrite firstn_length. lia.
Qed.

(* non-vacuity: three frames (no topic / topic / empty payload), one stream, cut and uncut *)
Example frames_example :
  let fs := [mkFrame 0 [] [7; 8; 9]; mkFrame 2 (repeat 5 32) [1]; mkFrame 1 (repeat 6 32) []] in
  Forall legal fs /\ Forall within_limit fs /\
  (exists s, encode_stream fs = Ok s /\ length s = 83%nat /\ decode_stream s = (fs, Ok tt) /\
             decode_stream (firstn 50 s) = ([mkFrame 0 [] [7; 8; 9]; mkFrame 2 (repeat 5 32) [1]], Err) /\
             decode_stream (firstn 8 s) = ([mkFrame 0 [] [7; 8; 9]], Ok tt)) /\
  read_msg [0; 1; 0; 64; 1; 9] = Err.
Proof.
  cbv zeta. split; [|split; [|split]].
  - repeat constructor; apply legalb_spec; vm_compute; reflexivity.
  - repeat constructor; unfold within_limit; apply N.leb_le; vm_compute; reflexivity.
  - eexists. split; [vm_compute; reflexivity|]. repeat split; vm_compute; reflexivity.
  - vm_compute. reflexivity.
Qed.
