(* Model of the decision rules of the tss-lib adapters (mpc/binance/{ecdsa,eddsa}/mpc.go), property C19.

   ClassifyMsg   round := msgURL2Round[url] (0 when absent); if round > K then round - D (uint8); broadcast iff url is a key of
                 broadcastMessages.
   OnMsg         the parsed message is queued iff the key it is attributed to is a valid identifier (< limit) and equals the
                 transport-authenticated sender.
   Sign          the library's result is returned iff the bytes it reports as signed equal the bytes derived from the
                 requested digest.

   The tables, K, D, limit and the *shape* of the two comparisons are generated from the Go source (TSS.Gen.Adapters) before
   every build; this file is parametric in them.  tss-lib itself is not modelled: where a theorem is about what the library
   signs, the library is an arbitrary function. *)
From Coq Require Import String Ascii.
Require Import TSS.Base.Base.
Open Scope N_scope.

(* ------------------------------------------------------------------------------------------ tables *)

Fixpoint lookup (tbl : list (string * N)) (url : string) : option N :=
  match tbl with
  | [] => None
  | (k, v) :: t => if String.eqb k url then Some v else lookup t url
  end.

(* Go: msgURL2Round[url], zero value when absent *)
Definition raw_round (tbl : list (string * N)) (url : string) : N :=
  match lookup tbl url with Some r => r | None => 0 end.

Definition mem_str (s : string) (l : list string) : bool := existsb (String.eqb s) l.

Lemma mem_str_In s l : mem_str s l = true <-> In s l.
Proof.
  unfold mem_str. rewrite existsb_exists. split.
  - intros [x [Hin Heq]]. apply String.eqb_eq in Heq. now subst.
  - intros Hin. exists s. split; [exact Hin | apply String.eqb_refl].
Qed.

Lemma lookup_In tbl url v : lookup tbl url = Some v -> In (url, v) tbl.
Proof.
  induction tbl as [| [k w] t IH]; cbn [lookup]; [discriminate |].
  destruct (String.eqb k url) eqn:E.
  - intros H. inversion H; subst. apply String.eqb_eq in E. subst. now left.
  - intros H. right. now apply IH.
Qed.

(* ------------------------------------------------------------------------------------------ ClassifyMsg *)

Record rule := { r_threshold : N; r_offset : N }.

(* `if round > K { round = round - D }` on a uint8 *)
Definition adjust (ru : rule) (r : N) : N :=
  if r_threshold ru <? r then (r + 256 - r_offset ru) mod 256 else r.

Definition classify (ru : rule) (tbl : list (string * N)) (bc : list string) (url : string) : N * bool :=
  (adjust ru (raw_round tbl url), mem_str url bc).

(* The phase the rule itself implies: raw rounds 1..K are the first phase (key generation), raw rounds above K the second
   (signing); this is what makes `round - D` a phase-relative round number. *)
Definition is_signing (ru : rule) (tbl : list (string * N)) (url : string) : bool := r_threshold ru <? raw_round tbl url.

Definition same_phase ru tbl (u v : string) : bool := Bool.eqb (is_signing ru tbl u) (is_signing ru tbl v).

(* the bytes handed to ClassifyMsg: either they do not decode as a protobuf Any (error, round 0, p2p) or they carry a URL *)
Inductive cls_result := ClsErr | ClsOk (round : N) (bcast : bool).
Definition classify_wire ru tbl bc (decoded : option string) : cls_result :=
  match decoded with
  | None => ClsErr
  | Some url => let (r, b) := classify ru tbl bc url in ClsOk r b
  end.

(* substring test, used to relate the rule's notion of phase to the package name inside the type URL *)
Fixpoint contains (needle hay : string) : bool :=
  if String.prefix needle hay then true
  else match hay with
       | EmptyString => false
       | String _ t => contains needle t
       end.

(* ------------------------------------------------------------------------------------------ OnMsg *)

Inductive decision := Enqueue | Drop.

Record onmsg_cfg := { checks_key : bool; key_limit : N; checks_sender : bool }.

Definition on_msg_cfg (c : onmsg_cfg) (claimed from : N) : decision :=
  if (negb (checks_key c) || (claimed <? key_limit c)) && (negb (checks_sender c) || (claimed =? from))
  then Enqueue else Drop.

(* the rule as written in the pinned code: MaxUint16 compared with >=, claimedFrom != from refused *)
Definition onmsg_std : onmsg_cfg := {| checks_key := true; key_limit := 65535; checks_sender := true |}.
Definition on_msg : N -> N -> decision := on_msg_cfg onmsg_std.

(* What OnMsg does with wire bytes: tss-lib's wire format is the bare protobuf Any and carries no sender; the parsed
   message's sender is the PartyID that OnMsg itself builds from the transport sender.  `parsed` = the bytes decode as a
   known message type.  Result: the identifier the queued message is attributed to. *)
Definition on_msg_wire (c : onmsg_cfg) (parsed : bool) (from : N) : option N :=
  if parsed then match on_msg_cfg c from from with Enqueue => Some from | Drop => None end else None.

(* locatePartyIndex: the slot tss-lib files the message under = the position, in the session's party list (sorted by
   key), of the party whose key EQUALS the sender's; Go's -1 (None here) for everybody else.  tss-lib only refuses
   indices < 0 or >= n and never looks at the key again, so this lookup is part of the sender binding. *)
Fixpoint locate (ids : list N) (k : N) : option nat :=
  match ids with
  | [] => None
  | x :: t => if x =? k then Some O else match locate t k with Some i => Some (S i) | None => None end
  end.

(* the Go int as an N: index + 1, 0 for -1 *)
Definition slot_code (s : option nat) : N := match s with Some i => N.of_nat (S i) | None => 0 end.

(* What the code's lookup is known to be: `exact` = the translator recognised the linear scan returning the index of the
   equal key (and OnMsg using it for the PartyID built from the transport sender, and Init sorting the identifiers);
   otherwise nothing is known about the slot. *)
Definition slot_of (exact : bool) (ids : list N) (k : N) : option (option nat) :=
  if exact then Some (locate ids k) else None.

(* OnMsg on wire bytes, with the slot: (identifier the queued message is attributed to, slot it is filed under) *)
Definition on_msg_slot (c : onmsg_cfg) (parsed : bool) (ids : list N) (from : N) : option (N * option nat) :=
  match on_msg_wire c parsed from with
  | Some k => Some (k, locate ids k)
  | None => None
  end.

(* ------------------------------------------------------------------------------------------ Sign *)

Inductive sres := SOk (signed : bytes) | SErr.

(* the comparison of Sign: requested = bytes derived from the caller's digest, signed = SignatureData.M *)
Definition sign_result (requested signed : bytes) : sres :=
  if bytes_eqb requested signed then SOk signed else SErr.

(* big.Int.SetBytes followed by Bytes: leading zero bytes are lost *)
Fixpoint strip0 (d : bytes) : bytes :=
  match d with
  | 0 :: t => strip0 t
  | _ => d
  end.

(* big.Int.FillBytes into a buffer of n bytes (for values that fit) *)
Definition fill (n : nat) (b : bytes) : bytes := repeat 0 (n - length b)%nat ++ b.

Record sign_cfg := {
  compares : bool;      (* is sigOut.M compared at all *)
  target_full : bool;   (* compared with msgHash itself (true) or with msgToSign.Bytes() (false) *)
  full_len : bool       (* is len(msgHash) handed to the library as fullBytesLen *)
}.

(* EdDSA.  lib = what the library signs and reports in SignatureData.M, as a function of the digest. *)
Definition eddsa_sign (c : sign_cfg) (lib : bytes -> bytes) (d : bytes) : sres :=
  if compares c then sign_result (if target_full c then d else strip0 d) (lib d) else SOk (lib d).

(* tss-lib v2.0.2 eddsa/signing (round_3.go, finalize.go), honest run: m.Bytes() when fullBytesLen = 0, FillBytes otherwise *)
Definition eddsa_lib (c : sign_cfg) (d : bytes) : bytes :=
  if full_len c then match length d with O => strip0 d | n => fill n (strip0 d) end else strip0 d.

(* the pinned upstream code and the repaired code *)
Definition sign_tree : sign_cfg := {| compares := true; target_full := false; full_len := false |}.
Definition sign_fixed : sign_cfg := {| compares := true; target_full := true; full_len := true |}.

(* ECDSA.  The digest is turned into an integer as crypto/ecdsa does (leftmost orderBits bits); the library signs an
   integer and reports its big-endian bytes. *)
Fixpoint be_to_N_acc (acc : N) (d : bytes) : N :=
  match d with
  | [] => acc
  | b :: t => be_to_N_acc (acc * 256 + b) t
  end.
Definition be_to_N (d : bytes) : N := be_to_N_acc 0 d.

Definition order_bits_p256 : N := 256.
Definition hash_to_int (d : bytes) : N :=
  let order_bytes := N.to_nat ((order_bits_p256 + 7) / 8) in
  let h := firstn order_bytes d in
  let excess := (N.of_nat (length h) * 8 - order_bits_p256) in   (* truncated subtraction: 0 unless len*8 > orderBits *)
  N.shiftr (be_to_N h) excess.

(* bytes.Equal(sigOut.M, msgToSign.Bytes()) with msgToSign = hashToInt(msgHash): msgToSign.Bytes() is the canonical
   (no leading zero) big-endian form, so equality holds iff M is canonical and denotes the same integer. *)
Definition ecdsa_sign (compares_flag : bool) (lib : bytes -> bytes) (d : bytes) : sres :=
  let m := lib d in
  if compares_flag
  then if bytes_eqb (strip0 m) m && (be_to_N m =? hash_to_int d) then SOk m else SErr
  else SOk m.
