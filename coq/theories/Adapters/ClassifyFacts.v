(* Facts about the adapter decision rules (C19): generic soundness of the finite checks, then the instances for the tables
   generated from the Go source (TSS.Gen.Adapters) and for the routing table captured from tss-lib (TSS.Gen.AdaptersRouting). *)
From Coq Require Import String Ascii.
Require Import TSS.Base.Base TSS.Adapters.Classify.
Require TSS.Gen.Adapters TSS.Gen.AdaptersRouting.
Open Scope N_scope.

(* ========================================================================================== generic part *)

Section Tables.
  Variable ru : rule.
  Variable tbl : list (string * N).
  Variable bc : list string.
  Variable routing : list (string * (bool * bool)).

  Let cls := classify ru tbl bc.

  Definition known (u : string) : bool := match lookup tbl u with Some _ => true | None => false end.

  (* -- distinct rounds among broadcast-class URLs of one phase *)
  Definition distinct_check : bool :=
    forallb (fun u => forallb (fun v =>
       String.eqb u v || negb (same_phase ru tbl u v) || negb (fst (cls u) =? fst (cls v))) bc) bc.

  Lemma distinct_check_sound :
    distinct_check = true ->
    forall u v, snd (cls u) = true -> snd (cls v) = true -> u <> v -> same_phase ru tbl u v = true ->
                fst (cls u) <> fst (cls v).
  Proof.
    intros Hc u v Hu Hv Hne Hph Heq.
    unfold cls, classify in Hu, Hv. cbn [snd] in Hu, Hv.
    apply mem_str_In in Hu. apply mem_str_In in Hv.
    unfold distinct_check in Hc. rewrite forallb_forall in Hc.
    specialize (Hc u Hu). rewrite forallb_forall in Hc. specialize (Hc v Hv).
    apply orb_true_iff in Hc. destruct Hc as [Hc | Hc].
    - apply orb_true_iff in Hc. destruct Hc as [Hc | Hc].
      + apply String.eqb_eq in Hc. contradiction.
      + rewrite Hph in Hc. discriminate.
    - apply negb_true_iff in Hc. apply N.eqb_neq in Hc. contradiction.
  Qed.

  (* -- every broadcast-class URL has a round *)
  Definition bc_known_check : bool := forallb known bc.

  Lemma bc_known_check_sound :
    bc_known_check = true -> forall u, snd (cls u) = true -> exists r, lookup tbl u = Some r.
  Proof.
    intros Hc u Hu. unfold cls, classify in Hu. cbn [snd] in Hu. apply mem_str_In in Hu.
    unfold bc_known_check in Hc. rewrite forallb_forall in Hc. specialize (Hc u Hu).
    unfold known in Hc. destruct (lookup tbl u) as [r |]; [now exists r | discriminate].
  Qed.

  (* -- agreement with the captured routing table *)
  Definition matches_check : bool :=
    forallb (fun e => match e with (u, (b, ph)) =>
       Bool.eqb (snd (cls u)) b && known u && Bool.eqb (is_signing ru tbl u) ph end) routing.

  Lemma matches_check_sound :
    matches_check = true ->
    forall u b ph, In (u, (b, ph)) routing ->
      snd (cls u) = b /\ (exists r, lookup tbl u = Some r) /\ is_signing ru tbl u = ph.
  Proof.
    intros Hc u b ph Hin. unfold matches_check in Hc. rewrite forallb_forall in Hc. specialize (Hc _ Hin). cbn in Hc.
    apply andb_true_iff in Hc. destruct Hc as [Hc H3]. apply andb_true_iff in Hc. destruct Hc as [H1 H2].
    apply Bool.eqb_prop in H1. apply Bool.eqb_prop in H3. split; [exact H1 | split; [| exact H3]].
    unfold known in H2. destruct (lookup tbl u) as [r |]; [now exists r | discriminate].
  Qed.

  (* -- conversely every table key was seen on the wire *)
  Definition covered_check : bool :=
    forallb (fun e => existsb (fun r => String.eqb (fst e) (fst r)) routing) tbl.

  Lemma covered_check_sound :
    covered_check = true -> forall u r, In (u, r) tbl -> exists b ph, In (u, (b, ph)) routing.
  Proof.
    intros Hc u r Hin. unfold covered_check in Hc. rewrite forallb_forall in Hc. specialize (Hc _ Hin). cbn [fst] in Hc.
    apply existsb_exists in Hc. destruct Hc as [[u' [b ph]] [Hin' He]]. cbn [fst] in He. apply String.eqb_eq in He. subst u'.
    now exists b, ph.
  Qed.

  (* -- phase-relative numbering: within a phase the rounds of the table are pairwise distinct, lie in 1..(size of the phase)
        and stay below 128 (the acknowledgement encoding of threshold.Scheme keeps 7 bits for the round) *)
  Definition phase_size (sg : bool) : nat :=
    length (filter (fun e => Bool.eqb (r_threshold ru <? snd e) sg) tbl).

  Definition normal_check : bool :=
    forallb (fun e =>
      let r := adjust ru (snd e) in
      (1 <=? r) && (r <=? N.of_nat (phase_size (r_threshold ru <? snd e))) && (r <? 128) &&
      forallb (fun e' => String.eqb (fst e) (fst e') ||
                         negb (Bool.eqb (r_threshold ru <? snd e) (r_threshold ru <? snd e')) ||
                         negb (r =? adjust ru (snd e'))) tbl) tbl.

  Lemma normal_check_sound :
    normal_check = true ->
    forall u r, In (u, r) tbl ->
      1 <= adjust ru r <= N.of_nat (phase_size (r_threshold ru <? r)) /\ adjust ru r < 128 /\
      forall v r', In (v, r') tbl -> u <> v -> (r_threshold ru <? r) = (r_threshold ru <? r') -> adjust ru r <> adjust ru r'.
  Proof.
    intros Hc u r Hin. unfold normal_check in Hc. rewrite forallb_forall in Hc. specialize (Hc _ Hin). cbn [fst snd] in Hc.
    apply andb_true_iff in Hc. destruct Hc as [Hc H4]. apply andb_true_iff in Hc. destruct Hc as [Hc H3].
    apply andb_true_iff in Hc. destruct Hc as [H1 H2].
    apply N.leb_le in H1. apply N.leb_le in H2. apply N.ltb_lt in H3.
    split; [split; assumption | split; [assumption |]].
    intros v r' Hin' Hne Hph Heq. rewrite forallb_forall in H4. specialize (H4 _ Hin'). cbn [fst snd] in H4.
    apply orb_true_iff in H4. destruct H4 as [H4 | H4].
    - apply orb_true_iff in H4. destruct H4 as [H4 | H4].
      + apply String.eqb_eq in H4. contradiction.
      + rewrite Hph in H4. rewrite Bool.eqb_reflx in H4. discriminate.
    - apply negb_true_iff in H4. apply N.eqb_neq in H4. contradiction.
  Qed.

  (* -- the rule's phase agrees with the package named in the type URL *)
  Definition phase_url_check : bool :=
    forallb (fun e => Bool.eqb (is_signing ru tbl (fst e)) (contains ".signing." (fst e)) &&
                      Bool.eqb (negb (is_signing ru tbl (fst e))) (contains ".keygen." (fst e))) tbl.

  Lemma phase_url_check_sound :
    phase_url_check = true ->
    forall u r, In (u, r) tbl ->
      is_signing ru tbl u = contains ".signing." u /\ negb (is_signing ru tbl u) = contains ".keygen." u.
  Proof.
    intros Hc u r Hin. unfold phase_url_check in Hc. rewrite forallb_forall in Hc. specialize (Hc _ Hin). cbn [fst] in Hc.
    apply andb_true_iff in Hc. destruct Hc as [H1 H2]. apply Bool.eqb_prop in H1. apply Bool.eqb_prop in H2. now split.
  Qed.

  (* -- unknown URLs: round 0, p2p, no error (noted in DESIGN: they are not rejected by the classifier) *)
  Lemma classify_unknown u : lookup tbl u = None -> mem_str u bc = false -> cls u = (adjust ru 0, false).
  Proof. intros H1 H2. unfold cls, classify, raw_round. now rewrite H1, H2. Qed.
End Tables.

(* ------------------------------------------------------------------------------------------ OnMsg *)

Lemma on_msg_cfg_enqueue c claimed from :
  on_msg_cfg c claimed from = Enqueue ->
  (checks_sender c = true -> claimed = from) /\ (checks_key c = true -> claimed < key_limit c).
Proof.
  unfold on_msg_cfg. destruct (checks_key c), (checks_sender c); cbn [negb orb];
    destruct (claimed <? key_limit c) eqn:E1; destruct (claimed =? from) eqn:E2; cbn [andb]; try discriminate; intros _;
    try apply N.eqb_eq in E2; try apply N.ltb_lt in E1; split; intros H; try discriminate; assumption.
Qed.

Lemma on_msg_sender_bound claimed from : on_msg claimed from = Enqueue -> claimed = from /\ claimed < 65535.
Proof. intros H. apply on_msg_cfg_enqueue in H. destruct H as [H1 H2]. split; [now apply H1 | now apply H2]. Qed.

Lemma on_msg_wire_attribution c parsed from k : on_msg_wire c parsed from = Some k -> k = from /\ parsed = true.
Proof.
  unfold on_msg_wire. destruct parsed; [| discriminate]. destruct (on_msg_cfg c from from); [| discriminate].
  intros H. inversion H. now split.
Qed.

Lemma on_msg_wire_std parsed from :
  on_msg_wire onmsg_std parsed from = if parsed && (from <? 65535) then Some from else None.
Proof.
  unfold on_msg_wire, on_msg_cfg, onmsg_std. cbn [checks_key checks_sender key_limit negb orb].
  rewrite N.eqb_refl, andb_true_r. destruct parsed; [| reflexivity]. cbn [andb]. now destruct (from <? 65535).
Qed.

(* ------------------------------------------------------------------------------------------ slot lookup *)

Lemma locate_sound ids k i : locate ids k = Some i -> nth_error ids i = Some k.
Proof.
  revert i. induction ids as [| x t IH]; intros i; cbn [locate]; [discriminate |].
  destruct (x =? k) eqn:E.
  - intros H. inversion H. apply N.eqb_eq in E. now subst.
  - destruct (locate t k) as [j |]; [| discriminate]. intros H. inversion H. cbn [nth_error]. now apply IH.
Qed.

Lemma locate_nth ids k i d : locate ids k = Some i -> nth i ids d = k /\ (i < length ids)%nat.
Proof.
  intros H. apply locate_sound in H. split.
  - now apply nth_error_nth.
  - apply nth_error_Some. rewrite H. discriminate.
Qed.

Lemma locate_none_iff ids k : locate ids k = None <-> ~ In k ids.
Proof.
  induction ids as [| x t IH]; cbn [locate In]; [tauto |].
  destruct (x =? k) eqn:E.
  - apply N.eqb_eq in E. split; [discriminate | intros H; exfalso; apply H; now left].
  - apply N.eqb_neq in E. destruct (locate t k) as [j |].
    + split; [discriminate |]. intros H. exfalso. apply H. right.
      destruct IH as [_ IH2]. destruct (in_dec N.eq_dec k t) as [Hin | Hn]; [exact Hin |]. specialize (IH2 Hn). discriminate.
    + split; [| reflexivity]. intros _ [H | H]; [contradiction |]. now apply (proj1 IH).
Qed.

Lemma locate_nonmember ids k : ~ In k ids -> locate ids k = None.
Proof. apply locate_none_iff. Qed.

Lemma locate_member ids k : In k ids -> exists i, locate ids k = Some i.
Proof.
  intros H. destruct (locate ids k) as [i |] eqn:E; [now exists i |]. apply locate_none_iff in E. contradiction.
Qed.

(* what is queued is filed under the slot of the transport sender itself, or under no slot *)
Lemma on_msg_slot_bound c parsed ids from k s :
  on_msg_slot c parsed ids from = Some (k, s) ->
  k = from /\ (forall i, s = Some i -> nth_error ids i = Some from) /\ (s = None <-> ~ In from ids).
Proof.
  unfold on_msg_slot. destruct (on_msg_wire c parsed from) as [k' |] eqn:E; [| discriminate].
  apply on_msg_wire_attribution in E. destruct E as [-> _]. intros H. inversion H. subst k s.
  split; [reflexivity | split].
  - intros i Hi. now apply locate_sound.
  - apply locate_none_iff.
Qed.

(* the lookup of the code as it is now (shape generated from locatePartyIndex / OnMsg / partyIDsFromNumbers) *)
Lemma slot_of_exact exact : exact = true ->
  forall ids k, exists s, slot_of exact ids k = Some s /\
    (forall i, s = Some i -> nth_error ids i = Some k) /\ (~ In k ids -> s = None).
Proof.
  intros -> ids k. exists (locate ids k). split; [reflexivity | split].
  - intros i Hi. now apply locate_sound.
  - apply locate_nonmember.
Qed.

(* ------------------------------------------------------------------------------------------ Sign *)

Lemma sign_result_bound requested signed s : sign_result requested signed = SOk s -> s = requested /\ s = signed.
Proof.
  unfold sign_result. destruct (bytes_eqb requested signed) eqn:E; [| discriminate].
  apply bytes_eqb_spec in E. intros H. inversion H. subst. now split.
Qed.

Definition sign_cfg_sound (c : sign_cfg) : bool := compares c && target_full c.

(* whatever the library signs: with the comparison against the requested digest itself, only that digest comes back *)
Lemma eddsa_sign_sound c : sign_cfg_sound c = true -> forall lib d s, eddsa_sign c lib d = SOk s -> s = d.
Proof.
  unfold sign_cfg_sound, eddsa_sign. intros Hc lib d s. apply andb_true_iff in Hc. destruct Hc as [H1 H2]. rewrite H1, H2.
  intros H. apply sign_result_bound in H. tauto.
Qed.

Lemma strip0_length d : (length (strip0 d) <= length d)%nat.
Proof.
  induction d as [| b t IH]; cbn [strip0]; [lia |]. destruct b; cbn [length]; lia.
Qed.

Lemma fill_strip0 d : fill (length d) (strip0 d) = d.
Proof.
  induction d as [| b t IH]; [reflexivity |].
  destruct b as [| p].
  - cbn [strip0 length]. unfold fill in *. pose proof (strip0_length t) as Hl.
    replace (S (length t) - length (strip0 t))%nat with (S (length t - length (strip0 t))) by lia.
    cbn [repeat app]. now rewrite IH.
  - cbn [strip0]. unfold fill. replace (length (N.pos p :: t) - length (N.pos p :: t))%nat with 0%nat by lia. reflexivity.
Qed.

(* the repaired code returns the signature in honest runs: the check does not reject what the library really signs *)
Lemma eddsa_fixed_complete d : eddsa_sign sign_fixed (eddsa_lib sign_fixed) d = SOk d.
Proof.
  unfold eddsa_sign, eddsa_lib, sign_fixed. cbn [compares target_full full_len].
  assert (H : match length d with O => strip0 d | S n => fill (S n) (strip0 d) end = d).
  { destruct d as [| b t]; [reflexivity |]. exact (fill_strip0 (b :: t)). }
  rewrite H. unfold sign_result. assert (E : bytes_eqb d d = true) by now apply bytes_eqb_spec. now rewrite E.
Qed.

(* the pinned upstream code: a digest that starts with a zero byte is answered with a signature on other bytes *)
Lemma eddsa_sign_tree_refuted :
  exists d s, eddsa_sign sign_tree (eddsa_lib sign_tree) d = SOk s /\ s <> d /\ s = strip0 d.
Proof. exists [0; 7; 9], [7; 9]. vm_compute. repeat split; discriminate. Qed.

Lemma ecdsa_sign_sound lib d m : ecdsa_sign true lib d = SOk m -> be_to_N m = hash_to_int d /\ m = lib d.
Proof.
  unfold ecdsa_sign. destruct (bytes_eqb (strip0 (lib d)) (lib d) && (be_to_N (lib d) =? hash_to_int d)) eqn:E; [| discriminate].
  apply andb_true_iff in E. destruct E as [_ E]. apply N.eqb_eq in E. intros H. inversion H. subst. now split.
Qed.

(* ========================================================================================== instances *)

Module Inst.
  Import TSS.Gen.Adapters TSS.Gen.AdaptersRouting.

  Definition ecdsa_rule : rule := {| r_threshold := ecdsa_round_threshold; r_offset := ecdsa_round_offset |}.
  Definition eddsa_rule : rule := {| r_threshold := eddsa_round_threshold; r_offset := eddsa_round_offset |}.
  Definition ecdsa_classify := classify ecdsa_rule ecdsa_rounds ecdsa_broadcast.
  Definition eddsa_classify := classify eddsa_rule eddsa_rounds eddsa_broadcast.
  Definition ecdsa_onmsg : onmsg_cfg :=
    {| checks_key := ecdsa_onmsg_checks_key; key_limit := ecdsa_key_limit; checks_sender := ecdsa_onmsg_checks_sender |}.
  Definition eddsa_onmsg : onmsg_cfg :=
    {| checks_key := eddsa_onmsg_checks_key; key_limit := eddsa_key_limit; checks_sender := eddsa_onmsg_checks_sender |}.
  Definition eddsa_sign_cfg : sign_cfg :=
    {| compares := eddsa_sign_compares; target_full := eddsa_sign_target_full; full_len := eddsa_sign_full_len |}.
  (* ECDSA: the comparison counts only if msgToSign is the standard hashToInt of the digest *)
  Definition ecdsa_compares : bool := ecdsa_sign_compares && ecdsa_sign_hash_to_int && ecdsa_hash_to_int_std.
End Inst.
Import Inst.

(* --- statements of the property theorems (Props/C19.v instantiates the checks above by computation: the generated tables
       enter only there, so that a change of the Go tables can break Props/C19.v and nothing else) *)

Definition rounds_distinct_stmt (cls : string -> N * bool) (sp : string -> string -> bool) : Prop :=
  forall u v, snd (cls u) = true -> snd (cls v) = true -> u <> v -> sp u v = true -> fst (cls u) <> fst (cls v).

Definition normalised_stmt (ru : rule) (tbl : list (string * N)) : Prop :=
  forall u r, In (u, r) tbl ->
    1 <= adjust ru r <= N.of_nat (phase_size ru tbl (r_threshold ru <? r)) /\ adjust ru r < 128 /\
    forall v r', In (v, r') tbl -> u <> v -> (r_threshold ru <? r) = (r_threshold ru <? r') -> adjust ru r <> adjust ru r'.

Definition phase_by_url_stmt (ru : rule) (tbl : list (string * N)) : Prop :=
  forall u r, In (u, r) tbl ->
    is_signing ru tbl u = contains ".signing." u /\ negb (is_signing ru tbl u) = contains ".keygen." u.

Definition onmsg_shape_ok (c : onmsg_cfg) : bool := checks_sender c && checks_key c && (key_limit c <=? 65536).

Lemma sender_bound_of_shape c :
  onmsg_shape_ok c = true ->
  forall claimed from, on_msg_cfg c claimed from = Enqueue -> claimed = from /\ claimed < 65536.
Proof.
  unfold onmsg_shape_ok.
  intros Hs claimed from H. apply andb_true_iff in Hs. destruct Hs as [Hs H3]. apply andb_true_iff in Hs. destruct Hs as [H1 H2].
  apply N.leb_le in H3. apply on_msg_cfg_enqueue in H. destruct H as [Ha Hb]. split; [now apply Ha |]. specialize (Hb H2). lia.
Qed.

Lemma ecdsa_sign_sound_flag flag : flag = true ->
  forall lib d m, ecdsa_sign flag lib d = SOk m -> be_to_N m = hash_to_int d /\ m = lib d.
Proof. intros ->. exact ecdsa_sign_sound. Qed.
