(* Lockset/Discipline.v -- access tables, the decidable lock discipline, and its soundness for ALL traces (C20).

   An access table lists, per syntactic access of a shared field: the field, read or write, the locks the translator
   found held there (name, exclusively?), the function, and whether the access belongs to a set-up phase
   (constructor / Init / sync.Once body) that precedes publication of the object.

   discipline_ok: for every field, either none of its non-set-up accesses writes, or ONE lock is held in all its
   non-set-up accesses, exclusively in every writing one.

   lockset_sound: if every access event of a well-formed trace is an instance of a table entry -- the thread holds, on
   the object it accesses, at least the locks the entry lists in at least those modes -- and set-up accesses are ordered
   by happens-before with every conflicting access of another thread (premise), then the trace has no data race. *)
From Coq Require Import List Arith Lia Bool String.
Require Import TSS.Lockset.Trace.
Import ListNotations.
Local Open Scope string_scope.

Inductive akind := KRd | KWr.

Record access := mkAccess {
  a_loc : string;                    (* "Type.field" *)
  a_kind : akind;
  a_held : list (string * bool);     (* lock name, held exclusively? *)
  a_fn : string;
  a_setup : bool }.

Definition is_write (e : access) : bool := match a_kind e with KWr => true | KRd => false end.

(* e holds lock l in the mode its kind needs: exclusively, or in any mode when e only reads *)
Definition has_lock (l : string) (e : access) : bool :=
  existsb (fun h => String.eqb (fst h) l && (snd h || negb (is_write e))) (a_held e).

Definition live (f : string) (tab : list access) : list access :=
  filter (fun e => String.eqb (a_loc e) f && negb (a_setup e)) tab.

Definition loc_ok (tab : list access) (f : string) : bool :=
  let es := live f tab in
  if existsb is_write es then
    match es with
    | [] => true
    | e0 :: _ => existsb (fun h => forallb (has_lock (fst h)) es) (a_held e0)
    end
  else true.

Definition discipline_ok (tab : list access) : bool := forallb (fun e => loc_ok tab (a_loc e)) tab.

(* the lock that protects a field (for the evidence; None = not needed or none) *)
Definition protecting_lock (tab : list access) (f : string) : option string :=
  match live f tab with
  | [] => None
  | e0 :: _ => option_map fst (find (fun h => forallb (has_lock (fst h)) (live f tab)) (a_held e0))
  end.

Lemma live_In tab f e : In e (live f tab) <-> In e tab /\ a_loc e = f /\ a_setup e = false.
Proof.
  unfold live. rewrite filter_In, andb_true_iff, String.eqb_eq, negb_true_iff. tauto.
Qed.

Lemma discipline_common_lock tab e1 e2 :
  discipline_ok tab = true -> In e1 tab -> In e2 tab -> a_loc e1 = a_loc e2 ->
  a_setup e1 = false -> a_setup e2 = false -> (is_write e1 = true \/ is_write e2 = true) ->
  exists l, has_lock l e1 = true /\ has_lock l e2 = true.
Proof.
  intros D I1 I2 L S1 S2 Wr.
  unfold discipline_ok in D. rewrite forallb_forall in D. specialize (D e1 I1). unfold loc_ok in D.
  assert (L1 : In e1 (live (a_loc e1) tab)) by (apply live_In; auto).
  assert (L2 : In e2 (live (a_loc e1) tab)) by (apply live_In; auto).
  assert (X : existsb is_write (live (a_loc e1) tab) = true).
  { apply existsb_exists. destruct Wr; [exists e1 | exists e2]; auto. }
  rewrite X in D.
  destruct (live (a_loc e1) tab) as [|e0 r] eqn:Q; [destruct L1|].
  apply existsb_exists in D. destruct D as [h [_ F]]. rewrite forallb_forall in F.
  exists (fst h). split; apply F; assumption.
Qed.

Lemma has_lock_spec l e : has_lock l e = true ->
  exists ex, In (l, ex) (a_held e) /\ (ex = true \/ is_write e = false).
Proof.
  unfold has_lock. intro H. apply existsb_exists in H. destruct H as [[l' ex] [I H]].
  simpl in H. apply andb_true_iff in H. destruct H as [E M]. apply String.eqb_eq in E. subst.
  exists ex. split; [assumption|]. apply orb_true_iff in M. rewrite negb_true_iff in M. assumption.
Qed.

(* ---- traces of a program that follows a table *)
Definition ev_access (e : event) : option (akind * loc) :=
  match e with Rd x => Some (KRd, x) | Wr x => Some (KWr, x) | _ => None end.

(* ent i = the table entry the access at position i is an instance of *)
Definition instance_of (tr : trace) (tab : list access) (ent : nat -> access) : Prop :=
  forall i t e k f o, nth_error tr i = Some (t, e) -> ev_access e = Some (k, (f, o)) ->
    In (ent i) tab /\ a_loc (ent i) = f /\ a_kind (ent i) = k /\
    (a_setup (ent i) = false ->
     forall l ex, In (l, ex) (a_held (ent i)) -> holds (hist tr i) t (l, o) ex).

(* premise: set-up accesses precede (or follow) every conflicting access of another thread in happens-before *)
Definition setup_ordered (tr : trace) (ent : nat -> access) : Prop :=
  forall i j ti tj ei ej x, i < j -> nth_error tr i = Some (ti, ei) -> nth_error tr j = Some (tj, ej) ->
    ti <> tj -> conflict ei ej x -> (a_setup (ent i) = true \/ a_setup (ent j) = true) -> hb tr i j.

Lemma holds_any h t l ex : holds h t l ex -> holdsW h t l \/ holdsR h t l.
Proof. destruct ex; simpl; tauto. Qed.

Theorem lockset_sound tr tab ent :
  wf tr -> discipline_ok tab = true -> instance_of tr tab ent -> setup_ordered tr ent -> ~ race tr.
Proof.
  intros W D I S [i [j [ti [tj [ei [ej [[f o] [Hij [Ei [Ej [N [C NHB]]]]]]]]]]]].
  apply NHB.
  destruct (a_setup (ent i)) eqn:Si; [eapply S; eauto|].
  destruct (a_setup (ent j)) eqn:Sj; [eapply S; eauto|].
  assert (exists ki kj, ev_access ei = Some (ki, (f, o)) /\ ev_access ej = Some (kj, (f, o)) /\
                        (ki = KWr \/ kj = KWr)) as [ki [kj [Ai [Aj Wr]]]].
  { destruct C as [[-> [-> | ->]]|[-> ->]]; simpl; eauto 8. }
  destruct (I i ti ei ki f o Ei Ai) as [Ti [Li [Ki Hi]]].
  destruct (I j tj ej kj f o Ej Aj) as [Tj [Lj [Kj Hj]]].
  specialize (Hi Si). specialize (Hj Sj).
  destruct (discipline_common_lock tab (ent i) (ent j) D Ti Tj ltac:(congruence) Si Sj) as [l [H1 H2]].
  { unfold is_write. rewrite Ki, Kj. destruct Wr as [-> | ->]; auto. }
  destruct (has_lock_spec _ _ H1) as [x1 [M1 X1]]. destruct (has_lock_spec _ _ H2) as [x2 [M2 X2]].
  specialize (Hi l x1 M1). specialize (Hj l x2 M2).
  assert (Acc : is_access ei) by (destruct ei; simpl in Ai; try discriminate; exact Logic.I).
  apply (common_lock_ordered tr (l, o) i j ti tj ei ej W Hij Ei Ej Acc N).
  unfold is_write in X1, X2. rewrite Ki in X1. rewrite Kj in X2.
  destruct ki.
  - (* i reads, so j writes and holds exclusively *)
    destruct Wr as [Q|Q]; [discriminate|]. subst kj.
    destruct X2 as [-> |X2]; [|discriminate]. simpl in Hj.
    destruct (holds_any _ _ _ _ Hi) as [Hw|Hr]; [left; split; [assumption | left; assumption] | right; split; assumption].
  - (* i writes and holds exclusively *)
    destruct X1 as [-> |X1]; [|discriminate]. simpl in Hi.
    left. split; [assumption | eapply holds_any; eassumption].
Qed.

(* ---- known findings: sites (field, function) taken out of a table before the discipline is checked *)
Definition remove_known (known : list (string * string)) (tab : list access) : list access :=
  filter (fun e => negb (existsb (fun p => String.eqb (fst p) (a_loc e) && String.eqb (snd p) (a_fn e)) known)) tab.

Definition is_nil {A} (l : list A) : bool := match l with [] => true | _ => false end.

Lemma remove_known_nil tab : remove_known [] tab = tab.
Proof. induction tab as [|e r IH]; [reflexivity|]. unfold remove_known in *. simpl. f_equal. exact IH. Qed.

Lemma remove_known_incl known tab e : In e (remove_known known tab) -> In e tab.
Proof. unfold remove_known. rewrite filter_In. tauto. Qed.
