(* Lockset/Trace.v -- traces of lock / access events, well-formedness, happens-before, data race.
   (C20; Coq standard library only.)

   A trace is the chronological list of (thread, event) of ONE execution.  Locks and locations are pairs
   (name, object): the name is the field as the access table of Discipline.v spells it ("TBLS.lock",
   "TBLS.shares"), the object number tells instances apart.

   Happens-before is the one of the Go memory model restricted to these events:
     program order, `go` statement -> first step of the new goroutine,
     Unlock -> later Lock, Unlock -> later RLock, RUnlock -> later Lock        (NOT RUnlock -> RLock).
   sync.Cond.Wait is Rel;Acq of its mutex.  Atomics / sync.Map / channels are not events of this model: the
   translator represents an access through them as an access under an exclusive pseudo-lock (a coarser
   happens-before than Go's on those accesses only, which are never data races by definition). *)
From Coq Require Import List Arith Lia Bool String.
Import ListNotations.

Definition tid := nat.
Definition lock := (string * nat)%type.
Definition loc := (string * nat)%type.

Lemma lock_eq_dec : forall a b : lock, {a = b} + {a <> b}.
Proof. decide equality; [apply Nat.eq_dec | apply string_dec]. Defined.

Inductive event :=
| Acq (l : lock) | Rel (l : lock) | RAcq (l : lock) | RRel (l : lock)
| Rd (x : loc) | Wr (x : loc) | Fork (t : tid).

Definition trace := list (tid * event).

(* ---- lock state after a history (most recent event first) *)
Fixpoint wrt (h : trace) (l : lock) : option tid :=
  match h with
  | [] => None
  | (t, Acq l') :: h' => if lock_eq_dec l' l then Some t else wrt h' l
  | (t, Rel l') :: h' => if lock_eq_dec l' l then None else wrt h' l
  | _ :: h' => wrt h' l
  end.

Fixpoint remove1 (t : tid) (ts : list tid) : list tid :=
  match ts with
  | [] => []
  | u :: r => if Nat.eq_dec t u then r else u :: remove1 t r
  end.

Fixpoint rds (h : trace) (l : lock) : list tid :=
  match h with
  | [] => []
  | (t, RAcq l') :: h' => if lock_eq_dec l' l then t :: rds h' l else rds h' l
  | (t, RRel l') :: h' => if lock_eq_dec l' l then remove1 t (rds h' l) else rds h' l
  | _ :: h' => rds h' l
  end.

(* the step (t,e) is allowed after history h *)
Definition ok_step (h : trace) (t : tid) (e : event) : Prop :=
  match e with
  | Acq l => wrt h l = None /\ rds h l = []
  | Rel l => wrt h l = Some t
  | RAcq l => wrt h l = None
  | RRel l => In t (rds h l)
  | Fork u => u <> t /\ forall t' e', In (t', e') h -> t' <> u /\ e' <> Fork u
  | _ => True
  end.

Definition hist (tr : trace) (i : nat) : trace := rev (firstn i tr).

Definition wf (tr : trace) : Prop :=
  forall i t e, nth_error tr i = Some (t, e) -> ok_step (hist tr i) t e.

Definition holdsW (h : trace) (t : tid) (l : lock) : Prop := wrt h l = Some t.
Definition holdsR (h : trace) (t : tid) (l : lock) : Prop := In t (rds h l).
(* holds in mode at least ex (true = exclusively) *)
Definition holds (h : trace) (t : tid) (l : lock) (ex : bool) : Prop :=
  if ex then holdsW h t l else holdsW h t l \/ holdsR h t l.

(* ---- happens-before *)
Inductive sync_edge : event -> event -> Prop :=
| se_ww l : sync_edge (Rel l) (Acq l)
| se_wr l : sync_edge (Rel l) (RAcq l)
| se_rw l : sync_edge (RRel l) (Acq l).

Definition hb1 (tr : trace) (i j : nat) : Prop :=
  i < j /\ exists ti ei tj ej, nth_error tr i = Some (ti, ei) /\ nth_error tr j = Some (tj, ej) /\
                               (ti = tj \/ sync_edge ei ej \/ ei = Fork tj).

Inductive hb (tr : trace) : nat -> nat -> Prop :=
| hb_step i j : hb1 tr i j -> hb tr i j
| hb_trans i j k : hb tr i j -> hb tr j k -> hb tr i k.

Definition conflict (e1 e2 : event) (x : loc) : Prop :=
  (e1 = Wr x /\ (e2 = Wr x \/ e2 = Rd x)) \/ (e1 = Rd x /\ e2 = Wr x).

(* two conflicting accesses of different threads, not ordered (hb only points forward, so i < j is no restriction) *)
Definition race (tr : trace) : Prop :=
  exists i j ti tj ei ej x,
    i < j /\ nth_error tr i = Some (ti, ei) /\ nth_error tr j = Some (tj, ej) /\ ti <> tj /\
    conflict ei ej x /\ ~ hb tr i j.

Lemma hb_lt tr i j : hb tr i j -> i < j.
Proof. induction 1 as [i j [H _]|]; lia. Qed.

(* ---- histories *)
Lemma firstn_S_nth {A} (l : list A) i x :
  nth_error l i = Some x -> firstn (S i) l = firstn i l ++ [x].
Proof.
  revert i; induction l as [|a l IH]; intros [|i] H; simpl in H; try discriminate.
  - injection H as ->. reflexivity.
  - change (a :: firstn (S i) l = a :: (firstn i l ++ [x])). f_equal. apply IH; assumption.
Qed.

Lemma hist_S tr i x : nth_error tr i = Some x -> hist tr (S i) = x :: hist tr i.
Proof. intro H. unfold hist. rewrite (firstn_S_nth _ _ _ H), rev_app_distr. reflexivity. Qed.

Lemma hist_0 tr : hist tr 0 = [].
Proof. reflexivity. Qed.

Lemma nth_error_lt {A} (l : list A) i : i < List.length l -> exists x, nth_error l i = Some x.
Proof.
  intro H. destruct (nth_error l i) eqn:E; [eauto|].
  apply nth_error_None in E. lia.
Qed.

Lemma In_remove1_neq t u ts : t <> u -> In t ts -> In t (remove1 u ts).
Proof.
  intros N. induction ts as [|a r IH]; simpl; [tauto|].
  intros H; destruct (Nat.eq_dec u a) as [E|E]; simpl.
  - destruct H as [H|H]; [congruence | assumption].
  - destruct H as [H|H]; auto.
Qed.

Lemma In_remove1 t u ts : In t (remove1 u ts) -> In t ts.
Proof.
  induction ts as [|a r IH]; simpl; [tauto|].
  destruct (Nat.eq_dec u a); simpl; tauto.
Qed.

(* a write-locked lock has no readers *)
Lemma excl_inv tr : wf tr -> forall i, i <= List.length tr -> forall l t, wrt (hist tr i) l = Some t -> rds (hist tr i) l = [].
Proof.
  intros W i. induction i as [|i IH]; intros Hi l t H; [reflexivity|].
  destruct (nth_error_lt tr i) as [[u e] E]; [lia|].
  specialize (W i u e E). rewrite (hist_S _ _ _ E) in *.
  assert (IH' := IH ltac:(lia) l).
  destruct e; simpl in *; try (eapply IH'; eassumption).
  - destruct (lock_eq_dec l0 l) as [->|]; [tauto | eapply IH'; eassumption].
  - destruct (lock_eq_dec l0 l) as [->|]; [discriminate | eapply IH'; eassumption].
  - destruct (lock_eq_dec l0 l) as [->|]; [congruence | eapply IH'; eassumption].
  - destruct (lock_eq_dec l0 l) as [->|]; [|eapply IH'; eassumption].
    rewrite (IH' _ H) in W. destruct W.
Qed.

(* ---- who gives a lock up: only its holder, by a release event *)
Lemma rel_between tr l t : wf tr -> forall a b, a <= b -> b <= List.length tr ->
  wrt (hist tr a) l = Some t -> wrt (hist tr b) l <> Some t ->
  exists k, a <= k < b /\ nth_error tr k = Some (t, Rel l).
Proof.
  intros W a b. induction b as [|b IH]; intros Hab Hb Ha Hn.
  - assert (a = 0) by lia. subst. congruence.
  - destruct (Nat.eq_dec a (S b)) as [->|]; [congruence|].
    destruct (nth_error_lt tr b) as [[u e] E]; [lia|].
    assert (Step : wrt (hist tr b) l = Some t -> exists k, a <= k < S b /\ nth_error tr k = Some (t, Rel l)).
    2:{ destruct (wrt (hist tr b) l) as [w|] eqn:Q.
        - destruct (Nat.eq_dec w t) as [->|N]; [auto|].
          destruct IH as [k [? ?]]; try lia; try congruence. exists k; split; [lia|assumption].
        - destruct IH as [k [? ?]]; try lia; try congruence. exists k; split; [lia|assumption]. }
    intro I. specialize (W b u e E). rewrite (hist_S _ _ _ E) in Hn.
    destruct e; simpl in *; try congruence.
    + destruct (lock_eq_dec l0 l) as [->|]; [|congruence]. destruct W; congruence.
    + destruct (lock_eq_dec l0 l) as [->|]; [|congruence].
      assert (u = t) by congruence. subst. exists b. split; [lia|assumption].
Qed.

Lemma rrel_between tr l t : wf tr -> forall a b, a <= b -> b <= List.length tr ->
  In t (rds (hist tr a) l) -> ~ In t (rds (hist tr b) l) ->
  exists k, a <= k < b /\ nth_error tr k = Some (t, RRel l).
Proof.
  intros W a b. induction b as [|b IH]; intros Hab Hb Ha Hn.
  - assert (a = 0) by lia. subst. contradiction.
  - destruct (Nat.eq_dec a (S b)) as [->|]; [contradiction|].
    destruct (nth_error_lt tr b) as [[u e] E]; [lia|].
    assert (Step : In t (rds (hist tr b) l) -> exists k, a <= k < S b /\ nth_error tr k = Some (t, RRel l)).
    2:{ destruct (in_dec Nat.eq_dec t (rds (hist tr b) l)) as [I|I]; [auto|].
        destruct IH as [k [? ?]]; try lia; auto. exists k; split; [lia|assumption]. }
    intro I. rewrite (hist_S _ _ _ E) in Hn.
    destruct e; simpl in Hn; try contradiction.
    + destruct (lock_eq_dec l0 l); [|contradiction]. exfalso; apply Hn; right; assumption.
    + destruct (lock_eq_dec l0 l) as [->|]; [|contradiction].
      destruct (Nat.eq_dec t u) as [->|N].
      * exists b; split; [lia|assumption].
      * exfalso; apply Hn. apply In_remove1_neq; assumption.
Qed.

(* ---- who holds a lock has acquired it, and held it ever since *)
Lemma acq_before tr l t : wf tr -> forall j, j <= List.length tr -> holdsW (hist tr j) t l ->
  exists m, m < j /\ nth_error tr m = Some (t, Acq l) /\ forall q, m < q <= j -> holdsW (hist tr q) t l.
Proof.
  unfold holdsW. intros W j. induction j as [|j IH]; intros Hj H; [discriminate|].
  destruct (nth_error_lt tr j) as [[u e] E]; [lia|].
  assert (Keep : wrt (hist tr j) l = Some t ->
          exists m, m < S j /\ nth_error tr m = Some (t, Acq l) /\ forall q, m < q <= S j -> wrt (hist tr q) l = Some t).
  { intro K. destruct IH as [m [? [? C]]]; [lia|assumption|].
    exists m; repeat split; [lia|assumption|]. intros q Hq.
    destruct (Nat.eq_dec q (S j)) as [->|]; [assumption | apply C; lia]. }
  pose proof H as H0. rewrite (hist_S _ _ _ E) in H.
  destruct e; simpl in H; auto.
  - destruct (lock_eq_dec l0 l) as [->|]; [|auto].
    assert (u = t) by congruence. subst. exists j; repeat split; [lia|assumption|].
    intros q Hq. assert (q = S j) by lia. subst. assumption.
  - destruct (lock_eq_dec l0 l); [discriminate|auto].
Qed.

Lemma racq_before tr l t : wf tr -> forall j, j <= List.length tr -> holdsR (hist tr j) t l ->
  exists m, m < j /\ nth_error tr m = Some (t, RAcq l) /\ forall q, m < q <= j -> holdsR (hist tr q) t l.
Proof.
  unfold holdsR. intros W j. induction j as [|j IH]; intros Hj H; [contradiction|].
  destruct (nth_error_lt tr j) as [[u e] E]; [lia|].
  assert (Keep : In t (rds (hist tr j) l) ->
          exists m, m < S j /\ nth_error tr m = Some (t, RAcq l) /\ forall q, m < q <= S j -> In t (rds (hist tr q) l)).
  { intro K. destruct IH as [m [? [? C]]]; [lia|assumption|].
    exists m; repeat split; [lia|assumption|]. intros q Hq.
    destruct (Nat.eq_dec q (S j)) as [->|]; [assumption | apply C; lia]. }
  pose proof H as H0. rewrite (hist_S _ _ _ E) in H.
  destruct e; simpl in H; auto.
  - destruct (lock_eq_dec l0 l) as [->|]; [|auto].
    destruct H as [->|H]; [|auto].
    exists j; repeat split; [lia|assumption|].
    intros q Hq. assert (q = S j) by lia. subst. assumption.
  - destruct (lock_eq_dec l0 l); [|auto]. apply Keep. eapply In_remove1; eassumption.
Qed.

(* ---- the lockset argument: a common lock, exclusive on one side, orders two accesses *)
Definition is_access (e : event) : Prop := match e with Rd _ | Wr _ => True | _ => False end.

Lemma nth_error_len {A} (l : list A) i x : nth_error l i = Some x -> i < List.length l.
Proof. intro H. apply nth_error_Some. congruence. Qed.

Lemma hb_chain tr i k m j ti tj ei ek em ej :
  i < k -> k < m -> m < j ->
  nth_error tr i = Some (ti, ei) -> nth_error tr k = Some (ti, ek) ->
  nth_error tr m = Some (tj, em) -> nth_error tr j = Some (tj, ej) ->
  sync_edge ek em -> hb tr i j.
Proof.
  intros ? ? ? Ei Ek Em Ej S.
  apply hb_trans with k; [apply hb_step; split; [assumption|]; exists ti, ei, ti, ek; auto|].
  apply hb_trans with m; [apply hb_step; split; [assumption|]; exists ti, ek, tj, em; auto|].
  apply hb_step; split; [assumption|]; exists tj, em, tj, ej; auto.
Qed.

Theorem common_lock_ordered tr l i j ti tj ei ej :
  wf tr -> i < j -> nth_error tr i = Some (ti, ei) -> nth_error tr j = Some (tj, ej) ->
  is_access ei -> ti <> tj ->
  (holdsW (hist tr i) ti l /\ (holdsW (hist tr j) tj l \/ holdsR (hist tr j) tj l)) \/
  (holdsR (hist tr i) ti l /\ holdsW (hist tr j) tj l) ->
  hb tr i j.
Proof.
  intros W Hij Ei Ej Ai N H.
  pose proof (nth_error_len _ _ _ Ej) as Lj.
  destruct H as [[Hi Hj]|[Hi Hj]].
  - (* i holds exclusively *)
    assert (exists m em, m < j /\ nth_error tr m = Some (tj, em) /\ (em = Acq l \/ em = RAcq l) /\
                         forall q, m < q <= j -> holdsW (hist tr q) tj l \/ holdsR (hist tr q) tj l) as [m [em [Hm [Em [Km C]]]]].
    { destruct Hj as [Hj|Hj].
      - destruct (acq_before tr l tj W j ltac:(lia) Hj) as [m [? [? C]]]. exists m, (Acq l). repeat split; auto.
      - destruct (racq_before tr l tj W j ltac:(lia) Hj) as [m [? [? C]]]. exists m, (RAcq l). repeat split; auto. }
    assert (i < m) as Him.
    { destruct (Nat.lt_trichotomy m i) as [Lt|[->|Gt]]; [|exfalso|assumption].
      - exfalso. destruct (C i ltac:(lia)) as [Q|Q]; unfold holdsW, holdsR in *.
        + congruence.
        + rewrite (excl_inv tr W i ltac:(lia) l ti Hi) in Q. destruct Q.
      - rewrite Ei in Em. injection Em as -> ->. destruct Km as [-> | ->]; destruct Ai. }
    assert (wrt (hist tr m) l = None) as Free.
    { specialize (W m tj em Em). destruct Km as [-> | ->]; simpl in W; tauto. }
    destruct (rel_between tr l ti W i m ltac:(lia) ltac:(lia) Hi ltac:(congruence)) as [k [Hk Ek]].
    assert (i <> k) by (intros ->; rewrite Ei in Ek; injection Ek as ->; destruct Ai).
    apply (hb_chain tr i k m j ti tj ei (Rel l) em ej); try lia; try assumption.
    destruct Km as [-> | ->]; constructor.
  - (* i holds as a reader, j exclusively *)
    destruct (acq_before tr l tj W j ltac:(lia) Hj) as [m [Hm [Em C]]].
    assert (i < m) as Him.
    { destruct (Nat.lt_trichotomy m i) as [Lt|[->|Gt]]; [|exfalso|assumption].
      - exfalso. specialize (C i ltac:(lia)). unfold holdsW, holdsR in *.
        rewrite (excl_inv tr W i ltac:(lia) l tj C) in Hi. destruct Hi.
      - rewrite Ei in Em. injection Em as -> ->. destruct Ai. }
    assert (rds (hist tr m) l = []) as Free.
    { specialize (W m tj (Acq l) Em). simpl in W. tauto. }
    destruct (rrel_between tr l ti W i m ltac:(lia) ltac:(lia) Hi ltac:(rewrite Free; auto)) as [k [Hk Ek]].
    assert (i <> k) by (intros ->; rewrite Ei in Ek; injection Ek as ->; destruct Ai).
    apply (hb_chain tr i k m j ti tj ei (RRel l) (Acq l) ej); try lia; try assumption.
    constructor.
Qed.
