(* Lockset/Examples.v -- the hypotheses of lockset_sound are satisfiable, and `race` is not an empty notion (C20). *)
From Coq Require Import List Arith Lia Bool String.
Require Import TSS.Lockset.Trace TSS.Lockset.Discipline.
Import ListNotations.
Local Open Scope string_scope.

Definition L : lock := ("T.lock", 7).
Definition x : loc := ("T.f", 7).

(* goroutine 1 (the constructor) writes the field and starts goroutines 2 and 3; 2 writes under the lock,
   3 reads under the read lock *)
Definition good : trace :=
  [ (1, Wr x); (1, Fork 2); (1, Fork 3);
    (2, Acq L); (2, Wr x); (2, Rel L);
    (3, RAcq L); (3, Rd x); (3, RRel L) ].

Definition e_new := mkAccess "T.f" KWr [] "NewT" true.
Definition e_set := mkAccess "T.f" KWr [("T.lock", true)] "T.Set" false.
Definition e_get := mkAccess "T.f" KRd [("T.lock", false)] "T.Get" false.
Definition tab := [e_new; e_set; e_get].
Definition ent (i : nat) : access := match i with 0 => e_new | 4 => e_set | _ => e_get end.

Example tab_ok : discipline_ok tab = true.
Proof. reflexivity. Qed.

Example good_wf : wf good.
Proof.
  intros i t e H.
  do 9 (destruct i as [|i]; [cbn in H; injection H as <- <-; cbv; repeat split; try congruence; auto;
                             try (intro Q; repeat match goal with HH : _ \/ _ |- _ =>
                                    destruct HH as [HH|HH]; [inversion HH; congruence|] end; contradiction) |]).
  destruct i; discriminate.
Qed.

Example good_instance : instance_of good tab ent.
Proof.
  intros i t e k f o H A.
  do 9 (destruct i as [|i]; [cbn in H; injection H as <- <-; try discriminate A; injection A as <- <- <-;
                             cbv; repeat split; auto; try discriminate;
                             intros _ l ex [Q|[]]; injection Q as <- <-; auto |]).
  destruct i; discriminate.
Qed.

Lemma hb_good_0 j t e : 0 < j -> nth_error good j = Some (t, e) -> hb good 0 j.
Proof.
  intros Hj E.
  assert (F2 : hb good 1 3) by (apply hb_step; split; [lia|]; exists 1, (Fork 2), 2, (Acq L); cbv; auto).
  assert (F3 : hb good 2 6) by (apply hb_step; split; [lia|]; exists 1, (Fork 3), 3, (RAcq L); cbv; auto).
  assert (P : forall a b ta ea eb, a < b -> nth_error good a = Some (ta, ea) -> nth_error good b = Some (ta, eb) -> hb good a b).
  { intros a b ta ea eb ? ? ?. apply hb_step; split; [assumption|]. exists ta, ea, ta, eb; auto. }
  assert (Q : forall a b, a < b -> (exists ta ea eb, nth_error good a = Some (ta, ea) /\ nth_error good b = Some (ta, eb)) -> hb good a b).
  { intros a b ? [ta [ea [eb [? ?]]]]. eapply P; eauto. }
  assert (H1 : hb good 0 1) by (apply Q; [lia|cbv; eauto]).
  assert (H2 : hb good 0 2) by (apply Q; [lia|cbv; eauto]).
  assert (H3 : hb good 0 3) by (eapply hb_trans; [exact H1|exact F2]).
  assert (H4 : hb good 0 4) by (eapply hb_trans; [exact H3|apply Q; [lia|cbv; eauto]]).
  assert (H5 : hb good 0 5) by (eapply hb_trans; [exact H3|apply Q; [lia|cbv; eauto]]).
  assert (H6 : hb good 0 6) by (eapply hb_trans; [exact H2|exact F3]).
  assert (H7 : hb good 0 7) by (eapply hb_trans; [exact H6|apply Q; [lia|cbv; eauto]]).
  assert (H8 : hb good 0 8) by (eapply hb_trans; [exact H6|apply Q; [lia|cbv; eauto]]).
  do 9 (destruct j as [|j]; [try lia; assumption|]).
  destruct j; discriminate.
Qed.

Example good_setup_ordered : setup_ordered good ent.
Proof.
  intros i j ti tj ei ej y Hij Ei Ej N C S.
  destruct i as [|i].
  - eapply hb_good_0; eauto.
  - exfalso. destruct S as [S|S].
    + do 8 (destruct i as [|i]; [discriminate S|]). destruct i; discriminate.
    + destruct j as [|j]; [lia|]. do 8 (destruct j as [|j]; [discriminate S|]). destruct j; discriminate.
Qed.

Example good_race_free : ~ race good.
Proof. exact (lockset_sound good tab ent good_wf tab_ok good_instance good_setup_ordered). Qed.

(* the same program with the reader not taking the lock: a race, and the table says so *)
Definition bad : trace := [ (2, Acq L); (2, Wr x); (2, Rel L); (3, Rd x) ].

Example bad_wf : wf bad.
Proof.
  intros i t e H.
  do 4 (destruct i as [|i]; [cbn in H; injection H as <- <-; cbv; auto |]).
  destruct i; discriminate.
Qed.

Example bad_race : race bad.
Proof.
  exists 1, 3, 2, 3, (Wr x), (Rd x), x. repeat split; auto; [left; auto|].
  assert (G : forall a b, hb bad a b -> a = 1 -> b = 3 -> False).
  { induction 1 as [a b [Hl [ta [ea [tb [eb [Ea [Eb H]]]]]]] | a b c H1 IH1 H2 IH2]; intros -> ->.
    - cbv in Ea, Eb. injection Ea as <- <-. injection Eb as <- <-.
      destruct H as [H|[H|H]]; [discriminate | inversion H | discriminate].
    - pose proof (hb_lt _ _ _ H1). pose proof (hb_lt _ _ _ H2). assert (b = 2) by lia. subst.
      clear IH1 IH2 H1.
      assert (G2 : forall a b, hb bad a b -> a = 2 -> b = 3 -> False).
      { clear. induction 1 as [a b [Hl [ta [ea [tb [eb [Ea [Eb H]]]]]]] | a b c H1 IH1 H2 IH2]; intros -> ->.
        - cbv in Ea, Eb. injection Ea as <- <-. injection Eb as <- <-.
          destruct H as [H|[H|H]]; [discriminate | inversion H | discriminate].
        - pose proof (hb_lt _ _ _ H1). pose proof (hb_lt _ _ _ H2). lia. }
      eapply G2; eauto. }
  intro H. eapply G; eauto.
Qed.

Example bad_table_refuted :
  discipline_ok [e_set; mkAccess "T.f" KRd [] "T.Peek" false] = false.
Proof. reflexivity. Qed.
