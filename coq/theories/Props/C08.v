(* C08 — Threshold blind PS signatures: complete for every message vector and subset.
   Only the property theorems; the model is TSS.Alg.PS (ideal-group model: scalars in an arbitrary field F,
   G1/G2/GT arbitrary F-modules written additively, e a bilinear map, hash functions and random oracles arbitrary
   functions).  pn pp = size (pgs pp) = L+1 where L is the configured message length; party identifiers are 1..N
   and are distinct as scalars (N below the characteristic: premise natF_inj).

   Representatives.  The model computes in the field; the Go code computes with big integers that REPRESENT field elements
   (mathlib v0.0.2: Zr.Plus does not reduce, Zr.Mul does).  The theorems are about the field elements and are unaffected by
   the choice of representative, but the code serialises representatives with a fixed 32-byte encoding (Zr.Bytes), so every
   sum has to be reduced before it is serialised: Polynomial.ValueAt and Shares.reconstruct do, the proof responses are sums
   of two terms (< 2r < 2^256), and combineShares - the sum of n shares - did not (KeyGen panicked in SK.Bytes from n = 6 on,
   always for n >= 12; repaired, see KNOWN_FINDINGS.txt).  The tie compares scalars modulo r and exercises (n,t) up to
   (12,7) in the quick tier and (16,2), (10,10) in the thorough tier.

   Object state.  The model has none: keys, parameters and party lists are ARGUMENTS of the model functions, whereas the Go
   Prover, Verifier and TPS are long-lived objects that are (re-)initialised by Init / SetShareData.  "A re-initialised object
   behaves like a newly constructed one" is a modelling decision, tied on every run by the long-lived-objects family of the
   check (the same objects through several key epochs, each verdict compared with fresh objects on the same input). *)
From mathcomp Require Import all_ssreflect all_algebra.
From TSS Require Import Alg.Lagrange Alg.PS Corr.PSCorr.
Import GRing.Theory.
Open Scope ring_scope.

(* an honestly produced request passes the signer's check, whatever the hash functions and the oracle return,
   for every message vector of the configured length and all nonces *)
Theorem C08_request_accepted :
  forall (F : fieldType) (G1 G2 : lmodType F) (Hm : G1 -> F) (HG : G1 -> G1) (RO1 : seq G1 -> F)
         (pp : pparams G1 G2) (m : seq F) (rc z : F) (r alpha beta : seq F) (gamma : F),
  size m = (pn pp).-1 -> (0 < pn pp)%N ->
  (verify_request Hm HG RO1 true pp (blind Hm HG RO1 pp m rc z r alpha beta gamma).1).1 = true.
Proof. exact: request_accepted. Qed.
Print Assumptions C08_request_accepted.

(* every party i of 1..N signs it from its DKG share, and the partial signature unblinds to a witness for which the
   UnBlind pairing equation holds under the key party i published: UnBlind returns it *)
Theorem C08_partial_unblinds :
  forall (F : fieldType) (G1 G2 GT : lmodType F) (e : G1 -> G2 -> GT) (Hm : G1 -> F) (HG : G1 -> G1) (RO1 : seq G1 -> F),
  (forall (c : F) (a : G1) (b : G2), e (c *: a) b = c *: e a b) ->
  (forall (c : F) (a : G1) (b : G2), e a (c *: b) = c *: e a b) ->
  forall (N : nat) (pp : pparams G1 G2) (deals : seq (dealing F)) (m : seq F) (rc z : F) (r alpha beta : seq F) (gamma : F) (i : nat),
  size m = (pn pp).-1 -> (0 < pn pp)%N -> (0 < i <= N)%N ->
  let n := pn pp in
  let bl := blind Hm HG RO1 pp m rc z r alpha beta gamma in
  let sk := dkg_sk n deals i in
  (sign_blind Hm HG RO1 true pp bl.1 sk).1 = Some (apply_sk Hm HG pp bl.1 sk) /\
  unblind e pp (nth (PK 0 [::]) (dkg_pks pp n N deals) i.-1) (apply_sk Hm HG pp bl.1 sk) (sh bl.2) (smsg bl.2) (sz bl.2)
  = Some (sig_exp n sk (smsg bl.2) *: sh bl.2).
Proof. exact: partial_unblinds_signed. Qed.
Print Assumptions C08_partial_unblinds.

(* for every list S of at least t distinct signers the Lagrange-combined witnesses give a proof of knowledge that
   verifies under the threshold key, which every party computes from any list T of at least t parties *)
Theorem C08_pok_verifies :
  forall (F : fieldType) (G1 G2 GT : lmodType F) (e : G1 -> G2 -> GT) (Hm : G1 -> F) (HG : G1 -> G1)
         (RO1 : seq G1 -> F) (RO2 : seq (G2 + G1) -> F),
  (forall (a a' : G1) (b : G2), e (a + a') b = e a b + e a' b) ->
  (forall (c : F) (a : G1) (b : G2), e (c *: a) b = c *: e a b) ->
  (forall (c : F) (a : G1) (b : G2), e a (c *: b) = c *: e a b) ->
  forall N t : nat,
  (forall i j : nat, (i <= N)%N -> (j <= N)%N -> i%:R = j%:R :> F -> i = j) ->
  forall (pp : pparams G1 G2) (deals : seq (dealing F)) (m : seq F) (rc z : F) (r alpha beta : seq F) (gamma : F)
         (S T : seq nat) (eps delta mu : F) (gam : seq F),
  size m = (pn pp).-1 -> (0 < pn pp)%N -> deals_ok t deals -> signers_ok N t S -> signers_ok N t T ->
  let n := pn pp in
  let bl := blind Hm HG RO1 pp m rc z r alpha beta gamma in
  let ws := [seq unblind_point (apply_sk Hm HG pp bl.1 (dkg_sk n deals k)) (sz bl.2) | k <- S] in
  let tpk := agg_pk n (dkg_pks pp n N deals) T in
  sh bl.2 != 0 -> eps != 0 ->
  verify_pok e RO2 pp tpk (prove_knowledge RO2 pp tpk bl.2 S ws eps delta mu gam) = true.
Proof. exact: pok_verifies_dkg. Qed.
Print Assumptions C08_pok_verifies.

(* the same for arbitrary party identifiers: `parties` lists the identifiers in rank order (what TPS.Init / Prover.Init are
   given), the signers are any t or more distinct parties of it, the witness of a party is made with the share of its rank,
   and the repaired prover combines the witnesses at the ranks *)
Theorem C08_pok_verifies_identifiers :
  forall (F : fieldType) (G1 G2 GT : lmodType F) (e : G1 -> G2 -> GT) (Hm : G1 -> F) (HG : G1 -> G1)
         (RO1 : seq G1 -> F) (RO2 : seq (G2 + G1) -> F),
  (forall (a a' : G1) (b : G2), e (a + a') b = e a b + e a' b) ->
  (forall (c : F) (a : G1) (b : G2), e (c *: a) b = c *: e a b) ->
  (forall (c : F) (a : G1) (b : G2), e a (c *: b) = c *: e a b) ->
  forall N t : nat,
  (forall i j : nat, (i <= N)%N -> (j <= N)%N -> i%:R = j%:R :> F -> i = j) ->
  forall (pp : pparams G1 G2) (deals : seq (dealing F)) (m : seq F) (rc z : F) (r alpha beta : seq F) (gamma : F)
         (parties sids T : seq nat) (eps delta mu : F) (gam : seq F),
  size m = (pn pp).-1 -> (0 < pn pp)%N -> deals_ok t deals ->
  uniq parties -> size parties = N -> uniq sids -> {subset sids <= parties} -> (t <= size sids)%N -> signers_ok N t T ->
  let n := pn pp in
  let bl := blind Hm HG RO1 pp m rc z r alpha beta gamma in
  let ws := [seq unblind_point (apply_sk Hm HG pp bl.1 (dkg_sk n deals (rank_of parties id))) (sz bl.2) | id <- sids] in
  let tpk := agg_pk n (dkg_pks pp n N deals) T in
  sh bl.2 != 0 -> eps != 0 ->
  verify_pok e RO2 pp tpk (prove_knowledge_ids RO2 true pp tpk bl.2 parties sids ws eps delta mu gam) = true.
Proof. exact: pok_verifies_ids. Qed.
Print Assumptions C08_pok_verifies_identifiers.

(* the pinned tree combined the witnesses at the party IDENTIFIERS: for parties {1,2,4}, t = 2, signers {1,4} the honest proof
   of knowledge is rejected (toy instance, by computation); at the ranks it verifies.  Real-code witness: replay of ./check C08
   before the fix: parties [1,2,4], signers of ranks [1,3] = parties [1,4], "pairing condition unsatisfied". *)
Theorem C08_identifier_points_refuted :
  pok_ids_case false 0 3 2 1 [:: 1%N] [:: 1; 2; 4]%N [:: 1; 4]%N = false /\
  pok_ids_case true 0 3 2 1 [:: 1%N] [:: 1; 2; 4]%N [:: 1; 4]%N = true /\
  pok_ids_case false 0 3 2 1 [:: 1%N] [:: 1; 2; 4]%N [:: 1; 2]%N = true.
Proof. exact: identifier_points_refuted. Qed.
Print Assumptions C08_identifier_points_refuted.

(* DKG arithmetic: party i holds sum_j p_j(i), publishes g2^(sum_j p_j(i)), and every list T of at least t parties
   aggregates to the same key g2^(sum_j p_j(0)) (component-wise for x and every y) *)
Theorem C08_dkg_public_equal :
  forall (F : fieldType) (G1 G2 : lmodType F) (N t : nat),
  (forall i j : nat, (i <= N)%N -> (j <= N)%N -> i%:R = j%:R :> F -> i = j) ->
  forall (pp : pparams G1 G2) (n : nat) (deals : seq (dealing F)) (T : seq nat),
  deals_ok t deals -> signers_ok N t T ->
  (forall i, dkg_sk n deals i = sk_at (poly_x deals) (poly_y deals) n i) /\
  (forall i, (0 < i <= N)%N -> nth (PK 0 [::]) (dkg_pks pp n N deals) i.-1 = pk_of pp (dkg_sk n deals i)) /\
  agg_pk n (dkg_pks pp n N deals) T = pk_of pp (sk_at (poly_x deals) (poly_y deals) n 0).
Proof. exact: dkg_public_equal_all. Qed.
Print Assumptions C08_dkg_public_equal.

(* non-vacuity: the premises hold in the toy instance of Corr/PSCorr.v (Z/31, e(a,b) = a*b), and the statements
   evaluate to true there for L = 2, N = 3, t = 2, signers {1,3}, aggregation over {2,3} *)
Example C08_premises_satisfiable :
  (forall (a a' b : TG), te (a + a') b = te a b + te a' b) /\
  (forall (c : TF) (a b : TG), te (c *: a) b = c *: te a b) /\
  (forall (c : TF) (a b : TG), te a (c *: b) = c *: te a b) /\
  (forall i j : nat, (i <= 4)%N -> (j <= 4)%N -> i%:R = j%:R :> TF -> i = j) /\
  signers_ok 3 2 [:: 1%N; 3%N] /\ deals_ok 2 (t_deals 3 2 3 0).
Proof. by split; [exact: te_Dl | split; [exact: te_Zl | split; [exact: te_Zr | split; [exact: t_natF_inj | by vm_compute]]]]. Qed.
Example C08_example :
  [&& complete_request 0 2 [:: 1%N; 2%N], complete_unblind 0 3 2 2 [:: 1%N; 2%N] 3,
      complete_pok 0 3 2 2 [:: 1%N; 2%N] [:: 1%N; 3%N] & complete_dkg_equal 0 3 2 2 [:: 2%N; 3%N]].
Proof. by vm_compute. Qed.
