(* C19 — tss-lib adapters (mpc/binance/ecdsa, mpc/binance/eddsa): receiver-side classification, sender binding, digest binding.
   This file only states the property theorems; definitions live in TSS.Adapters.Classify, proofs in TSS.Adapters.ClassifyFacts.
   The tables, the constants of the `round > K -> round - D` rule, the identifier bound and the shape of the two comparisons
   are TSS.Gen.Adapters, regenerated from the Go source before every build; the routing table TSS.Gen.AdaptersRouting is
   what tss-lib v2.0.2 did in complete key-generation and signing runs (corpus/C19, re-captured by every check run).
   Phase of a type = what the code's own rule implies: raw round <= K is key generation, raw round > K is signing
   (C19_phase_by_url: this coincides with ".keygen." / ".signing." in the type URL).  tss-lib itself is not modelled. *)
From Coq Require Import String.
Require Import TSS.Base.Base TSS.Adapters.Classify TSS.Adapters.ClassifyFacts.
Require TSS.Gen.Adapters TSS.Gen.AdaptersRouting.
Import Inst.

(* the translator recognised the shape of both Go files and of the captured routing tables (otherwise it writes empty
   tables and `false` here, and says why in the generated file) *)
Theorem C19_translator_ok :
  Gen.Adapters.translator_ok = true /\ Gen.AdaptersRouting.routing_ok = true.
Proof. exact (conj eq_refl eq_refl). Qed.
Print Assumptions C19_translator_ok.

(* distinct broadcast-class types of one phase get distinct rounds (after the -D rule); quantified over all strings *)
Theorem C19_rounds_distinct :
  (forall u v, snd (ecdsa_classify u) = true -> snd (ecdsa_classify v) = true -> u <> v ->
               same_phase ecdsa_rule Gen.Adapters.ecdsa_rounds u v = true -> fst (ecdsa_classify u) <> fst (ecdsa_classify v)) /\
  (forall u v, snd (eddsa_classify u) = true -> snd (eddsa_classify v) = true -> u <> v ->
               same_phase eddsa_rule Gen.Adapters.eddsa_rounds u v = true -> fst (eddsa_classify u) <> fst (eddsa_classify v)).
Proof.
  exact (conj (distinct_check_sound ecdsa_rule Gen.Adapters.ecdsa_rounds Gen.Adapters.ecdsa_broadcast eq_refl)
              (distinct_check_sound eddsa_rule Gen.Adapters.eddsa_rounds Gen.Adapters.eddsa_broadcast eq_refl)).
Qed.
Print Assumptions C19_rounds_distinct.

(* every type the library emitted is classified as the library routed it, is a key of msgURL2Round, and lies in the phase
   in which it was emitted *)
Theorem C19_matches_library :
  (forall u b ph, In (u, (b, ph)) Gen.AdaptersRouting.ecdsa_routing ->
     snd (ecdsa_classify u) = b /\ (exists r, lookup Gen.Adapters.ecdsa_rounds u = Some r) /\
     is_signing ecdsa_rule Gen.Adapters.ecdsa_rounds u = ph) /\
  (forall u b ph, In (u, (b, ph)) Gen.AdaptersRouting.eddsa_routing ->
     snd (eddsa_classify u) = b /\ (exists r, lookup Gen.Adapters.eddsa_rounds u = Some r) /\
     is_signing eddsa_rule Gen.Adapters.eddsa_rounds u = ph).
Proof.
  exact (conj (matches_check_sound ecdsa_rule Gen.Adapters.ecdsa_rounds Gen.Adapters.ecdsa_broadcast Gen.AdaptersRouting.ecdsa_routing eq_refl)
              (matches_check_sound eddsa_rule Gen.Adapters.eddsa_rounds Gen.Adapters.eddsa_broadcast Gen.AdaptersRouting.eddsa_routing eq_refl)).
Qed.
Print Assumptions C19_matches_library.

(* conversely: every key of msgURL2Round is a type the library really emitted (no dead or misspelt entry) *)
Theorem C19_tables_covered_by_capture :
  (forall u r, In (u, r) Gen.Adapters.ecdsa_rounds -> exists b ph, In (u, (b, ph)) Gen.AdaptersRouting.ecdsa_routing) /\
  (forall u r, In (u, r) Gen.Adapters.eddsa_rounds -> exists b ph, In (u, (b, ph)) Gen.AdaptersRouting.eddsa_routing).
Proof.
  exact (conj (covered_check_sound Gen.Adapters.ecdsa_rounds Gen.AdaptersRouting.ecdsa_routing eq_refl)
              (covered_check_sound Gen.Adapters.eddsa_rounds Gen.AdaptersRouting.eddsa_routing eq_refl)).
Qed.
Print Assumptions C19_tables_covered_by_capture.

Theorem C19_all_broadcast_urls_known :
  (forall u, snd (ecdsa_classify u) = true -> exists r, lookup Gen.Adapters.ecdsa_rounds u = Some r) /\
  (forall u, snd (eddsa_classify u) = true -> exists r, lookup Gen.Adapters.eddsa_rounds u = Some r).
Proof.
  exact (conj (bc_known_check_sound ecdsa_rule Gen.Adapters.ecdsa_rounds Gen.Adapters.ecdsa_broadcast eq_refl)
              (bc_known_check_sound eddsa_rule Gen.Adapters.eddsa_rounds Gen.Adapters.eddsa_broadcast eq_refl)).
Qed.
Print Assumptions C19_all_broadcast_urls_known.

(* the -D rule yields phase-relative round numbers: within a phase the table's rounds are pairwise distinct, fill 1..size
   of the phase and stay below 128 *)
Theorem C19_rounds_normalised :
  normalised_stmt ecdsa_rule Gen.Adapters.ecdsa_rounds /\ normalised_stmt eddsa_rule Gen.Adapters.eddsa_rounds.
Proof.
  exact (conj (normal_check_sound ecdsa_rule Gen.Adapters.ecdsa_rounds eq_refl)
              (normal_check_sound eddsa_rule Gen.Adapters.eddsa_rounds eq_refl)).
Qed.
Print Assumptions C19_rounds_normalised.

Theorem C19_phase_by_url :
  phase_by_url_stmt ecdsa_rule Gen.Adapters.ecdsa_rounds /\ phase_by_url_stmt eddsa_rule Gen.Adapters.eddsa_rounds.
Proof.
  exact (conj (phase_url_check_sound ecdsa_rule Gen.Adapters.ecdsa_rounds eq_refl)
              (phase_url_check_sound eddsa_rule Gen.Adapters.eddsa_rounds eq_refl)).
Qed.
Print Assumptions C19_phase_by_url.

(* sender binding: the rule as pinned, and the rule with the shape the Go source has now *)
Theorem C19_sender_bound :
  forall claimed from, on_msg claimed from = Enqueue -> claimed = from /\ claimed < 65535.
Proof. exact on_msg_sender_bound. Qed.
Print Assumptions C19_sender_bound.

Theorem C19_sender_bound_code :
  (forall claimed from, on_msg_cfg ecdsa_onmsg claimed from = Enqueue -> claimed = from /\ claimed < 65536) /\
  (forall claimed from, on_msg_cfg eddsa_onmsg claimed from = Enqueue -> claimed = from /\ claimed < 65536).
Proof. exact (conj (sender_bound_of_shape ecdsa_onmsg eq_refl) (sender_bound_of_shape eddsa_onmsg eq_refl)). Qed.
Print Assumptions C19_sender_bound_code.

(* what is queued from wire bytes is attributed to the transport sender (the wire format carries no sender of its own) *)
Theorem C19_sender_attribution :
  (forall parsed from k, on_msg_wire ecdsa_onmsg parsed from = Some k -> k = from /\ parsed = true) /\
  (forall parsed from k, on_msg_wire eddsa_onmsg parsed from = Some k -> k = from /\ parsed = true).
Proof.
  exact (conj (fun parsed from k => on_msg_wire_attribution ecdsa_onmsg parsed from k)
              (fun parsed from k => on_msg_wire_attribution eddsa_onmsg parsed from k)).
Qed.
Print Assumptions C19_sender_attribution.

(* the slot: tss-lib files a message under From.Index and never looks at the key again.  The lookup returns the position
   of the EQUAL key, and nothing for a non-member *)
Theorem C19_locate_sound :
  forall ids k i d, locate ids k = Some i -> nth i ids d = k /\ (i < length ids)%nat.
Proof. exact locate_nth. Qed.
Print Assumptions C19_locate_sound.

Theorem C19_locate_nonmember :
  forall ids k, ~ In k ids -> locate ids k = None.
Proof. exact locate_nonmember. Qed.
Print Assumptions C19_locate_nonmember.

(* whatever OnMsg queues from wire bytes is attributed to the transport sender AND filed under that sender's own slot of
   the session, or under no slot at all (then tss-lib refuses it) *)
Theorem C19_sender_slot :
  forall c parsed ids from k s, on_msg_slot c parsed ids from = Some (k, s) ->
    k = from /\ (forall i, s = Some i -> nth_error ids i = Some from) /\ (s = None <-> ~ In from ids).
Proof. exact on_msg_slot_bound. Qed.
Print Assumptions C19_sender_slot.

(* ... and the lookup in the Go source is that one (shape of locatePartyIndex, of its use in OnMsg and of the sorting in Init
   as generated): for every session and every key it yields a slot that is the key's own position, none for a non-member *)
Theorem C19_sender_slot_code :
  (forall ids k, exists s, slot_of Gen.Adapters.ecdsa_locate_exact ids k = Some s /\
     (forall i, s = Some i -> nth_error ids i = Some k) /\ (~ In k ids -> s = None)) /\
  (forall ids k, exists s, slot_of Gen.Adapters.eddsa_locate_exact ids k = Some s /\
     (forall i, s = Some i -> nth_error ids i = Some k) /\ (~ In k ids -> s = None)).
Proof. exact (conj (slot_of_exact Gen.Adapters.ecdsa_locate_exact eq_refl) (slot_of_exact Gen.Adapters.eddsa_locate_exact eq_refl)). Qed.
Print Assumptions C19_sender_slot_code.

(* digest binding: the comparison rule *)
Theorem C19_digest_bound :
  forall requested signed s, sign_result requested signed = SOk s -> s = requested /\ s = signed.
Proof. exact sign_result_bound. Qed.
Print Assumptions C19_digest_bound.

(* ECDSA, shape of Sign as generated: whatever the library reports as signed, a result comes back only if it is the
   canonical encoding of hashToInt(requested digest) -- the integer an ECDSA verifier derives from that digest *)
Theorem C19_digest_ecdsa :
  forall lib d m, ecdsa_sign ecdsa_compares lib d = SOk m -> be_to_N m = hash_to_int d /\ m = lib d.
Proof. exact (ecdsa_sign_sound_flag ecdsa_compares eq_refl). Qed.
Print Assumptions C19_digest_ecdsa.

(* EdDSA, shape of Sign as generated: whatever the library reports as signed, a result comes back only for the requested
   digest itself *)
Theorem C19_digest_eddsa :
  forall lib d s, eddsa_sign eddsa_sign_cfg lib d = SOk s -> s = d.
Proof. exact (eddsa_sign_sound eddsa_sign_cfg eq_refl). Qed.
Print Assumptions C19_digest_eddsa.

(* ... and the honest library's answer is not refused *)
Theorem C19_digest_eddsa_complete :
  forall d, eddsa_sign sign_fixed (eddsa_lib sign_fixed) d = SOk d.
Proof. exact eddsa_fixed_complete. Qed.
Print Assumptions C19_digest_eddsa_complete.

(* The pinned upstream EdDSA adapter compared with msgToSign.Bytes() and did not pass len(msgHash) to the library: a digest
   with a leading zero byte was answered with a valid signature on the digest without that byte. *)
Theorem C19_digest_eddsa_tree_refuted :
  exists d s, eddsa_sign sign_tree (eddsa_lib sign_tree) d = SOk s /\ s <> d /\ s = strip0 d.
Proof. exact eddsa_sign_tree_refuted. Qed.
Print Assumptions C19_digest_eddsa_tree_refuted.

(* non-vacuity: concrete instances *)
Example C19_example :
  ecdsa_classify "type.googleapis.com/binance.tsslib.ecdsa.signing.SignRound1Message2" = (2, true) /\
  ecdsa_classify "type.googleapis.com/binance.tsslib.ecdsa.signing.SignRound1Message1" = (1, false) /\
  eddsa_classify "type.googleapis.com/binance.tsslib.eddsa.keygen.KGRound2Message2" = (3, true) /\
  eddsa_classify "type.googleapis.com/unknown" = (0, false) /\
  on_msg 7 7 = Enqueue /\ on_msg 7 8 = Drop /\ on_msg 65535 65535 = Drop /\
  on_msg_slot onmsg_std true [1; 3; 5] 3 = Some (3, Some 1%nat) /\ on_msg_slot onmsg_std true [1; 3; 5] 2 = Some (2, None) /\
  sign_result [1; 2] [1; 2] = SOk [1; 2] /\ sign_result [1; 2] [2] = SErr /\
  eddsa_sign sign_fixed (eddsa_lib sign_fixed) [0; 7] = SOk [0; 7] /\
  hash_to_int [1; 0] = 256.
Proof. vm_compute. repeat split. Qed.
