(* C03 — Reliable broadcast integrity: authentic, members only, at most once, non-empty; p2p verbatim.
   This file only states the property theorems; proofs live in TSS.RBC.Global. *)
From Coq Require Import List. Import ListNotations.
Require Import TSS.RBC.Model TSS.RBC.Global TSS.RBC.Refute.

(* Same system as C02.  Every broadcast-class hand-over (x, k, p) at an honest party x:
   the sender ks k is a participant other than x; p is a real payload q (never an empty placeholder);
   the sender itself transmitted exactly q, classified into that round, directly to x earlier
   (the event is in the history); and the digest of the key is the digest x recomputed over q. *)
Theorem C03_integrity :
  forall (id : Type) (id_dec : forall x y : id, {x = y} + {x <> y})
         (digest : Type) (dg_dec : forall x y : digest, {x = y} + {x <> y})
         (payload : Type) (dg : payload -> digest)
         (P : list id), NoDup P ->
  forall (honest : id -> Prop), (forall h, honest h -> In h P) ->
  forall S, reachable id id_dec digest dg_dec payload dg P honest S ->
  forall x k p, In (x, k, p) (dlv id digest payload S) ->
    honest x /\ In (ks k) P /\ ks k <> x /\
    exists q, p = Some q /\ In (x, ks k, Bcast q (kr k)) (hist id digest payload S) /\ dg q = kd k.
Proof. exact integrity. Qed.
Print Assumptions C03_integrity.

(* At most one hand-over per (party, sender, round) in the whole run. *)
Theorem C03_at_most_once :
  forall (id : Type) (id_dec : forall x y : id, {x = y} + {x <> y})
         (digest : Type) (dg_dec : forall x y : digest, {x = y} + {x <> y})
         (payload : Type) (dg : payload -> digest)
         (P : list id), NoDup P ->
  forall (honest : id -> Prop), (forall h, honest h -> In h P) ->
  forall S, reachable id id_dec digest dg_dec payload dg P honest S ->
  NoDup (map (dkey id digest payload) (dlv id digest payload S)).
Proof. exact at_most_once. Qed.
Print Assumptions C03_at_most_once.

(* A point-to-point hand-over is a message its transport source, a participant, sent to this party ... *)
Theorem C03_p2p_authentic :
  forall (id : Type) (id_dec : forall x y : id, {x = y} + {x <> y})
         (digest : Type) (dg_dec : forall x y : digest, {x = y} + {x <> y})
         (payload : Type) (dg : payload -> digest)
         (P : list id), NoDup P ->
  forall (honest : id -> Prop), (forall h, honest h -> In h P) ->
  forall S, reachable id id_dec digest dg_dec payload dg P honest S ->
  forall x f q, In (x, f, q) (p2p id digest payload S) ->
    In (x, f, P2P q) (hist id digest payload S) /\ In f P.
Proof. exact p2p_integrity. Qed.
Print Assumptions C03_p2p_authentic.

(* ... and every point-to-point message of a participant is handed over verbatim, exactly once per
   receipt, attributed to its source, without changing the state (unless the party has halted). *)
Theorem C03_p2p_verbatim :
  forall (id : Type) (id_dec : forall x y : id, {x = y} + {x <> y})
         (digest : Type) (dg_dec : forall x y : digest, {x = y} + {x <> y})
         (payload : Type) (dg : payload -> digest) (P : list id) h st f q,
  In f P -> halted st = false ->
  receive id_dec dg_dec dg (cfgOf id P h) st f (P2P q) = (st, [DeliverP2P f q]).
Proof. exact p2p_verbatim. Qed.
Print Assumptions C03_p2p_verbatim.

(* The pinned upstream code handed over several times, and handed over empty placeholders. *)
Theorem C03_once_tree_refuted :
  delivered (run (tree 1) [(0, Bcast 7 0); (2, Ack 7 0 0); (2, Ack 7 0 0); (0, Bcast 7 0)])
  = [(0, 0, Some 7); (0, 0, Some 7); (0, 0, Some 7)].
Proof. exact once_tree_refuted. Qed.
Theorem C03_nonempty_tree_refuted :
  delivered (run (tree 1) [(2, Ack 7 0 0); (0, Ack 7 0 0)]) = [(0, 0, None)].
Proof. exact nonempty_tree_refuted. Qed.
Print Assumptions C03_once_tree_refuted.

(* Instance of at-most-once on the "round revisited" schedule of the attack stream: the sender completes round 0, completes
   round 1, and comes back to round 0 with another payload that is vouched for again: handed over are the first payload of
   round 0 and the payload of round 1, nothing else. *)
Theorem C03_round_revisited :
  delivered (run (fixd 1) [(0, Bcast 7 0); (2, Ack 7 0 0); (0, Bcast 8 1); (2, Ack 8 0 1); (0, Bcast 9 0); (2, Ack 9 0 0)])
  = [(0, 0, Some 7); (0, 1, Some 8)].
Proof. exact round_revisited_fixed. Qed.
Print Assumptions C03_round_revisited.
