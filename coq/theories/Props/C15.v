(* C15 — Silent-mode buffer stays bounded and gives resources back.
   Only property theorems here; proofs in TSS.Box.{Inv,Bounded,Refute}.  All statements are about the
   sequential model of msg.Box (TSS.Box.Model) in its repaired variant, for ARBITRARY operation lists. *)
Require Import TSS.Base.Base TSS.Box.Model TSS.Box.Assoc TSS.Box.Inv TSS.Box.Bounded TSS.Box.Handoff TSS.Box.Refute
               TSS.Box.Sync TSS.Box.SyncFacts.

(* per (sender, topic) at most limit+1 buffered messages; per sender at most maxTopics+1 buffered topics *)
Theorem C15_bounds :
  forall c, var c = v_fixed -> forall ops b o, run c box0 ops = (b, o) ->
  (forall t st src, aget teqb (pending b) t = Some st -> (nsrc src (s_msgs st) <= S (limit c))%nat) /\
  (forall src, (length (topics_of b src) <= S (maxTopics c))%nat).
Proof. exact box_bounds. Qed.
Print Assumptions C15_bounds.

(* ... and under concurrency: at every point of every lock-granular interleaving of any goroutines' HandleMessage and Send
   calls (model TSS.Box.Sync of the repaired Box; no clock tick during the schedule), whether or not traffic is shed: the
   same bounds, every in-flight entry of a sender stands for a topic with a buffered message of that sender, and a topic
   that has started has nothing buffered *)
Theorem C15_concurrent_bounds :
  forall c, var c = v_fixed -> forall scripts sched,
  let b := sb (wbox (wrun c scripts sched)) in
  (forall t st src, aget teqb (pending b) t = Some st -> (nsrc src (s_msgs st) <= S (limit c))%nat) /\
  (forall src, (length (topics_of b src) <= S (maxTopics c))%nat) /\
  (forall src t, In t (topics_of b src) -> exists st, aget teqb (pending b) t = Some st /\ (1 <= count_of st src)%nat) /\
  (forall t st, aget teqb (pending b) t = Some st -> aget teqb (started b) t = None).
Proof. exact concurrent_bounds. Qed.
Print Assumptions C15_concurrent_bounds.

(* excess traffic is shed by dropping: no operation sequence, from any state, makes the box panic *)
Theorem C15_shed_not_fail :
  forall c, var c = v_fixed -> forall ops b b' o, run c b ops = (b', o) -> ~ In OPanic o.
Proof. exact box_no_panic. Qed.
Print Assumptions C15_shed_not_fail.

(* once the topic starts, nothing of it is left in the buffer or in any sender's in-flight set *)
Theorem C15_release_on_start :
  forall c, var c = v_fixed -> forall b t b' o, Inv c b -> send c b t = (b', o) ->
  aget teqb (pending b') t = None /\ forall src, ~ In t (topics_of b' src).
Proof. exact release_on_send. Qed.
Print Assumptions C15_release_on_start.

(* a stale topic is discarded completely by the next due collection (collections are driven by Send) *)
Theorem C15_release_on_expiry :
  forall c, var c = v_fixed -> forall b t st b' o, Inv c b -> gc c b = (b', o) ->
  expireE c <= epoch b - lastGC b ->
  aget teqb (pending b) t = Some st -> expireE c < epoch b - s_last st ->
  aget teqb (pending b') t = None /\ aget teqb (started b') t = None /\ forall src, ~ In t (topics_of b' src).
Proof. exact release_on_expiry. Qed.
Print Assumptions C15_release_on_expiry.

(* the invariant used above holds in every reachable state *)
Theorem C15_invariant_reachable :
  forall c, var c = v_fixed -> forall ops b o, run c box0 ops = (b, o) -> Inv c b.
Proof. exact reach_inv. Qed.
Print Assumptions C15_invariant_reachable.

(* a sender that is within the limits NOW (L = topics it currently has buffered messages for, |L| <= maxTopics;
   at most `limit` messages buffered for this topic) gets its message stored, whatever happened earlier *)
Theorem C15_not_throttled :
  forall c b m b' o (L : list topic),
  Inv c b -> recv c b m = (b', o) ->
  aget teqb (started b) (m_topic m) = None ->
  NoDup L -> (forall t st, aget teqb (pending b) t = Some st -> (1 <= count_of st (m_src m))%nat -> In t L) ->
  (length L <= maxTopics c)%nat ->
  (forall st, aget teqb (pending b) (m_topic m) = Some st -> (nsrc (m_src m) (s_msgs st) <= limit c)%nat) ->
  o = [] /\ exists st', aget teqb (pending b') (m_topic m) = Some st' /\
    s_msgs st' = (match aget teqb (pending b) (m_topic m) with Some st => s_msgs st | None => [] end) ++ [m].
Proof. exact not_throttled. Qed.
Print Assumptions C15_not_throttled.

(* What the pinned upstream code did (witnesses behind the fix: commits 29370c1, 81a5971, 286bcc2, 475df77). *)
Theorem C15_shed_tree_refuted :
  has_panic (snd (run (ctree 2 10 6) box0 [Recv (M 1 0 0); Recv (M 1 0 1); Recv (M 1 0 2); Recv (M 1 0 3)])) = true.
Proof. exact shed_tree_refuted. Qed.
Theorem C15_release_tree_refuted :
  TSS.Box.Refute.handoffs (snd (run (ctree 100 1 6) box0 finished_topics)) = [M 1 0 0; M 1 1 0].
Proof. exact release_tree_refuted. Qed.
Theorem C15_expiry_tree_refuted :
  buffered (fst (run (ctree 100 10 6) box0 stale_ops)) (T 0) = [M 1 0 0].
Proof. exact expiry_tree_refuted. Qed.
(* the same scripts on the repaired variant *)
Theorem C15_fixed_examples :
  TSS.Box.Refute.handoffs (snd (run (cfix 100 1 6) box0 finished_topics)) = [M 1 0 0; M 1 1 0; M 1 2 0; M 1 3 0] /\
  buffered (fst (run (cfix 100 10 6) box0 stale_ops)) (T 0) = [].
Proof. split; [exact release_fixed|exact (proj1 expiry_fixed)]. Qed.
Print Assumptions C15_fixed_examples.
