(* C10 — Nothing received from a peer or client can crash or wedge a node.
   One totality theorem per modelled entry point (the models return Panic as a VALUE wherever the Go code can panic:
   index/slice out of range, nil dereference, unchecked type assertion, explicit panic), plus isolation: input that
   is rejected leaves the state as it was.  Proofs in the engines' files; this file only states them. *)
Require Import TSS.Base.Base TSS.Wire.Codec TSS.Wire.CodecFacts
               TSS.RBC.Model TSS.RBC.Scheme TSS.RBC.NoPanic
               TSS.Box.Model TSS.Box.Bounded
               TSS.Orch.Membership TSS.Orch.Sessions TSS.Orch.SessionFacts
               TSS.Net.Frame TSS.Net.FrameFacts TSS.Net.Handshake.

(* --- message dispatcher: the MPC wire format (handleMPC / rbcEncoding.Ack) and the synchroniser format are total --- *)
Theorem C10_mpc_decoder_total : forall bs, decode_mpc wire_fixed bs <> Panic.
Proof. exact decode_mpc_fixed_total. Qed.
Theorem C10_sync_decoder_total : forall bs, decode_sync wire_fixed bs <> Panic.
Proof. exact decode_sync_fixed_total. Qed.
Print Assumptions C10_mpc_decoder_total.
Print Assumptions C10_sync_decoder_total.

(* --- dispatcher -> participant filter -> reliable broadcast: for EVERY byte string, EVERY instance state, EVERY source other
   than the node itself, and every classifier that does not panic itself: no panic --- *)
Theorem C10_rbc_path_total :
  forall (hash : bytes -> bytes) (classify : bytes -> outcome (N * bool)), (forall p, classify p <> Panic) ->
  forall c st from data, from <> self c ->
  forall x, In x (snd (handle_mpc hash classify wire_fixed c st from data)) -> hout_panics x = false.
Proof. exact handle_mpc_no_panic. Qed.
Print Assumptions C10_rbc_path_total.

(* isolation: what is malformed or rejected by the classifier, and everything from a node that is not a participant of the
   session, leaves the instance exactly as it was and produces nothing *)
Theorem C10_rbc_rejected_unchanged :
  forall (hash : bytes -> bytes) (classify : bytes -> outcome (N * bool)) c st from data,
  to_rbc_msg hash classify wire_fixed from data = Err ->
  handle_mpc hash classify wire_fixed c st from data = (st, []).
Proof. exact rejected_unchanged. Qed.
Theorem C10_rbc_foreign_unchanged :
  forall (hash : bytes -> bytes) (classify : bytes -> outcome (N * bool)), (forall p, classify p <> Panic) ->
  forall c st from data, mem N.eq_dec from (allowed c) = false ->
  handle_mpc hash classify wire_fixed c st from data = (st, []).
Proof. exact foreign_unchanged. Qed.
Print Assumptions C10_rbc_rejected_unchanged.
Print Assumptions C10_rbc_foreign_unchanged.

(* --- silent-mode buffer: no operation list, from any state, makes it panic (excess traffic is dropped) --- *)
Theorem C10_buffer_total :
  forall c, var c = v_fixed -> forall ops b b' o, run c b ops = (b', o) -> ~ In OPanic o.
Proof. exact box_no_panic. Qed.
Print Assumptions C10_buffer_total.

(* --- orchestrator: in whatever session state (idle, synchronising, protocol running, finished, late continuation pending)
   a message arrives, nothing panics and no session state changes --- *)
Theorem C10_sessions_total : forall mm w e, o_panic (snd (step mm w e)) = false.
Proof. exact never_panics. Qed.
Theorem C10_traffic_changes_no_session : forall mm w k sy f p2p, fst (inject mm w k sy f p2p) = w.
Proof. exact traffic_changes_nothing. Qed.
Print Assumptions C10_sessions_total.

(* --- transport: frame reader and connection handshake, for every byte sequence and every oracle behaviour --- *)
Theorem C10_frame_reader_total : forall s, snd (decode_stream s) <> Panic.
Proof. exact decode_stream_total. Qed.
Theorem C10_handshake_total :
  forall (asn1_unmarshal : bytes -> option handshake) (asn1_marshal : handshake -> option bytes)
         (pem_decode : bytes -> option bytes) (x509_parse : bytes -> option pubkey)
         (ecdsa_verify : bytes -> bytes -> bytes -> bool) (sha256 : bytes -> bytes)
         binding tbl s,
  handle_conn asn1_unmarshal asn1_marshal pem_decode x509_parse ecdsa_verify sha256 hs_fixed binding tbl s <> Panic.
Proof. exact handle_conn_fixed_total. Qed.
Print Assumptions C10_frame_reader_total.
Print Assumptions C10_handshake_total.

(* --- the pinned upstream code did panic on input from a peer (witnesses behind the fix: commits) --- *)
Theorem C10_mpc_decoder_tree_refuted : decode_mpc wire_tree [] = Panic.
Proof. exact decode_mpc_tree_panics. Qed.
Theorem C10_sync_decoder_tree_refuted :
  decode_sync wire_tree (1 :: repeat 0 31) = Panic /\ decode_sync wire_tree (1 :: repeat 0 33) = Panic.
Proof. exact decode_sync_tree_panics. Qed.
Print Assumptions C10_mpc_decoder_tree_refuted.

(* Not modelled (covered by the harness runs of this check only): encoding/asn1, protobuf, x509/PEM and the curve library
   (point parsing recovers from panics inside mathlib), i.e. the built-in DKG handlers' and the PS parsers' byte-level
   parsing; their length/nil checks after parsing were repaired (fix: commits 749dbd4 ec52b77 af7259d df0cca9 3ecff0d
   d22646b 1454ec0 850a0d1) and are exercised with truncated / mutated encodings under recover. *)
