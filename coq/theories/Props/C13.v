(* C13 — Every 16-bit identifier, round and digest survives the wire encodings.
   This file only states the property theorems; proofs live in TSS.Wire.CodecFacts. *)
Require Import TSS.Base.Base TSS.Wire.Codec TSS.Wire.CodecFacts.

(* acknowledgement encoding: every round 0..127, every sender 0..65535, every non-empty digest *)
Theorem C13_ack_roundtrip :
  forall digest sender round,
  round < 128 -> id_ok sender -> bytes_ok digest -> digest <> [] ->
  exists bs, new_rbc_encoding digest sender round = Ok bs /\ bytes_ok bs /\
             decode_mpc wire_fixed bs = Ok (DAck digest sender round).
Proof. exact ack_roundtrip. Qed.
Print Assumptions C13_ack_roundtrip.

(* protocol payloads (0xFF prefix) come back verbatim and are never taken for an acknowledgement *)
Theorem C13_payload_roundtrip :
  forall v msg, decode_mpc v (encode_payload msg) = Ok (DPayload msg).
Proof. exact payload_roundtrip. Qed.
Print Assumptions C13_payload_roundtrip.

(* synchroniser encoding: every message type, every 32-byte tag, every view of 16-bit identifiers *)
Theorem C13_sync_roundtrip :
  forall ty tag peers,
  1 <= ty <= 3 -> length tag = 32%nat -> bytes_ok tag -> Forall id_ok peers ->
  exists bs, encode_sync ty tag peers = Ok bs /\ bytes_ok bs /\
             decode_sync wire_fixed bs = Ok (ty, tag, peers).
Proof. exact sync_roundtrip. Qed.
Print Assumptions C13_sync_roundtrip.

(* the bytes hashed into the membership topic determine the member list *)
Theorem C13_topic_inj :
  forall a b, Forall id_ok a -> Forall id_ok b ->
  membership_topic_bytes a = membership_topic_bytes b -> a = b.
Proof. exact membership_topic_inj. Qed.
Print Assumptions C13_topic_inj.

(* The pinned upstream decoders lost the high byte of every identifier (witnesses behind the fix: commits). *)
Theorem C13_ack_roundtrip_tree_refuted :
  exists digest sender round bs,
    round < 128 /\ id_ok sender /\ digest <> [] /\
    new_rbc_encoding digest sender round = Ok bs /\
    decode_mpc wire_tree bs = Ok (DAck digest 0 round) /\ sender <> 0.
Proof. exact ack_roundtrip_tree_refuted. Qed.
Theorem C13_sync_roundtrip_tree_refuted :
  exists tag peers bs,
    length tag = 32%nat /\ Forall id_ok peers /\
    encode_sync 1 tag peers = Ok bs /\
    decode_sync wire_tree bs = Ok (1, tag, [0]) /\ peers <> [0].
Proof. exact sync_roundtrip_tree_refuted. Qed.
Print Assumptions C13_ack_roundtrip_tree_refuted.

(* non-vacuity: a concrete instance of each round-trip *)
Example C13_example :
  decode_mpc wire_fixed [127; 255; 254; 9; 8] = Ok (DAck [9; 8] 65534 127) /\
  decode_sync wire_fixed (2 :: repeat 7 32 ++ [0; 1; 255; 255]) = Ok (2, repeat 7 32, [256; 65535]).
Proof. split; reflexivity. Qed.
