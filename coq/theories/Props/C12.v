(* C12 — Sessions leave no residue and do not interfere with one another.
   Only property theorems; proofs in TSS.Orch.SessionFacts.  `reachable w`: w is reached from the empty Scheme by
   ANY finite history of session starts (KeyGen / Sign with any plan: which synchronisation succeeds, fails, waits or
   completes late; backend result or blocking; usable share data or not; any participant set), releases, context
   cancellations and incoming messages, each session identifier being used by one start only. *)
Require Import TSS.Base.Base TSS.Orch.Membership TSS.Orch.Sessions TSS.Orch.SessionFacts TSS.Orch.Examples.

(* after KeyGen or Sign returned - successfully or not - no handler table mentions the session any more, and this
   stays so whatever happens later (including a synchroniser continuation that fires after the call returned) *)
Theorem C12_no_residue :
  forall w sid s, reachable w -> sget (sessions w) sid = Some s -> s_api s <> None ->
  forall k, tget (syncs w) k <> Some sid /\ tget (rbcs w) k <> Some sid /\ tget (cls w) k <> Some sid.
Proof. exact no_residue. Qed.
Print Assumptions C12_no_residue.

(* every registered handler belongs to a session whose call is still running, under one of that session's own topics *)
Theorem C12_tables_owned :
  forall w, reachable w -> WInv w.
Proof. exact reachable_inv. Qed.
Print Assumptions C12_tables_owned.

(* a later Sign on the same topic is admitted as soon as no Sign on that topic is running; likewise KeyGen *)
Theorem C12_sign_readmitted :
  forall w p, reachable w -> p_sign p = true ->
  (forall j s, sget (sessions w) j = Some s -> s_api s = None -> p_sign (s_plan s) = true -> p_topic (s_plan s) <> p_topic p) ->
  tget (syncs w) (KT (p_topic p)) = None.
Proof. exact sign_readmitted. Qed.
Theorem C12_keygen_readmitted :
  forall w, reachable w ->
  (forall j s, sget (sessions w) j = Some s -> s_api s = None -> p_sign (s_plan s) = true) -> dkg w = false.
Proof. exact keygen_readmitted. Qed.
Print Assumptions C12_sign_readmitted.
Print Assumptions C12_keygen_readmitted.

(* a second concurrent session on the same topic is refused and touches nothing but its own record *)
Theorem C12_same_topic_refused :
  forall mm w sid p j, p_sign p = true -> tget (syncs w) (KT (p_topic p)) = Some j ->
  exists w', start mm w sid p = (w', obs0) /\ syncs w' = syncs w /\ rbcs w' = rbcs w /\ cls w' = cls w /\ dkg w' = dkg w /\
             (forall i, i <> sid -> sget (sessions w') i = sget (sessions w) i) /\
             exists s, sget (sessions w') sid = Some s /\ s_api s = Some RRefused.
Proof. exact same_topic_refused. Qed.
Theorem C12_second_keygen_refused :
  forall mm w sid p, p_sign p = false -> dkg w = true ->
  exists w', start mm w sid p = (w', obs0) /\ syncs w' = syncs w /\ rbcs w' = rbcs w /\ cls w' = cls w /\ dkg w' = dkg w.
Proof. exact second_keygen_refused. Qed.
Print Assumptions C12_same_topic_refused.

(* traffic reaches a protocol instance only on the topic of a session that is still running, and only from one of that
   session's participants (so late, foreign and other sessions' traffic reaches nothing); it never changes session state *)
Theorem C12_traffic_filtered :
  forall mm w k sy f p2p sid fp b, reachable w ->
  In (ROnMsg sid fp b) (o_reached (snd (inject mm w k sy f p2p))) ->
  exists s, sget (sessions w) sid = Some s /\ s_api s = None /\ k = k1 (s_plan s) /\
            In f (p_members (s_plan s)) /\ fp = pid_of mm f /\ b = false.
Proof. exact traffic_filtered. Qed.
Theorem C12_traffic_changes_nothing :
  forall mm w k sy f p2p, fst (inject mm w k sy f p2p) = w.
Proof. exact traffic_changes_nothing. Qed.
Print Assumptions C12_traffic_filtered.

(* non-vacuity: a reachable history with a timed-out Sign, a refused concurrent Sign, a re-admitted successful Sign,
   a refused KeyGen and a late continuation, ending with empty tables *)
Theorem C12_example :
  reachable (fst (runh mm3 world0 hist1)) /\
  let '(w, os) := runh mm3 world0 hist1 in
  map (api_of w) [0; 1; 2; 3; 4] = [Some RCtx; Some RRefused; Some ROk; Some RErr; Some RCtx] /\
  syncs w = [] /\ rbcs w = [] /\ cls w = [] /\ dkg w = false /\
  nth 1 (map o_reached os) [] = [ROnMsg 0 30 false] /\
  nth 0 (map o_inits os) [] = [(0, [10; 20; 30])] /\
  nth 0 (map o_dests os) [] = [(0, 10, Some 4); (0, 20, Some 2); (0, 30, Some 3); (0, 60000, None)].
Proof. split; [exact hist1_reachable|exact hist1_outcome]. Qed.
Print Assumptions C12_example.
