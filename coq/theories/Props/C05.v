(* C05 — A misbehaving DKG participant cannot split or poison the generated key.
   Only statements; proofs in TSS.Alg.DKG (the per-party phase machine of TBLS.KeyGen / TPS.KeyGen + OnMsg),
   TSS.Alg.DKGSystem (n parties, Byzantine ones arbitrary) and TSS.Alg.DKGAlg (instance with the algebra of C18).

   What the lower layers provide is a hypothesis, visible in the statements (record DKGSystem.Network):
   deliveries are attributed to other session participants (authenticated links, rbcFilter: Props/C03.v), a commitment / key
   attributed to an honest party was broadcast by it (C03_integrity), and any two honest parties that are handed a
   commitment / key from one sender are handed the same one (reliable broadcast: Props/C02.v C02_agreement, C03_at_most_once).
   Nothing else is assumed about order, duplication, withholding, malformed or out-of-phase messages, nor about what
   Byzantine parties send.  SHA-256 is an arbitrary function H; "commitment matches" is H pk = c. *)
From Coq Require Import List ZArith.
Require Import TSS.Base.Base TSS.Alg.DKG TSS.Alg.DKGSystem TSS.Corr.DKGCorr.
From mathcomp Require Import all_ssreflect all_algebra.
Require Import TSS.Alg.SSS TSS.Alg.DKGAlg.
Import GRing.Theory.
Local Open Scope ring_scope.

Section PerParty.
Variables (S V C : Type) (add : S -> S -> S) (pub : S -> V) (H : V -> C) (C_eqb : C -> C -> bool).
Variables (crosscheck : list V -> bool) (tpk_of : list V -> V) (parties : list nat) (self : nat) (dealt : nat -> S).
Let final := final S V C add pub H C_eqb crosscheck tpk_of parties self dealt.
Let outputs := outputs S V C add pub H C_eqb crosscheck tpk_of parties self dealt.

(* "No honest party discloses its public-key contribution before it holds the commitments of all other participants":
   in every run (any events, any order) the step that broadcasts the key starts in a state holding n-1 commitments. *)
Theorem C05_no_early_reveal : forall evs pk, List.In (BcastReveal pk) (outputs evs) ->
  exists evs1 e evs2, evs = evs1 ++ e :: evs2 /\ length (commits S V C (final evs1)) = (n parties - 1)%coq_nat.
Proof. exact: no_early_reveal. Qed.

(* once its context is done the party sends nothing any more; the only output left is the error return *)
Theorem C05_cancelled_is_silent : forall st evs, ctx_done S V C st = true ->
  forall o, List.In o (snd (run S V C add pub H C_eqb crosscheck tpk_of parties self st evs)) -> o = Return RErr.
Proof. exact: ctx_done_silent. Qed.

(* an Ok result is the closed form of the own share and the FIRST values received (DKG.final_first), every commitment
   matched its key and the cross-check accepted the assembled list *)
Theorem C05_outcome_closed_form : forall evs sk0 pkl tpk, ph S V C (final evs) = Done sk0 pkl tpk ->
  DKG.combine S add (shares S V C (final evs)) (DKG.others parties self) (dealt self) = Some sk0 /\
  DKG.lookup (pkeys S V C (final evs)) self = Some (pub sk0) /\
  DKG.key_list V (pkeys S V C (final evs)) parties = Some pkl /\
  (forall p v, List.In p parties -> p <> self -> DKG.lookup (pkeys S V C (final evs)) p = Some v ->
               exists c, DKG.lookup (commits S V C (final evs)) p = Some c /\ C_eqb (H v) c = true) /\
  crosscheck pkl = true /\ tpk = tpk_of pkl.
Proof. exact: outcome_closed_form. Qed.

(* malformed / duplicated / out-of-phase / withheld messages never drive KeyGen into a "programming error" panic *)
Theorem C05_never_panics : List.NoDup parties -> List.In self parties ->
  forall evs, List.Forall (ev_ok S V C parties self) evs -> ph S V C (final evs) <> Panicked.
Proof. exact: never_panics. Qed.
End PerParty.
Print Assumptions C05_no_early_reveal.
Print Assumptions C05_cancelled_is_silent.
Print Assumptions C05_outcome_closed_form.
Print Assumptions C05_never_panics.
