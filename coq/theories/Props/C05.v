(* C05 — A misbehaving DKG participant cannot split or poison the generated key.
   Only statements; proofs in TSS.Alg.DKG (the per-party phase machine of TBLS.KeyGen / TPS.KeyGen + OnMsg),
   TSS.Alg.DKGSystem (n parties, Byzantine ones arbitrary) and TSS.Alg.DKGAlg (instance with the algebra of C18).

   What the lower layers provide is a hypothesis, visible in the statements (record DKGSystem.Network):
   deliveries are attributed to other session participants (authenticated links, rbcFilter: Props/C03.v), a commitment / key
   attributed to an honest party was broadcast by it (C03_integrity), and any two honest parties that are handed a
   commitment / key from one sender are handed the same one (reliable broadcast: Props/C02.v C02_agreement, C03_at_most_once).
   Nothing else is assumed about order, duplication, withholding, malformed or out-of-phase messages, nor about what
   Byzantine parties send.  The model has NO state that survives a key generation: a run starts from DKG.init (Init re-creates
   the stores) and its result is a function of the events of that run alone; the instance-reuse family of the check (the same
   TBLS / TPS objects through two and three consecutive Init + KeyGen runs, each judged and replayed like a run on fresh objects)
   ties that modelling decision to the code.  SHA-256 is an arbitrary function H; "commitment matches" is H pk = c. *)
From Coq Require Import List ZArith.
Require Import TSS.Base.Base TSS.Alg.DKG TSS.Alg.DKGSystem TSS.Corr.DKGCorr.
From mathcomp Require Import all_ssreflect all_algebra.
Require Import TSS.Alg.SSS TSS.Alg.DKGAlg.
Import GRing.Theory.
Local Open Scope ring_scope.
Delimit Scope Z_scope with ZZ.

Section PerParty.
Variables (S V C : Type) (add : S -> S -> S) (pub : S -> V) (H : V -> C) (C_eqb : C -> C -> bool).
Variables (crosscheck : list V -> bool) (tpk_of : list V -> V) (parties : list nat) (self : nat) (dealt : nat -> S).
Let final := final S V C add pub H C_eqb crosscheck tpk_of parties self dealt.
Let outputs := outputs S V C add pub H C_eqb crosscheck tpk_of parties self dealt.

(* "No honest party discloses its public-key contribution before it holds the commitments of all other participants":
   in every run (any events, any order) the step that broadcasts the key starts in a state holding n-1 commitments. *)
Theorem C05_no_early_reveal : forall evs pk, List.In (BcastReveal pk) (outputs evs) ->
  exists evs1 e evs2, evs = evs1 ++ e :: evs2 /\ length (commits S V C (final evs1)) = (DKG.n parties - 1)%coq_nat.
Proof. exact: no_early_reveal. Qed.

(* once its context is done the party sends nothing any more; the only output left is the error return *)
Theorem C05_cancelled_is_silent : forall st evs, ctx_done S V C st = true ->
  forall o, List.In o (snd (run S V C add pub H C_eqb crosscheck tpk_of parties self st evs)) -> o = Return RErr.
Proof. exact: ctx_done_silent. Qed.

(* an Ok result is the closed form of the own share and the FIRST values received (DKG.final_first), every commitment
   matched its key and the cross-check accepted the assembled list *)
Theorem C05_outcome_closed_form : forall evs sk0 pkl tpk, ph S V C (final evs) = Done sk0 pkl tpk ->
  DKG.combine S add (DKG.shares S V C (final evs)) (DKG.others parties self) (dealt self) = Some sk0 /\
  DKG.lookup (pkeys S V C (final evs)) self = Some (pub sk0) /\
  DKG.key_list V (pkeys S V C (final evs)) parties = Some pkl /\
  (forall p v, List.In p parties -> p <> self -> DKG.lookup (pkeys S V C (final evs)) p = Some v ->
               exists c, DKG.lookup (commits S V C (final evs)) p = Some c /\ C_eqb (H v) c = true) /\
  crosscheck pkl = true /\ tpk = tpk_of pkl.
Proof. exact: outcome_closed_form. Qed.

(* malformed / duplicated / out-of-phase / withheld messages never drive KeyGen into a "programming error" panic *)
Theorem C05_never_panics : List.NoDup parties -> List.In self parties ->
  forall evs, List.Forall (ev_ok S V C parties self) evs -> ph S V C (final evs) <> Panicked.
Proof. exact: never_panics. Qed.
End PerParty.
Print Assumptions C05_no_early_reveal.
Print Assumptions C05_cancelled_is_silent.
Print Assumptions C05_outcome_closed_form.
Print Assumptions C05_never_panics.

Section System.
Variables (S V C : Type) (add : S -> S -> S) (pub : S -> V) (H : V -> C) (C_eqb : C -> C -> bool).
Variables (crosscheck : list V -> bool) (tpk_of : list V -> V) (parties : list nat).
Variables (honest : nat -> Prop) (dealt : nat -> nat -> S) (tr : trace S V C).
Let fin := fin S V C add pub H C_eqb crosscheck tpk_of parties dealt tr.
Hypothesis net : Network S V C add pub H C_eqb crosscheck tpk_of parties honest dealt tr.

(* honest parties never complete with differing public material: all that return Ok return the same (tpk, pks) *)
Theorem C05_consistent : forall i i' sk pkl tpk sk' pkl' tpk',
  honest i -> honest i' -> List.In i parties -> List.In i' parties ->
  ph S V C (fin i) = Done sk pkl tpk -> ph S V C (fin i') = Done sk' pkl' tpk' ->
  pkl = pkl' /\ tpk = tpk'.
Proof. exact: C05_consistent net. Qed.

(* a revealed key that does not match its commitment => no honest party (other than the sender) returns Ok;
   with C05_never_panics: every honest party that finishes returns an error *)
Theorem C05_detects_commitment : (forall a b, C_eqb a b = true -> a = b) ->
  forall i i1 i2 j c v sk pkl tpk,
  honest i -> honest i1 -> honest i2 -> List.In j parties -> j <> i ->
  List.In (i1, DeliverCommit j c) tr -> List.In (i2, DeliverReveal j (Some v)) tr -> c <> H v ->
  ph S V C (fin i) <> Done sk pkl tpk.
Proof. exact: C05_detects_commitment net. Qed.
End System.
Print Assumptions C05_consistent.
Print Assumptions C05_detects_commitment.

Section Algebra.
Variables (F : fieldType) (G : lmodType F) (g : G).
Hypothesis g_neq0 : g != 0.
Hypothesis g_gen : forall v : G, exists a : F, v = a *: g.        (* a cyclic group generated by g (G2, g2) *)
Variables (C : Type) (Hc : G -> C) (C_eqb : C -> C -> bool) (n t : nat).
Hypothesis tn : (0 < t <= n)%N.
Hypothesis sm : small F n.                                          (* n < char F: parties 1..n are distinct non-zero points *)
Variables (honest : nat -> Prop) (dealt : nat -> nat -> F) (tr : trace F G C).
Let cc := cc (G:=G) n t.
Let tpk_of := tpk_of (G:=G) n t.
Let fin := DKGSystem.fin F G C +%R (pubk g) Hc C_eqb cc tpk_of (parties n) dealt tr.
Hypothesis net : Network F G C +%R (pubk g) Hc C_eqb cc tpk_of (parties n) honest dealt tr.

(* If an honest party returns Ok then the listed keys of all n parties lie on ONE polynomial p of degree < t, the reported
   threshold key is g^p(0), and every honest party that returned Ok holds the same material and the share p(its index):
   "shares that can jointly sign under the reported key" (C01_sign).  Every 1 <= t <= n, t = n included. *)
Theorem C05_keys_on_polynomial : forall i sk pkl tpk, honest i -> (0 < i <= n)%N -> ph F G C (fin i) = Done sk pkl tpk ->
  exists p : {poly F},
    [/\ (size p <= t)%N, forall x, (0 < x <= n)%N -> key_of pkl x = p.[pt F x] *: g, tpk = p.[0] *: g &
        forall j sk' pkl' tpk', honest j -> (0 < j <= n)%N -> ph F G C (fin j) = Done sk' pkl' tpk' ->
          [/\ pkl' = pkl, tpk' = tpk & sk' = p.[pt F j]]].
Proof. move=> i sk pkl tpk; exact (DKGAlg.C05_keys_on_polynomial g_neq0 g_gen tn sm net (i:=i) (sk:=sk) (pkl:=pkl) (tpk:=tpk)). Qed.

(* the contrapositive: keys not on one polynomial of degree < t => the party does not return Ok *)
Theorem C05_detects_polynomial : forall i sk pkl tpk, (0 < i <= n)%N ->
  ~ (exists p : {poly F}, (size p <= t)%N /\ forall x, (0 < x <= n)%N -> key_of pkl x = p.[pt F x] *: g) ->
  ph F G C (fin i) <> Done sk pkl tpk.
Proof.
move=> i sk pkl tpk.
exact (DKGAlg.C05_detects_polynomial g_neq0 g_gen (Hc:=Hc) (C_eqb:=C_eqb) tn sm (dealt:=dealt) (tr:=tr) (i:=i) (sk:=sk) (pkl:=pkl) (tpk:=tpk)).
Qed.
End Algebra.
Print Assumptions C05_keys_on_polynomial.
Print Assumptions C05_detects_polynomial.

(* non-vacuity, by computation on the model in the exponent (n = 3, t = 2, party 1): an honest run reaches Ok with keys
   on the line 10 + 11 x; a key moved off the line, a key not matching its commitment and a withheld commitment end in errors *)
Example C05_example :
  run_party 3 2 1 5%ZZ [ES 2 7; ES 3 9; EC 2 32; EC 3 43; ER 2 32; ER 3 43]%ZZ = (VOk 21%ZZ [:: 21; 32; 43]%ZZ 10%ZZ, [:: 2; 3]%N) /\
  run_party 3 2 1 5%ZZ [ES 2 7; ES 3 9; EC 2 33; EC 3 43; ER 2 33; ER 3 43]%ZZ = (VErr, [:: 2; 3]%N) /\
  run_party 3 2 1 5%ZZ [ES 2 7; ES 3 9; EC 2 32; EC 3 43; ER 2 33; ER 3 43]%ZZ = (VErr, [:: 2; 3]%N) /\
  run_party 3 2 1 5%ZZ [ES 2 7; ES 3 9; EC 2 32; ER 2 32; ER 3 43; EX]%ZZ = (VErr, [:: 2]%N).
Proof. by vm_compute. Qed.
