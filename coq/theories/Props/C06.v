(* C06 — Node-id / party-id translation is transparent; secrets reach only the right node.
   Only property theorems; proofs in TSS.Orch.Membership and TSS.Orch.SessionFacts.
   mm is ANY membership map (node -> party), injective or not; participants any list of nodes. *)
Require Import TSS.Base.Base TSS.Orch.Membership TSS.Orch.Sessions TSS.Orch.SessionFacts TSS.Orch.Examples.
From Coq Require Import Sorting.Sorted Sorting.Permutation.

(* the party list handed to Init is sorted, duplicate-free and is exactly the party ids of the agreed participants *)
Theorem C06_init_parties :
  forall m members l, party_ids m members = Ok l ->
  Sorted N.le l /\ NoDup l /\ Permutation (map (pid_of m) members) l.
Proof. exact init_parties. Qed.
Print Assumptions C06_init_parties.

(* ... and whenever the orchestrator initialises a backend (KeyGen or Sign), that list is what it passes *)
Theorem C06_init_argument :
  forall mm w sid s i parties, In (i, parties) (o_inits (snd (callback mm w sid s))) ->
  i = sid /\ party_ids mm (p_members (s_plan s)) = Ok parties.
Proof. exact init_argument. Qed.
Print Assumptions C06_init_argument.

(* a session in which two selected nodes represent the same party is refused (and no backend is initialised: C11_duplicate_party_error) *)
Theorem C06_dup_refused :
  forall m members, party_ids m members = Err <-> ~ NoDup (map (pid_of m) members).
Proof. exact dup_refused. Qed.
Print Assumptions C06_dup_refused.

(* every hand-over is attributed to the party id of its authenticated sender *)
Theorem C06_source :
  forall mm w k sy f p2p sid fp b, reachable w ->
  In (ROnMsg sid fp b) (o_reached (snd (inject mm w k sy f p2p))) ->
  exists s, sget (sessions w) sid = Some s /\ s_api s = None /\ k = k1 (s_plan s) /\
            In f (p_members (s_plan s)) /\ fp = pid_of mm f /\ b = false.
Proof. exact traffic_filtered. Qed.
Print Assumptions C06_source.

(* a point-to-point message for a party of the session goes to exactly one node: the participant representing it *)
Theorem C06_dest :
  forall m members l to, party_ids m members = Ok l -> In to l ->
  exists u, dest_among m to members = Some u /\ In u members /\ pid_of m u = to /\
            forall u', In u' members -> pid_of m u' = to -> u' = u.
Proof. exact dest_unique. Qed.
Print Assumptions C06_dest.

(* non-vacuity: replicas 1 and 4 of party 10; session {2,3,4}: party 10 is reached through node 4, not node 1 *)
Example C06_example :
  party_ids mm3 [2; 3; 4] = Ok [10; 20; 30] /\ dest_among mm3 10 [2; 3; 4] = Some 4 /\ party_ids mm3 [1; 4] = Err.
Proof. repeat split; reflexivity. Qed.
