(* C14 — Silent-mode buffer: exactly-once, in-order hand-off across the first-send race.
   Only property theorems; proofs in TSS.Box.Handoff (sequential) and TSS.Box.ConcFacts (lock-granular). *)
Require Import TSS.Base.Base TSS.Box.Model TSS.Box.Assoc TSS.Box.Inv TSS.Box.Handoff TSS.Box.Refute
               TSS.Box.Conc TSS.Box.ConcFacts.

(* (1) When receive and send calls do not overlap: for EVERY operation list in which nothing is shed (limits) or
   discarded (expiry), per topic, the messages handed over so far followed by the messages still buffered are exactly
   the messages received, in arrival order - each exactly once; and a Send leaves nothing of its topic buffered
   (C15_release_on_start), so every message received before the first Send is handed over by it, later ones at once. *)
Theorem C14_sequential_exactly_once_in_order :
  forall c, var c = v_fixed -> forall ops b o t,
  run c box0 ops = (b, o) -> lossless o -> handed t o ++ buffered b t = received t ops.
Proof. exact sequential_exactly_once_in_order. Qed.
Print Assumptions C14_sequential_exactly_once_in_order.

(* (2) For ALL interleavings at lock granularity of any number of concurrent receive and send calls on the same and on
   different topics (any limits): no message is ever handed over twice. *)
Theorem C14_at_most_once :
  forall limit maxTopics ths sched,
  NoDup (flat_map pc_msgs ths) -> NoDup (handoffs_of (snd (crun limit maxTopics ths sched))).
Proof. exact at_most_once. Qed.
Print Assumptions C14_at_most_once.

(* (3) The full statement (exactly once AND in arrival order, for all interleavings) is FALSE of the faithful model of the
   unchanged code.  Three witness schedules; each is replayed on the real msg.Box by the check through the yield hooks
   and listed in KNOWN_FINDINGS.txt (C14-a late, C14-b lost, C14-c order). *)
Theorem C14_exactly_once_late_refuted :
  let r := run100 [RCheck (Mc 1 1); SBegin Tc] [0; 1; 1; 0; 0; 0; 0; 0]%nat in
  handoffs_of (snd r) = [] /\ cbuffered (final_box r) Tc = [Mc 1 1] /\ cstart (final_box r) = [Tc] /\
  snd (fst r) = [Fin; Fin].
Proof. exact late_refuted. Qed.
Theorem C14_exactly_once_lost_refuted :
  let r := run100 [RCheck (Mc 1 0); RCheck (Mc 1 1); SBegin Tc] [0; 0; 0; 0; 0; 0; 1; 1; 1; 1; 2; 2; 2; 1]%nat in
  handoffs_of (snd r) = [Mc 1 0] /\ cbuffered (final_box r) Tc = [] /\ snd (fst r) = [Fin; Fin; Fin].
Proof. exact lost_refuted. Qed.
Theorem C14_in_order_refuted :
  let r := run100 [RCheck (Mc 1 1); RCheck (Mc 1 2); SBegin Tc; RCheck (Mc 1 3)]
                  [0; 0; 0; 0; 0; 0; 1; 1; 1; 1; 1; 2; 2; 3; 2; 2]%nat in
  handoffs_of (snd r) = [Mc 1 3; Mc 1 1; Mc 1 2] /\ snd (fst r) = [Fin; Fin; Fin; Fin].
Proof. exact order_refuted. Qed.
Print Assumptions C14_exactly_once_late_refuted.
Print Assumptions C14_exactly_once_lost_refuted.
Print Assumptions C14_in_order_refuted.

(* non-vacuity *)
Theorem C14_examples :
  (lossless (snd (run (cfix 100 10 6) box0 seq_ops)) /\
   handed (T 0) (snd (run (cfix 100 10 6) box0 seq_ops)) = [M 1 0 0; M 2 0 1; M 1 0 2] /\
   buffered (fst (run (cfix 100 10 6) box0 seq_ops)) (T 5) = [M 1 5 7; M 2 5 8]) /\
  (NoDup (flat_map pc_msgs [RCheck (Mc 1 1); RCheck (Mc 1 2); SBegin Tc; RCheck (Mc 1 3)]) /\
   length (handoffs_of (snd (run100 [RCheck (Mc 1 1); RCheck (Mc 1 2); SBegin Tc; RCheck (Mc 1 3)]
                                    [0; 0; 0; 0; 0; 0; 1; 1; 1; 1; 1; 2; 2; 3; 2; 2]%nat))) = 3%nat).
Proof. split; [exact seq_nonvacuous|exact at_most_once_nonvacuous]. Qed.
Print Assumptions C14_examples.
