(* C14 — Silent-mode buffer: exactly-once, in-order hand-off across the first-send race.
   Only property theorems; proofs in TSS.Box.Handoff (sequential), TSS.Box.SyncFacts (lock-granular, the repaired Box of
   /repo) and TSS.Box.ConcFacts (lock-granular, the pinned upstream Box: refutations). *)
Require Import TSS.Base.Base TSS.Box.Model TSS.Box.Assoc TSS.Box.Inv TSS.Box.Handoff TSS.Box.Refute
               TSS.Box.Sync TSS.Box.SyncFacts TSS.Box.SyncCount TSS.Box.Conc TSS.Box.ConcFacts.
From Coq Require Import Permutation.

(* (1) For ALL interleavings at lock granularity of any number of goroutines, each making any sequence of HandleMessage and
   Send calls on the same and on different topics, at EVERY point of the run: per topic and sender, the messages handed
   to the dispatcher so far, followed by those that have arrived and are waiting - in the hands of the draining Send,
   in its queue, buffered for a topic that has not started, in the hands of the delivering goroutine - are exactly the
   messages that have arrived, in arrival order.  Hence no message is handed over twice, none is lost, none overtakes an
   earlier one of its sender, whether it arrives before, during or after the first Send on its topic.
   Premises: the messages of one sender are delivered by one goroutine (the reader of the connection to that peer: the
   "arrival order" of the statement), and nothing is shed because of the limits ("provided the sender stays within the
   documented limits"). *)
Theorem C14_exactly_once_in_order :
  forall c, var c = v_fixed -> forall scripts sched,
  one_reader (map (mkTh Idle) scripts) ->
  let w := wrun c scripts sched in
  slossless (wlog w) ->
  forall t src, filter (sel (t, src)) (handoffs (wlog w)) ++ waiting (t, src) (wbox w) (wths w) =
                filter (sel (t, src)) (arrivals (wlog w)).
Proof. exact exactly_once_in_order. Qed.
Print Assumptions C14_exactly_once_in_order.

(* (2) ... and when every call has returned nothing is waiting in anybody's hands or in a draining queue: the hand-overs
   followed by what is buffered are the arrivals; for a topic that has started nothing is buffered, so every message that
   arrived for it has been handed over, exactly once and in order (no message waits for a later Send). *)
Theorem C14_complete_when_quiescent :
  forall c, var c = v_fixed -> forall scripts sched,
  one_reader (map (mkTh Idle) scripts) ->
  let w := wrun c scripts sched in
  slossless (wlog w) -> forallb finished (wths w) = true ->
  forall t src,
    (forall t0, aget teqb (drainq (wbox w)) t0 = None) /\
    filter (sel (t, src)) (handoffs (wlog w)) ++ filter (sel (t, src)) (buffered (sb (wbox w)) t) =
      filter (sel (t, src)) (arrivals (wlog w)) /\
    (is_started (wbox w) t = true ->
       buffered (sb (wbox w)) t = [] /\ filter (sel (t, src)) (handoffs (wlog w)) = filter (sel (t, src)) (arrivals (wlog w))).
Proof. exact quiescent_complete. Qed.
Print Assumptions C14_complete_when_quiescent.

(* (3) The arrival order of the messages of a sender is the order in which its reader calls HandleMessage: arrivals so
   far followed by the messages of the calls the reader has still to make = the messages of the reader's script. *)
Theorem C14_arrival_order_is_call_order :
  forall c scripts sched,
  one_reader (map (mkTh Idle) scripts) ->
  let w := wrun c scripts sched in
  forall src, from src (arrivals (wlog w)) ++ flat_map (rk src) (wths w) = flat_map (fun l => from src (recvs l)) scripts.
Proof. exact arrival_order_is_call_order. Qed.
Print Assumptions C14_arrival_order_is_call_order.

(* (3b) Exactly once WITHOUT premises: in every interleaving, whatever the scripts (several goroutines may deliver
   messages of one sender) and whether or not traffic is shed, the messages that have arrived are - as a multiset, so
   with their multiplicities - exactly those handed over, shed, in the hands of a draining Send, in a draining queue,
   buffered, or in the hands of the goroutine about to hand them over: nothing is duplicated, nothing disappears. *)
Theorem C14_conservation :
  forall c, var c = v_fixed -> forall scripts sched,
  let w := wrun c scripts sched in
  Permutation (handoffs (wlog w) ++ dropped (wlog w) ++ flat_map hand_of (wths w) ++ all_queued (wbox w) ++
               all_buffered (sb (wbox w)) ++ flat_map fwd_of (wths w))
              (arrivals (wlog w)).
Proof. exact conservation. Qed.
Print Assumptions C14_conservation.

(* (4) No interleaving makes the Box panic, whatever the limits. *)
Theorem C14_never_panics :
  forall c, var c = v_fixed -> forall scripts sched, ~ In SPanic (wlog (wrun c scripts sched)).
Proof. exact never_panics. Qed.
Print Assumptions C14_never_panics.

(* (5) When receive and send calls do not overlap, with the garbage collector and the clock: for EVERY operation list in
   which nothing is shed (limits) or discarded (expiry), per topic, the messages handed over so far followed by the messages
   still buffered are exactly the messages received, in arrival order. *)
Theorem C14_sequential_exactly_once_in_order :
  forall c, var c = v_fixed -> forall ops b o t,
  run c box0 ops = (b, o) -> lossless o -> handed t o ++ buffered b t = received t ops.
Proof. exact sequential_exactly_once_in_order. Qed.
Print Assumptions C14_sequential_exactly_once_in_order.

(* (6) The pinned upstream Box (model TSS.Box.Conc, tied to msgbox.go by the same correspondence check until the repair
   b40b5e7 of /repo): the statement was FALSE.  Three witness schedules - a message stored after the topic started and
   left buffered (late), a message added to a store that Send had detached (lost), a message overtaking the drain
   (order); each was replayed on the real upstream code through the yield hooks.  Only "never twice" held. *)
Theorem C14_upstream_at_most_once :
  forall limit maxTopics ths sched,
  NoDup (flat_map pc_msgs ths) -> NoDup (handoffs_of (snd (crun limit maxTopics ths sched))).
Proof. exact at_most_once. Qed.
Theorem C14_upstream_late_refuted :
  let r := run100 [RCheck (Mc 1 1); SBegin Tc] [0; 1; 1; 0; 0; 0; 0; 0]%nat in
  handoffs_of (snd r) = [] /\ cbuffered (final_box r) Tc = [Mc 1 1] /\ cstart (final_box r) = [Tc] /\
  snd (fst r) = [Fin; Fin].
Proof. exact late_refuted. Qed.
Theorem C14_upstream_lost_refuted :
  let r := run100 [RCheck (Mc 1 0); RCheck (Mc 1 1); SBegin Tc] [0; 0; 0; 0; 0; 0; 1; 1; 1; 1; 2; 2; 2; 1]%nat in
  handoffs_of (snd r) = [Mc 1 0] /\ cbuffered (final_box r) Tc = [] /\ snd (fst r) = [Fin; Fin; Fin].
Proof. exact lost_refuted. Qed.
Theorem C14_upstream_order_refuted :
  let r := run100 [RCheck (Mc 1 1); RCheck (Mc 1 2); SBegin Tc; RCheck (Mc 1 3)]
                  [0; 0; 0; 0; 0; 0; 1; 1; 1; 1; 1; 2; 2; 3; 2; 2]%nat in
  handoffs_of (snd r) = [Mc 1 3; Mc 1 1; Mc 1 2] /\ snd (fst r) = [Fin; Fin; Fin; Fin].
Proof. exact order_refuted. Qed.
Print Assumptions C14_upstream_at_most_once.
Print Assumptions C14_upstream_late_refuted.
Print Assumptions C14_upstream_lost_refuted.
Print Assumptions C14_upstream_order_refuted.

(* non-vacuity: a run with two readers and a sending goroutine in which messages arrive before, during and after the
   drain of the first Send meets every premise of (1) and (2); a sequential operation list meets those of (5) *)
Theorem C14_examples :
  (let w := wrun cex ex_scripts ex_sched in
   one_reader (map (mkTh Idle) ex_scripts) /\ slossless (wlog w) /\ forallb finished (wths w) = true /\
   handoffs (wlog w) = [Ms 1 1; Ms 1 2; Ms 1 3; Ms 2 4; Ms 1 5] /\
   arrivals (wlog w) = [Ms 1 1; Ms 1 2; Ms 1 3; Ms 2 4; Ms 1 5] /\ is_started (wbox w) Ts = true) /\
  (lossless (snd (run (cfix 100 10 6) box0 seq_ops)) /\
   handed (T 0) (snd (run (cfix 100 10 6) box0 seq_ops)) = [M 1 0 0; M 2 0 1; M 1 0 2] /\
   buffered (fst (run (cfix 100 10 6) box0 seq_ops)) (T 5) = [M 1 5 7; M 2 5 8]).
Proof. split; [exact sync_example|exact seq_nonvacuous]. Qed.
Print Assumptions C14_examples.
