(* C16 — Transport attributes traffic only to peers that proved their registered identity.
   This file only states the property theorems; proofs live in TSS.Net.Handshake.
   Model: Net/Handshake.v = Handshake.Read + authenticateConnection + the hand-over loop of handleConn, over oracles
   for encoding/asn1, encoding/pem, crypto/x509, crypto/ecdsa and SHA-256 (universally quantified below).
   Premises named in the statements: exporter values of distinct connections differ (binding_inj); a signature that
   verifies under a key on a digest exists only if the holder of that key signed that digest (unforgeable). *)
Require Import TSS.Base.Base TSS.Gen.NetConsts TSS.Net.Frame TSS.Net.Handshake.

(* An attribution (for the pinned and the repaired variant alike): the bytes received decode to a handshake h whose
   TLS binding is this connection's, whose identity is a certificate with an ECDSA key under which h's signature
   verifies over the digest of h re-encoded with empty signature field, and the table maps
   hex(sha256(domain ‖ identity)) to the attributed node, the attributed domain being the one h claims. *)
Theorem C16_sound :
  forall (asn1_unmarshal : bytes -> option handshake) (asn1_marshal : handshake -> option bytes)
         (pem_decode : bytes -> option bytes) (x509_parse : bytes -> option pubkey)
         (ecdsa_verify : bytes -> bytes -> bytes -> bool) (sha256 : bytes -> bytes)
         v binding tbl s dom i,
  authenticate asn1_unmarshal asn1_marshal pem_decode x509_parse ecdsa_verify sha256 v binding tbl s = Ok (dom, i) ->
  exists buff rest h der k m,
    read_handshake s = Ok (buff, rest) /\
    asn1_unmarshal buff = Some h /\
    h_binding h = binding /\
    pem_decode (h_identity h) = Some der /\ x509_parse der = Some (KEcdsa k) /\
    asn1_marshal (set_sig h []) = Some m /\
    ecdsa_verify k (sha256 m) (h_sig h) = true /\
    tbl (lookup_key sha256 dom (h_identity h)) = Some i /\
    dom = h_domain h.
Proof. exact authenticate_sound. Qed.
Print Assumptions C16_sound.

(* What reaches the channel of ServiceConnections from a connection carries exactly the attribution decided for that
   connection; a connection that is not attributed contributes nothing. *)
Theorem C16_channel :
  forall (asn1_unmarshal : bytes -> option handshake) (asn1_marshal : handshake -> option bytes)
         (pem_decode : bytes -> option bytes) (x509_parse : bytes -> option pubkey)
         (ecdsa_verify : bytes -> bytes -> bytes -> bool) (sha256 : bytes -> bytes)
         v binding tbl s msgs x,
  handle_conn asn1_unmarshal asn1_marshal pem_decode x509_parse ecdsa_verify sha256 v binding tbl s = Ok msgs ->
  In x msgs ->
  authenticate asn1_unmarshal asn1_marshal pem_decode x509_parse ecdsa_verify sha256 v binding tbl s
    = Ok (in_domain x, in_from x).
Proof. exact handle_conn_attributed. Qed.
Print Assumptions C16_channel.

(* Under the unforgeability premise: an attribution on connection c means the holder of the presented identity's key
   signed a handshake (empty signature field) that contains c's exporter value and the attributed domain, and that
   identity is registered as node i under that domain. *)
Theorem C16_attribution :
  forall (asn1_unmarshal : bytes -> option handshake) (asn1_marshal : handshake -> option bytes)
         (pem_decode : bytes -> option bytes) (x509_parse : bytes -> option pubkey)
         (ecdsa_verify : bytes -> bytes -> bytes -> bool) (sha256 : bytes -> bytes)
         (conn : Type) (binding_of : conn -> bytes) (signed : bytes -> bytes -> Prop),
  (forall k d sg, ecdsa_verify k d sg = true -> signed k d) ->
  forall v (c : conn) tbl s dom i,
  authenticate asn1_unmarshal asn1_marshal pem_decode x509_parse ecdsa_verify sha256 v (binding_of c) tbl s = Ok (dom, i) ->
  exists h0 der k m,
    pem_decode (h_identity h0) = Some der /\ x509_parse der = Some (KEcdsa k) /\
    asn1_marshal h0 = Some m /\ signed k (sha256 m) /\
    h_sig h0 = [] /\ h_binding h0 = binding_of c /\ h_domain h0 = dom /\
    tbl (lookup_key sha256 dom (h_identity h0)) = Some i.
Proof. exact attribution. Qed.
Print Assumptions C16_attribution.

(* ---- every mutation class of the property is refused: no (domain, node) is ever returned -------------------- *)

(* handshake recorded on another connection *)
Theorem C16_refused_replay :
  forall (asn1_unmarshal : bytes -> option handshake) (asn1_marshal : handshake -> option bytes)
         (pem_decode : bytes -> option bytes) (x509_parse : bytes -> option pubkey)
         (ecdsa_verify : bytes -> bytes -> bytes -> bool) (sha256 : bytes -> bytes)
         (conn : Type) (binding_of : conn -> bytes),
  (forall c c', binding_of c = binding_of c' -> c = c') ->
  forall v (c c' : conn) tbl s buff rest h,
  read_handshake s = Ok (buff, rest) -> asn1_unmarshal buff = Some h ->
  h_binding h = binding_of c' -> c' <> c ->
  refused asn1_unmarshal asn1_marshal pem_decode x509_parse ecdsa_verify sha256 v (binding_of c) tbl s.
Proof. exact refused_replay. Qed.
Print Assumptions C16_refused_replay.

(* any binding other than this connection's *)
Theorem C16_refused_binding :
  forall (asn1_unmarshal : bytes -> option handshake) (asn1_marshal : handshake -> option bytes)
         (pem_decode : bytes -> option bytes) (x509_parse : bytes -> option pubkey)
         (ecdsa_verify : bytes -> bytes -> bytes -> bool) (sha256 : bytes -> bytes)
         v binding tbl s buff rest h,
  read_handshake s = Ok (buff, rest) -> asn1_unmarshal buff = Some h -> h_binding h <> binding ->
  refused asn1_unmarshal asn1_marshal pem_decode x509_parse ecdsa_verify sha256 v binding tbl s.
Proof. exact refused_binding. Qed.
Print Assumptions C16_refused_binding.

(* wrong, missing or foreign signature: anything that does not verify under the key of the presented identity *)
Theorem C16_refused_signature :
  forall (asn1_unmarshal : bytes -> option handshake) (asn1_marshal : handshake -> option bytes)
         (pem_decode : bytes -> option bytes) (x509_parse : bytes -> option pubkey)
         (ecdsa_verify : bytes -> bytes -> bytes -> bool) (sha256 : bytes -> bytes)
         v binding tbl s buff rest h,
  read_handshake s = Ok (buff, rest) -> asn1_unmarshal buff = Some h ->
  forall der k m,
  pem_decode (h_identity h) = Some der -> x509_parse der = Some (KEcdsa k) ->
  asn1_marshal (set_sig h []) = Some m -> ecdsa_verify k (sha256 m) (h_sig h) = false ->
  refused asn1_unmarshal asn1_marshal pem_decode x509_parse ecdsa_verify sha256 v binding tbl s.
Proof. exact refused_signature. Qed.
Print Assumptions C16_refused_signature.

(* substituted identity: a registered peer's identity, whose key holder never signed this handshake *)
Theorem C16_refused_substituted :
  forall (asn1_unmarshal : bytes -> option handshake) (asn1_marshal : handshake -> option bytes)
         (pem_decode : bytes -> option bytes) (x509_parse : bytes -> option pubkey)
         (ecdsa_verify : bytes -> bytes -> bytes -> bool) (sha256 : bytes -> bytes)
         (conn : Type) (binding_of : conn -> bytes) (signed : bytes -> bytes -> Prop),
  (forall k d sg, ecdsa_verify k d sg = true -> signed k d) ->
  forall v (c : conn) tbl s buff rest h der k m,
  read_handshake s = Ok (buff, rest) -> asn1_unmarshal buff = Some h ->
  pem_decode (h_identity h) = Some der -> x509_parse der = Some (KEcdsa k) ->
  asn1_marshal (set_sig h []) = Some m -> ~ signed k (sha256 m) ->
  refused asn1_unmarshal asn1_marshal pem_decode x509_parse ecdsa_verify sha256 v (binding_of c) tbl s.
Proof. exact refused_substituted. Qed.
Print Assumptions C16_refused_substituted.

(* unknown identity, or identity not registered under the claimed domain (other domain) *)
Theorem C16_refused_unregistered :
  forall (asn1_unmarshal : bytes -> option handshake) (asn1_marshal : handshake -> option bytes)
         (pem_decode : bytes -> option bytes) (x509_parse : bytes -> option pubkey)
         (ecdsa_verify : bytes -> bytes -> bytes -> bool) (sha256 : bytes -> bytes)
         v binding tbl s buff rest h,
  read_handshake s = Ok (buff, rest) -> asn1_unmarshal buff = Some h ->
  tbl (lookup_key sha256 (h_domain h) (h_identity h)) = None ->
  refused asn1_unmarshal asn1_marshal pem_decode x509_parse ecdsa_verify sha256 v binding tbl s.
Proof. exact refused_unregistered. Qed.
Print Assumptions C16_refused_unregistered.

(* ... and what is attributed carries the claimed domain and the node registered for (that domain, that identity) *)
Theorem C16_attributed_as_registered :
  forall (asn1_unmarshal : bytes -> option handshake) (asn1_marshal : handshake -> option bytes)
         (pem_decode : bytes -> option bytes) (x509_parse : bytes -> option pubkey)
         (ecdsa_verify : bytes -> bytes -> bytes -> bool) (sha256 : bytes -> bytes)
         v binding tbl s buff rest h,
  read_handshake s = Ok (buff, rest) -> asn1_unmarshal buff = Some h ->
  forall dom i,
  authenticate asn1_unmarshal asn1_marshal pem_decode x509_parse ecdsa_verify sha256 v binding tbl s = Ok (dom, i) ->
  dom = h_domain h /\ tbl (lookup_key sha256 (h_domain h) (h_identity h)) = Some i.
Proof. exact attributed_as_registered. Qed.
Print Assumptions C16_attributed_as_registered.

(* unsupported key type *)
Theorem C16_refused_keytype :
  forall (asn1_unmarshal : bytes -> option handshake) (asn1_marshal : handshake -> option bytes)
         (pem_decode : bytes -> option bytes) (x509_parse : bytes -> option pubkey)
         (ecdsa_verify : bytes -> bytes -> bytes -> bool) (sha256 : bytes -> bytes)
         v binding tbl s buff rest h,
  read_handshake s = Ok (buff, rest) -> asn1_unmarshal buff = Some h ->
  forall der kind,
  pem_decode (h_identity h) = Some der -> x509_parse der = Some (KOther kind) ->
  refused asn1_unmarshal asn1_marshal pem_decode x509_parse ecdsa_verify sha256 v binding tbl s.
Proof. exact refused_keytype. Qed.
Print Assumptions C16_refused_keytype.

(* identity that is no PEM block / no certificate *)
Theorem C16_refused_identity_pem :
  forall (asn1_unmarshal : bytes -> option handshake) (asn1_marshal : handshake -> option bytes)
         (pem_decode : bytes -> option bytes) (x509_parse : bytes -> option pubkey)
         (ecdsa_verify : bytes -> bytes -> bytes -> bool) (sha256 : bytes -> bytes)
         v binding tbl s buff rest h,
  read_handshake s = Ok (buff, rest) -> asn1_unmarshal buff = Some h ->
  pem_decode (h_identity h) = None ->
  refused asn1_unmarshal asn1_marshal pem_decode x509_parse ecdsa_verify sha256 v binding tbl s.
Proof. exact refused_identity_pem. Qed.
Print Assumptions C16_refused_identity_pem.

Theorem C16_refused_identity_x509 :
  forall (asn1_unmarshal : bytes -> option handshake) (asn1_marshal : handshake -> option bytes)
         (pem_decode : bytes -> option bytes) (x509_parse : bytes -> option pubkey)
         (ecdsa_verify : bytes -> bytes -> bytes -> bool) (sha256 : bytes -> bytes)
         v binding tbl s buff rest h,
  read_handshake s = Ok (buff, rest) -> asn1_unmarshal buff = Some h ->
  forall der, pem_decode (h_identity h) = Some der -> x509_parse der = None ->
  refused asn1_unmarshal asn1_marshal pem_decode x509_parse ecdsa_verify sha256 v binding tbl s.
Proof. exact refused_identity_x509. Qed.
Print Assumptions C16_refused_identity_x509.

(* malformed or truncated encoding: length prefix incomplete, fewer bytes than announced, or rejected by ASN.1 *)
Theorem C16_refused_truncated :
  forall (asn1_unmarshal : bytes -> option handshake) (asn1_marshal : handshake -> option bytes)
         (pem_decode : bytes -> option bytes) (x509_parse : bytes -> option pubkey)
         (ecdsa_verify : bytes -> bytes -> bytes -> bool) (sha256 : bytes -> bytes)
         v binding tbl l0 l1 r,
  lenN r < l0 + 256 * l1 ->
  refused asn1_unmarshal asn1_marshal pem_decode x509_parse ecdsa_verify sha256 v binding tbl (l0 :: l1 :: r).
Proof. exact refused_short. Qed.
Print Assumptions C16_refused_truncated.

Theorem C16_refused_malformed :
  forall (asn1_unmarshal : bytes -> option handshake) (asn1_marshal : handshake -> option bytes)
         (pem_decode : bytes -> option bytes) (x509_parse : bytes -> option pubkey)
         (ecdsa_verify : bytes -> bytes -> bytes -> bool) (sha256 : bytes -> bytes)
         v binding tbl s buff rest,
  read_handshake s = Ok (buff, rest) -> asn1_unmarshal buff = None ->
  refused asn1_unmarshal asn1_marshal pem_decode x509_parse ecdsa_verify sha256 v binding tbl s.
Proof. exact refused_malformed. Qed.
Print Assumptions C16_refused_malformed.

(* ---- and none of it can crash the node (repaired variants): never Panic, on any bytes, for any oracles -------- *)
Theorem C16_no_panic :
  forall (asn1_unmarshal : bytes -> option handshake) (asn1_marshal : handshake -> option bytes)
         (pem_decode : bytes -> option bytes) (x509_parse : bytes -> option pubkey)
         (ecdsa_verify : bytes -> bytes -> bytes -> bool) (sha256 : bytes -> bytes)
         binding tbl s,
  authenticate asn1_unmarshal asn1_marshal pem_decode x509_parse ecdsa_verify sha256 hs_fixed binding tbl s <> Panic.
Proof. exact authenticate_fixed_total. Qed.
Print Assumptions C16_no_panic.

Theorem C16_channel_no_panic :
  forall (asn1_unmarshal : bytes -> option handshake) (asn1_marshal : handshake -> option bytes)
         (pem_decode : bytes -> option bytes) (x509_parse : bytes -> option pubkey)
         (ecdsa_verify : bytes -> bytes -> bytes -> bool) (sha256 : bytes -> bytes)
         binding tbl s,
  handle_conn asn1_unmarshal asn1_marshal pem_decode x509_parse ecdsa_verify sha256 hs_fixed binding tbl s <> Panic.
Proof. exact handle_conn_fixed_total. Qed.
Print Assumptions C16_channel_no_panic.

(* The table key hashes domain ‖ identity without a separator: it determines the (domain, identity) pair only among
   domains of equal length (partial).  Observation, not a defect of the pinned use: (d ++ x, identity) and
   (d, x ++ identity) share a table entry; with PEM identities pem.Decode only skips leading bytes up to a line start,
   so the shift needs a registered domain that ends in a newline. *)
Theorem C16_registered_pair_partial :
  forall d1 i1 d2 i2 : bytes, length d1 = length d2 -> d1 ++ i1 = d2 ++ i2 -> d1 = d2 /\ i1 = i2.
Proof. exact lookup_preimage_inj. Qed.
Print Assumptions C16_registered_pair_partial.

Theorem C16_lookup_key_unseparated :
  forall (sha256 : bytes -> bytes) d x idn, lookup_key sha256 (d ++ x) idn = lookup_key sha256 d (x ++ idn).
Proof. exact lookup_key_shift. Qed.
Print Assumptions C16_lookup_key_unseparated.

(* The pinned upstream code panicked on a non-ECDSA identity (fix: cd20aae) and on a handshake that cannot be
   re-encoded (fix: d4a7b09); concrete oracles, same input, pinned vs repaired variant. *)
Theorem C16_keytype_tree_refuted :
  ex_auth hs_tree [77] [5; 0; 9; 77; 2; 0; 0] = Panic /\ ex_auth hs_fixed [77] [5; 0; 9; 77; 2; 0; 0] = Err.
Proof. exact keytype_tree_refuted. Qed.
Print Assumptions C16_keytype_tree_refuted.

Theorem C16_marshal_tree_refuted :
  ex_auth hs_tree [77] [5; 0; 255; 77; 1; 0; 0] = Panic /\ ex_auth hs_fixed [77] [5; 0; 255; 77; 1; 0; 0] = Err.
Proof. exact marshal_tree_refuted. Qed.
Print Assumptions C16_marshal_tree_refuted.

(* Non-vacuity: with concrete oracles a valid handshake is attributed (node 5, domain 9), each altered one is not,
   and the frames following a valid handshake reach the channel as node 5's. *)
Example C16_example :
  ex_auth hs_fixed [77] [5; 0; 9; 77; 1; 11; 3; 200] = Ok ([9], 5) /\
  ex_auth hs_fixed [78] [5; 0; 9; 77; 1; 11; 3] = Err /\
  ex_auth hs_fixed [77] [5; 0; 9; 77; 3; 11; 3] = Err /\
  ex_auth hs_fixed [77] [5; 0; 8; 77; 1; 11; 3] = Err /\
  ex_auth hs_fixed [77] [5; 0; 9; 77; 1; 11] = Err /\
  handle_conn ex_unmarshal ex_marshal ex_pem ex_x509 ex_verify ex_sha hs_fixed [77] ex_tbl
     [5; 0; 9; 77; 1; 11; 3;  0; 2; 0; 0; 0; 4; 5] = Ok [mkIn [9] 5 (mkFrame 0 [] [4; 5])].
Proof. exact handshake_example. Qed.
