(* C04 — Reliable broadcast totality in fault-free runs, for every interleaving.
   Only the property theorem; proof in TSS.RBC.Totality. *)
From Coq Require Import List Permutation. Import ListNotations.
Require Import TSS.RBC.Model TSS.RBC.Global TSS.RBC.Totality TSS.RBC.Refute.

(* For every participant list P (any size, duplicate-free), every set of broadcasts with at most one payload per
   (sender, round) - any number of concurrent senders and rounds -, every set of point-to-point messages between
   participants, and EVERY schedule (which in-flight message is delivered next, acknowledgements overtaking payloads
   included) that drains the network of the closed system in which every delivery puts the receiver's
   acknowledgements in flight to everybody else:
   every broadcast was handed over, with its payload, at every other participant; exactly once per (participant,
   sender, round); nothing else was handed over; every point-to-point message was handed over exactly once at its
   addressee, attributed to its source; and no participant concluded that equivocation took place. *)
Theorem C04_totality :
  forall (id : Type) (id_dec : forall x y : id, {x = y} + {x <> y})
         (digest : Type) (dg_dec : forall x y : digest, {x = y} + {x <> y})
         (payload : Type) (dg : payload -> digest)
         (P : list id), NoDup P ->
  forall (bcasts : list (id * round * payload)),
    (forall s r p p', In (s, r, p) bcasts -> In (s, r, p') bcasts -> p = p') ->
    (forall s r p, In (s, r, p) bcasts -> In s P) ->
  forall (p2ps : list (id * id * payload)),
    (forall s t p, In (s, t, p) p2ps -> In s P /\ In t P /\ s <> t) ->
  forall sched G,
    srun id id_dec digest dg_dec payload dg P bcasts p2ps sched = (G, []) ->
    (forall s r p x, In (s, r, p) bcasts -> In x P -> x <> s -> In (x, mkKey (dg p) s r, Some p) (dlv id digest payload G)) /\
    NoDup (map (dkey id digest payload) (dlv id digest payload G)) /\
    (forall x k po, In (x, k, po) (dlv id digest payload G) ->
        exists p, In (ks k, kr k, p) bcasts /\ kd k = dg p /\ po = Some p /\ In x P /\ x <> ks k) /\
    Permutation (p2p id digest payload G) (map (fun q : id * id * payload => let '(s, t, p) := q in (t, s, p)) p2ps) /\
    (forall x, halted (g id digest payload G x) = false).
Proof. exact totality. Qed.
Print Assumptions C04_totality.

(* the hypotheses are satisfiable: a complete run of three parties with two concurrent senders *)
Theorem C04_nonvacuous :
  snd (srun3 sched3) = [] /\
  length (dlv nat nat nat (fst (srun3 sched3))) = 4 /\
  p2p nat nat nat (fst (srun3 sched3)) = [(0, 2, 5)].
Proof. exact totality_nonvacuous. Qed.
Print Assumptions C04_nonvacuous.
