(* C02 — Reliable broadcast agreement: honest parties never accept conflicting payloads.
   This file only states the property theorems; proofs live in TSS.RBC.Global. *)
From Coq Require Import List. Import ListNotations.
Require Import TSS.RBC.Model TSS.RBC.Global TSS.RBC.Refute.

(* For every identifier / digest / payload type with decidable equality, every duplicate-free
   participant list P (any size), every set of honest participants, and every global state S reachable
   through admissible events -- authenticated links (the transport source is the real origin, honest
   parties only emit the acknowledgements their code emits), everything else unconstrained: Byzantine
   participants and outsiders inject any message any number of times in any order; honest
   acknowledgements may be delayed, reordered and duplicated --
   two distinct honest parties that both handed over a broadcast attributed to the same sender and
   round handed over the same digest. *)
Theorem C02_agreement :
  forall (id : Type) (id_dec : forall x y : id, {x = y} + {x <> y})
         (digest : Type) (dg_dec : forall x y : digest, {x = y} + {x <> y})
         (payload : Type) (dg : payload -> digest)
         (P : list id), NoDup P ->
  forall (honest : id -> Prop), (forall h, honest h -> In h P) ->
  forall S, reachable id id_dec digest dg_dec payload dg P honest S ->
  forall a b k1 k2 p1 p2, honest a -> honest b -> a <> b ->
    In (a, k1, p1) (dlv id digest payload S) -> In (b, k2, p2) (dlv id digest payload S) ->
    ks k1 = ks k2 -> kr k1 = kr k2 -> kd k1 = kd k2.
Proof. exact agreement. Qed.
Print Assumptions C02_agreement.

(* ... hence byte-identical payloads, when the digest function (SHA-256) is collision-free. *)
Theorem C02_agreement_payload :
  forall (id : Type) (id_dec : forall x y : id, {x = y} + {x <> y})
         (digest : Type) (dg_dec : forall x y : digest, {x = y} + {x <> y})
         (payload : Type) (dg : payload -> digest)
         (P : list id), NoDup P ->
  forall (honest : id -> Prop), (forall h, honest h -> In h P) ->
  forall S, reachable id id_dec digest dg_dec payload dg P honest S ->
  (forall p q, dg p = dg q -> p = q) ->
  forall a b k1 k2 p1 p2, honest a -> honest b -> a <> b ->
    In (a, k1, p1) (dlv id digest payload S) -> In (b, k2, p2) (dlv id digest payload S) ->
    ks k1 = ks k2 -> kr k1 = kr k2 -> p1 = p2 /\ p1 <> None.
Proof. exact agreement_payload. Qed.
Print Assumptions C02_agreement_payload.

(* The pinned upstream code (variant flags false) violated the property: N = 3, Byzantine sender 0. *)
Theorem C02_agreement_tree_refuted :
  delivered (run (tree 1) [(0, Bcast 7 0); (0, Ack 7 0 0)]) = [(0, 0, Some 7)] /\
  delivered (run (tree 2) [(0, Bcast 9 0); (0, Ack 9 0 0)]) = [(0, 0, Some 9)].
Proof. exact agreement_tree_refuted. Qed.
Print Assumptions C02_agreement_tree_refuted.

(* The hypotheses are satisfiable: a reachable state with two honest hand-overs. *)
Theorem C02_nonvacuous :
  reachable nat PeanoNat.Nat.eq_dec nat PeanoNat.Nat.eq_dec nat (fun p => p) P3 honest3 S3 /\ honest3 1 /\ honest3 2 /\
  In (1, k7, Some 7) (dlv nat nat nat S3) /\ In (2, k7, Some 7) (dlv nat nat nat S3).
Proof. exact agreement_nonvacuous. Qed.
Print Assumptions C02_nonvacuous.

(* The voucher count of the code (all N-1 other participants) cannot be lowered to N-1-f: N = 4, sender 0 and member 3
   Byzantine, parties 1 and 2 configured to hand over on 2 vouchers are split; on 3 vouchers the same scripts hand over nothing
   (the "split vouchers" schedule of the attack stream runs exactly this against the real code). *)
Theorem C02_quorum_tight :
  delivered (run (cfg4 1 3) [(0, Bcast 7 0); (3, Ack 7 0 0)]) = [(0, 0, Some 7)] /\
  delivered (run (cfg4 2 3) [(0, Bcast 9 0); (3, Ack 9 0 0)]) = [(0, 0, Some 9)] /\
  delivered (run (cfg4 1 4) [(0, Bcast 7 0); (3, Ack 7 0 0)]) = [] /\
  delivered (run (cfg4 2 4) [(0, Bcast 9 0); (3, Ack 9 0 0)]) = [].
Proof. exact quorum_tight. Qed.
Print Assumptions C02_quorum_tight.
