(* C09 — Verification rejects anything altered; verifying is side-effect free.
   Only the property theorems.  Models: TSS.Alg.BLSVerify (BLS), TSS.Alg.PS + TSS.Alg.Sigma (PS), in the ideal-group
   model: scalars in an arbitrary field F, G1/G2/GT arbitrary F-modules written additively, e bilinear (and
   non-degenerate on the G2 generator where stated), hash functions / random oracles arbitrary functions.

   What is NOT a theorem here (and is covered only by the perturbation catalogue run on the real code):
   * "changing a hashed component changes the Fiat-Shamir challenge" - true with overwhelming probability over the
     oracle only.  The deterministic content is split in two: C09_ps_equations_* (every component that occurs in a
     checked equation is rejected when changed under the SAME challenge) and C09_ps_binding_* (every group-valued
     component is an argument of the oracle call, injectively) + C09_ps_challenge_change_partial.
     Every listed component occurs in at least one equation; none is bound through the oracle alone.
     Scalars (responses) and h'^eps are not hashed: they are bound by equations only.
   * "fewer than t shares fail" as an event: stated as secrecy (C09_bls_below_t), the rejection itself is generic-case.
   * the request's mPrime field is read by nobody (C09_ps_mprime_field_unused): changing it changes nothing.

   Object state.  The model has none: keys, parameters and party lists are ARGUMENTS of the model functions, whereas the Go
   Prover, Verifier and TPS are long-lived objects that are (re-)initialised by Init / SetShareData.  "A re-initialised object
   behaves like a newly constructed one" is a modelling decision, tied on every run by the long-lived-objects family of the
   check (the same objects through several key epochs, each verdict compared with fresh objects on the same input). *)
From mathcomp Require Import all_ssreflect all_algebra.
From TSS Require Import Alg.Lagrange Alg.PS Alg.Sigma Alg.BLSVerify Corr.PSCorr.
Import GRing.Theory.
Open Scope ring_scope.

(* BLS: under the key s*g2, verification accepts exactly the signature s*H(m) (bilinear, non-degenerate pairing) *)
Theorem C09_bls_accept_iff :
  forall (F : fieldType) (G1 G2 GT : lmodType F) (e : G1 -> G2 -> GT) (g2 : G2) (M : Type) (H : M -> G1),
  (forall (a a' : G1) (b : G2), e (a + a') b = e a b + e a' b) ->
  (forall (c : F) (a : G1) (b : G2), e (c *: a) b = c *: e a b) ->
  (forall (c : F) (a : G1) (b : G2), e a (c *: b) = c *: e a b) ->
  (forall a : G1, e a g2 = 0 -> a = 0) ->
  forall (s : F) (m : M) (sig : G1),
  bls_verify (F:=F) (G1:=G1) (G2:=G2) (GT:=GT) e g2 H (s *: g2) m sig = (sig == s *: H m).
Proof. exact: bls_accept_iff. Qed.
Print Assumptions C09_bls_accept_iff.

(* at least t genuine shares of the polynomial P, each combined under its own signer index: accepted under g2^P(0) *)
Theorem C09_bls_genuine_accepts :
  forall (F : fieldType) (G1 G2 GT : lmodType F) (e : G1 -> G2 -> GT) (g2 : G2) (M : Type) (H : M -> G1),
  (forall (a a' : G1) (b : G2), e (a + a') b = e a b + e a' b) ->
  (forall (c : F) (a : G1) (b : G2), e (c *: a) b = c *: e a b) ->
  (forall (c : F) (a : G1) (b : G2), e a (c *: b) = c *: e a b) ->
  (forall a : G1, e a g2 = 0 -> a = 0) ->
  forall N t : nat,
  (forall i j : nat, (i <= N)%N -> (j <= N)%N -> i%:R = j%:R :> F -> i = j) ->
  forall (P : {poly F}) (S : seq nat) (m : M),
  signers_ok N t S ->
  (size P <= t)%N ->
  bls_verify (F:=F) (G1:=G1) (G2:=G2) (GT:=GT) e g2 H (P.[0] *: g2) m
  (bls_aggregate (F:=F) (G1:=G1) S [seq bls_sign (F:=F) (G1:=G1) H P.[k%:R] m | k <- S]).
Proof. exact: bls_honest_accepts. Qed.
Print Assumptions C09_bls_genuine_accepts.

(* no Lagrange coefficient over non-zero points vanishes, so no share drops out of an aggregate *)
Theorem C09_bls_lagrange_nonzero :
  forall (F : fieldType) (xs : seq F) (i : F), 0 \notin xs -> lagrange0 (F:=F) xs i != 0.
Proof. exact: lagrange0_neq0. Qed.
Print Assumptions C09_bls_lagrange_nonzero.

(* one share altered by delta <> 0, whichever signer j of the list: rejected *)
Theorem C09_bls_altered_share :
  forall (F : fieldType) (G1 G2 GT : lmodType F) (e : G1 -> G2 -> GT) (g2 : G2) (M : Type) (H : M -> G1),
  (forall (a a' : G1) (b : G2), e (a + a') b = e a b + e a' b) ->
  (forall (c : F) (a : G1) (b : G2), e (c *: a) b = c *: e a b) ->
  (forall (c : F) (a : G1) (b : G2), e a (c *: b) = c *: e a b) ->
  (forall a : G1, e a g2 = 0 -> a = 0) ->
  forall N t : nat,
  (forall i j : nat, (i <= N)%N -> (j <= N)%N -> i%:R = j%:R :> F -> i = j) ->
  forall (P : {poly F}) (S : seq nat) (m : M) (j : nat_eqType) (delta : G1),
  signers_ok N t S ->
  (size P <= t)%N ->
  j \in S ->
  delta != 0 ->
  bls_verify (F:=F) (G1:=G1) (G2:=G2) (GT:=GT) e g2 H (P.[0] *: g2) m
  (bls_aggregate (F:=F) (G1:=G1) S
  [seq (if k == j
  then bls_sign (F:=F) (G1:=G1) H P.[k%:R] m + delta
  else bls_sign (F:=F) (G1:=G1) H P.[k%:R] m)
  | k <- S]) = false.
Proof. exact: bls_altered_share. Qed.
Print Assumptions C09_bls_altered_share.

(* another key (s' <> s): rejected (H(m) <> 0) *)
Theorem C09_bls_altered_key :
  forall (F : fieldType) (G1 G2 GT : lmodType F) (e : G1 -> G2 -> GT) (g2 : G2) (M : Type) (H : M -> G1),
  (forall (a a' : G1) (b : G2), e (a + a') b = e a b + e a' b) ->
  (forall (c : F) (a : G1) (b : G2), e (c *: a) b = c *: e a b) ->
  (forall (c : F) (a : G1) (b : G2), e a (c *: b) = c *: e a b) ->
  (forall a : G1, e a g2 = 0 -> a = 0) ->
  forall (s s' : F) (m : M),
  H m != 0 -> s' != s -> bls_verify (F:=F) (G1:=G1) (G2:=G2) (GT:=GT) e g2 H (s' *: g2) m (s *: H m) = false.
Proof. exact: bls_altered_key. Qed.
Print Assumptions C09_bls_altered_key.

(* the aggregate altered by delta <> 0: rejected *)
Theorem C09_bls_altered_signature :
  forall (F : fieldType) (G1 G2 GT : lmodType F) (e : G1 -> G2 -> GT) (g2 : G2) (M : Type) (H : M -> G1),
  (forall (a a' : G1) (b : G2), e (a + a') b = e a b + e a' b) ->
  (forall (c : F) (a : G1) (b : G2), e (c *: a) b = c *: e a b) ->
  (forall (c : F) (a : G1) (b : G2), e a (c *: b) = c *: e a b) ->
  (forall a : G1, e a g2 = 0 -> a = 0) ->
  forall (s : F) (m : M) (delta : G1),
  delta != 0 -> bls_verify (F:=F) (G1:=G1) (G2:=G2) (GT:=GT) e g2 H (s *: g2) m (s *: H m + delta) = false.
Proof. exact: bls_altered_signature. Qed.
Print Assumptions C09_bls_altered_signature.

(* another message (H(m') <> H(m), s <> 0): rejected *)
Theorem C09_bls_altered_message :
  forall (F : fieldType) (G1 G2 GT : lmodType F) (e : G1 -> G2 -> GT) (g2 : G2) (M : Type) (H : M -> G1),
  (forall (a a' : G1) (b : G2), e (a + a') b = e a b + e a' b) ->
  (forall (c : F) (a : G1) (b : G2), e (c *: a) b = c *: e a b) ->
  (forall (c : F) (a : G1) (b : G2), e a (c *: b) = c *: e a b) ->
  (forall a : G1, e a g2 = 0 -> a = 0) ->
  forall (s : F) (m m' : M),
  s != 0 -> H m' != H m -> bls_verify (F:=F) (G1:=G1) (G2:=G2) (GT:=GT) e g2 H (s *: g2) m' (s *: H m) = false.
Proof. exact: bls_altered_message. Qed.
Print Assumptions C09_bls_altered_message.

(* signer-to-share assignment: the k-th share was made by party ys[k] (share f(ys[k])) but is combined under xs[k]; the aggregate is H(m) to the displayed sum, so it verifies iff that sum is the secret *)
Theorem C09_bls_assignment :
  forall (F : fieldType) (G1 G2 GT : lmodType F) (e : G1 -> G2 -> GT) (g2 : G2) (M : Type) (H : M -> G1),
  (forall (a a' : G1) (b : G2), e (a + a') b = e a b + e a' b) ->
  (forall (c : F) (a : G1) (b : G2), e (c *: a) b = c *: e a b) ->
  (forall (c : F) (a : G1) (b : G2), e a (c *: b) = c *: e a b) ->
  (forall a : G1, e a g2 = 0 -> a = 0) ->
  forall (f : nat -> F) (s : F) (xs ys : seq nat) (m : M),
  size ys = size xs ->
  H m != 0 ->
  bls_verify (F:=F) (G1:=G1) (G2:=G2) (GT:=GT) e g2 H (s *: g2) m
  (bls_aggregate (F:=F) (G1:=G1) xs [seq bls_sign (F:=F) (G1:=G1) H (f y) m | y <- ys]) =
  (\sum_(p <- zip xs ys) lagrange0 (F:=F) (pts F xs) p.1%:R * f p.2 == s).
Proof. exact: bls_assignment_accept_iff. Qed.
Print Assumptions C09_bls_assignment.

(* for genuine shares of P this is the vanishing of one linear functional of P (it vanishes for ys = xs; see C09_bls_assignment_example for a permutation where it does not) *)
Theorem C09_bls_assignment_poly :
  forall (F : fieldType) (G1 G2 GT : lmodType F) (e : G1 -> G2 -> GT) (g2 : G2) (M : Type) (H : M -> G1),
  (forall (a a' : G1) (b : G2), e (a + a') b = e a b + e a' b) ->
  (forall (c : F) (a : G1) (b : G2), e (c *: a) b = c *: e a b) ->
  (forall (c : F) (a : G1) (b : G2), e a (c *: b) = c *: e a b) ->
  (forall a : G1, e a g2 = 0 -> a = 0) ->
  forall N t : nat,
  (forall i j : nat, (i <= N)%N -> (j <= N)%N -> i%:R = j%:R :> F -> i = j) ->
  forall (P : {poly F}) (xs ys : seq nat) (m : M),
  signers_ok N t xs ->
  (size P <= t)%N ->
  size ys = size xs ->
  H m != 0 ->
  bls_verify (F:=F) (G1:=G1) (G2:=G2) (GT:=GT) e g2 H (P.[0] *: g2) m
  (bls_aggregate (F:=F) (G1:=G1) xs [seq bls_sign (F:=F) (G1:=G1) H P.[y%:R] m | y <- ys]) =
  (\sum_(p <- zip xs ys) lagrange0 (F:=F) (pts F xs) p.1%:R * (P.[p.2%:R] - P.[p.1%:R]) == 0).
Proof. exact: bls_assignment_poly. Qed.
Print Assumptions C09_bls_assignment_poly.

(* fewer than t shares: t-1 shares at distinct non-zero points are consistent with EVERY candidate secret s, through exactly one polynomial of at most t coefficients (Shamir secrecy); so they determine nothing about the key *)
Theorem C09_bls_below_t :
  forall (F : fieldType) (t : nat) (T : seq F) (v : F -> F) (s : F),
  uniq T ->
  0 \notin T ->
  (size T).+1 = t ->
  exists ! p : {poly F}, [/\ (size p <= t)%N, p.[0] = s & forall x : F, x \in T -> p.[x] = v x].
Proof. exact: shamir_secrecy. Qed.
Print Assumptions C09_bls_below_t.

(* PS request proof, fixed challenge c: a change of d_i is rejected *)
Theorem C09_ps_equations_d :
  forall (F : fieldType) (G1 : lmodType F) (n : nat) (c : F) (xi : bproof (F:=F) G1)
  (a b : seq G1) (cm g g0 h u : G1) (gs : seq G1) (i : nat),
  (i < n)%N ->
  forall delta : G1,
  blind_eqs n c xi a b cm g g0 h u gs ->
  blind_eqs n c (with_d xi (bump (V:=G1) (bd xi) i delta)) a b cm g g0 h u gs -> delta = 0.
Proof. exact: pert_d. Qed.
Print Assumptions C09_ps_equations_d.

(* ... of f_i *)
Theorem C09_ps_equations_f :
  forall (F : fieldType) (G1 : lmodType F) (n : nat) (c : F) (xi : bproof (F:=F) G1)
  (a b : seq G1) (cm g g0 h u : G1) (gs : seq G1) (i : nat),
  (i < n)%N ->
  forall delta : G1,
  blind_eqs n c xi a b cm g g0 h u gs ->
  blind_eqs n c (with_f xi (bump (V:=G1) (bf xi) i delta)) a b cm g g0 h u gs -> delta = 0.
Proof. exact: pert_f. Qed.
Print Assumptions C09_ps_equations_f.

(* ... of s *)
Theorem C09_ps_equations_s :
  forall (F : fieldType) (G1 : lmodType F) (n : nat) (c : F) (xi : bproof (F:=F) G1)
  (a b : seq G1) (cm g g0 h u : G1) (gs : seq G1) (delta : G1),
  blind_eqs n c xi a b cm g g0 h u gs ->
  blind_eqs n c (with_s xi (bs xi + delta)) a b cm g g0 h u gs -> delta = 0.
Proof. exact: pert_s. Qed.
Print Assumptions C09_ps_equations_s.

(* ... of the response x_i (g <> 0) *)
Theorem C09_ps_equations_x :
  forall (F : fieldType) (G1 : lmodType F) (n : nat) (c : F) (xi : bproof (F:=F) G1)
  (a b : seq G1) (cm g g0 h u : G1) (gs : seq G1) (i : nat),
  (i < n)%N ->
  forall delta : F,
  g != 0 ->
  blind_eqs n c xi a b cm g g0 h u gs ->
  blind_eqs n c (with_x xi (bump (V:=F) (bx xi) i delta)) a b cm g g0 h u gs -> delta = 0.
Proof. exact: pert_x. Qed.
Print Assumptions C09_ps_equations_x.

(* ... of the response y_i (h <> 0) *)
Theorem C09_ps_equations_y :
  forall (F : fieldType) (G1 : lmodType F) (n : nat) (c : F) (xi : bproof (F:=F) G1)
  (a b : seq G1) (cm g g0 h u : G1) (gs : seq G1) (i : nat),
  (i < n)%N ->
  forall delta : F,
  h != 0 ->
  blind_eqs n c xi a b cm g g0 h u gs ->
  blind_eqs n c (with_y xi (bump (V:=F) (by_ xi) i delta)) a b cm g g0 h u gs -> delta = 0.
Proof. exact: pert_y. Qed.
Print Assumptions C09_ps_equations_y.

(* ... of the response z (g0 <> 0) *)
Theorem C09_ps_equations_z :
  forall (F : fieldType) (G1 : lmodType F) (n : nat) (c : F) (xi : bproof (F:=F) G1)
  (a b : seq G1) (cm g g0 h u : G1) (gs : seq G1) (delta : F),
  g0 != 0 ->
  blind_eqs n c xi a b cm g g0 h u gs ->
  blind_eqs n c (with_z xi (bz xi + delta)) a b cm g g0 h u gs -> delta = 0.
Proof. exact: pert_z. Qed.
Print Assumptions C09_ps_equations_z.

(* ... of the ciphertext component a_i (c <> 0) *)
Theorem C09_ps_equations_a :
  forall (F : fieldType) (G1 : lmodType F) (n : nat) (c : F) (xi : bproof (F:=F) G1)
  (a b : seq G1) (cm g g0 h u : G1) (gs : seq G1) (i : nat),
  (i < n)%N ->
  forall delta : G1,
  c != 0 ->
  blind_eqs n c xi a b cm g g0 h u gs -> blind_eqs n c xi (bump (V:=G1) a i delta) b cm g g0 h u gs -> delta = 0.
Proof. exact: pert_a. Qed.
Print Assumptions C09_ps_equations_a.

(* ... of the ciphertext component b_i (c <> 0) *)
Theorem C09_ps_equations_b :
  forall (F : fieldType) (G1 : lmodType F) (n : nat) (c : F) (xi : bproof (F:=F) G1)
  (a b : seq G1) (cm g g0 h u : G1) (gs : seq G1) (i : nat),
  (i < n)%N ->
  forall delta : G1,
  c != 0 ->
  blind_eqs n c xi a b cm g g0 h u gs -> blind_eqs n c xi a (bump (V:=G1) b i delta) cm g g0 h u gs -> delta = 0.
Proof. exact: pert_b. Qed.
Print Assumptions C09_ps_equations_b.

(* ... of the commitment (c <> 0) *)
Theorem C09_ps_equations_cm :
  forall (F : fieldType) (G1 : lmodType F) (n : nat) (c : F) (xi : bproof (F:=F) G1)
  (a b : seq G1) (cm g g0 h u : G1) (gs : seq G1) (delta : G1),
  c != 0 -> blind_eqs n c xi a b cm g g0 h u gs -> blind_eqs n c xi a b (cm + delta) g g0 h u gs -> delta = 0.
Proof. exact: pert_cm. Qed.
Print Assumptions C09_ps_equations_cm.

(* ... of the ephemeral key u (some response x_i <> 0) *)
Theorem C09_ps_equations_u :
  forall (F : fieldType) (G1 : lmodType F) (n : nat) (c : F) (xi : bproof (F:=F) G1)
  (a b : seq G1) (cm g g0 h u : G1) (gs : seq G1) (i : nat),
  (i < n)%N ->
  forall delta : G1,
  (bx xi)`_i != 0 ->
  blind_eqs n c xi a b cm g g0 h u gs -> blind_eqs n c xi a b cm g g0 h (u + delta) gs -> delta = 0.
Proof. exact: pert_u. Qed.
Print Assumptions C09_ps_equations_u.

(* PS proof of knowledge, fixed challenge c: a change of Gamma is rejected *)
Theorem C09_ps_equations_Gamma :
  forall (F : fieldType) (G1 G2 GT : lmodType F) (e : G1 -> G2 -> GT) (c : F) (pp : pparams (F:=F) G1 G2)
  (pk : pkey (F:=F) G2) (p : sigpok (F:=F) G1 G2) (delta : G2),
  pok_eqs (GT:=GT) e c pp pk p ->
  pok_eqs (GT:=GT) e c pp pk
  (with_psi p
  {| qx := qx (kpsi p); qy := qy (kpsi p); qGamma := qGamma (kpsi p) + delta; qPhi := qPhi (kpsi p) |}) ->
  delta = 0.
Proof. exact: pert_Gamma. Qed.
Print Assumptions C09_ps_equations_Gamma.

(* ... of Phi *)
Theorem C09_ps_equations_Phi :
  forall (F : fieldType) (G1 G2 GT : lmodType F) (e : G1 -> G2 -> GT) (c : F) (pp : pparams (F:=F) G1 G2)
  (pk : pkey (F:=F) G2) (p : sigpok (F:=F) G1 G2) (delta : G1),
  pok_eqs (GT:=GT) e c pp pk p ->
  pok_eqs (GT:=GT) e c pp pk
  (with_psi p
  {| qx := qx (kpsi p); qy := qy (kpsi p); qGamma := qGamma (kpsi p); qPhi := qPhi (kpsi p) + delta |}) ->
  delta = 0.
Proof. exact: pert_Phi. Qed.
Print Assumptions C09_ps_equations_Phi.

(* ... of psi.y (the verifier itself checks h^eps <> 0) *)
Theorem C09_ps_equations_psi_y :
  forall (F : fieldType) (G1 G2 GT : lmodType F) (e : G1 -> G2 -> GT) (c : F) (pp : pparams (F:=F) G1 G2)
  (pk : pkey (F:=F) G2) (p : sigpok (F:=F) G1 G2) (delta : F),
  pok_eqs (GT:=GT) e c pp pk p ->
  pok_eqs (GT:=GT) e c pp pk
  (with_psi p
  {| qx := qx (kpsi p); qy := qy (kpsi p) + delta; qGamma := qGamma (kpsi p); qPhi := qPhi (kpsi p) |}) ->
  delta = 0.
Proof. exact: pert_psi_y. Qed.
Print Assumptions C09_ps_equations_psi_y.

(* ... of psi.x_i (Y_i <> 0) *)
Theorem C09_ps_equations_psi_x :
  forall (F : fieldType) (G1 G2 GT : lmodType F) (e : G1 -> G2 -> GT) (c : F) (pp : pparams (F:=F) G1 G2)
  (pk : pkey (F:=F) G2) (p : sigpok (F:=F) G1 G2) (i : nat) (delta : F),
  (i < size (qx (kpsi p)))%N ->
  (pkY pk)`_i != 0 ->
  pok_eqs (GT:=GT) e c pp pk p ->
  pok_eqs (GT:=GT) e c pp pk
  (with_psi p
  {|
  qx := bump (V:=F) (qx (kpsi p)) i delta;
  qy := qy (kpsi p);
  qGamma := qGamma (kpsi p);
  qPhi := qPhi (kpsi p)
  |}) -> delta = 0.
Proof. exact: pert_psi_x. Qed.
Print Assumptions C09_ps_equations_psi_x.

(* ... of nu (c <> 0) *)
Theorem C09_ps_equations_nu :
  forall (F : fieldType) (G1 G2 GT : lmodType F) (e : G1 -> G2 -> GT) (c : F) (pp : pparams (F:=F) G1 G2)
  (pk : pkey (F:=F) G2) (p : sigpok (F:=F) G1 G2) (delta : G1),
  c != 0 -> pok_eqs (GT:=GT) e c pp pk p -> pok_eqs (GT:=GT) e c pp pk (with_nu p (knu p + delta)) -> delta = 0.
Proof. exact: pert_nu. Qed.
Print Assumptions C09_ps_equations_nu.

(* ... of h^eps (psi.y <> 0) *)
Theorem C09_ps_equations_he :
  forall (F : fieldType) (G1 G2 GT : lmodType F) (e : G1 -> G2 -> GT) (c : F) (pp : pparams (F:=F) G1 G2)
  (pk : pkey (F:=F) G2) (p : sigpok (F:=F) G1 G2) (delta : G1),
  qy (kpsi p) != 0 ->
  pok_eqs (GT:=GT) e c pp pk p -> pok_eqs (GT:=GT) e c pp pk (with_he p (khe p + delta)) -> delta = 0.
Proof. exact: pert_he. Qed.
Print Assumptions C09_ps_equations_he.

(* ... of kappa (c <> 0) *)
Theorem C09_ps_equations_kappa :
  forall (F : fieldType) (G1 G2 GT : lmodType F) (e : G1 -> G2 -> GT) (c : F) (pp : pparams (F:=F) G1 G2)
  (pk : pkey (F:=F) G2) (p : sigpok (F:=F) G1 G2) (delta : G2),
  c != 0 ->
  pok_eqs (GT:=GT) e c pp pk p -> pok_eqs (GT:=GT) e c pp pk (with_kappa p (kkappa p + delta)) -> delta = 0.
Proof. exact: pert_kappa. Qed.
Print Assumptions C09_ps_equations_kappa.

(* ... of h'^eps, which is bound by the pairing equation alone (non-degeneracy on g2) *)
Theorem C09_ps_equations_hpe :
  forall (F : fieldType) (G1 G2 GT : lmodType F) (e : G1 -> G2 -> GT) (c : F) (pp : pparams (F:=F) G1 G2)
  (pk : pkey (F:=F) G2) (p : sigpok (F:=F) G1 G2),
  (forall (x x' : G1) (y : G2), e (x + x') y = e x y + e x' y) ->
  (forall (k : F) (x : G1) (y : G2), e x (k *: y) = k *: e x y) ->
  forall delta : G1,
  (forall x : G1, e x (pg2 pp) = 0 -> x = 0) ->
  pok_eqs (GT:=GT) e c pp pk p -> pok_eqs (GT:=GT) e c pp pk (with_hpe p (khpe p + delta)) -> delta = 0.
Proof. exact: pert_hpe. Qed.
Print Assumptions C09_ps_equations_hpe.

(* the argument of the request oracle determines d, f, a, b, s, the full commitment, h and u: each is hashed *)
Theorem C09_ps_binding_request :
  forall (F : fieldType) (G1 : lmodType F) (n : nat) (d f a b d' f' a' b' : seq G1)
  (s cm g g0 h u s' cm' g' g0' h' u' : G1),
  size d = n ->
  size f = n ->
  size a = n ->
  size b = n ->
  size d' = n ->
  size f' = n ->
  size a' = n ->
  size b' = n ->
  ro_blind_input (F:=F) (G1:=G1) n d f s a b cm g g0 h u =
  ro_blind_input (F:=F) (G1:=G1) n d' f' s' a' b' cm' g' g0' h' u' ->
  [/\ d = d', f = f', a = a' & b = b'] /\ [/\ s = s', cm = cm', h = h' & u = u'].
Proof. exact: ro_blind_input_inj. Qed.
Print Assumptions C09_ps_binding_request.

(* the argument of the proof-of-knowledge oracle determines Gamma, Phi, nu, h^eps and kappa *)
Theorem C09_ps_binding_pok :
  forall (F : fieldType) (G1 G2 : lmodType F) (Gamma Gamma' : G2) (Phi nu he Phi' nu' he' : G1)
  (g2 X kappa kappa' : G2) (Y : seq G2),
  ro_pok_input (F:=F) (G1:=G1) (G2:=G2) Gamma Phi nu he g2 X kappa Y =
  ro_pok_input (F:=F) (G1:=G1) (G2:=G2) Gamma' Phi' nu' he' g2 X kappa' Y ->
  [/\ Gamma = Gamma', Phi = Phi', nu = nu', he = he' & kappa = kappa'].
Proof. exact: ro_pok_input_inj. Qed.
Print Assumptions C09_ps_binding_pok.

(* and the challenge used in the equations of an accepted request is the oracle at exactly these components *)
Theorem C09_ps_binding_challenge :
  forall (F : fieldType) (G1 G2 : lmodType F) (Hm : G1 -> F) (HG : G1 -> G1) (RO1 : seq G1 -> F)
  (fix_copy : bool) (pp : pparams (F:=F) G1 G2) (r : request (F:=F) G1),
  sizes_ok (pn pp) (rxi r) (ra r) (rb r) (pgs pp) ->
  (verify_request Hm HG RO1 fix_copy pp r).1 ->
  let c :=
  RO1
  (ro_blind_input (F:=F) (G1:=G1) (pn pp) (bd (rxi r)) (bf (rxi r)) (bs (rxi r))
  (ra r) (rb r) (req_cm Hm pp r) (pg pp) (pg0 pp) (req_h Hm HG pp r) (ru r)) in
  all (fun i : nat => eq2_at (F:=F) (G1:=G1) (pg pp) c (bx (rxi r))`_i (bf (rxi r))`_i (ra r)`_i)
  (iota 0 (pn pp)) /\
  eq3 (F:=F) (G1:=G1) (pn pp) (req_cm Hm pp r) (pg0 pp) (pgs pp) c (bs (rxi r)) (bz (rxi r)) (by_ (rxi r)).
Proof. exact: request_challenge_is_oracle. Qed.
Print Assumptions C09_ps_binding_challenge.

(* PARTIAL: a changed challenge with unchanged operands already violates the first equation (unless b_i = 0); that a change of a hashed component DOES change the challenge holds only with overwhelming probability over the oracle and is not a theorem *)
Theorem C09_ps_challenge_change_partial :
  forall (F : fieldType) (G1 : lmodType F) (c : F) (xi : bproof (F:=F) G1) (b : seq G1)
  (h u : G1) (i : nat) (c' : F),
  c' != c ->
  eq1_at (F:=F) (G1:=G1) u h c (bx xi)`_i (by_ xi)`_i (bd xi)`_i b`_i ->
  eq1_at (F:=F) (G1:=G1) u h c' (bx xi)`_i (by_ xi)`_i (bd xi)`_i b`_i -> b`_i = 0.
Proof. exact: challenge_change. Qed.
Print Assumptions C09_ps_challenge_change_partial.

(* the mPrime FIELD of a request is bound by nothing: the signer recomputes m' from cm and never reads it (both variants) *)
Theorem C09_ps_mprime_field_unused :
  forall (F : fieldType) (G1 G2 : lmodType F) (Hm : G1 -> F) (HG : G1 -> G1) (RO1 : seq G1 -> F)
  (fix_copy : bool) (pp : pparams (F:=F) G1 G2) (r : request (F:=F) G1) (v : F),
  let r' := {| rxi := rxi r; rcm := rcm r; rmp := v; ru := ru r; ra := ra r; rb := rb r |} in
  (verify_request Hm HG RO1 fix_copy pp r').1 = (verify_request Hm HG RO1 fix_copy pp r).1 /\
  (forall sk : skey F, (sign_blind Hm HG RO1 fix_copy pp r' sk).1 = (sign_blind Hm HG RO1 fix_copy pp r sk).1).
Proof. exact: request_mprime_unused. Qed.
Print Assumptions C09_ps_mprime_field_unused.

(* a request whose proof fails is refused whatever the secret key is: sign_blind returns the error without evaluating apply_sk *)
Theorem C09_request_checked_first :
  forall (F : fieldType) (G1 G2 : lmodType F) (Hm : G1 -> F) (HG : G1 -> G1) (RO1 : seq G1 -> F)
  (fix_copy : bool) (pp : pparams (F:=F) G1 G2) (r : request (F:=F) G1),
  (verify_request Hm HG RO1 fix_copy pp r).1 = false ->
  forall sk : skey F, sign_blind Hm HG RO1 fix_copy pp r sk = (None, (verify_request Hm HG RO1 fix_copy pp r).2).
Proof. exact: request_checked_first. Qed.
Print Assumptions C09_request_checked_first.

(* signing succeeds exactly when the request verifies *)
Theorem C09_sign_iff_verified :
  forall (F : fieldType) (G1 G2 : lmodType F) (Hm : G1 -> F) (HG : G1 -> G1) (RO1 : seq G1 -> F)
  (fix_copy : bool) (pp : pparams (F:=F) G1 G2) (r : request (F:=F) G1) (sk : skey F),
  isSome (sign_blind Hm HG RO1 fix_copy pp r sk).1 = (verify_request Hm HG RO1 fix_copy pp r).1.
Proof. exact: sign_accepts_iff_verified. Qed.
Print Assumptions C09_sign_iff_verified.

(* repaired variant: verifying returns the request object unchanged ... *)
Theorem C09_idempotent_verify :
  forall (F : fieldType) (G1 G2 : lmodType F) (Hm : G1 -> F) (HG : G1 -> G1) (RO1 : seq G1 -> F)
  (pp : pparams (F:=F) G1 G2) (r : request (F:=F) G1), (verify_request Hm HG RO1 true pp r).2 = r.
Proof. exact: verify_request_pure. Qed.
Print Assumptions C09_idempotent_verify.

(* ... and so does signing ... *)
Theorem C09_idempotent_sign :
  forall (F : fieldType) (G1 G2 : lmodType F) (Hm : G1 -> F) (HG : G1 -> G1) (RO1 : seq G1 -> F)
  (pp : pparams (F:=F) G1 G2) (r : request (F:=F) G1) (sk : skey F), (sign_blind Hm HG RO1 true pp r sk).2 = r.
Proof. exact: sign_blind_pure. Qed.
Print Assumptions C09_idempotent_sign.

(* ... hence verifying the same object again gives the same verdict *)
Theorem C09_idempotent_verify_again :
  forall (F : fieldType) (G1 G2 : lmodType F) (Hm : G1 -> F) (HG : G1 -> G1) (RO1 : seq G1 -> F)
  (pp : pparams (F:=F) G1 G2) (r : request (F:=F) G1),
  verify_request Hm HG RO1 true pp (verify_request Hm HG RO1 true pp r).2 = verify_request Hm HG RO1 true pp r.
Proof. exact: verify_request_idempotent. Qed.
Print Assumptions C09_idempotent_verify_again.

(* ... and signing it again the same result *)
Theorem C09_idempotent_sign_again :
  forall (F : fieldType) (G1 G2 : lmodType F) (Hm : G1 -> F) (HG : G1 -> G1) (RO1 : seq G1 -> F)
  (pp : pparams (F:=F) G1 G2) (r : request (F:=F) G1) (sk : skey F),
  sign_blind Hm HG RO1 true pp (sign_blind Hm HG RO1 true pp r sk).2 sk = sign_blind Hm HG RO1 true pp r sk.
Proof. exact: sign_blind_idempotent. Qed.
Print Assumptions C09_idempotent_sign_again.

(* the aggregate is a function of the multiset of (signer, share) PAIRS: the order in which the pairs are handed to the
   aggregation is irrelevant (for every list, also with repeated signers); what matters is which share is paired with
   which signer (C09_bls_assignment) *)
Theorem C09_bls_pairs_permutation :
  forall (F : fieldType) (G1 : lmodType F) (ps ps' : seq (nat * G1)),
  perm_eq ps ps' ->
  bls_aggregate (F:=F) (G1:=G1) (unzip1 ps) (unzip2 ps) = bls_aggregate (F:=F) (G1:=G1) (unzip1 ps') (unzip2 ps').
Proof. exact: bls_aggregate_perm. Qed.
Print Assumptions C09_bls_pairs_permutation.

(* an aggregation that pairs the shares, in the order given, with the SORTED signer list is wrong: for the signers 2,3,1
   (N = 4, t = 3) each share under its own signer verifies, the same shares against the sorted list 1,2,3 do not, and
   the shares of 1,2,3 handed over under the labels 2,3,1 do not verify either (toy instance, by computation) *)
Theorem C09_bls_sorted_pairing_refuted :
  bls_pairs_case 0 4 3 [:: 2%N; 3%N; 1%N] [:: 2%N; 3%N; 1%N] = (true, true) /\
  bls_pairs_case 0 4 3 (sort leq [:: 2%N; 3%N; 1%N]) [:: 2%N; 3%N; 1%N] = (false, false) /\
  bls_pairs_case 0 4 3 [:: 2%N; 3%N; 1%N] [:: 1%N; 2%N; 3%N] = (false, false).
Proof. exact: sorted_pairing_refuted. Qed.
Print Assumptions C09_bls_sorted_pairing_refuted.

(* the pinned upstream tree (fix_copy = false): BlindCorrectFormProof.Verify adds b_i^c into the proof's own d_i, so the
   same honest request object is accepted the first time and rejected the second time (toy instance of Corr/PSCorr.v,
   L = 2); the repaired variant accepts it twice.  Real-code witness: SignBlindSignature twice on one BlindSignature. *)
Theorem C09_idempotent_refuted :
  t_verify_pinned 2 (t_blind 2 1 [:: 1%N; 2%N]).1 = (true, false) /\
  t_verify 2 (t_blind 2 1 [:: 1%N; 2%N]).1 = (true, true).
Proof. exact: pinned_second_verification_fails. Qed.
Print Assumptions C09_idempotent_refuted.

(* non-vacuity.  The premises (bilinear non-degenerate pairing, distinct identifiers) hold in the toy instance; there
   an honest BLS aggregate and an honest PS proof verify, each single perturbation below is rejected, and a rotated
   signer-to-share assignment is rejected (so the functional of C09_bls_assignment_poly does not vanish identically) *)
Example C09_premises_satisfiable :
  (forall (a a' b : TG), te (a + a') b = te a b + te a' b) /\
  (forall (c : TF) (a b : TG), te (c *: a) b = c *: te a b) /\
  (forall (c : TF) (a b : TG), te a (c *: b) = c *: te a b) /\
  (forall a : TG, te a (2%:R : TG) = 0 -> a = 0) /\
  (forall i j : nat, (i <= 4)%N -> (j <= 4)%N -> i%:R = j%:R :> TF -> i = j).
Proof. by split; [exact: te_Dl | split; [exact: te_Zl | split; [exact: te_Zr | split; [exact: te_nondeg | exact: t_natF_inj]]]]. Qed.
Example C09_bls_assignment_example :
  bls_case 0 3 2 [:: 1%N; 3%N] 0 0 = (true, true) /\ bls_case 0 3 2 [:: 1%N; 3%N] 7 0 = (false, false) /\
  bls_case 0 3 2 [:: 1%N; 3%N] 2 1 = (false, false) /\ bls_case 0 4 3 [:: 2%N; 4%N] 0 0 = (false, false).
Proof. by vm_compute. Qed.
Example C09_ps_example :
  req_case 0 2 [:: 1%N; 2%N] [:: 0%N; 1%N] Rcm 0 Pnone = (true, true) /\
  req_case 0 2 [:: 1%N; 2%N] [:: 0%N; 1%N] Ra 1 Pplus = (false, false) /\
  req_case 0 2 [:: 1%N; 2%N] [:: 0%N; 1%N] Rmp 0 Pplus = (true, true) /\
  reqforge_case 0 2 [:: 1%N; 2%N] 1 0 = (false, false) /\
  pok_case 0 3 2 2 [:: 1%N; 2%N] [:: 0%N; 1%N] [:: 1%N; 3%N] Qx 0 Pnone = (true, true) /\
  pok_case 0 3 2 2 [:: 1%N; 2%N] [:: 0%N; 1%N] [:: 1%N; 3%N] Qhpe 0 Pplus = (false, false) /\
  pokforge_case 0 2 [:: 1%N; 2%N] 1 = (false, false).
Proof. by vm_compute. Qed.
