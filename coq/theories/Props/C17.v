(* C17 — Transport frames faithfully and isolates a failing peer.
   This file only states the property theorems; proofs live in TSS.Net.FrameFacts and TSS.Net.Queue.
   Models: Net/Frame.v (remoteParty.send / readMsg), Net/Queue.v (Send -> bounded queue -> single writer per destination).
   Not modelled (exercised by the harness only): sockets, TLS, the Go scheduler, real time. *)
Require Import TSS.Base.Base TSS.Gen.NetConsts TSS.Net.Frame TSS.Net.FrameFacts TSS.Net.Queue TSS.Net.Pinned.

(* Framing: every sequence (of any length) of legal frames -- any type byte, topic present exactly for the types of the
   topic table, payload of 0 .. limit bytes -- written back to back on one connection is read back as exactly that
   sequence: same number of frames, same order, same type, topic and payload; the reader ends at a frame boundary. *)
Theorem C17_stream_roundtrip :
  forall fs, Forall legal fs -> Forall within_limit fs ->
  exists s, encode_stream fs = Ok s /\ decode_stream s = (fs, Ok tt).
Proof. exact stream_roundtrip. Qed.
Print Assumptions C17_stream_roundtrip.

(* The topic table of this tree (regenerated from net.go on every run): topic iff discovery or MPC message. *)
Theorem C17_topic_table :
  forall ty, has_topic ty = true <-> ty = msg_type_discovery \/ ty = msg_type_mpc.
Proof. exact topic_table_pinned. Qed.
Print Assumptions C17_topic_table.

Theorem C17_msg_types : msg_type_none = 0 /\ msg_type_discovery = 1 /\ msg_type_mpc = 2.
Proof. exact msg_types_pinned. Qed.
Print Assumptions C17_msg_types.

(* A frame announcing more than the limit is refused: nothing of it, and nothing after it, is delivered --
   for every type byte and whatever follows; the frames before it are delivered. *)
Theorem C17_limit :
  forall ty b0 b1 b2 b3 rest,
  max_buff_len < le32_val b0 b1 b2 b3 -> read_msg (ty :: b0 :: b1 :: b2 :: b3 :: rest) = Err.
Proof. exact limit_refused. Qed.
Print Assumptions C17_limit.

Theorem C17_limit_stream :
  forall fs ty len rest,
  Forall legal fs -> Forall within_limit fs -> max_buff_len < len -> len <= u32_max ->
  exists s, encode_stream fs = Ok s /\ decode_stream (s ++ ty :: le32 len ++ rest) = (fs, Err).
Proof. exact limit_refused_stream. Qed.
Print Assumptions C17_limit_stream.

(* A broken frame never makes the reader panic: total on every byte sequence. *)
Theorem C17_reader_total :
  forall s, snd (decode_stream s) <> Panic.
Proof. exact decode_stream_total. Qed.
Print Assumptions C17_reader_total.

(* A connection cut at any byte: what is handed on is a prefix of what was sent (never a frame that was not sent,
   never out of order, never twice), and unless the cut is at a frame boundary the reader ends with an error. *)
Theorem C17_truncated :
  forall fs s k,
  Forall legal fs -> Forall within_limit fs -> encode_stream fs = Ok s -> (k < length s)%nat ->
  exists fs1 fs2, fs = fs1 ++ fs2 /\ fs2 <> [] /\
     ((decode_stream (firstn k s) = (fs1, Ok tt) /\ encode_stream fs1 = Ok (firstn k s)) \/
       decode_stream (firstn k s) = (fs1, Err)).
Proof. exact truncated_stream. Qed.
Print Assumptions C17_truncated.

(* Whatever readMsg returns respects the limit and the topic table, and consumes input. *)
Theorem C17_read_shape :
  forall s f rest, read_msg s = Ok (f, rest) ->
  lenN (f_data f) <= max_buff_len /\ lenN (f_topic f) = (if has_topic (f_ty f) then 32 else 0) /\
  (length rest < length s)%nat.
Proof. exact read_msg_shape. Qed.
Print Assumptions C17_read_shape.

(* Queue + single writer, every interleaving (= every operation list), any number of destinations and messages:
   while the connection to d stays up, frames on the wire to d followed by the queued ones are exactly the accepted
   messages in order of acceptance -- each exactly once; once the queue has drained, wire = accepted. *)
Theorem C17_fifo :
  forall c ops d, Forall (no_write_failure d) ops ->
  let s := fst (run c q_init ops) d in
  wire s ++ d_queue s = d_accepted s /\ (d_queue s = [] -> wire s = d_accepted s).
Proof. exact fifo_exactly_once. Qed.
Print Assumptions C17_fifo.

(* ... and in every run, connection failures included: taken-by-the-writer ++ queued = accepted (nothing is taken
   twice, skipped or reordered; a failed write loses that one message and nothing else). *)
Theorem C17_fifo_general :
  forall c ops d, let s := fst (run c q_init ops) d in taken s ++ d_queue s = d_accepted s.
Proof. exact fifo_general. Qed.
Print Assumptions C17_fifo_general.

(* Per-caller order.  In the model an enqueue is one atomic operation: Send returns only when its message is in the
   queue or has been dropped after the timeout (outChan.enqueue blocks the caller on a full queue); it never returns
   while the message is neither.  Therefore, for every run, what the writer has taken followed by what waits is the
   list of accepted enqueue operations in the order in which they were performed -- for one caller: the order of
   its Send calls.  (A variant that hands a blocked enqueue to a background goroutine is not this machine: the
   "burst" scenario of the harness sends more messages than the queue holds and checks strict order.) *)
Theorem C17_call_order :
  forall c ops d, let r := run c q_init ops in
  taken (fst r d) ++ d_queue (fst r d) = enq_accepted d ops (snd r).
Proof. exact call_order. Qed.
Print Assumptions C17_call_order.

(* Isolation: operations on destination d never change queue or connection state of d' <> d; a destination ends in
   the state it reaches when the operations on all other destinations are deleted from the run. *)
Theorem C17_isolation :
  forall c st o d', d' <> target o -> fst (step c st o) d' = st d'.
Proof. exact step_isolation. Qed.
Print Assumptions C17_isolation.

Theorem C17_failing_peer_isolated :
  forall c ops d',
  fst (run c q_init ops) d' = fst (run c q_init (filter (fun o => target o =? d') ops)) d'.
Proof. exact failing_peer_isolated. Qed.
Print Assumptions C17_failing_peer_isolated.

(* No operation panics (repaired enqueue; Send only to destinations of the map). *)
Theorem C17_no_panic :
  forall c ops st, fix_timeout_panic c = true ->
  Forall (fun o => forall d m, o = QEnq d m -> memb d (q_members c) = true) ops ->
  Forall (fun r => r <> Panic) (snd (run c st ops)).
Proof. exact run_no_panic. Qed.
Print Assumptions C17_no_panic.

(* /repo implements the repaired variant (read off the source on every run by tools/gen_netconsts.py). *)
Theorem C17_repo_timeout_repaired : send_timeout_panics = false.
Proof. exact repo_send_timeout_repaired. Qed.
Print Assumptions C17_repo_timeout_repaired.

(* The single-writer premise of the queue model holds of /repo: the writer goroutine of a destination is started only
   through a sync.Once (syntactic; the "concurrent first send" scenario of the harness attacks it dynamically). *)
Theorem C17_repo_single_writer : single_writer_once_guarded = true.
Proof. exact repo_single_writer. Qed.
Print Assumptions C17_repo_single_writer.

(* Isolation on the receiving side.  In the model every connection is served by handle_conn, a function of that connection's
   own bytes (C16_channel, C17_reader_total): a connection that stalls -- sends nothing, or stops in the middle of the TLS
   handshake, the handshake message or a frame -- is a connection whose reader gets no further input, and no step of another
   connection depends on it.  /repo matches this because the accept loop only hands an accepted connection to a goroutine of
   its own and never waits for a client (syntactic; the "stalled clients" scenario of the harness attacks it dynamically). *)
Theorem C17_repo_accept_hands_off : accept_loop_hands_off = true.
Proof. exact repo_accept_hands_off. Qed.
Print Assumptions C17_repo_accept_hands_off.

(* The pinned upstream code panicked in the caller of Send when a queue stayed full for the timeout (fix: 3527aa1). *)
Theorem C17_no_panic_tree_refuted :
  snd (run (cfg_ex false) q_init [QEnq 1 10; QEnq 1 11; QEnq 1 12]) = [Ok RAccepted; Ok RAccepted; Panic] /\
  snd (run (cfg_ex true) q_init [QEnq 1 10; QEnq 1 11; QEnq 1 12]) = [Ok RAccepted; Ok RAccepted; Ok RDropped].
Proof. exact timeout_tree_refuted. Qed.
Print Assumptions C17_no_panic_tree_refuted.

(* Non-vacuity: concrete frames, streams, cuts; a concrete run with a failing destination. *)
Example C17_frames_example :
  let fs := [mkFrame 0 [] [7; 8; 9]; mkFrame 2 (repeat 5 32) [1]; mkFrame 1 (repeat 6 32) []] in
  Forall legal fs /\ Forall within_limit fs /\
  (exists s, encode_stream fs = Ok s /\ length s = 83%nat /\ decode_stream s = (fs, Ok tt) /\
             decode_stream (firstn 50 s) = ([mkFrame 0 [] [7; 8; 9]; mkFrame 2 (repeat 5 32) [1]], Err) /\
             decode_stream (firstn 8 s) = ([mkFrame 0 [] [7; 8; 9]], Ok tt)) /\
  read_msg [0; 1; 0; 64; 1; 9] = Err.
Proof. exact frames_example. Qed.

Example C17_queue_example :
  let ops := [QEnq 1 10; QEnq 2 20; QConnect 2 false; QEnq 1 11; QConnect 1 true; QWrite 1 true; QEnq 1 12;
              QEnq 2 21; QEnq 2 22; QWrite 1 true; QConnect 2 true; QWrite 2 true; QWrite 2 false; QWrite 1 true] in
  let st := fst (run (cfg_ex true) q_init ops) in
  wire (st 1) = [10; 11; 12] /\ d_queue (st 1) = [] /\ d_accepted (st 1) = [10; 11; 12] /\
  wire (st 2) = [20] /\ taken (st 2) = [20; 21] /\ d_up (st 2) = false /\ d_accepted (st 2) = [20; 21] /\
  st 3 = d_init /\ Forall (no_write_failure 1) ops.
Proof. exact queue_example. Qed.
