(* C20 -- Concurrent use of the public API is free of data races: the lock discipline.
   This file only states the property theorems.  Definitions and the generic proof: TSS.Lockset.Trace (events, well-formed
   traces, happens-before of the Go memory model on lock / fork events, data race) and TSS.Lockset.Discipline (access
   tables, discipline_ok, lockset_sound).  TSS.Gen.Lockset is the access table regenerated from the Go source before every
   build by tools/gen_lockset.py (its judgements are listed in that file and in the evidence); TSS.Gen.LocksetKnown lists
   the sites of the known findings (KNOWN_FINDINGS.txt).  This file is compiled on its own (not in _CoqProject), so an edit of
   the Go code that breaks the discipline fails here and nowhere else.

   What is NOT proved here: that every execution of the Go program is an instance of the table (the translator, cross-examined
   by the race detector in checks/lockset.py), and that set-up accesses precede publication (premise setup_ordered). *)
From Coq Require Import List String Bool.
Require Import TSS.Lockset.Trace TSS.Lockset.Discipline TSS.Lockset.Examples.
Require TSS.Gen.Lockset TSS.Gen.LocksetKnown.
Import ListNotations.

(* generic, for ALL traces and ALL tables: a well-formed trace whose accesses are instances of a table that satisfies the
   discipline, with set-up accesses ordered before/after the conflicting ones, has no data race *)
Theorem C20_lockset_sound :
  forall (tr : trace) (tab : list access) (ent : nat -> access),
    wf tr -> discipline_ok tab = true -> instance_of tr tab ent -> setup_ordered tr ent -> ~ race tr.
Proof. exact lockset_sound. Qed.
Print Assumptions C20_lockset_sound.

(* the hypotheses are satisfiable (constructor + writer under Lock + reader under RLock), and races exist in the model *)
Theorem C20_hypotheses_satisfiable :
  wf good /\ discipline_ok tab = true /\ instance_of good tab ent /\ setup_ordered good ent /\ ~ race good /\
  wf bad /\ race bad.
Proof. exact (conj good_wf (conj tab_ok (conj good_instance (conj good_setup_ordered (conj good_race_free (conj bad_wf bad_race)))))). Qed.
Print Assumptions C20_hypotheses_satisfiable.

(* the translator understood every construct of the analysed packages *)
Theorem C20_translator_ok : Gen.Lockset.translator_ok = true.
Proof. exact eq_refl. Qed.
Print Assumptions C20_translator_ok.

Definition repo_table : list access := remove_known Gen.LocksetKnown.known Gen.Lockset.accesses.

(* the table of the current Go source, minus the sites of the known findings, satisfies the discipline *)
Theorem C20_repo_discipline : discipline_ok repo_table = true.
Proof. vm_compute. reflexivity. Qed.
Print Assumptions C20_repo_discipline.

(* hence: every execution whose accesses are instances of that table is race free *)
Theorem C20_repo_race_free :
  forall (tr : trace) (ent : nat -> access),
    wf tr -> instance_of tr repo_table ent -> setup_ordered tr ent -> ~ race tr.
Proof. exact (fun tr ent W I S => lockset_sound tr repo_table ent W C20_repo_discipline I S). Qed.
Print Assumptions C20_repo_race_free.

(* the full table violates the discipline exactly when known findings are listed (none stale, none missing) *)
Theorem C20_full_table_refuted :
  discipline_ok Gen.Lockset.accesses = is_nil Gen.LocksetKnown.known.
Proof. vm_compute. reflexivity. Qed.
Print Assumptions C20_full_table_refuted.
