(* C11 — KeyGen and Sign fail cleanly on timeout, cancellation or a vanished peer (orchestration part; the
   built-in DKG backends are covered by the DKG phase-machine theorems, see Props/C05.v).
   Only property theorems; proofs in TSS.Orch.SessionFacts. *)
Require Import TSS.Base.Base TSS.Orch.Membership TSS.Orch.Sessions TSS.Orch.SessionFacts TSS.Orch.Examples.

(* from every state of every session, cancelling (or expiry of) its context makes the API call return *)
Theorem C11_cancel_returns :
  forall w sid s, sget (sessions w) sid = Some s ->
  exists s', sget (sessions (fst (cancel w sid))) sid = Some s' /\ s_api s' <> None.
Proof. exact cancel_returns. Qed.
Print Assumptions C11_cancel_returns.

(* no step ever panics *)
Theorem C11_never_panics :
  forall mm w e, o_panic (snd (step mm w e)) = false.
Proof. exact never_panics. Qed.
Print Assumptions C11_never_panics.

(* a failing local precondition (unusable share data) is returned as an error at once: Sign does not wait for its context *)
Theorem C11_precondition_error :
  forall mm w sid s, sget (sessions w) sid = Some s -> s_api s = None ->
  p_sign (s_plan s) = true -> p_share (s_plan s) = false ->
  returned_err (fst (callback mm w sid s)) sid.
Proof. exact precondition_error. Qed.
Print Assumptions C11_precondition_error.

(* a failed synchronisation, and two participants of one party, are returned as errors *)
Theorem C11_sync_failure_error :
  forall w sid s, sget (sessions w) sid = Some s -> s_api s = None -> returned_err (s1_failed w sid) sid.
Proof. exact sync_failure_error. Qed.
Theorem C11_duplicate_party_error :
  forall mm w sid s, sget (sessions w) sid = Some s -> s_api s = None -> parties_of mm (s_plan s) = Err ->
  returned_err (fst (callback mm w sid s)) sid /\ o_inits (snd (callback mm w sid s)) = [].
Proof. exact duplicate_party_error. Qed.
Print Assumptions C11_sync_failure_error.
Print Assumptions C11_duplicate_party_error.

(* and whatever the outcome, nothing of the session stays behind (C12_no_residue) *)
Theorem C11_returns_clean :
  forall mm w sid s, reachable mm w -> sget (sessions w) sid = Some s -> s_api s <> None ->
  forall k, tget (syncs w) k <> Some sid /\ tget (rbcs w) k <> Some sid /\ tget (cls w) k <> Some sid.
Proof. exact no_residue. Qed.
Print Assumptions C11_returns_clean.
