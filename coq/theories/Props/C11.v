(* C11 — KeyGen and Sign fail cleanly on timeout, cancellation or a vanished peer (orchestration part; the
   built-in DKG backends are covered by the DKG phase-machine theorems, see Props/C05.v).
   Only property theorems; proofs in TSS.Orch.SessionFacts. *)
Require Import TSS.Base.Base TSS.Orch.Membership TSS.Orch.Sessions TSS.Orch.SessionFacts TSS.Orch.Examples.

(* from every state of every session, cancelling (or expiry of) its context makes the API call return *)
Theorem C11_cancel_returns :
  forall w sid s, sget (sessions w) sid = Some s ->
  exists s', sget (sessions (fst (cancel w sid))) sid = Some s' /\ s_api s' <> None.
Proof. exact cancel_returns. Qed.
Print Assumptions C11_cancel_returns.

(* no step ever panics *)
Theorem C11_never_panics :
  forall mm w e, o_panic (snd (step mm w e)) = false.
Proof. exact never_panics. Qed.
Print Assumptions C11_never_panics.

(* a failing local precondition (unusable share data) is returned as an error at once: Sign does not wait for its context *)
Theorem C11_precondition_error :
  forall mm w sid s, sget (sessions w) sid = Some s -> s_api s = None ->
  p_sign (s_plan s) = true -> p_share (s_plan s) = false ->
  returned_err (fst (callback mm w sid s)) sid.
Proof. exact precondition_error. Qed.
Print Assumptions C11_precondition_error.

(* a failed synchronisation, and two participants of one party, are returned as errors *)
Theorem C11_sync_failure_error :
  forall w sid s, sget (sessions w) sid = Some s -> s_api s = None -> returned_err (s1_failed w sid) sid.
Proof. exact sync_failure_error. Qed.
Theorem C11_duplicate_party_error :
  forall mm w sid s, sget (sessions w) sid = Some s -> s_api s = None -> parties_of mm (s_plan s) = Err ->
  returned_err (fst (callback mm w sid s)) sid /\ o_inits (snd (callback mm w sid s)) = [].
Proof. exact duplicate_party_error. Qed.
Print Assumptions C11_sync_failure_error.
Print Assumptions C11_duplicate_party_error.

(* and whatever the outcome, nothing of the session stays behind (C12_no_residue) *)
Theorem C11_returns_clean :
  forall w sid s, reachable w -> sget (sessions w) sid = Some s -> s_api s <> None ->
  forall k, tget (syncs w) k <> Some sid /\ tget (rbcs w) k <> Some sid /\ tget (cls w) k <> Some sid.
Proof. exact no_residue. Qed.
Print Assumptions C11_returns_clean.

(* ------------------------------------------------------------------------------------------------
   The built-in DKG backends (TBLS.KeyGen / TPS.KeyGen): "never block indefinitely once the context is cancelled or
   expires, regardless of the point at which any peer stopped participating".  Appended by the dkg engine; proofs in
   TSS.Alg.WaitModel (the wake-up protocol of the three waits: condition variable, one monitor goroutine that signals
   once when the context is done, waiter loop "context? all in? Wait") and TSS.Alg.DKG (what the phase machine does then).
   Tie: harness/dkg cancel (real instances: context done before the call / while sending / while parked / deadline with
   peers silent after their k-th message, each KeyGen under a 2 s watchdog), run from this property's check. *)
Require TSS.Alg.WaitModel TSS.Alg.DKG.

(* no lost wake-up: from every reachable state of the wait in which the context is done, once the monitor goroutine and
   then, twice, the KeyGen goroutine get to run -- whatever else happens before, in between and after: deliveries,
   signals, further steps -- the wait has returned *)
Theorem C11_backend_wait_returns :
  forall s, WaitModel.reachable false s -> WaitModel.ctx_done s = true ->
  forall a b c d,
    WaitModel.waiter (WaitModel.run false s (a ++ [WaitModel.MonitorFires] ++ b ++ [WaitModel.WaiterStep] ++ c ++
                                             [WaitModel.WaiterStep] ++ d)) = WaitModel.Returned.
Proof. exact WaitModel.wait_returns. Qed.
Print Assumptions C11_backend_wait_returns.

(* the loop that parks first and looks at the context only after waking up loses the monitor's only signal: a KeyGen that
   reaches the wait after the context is done, with a value missing, sleeps for ever (nothing but a peer wakes it) *)
Theorem C11_backend_wait_sleep_first_refuted :
  exists s, WaitModel.reachable true s /\ WaitModel.ctx_done s = true /\
            forall evs, Forall WaitModel.quiet evs -> WaitModel.waiter (WaitModel.run true s evs) = WaitModel.Parked.
Proof. exact WaitModel.wait_returns_sleep_first_refuted. Qed.
Print Assumptions C11_backend_wait_sleep_first_refuted.

(* and once the wait has returned with the context done, KeyGen sends nothing more and returns the error *)
Theorem C11_backend_cancelled_returns_error :
  forall (S V C : Type) (add : S -> S -> S) (pub : S -> V) (H : V -> C) (C_eqb : C -> C -> bool)
         (crosscheck : list V -> bool) (tpk_of : list V -> V) (parties : list nat) (self : nat)
         (st : DKG.state S V C),
  DKG.ctx_done S V C st = true -> DKG.waiting S V (DKG.ph S V C st) = true ->
  DKG.step S V C add pub H C_eqb crosscheck tpk_of parties self st DKG.Wake =
  (DKG.set_ph S V C st DKG.Failed, [DKG.Return DKG.RErr]).
Proof. exact DKG.ctx_done_fails. Qed.
Print Assumptions C11_backend_cancelled_returns_error.
