(* C07 -- Membership sync: agreed lists are valid and identical; honest runs finish.
   This file only states the property theorems; the proofs live in TSS.Disc.{Global,Live,Refute,Wire}.

   Setting of every theorem below (TSS.Disc.Global): one topic [tp]; a configured membership [mem] (any list of
   identifiers) and an expected count [exp], the same at every honest member; [honest] is an arbitrary set of
   members, each running the state machine of Disc/Model.v (disc.Member for one topic: HandleMessage, the ticker,
   intersectedView as Pass1 / Visit k / Pass2 events that other events may interleave, the acknowledgement loop,
   the context); [reachable S] = S arises from the initial state through ANY list of admissible events:
   any interleaving of the honest members' steps, any delay / duplication / re-ordering of their messages, any
   message at all handled as coming from a non-honest source (Byzantine configured members, outsiders: lying
   views, tags of other members or topics, replays, responses before queries).  The single constraint is
   authenticated links: a message that an honest member accepts as coming from an honest member was emitted by
   that member (as a broadcast, or addressed to this receiver).
   [fx] / [fs] are the variant flags fix_onepass / fix_solo: true = the repaired code that the correspondence
   check (checks/disc.py) demands of /repo, false = the pinned upstream code. *)
From Coq Require Import List NArith Sorted. Import ListNotations.
Require Import TSS.Base.Base TSS.Wire.Codec TSS.Wire.CodecFacts.
Require Import TSS.Disc.Sort TSS.Disc.Model TSS.Disc.Global TSS.Disc.Exec TSS.Disc.Live TSS.Disc.Refute TSS.Disc.Wire.

(* Validity (both variants): the list handed to the continuation is strictly sorted -- sorted and duplicate-free --,
   has exactly the expected size, contains the member itself, and every other element is a configured member from
   which this member handled an announcement (membership or query message) carrying that member's own tag for
   this topic. *)
Theorem C07_valid :
  forall (tp : N) (mem : list N) (exp : nat) (fx fs : bool) (honest : N -> Prop) (S : gstate),
  reachable tp mem exp fx fs honest S ->
  forall (h : N) (L : view), honest h -> In (h, Continue L) (emitted S) ->
  Sorted N.lt L /\ NoDup L /\ length L = exp /\ ((1 <= exp)%nat -> In h L) /\
  (forall x, In x L -> x <> h ->
     In x mem /\ exists ty v, ty <> MResp /\ In (h, Handle x (ty, (tp, x), v)) (hist S)).
Proof. exact valid. Qed.
Print Assumptions C07_valid.

(* Agreement (repaired variant fx = true): a and b honest, a completed with L, b is in L, b completed with L':
   then L = L'.  For any number and behaviour of Byzantine members. *)
Theorem C07_agree :
  forall (tp : N) (mem : list N) (exp : nat) (fx fs : bool) (honest : N -> Prop) (S : gstate),
  fx = true -> reachable tp mem exp fx fs honest S ->
  forall (a b : N) (L L' : view), honest a -> honest b ->
  In (a, Continue L) (emitted S) -> In b L -> In (b, Continue L') (emitted S) -> L = L'.
Proof. exact agree. Qed.
Print Assumptions C07_agree.

(* ... and it was FALSE of the pinned upstream code (fx = false), because intersectedView computed the own view in
   a second pass: configured members {1,2,3,4}, expected 3, honest 1 and 2, Byzantine 3 and 4; the authentic first
   announcement of 2 (view [2]) lands at 1 between the two passes.  An admissible run in which honest 1 completes
   with [1;2;3], honest 2 -- a member of that list -- with [2;3;4].  (Reproduced on the real code: deterministically
   through the verif hook, and ~1 in 3000 attempts with real goroutines; repaired in /repo commit 2c5437e.) *)
Theorem C07_agree_tree_refuted :
  reachable 7 [1;2;3;4] 3 false false (honestL [1;2]) (race_run false) /\
  In (1, Continue [1;2;3]) (emitted (race_run false)) /\ In (2, Continue [2;3;4]) (emitted (race_run false)).
Proof. exact agree_tree_refuted_reachable. Qed.
Print Assumptions C07_agree_tree_refuted.

(* the same script on the repaired variant: member 1 does not complete *)
Theorem C07_agree_fixed_same_script :
  run_ok 7 [1;2;3;4] 3 true false [1;2] ginit race_script = true /\
  conts_of (race_run true) 1 = [] /\ conts_of (race_run true) 2 = [[2;3;4]].
Proof. exact agree_fixed_same_script. Qed.
Print Assumptions C07_agree_fixed_same_script.

(* Error and continuation are exclusive; the continuation runs at most once; an error is returned at most once. *)
Theorem C07_no_continue_on_error :
  forall (tp : N) (mem : list N) (exp : nat) (fx fs : bool) (honest : N -> Prop) (S : gstate),
  reachable tp mem exp fx fs honest S ->
  forall h, honest h ->
  (length (gconts h (emitted S)) <= 1)%nat /\ (length (gerrs h (emitted S)) <= 1)%nat /\
  (gerrs h (emitted S) <> [] -> gconts h (emitted S) = []).
Proof. exact exclusive. Qed.
Print Assumptions C07_no_continue_on_error.

(* Once the context ended (CtxDone handled by h), no continuation is invoked in any continuation of the run. *)
Theorem C07_no_continue_after_ctxdone :
  forall (tp : N) (mem : list N) (exp : nat) (fx fs : bool) (honest : N -> Prop) (S : gstate),
  reachable tp mem exp fx fs honest S ->
  forall h, honest h -> In (h, CtxDone) (hist S) ->
  forall S', extends tp mem exp fx fs honest S S' -> gconts h (emitted S') = gconts h (emitted S).
Proof. exact after_ctxdone. Qed.
Print Assumptions C07_no_continue_after_ctxdone.

(* "Otherwise it returns an error without invoking the continuation", too few: if all the peers whose
   announcements h handled fit in a list shorter than exp - 1, h never invokes the continuation. *)
Theorem C07_too_few_no_continue :
  forall (tp : N) (mem : list N) (exp : nat) (fx fs : bool) (honest : N -> Prop) (S : gstate),
  reachable tp mem exp fx fs honest S ->
  forall (h : N) (A : list N), honest h ->
  (forall x ty v, In (h, Handle x (ty, (tp, x), v)) (hist S) -> ty <> MResp -> In x mem -> x <> h -> In x A) ->
  (length A < exp - 1)%nat -> forall L, ~ In (h, Continue L) (emitted S).
Proof. exact too_few. Qed.
Print Assumptions C07_too_few_no_continue.

(* "Too many" cannot mean that everybody fails: three honest members, expected 2 -- the two that find each other first
   complete with [1;2] (valid, in agreement), the third runs into its deadline.  Inherent in the protocol. *)
Theorem C07_too_many_some_continue :
  run_ok 7 [1;2;3] 2 true true [1;2;3] ginit many_script = true /\
  conts_of many_run 1 = [[1;2]] /\ conts_of many_run 2 = [[1;2]] /\
  conts_of many_run 3 = [] /\ errs_of many_run 3 = 1%nat.
Proof. exact too_many_some_continue. Qed.
Print Assumptions C07_too_many_some_continue.

(* Liveness, part 1 (every interleaving): exactly the expected members run, all honest, nobody else's traffic is
   handled.  Then a member can fail only through its context, and whoever completes has the sorted list of all. *)
Theorem C07_exact_run_only_deadline :
  forall (tp : N) (mem : list N) (exp : nat) (fx fs : bool) (honest : N -> Prop) (S : gstate) (H : list N),
  reachable tp mem exp fx fs honest S -> NoDup H -> (forall x, honest x <-> In x H) -> length H = exp ->
  (forall h from m, In (h, Handle from m) (hist S) -> In from H) ->
  forall h, honest h ->
  (In (h, Return_err) (emitted S) -> In (h, CtxDone) (hist S)) /\
  (forall L, In (h, Continue L) (emitted S) -> L = isort H).
Proof. exact exact_run_only_deadline. Qed.
Print Assumptions C07_exact_run_only_deadline.

(* Liveness, part 2 (_partial): for every list H of at least two distinct configured identifiers, the fair schedule
   [fair tp H] (tick, deliver, tick, deliver, intersectedView, deliver queries, deliver responses, take them; no
   CtxDone) is an admissible run from the initial state in which every member of H invokes the continuation with
   sort H.  PARTIAL because real time is a premise, not modelled: the deadline must not come before such a schedule
   is through (two probe intervals plus message delays), links deliver in FIFO order, and the run is this schedule
   rather than an arbitrary fair one. *)
Theorem C07_live_partial :
  forall (tp : N) (mem : list N) (fx fs : bool) (H : list N),
  NoDup H -> incl H mem -> (2 <= length H)%nat ->
  reachable tp mem (length H) fx fs (honestH H) (grun tp mem (length H) fx fs ginit (fair tp H)) /\
  (forall b, In b H -> In (b, Continue (isort H)) (emitted (grun tp mem (length H) fx fs ginit (fair tp H)))) /\
  (forall x, ~ In (x, CtxDone) (fair tp H)).
Proof. exact live. Qed.
Print Assumptions C07_live_partial.

(* ... a member that expects only itself: completes at its first intersectedView in the repaired variant; could
   NEVER complete upstream (fs = false), whatever happens (repaired in /repo commit d2bcdfe). *)
Theorem C07_live_solo :
  forall (h t : N) (mem : list N) (fx : bool),
  lrun (mkCfg h t mem 1 fx true) state0 [Pass1; Pass2] =
  (mkSt [] [] [] None (Done [h]), [Bcast MQuery [h]; Continue [h]]).
Proof. exact solo_fixed_continues. Qed.
Print Assumptions C07_live_solo.

Theorem C07_live_solo_tree_refuted :
  forall (tp : N) (mem : list N) (exp : nat) (fx fs : bool) (honest : N -> Prop) (S : gstate),
  fs = false -> exp = 1%nat -> reachable tp mem exp fx fs honest S ->
  forall h L, honest h -> ~ In (h, Continue L) (emitted S).
Proof. exact solo_tree_never_continues. Qed.
Print Assumptions C07_live_solo_tree_refuted.

(* The tag: for every function prf that is injective in (topic, id) and yields 32 bytes, handling the wire encoding
   of a message is handling the abstract message naming the (topic, id) its tag stands for. *)
Theorem C07_tag_binding :
  forall prf : N -> N -> bytes,
  (forall t i, length (prf t i) = 32%nat) -> (forall t i, bytes_ok (prf t i)) ->
  (forall t i t' i', prf t i = prf t' i' -> t = t' /\ i = i') ->
  forall (c : cfg) (st : state) (from : N) (t : mty) (tg id : N) (peers : list N) (bs : bytes),
  Forall id_ok peers -> encode_sync (mty_code t) (prf tg id) peers = Ok bs ->
  handle_bytes prf c st from bs = step c st (Handle from (t, (tg, id), peers)).
Proof. exact handle_bytes_encoded. Qed.
Print Assumptions C07_tag_binding.

(* Non-vacuity: members 0, 256 and 65535 of the configured {0, 7, 256, 65535}, expected 3, reach the continuation
   in an admissible run (by computation). *)
Example C07_nonvacuous :
  reachable 7 [0; 7; 256; 65535] 3 true true (honestL [0; 256; 65535]) ok_run /\
  In (0, Continue [0; 256; 65535]) (emitted ok_run) /\ In (256, Continue [0; 256; 65535]) (emitted ok_run) /\
  In (65535, Continue [0; 256; 65535]) (emitted ok_run).
Proof. exact three_honest_complete. Qed.
Print Assumptions C07_nonvacuous.
