(* C07 -- Membership sync: agreed lists are valid and identical; honest runs finish.
   This file only states the property theorems; the proofs live in TSS.Disc.{Global,Live,Refute,Wire}.

   Setting of every theorem below (TSS.Disc.Global): one topic [tp]; a configured membership [mem] (any list of
   identifiers) and an expected count [exp], the same at every honest member; [honest] is an arbitrary set of
   members, each running the state machine of Disc/Model.v (disc.Member for one topic: HandleMessage, the ticker,
   intersectedView as Pass1 / Visit k / Pass2 events that other events may interleave, the acknowledgement loop,
   the context); [reachable S] = S arises from the initial state through ANY list of admissible events:
   any interleaving of the honest members' steps, any delay / duplication / re-ordering of their messages, any
   message at all handled as coming from a non-honest source (Byzantine configured members, outsiders: lying
   views, tags of other members or topics, replays, responses before queries).  The single constraint is
   authenticated links: a message that an honest member accepts as coming from an honest member was emitted by
   that member (as a broadcast, or addressed to this receiver).
   [fx] / [fs] / [fq] are the variant flags fix_onepass / fix_solo / fix_queries: true = the repaired code that the
   correspondence check (checks/disc.py) demands of /repo, false = the code before the respective repair.
   The event Stop (after Synchronize has returned) models the orchestrator that stops serving the topic: a stopped
   member is handed no further message. *)
From Coq Require Import List NArith Sorted. Import ListNotations.
Require Import TSS.Base.Base TSS.Wire.Codec TSS.Wire.CodecFacts.
Require Import TSS.Disc.Sort TSS.Disc.Model TSS.Disc.Global TSS.Disc.Exec TSS.Disc.Live TSS.Disc.Refute TSS.Disc.Wire.

(* Validity (both variants): the list handed to the continuation is strictly sorted -- sorted and duplicate-free --,
   has exactly the expected size, contains the member itself, and every other element is a configured member from
   which this member handled an announcement (membership or query message) carrying that member's own tag for
   this topic. *)
Theorem C07_valid :
  forall (tp : N) (mem : list N) (exp : nat) (fx fs fq : bool) (honest : N -> Prop) (S : gstate),
  reachable tp mem exp fx fs fq honest S ->
  forall (h : N) (L : view), honest h -> In (h, Continue L) (emitted S) ->
  Sorted N.lt L /\ NoDup L /\ length L = exp /\ ((1 <= exp)%nat -> In h L) /\
  (forall x, In x L -> x <> h ->
     In x mem /\ exists ty v, ty <> MResp /\ In (h, Handle x (ty, (tp, x), v)) (hist S)).
Proof. exact valid. Qed.
Print Assumptions C07_valid.

(* Agreement (repaired variant fx = true): a and b honest, a completed with L, b is in L, b completed with L':
   then L = L'.  For any number and behaviour of Byzantine members. *)
Theorem C07_agree :
  forall (tp : N) (mem : list N) (exp : nat) (fx fs fq : bool) (honest : N -> Prop) (S : gstate),
  fx = true -> reachable tp mem exp fx fs fq honest S ->
  forall (a b : N) (L L' : view), honest a -> honest b ->
  In (a, Continue L) (emitted S) -> In b L -> In (b, Continue L') (emitted S) -> L = L'.
Proof. exact agree. Qed.
Print Assumptions C07_agree.

(* ... and it was FALSE of the pinned upstream code (fx = false), because intersectedView computed the own view in
   a second pass: configured members {1,2,3,4}, expected 3, honest 1 and 2, Byzantine 3 and 4; the authentic first
   announcement of 2 (view [2]) lands at 1 between the two passes.  An admissible run in which honest 1 completes
   with [1;2;3], honest 2 -- a member of that list -- with [2;3;4].  (Reproduced on the real code: deterministically
   through the verif hook, and ~1 in 3000 attempts with real goroutines; repaired in /repo commit 2c5437e.) *)
Theorem C07_agree_tree_refuted :
  reachable 7 [1;2;3;4] 3 false false false (honestL [1;2]) (race_run false) /\
  In (1, Continue [1;2;3]) (emitted (race_run false)) /\ In (2, Continue [2;3;4]) (emitted (race_run false)).
Proof. exact agree_tree_refuted_reachable. Qed.
Print Assumptions C07_agree_tree_refuted.

(* the same script on the repaired variant: member 1 does not complete *)
Theorem C07_agree_fixed_same_script :
  run_ok 7 [1;2;3;4] 3 true false false [1;2] ginit race_script = true /\
  conts_of (race_run true) 1 = [] /\ conts_of (race_run true) 2 = [[2;3;4]].
Proof. exact agree_fixed_same_script. Qed.
Print Assumptions C07_agree_fixed_same_script.

(* Error and continuation are exclusive; the continuation runs at most once; an error is returned at most once. *)
Theorem C07_no_continue_on_error :
  forall (tp : N) (mem : list N) (exp : nat) (fx fs fq : bool) (honest : N -> Prop) (S : gstate),
  reachable tp mem exp fx fs fq honest S ->
  forall h, honest h ->
  (length (gconts h (emitted S)) <= 1)%nat /\ (length (gerrs h (emitted S)) <= 1)%nat /\
  (gerrs h (emitted S) <> [] -> gconts h (emitted S) = []).
Proof. exact exclusive. Qed.
Print Assumptions C07_no_continue_on_error.

(* Once the context ended (CtxDone handled by h), no continuation is invoked in any continuation of the run. *)
Theorem C07_no_continue_after_ctxdone :
  forall (tp : N) (mem : list N) (exp : nat) (fx fs fq : bool) (honest : N -> Prop) (S : gstate),
  reachable tp mem exp fx fs fq honest S ->
  forall h, honest h -> In (h, CtxDone) (hist S) ->
  forall S', extends tp mem exp fx fs fq honest S S' -> gconts h (emitted S') = gconts h (emitted S).
Proof. exact after_ctxdone. Qed.
Print Assumptions C07_no_continue_after_ctxdone.

(* "Otherwise it returns an error without invoking the continuation", too few: if all the peers whose
   announcements h handled fit in a list shorter than exp - 1, h never invokes the continuation. *)
Theorem C07_too_few_no_continue :
  forall (tp : N) (mem : list N) (exp : nat) (fx fs fq : bool) (honest : N -> Prop) (S : gstate),
  reachable tp mem exp fx fs fq honest S ->
  forall (h : N) (A : list N), honest h ->
  (forall x ty v, In (h, Handle x (ty, (tp, x), v)) (hist S) -> ty <> MResp -> In x mem -> x <> h -> In x A) ->
  (length A < exp - 1)%nat -> forall L, ~ In (h, Continue L) (emitted S).
Proof. exact too_few. Qed.
Print Assumptions C07_too_few_no_continue.

(* "Too many" cannot mean that everybody fails: three honest members, expected 2 -- the two that find each other first
   complete with [1;2] (valid, in agreement), the third runs into its deadline.  Inherent in the protocol. *)
Theorem C07_too_many_some_continue :
  run_ok 7 [1;2;3] 2 true true true [1;2;3] ginit many_script = true /\
  conts_of many_run 1 = [[1;2]] /\ conts_of many_run 2 = [[1;2]] /\
  conts_of many_run 3 = [] /\ errs_of many_run 3 = 1%nat.
Proof. exact too_many_some_continue. Qed.
Print Assumptions C07_too_many_some_continue.

(* Liveness, part 1 (every interleaving): exactly the expected members run, all honest, nobody else's traffic is
   handled.  Then a member can fail only through its context, and whoever completes has the sorted list of all. *)
Theorem C07_exact_run_only_deadline :
  forall (tp : N) (mem : list N) (exp : nat) (fx fs fq : bool) (honest : N -> Prop) (S : gstate) (H : list N),
  reachable tp mem exp fx fs fq honest S -> NoDup H -> (forall x, honest x <-> In x H) -> length H = exp ->
  (forall h from m, In (h, Handle from m) (hist S) -> In from H) ->
  forall h, honest h ->
  (forall e, In (h, Return_err e) (emitted S) -> In (h, CtxDone) (hist S)) /\
  (forall L, In (h, Continue L) (emitted S) -> L = isort H).
Proof. exact exact_run_only_deadline. Qed.
Print Assumptions C07_exact_run_only_deadline.

(* Liveness, part 2 (_partial): for every list H of at least two distinct configured identifiers, the fair schedule
   [fair tp H] (tick, deliver, tick, deliver, intersectedView, deliver queries, deliver responses, take the
   responses, take the queries; no CtxDone; repaired variant fix_queries) is an admissible run from the initial state in which every member of H invokes the continuation with
   sort H.  PARTIAL because real time is a premise, not modelled: the deadline must not come before such a schedule
   is through (two probe intervals plus message delays), links deliver in FIFO order, and the run is this schedule
   rather than an arbitrary fair one.  Tick is an arbitrary event of the model; that "every member ticks again within
   its OWN probe interval, whatever it receives in the meantime" is the fairness premise on the implementation (a
   ticker, not a timer re-armed by every arrival).  The harness exercises it with unequal intervals per member
   (whole-run class "probes": ratios 1:100 and 1:10, one fast prober among slow ones and vice versa, deadline a dozen
   slow intervals) under the "exact honest run => everybody completes" monitor. *)
Theorem C07_live_partial :
  forall (tp : N) (mem : list N) (fx fs : bool) (H : list N),
  NoDup H -> incl H mem -> (2 <= length H)%nat ->
  reachable tp mem (length H) fx fs true (honestH H) (grun tp mem (length H) fx fs true ginit (fair tp H)) /\
  (forall b, In b H -> In (b, Continue (isort H)) (emitted (grun tp mem (length H) fx fs true ginit (fair tp H)))) /\
  (forall x, ~ In (x, CtxDone) (fair tp H)).
Proof. exact live. Qed.
Print Assumptions C07_live_partial.

(* ... a member that expects only itself: completes at its first intersectedView in the repaired variant; could
   NEVER complete upstream (fs = false), whatever happens (repaired in /repo commit d2bcdfe). *)
Theorem C07_live_solo :
  forall (h t : N) (mem : list N) (fx fq : bool),
  lrun (mkCfg h t mem 1 fx true fq) state0 [Pass1; Pass2] =
  (mkSt [] [] [] [] [] [] false None (Done [h]), [Bcast MQuery [h]; Continue [h]]).
Proof. exact solo_fixed_continues. Qed.
Print Assumptions C07_live_solo.

Theorem C07_live_solo_tree_refuted :
  forall (tp : N) (mem : list N) (exp : nat) (fx fs fq : bool) (honest : N -> Prop) (S : gstate),
  fs = false -> exp = 1%nat -> reachable tp mem exp fx fs fq honest S ->
  forall h L, honest h -> ~ In (h, Continue L) (emitted S).
Proof. exact solo_tree_never_continues. Qed.
Print Assumptions C07_live_solo_tree_refuted.

(* Teardown safety (repaired variant fq = true, with fx = true), in an exact honest run -- the members are the
   duplicate-free list H, exp = |H|, all handled traffic comes from members of H -- and for EVERY interleaving:
   when a has completed with L, then for every other member b, a has handled b's query carrying L (so b had finished
   its first loop) and a has sent b its acknowledgement carrying exactly L.  Whatever b still waits for is on its
   way; a may stop serving the topic.  (With Byzantine configured members outside the list the statement is false:
   like acknowledgements, queries are counted from ANY configured peer, so a Byzantine member can stand in for an
   honest one -- see the report; not needed for the finding C01-a, which is about honest runs.) *)
Theorem C07_teardown_safe :
  forall (tp : N) (mem : list N) (exp : nat) (fx fs fq : bool) (honest : N -> Prop) (S : gstate) (H : list N),
  fx = true -> fq = true ->
  reachable tp mem exp fx fs fq honest S -> NoDup H -> (forall x, honest x <-> In x H) -> length H = exp ->
  (forall h from m, In (h, Handle from m) (hist S) -> In from H) ->
  forall a L, honest a -> ph (g S a) = Done L ->
  forall b, In b H -> b <> a ->
    In (a, Handle b (MQuery, (tp, b), L)) (hist S) /\ In (a, SendTo b MResp L) (emitted S).
Proof. exact teardown_safe. Qed.
Print Assumptions C07_teardown_safe.

(* ... "before a continued": in the state in which a takes the step that invokes its continuation, b's query has
   already been handled and the acknowledgement for b already been sent. *)
Theorem C07_teardown_safe_before :
  forall (tp : N) (mem : list N) (exp : nat) (fx fs fq : bool) (honest : N -> Prop) (S : gstate) (ge : gevent) (H : list N),
  fx = true -> fq = true ->
  reachable tp mem exp fx fs fq honest S -> admissible tp mem exp fx fs fq honest S ge ->
  NoDup H -> (forall x, honest x <-> In x H) -> length H = exp ->
  (forall h from m, In (h, Handle from m) (hist (gstep tp mem exp fx fs fq S ge)) -> In from H) ->
  forall a L, honest a -> gconts a (emitted S) = [] -> gconts a (emitted (gstep tp mem exp fx fs fq S ge)) = [L] ->
  forall b, In b H -> b <> a ->
    In (a, Handle b (MQuery, (tp, b), L)) (hist S) /\ In (a, SendTo b MResp L) (emitted S).
Proof. exact teardown_safe_before. Qed.
Print Assumptions C07_teardown_safe_before.

(* The code before the repair (fq = false) did not have this property -- finding C01-a.  Members 1 and 2, expected 2,
   both honest, every message delivered: 1 completes on 2's acknowledgement and is torn down (Stop); 2 then finishes
   its first loop and queries a member that is no longer served.  In NO continuation of that admissible run does 2
   ever invoke its continuation: it can only end through its deadline ("haven't received 1 out of 1
   acknowledgements").  Observed on the real code in 13 of 25 whole runs of the teardown family. *)
Theorem C07_teardown_tree_refuted :
  run_ok 7 [1;2] 2 true true false [1;2] ginit td_script = true /\
  conts_of (td_run false) 1 = [[1;2]] /\ stopped (g (td_run false) 1) = true /\
  ph (g (td_run false) 2) = Query [1;2] 1 0 /\
  snd (step (cfgOf 7 [1;2] 2 true true false 2) (g (td_run false) 2) CtxDone) = [Return_err EAcks] /\
  forall S', extends 7 [1;2] 2 true true false (honestL [1;2]) (td_run false) S' -> conts_of S' 2 = [].
Proof. exact teardown_tree_refuted_all. Qed.
Print Assumptions C07_teardown_tree_refuted.

(* ... and why teardown safety is stated for honest runs: with a Byzantine configured member (4 of {1,2,3,4}, expected
   3) honest 1 completes and is torn down on the queries and acknowledgements of 2 and 4, while honest 3, a member of
   its list, is still in its first loop and has no acknowledgement from 1 coming. *)
Theorem C07_teardown_byzantine_refuted :
  run_ok 7 [1;2;3;4] 3 true true true [1;2;3] ginit tdb_script = true /\
  conts_of tdb_run 1 = [[1;2;3]] /\ stopped (g tdb_run 1) = true /\ ph (g tdb_run 3) = Collect /\
  (forall v, ~ In (1, SendTo 3 MResp v) (emitted tdb_run)).
Proof. exact teardown_byzantine_witness. Qed.
Print Assumptions C07_teardown_byzantine_refuted.

(* the same script on the repaired variant: 1 waits for 2's query, Stop does nothing before that, both complete *)
Theorem C07_teardown_fixed_same_script :
  run_ok 7 [1;2] 2 true true true [1;2] ginit (td_script ++ td_rest) = true /\
  conts_of (td_run true) 1 = [] /\ ph (g (td_run true) 1) = Query [1;2] 0 1 /\ stopped (g (td_run true) 1) = false /\
  conts_of (grun 7 [1;2] 2 true true true ginit (td_script ++ td_rest)) 1 = [[1;2]] /\
  conts_of (grun 7 [1;2] 2 true true true ginit (td_script ++ td_rest)) 2 = [[1;2]].
Proof. exact teardown_fixed_same_script. Qed.
Print Assumptions C07_teardown_fixed_same_script.

(* non-vacuity of teardown safety: three members, the fast ones torn down while the slow one is still in its first
   loop; all three complete and are stopped *)
Example C07_teardown_nonvacuous :
  run_ok 7 [1;2;3] 3 true true true [1;2;3] ginit td3_script = true /\
  conts_of td3_run 1 = [[1;2;3]] /\ conts_of td3_run 2 = [[1;2;3]] /\ conts_of td3_run 3 = [[1;2;3]] /\
  stopped (g td3_run 1) = true /\ stopped (g td3_run 2) = true /\ stopped (g td3_run 3) = true.
Proof. exact teardown_three_complete. Qed.
Print Assumptions C07_teardown_nonvacuous.

(* The tag: for every function prf that is injective in (topic, id) and yields 32 bytes, handling the wire encoding
   of a message is handling the abstract message naming the (topic, id) its tag stands for. *)
Theorem C07_tag_binding :
  forall prf : N -> N -> bytes,
  (forall t i, length (prf t i) = 32%nat) -> (forall t i, bytes_ok (prf t i)) ->
  (forall t i t' i', prf t i = prf t' i' -> t = t' /\ i = i') ->
  forall (c : cfg) (st : state) (from : N) (t : mty) (tg id : N) (peers : list N) (bs : bytes),
  Forall id_ok peers -> encode_sync (mty_code t) (prf tg id) peers = Ok bs ->
  handle_bytes prf c st from bs = step c st (Handle from (t, (tg, id), peers)).
Proof. exact handle_bytes_encoded. Qed.
Print Assumptions C07_tag_binding.

(* Non-vacuity: members 0, 256 and 65535 of the configured {0, 7, 256, 65535}, expected 3, reach the continuation
   in an admissible run (by computation). *)
Example C07_nonvacuous :
  reachable 7 [0; 7; 256; 65535] 3 true true true (honestL [0; 256; 65535]) ok_run /\
  In (0, Continue [0; 256; 65535]) (emitted ok_run) /\ In (256, Continue [0; 256; 65535]) (emitted ok_run) /\
  In (65535, Continue [0; 256; 65535]) (emitted ok_run).
Proof. exact three_honest_complete. Qed.
Print Assumptions C07_nonvacuous.
