(* C01 — Threshold key agreement and signing correctness for all n, t, subsets, schedules.
   Only statements; proofs in TSS.Alg.DKG / DKGSystem / DKGAlg (key generation), TSS.Alg.SSS / BLS (signing algebra).

   The property is a composition; what each layer contributes:
   (1) two synchronisation barriers before the first MPC message, per-session handler tables: TSS.Orch.SessionFacts
       (Props/C12.v, C11.v, C06.v) -- re-exported below, not re-proved;
   (2) every protocol message is handed to the backend exactly once, for EVERY schedule that delivers everything
       (loud mode): TSS.RBC.Totality.totality (Props/C04.v); silent mode: TSS.Box.Handoff (Props/C14.v; the first-send race
       C14-a/b/c of the pinned msg.Box, through which a message could be late or lost, is repaired in /repo: b40b5e7);
   (3) C01_dkg_honest / C01_dkg_honest_alg: with (2) as the hypothesis "every message that is sent is delivered", in ANY
       interleaving of deliveries and wake-ups (early messages included) every party returns Ok with identical
       (tpk, pks) = (g^P(0), [g^P(i)]_i) and sk_i = P(i), P the sum of the dealt polynomials;  all 1 <= t <= n;
   (4) C01_sign: for every digest h = H(m) and every list of >= t distinct signers the Lagrange aggregate of the partial
       signatures h^sk_i verifies under tpk (bilinear pairing as an ideal object, TSS.Alg.BLS).
   Orchestrated signing is a pass-through: every participant returns what its backend returns for the digest it was given
   (TSS.Orch.SessionFacts / Props/C11.v, C12.v).  Its LIVENESS is not a theorem of this file
   (_partial here): in the session model a signing session completes when every synchroniser query is answered.  The pinned
   code did not guarantee that in loud mode (former finding C01-a: a signer that finished the pre-signing synchronisation
   unregistered the topic and dropped the query of a slower signer); the gap was closed at the disc level (/repo 2681e65: a
   member completes only after every other member has queried it; the disc engine proves teardown safety with C07), and the
   full-stack runs of this property's check treat every fault-free signing failure as a violation.
   The safety clauses (identical material, signatures verify) are proved without exception. *)
From Coq Require Import List ZArith.
Require Import TSS.Base.Base TSS.Alg.ZrModel TSS.Alg.DKG TSS.Alg.DKGSystem TSS.Corr.DKGCorr.
Require TSS.Orch.SessionFacts TSS.RBC.Totality TSS.Box.Handoff.
From mathcomp Require Import all_ssreflect all_algebra.
Require Import TSS.Alg.SSS TSS.Alg.BLS TSS.Alg.DKGAlg.
Import GRing.Theory.
Local Open Scope ring_scope.
Delimit Scope Z_scope with ZZ.

(* (3), generic in the algebra: every party honest, every sent message delivered (any order, duplicates allowed), no
   cancellation, each KeyGen goroutine woken after its last delivery => everybody returns Ok with the closed form;
   premise: the cross-check accepts the honest key list (discharged below by C18). *)
Theorem C01_dkg_honest :
  forall (S V C : Type) (add : S -> S -> S) (pub : S -> V) (H : V -> C) (C_eqb : C -> C -> bool)
         (crosscheck : list V -> bool) (tpk_of : list V -> V) (parties : list nat),
  List.NoDup parties -> (nat -> Prop) ->
  forall (dealt : nat -> nat -> S) (tr : trace S V C),
  (forall a, C_eqb a a = true) ->
  HonestRun S V C add pub H C_eqb crosscheck tpk_of parties dealt tr ->
  crosscheck (honest_keys S V add pub parties dealt) = true ->
  forall i, List.In i parties ->
  ph S V C (fin S V C add pub H C_eqb crosscheck tpk_of parties dealt tr i) =
  Done (DKGSystem.total S add parties dealt i) (honest_keys S V add pub parties dealt) (tpk_of (honest_keys S V add pub parties dealt)).
Proof. exact: DKGSystem.C01_dkg_honest. Qed.
Print Assumptions C01_dkg_honest.

Section Algebra.
Variables (F : fieldType) (G : lmodType F) (g : G).
Hypothesis g_neq0 : g != 0.
Variables (C : Type) (Hc : G -> C) (C_eqb : C -> C -> bool) (n t : nat).
Hypothesis tn : (0 < t <= n)%N.
Hypothesis sm : small F n.

(* (3) with Shamir sharing: party j deals the coefficient slice cs j (any values, at most t of them) *)
Theorem C01_dkg_honest_alg : forall (cs : nat -> seq F), (forall j, (size (cs j) <= t)%N) ->
  forall (tr : trace F G C), (forall a, C_eqb a a = true) ->
  HonestRun F G C +%R (pubk g) Hc C_eqb (cc (G:=G) n t) (tpk_of (G:=G) n t) (parties n) (dealt cs) tr ->
  forall i, (0 < i <= n)%N ->
  ph F G C (DKGSystem.fin F G C +%R (pubk g) Hc C_eqb (cc (G:=G) n t) (tpk_of (G:=G) n t) (parties n) (dealt cs) tr i) =
  Done (P n cs).[pt F i] (keys (P n cs) n g) ((P n cs).[0] *: g).
Proof. move=> cs szs tr rfl run i Pi; exact: (C01_dkg_honest_alg g_neq0 tn sm szs rfl run Pi). Qed.

(* (4) every digest, every list of >= t distinct signers of 1..n (any order): the aggregate verifies under g^p(0) *)
Theorem C01_sign : forall (G1 GT : lmodType F) (e : G -> G1 -> GT),
  (forall a Q R, e (a *: Q) R = a *: e Q R) -> (forall a Q R, e Q (a *: R) = a *: e Q R) ->
  forall (p : {poly F}) (h : G1) (pts : seq nat), (size p <= t)%N -> qualified n t pts ->
  verify e g (p.[0] *: g) h (agg_pos [seq p.[pt F x] *: h | x <- pts] pts).
Proof. move=> G1 GT e el er p h pts; exact: (C01_sign g sm el er). Qed.
End Algebra.
Print Assumptions C01_dkg_honest_alg.
Print Assumptions C01_sign.

(* Which points the code uses.  In C01_dkg_honest_alg / C01_sign the party "x" is the RANK of a participant in the session's
   sorted participant list (x = 1..n, evaluation point pt x): TBLS.Init sets id = position + 1, localGen evaluates at 1..n,
   assembleThresholdPublicKey and bls.Verifier (parties2EvalPoints[identifier] = rank) interpolate at ranks.  Identifiers
   and ranks coincide only when the participants are exactly 1..n; the check runs participant sets with gaps, not starting
   at 1 and at the 16-bit boundary.  Interpolating at identifiers instead is wrong as soon as they differ: participants
   {1,2,4}, p = 5 + 3x, signers with identifiers 1 and 4 (ranks 1 and 3) -- by computation on the executable model: *)
Theorem C01_identifier_points_refuted :
  gen_shares [:: 5; 3]%ZZ 3 = [:: 8; 11; 14]%ZZ /\
  combine2 8 14 1 3 = Ok 5%ZZ /\
  combine2 8 14 1 4 = Ok 6%ZZ.
Proof. exact: identifier_points_refuted. Qed.
Print Assumptions C01_identifier_points_refuted.

(* (1), (2): the theorems of the other engines this property composes with (re-exported, not re-proved) *)
Definition C01_uses_sessions_no_residue := @TSS.Orch.SessionFacts.no_residue.
Definition C01_uses_handover_totality := @TSS.RBC.Totality.totality.
Definition C01_uses_silent_handoff := @TSS.Box.Handoff.sequential_exactly_once_in_order.
Print Assumptions C01_uses_handover_totality.

(* non-vacuity: the executable model of one party in an honest run of n = 3, t = 2 in two different delivery orders
   (the second with early and duplicated messages): same result, keys on the line 10 + 11 x, threshold key 10 *)
Example C01_example :
  run_party 3 2 1 5%ZZ [ES 2 7; ES 3 9; EC 2 32; EC 3 43; ER 2 32; ER 3 43]%ZZ = (VOk 21%ZZ [:: 21; 32; 43]%ZZ 10%ZZ, [:: 2; 3]%N) /\
  run_party 3 2 1 5%ZZ [ER 3 43; ES 2 7; EC 3 43; ES 3 9; ES 3 1; EC 2 32; ER 2 32]%ZZ = (VOk 21%ZZ [:: 21; 32; 43]%ZZ 10%ZZ, [:: 2; 3]%N).
Proof. by vm_compute. Qed.
