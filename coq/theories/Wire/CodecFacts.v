Require Import TSS.Base.Base TSS.Wire.Codec.
From Coq Require Import Arith ZifyN ZifyBool ZifyNat.

Definition id_ok (x : N) : Prop := x < 65536.

Lemma ack_roundtrip digest sender round :
  round < 128 -> id_ok sender -> bytes_ok digest -> digest <> [] ->
  exists bs, new_rbc_encoding digest sender round = Ok bs /\ bytes_ok bs /\
             decode_mpc wire_fixed bs = Ok (DAck digest sender round).
Proof.
  intros Hr Hs Hd Hne. unfold new_rbc_encoding.
  destruct (128 <=? round) eqn:E; [apply N.leb_le in E; lia|].
  eexists; split; [reflexivity|]. split.
  - repeat constructor; try apply hi8_ok; try apply lo8_ok; try assumption. unfold byte_ok; lia.
  - unfold decode_mpc. rewrite E. destruct digest as [|d ds]; [congruence|].
    unfold hi_byte; simpl fix_hi; cbv iota.
    rewrite hi_lo_u16 by assumption. reflexivity.
Qed.

(* a data payload (MSB of first byte set) is never mistaken for an acknowledgement, and
   comes back verbatim *)
Lemma payload_roundtrip v msg :
  decode_mpc v (encode_payload msg) = Ok (DPayload msg).
Proof. reflexivity. Qed.

Lemma decode_mpc_fixed_total bs : decode_mpc wire_fixed bs <> Panic.
Proof.
  unfold decode_mpc. destruct bs as [|b0 rest]; simpl; [discriminate|].
  destruct (128 <=? b0); [discriminate|].
  destruct rest as [|b1 [|b2 [|d ds]]]; discriminate.
Qed.

(* what the decoder yields is an ack only for a first byte < 128, with a non-empty digest *)
Lemma decode_mpc_ack_shape v bs d s r :
  decode_mpc v bs = Ok (DAck d s r) -> d <> [] /\ r < 128 /\ length bs = (3 + length d)%nat.
Proof.
  unfold decode_mpc. destruct bs as [|b0 rest]; [destruct (fix_len v); discriminate|].
  destruct (128 <=? b0) eqn:E; [discriminate|].
  destruct rest as [|b1 [|b2 [|d0 ds]]]; try discriminate.
  intros H; inversion H; subst. split; [discriminate|]. split; [apply N.leb_gt in E; lia|reflexivity].
Qed.

Lemma encode_peers_ok ps : bytes_ok (encode_peers ps).
Proof. induction ps; simpl; repeat constructor; try apply lo8_ok; try apply hi8_ok; assumption. Qed.

Lemma encode_peers_length ps : length (encode_peers ps) = (2 * length ps)%nat.
Proof. induction ps; simpl; lia. Qed.

Lemma decode_encode_peers ps :
  Forall id_ok ps -> decode_peers wire_fixed (encode_peers ps) = Ok ps.
Proof.
  induction 1 as [|p ps Hp _ IH]; [reflexivity|].
  cbn [encode_peers decode_peers]. rewrite IH.
  unfold hi_byte; simpl fix_hi; cbv iota. rewrite hi_lo_u16 by assumption. reflexivity.
Qed.

Lemma firstn_app_exact {A} (a b : list A) n : length a = n -> firstn n (a ++ b) = a.
Proof. intros <-. rewrite firstn_app, Nat.sub_diag, firstn_all. simpl. apply app_nil_r. Qed.
Lemma skipn_app_exact {A} (a b : list A) n : length a = n -> skipn n (a ++ b) = b.
Proof. intros <-. rewrite skipn_app, Nat.sub_diag, skipn_all. reflexivity. Qed.

Lemma sync_roundtrip ty tag peers :
  1 <= ty <= 3 -> length tag = 32%nat -> bytes_ok tag -> Forall id_ok peers ->
  exists bs, encode_sync ty tag peers = Ok bs /\ bytes_ok bs /\
             decode_sync wire_fixed bs = Ok (ty, tag, peers).
Proof.
  intros Hty Hlen Htag Hp. unfold encode_sync. rewrite Hlen. simpl negb.
  assert (E : (ty <? 1) || (3 <? ty) = false).
  { apply orb_false_iff; split; apply N.ltb_ge; lia. }
  rewrite E. eexists; split; [reflexivity|]. split.
  - constructor; [unfold byte_ok; lia|]. apply Forall_app; split; [assumption|apply encode_peers_ok].
  - unfold decode_sync. cbn [length]. rewrite app_length, Hlen. simpl fix_len. cbv iota.
    replace (Nat.ltb (S (32 + length (encode_peers peers))) 33) with false
      by (symmetry; apply Nat.ltb_ge; lia).
    rewrite E.
    rewrite skipn_app_exact, firstn_app_exact by assumption.
    rewrite decode_encode_peers by assumption. reflexivity.
Qed.

Lemma list_pair_ind {A} (P : list A -> Prop) :
  P [] -> (forall a, P [a]) -> (forall a b l, P l -> P (a :: b :: l)) -> forall l, P l.
Proof. intros H0 H1 H2. fix IH 1. intros [|a [|b l]]; [exact H0|apply H1|apply H2; apply IH]. Qed.

Lemma decode_peers_fixed_total bs : decode_peers wire_fixed bs <> Panic.
Proof.
  induction bs as [|a|a b rest IHr] using list_pair_ind; cbn [decode_peers].
  - discriminate.
  - simpl. discriminate.
  - destruct (decode_peers wire_fixed rest); try discriminate. congruence.
Qed.

Lemma decode_sync_fixed_total bs : decode_sync wire_fixed bs <> Panic.
Proof.
  unfold decode_sync. simpl fix_len. cbv iota.
  destruct (Nat.ltb (length bs) 33) eqn:E; [discriminate|].
  destruct bs as [|ty rest]; [discriminate|].
  destruct ((ty <? 1) || (3 <? ty)); [discriminate|].
  pose proof (decode_peers_fixed_total (skipn 32 rest)).
  destruct (decode_peers wire_fixed (skipn 32 rest)); try discriminate. congruence.
Qed.

(* the preimage of the membership topic is injective on 16-bit identifier lists *)
Lemma membership_topic_inj a b :
  Forall id_ok a -> Forall id_ok b ->
  membership_topic_bytes a = membership_topic_bytes b -> a = b.
Proof.
  unfold membership_topic_bytes. revert b.
  induction a as [|x a IH]; intros [|y b] Ha Hb E; simpl in E; try discriminate; [reflexivity|].
  inversion Ha; inversion Hb; subst. inversion E.
  f_equal.
  - rewrite <- (hi_lo_u16 x), <- (hi_lo_u16 y) by assumption. congruence.
  - apply IH; assumption.
Qed.

(* The pinned upstream decoders lose the high byte: refutations by computation. *)
Lemma ack_roundtrip_tree_refuted :
  exists digest sender round bs,
    round < 128 /\ id_ok sender /\ digest <> [] /\
    new_rbc_encoding digest sender round = Ok bs /\
    decode_mpc wire_tree bs = Ok (DAck digest 0 round) /\ sender <> 0.
Proof.
  exists [7], 256, 1. eexists. repeat split; try reflexivity; try discriminate.
Qed.

Lemma sync_roundtrip_tree_refuted :
  exists tag peers bs,
    length tag = 32%nat /\ Forall id_ok peers /\
    encode_sync 1 tag peers = Ok bs /\
    decode_sync wire_tree bs = Ok (1, tag, [0]) /\ peers <> [0].
Proof.
  exists (repeat 0 32), [256]. eexists. split; [reflexivity|]. split; [repeat constructor|].
  split; [reflexivity|]. split; [reflexivity|discriminate].
Qed.

Lemma decode_mpc_tree_panics : decode_mpc wire_tree [] = Panic.
Proof. reflexivity. Qed.
Lemma decode_sync_tree_panics :
  decode_sync wire_tree (1 :: repeat 0 31) = Panic /\
  decode_sync wire_tree (1 :: repeat 0 33) = Panic.
Proof. split; reflexivity. Qed.
