(* Wire formats of IBM/TSS that carry identifiers:
   - threshold/threshold.go: newRBCEncoding / rbcEncoding.Ack / rbcEncoding.Payload
   - disc/discovery.go: encodeTagAndMembershipList / decodeTagAndMembershipList
   - threshold/threshold.go: membershipSyncTopicName (bytes fed to SHA-256)
   Go integer widths are written out.  The variant flag [fix_hi] selects between the
   pinned upstream behaviour (false: `uint16(b<<8)` evaluated on a byte, which is 0) and the
   repaired behaviour (true: `uint16(b)<<8`). [fix_len] selects the repaired length checks. *)
Require Import TSS.Base.Base.

Record wire_variant := { fix_hi : bool; fix_len : bool }.
Definition wire_tree  := {| fix_hi := false; fix_len := false |}.
Definition wire_fixed := {| fix_hi := true;  fix_len := true  |}.

(* ---- acknowledgement encoding ---------------------------------------------------- *)

(* newRBCEncoding(digest, sender, msgRound): panics unless round is a uint7 *)
Definition new_rbc_encoding (digest : bytes) (sender round : N) : outcome bytes :=
  if 128 <=? round then Panic
  else Ok (round :: hi8 sender :: lo8 sender :: digest).

Inductive decoded : Type :=
| DAck (digest : bytes) (sender round : N)
| DPayload (p : bytes).

Definition hi_byte (v : wire_variant) (b : N) : N :=
  if fix_hi v then b * 256 else (b * 256) mod 256.

(* rbcEncoding(data).Ack() followed by the `len(digest) > 0` branch of handleMPC,
   and rbcEncoding.Payload() = r[1:] on the other branch. *)
Definition decode_mpc (v : wire_variant) (r : bytes) : outcome decoded :=
  match r with
  | [] => if fix_len v then Err else Panic                       (* r[0] on empty data *)
  | b0 :: rest =>
      if 128 <=? b0 then Ok (DPayload rest)
      else match rest with
           | b1 :: b2 :: d :: ds => Ok (DAck (d :: ds) (hi_byte v b1 + b2) b0)
           | _ => Err                                              (* shorter than 4 bytes *)
           end
  end.

(* payload framing used by initializeDKG / initializeThresholdSigning: 0xFF ‖ msg *)
Definition encode_payload (msg : bytes) : bytes := 255 :: msg.

(* ---- synchroniser encoding ------------------------------------------------------- *)

Fixpoint encode_peers (peers : list N) : bytes :=
  match peers with
  | [] => []
  | p :: ps => lo8 p :: hi8 p :: encode_peers ps
  end.

Definition encode_sync (ty : N) (tag : bytes) (peers : list N) : outcome bytes :=
  if negb (N.of_nat (length tag) =? 32) then Panic
  else if (ty <? 1) || (3 <? ty) then Panic
  else Ok (ty :: tag ++ encode_peers peers).

(* the loop `for offset < len(msg) { msg[offset+1]<<8 + msg[offset] }` *)
Fixpoint decode_peers (v : wire_variant) (bs : bytes) : outcome (list N) :=
  match bs with
  | [] => Ok []
  | [_] => if fix_len v then Err else Panic                       (* msg[offset+1] beyond the end *)
  | lo :: hi :: rest =>
      match decode_peers v rest with
      | Ok ps => Ok ((hi_byte v hi + lo) :: ps)
      | Err => Err
      | Panic => Panic
      end
  end.

(* decodeTagAndMembershipList; slices are taken with cap = len (what readMsg allocates) *)
Definition decode_sync (v : wire_variant) (msg : bytes) : outcome (N * bytes * list N) :=
  let n := length msg in
  if Nat.ltb n (if fix_len v then 33 else 32) then Err
  else match msg with
  | [] => Err
  | ty :: rest =>
      if (ty <? 1) || (3 <? ty) then Err
      else if Nat.ltb n 33 then Panic                              (* msg[1:33] with len 32 *)
      else match decode_peers v (skipn 32 rest) with
           | Ok ps => Ok (ty, firstn 32 rest, ps)
           | Err => Err
           | Panic => Panic
           end
  end.

(* ---- membership topic preimage ---------------------------------------------------- *)
(* membershipSyncTopicName writes {uint8(m), uint8(m>>8)} per member into SHA-256 *)
Definition membership_topic_bytes (members : list N) : bytes := encode_peers members.
