(* Correspondence evaluation for the "ps" engine (C08, C09).

   The tie is verdict-level.  The Go harness records, for every scenario (class + parameters), whether the real
   code accepted.  Here the SAME Gallina functions that the theorems of Alg/PS.v, Alg/Sigma.v and Alg/BLSVerify.v
   are about (blind, prove_blinding, verify_request, sign_blind, unblind_point, prove_knowledge, verify_pok,
   dkg_sk, agg_pk, bls_verify, bls_aggregate ...) are executed with vm_compute on the same abstract scenario in a
   toy instance of the ideal-group model:
     scalars  F = Z/31, G1 = G2 = GT = F as a module over itself ("exponent space": every group element is
     represented by its discrete logarithm), pairing e(a,b) = a*b, fixed non-zero generators, hash functions
     and random oracles = fixed polynomial maps forced to be non-zero, nonces = fixed non-zero values depending
     on the session number.
   Nothing of the real run's random values enters: what is compared is accept/reject per scenario class.
   (For components bound only through a random oracle the model's "reject" is generic-case behaviour of the toy
   oracle, cf. the _partial remarks in Props/C09.v.) *)
From mathcomp Require Import all_ssreflect all_algebra.
From TSS Require Import Alg.Lagrange Alg.PS Alg.Sigma Alg.BLSVerify.
Set Implicit Arguments. Unset Strict Implicit. Unset Printing Implicit Defensive.
Import GRing.Theory.
Open Scope ring_scope.

Definition TF : fieldType := [fieldType of 'F_31].
Definition TG : lmodType TF := [lmodType TF of TF^o].

Definition nz (x : TF) : TF := if x == 0 then 1 else x.
Definition te (a b : TG) : TG := (a : TF) * (b : TF).
Definition tHm (x : TG) : TF := nz ((x : TF) * x + 3%:R).
Definition tHG (x : TG) : TG := nz ((x : TF) * x * x + x + 5%:R).
Definition tRO1 (l : seq TG) : TF := nz (foldl (fun acc v => acc * 7%:R + (v : TF) + 1) 2%:R l).
Definition tRO2 (l : seq (TG + TG)) : TF :=
  nz (foldl (fun acc v => acc * 5%:R + (match v with inl a => (a : TF) + 2%:R | inr b => (b : TF) * 3%:R end) + 1) 3%:R l).

Definition tpp (L : nat) : pparams TG TG := PP (3%:R : TG) (5%:R : TG) (mkseq (fun i => (7 + 2 * i)%:R : TG) L.+1) (2%:R : TG).

Definition nonce (s k : nat) : TF := nz ((5 + 3 * k + 11 * s)%:R).
(* The toy field is small, so a toy run can hit a coincidence the real field never shows (a perturbation that happens to be
   consistent, a secret that happens to be 0, a toy hash collision: about 0.4% of the scenarios).  Every scenario is therefore
   evaluated in three independent toy "worlds" w = 0,1,2 (different nonces, message scalars and dealt polynomials).  Honest
   scenarios are accepted in every world (that is what the completeness theorems say), so the prediction is
   "accept iff accepted in all three worlds".  Session numbers and DKG offsets carry the world: s + 10*w, off + 2*w. *)
Definition world_of (s : nat) : nat := s %/ 10.
Definition msgs_w (w : nat) (pat : seq nat) : seq TF := [seq nz ((4 * p + 9 + 13 * w)%:R) | p <- pat].

(* ---- one blinded request of session s ---- *)
Definition t_blind (L s : nat) (pat : seq nat) :=
  let n := L.+1 in
  blind tHm tHG tRO1 (tpp L) (msgs_w (world_of s) pat) (nonce s 0) (nonce s 1)
        (mkseq (fun i => nonce s (3 + i)) n) (mkseq (fun i => nonce s (10 + i)) n) (mkseq (fun i => nonce s (20 + i)) n)
        (nonce s 2).

Definition t_verify (L : nat) (r : request TG) : bool * bool :=
  let v1 := verify_request tHm tHG tRO1 true (tpp L) r in
  (v1.1, (verify_request tHm tHG tRO1 true (tpp L) v1.2).1).

(* pinned variant (fix_copy = false), for the regression theorem *)
Definition t_verify_pinned (L : nat) (r : request TG) : bool * bool :=
  let v1 := verify_request tHm tHG tRO1 false (tpp L) r in
  (v1.1, (verify_request tHm tHG tRO1 false (tpp L) v1.2).1).

Inductive pertk := Pnone | Pplus | Pswap | Pzero.
(* a perturbation must change the value: when the toy value happens to coincide with its replacement (already 0, or equal
   to the other session's value: a 1/31 coincidence of the toy field) the generator is added instead *)
Definition pertv (V : zmodType) (k : pertk) (x other gen : V) : V :=
  let y := match k with Pnone => x | Pplus => x + gen | Pswap => other | Pzero => 0 end in
  if (y == x) && (match k with Pnone => false | _ => true end) then x + gen else y.
Definition pertn (V : zmodType) (k : pertk) (s o : seq V) (i : nat) (gen : V) : seq V :=
  match k with Pnone => s | _ => set_nth 0 s i (pertv k s`_i o`_i gen) end.

Inductive rcomp := Rcm | Ru | Rmp | Ra | Rb | Rx | Ry | Rs | Rz | Rd | Rf.

Definition perturb_req (g : TG) (r o : request TG) (c : rcomp) (i : nat) (k : pertk) : request TG :=
  let xi := rxi r in let xo := rxi o in
  match c with
  | Rcm => Req xi (pertv k (rcm r) (rcm o) g) (rmp r) (ru r) (ra r) (rb r)
  | Ru => Req xi (rcm r) (rmp r) (pertv k (ru r) (ru o) g) (ra r) (rb r)
  | Rmp => Req xi (rcm r) (pertv k (rmp r) (rmp o) 1) (ru r) (ra r) (rb r)
  | Ra => Req xi (rcm r) (rmp r) (ru r) (pertn k (ra r) (ra o) i g) (rb r)
  | Rb => Req xi (rcm r) (rmp r) (ru r) (ra r) (pertn k (rb r) (rb o) i g)
  | Rx => Req (BProof (pertn k (bx xi) (bx xo) i 1) (by_ xi) (bs xi) (bz xi) (bd xi) (bf xi)) (rcm r) (rmp r) (ru r) (ra r) (rb r)
  | Ry => Req (BProof (bx xi) (pertn k (by_ xi) (by_ xo) i 1) (bs xi) (bz xi) (bd xi) (bf xi)) (rcm r) (rmp r) (ru r) (ra r) (rb r)
  | Rs => Req (BProof (bx xi) (by_ xi) (pertv k (bs xi) (bs xo) g) (bz xi) (bd xi) (bf xi)) (rcm r) (rmp r) (ru r) (ra r) (rb r)
  | Rz => Req (BProof (bx xi) (by_ xi) (bs xi) (pertv k (bz xi) (bz xo) 1) (bd xi) (bf xi)) (rcm r) (rmp r) (ru r) (ra r) (rb r)
  | Rd => Req (BProof (bx xi) (by_ xi) (bs xi) (bz xi) (pertn k (bd xi) (bd xo) i g) (bf xi)) (rcm r) (rmp r) (ru r) (ra r) (rb r)
  | Rf => Req (BProof (bx xi) (by_ xi) (bs xi) (bz xi) (bd xi) (pertn k (bf xi) (bf xo) i g)) (rcm r) (rmp r) (ru r) (ra r) (rb r)
  end.

Definition req_case (w L : nat) (pat pat2 : seq nat) (c : rcomp) (i : nat) (k : pertk) : bool * bool :=
  t_verify L (perturb_req (pg (tpp L)) (t_blind L (1 + 10 * w) pat).1 (t_blind L (2 + 10 * w) pat2).1 c i k).

(* a prover lying about one witness: lie 0 none, 1 a_i, 2 b_i, 3 the commitment randomness; 4 a simulated proof without
   witnesses (responses first, commitments solved for the guessed challenge 1: accepted only if the challenge is 1);
   compensating alterations of components i and i+1 (cyclically), +d and -d, so that sums / products over the vector are
   preserved: 5 a (before proving), 6 b (before proving), 7 f, 8 d, 9 x, 10 y (in the finished proof) *)
Definition forged_request (w L : nat) (pat : seq nat) (lie i : nat) : request TG :=
  let pp := tpp L in let n := L.+1 in let s := (1 + 10 * w)%N in
  let m := msgs_w w pat in
  let rc := nonce s 0 in let z := nonce s 1 in
  let r := mkseq (fun i => nonce s (3 + i)) n in
  let u := z *: pg pp in
  let cm0 := commit pp rc m in
  let mp := tHm cm0 in
  let cm := full_cm tHm pp cm0 in
  let h := tHG cm in
  let msg := rcons m mp in
  let ab := encrypt pp n msg r h u in
  let j := ((i + 1) %% n)%N in
  let comp (V : zmodType) (v : seq V) (d : V) : seq V := bump (bump v i d) j (- d) in
  let a := if lie == 1%N then bump ab.1 i (pg pp) else if lie == 5%N then comp _ ab.1 (pg pp) else ab.1 in
  let b := if lie == 2%N then bump ab.2 i (pg pp) else if lie == 6%N then comp _ ab.2 (pg pp) else ab.2 in
  let rc' := if lie == 3%N then rc + 1 else rc in
  let xi := prove_blinding tRO1 n msg r a b rc' (pg pp) (pg0 pp) h u cm (pgs pp)
              (mkseq (fun i => nonce s (10 + i)) n) (mkseq (fun i => nonce s (20 + i)) n) (nonce s 2) in
  let xs := mkseq (fun i => nonce s (50 + i)) n in let ys := mkseq (fun i => nonce s (60 + i)) n in let zs := nonce s 49 in
  let sim := BProof xs ys (zs *: pg0 pp + lin n ys (pgs pp) - cm) zs
                    (mkseq (fun i => xs`_i *: u + ys`_i *: h - b`_i) n) (mkseq (fun i => xs`_i *: pg pp - a`_i) n) in
  let xi2 := match lie with
             | 7 => BProof (bx xi) (by_ xi) (bs xi) (bz xi) (bd xi) (comp _ (bf xi) (pg pp))
             | 8 => BProof (bx xi) (by_ xi) (bs xi) (bz xi) (comp _ (bd xi) (pg pp)) (bf xi)
             | 9 => BProof (comp _ (bx xi) 1) (by_ xi) (bs xi) (bz xi) (bd xi) (bf xi)
             | 10 => BProof (bx xi) (comp _ (by_ xi) 1) (bs xi) (bz xi) (bd xi) (bf xi)
             | _ => xi end in
  Req (if lie == 4%N then sim else xi2) cm0 mp u a b.

Definition reqforge_case (w L : nat) (pat : seq nat) (lie i : nat) : bool * bool := t_verify L (forged_request w L pat lie i).

(* ---- DKG and proofs of knowledge ---- *)
Definition t_deals (N t n off : nat) : seq (dealing TF) :=
  [seq Deal (mkseq (fun k => nz ((1 + 7 * j + 5 * k + 13 * off)%:R)) t)
            (mkseq (fun c => mkseq (fun k => nz ((2 + 7 * j + 3 * c.+1 + 5 * k + 13 * off)%:R)) t) n)
  | j <- iota 1 N].

(* off = 0: the key the proofs are made for; off = 1: the key of another DKG; the world w shifts both *)
Definition t_tpk (w N t L off : nat) : pkey TG :=
  agg_pk L.+1 (dkg_pks (tpp L) L.+1 N (t_deals N t L.+1 (off + 2 * w))) (iota 1 t).

Definition t_witness (w N t L s : nat) (pat : seq nat) (k : nat) : TG :=
  let bl := t_blind L (s + 10 * w) pat in
  unblind_point (apply_sk tHm tHG (tpp L) bl.1 (dkg_sk L.+1 (t_deals N t L.+1 (2 * w)) k)) (sz bl.2).

Definition t_pok (w N t L s : nat) (pat : seq nat) (S : seq nat) (ws : seq TG) : sigpok TG TG :=
  let s' := (s + 10 * w)%N in
  prove_knowledge tRO2 (tpp L) (t_tpk w N t L 0) (t_blind L s' pat).2 S ws
    (nonce s' 30) (nonce s' 31) (nonce s' 32) (mkseq (fun i => nonce s' (40 + i)) L.+1).

Definition t_verify_pok (L : nat) (tpk : pkey TG) (p : sigpok TG TG) : bool * bool :=
  (verify_pok te tRO2 (tpp L) tpk p, verify_pok te tRO2 (tpp L) tpk p).

Inductive pcomp := Qx | Qy | QGamma | QPhi | Qhe | Qhpe | Qnu | Qkappa.

Definition perturb_pok (g1 g2 : TG) (p o : sigpok TG TG) (c : pcomp) (i : nat) (k : pertk) : sigpok TG TG :=
  let s := kpsi p in let so := kpsi o in
  match c with
  | Qx => SigPoK (PokP (pertn k (qx s) (qx so) i 1) (qy s) (qGamma s) (qPhi s)) (khe p) (khpe p) (knu p) (kkappa p)
  | Qy => SigPoK (PokP (qx s) (pertv k (qy s) (qy so) 1) (qGamma s) (qPhi s)) (khe p) (khpe p) (knu p) (kkappa p)
  | QGamma => SigPoK (PokP (qx s) (qy s) (pertv k (qGamma s) (qGamma so) g2) (qPhi s)) (khe p) (khpe p) (knu p) (kkappa p)
  | QPhi => SigPoK (PokP (qx s) (qy s) (qGamma s) (pertv k (qPhi s) (qPhi so) g1)) (khe p) (khpe p) (knu p) (kkappa p)
  | Qhe => SigPoK s (pertv k (khe p) (khe o) g1) (khpe p) (knu p) (kkappa p)
  | Qhpe => SigPoK s (khe p) (pertv k (khpe p) (khpe o) g1) (knu p) (kkappa p)
  | Qnu => SigPoK s (khe p) (khpe p) (pertv k (knu p) (knu o) g1) (kkappa p)
  | Qkappa => SigPoK s (khe p) (khpe p) (knu p) (pertv k (kkappa p) (kkappa o) g2)
  end.

Definition honest_ws (w N t L s : nat) (pat : seq nat) (S : seq nat) : seq TG := [seq t_witness w N t L s pat k | k <- S].

Definition pok_case (w N t L : nat) (pat pat2 : seq nat) (S : seq nat) (c : pcomp) (i : nat) (k : pertk) : bool * bool :=
  let p1 := t_pok w N t L 1 pat S (honest_ws w N t L 1 pat S) in
  let p2 := t_pok w N t L 2 pat2 S (honest_ws w N t L 2 pat2 S) in
  t_verify_pok L (t_tpk w N t L 0) (perturb_pok (pg (tpp L)) (pg2 (tpp L)) p1 p2 c i k).

(* variants: 0 honest (also: fewer than t signers), 1 key of another DKG, 2 witnesses rotated against the signer list,
   3 witness i taken from the other session *)
Definition pokthr_case (w N t L : nat) (pat pat2 : seq nat) (S : seq nat) (variant i : nat) : bool * bool :=
  let ws := honest_ws w N t L 1 pat S in
  let ws' := match variant with
             | 2 => rot 1 ws
             | 3 => set_nth 0 ws i (t_witness w N t L 2 pat2 (nth 0%N S i))
             | _ => ws end in
  t_verify_pok L (t_tpk w N t L (variant == 1%N)) (t_pok w N t L 1 pat S ws').

(* forged proofs under one (non-threshold) key: lie 0 none, 1 nu made with another delta (h'^eps adjusted so that the
   pairing equation still holds), 2 eps = 0 *)
Definition pokforge_case (w L : nat) (pat : seq nat) (lie : nat) : bool * bool :=
  let pp := tpp L in let n := L.+1 in let s := (1 + 10 * w)%N in
  let sk := SK (nz (17 + w)%:R) (mkseq (fun j => nz ((4 + 6 * j + 5 * w)%:R)) n) in
  let pk := pk_of pp sk in
  let bl := t_blind L s pat in
  let h := sh bl.2 in let msg := smsg bl.2 in
  let h' := unblind_point (apply_sk tHm tHG pp bl.1 sk) (sz bl.2) in
  let eps := if lie == 2%N then 0 else nonce s 30 in
  let delta := nonce s 31 in let mu := nonce s 32 in let gam := mkseq (fun i => nonce s (40 + i)) n in
  let p := if lie == 1%N then
             let delta' := delta + 1 in
             let kappa := pkX pk + lin (size (pkY pk)) msg (pkY pk) + delta *: pg2 pp in
             let he := eps *: h in
             let nu := delta' *: he in
             let hpe := eps *: h' + (delta - delta') *: he in
             SigPoK (prove_pok tRO2 msg delta nu he kappa (pg2 pp) (pkX pk) (pkY pk) mu gam) he hpe nu kappa
           else pok_of_sig tRO2 pp pk h h' msg eps delta mu gam in
  t_verify_pok L pk p.

(* ---- which arguments the oracle calls hash: comp 0 d_i, 1 f_i, 2 a_i, 3 b_i, 4 s, 5 cm, 6 g, 7 g0, 8 h, 9 u,
        10 gs_i (not an argument of the model's oracle input at all) ---- *)
Definition oracle_blind_changed (L : nat) (pat : seq nat) (comp i : nat) : bool :=
  let pp := tpp L in let n := L.+1 in
  let r := (t_blind L 1 pat).1 in let xi := rxi r in
  let cm := req_cm tHm pp r in let h := req_h tHm tHG pp r in let g := pg pp in
  let base := ro_blind_input n (bd xi) (bf xi) (bs xi) (ra r) (rb r) cm g (pg0 pp) h (ru r) in
  let new := match comp with
    | 0 => ro_blind_input n (bump (bd xi) i g) (bf xi) (bs xi) (ra r) (rb r) cm g (pg0 pp) h (ru r)
    | 1 => ro_blind_input n (bd xi) (bump (bf xi) i g) (bs xi) (ra r) (rb r) cm g (pg0 pp) h (ru r)
    | 2 => ro_blind_input n (bd xi) (bf xi) (bs xi) (bump (ra r) i g) (rb r) cm g (pg0 pp) h (ru r)
    | 3 => ro_blind_input n (bd xi) (bf xi) (bs xi) (ra r) (bump (rb r) i g) cm g (pg0 pp) h (ru r)
    | 4 => ro_blind_input n (bd xi) (bf xi) (bs xi + g) (ra r) (rb r) cm g (pg0 pp) h (ru r)
    | 5 => ro_blind_input n (bd xi) (bf xi) (bs xi) (ra r) (rb r) (cm + g) g (pg0 pp) h (ru r)
    | 6 => ro_blind_input n (bd xi) (bf xi) (bs xi) (ra r) (rb r) cm (g + g) (pg0 pp) h (ru r)
    | 7 => ro_blind_input n (bd xi) (bf xi) (bs xi) (ra r) (rb r) cm g (pg0 pp + g) h (ru r)
    | 8 => ro_blind_input n (bd xi) (bf xi) (bs xi) (ra r) (rb r) cm g (pg0 pp) (h + g) (ru r)
    | 9 => ro_blind_input n (bd xi) (bf xi) (bs xi) (ra r) (rb r) cm g (pg0 pp) h (ru r + g)
    | _ => base
    end in
  new != base.

(* comp 0 Gamma, 1 Phi, 2 nu, 3 he, 4 g2, 5 X, 6 kappa, 7 Y_i *)
Definition oracle_pok_changed (L : nat) (pat : seq nat) (comp i : nat) : bool :=
  let pp := tpp L in let n := L.+1 in
  let sk := SK (nz 17%:R) (mkseq (fun j => nz ((4 + 6 * j)%:R)) n) in
  let pk := pk_of pp sk in
  let bl := t_blind L 1 pat in
  let h' := unblind_point (apply_sk tHm tHG pp bl.1 sk) (sz bl.2) in
  let p := pok_of_sig tRO2 pp pk (sh bl.2) h' (smsg bl.2) (nonce 1 30) (nonce 1 31) (nonce 1 32) (mkseq (fun i => nonce 1 (40 + i)) n) in
  let s := kpsi p in let g := pg pp in
  let base := ro_pok_input (qGamma s) (qPhi s) (knu p) (khe p) (pg2 pp) (pkX pk) (kkappa p) (pkY pk) in
  let new := match comp with
    | 0 => ro_pok_input (qGamma s + g) (qPhi s) (knu p) (khe p) (pg2 pp) (pkX pk) (kkappa p) (pkY pk)
    | 1 => ro_pok_input (qGamma s) (qPhi s + g) (knu p) (khe p) (pg2 pp) (pkX pk) (kkappa p) (pkY pk)
    | 2 => ro_pok_input (qGamma s) (qPhi s) (knu p + g) (khe p) (pg2 pp) (pkX pk) (kkappa p) (pkY pk)
    | 3 => ro_pok_input (qGamma s) (qPhi s) (knu p) (khe p + g) (pg2 pp) (pkX pk) (kkappa p) (pkY pk)
    | 4 => ro_pok_input (qGamma s) (qPhi s) (knu p) (khe p) (pg2 pp + g) (pkX pk) (kkappa p) (pkY pk)
    | 5 => ro_pok_input (qGamma s) (qPhi s) (knu p) (khe p) (pg2 pp) (pkX pk + g) (kkappa p) (pkY pk)
    | 6 => ro_pok_input (qGamma s) (qPhi s) (knu p) (khe p) (pg2 pp) (pkX pk) (kkappa p + g) (pkY pk)
    | _ => ro_pok_input (qGamma s) (qPhi s) (knu p) (khe p) (pg2 pp) (pkX pk) (kkappa p) (bump (pkY pk) i g)
    end in
  new != base.

(* ---- C08: the complete run ---- *)
Definition complete_request (w L : nat) (pat : seq nat) : bool := (t_verify L (t_blind L (1 + 10 * w) pat).1).1.
Definition complete_unblind (w N t L : nat) (pat : seq nat) (k : nat) : bool :=
  let pp := tpp L in let bl := t_blind L (1 + 10 * w) pat in
  let deals := t_deals N t L.+1 (2 * w) in
  let sk := dkg_sk L.+1 deals k in
  isSome (unblind te pp (nth (PK 0 [::]) (dkg_pks pp L.+1 N deals) k.-1)
                  (apply_sk tHm tHG pp bl.1 sk) (sh bl.2) (smsg bl.2) (sz bl.2)).
Definition complete_pok (w N t L : nat) (pat : seq nat) (S : seq nat) : bool :=
  (pokthr_case w N t L pat pat S 0 0).1.
(* every party computes the same key whichever t-subset it aggregates (compared component-wise) *)
Definition complete_dkg_equal (w N t L : nat) (T : seq nat) : bool :=
  let pp := tpp L in let n := L.+1 in
  let deals := t_deals N t n (2 * w) in
  let k1 := t_tpk w N t L 0 in
  let k2 := agg_pk n (dkg_pks pp n N deals) T in
  let k0 := pk_of pp (dkg_sk n deals 0) in
  [&& pkX k1 == pkX k2, pkY k1 == pkY k2, pkX k1 == pkX k0 & pkY k1 == pkY k0].

(* ---- BLS ---- *)
Definition tH (mid : nat) : TG := nz ((6 * mid + 4)%:R).
Definition bls_deals (N t off : nat) : seq (seq TF) :=
  [seq mkseq (fun k => nz ((4 + 5 * j + 7 * k + 11 * off)%:R)) t | j <- iota 1 N].
Definition bls_sk (N t off k : nat) : TF := foldr (fun cs acc => evalp cs k%:R + acc) 0 (bls_deals N t off).
Definition t_bls_verify (pk : TG) (mid : nat) (sig : TG) : bool := bls_verify te (2%:R : TG) tH pk mid sig.
Definition t_bls_shares (w N t mid : nat) (S : seq nat) : seq TG := [seq bls_sign tH (bls_sk N t (2 * w) k) (mid + 2 * w)%N | k <- S].
(* variants: 0 honest (also below t), 1 message changed, 2 share i + generator, 3 aggregate + generator, 4 aggregate := 0,
   5 aggregate of another message, 6 key of another DKG, 7 shares rotated against the signer list *)
Definition bls_case (w N t : nat) (S : seq nat) (variant i : nat) : bool * bool :=
  let g2 : TG := 2%:R in let g1 : TG := 3%:R in
  let tpk := bls_sk N t ((variant == 6%N) + 2 * w) 0 *: g2 in
  let shares := t_bls_shares w N t 1 S in
  let shares' := match variant with
                 | 2 => bump shares i g1
                 | 7 => rot 1 shares
                 | _ => shares end in
  let agg := bls_aggregate S shares' in
  let agg' := match variant with
              | 3 => agg + g1
              | 4 => pertv Pzero agg agg g1
              | 5 => pertv Pswap agg (bls_aggregate S (t_bls_shares w N t 2 S)) g1
              | _ => agg end in
  let mid := ((if variant == 1%N then 2 else 1) + 2 * w)%N in
  (t_bls_verify tpk mid agg', t_bls_verify tpk mid agg').

(* (signer, share) pairs as handed to Verifier.AggregateSignatures: the k-th share was made by party makers[k] and is
   combined under signers[k], in the given order (any order, duplicates and foreign makers included) *)
Definition bls_pairs_case (w N t : nat) (signers makers : seq nat) : bool * bool :=
  let g2 : TG := 2%:R in
  let tpk := bls_sk N t (2 * w) 0 *: g2 in
  let mid := (1 + 2 * w)%N in
  let agg := bls_aggregate signers [seq bls_sign tH (bls_sk N t (2 * w) k) mid | k <- makers] in
  (t_bls_verify tpk mid agg, t_bls_verify tpk mid agg).

(* ---- cases as produced by checks/ps.py ---- *)
Inductive pcase :=
| KReq (L : nat) (pat pat2 : seq nat) (c : rcomp) (i : nat) (k : pertk) (v1 v2 : bool)
| KReqForge (L : nat) (pat : seq nat) (lie i : nat) (v1 v2 : bool)
| KPok (N t L : nat) (pat pat2 : seq nat) (S : seq nat) (c : pcomp) (i : nat) (k : pertk) (v1 v2 : bool)
| KPokThr (N t L : nat) (pat pat2 : seq nat) (S : seq nat) (variant i : nat) (v1 v2 : bool)
| KPokForge (L : nat) (pat : seq nat) (lie : nat) (v1 v2 : bool)
| KOracle (pok : bool) (L : nat) (pat : seq nat) (comp i : nat) (changed : bool)
| KCReq (L : nat) (pat : seq nat) (v : bool)
| KCUnblind (N t L : nat) (pat : seq nat) (k : nat) (v : bool)
| KCPok (N t L : nat) (pat : seq nat) (S : seq nat) (v : bool)
| KCDkg (N t L : nat) (T : seq nat) (v : bool)
| KBls (N t : nat) (S : seq nat) (variant i : nat) (v1 v2 : bool)
| KBlsPairs (N t : nat) (signers makers : seq nat) (v1 v2 : bool).

Definition worlds : seq nat := [:: 0; 1; 2]%N.
(* accepted in all worlds? *)
Definition all_w (f : nat -> bool * bool) : bool * bool := (all (fun w => (f w).1) worlds, all (fun w => (f w).2) worlds).
Definition all_w1 (f : nat -> bool) : bool := all f worlds.
Definition eqb2 (p : bool * bool) (v1 v2 : bool) : bool := (p.1 == v1) && (p.2 == v2).

Definition check (c : pcase) : bool :=
  match c with
  | KReq L pat pat2 c i k v1 v2 => eqb2 (all_w (fun w => req_case w L pat pat2 c i k)) v1 v2
  | KReqForge L pat lie i v1 v2 => eqb2 (all_w (fun w => reqforge_case w L pat lie i)) v1 v2
  | KPok N t L pat pat2 sg c i k v1 v2 => eqb2 (all_w (fun w => pok_case w N t L pat pat2 sg c i k)) v1 v2
  | KPokThr N t L pat pat2 sg variant i v1 v2 => eqb2 (all_w (fun w => pokthr_case w N t L pat pat2 sg variant i)) v1 v2
  | KPokForge L pat lie v1 v2 => eqb2 (all_w (fun w => pokforge_case w L pat lie)) v1 v2
  | KOracle pok L pat comp i ch => (if pok then oracle_pok_changed L pat comp i else oracle_blind_changed L pat comp i) == ch
  | KCReq L pat v => all_w1 (fun w => complete_request w L pat) == v
  | KCUnblind N t L pat k v => all_w1 (fun w => complete_unblind w N t L pat k) == v
  | KCPok N t L pat sg v => all_w1 (fun w => complete_pok w N t L pat sg) == v
  | KCDkg N t L T v => all_w1 (fun w => complete_dkg_equal w N t L T) == v
  | KBls N t sg variant i v1 v2 => eqb2 (all_w (fun w => bls_case w N t sg variant i)) v1 v2
  | KBlsPairs N t sg mk v1 v2 => eqb2 (all_w (fun w => bls_pairs_case w N t sg mk)) v1 v2
  end.

Fixpoint mismatches_from (l : seq pcase) (i : nat) : seq nat :=
  match l with
  | [::] => [::]
  | c :: r => if check c then mismatches_from r i.+1 else i :: mismatches_from r i.+1
  end.
Definition mismatches (l : seq pcase) : seq nat := mismatches_from l 0.

(* ---- the regression witness of the aliasing defect: on the pinned variant an honest request is accepted the
        first time and rejected the second time; the repaired variant accepts twice ---- *)
Lemma pinned_second_verification_fails :
  t_verify_pinned 2 (t_blind 2 1 [:: 1%N; 2%N]).1 = (true, false) /\
  t_verify 2 (t_blind 2 1 [:: 1%N; 2%N]).1 = (true, true).
Proof. by split; vm_compute. Qed.

(* ---- the toy instance satisfies the premises of the theorems (used by the non-vacuity examples) ---- *)
Lemma te_Dl (a a' b : TG) : te (a + a') b = te a b + te a' b.
Proof. by rewrite /te mulrDl. Qed.
Lemma te_Dr (a b b' : TG) : te a (b + b') = te a b + te a b'.
Proof. by rewrite /te mulrDr. Qed.
Lemma te_Zl (c : TF) (a b : TG) : te (c *: a) b = c *: te a b.
Proof. by rewrite /te -mulrA. Qed.
Lemma te_Zr (c : TF) (a b : TG) : te a (c *: b) = c *: te a b.
Proof. by rewrite /te mulrCA. Qed.
Lemma te_nondeg (a : TG) : te a (2%:R : TG) = 0 -> a = 0.
Proof. by move/eqP; rewrite /te mulf_eq0 => /orP [/eqP|]. Qed.

Lemma t_natF_inj (i j : nat) : (i <= 4)%N -> (j <= 4)%N -> i%:R = j%:R :> TF -> i = j.
Proof.
case: i => [|[|[|[|[|i]]]]] //; case: j => [|[|[|[|[|j]]]]] // _ _ /eqP; by vm_compute.
Qed.

(* pairing the shares with the sorted signer list instead of the given one is a different (wrong) aggregation *)
Lemma sorted_pairing_refuted :
  bls_pairs_case 0 4 3 [:: 2%N; 3%N; 1%N] [:: 2%N; 3%N; 1%N] = (true, true) /\
  bls_pairs_case 0 4 3 (sort leq [:: 2%N; 3%N; 1%N]) [:: 2%N; 3%N; 1%N] = (false, false) /\
  bls_pairs_case 0 4 3 [:: 2%N; 3%N; 1%N] [:: 1%N; 2%N; 3%N] = (false, false).
Proof. by vm_compute. Qed.

(* ---- party identifiers versus ranks (C08) ----
   parties = identifiers in rank order; the witnesses are made with the shares of the ranks; fix_rank = false combines them
   at the identifiers (the pinned ProveKnowledgeOfSignature), fix_rank = true at the ranks (repaired) *)
Definition pok_ids_case (fix_rank : bool) (w N t L : nat) (pat : seq nat) (parties sids : seq nat) : bool :=
  let ws := [seq t_witness w N t L 1 pat (rank_of parties id) | id <- sids] in
  let s' := (1 + 10 * w)%N in
  verify_pok te tRO2 (tpp L) (t_tpk w N t L 0)
    (prove_knowledge_ids tRO2 fix_rank (tpp L) (t_tpk w N t L 0) (t_blind L s' pat).2 parties sids ws
       (nonce s' 30) (nonce s' 31) (nonce s' 32) (mkseq (fun i => nonce s' (40 + i)) L.+1)).

(* parties {1,2,4}, t = 2, signers {1,4}: combined at the identifiers 1 and 4 the honest proof is rejected, combined at the
   ranks 1 and 3 it verifies; signers {1,2} (identifier = rank) verify either way *)
Lemma identifier_points_refuted :
  pok_ids_case false 0 3 2 1 [:: 1%N] [:: 1; 2; 4]%N [:: 1; 4]%N = false /\
  pok_ids_case true 0 3 2 1 [:: 1%N] [:: 1; 2; 4]%N [:: 1; 4]%N = true /\
  pok_ids_case false 0 3 2 1 [:: 1%N] [:: 1; 2; 4]%N [:: 1; 2]%N = true.
Proof. by vm_compute. Qed.
