(* Correspondence evaluation for concurrent schedules on msg.Box (C14). *)
Require Import TSS.Base.Base TSS.Box.Model TSS.Box.Conc TSS.Corr.BoxCorr.
From Coq Require Import Arith.

Record cgrant := mkCG { cg_thread : nat; cg_hand : list bmsg; cg_fwd : list topic }.
Record cscen := mkCScen { cs_limit : nat; cs_maxt : nat; cs_threads : list pc; cs_grants : list cgrant;
                          cs_pending : list (topic * list bmsg); cs_inflight : list (N * list topic);
                          cs_started : list topic }.

Definition co_hand (o : list cout) : list bmsg := flat_map (fun x => match x with CHandoff m => [m] | _ => [] end) o.
Definition co_fwd (o : list cout) : list topic := flat_map (fun x => match x with CForward t => [t] | _ => [] end) o.

Definition grant_ok (o : list cout) (g : cgrant) : bool :=
  list_eqb msg_eqb (co_hand o) (cg_hand g) && list_eqb bytes_eqb (co_fwd o) (cg_fwd g).

Definition cfinal_ok (s : cscen) (b : cbox) : bool :=
  Nat.eqb (length (cpend b)) (length (cs_pending s)) &&
  forallb (fun '(t, msgs) => list_eqb msg_eqb (cbuffered b t) msgs) (cs_pending s) &&
  forallb (fun '(src, ts) => seteq (ctopics b src) ts) (cs_inflight s) &&
  forallb (fun '(src, ts) => match ts with [] => true | _ => existsb (fun '(s', _) => s' =? src) (cs_inflight s) end) (cinfl b) &&
  seteq (cstart b) (cs_started s).

Fixpoint run_grants (lim maxt : nat) (b : cbox) (ths : list pc) (gs : list cgrant) (i : nat) : cbox * option nat :=
  match gs with
  | [] => (b, None)
  | g :: rest =>
      match nth_error ths (cg_thread g) with
      | None => (b, Some i)
      | Some p => let '(b', p', o) := tstep lim maxt b p in
                  if grant_ok o g then run_grants lim maxt b' (set_nth ths (cg_thread g) p') rest (S i) else (b', Some i)
      end
  end.

Definition check_cscen (s : cscen) : option nat :=
  match run_grants (cs_limit s) (cs_maxt s) cbox0 (cs_threads s) (cs_grants s) 0 with
  | (_, Some i) => Some i
  | (b, None) => if cfinal_ok s b then None else Some (length (cs_grants s))
  end.

Fixpoint cmismatches_from (l : list cscen) (i : nat) : list (nat * nat) :=
  match l with
  | [] => []
  | s :: t => match check_cscen s with
              | None => cmismatches_from t (S i)
              | Some j => (i, j) :: cmismatches_from t (S i)
              end
  end.
Definition cmismatches (l : list cscen) : list (nat * nat) := cmismatches_from l 0.
